/-
C18: `pad` (tensor.py 237-258) is `np.pad` of the expansion.
-/
import Pyiga.Proofs.TensorNway

set_option linter.unusedSectionVars false
set_option linter.unusedSimpArgs false
set_option linter.unusedVariables false

namespace Pyiga.Tensor
open Pyiga.Index

variable {α : Type} [CommRing α]

theorem sumN_delta_shift (n b i : Nat) (f : Nat → α) :
    sumN n (fun j => (if i = b + j then (1 : α) else 0) * f j) = if b ≤ i ∧ i < b + n then f (i - b) else 0 := by
  by_cases h : b ≤ i ∧ i < b + n
  · rw [if_pos h]
    have : ∀ j, (if i = b + j then (1 : α) else 0) * f j = if j = i - b then f j else 0 := by
      intro j
      by_cases hj : j = i - b
      · subst hj
        have : i = b + (i - b) := by omega
        rw [if_pos this, if_pos rfl, one_mul]
      · have : ¬ i = b + j := by omega
        rw [if_neg this, if_neg hj, zero_mul]
    rw [sumN_congr _ _ _ (fun j _ => this j), sumN_ite_eq _ _ (by omega)]
  · rw [if_neg h]
    refine sumN_eq_zero _ _ (fun j hj => ?_)
    have : ¬ i = b + j := by omega
    rw [if_neg this, zero_mul]

/-- the operator list built by `pad` -/
def padOps (pw : List (Option (Nat × Nat))) (s : List Nat) : List (Option (Mat α)) :=
  (pw.zip s).map (fun p => p.1.map (fun ba => padMat p.2 ba.1 ba.2))

/-- `None` is `(0,0)` -/
def padWidths (pw : List (Option (Nat × Nat))) : List (Nat × Nat) := pw.map (fun o => o.getD (0, 0))

theorem padOps_shape : ∀ (pw : List (Option (Nat × Nat))) (s : List Nat), pw.length = s.length →
    nwayShape (padOps (α := α) pw s) s = some (padShape (padWidths pw) s)
  | [], [], _ => rfl
  | none :: pw, n :: s, h => by
    have := padOps_shape pw s (by simpa using h)
    simp only [padOps] at this
    simp [padOps, padWidths, nwayShape, padShape, this]
  | some (b, a) :: pw, n :: s, h => by
    have := padOps_shape pw s (by simpa using h)
    simp only [padOps, padWidths] at this
    simp only [padOps, padWidths, List.zip_cons_cons, List.map_cons, Option.map_some, nwayShape,
      Option.getD_some, padShape]
    have hc : (padMat (α := α) n b a).cols = n := rfl
    rw [if_pos hc, this]
    rfl
  | [], _ :: _, h => by simp at h
  | _ :: _, [], h => by simp at h

theorem padOps_entry : ∀ (pw : List (Option (Nat × Nat))) (s I : List Nat) (x : List Nat → α),
    pw.length = s.length → inBox I (padShape (padWidths pw) s) = true →
    nwayEntry (padOps pw s) I x = padEntry (padWidths pw) s I x
  | [], [], I, x, _, hI => by
    cases I with
    | nil => rfl
    | cons _ _ => simp [padWidths, padShape, inBox] at hI
  | none :: pw, n :: s, I, x, h, hI => by
    cases I with
    | nil => simp [padWidths, padShape, inBox] at hI
    | cons i I =>
      have hI' : i < 0 + n + 0 ∧ inBox I (padShape (padWidths pw) s) = true := by
        simpa [padWidths, padShape] using hI
      have ih := padOps_entry pw s I (fun K => x (i :: K)) (by simpa using h) hI'.2
      simp only [padOps] at ih
      simp only [padOps, padWidths, List.zip_cons_cons, List.map_cons, Option.map_none, nwayEntry,
        Option.getD_none, padEntry_cons]
      rw [if_pos (by omega)]
      simpa [padWidths] using ih
  | some (b, a) :: pw, n :: s, I, x, h, hI => by
    cases I with
    | nil => simp [padWidths, padShape, inBox] at hI
    | cons i I =>
      have hI' : i < b + n + a ∧ inBox I (padShape (padWidths pw) s) = true := by
        simpa [padWidths, padShape] using hI
      simp only [padOps, padWidths, List.zip_cons_cons, List.map_cons, Option.map_some, nwayEntry,
        Option.getD_some, padEntry_cons]
      have hcols : (padMat (α := α) n b a).cols = n := rfl
      rw [hcols]
      have : ∀ j, (padMat (α := α) n b a).get i j = if i = b + j then 1 else 0 := fun j => rfl
      simp only [this]
      rw [sumN_delta_shift n b i (fun j => nwayEntry ((pw.zip s).map (fun p => p.1.map (fun ba => padMat p.2 ba.1 ba.2))) I (fun J => x (j :: J)))]
      by_cases hc : b ≤ i ∧ i < b + n
      · rw [if_pos hc, if_pos hc]
        have ih := padOps_entry pw s I (fun K => x ((i - b) :: K)) (by simpa using h) hI'.2
        simpa [padOps, padWidths] using ih
      · rw [if_neg hc, if_neg hc]
  | [], _ :: _, _, _, h, _ => by simp at h
  | _ :: _, [], _, _, h, _ => by simp at h

/-- `pad(T, pad_width)` for ndarray / Canonical / Tucker operands: same as `np.pad` of the expansion -/
theorem pad_leaf_spec (T T' : Ten α) (pw : List (Option (Nat × Nat))) (hw : T.WF) (hleaf : T.isLeaf)
    (h : T.pad pw = .ok T') :
    T'.WF ∧ T'.isLeaf ∧ T.asarray.pad (padWidths pw) = .ok T'.asarray := by
  simp only [Ten.pad] at h
  split at h
  · cases h
  · rename_i hl
    have hl : pw.length = T.shape.length := by simpa [Ten.ndim] using hl
    have h' : T.nway false (padOps pw T.shape) = .ok T' := h
    obtain ⟨hw', hleaf', hsh, he⟩ := nway_leaf_spec T T' (padOps pw T.shape) hw hleaf h'
    rw [padOps_shape (α := α) pw T.shape hl] at hsh
    injection hsh with hsh
    refine ⟨hw', hleaf', ?_⟩
    have hlen : (padWidths pw).length = T.asarray.ndim := by
      simp [padWidths, hl, Full.ndim, Ten.asarray]
    simp only [Full.pad]
    rw [if_pos hlen]
    congr 1
    show Full.ofFn (padShape (padWidths pw) T.shape) (fun J => padEntry (padWidths pw) T.shape J T.asarray.get)
      = Full.ofFn T'.shape T'.entry
    rw [← hsh]
    refine ofFn_congr _ _ _ (fun I hI => ?_)
    rw [he I (by rw [← hsh]; exact hI)]
    exact (padOps_entry pw T.shape I T.asarray.get hl hI).symm

end Pyiga.Tensor
