/-
L-hier: truncation algebra at matrix level (`truncate_one_level`, `thb_to_hb`, `hb_to_thb`).

`truncate_one_level(k)` returns `I - A_k` (`inverse=True`: `I + A_k`) where the only non-zero block
of `A_k` sits in the rows of the active functions of level `k+1` (`nt[k] ≤ i`) and the columns of the
active functions of levels `≤ k` (`j < nt[k]`).  Everything below is algebra over an arbitrary ring
from that block shape alone; the shape itself is checked on the real matrices by the harness.
-/
import Mathlib.Data.Matrix.Mul
import Mathlib.Algebra.BigOperators.Group.Finset.Basic
import Mathlib.Tactic.NoncommRing

namespace Pyiga.Hier.Trunc
open Matrix

variable {R : Type} [Ring R] {N : Nat}

/-- block shape of the truncation matrix `A_k`: non-zeros only in rows `≥ a`, columns `< a`
(`a = nt[k]`) -/
def StrictBlock (a : Nat) (A : Matrix (Fin N) (Fin N) R) : Prop :=
  ∀ i j, A i j ≠ 0 → a ≤ i.val ∧ j.val < a

theorem sq_zero_of_strictBlock {a : Nat} {A : Matrix (Fin N) (Fin N) R} (h : StrictBlock a A) :
    A * A = 0 := by
  ext i j
  rw [Matrix.mul_apply]
  simp only [Matrix.zero_apply]
  apply Finset.sum_eq_zero
  intro l _
  by_cases h1 : A i l = 0
  · rw [h1, zero_mul]
  · by_cases h2 : A l j = 0
    · rw [h2, mul_zero]
    · have := (h i l h1).2
      have := (h l j h2).1
      omega

/-- `truncate_one_level(k, inverse=True)` is a two-sided inverse of `truncate_one_level(k)` -/
theorem truncate_inverse_pair {A : Matrix (Fin N) (Fin N) R} (h : A * A = 0) :
    (1 + A) * (1 - A) = 1 ∧ (1 - A) * (1 + A) = 1 := by
  constructor
  · have : (1 + A) * (1 - A) = 1 - A * A := by noncomm_ring
    rw [this, h, sub_zero]
  · have : (1 - A) * (1 + A) = 1 - A * A := by noncomm_ring
    rw [this, h, sub_zero]

/-- `thb_to_hb()`: `T = T_0; for k ≥ 1: T = truncate_one_level(k) @ T` -/
def thbToHb (As : List (Matrix (Fin N) (Fin N) R)) : Matrix (Fin N) (Fin N) R :=
  As.foldl (fun T A => (1 - A) * T) 1

/-- `hb_to_thb()`: `T = T_0⁻¹; for k ≥ 1: T = T @ truncate_one_level(k, inverse=True)` -/
def hbToThb (As : List (Matrix (Fin N) (Fin N) R)) : Matrix (Fin N) (Fin N) R :=
  As.foldl (fun T A => T * (1 + A)) 1

theorem fold_inverse (As : List (Matrix (Fin N) (Fin N) R)) (hA : ∀ A ∈ As, A * A = 0) :
    ∀ (H T : Matrix (Fin N) (Fin N) R), H * T = 1 → T * H = 1 →
      (As.foldl (fun T A => T * (1 + A)) H) * (As.foldl (fun T A => (1 - A) * T) T) = 1 ∧
      (As.foldl (fun T A => (1 - A) * T) T) * (As.foldl (fun T A => T * (1 + A)) H) = 1 := by
  induction As with
  | nil => intro H T h1 h2; exact ⟨h1, h2⟩
  | cons A As ih =>
    intro H T h1 h2
    simp only [List.foldl_cons]
    have hp := truncate_inverse_pair (hA A (List.mem_cons_self ..))
    apply ih (fun B hB => hA B (List.mem_cons_of_mem _ hB))
    · calc H * (1 + A) * ((1 - A) * T) = H * (((1 + A) * (1 - A)) * T) := by noncomm_ring
        _ = 1 := by rw [hp.1, one_mul, h1]
    · calc (1 - A) * T * (H * (1 + A)) = (1 - A) * ((T * H) * (1 + A)) := by noncomm_ring
        _ = 1 := by rw [h2, one_mul, hp.2]

/-- **HB ↔ THB transforms are mutually inverse**, for any number of levels -/
theorem hb_thb_inverse (As : List (Matrix (Fin N) (Fin N) R)) (hA : ∀ A ∈ As, A * A = 0) :
    hbToThb As * thbToHb As = 1 ∧ thbToHb As * hbToThb As = 1 :=
  fold_inverse As hA 1 1 (one_mul 1) (one_mul 1)

end Pyiga.Hier.Trunc
