/-
C18: `CanonicalTensor.from_tensor(TuckerTensor)` (tensor.py 732-747): one rank-one term per non-zero core
entry represents the same tensor.
-/
import Pyiga.Proofs.TensorOps

set_option linter.unusedSectionVars false
set_option linter.unusedSimpArgs false
set_option linter.unusedVariables false

namespace Pyiga.Tensor
open Pyiga.Index

variable {α : Type} [CommRing α]

/-- weight of core entry `J` in entry `I` of the expansion: `Π_k U_k[i_k, j_k]` -/
def wgt : List (Mat α) → List Nat → List Nat → α
  | U :: Us, i :: I, j :: J => U.get i j * wgt Us I J
  | _, _, _ => 1

theorem sumL_flatMap_range {β : Type} (n : Nat) (f : Nat → List β) (g : β → α) :
    sumL (((List.range n).flatMap f).map g) = sumN n (fun j => sumL ((f j).map g)) := by
  induction n with
  | zero => simp
  | succ n ih =>
    rw [List.range_succ, List.flatMap_append, List.map_append, sumL_append, ih, sumN_succ]
    simp

/-- the Tucker expansion as one sum over the box of the core -/
theorem nway_eq_boxsum : ∀ (Us : List (Mat α)) (I : List Nat) (x : List Nat → α), I.length = Us.length →
    nwayEntry (Us.map some) I x = sumL ((box (Us.map (·.cols))).map (fun J => x J * wgt Us I J))
  | [], [], x, _ => by simp [nwayEntry, box, wgt]
  | U :: Us, i :: I, x, h => by
    simp only [List.map_cons, nwayEntry, box]
    rw [sumL_flatMap_range]
    refine sumN_congr _ _ _ (fun j _ => ?_)
    rw [nway_eq_boxsum Us I (fun J => x (j :: J)) (by simpa using h), List.map_map, ← sumL_map_mul_left]
    refine sumL_map_congr _ _ _ (fun J _ => ?_)
    simp only [Function.comp, wgt]; ring
  | [], _ :: _, _, h => by simp at h
  | _ :: _, [], _, h => by simp at h

theorem sumN_getD {β : Type} (d : β) (g : β → α) : ∀ (l : List β),
    sumN l.length (fun t => g (l.getD t d)) = sumL (l.map g)
  | [] => rfl
  | a :: l => by
    rw [List.length_cons, sumN_succ']
    simp only [List.getD_cons_zero, List.getD_cons_succ, List.map_cons, sumL_cons]
    rw [sumN_getD d g l]

theorem sumL_filter_zero {β : Type} (p : β → Bool) (g : β → α) : ∀ (l : List β),
    (∀ x ∈ l, p x = false → g x = 0) → sumL ((l.filter p).map g) = sumL (l.map g)
  | [], _ => rfl
  | a :: l, h => by
    have ih := sumL_filter_zero p g l (fun x hx => h x (by simp [hx]))
    by_cases hp : p a = true
    · simp [List.filter_cons, hp, ih]
    · have hp' : p a = false := by simpa using hp
      simp [List.filter_cons, hp', ih, h a (by simp) hp']

/-- the factor matrices built in `from_tensor` for the list of kept core positions -/
def t2cFactors (X : Full α) (terms : List (List Nat)) (Us : List (Mat α)) (k0 : Nat) : List (Mat α) :=
  (Us.zipIdx k0).map (fun (U, k) =>
    (⟨U.rows, terms.length, fun i t =>
        let J := terms.getD t []
        if k = 0 then X.get J * U.get i (J.getD k 0) else U.get i (J.getD k 0)⟩ : Mat α))

theorem t2cFactors_rows (X : Full α) (terms : List (List Nat)) : ∀ (Us : List (Mat α)) (k0 : Nat),
    (t2cFactors X terms Us k0).map (·.rows) = Us.map (·.rows)
  | [], _ => rfl
  | U :: Us, k0 => by
    simp only [t2cFactors, List.zipIdx_cons, List.map_cons]
    have := t2cFactors_rows X terms Us (k0 + 1)
    simp only [t2cFactors] at this
    rw [this]

/-- product of the factors `k0 ≥ 1 …` of term `t` -/
theorem t2c_term_tail (X : Full α) (terms : List (List Nat)) (t : Nat) :
    ∀ (Us : List (Mat α)) (I : List Nat) (k0 : Nat) (J' : List Nat), 0 < k0 →
    (terms.getD t []).drop k0 = J' → J'.length = Us.length →
    canTerm (t2cFactors X terms Us k0) I t = wgt Us I J'
  | [], I, k0, J', _, _, _ => by simp [t2cFactors, canTerm, wgt]
  | U :: Us, [], k0, J', _, _, _ => by simp [t2cFactors, canTerm, wgt]
  | U :: Us, i :: I, k0, [], _, _, hl => by simp at hl
  | U :: Us, i :: I, k0, j :: J'', hk, hd, hl => by
    have hget : (terms.getD t []).getD k0 0 = j := by
      have := congrArg (fun l => l[0]?) hd
      simp only [List.getElem?_drop, Nat.add_zero, List.getElem?_cons_zero] at this
      rw [List.getD_eq_getElem?_getD, this]; rfl
    have hdrop : (terms.getD t []).drop (k0 + 1) = J'' := by
      have := congrArg (List.drop 1) hd
      simpa [List.drop_drop, Nat.add_comm] using this
    have ih := t2c_term_tail X terms t Us I (k0 + 1) J'' (by omega) hdrop (by simpa using hl)
    simp only [t2cFactors, List.zipIdx_cons, List.map_cons, canTerm, List.zip_cons_cons, prodL_cons] at ih ⊢
    rw [ih]
    have hk0 : ¬ k0 = 0 := by omega
    simp only [wgt, if_neg hk0, hget]

/-- term `t` of the converted tensor is `X[J_t] · Π_k U_k[i_k, (J_t)_k]` -/
theorem t2c_term (X : Full α) (terms : List (List Nat)) (t : Nat) (U : Mat α) (Us : List (Mat α))
    (I : List Nat) (hI : I.length = (U :: Us).length) (hJ : (terms.getD t []).length = (U :: Us).length) :
    canTerm (t2cFactors X terms (U :: Us) 0) I t = X.get (terms.getD t []) * wgt (U :: Us) I (terms.getD t []) := by
  cases I with
  | nil => simp at hI
  | cons i I =>
    cases hJt : terms.getD t [] with
    | nil => rw [hJt] at hJ; simp at hJ
    | cons j J'' =>
      have ih := t2c_term_tail X terms t Us I 1 J'' (by omega) (by rw [hJt]; rfl)
        (by rw [hJt] at hJ; simpa using hJ)
      simp only [t2cFactors, List.zipIdx_cons, List.map_cons, canTerm, List.zip_cons_cons, prodL_cons,
        Nat.zero_add] at ih ⊢
      rw [ih]
      simp only [wgt, ↓reduceIte, hJt, List.getD_cons_zero]; ring

end Pyiga.Tensor

namespace Pyiga.Tensor
open Pyiga.Index
variable {α : Type} [CommRing α]

theorem mem_box_length : ∀ (s J : List Nat), J ∈ box s → J.length = s.length
  | [], J, h => by simp [box] at h; subst h; rfl
  | n :: s, J, h => by
    simp only [box, List.mem_flatMap, List.mem_map] at h
    obtain ⟨i, _, J', hJ', rfl⟩ := h
    simp [mem_box_length s J' hJ']

/-- `CanonicalTensor.from_tensor(TuckerTensor(Us, X))` -/
theorem t2c_spec [DecidableEq α] (Us : List (Mat α)) (X : Full α) (T' : Ten α)
    (hw : Us.map (·.cols) = X.shape) (h : canFromTensor (.tucker Us X) = .ok T') :
    T'.WF ∧ T'.shape = Us.map (·.rows) ∧ ∀ I, I.length = Us.length → T'.entry I = tuckerEntry Us X I := by
  simp only [canFromTensor] at h
  split at h
  · -- no non-zero core entry
    rename_i hemp
    simp only [canZeros] at h
    obtain ⟨rfl, hne, hc⟩ := mkCan_ok _ _ h
    refine ⟨⟨hne, hc⟩, by simp [Ten.shape, Mat.zeros, Function.comp], fun I hI => ?_⟩
    have hzero : ∀ J ∈ box X.shape, X.get J = 0 := by
      intro J hJ
      have : List.filter (fun J => decide (X.get J ≠ 0)) (box X.shape) = [] := by
        simpa [List.isEmpty_iff] using hemp
      have := (List.filter_eq_nil_iff.1 this) J hJ
      simpa using this
    simp only [Ten.entry, tuckerEntry]
    rw [nway_eq_boxsum Us I X.get hI, hw]
    rw [sumL_map_congr _ _ (fun _ => 0) (fun J hJ => by rw [hzero J hJ]; ring), sumL_map_zero]
    cases Us with
    | nil => simp at hne
    | cons U Us => simp [canEntry, canR, Mat.zeros]
  · rename_i hemp
    obtain ⟨hT, hne, hc⟩ := mkCan_ok _ _ h
    have hT' : T' = .can (t2cFactors X ((box X.shape).filter (fun J => X.get J ≠ 0)) Us 0) := hT
    subst hT'
    refine ⟨⟨hne, hc⟩, by simp only [Ten.shape]; exact t2cFactors_rows X _ Us 0, fun I hI => ?_⟩
    cases Us with
    | nil => simp [t2cFactors] at hne
    | cons U Us =>
      simp only [Ten.entry, tuckerEntry]
      rw [nway_eq_boxsum (U :: Us) I X.get hI, hw]
      have hR : canR (t2cFactors X ((box X.shape).filter (fun J => X.get J ≠ 0)) (U :: Us) 0)
          = ((box X.shape).filter (fun J => X.get J ≠ 0)).length := rfl
      rw [canEntry_eq, hR]
      have hterm : ∀ t, t < ((box X.shape).filter (fun J => X.get J ≠ 0)).length →
          canTerm (t2cFactors X ((box X.shape).filter (fun J => X.get J ≠ 0)) (U :: Us) 0) I t
            = (fun J => X.get J * wgt (U :: Us) I J) (((box X.shape).filter (fun J => X.get J ≠ 0)).getD t []) := by
        intro t ht
        refine t2c_term X _ t U Us I hI ?_
        have hmem : ((box X.shape).filter (fun J => X.get J ≠ 0)).getD t [] ∈ box X.shape := by
          rw [List.getD_eq_getElem?_getD, List.getElem?_eq_getElem ht]
          exact (List.mem_filter.1 (List.getElem_mem ht)).1
        rw [mem_box_length _ _ hmem, ← hw]; simp
      rw [sumN_congr _ _ _ hterm, sumN_getD [] (fun J => X.get J * wgt (U :: Us) I J)]
      refine sumL_filter_zero _ _ _ (fun J _ hp => ?_)
      have : X.get J = 0 := by simpa using hp
      rw [this]; ring

end Pyiga.Tensor
