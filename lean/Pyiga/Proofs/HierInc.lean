/-
L-hier: the incidence matrix.  `incidence_matrix()` is refined to a cell-level description:
the row of an active function `f` of level `k` lists (in canonical active-cell numbers) exactly
the active cells of levels `≥ k` whose level-`k` ancestor lies in the support of `f`.
-/
import Pyiga.Proofs.HierCover
import Pyiga.Proofs.HierTP
import Pyiga.Proofs.HierOrder

namespace Pyiga.Hier

/-! ### positions in duplicate-free lists -/

theorem indexOf_lt_of_mem {l : List Idx} {x : Idx} (h : x ∈ l) : indexOf l x < l.length :=
  List.findIdx_lt_length_of_exists ⟨x, h, by simp⟩

theorem getD_indexOf {l : List Idx} {x : Idx} (h : x ∈ l) (d : Idx) : l.getD (indexOf l x) d = x := by
  have hlt := indexOf_lt_of_mem h
  have := List.findIdx_getElem (xs := l) (p := (· == x)) (w := hlt)
  simp only [beq_iff_eq] at this
  rw [List.getD_eq_getElem?_getD, List.getElem?_eq_getElem hlt]
  exact this

theorem indexOf_append_left {a b : List Idx} {x : Idx} (h : x ∈ a) :
    indexOf (a ++ b) x = indexOf a x := by
  have := indexOf_lt_of_mem h
  unfold indexOf at this ⊢
  rw [List.findIdx_append, if_pos this]

theorem indexOf_append_right {a b : List Idx} {x : Idx} (h : x ∉ a) :
    indexOf (a ++ b) x = a.length + indexOf b x := by
  unfold indexOf
  have : a.findIdx (· == x) = a.length := by
    rw [List.findIdx_eq_length]
    intro y hy
    simp only [beq_eq_false_iff_ne]
    intro e; subst e; exact h hy
  rw [List.findIdx_append, this, if_neg (Nat.lt_irrefl _), Nat.add_comm]

/-! ### column numbers -/

theorem nacUpTo_succ (levels : List Level) (t : Nat) (ht : t < levels.length) :
    nacUpTo levels (t + 1) = nacUpTo levels t + (lvl levels t).act.length := by
  unfold nacUpTo
  rw [List.take_add_one, List.sum_append]
  congr 1
  simp [lvl, List.getD_eq_getElem?_getD, List.getElem?_eq_getElem ht]

theorem nacUpTo_mono (levels : List Level) (a b : Nat) (hab : a ≤ b) :
    nacUpTo levels a ≤ nacUpTo levels b := by
  obtain ⟨d, rfl⟩ : ∃ d, b = a + d := ⟨b - a, by omega⟩
  clear hab
  induction d with
  | zero => exact Nat.le_refl _
  | succ d ih =>
    by_cases hm : a + d < levels.length
    · rw [show a + (d + 1) = a + d + 1 by omega, nacUpTo_succ levels (a + d) hm]; omega
    · have : nacUpTo levels (a + (d + 1)) = nacUpTo levels (a + d) := by
        unfold nacUpTo
        rw [List.take_of_length_le (by simp; omega), List.take_of_length_le (by simp; omega)]
      omega

section enc
variable (levels : List Level)

theorem enc_active {t : Nat} {c : Idx} (ht : t < levels.length) (hc : c ∈ (lvl levels t).act) :
    encCell levels t c = nacUpTo levels t + indexOf (sortIdx (lvl levels t).act) c ∧
    encCell levels t c < nacUpTo levels (t + 1) := by
  simp only [lvl] at hc ⊢
  have hm : c ∈ sortIdx (levels.getD t emptyLevel).act := mem_sortIdx.2 hc
  have e : encCell levels t c = nacUpTo levels t + indexOf (sortIdx (lvl levels t).act) c := by
    unfold encCell cellIndexAt
    rw [indexOf_append_left hm]
  refine ⟨e, ?_⟩
  rw [e, nacUpTo_succ levels t ht]
  have := indexOf_lt_of_mem hm
  rw [length_sortIdx] at this
  simp only [lvl] at this ⊢
  omega

theorem enc_deact {t : Nat} {c : Idx} (ht : t < levels.length) (hc : c ∈ (lvl levels t).deact)
    (hn : c ∉ (lvl levels t).act) :
    nacUpTo levels (t + 1) ≤ encCell levels t c ∧
    (cellIndexAt levels t).getD (encCell levels t c - nacUpTo levels (t + 1) + (lvl levels t).act.length) [] = c := by
  have hsucc : nacUpTo levels (t + 1) = nacUpTo levels t + (levels.getD t emptyLevel).act.length :=
    nacUpTo_succ levels t ht
  simp only [lvl] at hc hn ⊢
  have hm : c ∈ sortIdx (levels.getD t emptyLevel).deact := mem_sortIdx.2 hc
  have hn' : c ∉ sortIdx (levels.getD t emptyLevel).act := fun h => hn (mem_sortIdx.1 h)
  have e : encCell levels t c
      = nacUpTo levels (t + 1) + indexOf (sortIdx (levels.getD t emptyLevel).deact) c := by
    unfold encCell cellIndexAt
    rw [indexOf_append_right hn', length_sortIdx, hsucc]
    omega
  refine ⟨by omega, ?_⟩
  rw [e]
  unfold cellIndexAt
  have hi := indexOf_lt_of_mem hm
  rw [List.getD_eq_getElem?_getD, List.getElem?_append_right (by rw [length_sortIdx]; omega), length_sortIdx]
  have : nacUpTo levels (t + 1) + indexOf (sortIdx (levels.getD t emptyLevel).deact) c - nacUpTo levels (t + 1)
      + (levels.getD t emptyLevel).act.length - (levels.getD t emptyLevel).act.length
      = indexOf (sortIdx (levels.getD t emptyLevel).deact) c := by omega
  rw [this, ← List.getD_eq_getElem?_getD]
  exact getD_indexOf hm []

end enc

/-! ### cell-level rows -/

/-- one prolongation step on a row of `(level, cell)` pairs: a deactivated cell of level `t` is
replaced by its children -/
def cellStep (levels : List Level) (t : Nat) (row : List (Nat × Idx)) : List (Nat × Idx) :=
  row.flatMap (fun mc =>
    if mc.1 = t ∧ mc.2 ∈ (lvl levels t).deact then (childrenOne mc.2).map (fun c' => (t + 1, c'))
    else [mc])

def encP (levels : List Level) (mc : Nat × Idx) : Nat := encCell levels mc.1 mc.2

/-- the numeric prolongation step is the cell-level step, for rows whose entries are active cells
of levels `< t` or cells of the level-`t` refinement region -/
theorem incProl_eq (levels : List Level) (t : Nat) (ht : t < levels.length)
    (hdisj : ∀ c, c ∈ (lvl levels t).act → c ∉ (lvl levels t).deact) :
    ∀ (row : List (Nat × Idx)),
      (∀ mc ∈ row, (mc.1 < t ∧ mc.2 ∈ (lvl levels mc.1).act) ∨
        (mc.1 = t ∧ (mc.2 ∈ (lvl levels t).act ∨ mc.2 ∈ (lvl levels t).deact))) →
      incProl levels t (row.map (encP levels)) = (cellStep levels t row).map (encP levels)
  | [], _ => rfl
  | mc :: row, h => by
    have ih := incProl_eq levels t ht hdisj row (fun x hx => h x (List.mem_cons_of_mem _ hx))
    have hmc := h mc (List.mem_cons_self ..)
    unfold incProl cellStep at ih ⊢
    simp only [List.map_cons, List.flatMap_cons, List.map_append]
    rw [ih]
    congr 1
    rcases hmc with ⟨hlt, hact⟩ | ⟨heq, hact | hde⟩
    · have hlt' : mc.1 < levels.length := by omega
      have h1 := (enc_active levels hlt' hact).2
      have h2 := nacUpTo_mono levels (mc.1 + 1) (t + 1) (by omega)
      rw [if_pos (show encP levels mc < nacUpTo levels (t + 1) by unfold encP; omega),
        if_neg (by omega)]
      rfl
    · obtain ⟨m, c⟩ := mc
      simp only at heq hact
      subst heq
      have h1 := (enc_active levels ht hact).2
      rw [if_pos (show encP levels (m, c) < nacUpTo levels (m + 1) from h1),
        if_neg (fun hh => hdisj c hact hh.2)]
      rfl
    · obtain ⟨m, c⟩ := mc
      simp only at heq hde
      subst heq
      have hn : c ∉ (lvl levels m).act := fun ha => hdisj c ha hde
      obtain ⟨h1, h2⟩ := enc_deact levels ht hde hn
      rw [if_neg (show ¬ encP levels (m, c) < nacUpTo levels (m + 1) from Nat.not_lt.2 h1),
        if_pos ⟨rfl, hde⟩]
      show List.map (encCell levels (m + 1)) (childrenOne ((cellIndexAt levels m).getD
          (encCell levels m c - nacUpTo levels (m + 1) + (levels.getD m emptyLevel).act.length) [])) = _
      rw [show (levels.getD m emptyLevel) = lvl levels m from rfl, h2, List.map_map]
      rfl


/-! ### membership in the cell-level rows -/

section rows
variable (kvs : Mesh) (levels : List Level)

/-- `incidence_1level(k)` row of `f` as `(level, cell)` pairs -/
def rowInit (k : Nat) (f : Idx) : List (Nat × Idx) :=
  ((meshAt kvs k).support [f]).map (fun c => (k, c))

/-- the row after the prolongation steps `t < n` (only steps `t ≥ k` act on a level-`k` row) -/
def cellRow (n k : Nat) (f : Idx) : List (Nat × Idx) :=
  (List.range n).foldl (fun r t => if k ≤ t then cellStep levels t r else r) (rowInit kvs k f)

/-- invariant of a level-`k` row expressed on level `t` -/
def RowInv (k : Nat) (f : Idx) (t : Nat) (row : List (Nat × Idx)) : Prop :=
  ∀ m c, (m, c) ∈ row ↔ k ≤ m ∧ m ≤ t ∧ anc parTp (m - k) c ∈ (meshAt kvs k).support [f] ∧
    InΩ levels m c ∧ (m < t → c ∈ (lvl levels m).act)

variable {kvs levels}
variable (hg : ∀ kv ∈ kvs, GoodKV kv)
variable (hinv : Inv (tpOps kvs) (VCtp kvs) (VFtp kvs) parTp 0 (VCtp kvs 0) levels)

include hinv in
theorem rowInv_init (k : Nat) (hk : k < levels.length) (f : Idx) (hf : f ∈ (lvl levels k).actfun) :
    RowInv kvs levels k f k (rowInit kvs k f) := by
  obtain ⟨Ω, hΩ⟩ := inv_levelOK levels hinv k hk
  have hcov := ((hΩ.actfun_iff f).1 hf).2.1
  intro m c
  simp only [rowInit, List.mem_map, Prod.mk.injEq]
  constructor
  · rintro ⟨c', hc', rfl, rfl⟩
    refine ⟨Nat.le_refl _, Nat.le_refl _, by simpa [anc] using hc', hcov c' hc', fun h => absurd h (Nat.lt_irrefl _)⟩
  · rintro ⟨h1, h2, h3, _, _⟩
    have : m = k := by omega
    subst this
    exact ⟨c, by simpa [anc] using h3, rfl, rfl⟩

include hg hinv in
theorem rowInv_step (k : Nat) (f : Idx) (t : Nat) (hkt : k ≤ t) (ht : t + 1 < levels.length)
    (row : List (Nat × Idx)) (h : RowInv kvs levels k f t row) :
    RowInv kvs levels k f (t + 1) (cellStep levels t row) := by
  obtain ⟨Ω, hΩ⟩ := inv_levelOK levels hinv t (by omega)
  intro m c
  unfold cellStep
  simp only [List.mem_flatMap]
  constructor
  · rintro ⟨⟨m0, c0⟩, hmc, hin⟩
    obtain ⟨h1, h2, h3, h4, h5⟩ := (h m0 c0).1 hmc
    split at hin
    · rename_i hcond
      simp only at hcond
      obtain ⟨rfl, hde⟩ := hcond
      simp only [List.mem_map, Prod.mk.injEq] at hin
      obtain ⟨c', hc', rfl, rfl⟩ := hin
      have hpar : parTp c' = c0 := (mem_childrenOne c0 c').1 hc'
      refine ⟨by omega, Nat.le_refl _, ?_, ?_, fun hh => absurd hh (Nat.lt_irrefl _)⟩
      · rw [show m0 + 1 - k = (m0 - k) + 1 by omega, anc_succ', hpar]; exact h3
      · refine (inv_cover_succ levels hinv m0 ht c').2 ⟨?_, by rw [hpar]; exact hde⟩
        rw [VCtp_succ kvs hg, hpar]
        exact inv_valid levels hinv m0 c0 h4
    · rename_i hcond
      simp only [List.mem_singleton, Prod.mk.injEq] at hin
      obtain ⟨rfl, rfl⟩ := hin
      refine ⟨h1, by omega, h3, h4, ?_⟩
      intro hlt
      by_cases hmt : m < t
      · exact h5 hmt
      · have hmt' : m = t := by omega
        subst hmt'
        rcases h4 with h4 | h4
        · exact h4
        · exact absurd ⟨rfl, h4⟩ hcond
  · rintro ⟨h1, h2, h3, h4, h5⟩
    by_cases hm : m ≤ t
    · have hact := h5 (by omega)
      refine ⟨(m, c), (h m c).2 ⟨h1, hm, h3, h4, fun _ => hact⟩, ?_⟩
      rw [if_neg]
      · simp
      · rintro ⟨rfl, hde⟩
        exact hΩ.disj c hact hde
    · have hm' : m = t + 1 := by omega
      subst hm'
      have hc := (inv_cover_succ levels hinv t ht c).1 h4
      refine ⟨(t, parTp c), (h t (parTp c)).2 ⟨hkt, Nat.le_refl _, ?_, Or.inr hc.2, fun hh => absurd hh (Nat.lt_irrefl _)⟩, ?_⟩
      · rw [← anc_succ', show t - k + 1 = t + 1 - k by omega]; exact h3
      · rw [if_pos ⟨rfl, hc.2⟩]
        exact List.mem_map.2 ⟨c, (mem_childrenOne _ c).2 rfl, rfl⟩

include hg hinv in
theorem rowInv_cellRow (k : Nat) (hk : k < levels.length) (f : Idx) (hf : f ∈ (lvl levels k).actfun) :
    ∀ n, n + 1 ≤ levels.length → RowInv kvs levels k f (max n k) (cellRow kvs levels n k f) := by
  intro n
  induction n with
  | zero =>
    intro _
    rw [Nat.zero_max]
    exact rowInv_init hinv k hk f hf
  | succ n ih =>
    intro hn
    have ih' := ih (by omega)
    unfold cellRow at ih' ⊢
    rw [List.range_succ, List.foldl_append]
    simp only [List.foldl_cons, List.foldl_nil]
    by_cases hkn : k ≤ n
    · rw [if_pos hkn, show max (n + 1) k = n + 1 by omega]
      rw [show max n k = n by omega] at ih'
      exact rowInv_step hg hinv k f n hkn (by omega) _ ih'
    · rw [if_neg hkn, show max (n + 1) k = k by omega]
      rw [show max n k = k by omega] at ih'
      exact ih'

include hg hinv in
/-- **cell-level incidence**: the fully prolonged row of an active function `f` of level `k` consists
of exactly the active cells of levels `≥ k` whose level-`k` ancestor lies in the support of `f`. -/
theorem mem_cellRow_final (k : Nat) (hk : k < levels.length) (f : Idx) (hf : f ∈ (lvl levels k).actfun)
    (m : Nat) (c : Idx) :
    (m, c) ∈ cellRow kvs levels (levels.length - 1) k f ↔
      k ≤ m ∧ m < levels.length ∧ c ∈ (lvl levels m).act ∧
        anc parTp (m - k) c ∈ (meshAt kvs k).support [f] := by
  have h := rowInv_cellRow hg hinv k hk f hf (levels.length - 1) (by omega)
  rw [show max (levels.length - 1) k = levels.length - 1 by omega] at h
  rw [h m c]
  have hlast := inv_last levels 0 _ hinv
  constructor
  · rintro ⟨h1, h2, h3, h4, h5⟩
    refine ⟨h1, by omega, ?_, h3⟩
    by_cases hm : m < levels.length - 1
    · exact h5 hm
    · have : m = levels.length - 1 := by omega
      subst this
      rcases h4 with h4 | h4
      · exact h4
      · simp only [lvl] at h4; rw [hlast] at h4; simp at h4
  · rintro ⟨h1, h2, h3, h4⟩
    exact ⟨h1, by omega, h4, Or.inl h3, fun _ => h3⟩

end rows

/-! ### the numeric rows are the encoded cell-level rows -/

/-- a level-`k` row after the prolongations `t < n` -/
def numRow (levels : List Level) (n k : Nat) (r : List Nat) : List Nat :=
  (List.range n).foldl (fun r t => if k ≤ t then incProl levels t r else r) r

section assemble
variable {kvs : Mesh} {levels : List Level}
variable (hg : ∀ kv ∈ kvs, GoodKV kv)
variable (hinv : Inv (tpOps kvs) (VCtp kvs) (VFtp kvs) parTp 0 (VCtp kvs 0) levels)

include hg hinv in
theorem numRow_eq (k : Nat) (hk : k < levels.length) (f : Idx) (hf : f ∈ (lvl levels k).actfun) :
    ∀ n, n + 1 ≤ levels.length →
      numRow levels n k ((rowInit kvs k f).map (encP levels)) = (cellRow kvs levels n k f).map (encP levels) := by
  intro n
  induction n with
  | zero => intro _; rfl
  | succ n ih =>
    intro hn
    have ih' := ih (by omega)
    have hrow := rowInv_cellRow hg hinv k hk f hf n (by omega)
    unfold numRow cellRow at ih' ⊢
    rw [List.range_succ, List.foldl_append, List.foldl_append]
    simp only [List.foldl_cons, List.foldl_nil]
    rw [ih']
    by_cases hkn : k ≤ n
    · rw [if_pos hkn, if_pos hkn]
      obtain ⟨Ω, hΩ⟩ := inv_levelOK levels hinv n (by omega)
      apply incProl_eq levels n (by omega) hΩ.disj
      rintro ⟨m, c⟩ hmc
      rw [show max n k = n by omega] at hrow
      obtain ⟨_, h2, _, h4, h5⟩ := (hrow m c).1 hmc
      by_cases hlt : m < n
      · exact Or.inl ⟨hlt, h5 hlt⟩
      · have : m = n := by omega
        subst this
        exact Or.inr ⟨rfl, h4⟩
    · rw [if_neg hkn, if_neg hkn]

end assemble

theorem fold_mapFrom_rows {α : Type} (P : Nat → α → α) : ∀ (n : Nat) (res : List (List α)),
    (List.range n).foldl (fun res k => mapFrom (fun j rows => if j ≤ k then rows.map (P k) else rows) 0 res) res
      = mapFrom (fun j rows => rows.map (fun r =>
          (List.range n).foldl (fun r t => if j ≤ t then P t r else r) r)) 0 res := by
  intro n
  induction n with
  | zero =>
    intro res
    simp only [List.range_zero, List.foldl_nil, List.map_id']
    have : ∀ (l : List (List α)) (lv : Nat), mapFrom (fun _ rows => rows) lv l = l := by
      intro l
      induction l with
      | nil => intro _; rfl
      | cons a l ih => intro lv; simp [mapFrom, ih]
    exact (this res 0).symm
  | succ n ih =>
    intro res
    rw [List.range_succ, List.foldl_append]
    simp only [List.foldl_cons, List.foldl_nil]
    rw [ih res, mapFrom_mapFrom]
    apply mapFrom_congr
    intro j rows _ _
    by_cases hj : j ≤ n
    · simp only [if_pos hj, List.map_map, List.foldl_append, List.foldl_cons, List.foldl_nil]
      rfl
    · simp only [if_neg hj, List.foldl_append, List.foldl_cons, List.foldl_nil]

theorem range'_map_eq_mapFrom {α β : Type} (g : Nat → β) : ∀ (l : List α) (lv : Nat),
    (List.range' lv l.length).map g = mapFrom (fun j _ => g j) lv l
  | [], _ => rfl
  | _ :: l, lv => by
    simp only [List.length_cons, List.range'_succ, List.map_cons, mapFrom]
    rw [range'_map_eq_mapFrom g l (lv + 1)]

/-- **`incidence_matrix()` refined to cells.**  On a well-formed level list the rows come in
canonical function order (levels in order, functions sorted) and the row of `f` (level `k`) is the
encoding (`encP`, the canonical active-cell number) of the cell-level row `cellRow … k f`, whose
members are characterised by `mem_cellRow_final`. -/
theorem incidence_eq (s : HSpace) (hg : ∀ kv ∈ s.kvs, GoodKV kv)
    (hinv : Inv (tpOps s.kvs) (VCtp s.kvs) (VFtp s.kvs) parTp 0 (VCtp s.kvs 0) s.levels) :
    s.incidence = (mapFrom (fun k (_ : Level) => (sortIdx (lvl s.levels k).actfun).map
        (fun f => (cellRow s.kvs s.levels (s.levels.length - 1) k f).map (encP s.levels))) 0 s.levels).flatten := by
  unfold HSpace.incidence
  simp only [HSpace.numlevels]
  congr 1
  have hr : (List.range s.levels.length).map (incOne s.kvs s.levels)
      = mapFrom (fun j (_ : Level) => incOne s.kvs s.levels j) 0 s.levels := by
    rw [List.range_eq_range']; exact range'_map_eq_mapFrom (incOne s.kvs s.levels) s.levels 0
  rw [fold_mapFrom_rows, hr, mapFrom_mapFrom]
  apply mapFrom_congr
  intro k _ hk0 hk
  have hk' : k < s.levels.length := by omega
  unfold incOne
  rw [List.map_map]
  apply List.map_congr_left
  intro f hf
  have hf' : f ∈ (lvl s.levels k).actfun := mem_sortIdx.1 hf
  have := numRow_eq hg hinv k hk' f hf' (s.levels.length - 1) (by omega)
  unfold numRow rowInit at this
  simp only [Function.comp, List.map_map] at this ⊢
  exact this

/-! ### `encP` of an active cell is its position in `active_cells(flat=True)` -/

theorem flat_getElem_enc : ∀ (ls : List Level) (lv0 m : Nat) (c : Idx), m < ls.length →
    c ∈ (lvl ls m).act →
    (mapFrom (fun lv (l : Level) => (sortIdx l.act).map (fun c => (lv, c))) lv0 ls).flatten[
        nacUpTo ls m + indexOf (sortIdx (lvl ls m).act) c]? = some (lv0 + m, c)
  | [], _, _, _, h, _ => by simp at h
  | l :: rest, lv0, 0, c, _, hc => by
    have hc' : c ∈ sortIdx l.act := mem_sortIdx.2 (by simpa [lvl] using hc)
    have hlt := indexOf_lt_of_mem hc'
    simp only [mapFrom, List.flatten_cons, nacUpTo, List.take_zero, List.sum_nil, Nat.zero_add, lvl,
      List.getD_cons_zero, Nat.add_zero]
    rw [List.getElem?_append_left (by simpa using hlt), List.getElem?_map,
      List.getElem?_eq_getElem hlt]
    have := getD_indexOf hc' []
    rw [List.getD_eq_getElem?_getD, List.getElem?_eq_getElem hlt] at this
    simp only [Option.getD_some] at this
    simp [this]
  | l :: rest, lv0, m + 1, c, hm, hc => by
    have ih := flat_getElem_enc rest (lv0 + 1) m c (by simpa using hm) (by simpa [lvl] using hc)
    have e1 : nacUpTo (l :: rest) (m + 1) = l.act.length + nacUpTo rest m := by
      simp [nacUpTo]
    have e2 : lvl (l :: rest) (m + 1) = lvl rest m := by simp [lvl]
    simp only [mapFrom, List.flatten_cons]
    rw [e1, e2, List.getElem?_append_right (by simp; omega)]
    simp only [List.length_map, length_sortIdx]
    rw [show l.act.length + nacUpTo rest m + indexOf (sortIdx (lvl rest m).act) c - l.act.length
        = nacUpTo rest m + indexOf (sortIdx (lvl rest m).act) c by omega, ih]
    congr 2; omega

end Pyiga.Hier
