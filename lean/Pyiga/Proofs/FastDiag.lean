/-
Fast diagonalisation algebra (Mathlib matrices over a commutative ring): kept in its own module
because it needs the heavy `Kronecker` / `NonsingularInverse` imports.
-/
import Mathlib.LinearAlgebra.Matrix.Kronecker
import Mathlib.LinearAlgebra.Matrix.NonsingularInverse

namespace Pyiga.Ops

/-! ### fast diagonalisation -/

section fastdiag
open Matrix
open scoped Kronecker
variable {n m K : Type*} [Fintype n] [DecidableEq n] [Fintype m] [DecidableEq m] [CommRing K]

theorem fastdiag_abs (A U V D Dinv : Matrix n n K) (hD : Uᵀ * A * U = D) (hDi : Dinv * D = 1)
    (hUV : U * V = 1) : (U * Dinv * Uᵀ) * A = 1 := by
  have hVU : V * U = 1 := mul_eq_one_comm.1 hUV
  have h1 : Vᵀ * Uᵀ = 1 := by rw [← Matrix.transpose_mul, hUV, Matrix.transpose_one]
  have h2 : Uᵀ * Vᵀ = 1 := by rw [← Matrix.transpose_mul, hVU, Matrix.transpose_one]
  have hA : A = Vᵀ * D * V := by
    rw [← hD]
    calc A = (Vᵀ * Uᵀ) * A * (U * V) := by rw [h1, hUV]; simp
      _ = Vᵀ * (Uᵀ * A * U) * V := by simp only [Matrix.mul_assoc]
  rw [hA]
  calc U * Dinv * Uᵀ * (Vᵀ * D * V) = U * Dinv * (Uᵀ * Vᵀ) * D * V := by simp only [Matrix.mul_assoc]
    _ = U * (Dinv * D) * V := by rw [h2]; simp only [Matrix.mul_one, Matrix.mul_assoc]
    _ = 1 := by rw [hDi, Matrix.mul_one, hUV]

theorem gen_eig_diag (Km M U L : Matrix n n K) (hgen : Km * U = M * U * L) (horth : Uᵀ * M * U = 1) :
    Uᵀ * Km * U = L := by
  calc Uᵀ * Km * U = Uᵀ * (Km * U) := by rw [Matrix.mul_assoc]
    _ = (Uᵀ * M * U) * L := by rw [hgen]; simp only [Matrix.mul_assoc]
    _ = L := by rw [horth, Matrix.one_mul]

theorem gen_eig_inv (M U : Matrix n n K) (horth : Uᵀ * M * U = 1) : U * (Uᵀ * M) = 1 :=
  mul_eq_one_comm.1 horth

theorem fastdiag_one (Km M U L Linv : Matrix n n K) (hgen : Km * U = M * U * L) (horth : Uᵀ * M * U = 1)
    (hL : Linv * L = 1) : (U * Linv * Uᵀ) * Km = 1 :=
  fastdiag_abs Km U (Uᵀ * M) L Linv (gen_eig_diag Km M U L hgen horth) hL (gen_eig_inv M U horth)

theorem fastdiag_two (K1 M1 U1 L1 : Matrix n n K) (K2 M2 U2 L2 : Matrix m m K) (Dinv : Matrix (n × m) (n × m) K)
    (h1 : K1 * U1 = M1 * U1 * L1) (o1 : U1ᵀ * M1 * U1 = 1)
    (h2 : K2 * U2 = M2 * U2 * L2) (o2 : U2ᵀ * M2 * U2 = 1)
    (hD : Dinv * (L1 ⊗ₖ (1 : Matrix m m K) + (1 : Matrix n n K) ⊗ₖ L2) = 1) :
    ((U1 ⊗ₖ U2) * Dinv * (U1 ⊗ₖ U2)ᵀ) * (K1 ⊗ₖ M2 + M1 ⊗ₖ K2) = 1 := by
  apply fastdiag_abs (K1 ⊗ₖ M2 + M1 ⊗ₖ K2) (U1 ⊗ₖ U2) ((U1ᵀ * M1) ⊗ₖ (U2ᵀ * M2))
    (L1 ⊗ₖ (1 : Matrix m m K) + (1 : Matrix n n K) ⊗ₖ L2) Dinv _ hD
  · rw [← Matrix.mul_kronecker_mul, gen_eig_inv M1 U1 o1, gen_eig_inv M2 U2 o2, Matrix.one_kronecker_one]
  · have ht : (U1 ⊗ₖ U2)ᵀ = U1ᵀ ⊗ₖ U2ᵀ := (Matrix.kroneckerMap_transpose _ U1 U2).symm
    rw [ht, Matrix.mul_add, Matrix.add_mul, ← Matrix.mul_kronecker_mul, ← Matrix.mul_kronecker_mul,
      ← Matrix.mul_kronecker_mul, ← Matrix.mul_kronecker_mul,
      gen_eig_diag K1 M1 U1 L1 h1 o1, gen_eig_diag K2 M2 U2 L2 h2 o2, o1, o2]

end fastdiag

section d3
open Matrix
open scoped Kronecker
variable {n m l K : Type*} [Fintype n] [DecidableEq n] [Fintype m] [DecidableEq m]
  [Fintype l] [DecidableEq l] [CommRing K]

theorem fastdiag_three (K1 M1 U1 L1 : Matrix n n K) (K2 M2 U2 L2 : Matrix m m K) (K3 M3 U3 L3 : Matrix l l K)
    (Dinv : Matrix ((n × m) × l) ((n × m) × l) K)
    (h1 : K1 * U1 = M1 * U1 * L1) (o1 : U1ᵀ * M1 * U1 = 1)
    (h2 : K2 * U2 = M2 * U2 * L2) (o2 : U2ᵀ * M2 * U2 = 1)
    (h3 : K3 * U3 = M3 * U3 * L3) (o3 : U3ᵀ * M3 * U3 = 1)
    (hD : Dinv * ((L1 ⊗ₖ (1 : Matrix m m K)) ⊗ₖ (1 : Matrix l l K)
                + ((1 : Matrix n n K) ⊗ₖ L2) ⊗ₖ (1 : Matrix l l K)
                + ((1 : Matrix n n K) ⊗ₖ (1 : Matrix m m K)) ⊗ₖ L3) = 1) :
    (((U1 ⊗ₖ U2) ⊗ₖ U3) * Dinv * ((U1 ⊗ₖ U2) ⊗ₖ U3)ᵀ)
      * ((K1 ⊗ₖ M2) ⊗ₖ M3 + (M1 ⊗ₖ K2) ⊗ₖ M3 + (M1 ⊗ₖ M2) ⊗ₖ K3) = 1 := by
  apply fastdiag_abs _ ((U1 ⊗ₖ U2) ⊗ₖ U3) (((U1ᵀ * M1) ⊗ₖ (U2ᵀ * M2)) ⊗ₖ (U3ᵀ * M3)) _ Dinv _ hD
  · rw [← Matrix.mul_kronecker_mul, ← Matrix.mul_kronecker_mul, gen_eig_inv M1 U1 o1, gen_eig_inv M2 U2 o2,
      gen_eig_inv M3 U3 o3, Matrix.one_kronecker_one, Matrix.one_kronecker_one]
  · have ht : ((U1 ⊗ₖ U2) ⊗ₖ U3)ᵀ = (U1ᵀ ⊗ₖ U2ᵀ) ⊗ₖ U3ᵀ := by
      rw [← Matrix.kroneckerMap_transpose, ← Matrix.kroneckerMap_transpose]
    rw [ht]
    simp only [Matrix.mul_add, Matrix.add_mul, ← Matrix.mul_kronecker_mul]
    rw [gen_eig_diag K1 M1 U1 L1 h1 o1, gen_eig_diag K2 M2 U2 L2 h2 o2, gen_eig_diag K3 M3 U3 L3 h3 o3, o1, o2, o3]

end d3

end Pyiga.Ops
