/-
C09: Kronecker paths, Gram-matrix identities (total mass, row sums, symmetry, quadratic form),
Gauss rule affine map, load vector / integrate.
-/
import Pyiga.Proofs.Galerkin

namespace Pyiga.Galerkin
open Finset

section Ring
variable {α : Type} [CommRing α]

/-- Gram matrix of a quadrature rule: `G[I,J] = Σ_{q<Q} w_q · V_I(x_q) · U_J(x_q)`
(`V` test, `U` trial functions, possibly differentiated) -/
def gram (Q : Nat) (w : Nat → α) (V U : Nat → Nat → α) (I J : Nat) : α :=
  ∑ q ∈ range Q, w q * V I q * U J q

theorem sum3_comm (a b c : Finset Nat) (f : Nat → Nat → Nat → α) :
    ∑ I ∈ a, ∑ J ∈ b, ∑ q ∈ c, f I J q = ∑ q ∈ c, ∑ I ∈ a, ∑ J ∈ b, f I J q := by
  calc ∑ I ∈ a, ∑ J ∈ b, ∑ q ∈ c, f I J q = ∑ I ∈ a, ∑ q ∈ c, ∑ J ∈ b, f I J q := by
        apply Finset.sum_congr rfl; intro I _; exact Finset.sum_comm
    _ = _ := Finset.sum_comm

theorem gram_double_sum (Q n m : Nat) (w : Nat → α) (V U : Nat → Nat → α) :
    ∑ I ∈ range n, ∑ J ∈ range m, gram Q w V U I J =
      ∑ q ∈ range Q, w q * (∑ I ∈ range n, V I q) * (∑ J ∈ range m, U J q) := by
  unfold gram
  rw [sum3_comm]
  apply Finset.sum_congr rfl
  intro q _
  rw [mul_assoc, Finset.sum_mul_sum, Finset.mul_sum]
  apply Finset.sum_congr rfl; intro I _
  rw [Finset.mul_sum]
  apply Finset.sum_congr rfl; intro J _
  ring

/-- partition of unity twice ⇒ the entries sum to the sum of the weights -/
theorem gram_total (Q n m : Nat) (w : Nat → α) (V U : Nat → Nat → α)
    (hV : ∀ q < Q, ∑ I ∈ range n, V I q = 1) (hU : ∀ q < Q, ∑ J ∈ range m, U J q = 1) :
    ∑ I ∈ range n, ∑ J ∈ range m, gram Q w V U I J = ∑ q ∈ range Q, w q := by
  rw [gram_double_sum]
  apply Finset.sum_congr rfl
  intro q hq
  rw [hV q (Finset.mem_range.mp hq), hU q (Finset.mem_range.mp hq)]; ring

theorem gram_row_sum (Q m : Nat) (w : Nat → α) (V U : Nat → Nat → α) (I : Nat) :
    ∑ J ∈ range m, gram Q w V U I J = ∑ q ∈ range Q, w q * V I q * ∑ J ∈ range m, U J q := by
  unfold gram
  rw [Finset.sum_comm]
  apply Finset.sum_congr rfl; intro q _
  rw [Finset.mul_sum]

theorem gram_col_sum (Q n : Nat) (w : Nat → α) (V U : Nat → Nat → α) (J : Nat) :
    ∑ I ∈ range n, gram Q w V U I J = ∑ q ∈ range Q, w q * U J q * ∑ I ∈ range n, V I q := by
  unfold gram
  rw [Finset.sum_comm]
  apply Finset.sum_congr rfl; intro q _
  rw [Finset.mul_sum]
  apply Finset.sum_congr rfl; intro I _; ring

theorem gram_symm (Q : Nat) (w : Nat → α) (V : Nat → Nat → α) (I J : Nat) :
    gram Q w V V I J = gram Q w V V J I := by
  unfold gram; apply Finset.sum_congr rfl; intro q _; ring

theorem gram_quadratic (Q n : Nat) (w : Nat → α) (V : Nat → Nat → α) (x : Nat → α) :
    ∑ I ∈ range n, ∑ J ∈ range n, x I * gram Q w V V I J * x J =
      ∑ q ∈ range Q, w q * (∑ I ∈ range n, x I * V I q) ^ 2 := by
  unfold gram
  have : ∀ I J, x I * (∑ q ∈ range Q, w q * V I q * V J q) * x J =
      ∑ q ∈ range Q, x I * (w q * V I q * V J q) * x J := by
    intro I J; rw [Finset.mul_sum, Finset.sum_mul]
  simp only [this]
  rw [sum3_comm]
  apply Finset.sum_congr rfl; intro q _
  rw [sq, Finset.sum_mul_sum, Finset.mul_sum]
  apply Finset.sum_congr rfl; intro I _
  rw [Finset.mul_sum]
  apply Finset.sum_congr rfl; intro J _
  ring

/-! ### Kronecker products -/

theorem kronEntry_idx (A B : Nat → Nat → α) (mB nB i1 i2 j1 j2 : Nat) (hi : i2 < mB) (hj : j2 < nB) :
    kronEntry A B mB nB (i1 * mB + i2) (j1 * nB + j2) = A i1 j1 * B i2 j2 := by
  unfold kronEntry
  have e1 : (i1 * mB + i2) / mB = i1 := by
    rw [Nat.add_comm, Nat.add_mul_div_right _ _ (by omega), Nat.div_eq_of_lt hi, Nat.zero_add]
  have e2 : (i1 * mB + i2) % mB = i2 := by
    rw [Nat.add_comm, Nat.add_mul_mod_self_right, Nat.mod_eq_of_lt hi]
  have e3 : (j1 * nB + j2) / nB = j1 := by
    rw [Nat.add_comm, Nat.add_mul_div_right _ _ (by omega), Nat.div_eq_of_lt hj, Nat.zero_add]
  have e4 : (j1 * nB + j2) % nB = j2 := by
    rw [Nat.add_comm, Nat.add_mul_mod_self_right, Nat.mod_eq_of_lt hj]
  rw [e1, e2, e3, e4]

theorem get2_map_range (m n : Nat) (f : Nat → Nat → α) (i j : Nat) (hi : i < m) (hj : j < n) :
    get2 ((List.range m).map fun i => (List.range n).map fun j => f i j) i j = f i j := by
  simp [get2, List.getD_eq_getElem?_getD, hi, hj]

theorem matRows_kron (A B : List (List α)) : matRows (kron A B) = matRows A * matRows B := by
  simp [kron, matRows]

theorem matCols_kron (A B : List (List α)) (h : 0 < matRows A * matRows B) :
    matCols (kron A B) = matCols A * matCols B := by
  simp [kron, matCols, List.getD_eq_getElem?_getD, h]

theorem get2_kron (A B : List (List α)) (i1 i2 j1 j2 : Nat)
    (hi1 : i1 < matRows A) (hi2 : i2 < matRows B) (hj1 : j1 < matCols A) (hj2 : j2 < matCols B) :
    get2 (kron A B) (i1 * matRows B + i2) (j1 * matCols B + j2) = get2 A i1 j1 * get2 B i2 j2 := by
  unfold kron
  rw [get2_map_range, kronEntry_idx _ _ _ _ _ _ _ _ hi2 hj2]
  · calc i1 * matRows B + i2 < i1 * matRows B + matRows B := by omega
      _ = (i1 + 1) * matRows B := by ring
      _ ≤ matRows A * matRows B := Nat.mul_le_mul_right _ hi1
  · calc j1 * matCols B + j2 < j1 * matCols B + matCols B := by omega
      _ = (j1 + 1) * matCols B := by ring
      _ ≤ matCols A * matCols B := Nat.mul_le_mul_right _ hj1

theorem get2_matAdd (X Y : List (List α)) (i j : Nat) (hX : i < X.length) (hY : i < Y.length)
    (hXj : j < (X.getD i []).length) (hYj : j < (Y.getD i []).length) :
    get2 (matAdd X Y) i j = get2 X i j + get2 Y i j := by
  unfold get2 matAdd
  simp only [List.getD_eq_getElem?_getD] at *
  simp only [List.getElem?_zipWith, List.getElem?_eq_getElem hX, List.getElem?_eq_getElem hY,
    Option.getD_some] at *
  rw [List.getElem?_eq_getElem hXj, List.getElem?_eq_getElem hYj]
  simp

theorem rowlen_kron (A B : List (List α)) (i : Nat) (hi : i < matRows A * matRows B) :
    ((kron A B).getD i []).length = matCols A * matCols B := by
  simp [kron, List.getD_eq_getElem?_getD, hi]

/-- product of two Gram matrices = Gram matrix of the tensor-product rule (separable integrand) -/
theorem gram_mul_gram (Q1 Q2 : Nat) (w1 w2 : Nat → α) (V1 U1 V2 U2 : Nat → Nat → α) (i1 j1 i2 j2 : Nat) :
    gram Q1 w1 V1 U1 i1 j1 * gram Q2 w2 V2 U2 i2 j2 =
      ∑ q1 ∈ range Q1, ∑ q2 ∈ range Q2,
        (w1 q1 * w2 q2) * (V1 i1 q1 * V2 i2 q2) * (U1 j1 q1 * U2 j2 q2) := by
  unfold gram
  rw [Finset.sum_mul_sum]
  apply Finset.sum_congr rfl; intro q1 _
  apply Finset.sum_congr rfl; intro q2 _
  ring

/-- sum over the Kronecker index range splits into the two factors' ranges -/
theorem sum_range_kron (m1 m2 : Nat) (f : Nat → α) :
    ∑ i ∈ range (m1 * m2), f i = ∑ i1 ∈ range m1, ∑ i2 ∈ range m2, f (i1 * m2 + i2) := by
  rw [sum_range_mul]
  apply Finset.sum_congr rfl; intro k _
  apply Finset.sum_congr rfl; intro t _
  rw [Nat.mul_comm]

/-- the entries of a Kronecker product sum to the product of the factors' entry sums -/
theorem kron_total_fn (A B : Nat → Nat → α) (mA nA mB nB : Nat) :
    ∑ i ∈ range (mA * mB), ∑ j ∈ range (nA * nB), kronEntry A B mB nB i j =
      (∑ i ∈ range mA, ∑ j ∈ range nA, A i j) * (∑ i ∈ range mB, ∑ j ∈ range nB, B i j) := by
  rw [sum_range_kron]
  have : ∀ i1 ∈ range mA, ∀ i2 ∈ range mB,
      ∑ j ∈ range (nA * nB), kronEntry A B mB nB (i1 * mB + i2) j =
        ∑ j1 ∈ range nA, ∑ j2 ∈ range nB, A i1 j1 * B i2 j2 := by
    intro i1 _ i2 hi2
    rw [sum_range_kron]
    apply Finset.sum_congr rfl; intro j1 _
    apply Finset.sum_congr rfl; intro j2 hj2
    exact kronEntry_idx A B mB nB i1 i2 j1 j2 (Finset.mem_range.mp hi2) (Finset.mem_range.mp hj2)
  rw [Finset.sum_congr rfl (fun i1 h1 => Finset.sum_congr rfl (fun i2 h2 => this i1 h1 i2 h2))]
  rw [Finset.sum_mul_sum]
  apply Finset.sum_congr rfl; intro i1 _
  apply Finset.sum_congr rfl; intro i2 _
  rw [Finset.sum_mul_sum]

/-! ### Gauss rule -/

theorem sum_flatMap_outer (h w : List α) :
    (h.flatMap fun hi => w.map fun wj => hi * wj).sum = h.sum * w.sum := by
  induction h with
  | nil => simp
  | cons a as ih =>
    rw [List.flatMap_cons, List.sum_append, ih, List.sum_cons, List.sum_map_mul_left]
    simp only [List.map_id']
    ring

theorem sum_zipWith_half (half : α) (a b : List α) :
    (List.zipWith (fun ai bi => half * (bi - ai)) a b).sum =
      half * (List.zipWith (fun ai bi => bi - ai) a b).sum := by
  induction a generalizing b with
  | nil => simp
  | cons x xs ih =>
    cases b with
    | nil => simp
    | cons y ys => simp [ih, mul_add]

/-- the weights of `gauss_rule` sum to `0.5 · Σw · Σ(b_i − a_i)` -/
theorem gaussRule_weights_sum (half : α) (x w a b : List α) :
    (gaussRule half x w a b).2.sum = half * w.sum * (List.zipWith (fun ai bi => bi - ai) a b).sum := by
  unfold gaussRule
  simp only
  rw [sum_flatMap_outer, sum_zipWith_half]
  ring

/-- telescoping of consecutive interval lengths -/
theorem sum_consecutive_diffs (x : α) (l : List α) :
    (List.zipWith (fun ai bi => bi - ai) (x :: l).dropLast (x :: l).tail).sum = (x :: l).getLast (by simp) - x := by
  induction l generalizing x with
  | nil => simp
  | cons y ys ih =>
    have := ih y
    simp only [List.tail_cons] at this ⊢
    rw [List.dropLast_cons_cons, List.zipWith_cons_cons, List.sum_cons, this]
    rw [List.getLast_cons_cons]
    ring

/-! ### load vector / integrate -/

theorem getD_zipWith_mul (w f : List α) (q : Nat) :
    (List.zipWith (· * ·) w f).getD q 0 = w.getD q 0 * f.getD q 0 := by
  simp only [List.getD_eq_getElem?_getD, List.getElem?_zipWith]
  cases hw : w[q]? <;> cases hf : f[q]? <;> simp

theorem getD_colT (C : List (List α)) (f : List α) (i : Nat) (hi : i < matCols C) :
    (colT C f).getD i 0 = ∑ q ∈ range C.length, get2 C q i * f.getD q 0 := by
  unfold colT
  rw [← sumRange_eq]
  simp [List.getD_eq_getElem?_getD, hi]

theorem list_sum_eq_range (l : List α) : l.sum = ∑ q ∈ range l.length, l.getD q 0 := by
  induction l using List.reverseRecOn with
  | nil => simp
  | append_singleton xs x ih =>
    rw [List.sum_append, List.length_append, List.length_singleton, Finset.sum_range_succ, ih]
    congr 1
    · apply Finset.sum_congr rfl
      intro q hq
      have := Finset.mem_range.mp hq
      simp [List.getD_eq_getElem?_getD, List.getElem?_append_left this]
    · simp [List.getD_eq_getElem?_getD]

end Ring

section Ordered
variable {α : Type} [CommRing α] [LinearOrder α] [IsStrictOrderedRing α]

theorem gram_psd (Q n : Nat) (w : Nat → α) (V : Nat → Nat → α) (x : Nat → α)
    (hw : ∀ q < Q, 0 ≤ w q) :
    0 ≤ ∑ I ∈ range n, ∑ J ∈ range n, x I * gram Q w V V I J * x J := by
  rw [gram_quadratic]
  apply Finset.sum_nonneg
  intro q hq
  exact mul_nonneg (hw q (Finset.mem_range.mp hq)) (sq_nonneg _)

end Ordered

section Field
variable {α : Type} [Field α] [LinearOrder α] [IsStrictOrderedRing α]

/-- the affine map of `gauss_rule` sends `(-1,1)` into `(a,b)` -/
theorem gauss_node_inside (a b x : α) (hab : a < b) (h1 : -1 < x) (h2 : x < 1) :
    a < (1 / 2) * (b - a) * x + (1 / 2) * (a + b) ∧ (1 / 2) * (b - a) * x + (1 / 2) * (a + b) < b := by
  constructor <;> nlinarith

end Field

end Pyiga.Galerkin
