/-
C18: the slices removed by `find_truncation_rank` are disjoint: the squared norm of the tensor splits into the
squared norm of the kept leading box and the squared norms of the removed slices.
-/
import Pyiga.Proofs.TensorBasic

set_option linter.unusedSectionVars false
set_option linter.unusedSimpArgs false
set_option linter.unusedVariables false

namespace Pyiga.Tensor
open Pyiga.Index

variable {α : Type} [CommRing α]

theorem boxSum_congr : ∀ (s : List Nat) (f g : List Nat → α), (∀ I, f I = g I) → boxSum s f = boxSum s g := by
  intro s f g h
  have : f = g := funext h
  rw [this]

theorem boxSum_add : ∀ (s : List Nat) (f g : List Nat → α),
    boxSum s (fun I => f I + g I) = boxSum s f + boxSum s g
  | [], f, g => rfl
  | n :: s, f, g => by
    simp only [boxSum]
    rw [← sumN_add_fn]
    exact sumN_congr _ _ _ (fun i _ => boxSum_add s _ _)

/-- splitting a box sum along axis `ax`: everything but the last slice, plus the last slice -/
theorem boxSum_split_last : ∀ (ax : Nat) (s : List Nat) (f : List Nat → α), ax < s.length → 1 ≤ s.getD ax 0 →
    boxSum s f = boxSum (s.set ax (s.getD ax 0 - 1)) f +
      boxSum (s.set ax 1) (fun I => f (I.set ax (s.getD ax 0 - 1)))
  | _, [], _, h, _ => by simp at h
  | 0, n :: s, f, _, hn => by
    simp only [List.getD_cons_zero, List.set_cons_zero, boxSum] at hn ⊢
    have : n = (n - 1) + 1 := by omega
    rw [this, sumN_succ]
    simp only [Nat.add_sub_cancel]
    congr 1
    rw [sumN_succ]
    simp
  | ax + 1, m :: s, f, h, hn => by
    simp only [List.getD_cons_succ, List.set_cons_succ, boxSum] at hn ⊢
    rw [← sumN_add_fn]
    refine sumN_congr _ _ _ (fun i _ => ?_)
    rw [boxSum_split_last ax s (fun I => f (i :: I)) (by simpa using h) hn]

theorem argminGo_lt [LT α] [DecidableLT α] : ∀ (l : List α) (k best : Nat) (bv : α), best < k →
    argminGo l k best bv < k + l.length
  | [], k, best, bv, h => by simpa [argminGo] using h
  | x :: l, k, best, bv, h => by
    simp only [argminGo, List.length_cons]
    split
    · have := argminGo_lt l (k + 1) k x (by omega); omega
    · have := argminGo_lt l (k + 1) best bv (by omega); omega

theorem argmin_lt [LT α] [DecidableLT α] (l : List α) (h : l ≠ []) : argmin l < l.length := by
  cases l with
  | nil => exact absurd rfl h
  | cons x l =>
    simp only [argmin, List.length_cons]
    have := argminGo_lt l 1 0 x (by omega); omega

theorem prod_pos_getD : ∀ (s : List Nat) (j : Nat), prod s ≠ 0 → j < s.length → 1 ≤ s.getD j 0
  | [], j, _, h => by simp at h
  | n :: s, 0, hp, _ => by
    simp only [List.getD_cons_zero]
    rcases Nat.eq_zero_or_pos n with h0 | h0
    · subst h0; simp [prod] at hp
    · exact h0
  | n :: s, j + 1, hp, h => by
    simp only [List.getD_cons_succ]
    refine prod_pos_getD s j (fun h0 => hp ?_) (by simpa using h)
    show n * prod s = 0
    rw [h0, Nat.mul_zero]

end Pyiga.Tensor
