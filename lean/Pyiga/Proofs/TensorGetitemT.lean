/-
C18: `TuckerTensor.squeeze` and `TuckerTensor.__getitem__` commute with expansion.
-/
import Pyiga.Proofs.TensorGetitem
import Pyiga.Proofs.TensorAdd

set_option linter.unusedSectionVars false
set_option linter.unusedSimpArgs false
set_option linter.unusedVariables false

namespace Pyiga.Tensor
open Pyiga.Index
variable {α : Type} [CommRing α]

/-- the operator list `factors` of `TuckerTensor.squeeze` (1018-1021), structurally -/
def factorsGo (ax : List Nat) : Nat → List (Mat α) → List (Option (Mat α))
  | _, [] => []
  | k, U :: Us => (if ax.contains k then some U else none) :: factorsGo ax (k + 1) Us

/-- shape of `apply_tprod(factors, X)` -/
def sqShape (ax : List Nat) : Nat → List (Mat α) → List Nat
  | _, [] => []
  | k, U :: Us => (if ax.contains k then U.rows else U.cols) :: sqShape ax (k + 1) Us

theorem factorsGo_eq_map (ax : List Nat) (dflt : Mat α) : ∀ (Us : List (Mat α)) (k : Nat),
    (List.range' k Us.length).map (fun j => if ax.contains j then some (Us.getD (j - k) dflt) else none) = factorsGo ax k Us
  | [], _ => rfl
  | U :: Us, k => by
    have ih := factorsGo_eq_map ax dflt Us (k + 1)
    simp only [List.length_cons, List.range'_succ, List.map_cons, factorsGo, Nat.sub_self, List.getD_cons_zero]
    congr 1
    rw [← ih]
    refine List.map_congr_left (fun j hj => ?_)
    have : k + 1 ≤ j := by rw [List.mem_range'_1] at hj; exact hj.1
    have e : j - k = (j - (k + 1)) + 1 := by omega
    rw [e, List.getD_cons_succ]

theorem sqShape_nway (ax : List Nat) : ∀ (Us : List (Mat α)) (k : Nat),
    nwayShape (factorsGo ax k Us) (Us.map (·.cols)) = some (sqShape ax k Us)
  | [], _ => rfl
  | U :: Us, k => by
    simp only [factorsGo, sqShape, List.map_cons]
    by_cases hm : k ∈ ax
    · simp [hm, nwayShape, sqShape_nway ax Us (k + 1)]
    · simp [hm, nwayShape, sqShape_nway ax Us (k + 1)]

theorem sqShape_length (ax : List Nat) : ∀ (Us : List (Mat α)) (k : Nat), (sqShape ax k Us).length = Us.length
  | [], _ => rfl
  | U :: Us, k => by simp [sqShape, sqShape_length ax Us (k + 1)]

theorem sqShape_drop (ax : List Nat) : ∀ (Us : List (Mat α)) (k : Nat),
    dropAxesGo k ax (sqShape ax k Us) = (dropAxesGo k ax Us).map (·.cols)
  | [], _ => rfl
  | U :: Us, k => by
    simp only [sqShape, dropAxesGo]
    by_cases hm : k ∈ ax
    · simp [hm, sqShape_drop ax Us (k + 1)]
    · simp [hm, sqShape_drop ax Us (k + 1)]

theorem sqShape_getD (ax : List Nat) : ∀ (Us : List (Mat α)) (k j : Nat), j < Us.length → ax.contains (k + j) = true →
    (sqShape ax k Us).getD j 0 = (Us.map (·.rows)).getD j 0
  | [], _, j, h, _ => by simp at h
  | U :: Us, k, 0, _, hc => by
    have hm : k ∈ ax := by simpa using hc
    simp [sqShape, hm]
  | U :: Us, k, j + 1, h, hc => by
    simp only [sqShape, List.getD_cons_succ, List.map_cons]
    exact sqShape_getD ax Us (k + 1) j (by simpa using h) (by rw [← hc]; congr 1; omega)

/-- core identity of `TuckerTensor.squeeze`: contracting the singleton factors into the core and dropping those
axes represents the same entries -/
theorem tucker_unsqueeze (ax : List Nat) : ∀ (Us : List (Mat α)) (k : Nat) (K : List Nat) (x : List Nat → α),
    K.length = (dropAxesGo k ax Us).length →
    nwayEntry ((dropAxesGo k ax Us).map some) K
        (fun K' => nwayEntry (factorsGo ax k Us) (unsqueezeGo Us.length ax k K') x)
      = nwayEntry (Us.map some) (unsqueezeGo Us.length ax k K) x
  | [], _, K, x, hK => by
    have : K = [] := List.eq_nil_of_length_eq_zero (by simpa [dropAxesGo] using hK)
    subst this
    simp [dropAxesGo, factorsGo, unsqueezeGo, nwayEntry]
  | U :: Us, k, K, x, hK => by
    simp only [List.length_cons, dropAxesGo, factorsGo, unsqueezeGo] at hK ⊢
    by_cases hc : ax.contains k = true
    · simp only [hc, ↓reduceIte] at hK ⊢
      simp only [List.map_cons, nwayEntry]
      rw [nwayEntry_sumN]
      refine sumN_congr _ _ _ (fun j _ => ?_)
      rw [nwayEntry_smul, tucker_unsqueeze ax Us (k + 1) K (fun J => x (j :: J)) hK]
    · have hc' : ax.contains k = false := by simpa using hc
      simp only [hc', Bool.false_eq_true, ↓reduceIte] at hK ⊢
      cases K with
      | nil => simp at hK
      | cons i K =>
        simp only [List.map_cons, nwayEntry]
        refine sumN_congr _ _ _ (fun j _ => ?_)
        rw [tucker_unsqueeze ax Us (k + 1) K (fun J => x (j :: J)) (by simpa using hK)]

theorem takeRows_nway : ∀ (Us : List (Mat α)) (idx : List (List Nat)) (J : List Nat) (x : List Nat → α),
    idx.length = Us.length → J.length = Us.length →
    nwayEntry (((Us.zip idx).map (fun p => p.1.takeRows p.2)).map some) J x = nwayEntry (Us.map some) (pick idx J) x
  | [], [], [], x, _, _ => rfl
  | U :: Us, i :: idx, j :: J, x, h1, h2 => by
    simp only [List.zip_cons_cons, List.map_cons, nwayEntry, pick]
    refine sumN_congr _ _ _ (fun c _ => ?_)
    rw [takeRows_nway Us idx J (fun K => x (c :: K)) (by simpa using h1) (by simpa using h2)]
    rfl
  | [], _ :: _, _, _, h, _ => by simp at h
  | _ :: _, [], _, _, h, _ => by simp at h
  | [], [], _ :: _, _, _, h => by simp at h
  | _ :: _, _ :: _, [], _, _, h => by simp at h

theorem takeRows_cols : ∀ (Us : List (Mat α)) (idx : List (List Nat)), idx.length = Us.length →
    ((Us.zip idx).map (fun p => p.1.takeRows p.2)).map (·.cols) = Us.map (·.cols)
  | [], [], _ => rfl
  | U :: Us, i :: idx, h => by
    simp only [List.zip_cons_cons, List.map_cons]
    rw [takeRows_cols Us idx (by simpa using h)]; rfl
  | [], _ :: _, h => by simp at h
  | _ :: _, [], h => by simp at h

end Pyiga.Tensor

namespace Pyiga.Tensor
open Pyiga.Index
variable {α : Type} [CommRing α]

/-- **`TuckerTensor.squeeze`** for a duplicate-free list of (normalised) axes: `np.squeeze` of the expansion -/
theorem tuckerSqueeze_core (Us : List (Mat α)) (X : Full α) (hw : (Ten.tucker Us X).WF) (pos : List Nat)
    (hn : pos.Nodup) (hlt : ∀ p ∈ pos, p < Us.length) (hone : ∀ p ∈ pos, (Us.map (·.rows)).getD p 0 = 1)
    (axis : Option (List Int)) (hax : squeezeAxes false (Us.map (·.rows)) axis = .ok (pos.map Int.ofNat))
    (r : Res α) (h : tuckerSqueeze Us X axis = .ok r) :
    (Ten.tucker Us X).asarray.squeeze pos = .ok r.asarray ∧ (∀ T', r = .t T' → T'.WF ∧ T'.isLeaf) := by
  have hw' : Us.map (·.cols) = X.shape := hw
  have hall : (pos.all (fun k => (Ten.tucker Us X).asarray.shape.getD k 0 = 1)) = true := by
    simp only [List.all_eq_true, decide_eq_true_eq]
    exact fun p hp => hone p hp
  simp only [Full.squeeze, hall, if_true]
  simp only [tuckerSqueeze] at h
  obtain ⟨ax, h1, h⟩ := bind_ok _ _ _ h
  rw [hax] at h1
  injection h1 with h1
  subst h1
  simp only [List.length_map] at h
  split at h
  · rename_i h0
    have hp : pos = [] := List.eq_nil_of_length_eq_zero h0
    subst hp
    injection h with h; subst h
    refine ⟨?_, fun T' hT => by injection hT with hT; subst hT; exact ⟨hw, trivial⟩⟩
    congr 1
    simp only [Res.asarray, Ten.asarray, dropAxes, dropAxesGo_nil, ofFn_shape, Full.ndim, unsqueeze]
    refine ofFn_congr _ _ _ (fun I hI => ?_)
    rw [unsqueezeGo_nil_ax _ 0 I (inBox_length hI), ofFn_get _ _ _ hI]
  · split at h
    · rename_i h0 hd
      injection h with h; subst h
      refine ⟨?_, fun T' hT => by cases hT⟩
      congr 1
      have hdrop : dropAxes pos (Ten.tucker Us X).asarray.shape = [] :=
        dropAxes_all pos _ hn (by simpa [Ten.asarray, Ten.shape] using hlt) (by simpa [Ten.asarray, Ten.shape] using hd)
      simp only [Res.asarray, hdrop]
      refine ofFn_congr _ _ _ (fun I hI => ?_)
      have hI' : I = [] := by
        cases I with
        | nil => rfl
        | cons _ _ => simp [inBox] at hI
      subst hI'
      simp only [unsqueeze, unsqueezeGo_nil_I, Full.ndim, Ten.asarray, ofFn_shape, Ten.shape, List.length_map]
      have hall1 : ∀ j, j < (Us.map (·.rows)).length → (Us.map (·.rows)).getD j 0 = 1 := by
        intro j hj
        have hjm : j ∈ pos := by
          by_contra hnm
          have hk := dropAxes_all pos Us hn hlt hd
          have hf := dropAxesGo_eq_filter pos (Mat.zeros 0 0 : Mat α) 0 Us
          simp only [dropAxes] at hk
          rw [hk] at hf
          have : j ∈ (List.range' 0 Us.length).filter (fun j => !pos.contains j) := by
            simp only [List.mem_filter, List.mem_range'_1]
            refine ⟨⟨by omega, by simpa using hj⟩, by simpa using hnm⟩
          have hne : ((List.range' 0 Us.length).filter (fun j => !pos.contains j)) ≠ [] :=
            List.ne_nil_of_mem this
          simp only [List.map_eq_nil_iff] at hf
          exact hne hf
        exact hone j hjm
      have hb := inBox_replicate_zero (Us.map (·.rows)) hall1
      simp only [List.length_map] at hb
      rw [ofFn_get _ _ _ hb]; rfl
    · rename_i h0 hd
      simp only [mapM_pyPos Us.length pos hlt] at h
      have hrem : ((List.range Us.length).filter (fun k => !((pos.map Int.ofNat).contains (Int.ofNat k)))).map
          (fun k => Us.getD k (Mat.zeros 0 0)) = dropAxesGo 0 pos Us := by
        have := dropAxesGo_eq_filter pos (Mat.zeros 0 0 : Mat α) 0 Us
        rw [← List.range_eq_range'] at this
        simp only [Nat.sub_zero] at this
        rw [← this]
        congr 1
        exact List.filter_congr (fun k _ => by rw [contains_map_ofNat])
      have hfac : (List.range Us.length).map (fun k => if pos.contains k then some (Us.getD k (Mat.zeros 0 0)) else none)
          = factorsGo pos 0 Us := by
        have := factorsGo_eq_map pos (Mat.zeros 0 0 : Mat α) Us 0
        rw [← List.range_eq_range'] at this
        simpa using this
      simp only [bind, Except.bind, hrem, hfac] at h
      -- Y = apply_tprod(factors, X)
      have hYv : X.nway (factorsGo pos 0 Us) = .ok (Full.ofFn (sqShape pos 0 Us)
          (fun I => nwayEntry (factorsGo pos 0 Us) I X.get)) := by
        simp only [Full.nway, ← hw', sqShape_nway pos Us 0]
      rw [hYv] at h
      simp only at h
      split at h
      · cases h
      · -- Z = Y.squeeze(pos)
        have hsq1 : ∀ p ∈ pos, (sqShape pos 0 Us).getD p 0 = 1 := fun p hp => by
          rw [sqShape_getD pos Us 0 p (hlt p hp) (by simpa using hp)]; exact hone p hp
        have hZv : (Full.ofFn (sqShape pos 0 Us) (fun I => nwayEntry (factorsGo pos 0 Us) I X.get)).squeeze pos
            = .ok (Full.ofFn ((dropAxesGo 0 pos Us).map (·.cols)) (fun I =>
                (Full.ofFn (sqShape pos 0 Us) (fun I => nwayEntry (factorsGo pos 0 Us) I X.get)).get
                  (unsqueezeGo Us.length pos 0 I))) := by
          have hc : (pos.all fun k => decide ((sqShape pos 0 Us).getD k 0 = 1)) = true :=
            List.all_eq_true.2 (fun p hp => by simpa using hsq1 p hp)
          simp only [Full.squeeze, ofFn_shape, hc, if_true]
          simp only [dropAxes, sqShape_drop, unsqueeze, Full.ndim, ofFn_shape, sqShape_length]
          split
          · rfl
          · rename_i hneg
            exact absurd (List.all_eq_true.2 (fun p hp => by simpa using hsq1 p hp)) hneg
        rw [hZv] at h
        simp only at h
        obtain ⟨T, hT, h⟩ := bind_ok _ _ _ h
        injection h with h; subst h
        obtain ⟨rfl, hTl⟩ := mkTucker_ok _ _ _ hT
        refine ⟨?_, fun T' hT' => by
          injection hT' with hT'; subst hT'
          exact ⟨by show (dropAxesGo 0 pos Us).map (·.cols) = _; rfl, trivial⟩⟩
        congr 1
        have hshape : (dropAxesGo 0 pos Us).map (·.rows) = dropAxes pos (Ten.tucker Us X).asarray.shape := by
          simp only [Ten.shape, Ten.asarray, ofFn_shape, dropAxes, ← dropAxesGo_map]
        simp only [Res.asarray, Ten.asarray, Ten.shape]
        rw [hshape]
        refine ofFn_congr _ _ _ (fun K hK => ?_)
        have hK' : inBox K (dropAxesGo 0 pos (Us.map (·.rows))) = true := hK
        have hub : inBox (unsqueezeGo (Us.map (·.rows)).length pos 0 K) (Us.map (·.rows)) = true :=
          unsqueezeGo_inBox pos _ 0 K (fun j hj hcj => by
            have : j ∈ pos := by simpa using hcj
            exact hone j this) hK'
        simp only [List.length_map] at hub
        simp only [unsqueeze, Full.ndim, ofFn_shape, Ten.shape, List.length_map]
        rw [ofFn_get _ _ _ hub]
        simp only [Ten.entry, tuckerEntry]
        have hKl : K.length = (dropAxesGo 0 pos Us).length := by
          have := inBox_length hK'
          rw [this, ← dropAxesGo_map, List.length_map]
        rw [← tucker_unsqueeze pos Us 0 K X.get hKl]
        refine tuckerEntry_congr _ K _ _ hKl (fun J' hJ' => ?_)
        rw [ofFn_get _ _ _ hJ']
        have hJ'b : inBox J' (dropAxesGo 0 pos (sqShape pos 0 Us)) = true := by rw [sqShape_drop]; exact hJ'
        have hub2 : inBox (unsqueezeGo (sqShape pos 0 Us).length pos 0 J') (sqShape pos 0 Us) = true :=
          unsqueezeGo_inBox pos _ 0 J' (fun j hj hcj => by
            have : j ∈ pos := by simpa using hcj
            exact hsq1 j this) hJ'b
        rw [sqShape_length] at hub2
        rw [ofFn_get _ _ _ hub2]

theorem tuckerSqueeze_spec (Us : List (Mat α)) (X : Full α) (hw : (Ten.tucker Us X).WF) (axis : Option (List Int))
    (r : Res α) (h : tuckerSqueeze Us X axis = .ok r) :
    ∃ pos : List Nat, squeezeAxes false (Us.map (·.rows)) axis = .ok (pos.map Int.ofNat) ∧
      (pos.Nodup → (Ten.tucker Us X).asarray.squeeze pos = .ok r.asarray ∧ (∀ T', r = .t T' → T'.WF ∧ T'.isLeaf)) := by
  have h' := h
  simp only [tuckerSqueeze] at h'
  obtain ⟨ax, h1, _⟩ := bind_ok _ _ _ h'
  obtain ⟨pos, rfl, hp, _⟩ := squeezeAxes_ok _ axis ax h1
  refine ⟨pos, h1, fun hn => ?_⟩
  exact tuckerSqueeze_core Us X hw pos hn (fun p hq => by simpa using (hp p hq).1) (fun p hq => (hp p hq).2) axis h1 r h

/-- **`TuckerTensor.__getitem__`** -/
theorem tuckerGetitem_spec (Us : List (Mat α)) (X : Full α) (hw : (Ten.tucker Us X).WF) (I : List PyIndex)
    (r : Res α) (h : tuckerGetitem Us X I = .ok r) :
    ∃ nm, normalizeIndices I (Us.map (·.rows)) = .ok nm ∧
      ((Ten.tucker Us X).asarray.take nm.idx).squeeze nm.singl = .ok r.asarray ∧
      (∀ T', r = .t T' → T'.WF ∧ T'.isLeaf) := by
  have hw' : Us.map (·.cols) = X.shape := hw
  simp only [tuckerGetitem] at h
  obtain ⟨nm, hnm, h⟩ := bind_ok _ _ _ h
  obtain ⟨A, hA, h⟩ := bind_ok _ _ _ h
  obtain ⟨hAe, _⟩ := mkTucker_ok _ _ _ hA
  subst hAe
  split at h
  · cases h
  · simp only at h
    obtain ⟨_, hidx, hshape, hstr, hs⟩ := normalizeIndices_ok I _ nm hnm
    have hlen : nm.idx.length = Us.length := by have := IdxOK.length hidx; simpa using this
    refine ⟨nm, hnm, ?_⟩
    have hrows := takeRows_rows Us nm.idx hlen
    have hYlen : ((Us.zip nm.idx).map (fun p => p.1.takeRows p.2)).length = Us.length := by
      have := congrArg List.length hrows; simpa [hlen] using this
    have htake : (Ten.tucker ((Us.zip nm.idx).map (fun p => p.1.takeRows p.2)) X).asarray
        = (Ten.tucker Us X).asarray.take nm.idx := by
      simp only [Ten.asarray, Full.take, Ten.shape, hrows]
      refine ofFn_congr _ _ _ (fun J hJ => ?_)
      simp only [Ten.entry, tuckerEntry]
      have hJl : J.length = Us.length := by have := inBox_length hJ; simpa [hlen] using this
      rw [takeRows_nway Us nm.idx J X.get hlen hJl, ofFn_get _ _ _ (pick_inBox nm.idx _ J hidx hJ)]
    rw [← htake]
    have hwA : (Ten.tucker ((Us.zip nm.idx).map (fun p => p.1.takeRows p.2)) X).WF := by
      show _ = X.shape
      rw [takeRows_cols Us nm.idx hlen]; exact hw'
    exact tuckerSqueeze_core _ X hwA nm.singl (StrictFrom.nodup hstr)
      (fun j hj => by rw [hYlen]; simpa using (hs j hj).1)
      (fun j hj => by rw [hrows]; exact (hs j hj).2) _
      (squeezeAxes_singl _ nm.singl (fun j hj => by rw [hrows]; simpa [hlen] using (hs j hj).1)
        (fun j hj => by rw [hrows]; exact (hs j hj).2)) r h

end Pyiga.Tensor
