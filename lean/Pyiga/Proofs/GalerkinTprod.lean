/-
C09: n-D `inner_products` / `integrate` — the transposed-collocation Kronecker application
`applyTprodT`, the tensor-product weights, in every dimension (induction over the axis list).
-/
import Pyiga.Proofs.GalerkinKron3
import Pyiga.Proofs.Index

namespace Pyiga.Galerkin
open Finset Pyiga.Index

section Lists
variable {β : Type}

/-- `getD` inside a `flatMap` of equal-length blocks -/
theorem getD_flatMap_blocks (n b : Nat) (F : Nat → List β) (d : β) (hF : ∀ q < n, (F q).length = b)
    (q r : Nat) (hq : q < n) (hr : r < b) :
    ((List.range n).flatMap F).getD (q * b + r) d = (F q).getD r d := by
  induction n with
  | zero => omega
  | succ n ih =>
    have hlen : ((List.range n).flatMap F).length = n * b := by
      clear ih hq
      induction n with
      | zero => simp
      | succ k ihk =>
        rw [List.range_succ, List.flatMap_append, List.length_append, ihk (fun q hq => hF q (by omega))]
        simp [hF k (by omega), Nat.succ_mul]
    rw [List.range_succ, List.flatMap_append, List.getD_eq_getElem?_getD]
    by_cases h : q < n
    · have : q * b + r < ((List.range n).flatMap F).length := by rw [hlen]; exact idx_lt q r n b h hr
      rw [List.getElem?_append_left this, ← List.getD_eq_getElem?_getD]
      exact ih (fun q hq => hF q (by omega)) h
    · have hn : q = n := by omega
      subst hn
      have : ((List.range q).flatMap F).length ≤ q * b + r := by rw [hlen]; omega
      rw [List.getElem?_append_right this, hlen]
      simp [List.getD_eq_getElem?_getD]

theorem length_flatMap_blocks (n b : Nat) (F : Nat → List β) (hF : ∀ q < n, (F q).length = b) :
    ((List.range n).flatMap F).length = n * b := by
  induction n with
  | zero => simp
  | succ k ihk =>
    rw [List.range_succ, List.flatMap_append, List.length_append, ihk (fun q hq => hF q (by omega))]
    simp [hF k (by omega), Nat.succ_mul]

/-- a slice `x[a : a+b]` read at offset `r < b` -/
theorem getD_slice (x : List β) (a b r : Nat) (d : β) (hr : r < b) :
    ((x.drop a).take b).getD r d = x.getD (a + r) d := by
  simp [List.getD_eq_getElem?_getD, hr]

theorem length_slice (x : List β) (a b : Nat) (h : a + b ≤ x.length) : ((x.drop a).take b).length = b := by
  simp; omega

theorem foldl_mul_eq_prod (l : List Nat) (a : Nat) : l.foldl (· * ·) a = a * prod l := by
  induction l generalizing a with
  | nil => simp [prod]
  | cons x xs ih => simp [List.foldl_cons, ih, prod_cons, Nat.mul_assoc]

end Lists

section Ring
variable {α : Type} [CommRing α]

/-- nested-sum specification of the Kronecker application of transposed collocation matrices:
`Σ_{q₀} C₀[q₀,i₀] Σ_{q₁} C₁[q₁,i₁] … g [q₀,q₁,…]` -/
def nestSum : List (List (List α)) → List Nat → (List Nat → α) → α
  | [], _, g => g []
  | C :: Cs, i, g => ∑ q ∈ range C.length, get2 C q (i.headD 0) * nestSum Cs i.tail (fun qs => g (q :: qs))

theorem length_applyTLeading (C : List (List α)) (blk : Nat) (x : List α) :
    (applyTLeading C blk x).length = matCols C * blk := by
  unfold applyTLeading
  exact length_block _ _ _

theorem length_applyTprodT : ∀ (Cs : List (List (List α))) (x : List α),
    x.length = prod (Cs.map List.length) → (applyTprodT Cs x).length = prod (Cs.map matCols)
  | [], x, h => by simpa [applyTprodT, prod] using h
  | C :: Cs, x, _ => by
      unfold applyTprodT
      simp only
      rw [length_applyTLeading, foldl_mul_eq_prod, Nat.one_mul]
      simp [prod_cons]

/-- **`apply_tprod([C₀ᵀ, C₁ᵀ, …], X)` in every dimension**: entry at the raveled multi-index `i`
is the nested sum over all node multi-indices. -/
theorem applyTprodT_spec : ∀ (Cs : List (List (List α))) (x : List α) (i : List Nat) (g : List Nat → α),
    x.length = prod (Cs.map List.length) →
    (∀ q, Below q (Cs.map List.length) → x.getD (toSeq q (Cs.map List.length)) 0 = g q) →
    Below i (Cs.map matCols) →
    (applyTprodT Cs x).getD (toSeq i (Cs.map matCols)) 0 = nestSum Cs i g
  | [], x, i, g, _, hx, hi => by
      cases i with
      | nil =>
        have := hx [] (by simp [Below])
        simpa [applyTprodT, nestSum, toSeq] using this
      | cons a as => simp [Below] at hi
  | C :: Cs, x, i, g, hlen, hx, hi => by
      cases i with
      | nil => simp [Below] at hi
      | cons i0 is =>
        simp only [List.map_cons, Below] at hi
        obtain ⟨hi0, his⟩ := hi
        have hnr : (Cs.map List.length).foldl (· * ·) 1 = prod (Cs.map List.length) := by
          rw [foldl_mul_eq_prod, Nat.one_mul]
        have hdr : (Cs.map matCols).foldl (· * ·) 1 = prod (Cs.map matCols) := by
          rw [foldl_mul_eq_prod, Nat.one_mul]
        have hr := toSeq_lt is _ his
        simp only [List.map_cons, prod_cons] at hlen
        -- the slices of `x`
        have hsl : ∀ q < C.length,
            ((x.drop (q * prod (Cs.map List.length))).take (prod (Cs.map List.length))).length =
              prod (Cs.map List.length) := by
          intro q hq
          apply length_slice
          calc q * prod (Cs.map List.length) + prod (Cs.map List.length)
              = (q + 1) * prod (Cs.map List.length) := by ring
            _ ≤ C.length * prod (Cs.map List.length) := Nat.mul_le_mul_right _ hq
            _ = x.length := hlen.symm
        unfold applyTprodT
        simp only [List.map_cons]
        rw [hnr, hdr, toSeq_cons _ _ _ _ (below_length his)]
        unfold applyTLeading
        rw [getD_block _ _ _ _ _ _ hi0 hr, sumRange_eq]
        unfold nestSum
        simp only [List.headD_cons, List.tail_cons]
        apply Finset.sum_congr rfl
        intro q hq
        have hq' := Finset.mem_range.mp hq
        congr 1
        rw [getD_flatMap_blocks C.length (prod (Cs.map matCols)) _ 0
          (fun q hq => length_applyTprodT Cs _ (hsl q hq)) q _ hq' hr]
        apply applyTprodT_spec Cs _ is (fun qs => g (q :: qs)) (hsl q hq') _ his
        intro qs hqs
        rw [getD_slice _ _ _ _ _ (toSeq_lt qs _ hqs)]
        have := hx (q :: qs) (by simp only [List.map_cons, Below]; exact ⟨hq', hqs⟩)
        rw [List.map_cons, toSeq_cons _ _ _ _ (below_length hqs)] at this
        exact this

/-! ### tensor-product weights -/

/-- product of the per-axis weights at a node multi-index -/
def wprod : List (List α) → List Nat → α
  | [], _ => 1
  | w :: ws, q => w.getD (q.headD 0) 0 * wprod ws q.tail

theorem tensorWeights_cons (w : List α) (w' : List α) (ws : List (List α)) :
    tensorWeights (w :: w' :: ws) = w.flatMap fun a => (tensorWeights (w' :: ws)).map fun b => a * b := rfl

theorem length_tensorWeights : ∀ (ws : List (List α)), ws ≠ [] →
    (tensorWeights ws).length = prod (ws.map List.length)
  | [], h => absurd rfl h
  | [w], _ => by simp [tensorWeights, prod]
  | w :: w' :: ws, _ => by
      rw [tensorWeights_cons, length_flatMap_map, length_tensorWeights (w' :: ws) (by simp)]
      simp [prod_cons]

/-- the raveled tensor-product weight array holds the product of the 1-D weights -/
theorem getD_tensorWeights : ∀ (ws : List (List α)) (q : List Nat), ws ≠ [] → Below q (ws.map List.length) →
    (tensorWeights ws).getD (toSeq q (ws.map List.length)) 0 = wprod ws q
  | [], _, h, _ => absurd rfl h
  | [w], q, _, hq => by
      cases q with
      | nil => simp [Below] at hq
      | cons q0 qs =>
        cases qs with
        | nil => simp [tensorWeights, wprod, toSeq]
        | cons a as => simp [Below] at hq
  | w :: w' :: ws, q, _, hq => by
      cases q with
      | nil => simp [Below] at hq
      | cons q0 qs =>
        simp only [List.map_cons, Below] at hq
        obtain ⟨hq0, hqs⟩ := hq
        have hqs' : Below qs ((w' :: ws).map List.length) := by simpa [Below] using hqs
        have hr := toSeq_lt qs _ hqs'
        rw [tensorWeights_cons, flatMap_eq_range w 0]
        simp only [List.map_cons]
        rw [toSeq_cons _ _ _ _ (by have := below_length hqs'; simpa using this)]
        have hlenT := length_tensorWeights (w' :: ws) (by simp)
        simp only [List.map_cons] at hlenT hr
        rw [getD_flatMap_blocks w.length _ _ 0 (fun a _ => by rw [List.length_map, hlenT]) q0 _ hq0 hr]
        rw [List.getD_eq_getElem?_getD, List.getElem?_map]
        have hin : toSeq qs (w'.length :: ws.map List.length) < (tensorWeights (w' :: ws)).length := by
          rw [hlenT]; exact hr
        rw [List.getElem?_eq_getElem hin]
        simp only [Option.map_some, Option.getD_some]
        have ih := getD_tensorWeights (w' :: ws) qs (by simp) hqs'
        simp only [List.map_cons] at ih
        rw [List.getD_eq_getElem?_getD, List.getElem?_eq_getElem hin, Option.getD_some] at ih
        rw [ih]
        simp [wprod]

/-- the tensor-product weights sum to the product of the 1-D sums -/
theorem sum_tensorWeights : ∀ (ws : List (List α)), ws ≠ [] →
    (tensorWeights ws).sum = (ws.map List.sum).prod
  | [], h => absurd rfl h
  | [w], _ => by simp [tensorWeights]
  | w :: w' :: ws, _ => by
      rw [tensorWeights_cons, sum_flatMap_outer, sum_tensorWeights (w' :: ws) (by simp)]
      simp

end Ring

end Pyiga.Galerkin
