/-
Helper lemmas for L-idx: mixed-radix numeration and the odometer.
-/
import Pyiga.Model.Index

namespace Pyiga.Index

/-- all digits are below their radix -/
def Below : List Nat → List Nat → Prop
  | [], [] => True
  | i :: I, m :: ms => i < m ∧ Below I ms
  | _, _ => False

theorem below_length : ∀ {I ms : List Nat}, Below I ms → I.length = ms.length
  | [], [], _ => rfl
  | _ :: I, _ :: ms, h => by simp [below_length h.2]
  | [], _ :: _, h => by simp [Below] at h
  | _ :: _, [], h => by simp [Below] at h

@[simp] theorem prod_nil : prod [] = 1 := rfl
@[simp] theorem prod_cons (m : Nat) (ms : List Nat) : prod (m :: ms) = m * prod ms := rfl

theorem prod_append (a b : List Nat) : prod (a ++ b) = prod a * prod b := by
  induction a with
  | nil => simp
  | cons x xs ih => simp [ih, Nat.mul_assoc]

theorem prod_reverse (a : List Nat) : prod a.reverse = prod a := by
  induction a with
  | nil => rfl
  | cons x xs ih => simp [prod_append, ih, Nat.mul_comm]

theorem fromSeqRev_length (i : Nat) (ms : List Nat) : (fromSeqRev i ms).length = ms.length := by
  induction ms generalizing i with
  | nil => rfl
  | cons m ms ih => simp [fromSeqRev, ih]

/-- digits produced by `from_seq` are in range when all radices are positive -/
theorem fromSeqRev_below (i : Nat) (ms : List Nat) (hpos : ∀ m ∈ ms, 0 < m) :
    Below (fromSeqRev i ms) ms := by
  induction ms generalizing i with
  | nil => trivial
  | cons m ms ih =>
    refine ⟨Nat.mod_lt _ (hpos m (by simp)), ih _ (fun x hx => hpos x (by simp [hx]))⟩

theorem toSeqRev_fromSeqRev (i : Nat) (ms : List Nat) (h : i < prod ms) :
    toSeqRev (fromSeqRev i ms) ms = i := by
  induction ms generalizing i with
  | nil => simp at h; simp [fromSeqRev, toSeqRev, h]
  | cons m ms ih =>
    have hm : 0 < m := by
      rcases Nat.eq_zero_or_pos m with h0 | h0
      · simp [h0] at h
      · exact h0
    have hdiv : i / m < prod ms := by
      rw [Nat.div_lt_iff_lt_mul hm]; simpa [Nat.mul_comm] using h
    simp [fromSeqRev, toSeqRev, ih _ hdiv, Nat.mod_add_div]

theorem toSeqRev_lt : ∀ (I ms : List Nat), Below I ms → toSeqRev I ms < prod ms
  | [], [], _ => by simp [toSeqRev]
  | i :: I, m :: ms, h => by
    have ih := toSeqRev_lt I ms h.2
    simp only [toSeqRev, prod_cons]
    calc i + m * toSeqRev I ms < m + m * toSeqRev I ms := by have := h.1; omega
      _ = m * (toSeqRev I ms + 1) := by rw [Nat.mul_add, Nat.mul_one, Nat.add_comm]
      _ ≤ m * prod ms := Nat.mul_le_mul_left _ ih
  | [], _ :: _, h => by simp [Below] at h
  | _ :: _, [], h => by simp [Below] at h

theorem fromSeqRev_toSeqRev : ∀ (I ms : List Nat), Below I ms → fromSeqRev (toSeqRev I ms) ms = I
  | [], [], _ => rfl
  | i :: I, m :: ms, h => by
    have ih := fromSeqRev_toSeqRev I ms h.2
    have hm : 0 < m := by have := h.1; omega
    simp only [toSeqRev, fromSeqRev]
    rw [Nat.add_mul_mod_self_left, Nat.mod_eq_of_lt h.1, Nat.add_mul_div_left _ _ hm,
      Nat.div_eq_of_lt h.1, Nat.zero_add, ih]
  | [], _ :: _, h => by simp [Below] at h
  | _ :: _, [], h => by simp [Below] at h

/-! ### Horner form vs. reversed form -/

theorem foldl_horner (acc : Nat) : ∀ (I ms : List Nat), I.length = ms.length →
    (I.zip ms).foldl (fun a p => a * p.2 + p.1) acc = acc * prod ms + (I.zip ms).foldl (fun a p => a * p.2 + p.1) 0
  | [], [], _ => by simp
  | i :: I, m :: ms, h => by
    have hl : I.length = ms.length := by simpa using h
    simp only [List.zip_cons_cons, List.foldl_cons, prod_cons, Nat.zero_mul, Nat.zero_add]
    rw [foldl_horner (acc * m + i) I ms hl, foldl_horner i I ms hl]
    rw [Nat.add_mul, Nat.mul_assoc, Nat.add_assoc]
  | [], _ :: _, h => by simp at h
  | _ :: _, [], h => by simp at h

theorem toSeq_cons (i m : Nat) (I ms : List Nat) (h : I.length = ms.length) :
    toSeq (i :: I) (m :: ms) = i * prod ms + toSeq I ms := by
  unfold toSeq
  simp only [List.zip_cons_cons, List.foldl_cons, Nat.zero_mul, Nat.zero_add]
  exact foldl_horner i I ms h

theorem toSeqRev_append_singleton : ∀ (I ms : List Nat) (i m : Nat), I.length = ms.length →
    toSeqRev (I ++ [i]) (ms ++ [m]) = toSeqRev I ms + prod ms * i
  | [], [], i, m, _ => by simp [toSeqRev]
  | a :: I, b :: ms, i, m, h => by
    have hl : I.length = ms.length := by simpa using h
    simp only [List.cons_append, toSeqRev, prod_cons]
    rw [toSeqRev_append_singleton I ms i m hl, Nat.mul_add, Nat.mul_assoc, Nat.add_assoc]
  | [], _ :: _, _, _, h => by simp at h
  | _ :: _, [], _, _, h => by simp at h

/-- Horner evaluation equals little-endian evaluation of the reversed lists -/
theorem toSeq_eq_toSeqRev : ∀ (I ms : List Nat), I.length = ms.length →
    toSeq I ms = toSeqRev I.reverse ms.reverse
  | [], [], _ => rfl
  | i :: I, m :: ms, h => by
    have hl : I.length = ms.length := by simpa using h
    rw [toSeq_cons i m I ms hl, List.reverse_cons, List.reverse_cons,
      toSeqRev_append_singleton _ _ _ _ (by simp [hl]), ← toSeq_eq_toSeqRev I ms hl, prod_reverse]
    rw [Nat.mul_comm, Nat.add_comm]
  | [], _ :: _, h => by simp at h
  | _ :: _, [], h => by simp at h

theorem below_reverse_aux : ∀ (I ms : List Nat) (i m : Nat), Below I ms → i < m → Below (I ++ [i]) (ms ++ [m])
  | [], [], _, _, _, h => ⟨h, trivial⟩
  | _ :: I, _ :: ms, i, m, h, hi => ⟨h.1, below_reverse_aux I ms i m h.2 hi⟩
  | [], _ :: _, _, _, h, _ => by simp [Below] at h
  | _ :: _, [], _, _, h, _ => by simp [Below] at h

theorem below_reverse : ∀ (I ms : List Nat), Below I ms → Below I.reverse ms.reverse
  | [], [], _ => trivial
  | i :: I, m :: ms, h => by
    simp only [List.reverse_cons]
    exact below_reverse_aux _ _ _ _ (below_reverse I ms h.2) h.1
  | [], _ :: _, h => by simp [Below] at h
  | _ :: _, [], h => by simp [Below] at h

theorem below_of_reverse (I ms : List Nat) (h : Below I.reverse ms.reverse) : Below I ms := by
  have := below_reverse _ _ h
  simpa using this

/-! ### the two round trips, in the library's own (big-endian) convention -/

theorem toSeq_fromSeq (i : Nat) (dims : List Nat) (h : i < prod dims) :
    toSeq (fromSeq i dims) dims = i := by
  unfold fromSeq
  rw [toSeq_eq_toSeqRev _ _ (by simp [fromSeqRev_length]), List.reverse_reverse]
  exact toSeqRev_fromSeqRev i dims.reverse (by rwa [prod_reverse])

theorem fromSeq_toSeq (I dims : List Nat) (h : Below I dims) :
    fromSeq (toSeq I dims) dims = I := by
  unfold fromSeq
  rw [toSeq_eq_toSeqRev _ _ (below_length h), fromSeqRev_toSeqRev _ _ (below_reverse _ _ h),
    List.reverse_reverse]

theorem toSeq_lt (I dims : List Nat) (h : Below I dims) : toSeq I dims < prod dims := by
  rw [toSeq_eq_toSeqRev _ _ (below_length h), ← prod_reverse dims]
  exact toSeqRev_lt _ _ (below_reverse _ _ h)

theorem fromSeq_below (i : Nat) (dims : List Nat) (hpos : ∀ m ∈ dims, 0 < m) :
    Below (fromSeq i dims) dims := by
  apply below_of_reverse
  unfold fromSeq
  rw [List.reverse_reverse]
  exact fromSeqRev_below i _ (fun m hm => hpos m (by simpa using hm))

theorem fromSeq_length (i : Nat) (dims : List Nat) : (fromSeq i dims).length = dims.length := by
  simp [fromSeq, fromSeqRev_length]

/-! ### the odometer is `+1` in mixed radix -/

theorem incrRev_fromSeqRev (i : Nat) (ms : List Nat) (h : i + 1 < prod ms) :
    incrRev (fromSeqRev i ms) ms = some (fromSeqRev (i + 1) ms) := by
  induction ms generalizing i with
  | nil => simp at h
  | cons m ms ih =>
    have hm : 0 < m := by
      rcases Nat.eq_zero_or_pos m with h0 | h0
      · simp [h0] at h
      · exact h0
    simp only [fromSeqRev, incrRev]
    by_cases hc : i % m + 1 < m
    · rw [if_pos hc]
      have h1 : (i + 1) % m = i % m + 1 := by
        rw [Nat.add_mod]; rcases Nat.lt_or_ge 1 m with h1m | h1m
        · rw [Nat.mod_eq_of_lt h1m, Nat.mod_eq_of_lt hc]
        · have : m = 1 := by omega
          subst this; omega
      have h2 : (i + 1) / m = i / m := by
        have := Nat.div_add_mod i m
        have e : i + 1 = m * (i / m) + (i % m + 1) := by omega
        rw [e, Nat.mul_add_div hm, Nat.div_eq_of_lt hc, Nat.add_zero]
      rw [h1, h2]
    · rw [if_neg hc]
      have hlast : i % m = m - 1 := by have := Nat.mod_lt i hm; omega
      have e : i + 1 = m * (i / m + 1) := by
        have := Nat.div_add_mod i m
        rw [Nat.mul_add]; omega
      have h1 : (i + 1) % m = 0 := by rw [e]; exact Nat.mul_mod_right _ _
      have h2 : (i + 1) / m = i / m + 1 := by rw [e, Nat.mul_div_cancel_left _ hm]
      have hlt : i / m + 1 < prod ms := by
        have : m * (i / m + 1) < m * prod ms := by rw [← e]; simpa using h
        exact Nat.lt_of_mul_lt_mul_left this
      rw [ih _ hlt, h1, h2]; rfl

theorem incrRev_fromSeqRev_last (i : Nat) (ms : List Nat) (h : i + 1 = prod ms) :
    incrRev (fromSeqRev i ms) ms = none := by
  induction ms generalizing i with
  | nil => rfl
  | cons m ms ih =>
    have hm : 0 < m := by
      rcases Nat.eq_zero_or_pos m with h0 | h0
      · simp [h0] at h
      · exact h0
    simp only [fromSeqRev, incrRev, prod_cons] at *
    have hdm := Nat.div_add_mod i m
    have hml := Nat.mod_lt i hm
    -- i+1 = m * P  ⇒  i % m = m-1 and i/m + 1 = P
    have hP : i / m + 1 = prod ms := by
      have h1 : m * (i / m) + (i % m + 1) = m * prod ms := by omega
      have hle : i / m < prod ms := by
        apply Nat.lt_of_mul_lt_mul_left (a := m); omega
      rcases Nat.lt_or_ge (i / m + 1) (prod ms) with hlt | hge
      · have h2 : m * (i / m + 2) ≤ m * prod ms := Nat.mul_le_mul_left _ hlt
        rw [Nat.mul_add] at h2; omega
      · omega
    have hmod : ¬ (i % m + 1 < m) := by
      intro hc
      have : m * (i / m) + (i % m + 1) = m * (i / m + 1) := by rw [hP]; omega
      rw [Nat.mul_add] at this; omega
    rw [if_neg hmod, ih _ hP]; rfl

theorem incr_fromSeq (i : Nat) (dims : List Nat) (h : i + 1 < prod dims) :
    incr (fromSeq i dims) dims = some (fromSeq (i + 1) dims) := by
  unfold incr fromSeq
  rw [List.reverse_reverse, incrRev_fromSeqRev _ _ (by rwa [prod_reverse])]; rfl

theorem incr_fromSeq_last (i : Nat) (dims : List Nat) (h : i + 1 = prod dims) :
    incr (fromSeq i dims) dims = none := by
  unfold incr fromSeq
  rw [List.reverse_reverse, incrRev_fromSeqRev_last _ _ (by rwa [prod_reverse])]; rfl

theorem fromSeqRev_zero (ms : List Nat) : fromSeqRev 0 ms = ms.map (fun _ => 0) := by
  induction ms with
  | nil => rfl
  | cons m ms ih => simp [fromSeqRev, ih]

theorem fromSeq_zero (dims : List Nat) : fromSeq 0 dims = dims.map (fun _ => 0) := by
  simp [fromSeq, fromSeqRev_zero]

end Pyiga.Index
