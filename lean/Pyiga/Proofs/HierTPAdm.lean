/-
L-hier, concrete part: the dyadic tensor-product hierarchy satisfies the additional laws
`LawsAdm` (unions, parents, nestedness of the spline spaces).
-/
import Pyiga.Proofs.HierTwoScale
import Pyiga.Proofs.HierAdmLaws

namespace Pyiga.Hier

open Pyiga.Index (Below)

namespace KV

/-! ### the children intervals cover the refined basis -/

/-- the last knot is a copy of the last distinct knot -/
theorem k2mAt_last : ∀ (ms : List Nat) (i0 : Nat), ms ≠ [] → (∀ m ∈ ms, 1 ≤ m) →
    k2mAt i0 ms (ms.sum - 1) = i0 + (ms.length - 1)
  | [], _, h, _ => absurd rfl h
  | [m], i0, _, h1 => by
    have : 1 ≤ m := h1 m (List.mem_cons_self ..)
    have hk : m - 1 < m := by omega
    simp [k2mAt, hk]
  | m :: m' :: rest, i0, _, h1 => by
    have hm' : 1 ≤ m' := h1 m' (by simp)
    have ih := k2mAt_last (m' :: rest) (i0 + 1) (by simp)
      (fun x hx => h1 x (List.mem_cons_of_mem _ hx))
    simp only [List.sum_cons, List.length_cons] at ih ⊢
    have h2 : ¬ m + (m' + rest.sum) - 1 < m := by omega
    have e : m + (m' + rest.sum) - 1 - m = m' + rest.sum - 1 := by omega
    rw [k2mAt, if_neg h2, e, ih]
    omega

theorem k2m_zero {kv : KV} (hg : GoodKV kv) : kv.k2m 0 = 0 := by
  unfold k2m
  obtain ⟨hne, hb⟩ := hg
  cases hm : kv.mults with
  | nil => exact absurd hm hne
  | cons m ms =>
    have : 1 ≤ m := (hb m (by rw [hm]; exact List.mem_cons_self ..)).1
    have h0 : 0 < m := by omega
    simp [k2mAt, h0]

/-- the children intervals of the functions `0..j` cover `[0, j + ms1 j]` -/
theorem children_cover {kv : KV} (hg : GoodKV kv) : ∀ (j : Nat), j < kv.numdofs →
    ∀ i, i ≤ j + kv.ms1 j → ∃ j', j' ≤ j ∧ i ∈ kv.funChildren j'
  | 0, _, i, hi => by
    refine ⟨0, Nat.le_refl _, ?_⟩
    unfold funChildren
    rw [mem_rangeFT]
    have : kv.ms0 0 = 0 := k2m_zero hg
    omega
  | j + 1, hj, i, hi => by
    by_cases h : i ≤ j + kv.ms1 j
    · obtain ⟨j', hj', hc⟩ := children_cover hg j (by omega) i h
      exact ⟨j', by omega, hc⟩
    · refine ⟨j + 1, Nat.le_refl _, ?_⟩
      unfold funChildren
      rw [mem_rangeFT]
      have hk := succ_lt_numknots (kv := kv) (j := j) (by omega)
      have hm : kv.ms0 (j + 1) ≤ kv.ms1 j :=
        k2mAt_mono kv.mults 0 (j + 1) (j + kv.p + 1) (by omega) hk
      omega

theorem exists_parent (kv : KV) (hg : GoodKV kv) (hd : 1 ≤ kv.numdofs) (i : Nat)
    (hi : i < kv.refine.numdofs) : ∃ j, j < kv.numdofs ∧ i ∈ kv.funChildren j := by
  have hnd := numdofs_refine hg hd
  have hlast := k2mAt_last kv.mults 0 hg.1 (fun m hm => (hg.2 m hm).1)
  have hk := succ_lt_numknots (kv := kv) (j := kv.numdofs - 1) (by omega)
  have e : kv.numdofs - 1 + kv.p + 1 = kv.mults.sum - 1 := by
    unfold numdofs numknots at hd ⊢; omega
  have hE : kv.ms1 (kv.numdofs - 1) = kv.numspans := by
    show k2mAt 0 kv.mults (kv.numdofs - 1 + kv.p + 1) = kv.mults.length - 1
    rw [e, hlast]; omega
  obtain ⟨j', hj', hc⟩ := children_cover hg (kv.numdofs - 1) (by omega) i (by omega)
  exact ⟨j', by omega, hc⟩

end KV

/-! ### tensor-product lifting -/

theorem exists_parent_tp : ∀ (m : Mesh) (g : Idx), (∀ kv ∈ m, GoodKV kv) →
    (∀ kv ∈ m, 1 ≤ kv.numdofs) → Below g ((m.map KV.refine).map KV.numdofs) →
    ∃ f, Below f (m.map KV.numdofs) ∧
      g ∈ cart (List.zipWith (fun kv j => kv.funChildren j) m f)
  | [], [], _, _, _ => ⟨[], trivial, by simp⟩
  | [], _ :: _, _, _, h => by simp [Below] at h
  | _ :: _, [], _, _, h => by simp [Below] at h
  | kv :: m, i :: g, hg, hd, h => by
    simp only [List.map_cons, Below] at h
    obtain ⟨f, hf, hc⟩ := exists_parent_tp m g (fun x hx => hg x (List.mem_cons_of_mem _ hx))
      (fun x hx => hd x (List.mem_cons_of_mem _ hx)) h.2
    obtain ⟨j, hj, hji⟩ := KV.exists_parent kv (hg kv (List.mem_cons_self ..))
      (hd kv (List.mem_cons_self ..)) i h.1
    refine ⟨j :: f, ?_, ?_⟩
    · simp only [List.map_cons, Below]; exact ⟨hj, hf⟩
    · simp only [List.zipWith_cons_cons, cons_mem_cart_cons]; exact ⟨hji, hc⟩

theorem tp_lawsAdm (kvs : Mesh) (hg : ∀ kv ∈ kvs, GoodKV kv) (hd : ∀ kv ∈ kvs, 1 ≤ kv.numdofs) :
    LawsAdm (tpOps kvs) (VCtp kvs) (VFtp kvs) parTp where
  mem_support := by
    intro lv fs c
    show c ∈ Mesh.support (meshAt kvs lv) fs ↔ ∃ f ∈ fs, c ∈ Mesh.support (meshAt kvs lv) [f]
    simp only [mem_support_singleton]
    simp [Mesh.support, List.mem_flatMap]
  mem_parent := by
    intro lv cells c
    show c ∈ cellParent cells ↔ ∃ q ∈ cells, c = parTp q
    simp only [cellParent, parTp, mem_dedup, List.mem_map]
    constructor
    · rintro ⟨q, hq, rfl⟩; exact ⟨q, hq, rfl⟩
    · rintro ⟨q, hq, rfl⟩; exact ⟨q, hq, rfl⟩
  has_parent := by
    intro k g hv
    have hv' : Below g (((meshAt kvs k).map KV.refine).map KV.numdofs) := by
      have := hv
      unfold VFtp at this
      rwa [meshAt_succ] at this
    obtain ⟨f, hf, hc⟩ := exists_parent_tp _ g (good_meshAt hg k) (numdofs_meshAt_pos hd k) hv'
    exact ⟨f, hf, (tp_child_support_sub kvs hg k f g hf hc).2⟩

end Pyiga.Hier
