/-
Part 6: the whole pass `replace_physical_derivs` over expression trees (`replacePhysAll`), every dimension.
-/
import Pyiga.Proofs.VFormPhys2

namespace Pyiga.VForm
open Expr Finset

/-! ### `_D_to_indices` determines the multi-index (orders 0, 1, 2) -/

theorem aux_nil (D : List Nat) (off : Nat) (h : dToIndicesAux D off = []) : D = List.replicate D.length 0 := by
  induction D generalizing off with
  | nil => rfl
  | cons n rest ih =>
    simp only [dToIndicesAux, List.append_eq_nil_iff] at h
    have hn : n = 0 := by
      cases n with
      | zero => rfl
      | succ n => simp [List.replicate_succ] at h
    subst hn
    simp only [List.length_cons, List.replicate_succ]
    rw [← ih (off + 1) h.2]

theorem bump_cons_zero (n : Nat) (rest : List Nat) (t : Nat) : bump (n :: rest) 0 t = (n + t) :: rest := by
  simp [bump]

theorem bump_cons_succ (n : Nat) (rest : List Nat) (k t : Nat) : bump (n :: rest) (k + 1) t = n :: bump rest k t := by
  simp [bump]

theorem aux_single (D : List Nat) (off x : Nat) (h : dToIndicesAux D off = [x]) :
    ∃ k, k < D.length ∧ x = off + k ∧ D = bump (List.replicate D.length 0) k 1 := by
  induction D generalizing off with
  | nil => simp [dToIndicesAux] at h
  | cons n rest ih =>
    simp only [dToIndicesAux] at h
    match n, h with
    | 0, h =>
      simp only [List.replicate_zero, List.nil_append] at h
      obtain ⟨k, hk, hx, hD⟩ := ih (off + 1) h
      refine ⟨k + 1, by simp; omega, by omega, ?_⟩
      simp only [List.length_cons, List.replicate_succ, bump_cons_succ]
      rw [← hD]
    | 1, h =>
      simp only [List.replicate_one, List.singleton_append, List.cons.injEq] at h
      have hz := aux_nil rest (off + 1) h.2
      refine ⟨0, by simp, by omega, ?_⟩
      simp only [List.length_cons, List.replicate_succ, bump_cons_zero, Nat.zero_add]
      rw [← hz]
    | n + 2, h =>
      have := congrArg List.length h
      simp [List.replicate_succ] at this

theorem aux_pair (D : List Nat) (off x y : Nat) (h : dToIndicesAux D off = [x, y]) :
    ∃ i j, i < D.length ∧ j < D.length ∧ x = off + i ∧ y = off + j ∧
      D = bump (bump (List.replicate D.length 0) i 1) j 1 := by
  induction D generalizing off with
  | nil => simp [dToIndicesAux] at h
  | cons n rest ih =>
    simp only [dToIndicesAux] at h
    match n, h with
    | 0, h =>
      simp only [List.replicate_zero, List.nil_append] at h
      obtain ⟨i, j, hi, hj, hx, hy, hD⟩ := ih (off + 1) h
      refine ⟨i + 1, j + 1, by simp; omega, by simp; omega, by omega, by omega, ?_⟩
      simp only [List.length_cons, List.replicate_succ, bump_cons_succ]
      rw [← hD]
    | 1, h =>
      simp only [List.replicate_one, List.singleton_append, List.cons.injEq] at h
      obtain ⟨k, hk, hy, hD⟩ := aux_single rest (off + 1) y h.2
      refine ⟨0, k + 1, by simp, by simp; omega, by omega, by omega, ?_⟩
      simp only [List.length_cons, List.replicate_succ, bump_cons_zero, bump_cons_succ, Nat.zero_add]
      rw [← hD]
    | 2, h =>
      simp only [List.replicate_succ, List.replicate_zero, List.cons_append, List.nil_append, List.cons.injEq] at h
      have hz := aux_nil rest (off + 1) (by
        have := h.2.2
        simpa using this)
      refine ⟨0, 0, by simp, by simp, by omega, by omega, ?_⟩
      simp only [List.length_cons, List.replicate_succ, bump_cons_zero, Nat.zero_add]
      rw [← hz]
    | n + 3, h =>
      have := congrArg List.length h
      simp [List.replicate_succ] at this


theorem dsum_zeros (n : Nat) : dsum (List.replicate n 0) = 0 := by
  induction n with
  | zero => rfl
  | succ n ih => simpa [dsum, List.replicate_succ] using ih

/-! ### the pass over whole trees -/

variable {α : Type} [Field α] [CharZero α]

/-- a predicate on all leaves of a tree -/
def allLeaves (p : Expr → Bool) : Expr → Bool
  | litvec es => (es.map (allLeaves p)).all id
  | litmat _ _ es => (es.map (allLeaves p)).all id
  | neg x => allLeaves p x
  | builtin _ x => allLeaves p x
  | sop _ x y => allLeaves p x && allLeaves p y
  | top _ x y => allLeaves p x && allLeaves p y
  | cross x y => allLeaves p x && allLeaves p y
  | outer x y => allLeaves p x && allLeaves p y
  | matvec x y => allLeaves p x && allLeaves p y
  | matmat x y => allLeaves p x && allLeaves p y
  | e => p e

/-- multi-indices have one entry per parametric axis (`VarRefExpr.__init__`, `indices_to_D`) -/
def idxLenOK (dim : Nat) : Expr → Bool
  | pderiv _ D _ => D.length == dim
  | varref _ _ D _ => D.length == dim
  | _ => true

theorem mapLeaves_sound (o : Ops α) (ρ : Env α) (f : Expr → Expr) (p : Expr → Bool)
    (hf : ∀ e, p e = true → (∀ i j, ev o ρ (f e) i j = ev o ρ e i j) ∧ shape (f e) = shape e) (e : Expr) :
    allLeaves p e = true → (∀ i j, ev o ρ (mapLeaves f e) i j = ev o ρ e i j) ∧ shape (mapLeaves f e) = shape e := by
  induction e using Expr.rec
    (motive_2 := fun es => (es.map (allLeaves p)).all id = true →
      ∀ i, evL o ρ (es.map (mapLeaves f)) i = evL o ρ es i) with
  | nil => simp
  | cons e es ihe ihes =>
    rename_i h i
    simp only [List.map_cons, List.all_cons, id, Bool.and_eq_true] at h
    cases i with
    | zero => simp [evL, (ihe h.1).1]
    | succ i => simpa [evL] using ihes h.2 i
  | litvec es ih => intro h; simp only [allLeaves] at h; simp [mapLeaves, ev, shape, ih h]
  | litmat m n es ih => intro h; simp only [allLeaves] at h; simp [mapLeaves, ev, shape, ih h]
  | neg x ih => intro h; simp only [allLeaves] at h; simp [mapLeaves, ev, shape, (ih h).1]
  | builtin g x ih => intro h; simp only [allLeaves] at h; simp [mapLeaves, ev, shape, (ih h).1]
  | sop op x y ihx ihy =>
    intro h; simp only [allLeaves, Bool.and_eq_true] at h; simp [mapLeaves, ev, shape, (ihx h.1).1, (ihy h.2).1]
  | top op x y ihx ihy =>
    intro h; simp only [allLeaves, Bool.and_eq_true] at h
    simp [mapLeaves, ev, shape, (ihx h.1).1, (ihy h.2).1, (ihx h.1).2]
  | cross x y ihx ihy =>
    intro h; simp only [allLeaves, Bool.and_eq_true] at h
    simp only [mapLeaves, shape, (ihx h.1).2, and_true]
    intro i j; rcases i with _ | _ | i <;> simp [ev, (ihx h.1).1, (ihy h.2).1]
  | outer x y ihx ihy =>
    intro h; simp only [allLeaves, Bool.and_eq_true] at h
    simp [mapLeaves, ev, shape, (ihx h.1).1, (ihy h.2).1, (ihx h.1).2, (ihy h.2).2]
  | matvec x y ihx ihy =>
    intro h; simp only [allLeaves, Bool.and_eq_true] at h
    simp [mapLeaves, ev, shape, len, (ihx h.1).1, (ihy h.2).1, (ihx h.1).2, (ihy h.2).2]
  | matmat x y ihx ihy =>
    intro h; simp only [allLeaves, Bool.and_eq_true] at h
    simp [mapLeaves, ev, shape, ncols, (ihx h.1).1, (ihy h.2).1, (ihx h.1).2, (ihy h.2).2]
  | const v => intro h; simp only [allLeaves] at h; simpa [mapLeaves] using hf _ h
  | varref v I D q => intro h; simp only [allLeaves] at h; simpa [mapLeaves] using hf _ h
  | pderiv b D ph => intro h; simp only [allLeaves] at h; simpa [mapLeaves] using hf _ h
  | gw a => intro h; simp only [allLeaves] at h; simpa [mapLeaves] using hf _ h
  | dx => intro h; simp only [allLeaves] at h; simpa [mapLeaves] using hf _ h
  | ds => intro h; simp only [allLeaves] at h; simpa [mapLeaves] using hf _ h


theorem scalarCls_foldl_sop (ts : List Expr) (t : Expr) (h : scalarCls t = true) :
    scalarCls (ts.foldl (fun a b => sop .add a b) t) = true := by
  induction ts generalizing t with
  | nil => simpa using h
  | cons x ts ih => simp only [List.foldl_cons]; exact ih _ (by simp [scalarCls])

theorem scalarCls_reduceAdd_map (n : Nat) (f : Nat → Expr) (hf : ∀ k, scalarCls (f k) = true) :
    scalarCls (reduceAdd ((List.range n).map f)) = true := by
  cases h : (List.range n).map f with
  | nil => simp [reduceAdd, scalarCls]
  | cons t ts =>
    simp only [reduceAdd]
    apply scalarCls_foldl_sop
    have : t ∈ (List.range n).map f := by rw [h]; simp
    obtain ⟨k, _, rfl⟩ := List.mem_map.mp this
    exact hf k

theorem scalarCls_foldl_range (n : Nat) (g : Nat → Expr) (h0 : Expr) (h : scalarCls h0 = true) :
    scalarCls ((List.range n).foldl (fun acc k => sop .add acc (g k)) h0) = true := by
  induction n with
  | zero => simpa using h
  | succ n _ => rw [List.range_succ, List.foldl_append]; simp [scalarCls]

theorem scalarCls_physToPara1G (dim : Nat) (atom : List Nat → Expr) (k : Nat) :
    scalarCls (physToPara1G dim atom k) = true :=
  scalarCls_reduceAdd_map dim _ (fun _ => by simp [scalarCls])

theorem scalarCls_physToPara2G (dim : Nat) (atom : List Nat → Expr) (i j : Nat) :
    scalarCls (physToPara2G dim atom i j) = true := by
  unfold physToPara2G
  exact scalarCls_foldl_range dim _ _ (scalarCls_reduceAdd_map dim _ (fun _ => by simp [scalarCls]))

/-- **ChainRuleEnv**: the environment satisfies the chain-rule *defining equations* of physical derivatives w.r.t. the
Jacobian `J`, for every basis function and every entry of every parametric input field; `JacInv` holds a right inverse
of `J`; the `_geo_hess_trf` variables hold their definitions; the flavour flag is irrelevant for order 0. -/
structure ChainRuleEnv (fn : String → α → α) (ρ : Env α) (dim : Nat) (physIn : List String) (J : Nat → Nat → α) : Prop where
  hinv : ∀ m k, m < dim → k < dim →
    ∑ r ∈ range dim, J m r * ρ.var "JacInv" [r, k] (zerosD dim) false = if m = k then 1 else 0
  flag_bf : ∀ b D ph, dsum D = 0 → ρ.bf b D ph = ρ.bf b D false
  flag_var : ∀ v I D p, dsum D = 0 → ρ.var v I D p = ρ.var v I D true
  bf1 : ∀ b r, r < dim → ρ.bf b (unitD dim r) false = ∑ m ∈ range dim, J m r * ρ.bf b (unitD dim m) true
  bf2 : ∀ b r c, r < dim → c < dim → ρ.bf b (unit2D dim r c) false
      = ∑ n ∈ range dim, (∑ m ∈ range dim, J m r * ρ.bf b (unit2D dim m n) true) * J n c
        + ∑ m ∈ range dim, ρ.bf b (unitD dim m) true * ρ.var "geo_a" [m] (unit2D dim r c) true
  var1 : ∀ v I r, physIn.contains v = false → r < dim →
      ρ.var v I (unitD dim r) true = ∑ m ∈ range dim, J m r * ρ.var v I (unitD dim m) false
  var2 : ∀ v I r c, physIn.contains v = false → r < dim → c < dim → ρ.var v I (unit2D dim r c) true
      = ∑ n ∈ range dim, (∑ m ∈ range dim, J m r * ρ.var v I (unit2D dim m n) false) * J n c
        + ∑ m ∈ range dim, ρ.var v I (unitD dim m) false * ρ.var "geo_a" [m] (unit2D dim r c) true
  ght : ∀ k i j, k < dim → i < dim → j < dim →
    ρ.var (geoHessTrfName k i j) [] (zerosD dim) false = ev (fieldOps fn) ρ (geoHessTrfDef dim k i j) 0 0

/-- one `PartialDerivExpr` node -/
theorem replacePhysBf_node (fn : String → α → α) (ρ : Env α) (dim : Nat) (physIn : List String) (J : Nat → Nat → α)
    (hE : ChainRuleEnv fn ρ dim physIn J) (e : Expr) (hlen : idxLenOK dim e = true) :
    (∀ i j, ev (fieldOps fn) ρ (replacePhysBf dim e) i j = ev (fieldOps fn) ρ e i j) ∧ shape (replacePhysBf dim e) = shape e := by
  cases e with
  | pderiv b D ph =>
    simp only [idxLenOK, beq_iff_eq] at hlen
    simp only [replacePhysBf]
    split
    · rename_i h0
      have h0' : dsum D = 0 := by simpa using h0
      exact ⟨fun i j => by simp [ev, hE.flag_bf b D ph h0'], rfl⟩
    · rename_i h0
      split
      · exact ⟨fun _ _ => rfl, rfl⟩
      · rename_i hph
        have hph' : ph = true := by simpa using hph
        subst hph'
        unfold physToParaG
        split
        · -- no index although dsum D ≠ 0: impossible
          rename_i hnil
          have := aux_nil D 0 hnil
          rw [this, dsum_zeros] at h0
          simp at h0
        · rename_i k hk
          obtain ⟨k', hk', hkk, hD⟩ := aux_single D 0 k hk
          rw [hlen] at hk' hD
          have hkeq : k = k' := by omega
          subst hkeq
          have hs := physToPara1G_sound fn ρ dim (bfAtom b) J (fun m => ρ.bf b (unitD dim m) true) hE.hinv
            (fun r hr => by simpa [bfAtom, ev] using hE.bf1 b r hr) k hk'
          refine ⟨fun i j => ?_, ?_⟩
          · simp only [Option.getD_some]
            rw [scalar_ev _ _ _ (scalarCls_physToPara1G dim _ k), hs]
            simp only [ev]; rw [hD]; rfl
          · simp only [Option.getD_some, scalarCls_shape _ (scalarCls_physToPara1G dim _ k), shape]
        · rename_i i' j' hij
          obtain ⟨i, j, hi, hj, hii, hjj, hD⟩ := aux_pair D 0 i' j' hij
          rw [hlen] at hi hj hD
          have e1 : i' = i := by omega
          have e2 : j' = j := by omega
          subst e1 e2
          have hs := physToPara2G_sound fn ρ dim (bfAtom b) J (fun m n => ρ.bf b (unit2D dim m n) true)
            (fun m => ρ.bf b (unitD dim m) true) i' j' hi hj hE.hinv
            (fun r hr => by simpa [bfAtom, ev] using hE.bf1 b r hr)
            (fun r c hr hc => by simpa [bfAtom, ev] using hE.bf2 b r c hr hc)
            (fun k hk => hE.ght k i' j' hk hi hj)
          refine ⟨fun i j => ?_, ?_⟩
          · simp only [Option.getD_some]
            rw [scalar_ev _ _ _ (scalarCls_physToPara2G dim _ i' j'), hs]
            simp only [ev]; rw [hD]; rfl
          · simp only [Option.getD_some, scalarCls_shape _ (scalarCls_physToPara2G dim _ i' j'), shape]
        · exact ⟨fun _ _ => rfl, rfl⟩
  | _ => exact ⟨fun _ _ => rfl, rfl⟩


/-- one `VarRefExpr` node -/
theorem replacePhysVar_node (fn : String → α → α) (ρ : Env α) (dim : Nat) (physIn : List String) (J : Nat → Nat → α)
    (hE : ChainRuleEnv fn ρ dim physIn J) (e : Expr) (hlen : idxLenOK dim e = true) :
    (∀ i j, ev (fieldOps fn) ρ (replacePhysVar dim physIn e) i j = ev (fieldOps fn) ρ e i j)
      ∧ shape (replacePhysVar dim physIn e) = shape e := by
  cases e with
  | varref v I D par =>
    simp only [idxLenOK, beq_iff_eq] at hlen
    simp only [replacePhysVar]
    split
    · rename_i h0
      have h0' : dsum D = 0 := by simpa using h0
      exact ⟨fun i j => by simp [ev, hE.flag_var v I D par h0'], rfl⟩
    · rename_i h0
      split
      · exact ⟨fun _ _ => rfl, rfl⟩
      · rename_i hphys
        have hphys' : physIn.contains v = false := by simpa using hphys
        split
        · exact ⟨fun _ _ => rfl, rfl⟩
        · rename_i hpar
          have hpar' : par = false := by simpa using hpar
          subst hpar'
          unfold physToParaG
          split
          · rename_i hnil
            have := aux_nil D 0 hnil
            rw [this, dsum_zeros] at h0
            simp at h0
          · rename_i k hk
            obtain ⟨k', hk', hkk, hD⟩ := aux_single D 0 k hk
            rw [hlen] at hk' hD
            have hkeq : k = k' := by omega
            subst hkeq
            have hs := physToPara1G_sound fn ρ dim (varAtom v I) J (fun m => ρ.var v I (unitD dim m) false) hE.hinv
              (fun r hr => by simpa [varAtom, ev] using hE.var1 v I r hphys' hr) k hk'
            refine ⟨fun i j => ?_, ?_⟩
            · simp only [Option.getD_some]
              rw [scalar_ev _ _ _ (scalarCls_physToPara1G dim _ k), hs]
              simp only [ev]; rw [hD]; rfl
            · simp only [Option.getD_some, scalarCls_shape _ (scalarCls_physToPara1G dim _ k), shape]
          · rename_i i' j' hij
            obtain ⟨i, j, hi, hj, hii, hjj, hD⟩ := aux_pair D 0 i' j' hij
            rw [hlen] at hi hj hD
            have e1 : i' = i := by omega
            have e2 : j' = j := by omega
            subst e1 e2
            have hs := physToPara2G_sound fn ρ dim (varAtom v I) J (fun m n => ρ.var v I (unit2D dim m n) false)
              (fun m => ρ.var v I (unitD dim m) false) i' j' hi hj hE.hinv
              (fun r hr => by simpa [varAtom, ev] using hE.var1 v I r hphys' hr)
              (fun r c hr hc => by simpa [varAtom, ev] using hE.var2 v I r c hphys' hr hc)
              (fun k hk => hE.ght k i' j' hk hi hj)
            refine ⟨fun i j => ?_, ?_⟩
            · simp only [Option.getD_some]
              rw [scalar_ev _ _ _ (scalarCls_physToPara2G dim _ i' j'), hs]
              simp only [ev]; rw [hD]; rfl
            · simp only [Option.getD_some, scalarCls_shape _ (scalarCls_physToPara2G dim _ i' j'), shape]
          · exact ⟨fun _ _ => rfl, rfl⟩
  | _ => exact ⟨fun _ _ => rfl, rfl⟩

/-- **phys_to_para_sound** — the whole pass `replace_physical_derivs` (both `transform` calls, every expression tree,
every dimension, orders 0–2, basis functions and input fields): in every environment satisfying the chain-rule defining
equations, every entry of every expression is preserved. -/
theorem replacePhysAll_sound (fn : String → α → α) (ρ : Env α) (dim : Nat) (physIn : List String) (J : Nat → Nat → α)
    (hE : ChainRuleEnv fn ρ dim physIn J) (e : Expr)
    (h1 : allLeaves (idxLenOK dim) e = true)
    (h2 : allLeaves (idxLenOK dim) (mapLeaves (replacePhysBf dim) e) = true) (i j : Nat) :
    ev (fieldOps fn) ρ (replacePhysAll dim physIn e) i j = ev (fieldOps fn) ρ e i j := by
  unfold replacePhysAll
  rw [(mapLeaves_sound (fieldOps fn) ρ (replacePhysVar dim physIn) (idxLenOK dim)
      (fun e he => replacePhysVar_node fn ρ dim physIn J hE e he) _ h2).1 i j,
    (mapLeaves_sound (fieldOps fn) ρ (replacePhysBf dim) (idxLenOK dim)
      (fun e he => replacePhysBf_node fn ρ dim physIn J hE e he) _ h1).1 i j]


/-! ### the first `transform` keeps multi-indices well-formed (discharges `h2` above) -/

theorem allLeaves_foldl_sop (p : Expr → Bool) (ts : List Expr) (t : Expr) (ht : allLeaves p t = true)
    (hts : ∀ x ∈ ts, allLeaves p x = true) : allLeaves p (ts.foldl (fun a b => sop .add a b) t) = true := by
  induction ts generalizing t with
  | nil => simpa using ht
  | cons x ts ih =>
    simp only [List.foldl_cons]
    apply ih
    · simp [allLeaves, ht, hts x (by simp)]
    · intro y hy; exact hts y (by simp [hy])

theorem allLeaves_reduceAdd_map (p : Expr → Bool) (n : Nat) (f : Nat → Expr) (h0 : p (const 0) = true)
    (hf : ∀ k, allLeaves p (f k) = true) : allLeaves p (reduceAdd ((List.range n).map f)) = true := by
  cases h : (List.range n).map f with
  | nil => simpa [reduceAdd, allLeaves] using h0
  | cons t ts =>
    simp only [reduceAdd]
    have hall : ∀ x ∈ (List.range n).map f, allLeaves p x = true := by
      intro x hx; obtain ⟨k, _, rfl⟩ := List.mem_map.mp hx; exact hf k
    rw [h] at hall
    exact allLeaves_foldl_sop p ts t (hall t (by simp)) (fun x hx => hall x (by simp [hx]))

theorem allLeaves_foldl_range (p : Expr → Bool) (n : Nat) (g : Nat → Expr) (h0 : Expr) (h : allLeaves p h0 = true)
    (hg : ∀ k, allLeaves p (g k) = true) :
    allLeaves p ((List.range n).foldl (fun acc k => sop .add acc (g k)) h0) = true := by
  induction n with
  | zero => simpa using h
  | succ n ih => rw [List.range_succ, List.foldl_append]; simp [allLeaves, ih, hg n]

theorem length_bump (D : List Nat) (k t : Nat) : (bump D k t).length = D.length := by simp [bump]

theorem idxLenOK_physToParaG (dim : Nat) (atom : List Nat → Expr)
    (hatom : ∀ D, D.length = dim → allLeaves (idxLenOK dim) (atom D) = true) (D : List Nat) (hD : D.length = dim)
    (r : Expr) (hr : physToParaG dim atom D = some r) : allLeaves (idxLenOK dim) r = true := by
  have hz : (zerosD dim).length = dim := by simp [zerosD]
  have hu : ∀ i, (unitD dim i).length = dim := fun i => by simp [unitD, length_bump, hz]
  have hu2 : ∀ i j, (unit2D dim i j).length = dim := fun i j => by simp [unit2D, length_bump, hz]
  have hj : ∀ a b, allLeaves (idxLenOK dim) (jinvRef dim a b) = true := fun a b => by
    simp [jinvRef, allLeaves, idxLenOK, hz]
  unfold physToParaG at hr
  split at hr
  · injection hr with hr; subst hr; exact hatom D hD
  · injection hr with hr; subst hr
    exact allLeaves_reduceAdd_map _ dim _ rfl (fun i => by simp [allLeaves, hj, hatom _ (hu i)])
  · injection hr with hr; subst hr
    unfold physToPara2G
    apply allLeaves_foldl_range
    · exact allLeaves_reduceAdd_map _ dim _ rfl (fun r => by
        simp only [allLeaves, hj, Bool.true_and]
        exact allLeaves_reduceAdd_map _ dim _ rfl (fun c => by simp [allLeaves, hj, hatom _ (hu2 r c)]))
    · intro k; simp [allLeaves, hatom _ (hu k), idxLenOK, hz]
  · cases hr

theorem allLeaves_mapLeaves (p : Expr → Bool) (f : Expr → Expr)
    (hf : ∀ e, allLeaves p e = true → allLeaves p (f e) = true) (e : Expr) :
    allLeaves p e = true → allLeaves p (mapLeaves f e) = true := by
  induction e using Expr.rec
    (motive_2 := fun es => (es.map (allLeaves p)).all id = true → ((es.map (mapLeaves f)).map (allLeaves p)).all id = true) with
  | nil => simp
  | cons e es ihe ihes =>
    rename_i h
    simp only [List.map_cons, List.all_cons, id, Bool.and_eq_true] at h ⊢
    exact ⟨ihe h.1, ihes h.2⟩
  | litvec es ih => intro h; simp only [allLeaves] at h; simp only [mapLeaves, allLeaves]; exact ih h
  | litmat m n es ih => intro h; simp only [allLeaves] at h; simp only [mapLeaves, allLeaves]; exact ih h
  | neg x ih => intro h; simp only [allLeaves] at h; simp only [mapLeaves, allLeaves]; exact ih h
  | builtin g x ih => intro h; simp only [allLeaves] at h; simp only [mapLeaves, allLeaves]; exact ih h
  | sop op x y ihx ihy => intro h; simp only [allLeaves, Bool.and_eq_true] at h; simp [mapLeaves, allLeaves, ihx h.1, ihy h.2]
  | top op x y ihx ihy => intro h; simp only [allLeaves, Bool.and_eq_true] at h; simp [mapLeaves, allLeaves, ihx h.1, ihy h.2]
  | cross x y ihx ihy => intro h; simp only [allLeaves, Bool.and_eq_true] at h; simp [mapLeaves, allLeaves, ihx h.1, ihy h.2]
  | outer x y ihx ihy => intro h; simp only [allLeaves, Bool.and_eq_true] at h; simp [mapLeaves, allLeaves, ihx h.1, ihy h.2]
  | matvec x y ihx ihy => intro h; simp only [allLeaves, Bool.and_eq_true] at h; simp [mapLeaves, allLeaves, ihx h.1, ihy h.2]
  | matmat x y ihx ihy => intro h; simp only [allLeaves, Bool.and_eq_true] at h; simp [mapLeaves, allLeaves, ihx h.1, ihy h.2]
  | const v => intro h; simpa [mapLeaves] using hf _ h
  | varref v I D q => intro h; simpa [mapLeaves] using hf _ h
  | pderiv b D ph => intro h; simpa [mapLeaves] using hf _ h
  | gw a => intro h; simpa [mapLeaves] using hf _ h
  | dx => intro h; simpa [mapLeaves] using hf _ h
  | ds => intro h; simpa [mapLeaves] using hf _ h

theorem idxLenOK_replacePhysBf (dim : Nat) (e : Expr) (h : allLeaves (idxLenOK dim) e = true) :
    allLeaves (idxLenOK dim) (replacePhysBf dim e) = true := by
  cases e with
  | pderiv b D ph =>
    simp only [allLeaves, idxLenOK, beq_iff_eq] at h
    simp only [replacePhysBf]
    split
    · simp [allLeaves, idxLenOK, h]
    · split
      · simp [allLeaves, idxLenOK, h]
      · cases hr : physToParaG dim (bfAtom b) D with
        | none => simp [allLeaves, idxLenOK, h]
        | some r =>
          simp only [Option.getD_some]
          exact idxLenOK_physToParaG dim (bfAtom b) (fun D' hD' => by simp [bfAtom, allLeaves, idxLenOK, hD']) D h r hr
  | _ => simpa [replacePhysBf] using h

/-- **phys_to_para_sound**, with the only hypothesis on the tree being that its multi-indices have `dim` entries -/
theorem replacePhysAll_sound' (fn : String → α → α) (ρ : Env α) (dim : Nat) (physIn : List String) (J : Nat → Nat → α)
    (hE : ChainRuleEnv fn ρ dim physIn J) (e : Expr) (h1 : allLeaves (idxLenOK dim) e = true) (i j : Nat) :
    ev (fieldOps fn) ρ (replacePhysAll dim physIn e) i j = ev (fieldOps fn) ρ e i j :=
  replacePhysAll_sound fn ρ dim physIn J hE e h1
    (allLeaves_mapLeaves _ _ (fun e he => idxLenOK_replacePhysBf dim e he) e h1) i j

end Pyiga.VForm
