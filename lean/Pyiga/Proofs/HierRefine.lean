/-
L-hier: `_mark_recursive` keeps the marks inside the active cells and below the top level;
`refineLevels` (= `HSpace.refine`) preserves the chain invariant; consequences of the invariant.
-/
import Pyiga.Proofs.HierInv

namespace Pyiga.Hier

/-! ### marks bookkeeping -/

theorem getM_of_length_le (M : Marks) (lv : Nat) (h : M.length ≤ lv) : getM M lv = [] := by
  simp [getM, List.getD_eq_getElem?_getD, List.getElem?_eq_none h]

theorem getM_setM (M : Marks) (i j : Nat) (v : List Idx) :
    getM (setM M i v) j = if j = i then v else getM M j := by
  unfold setM getM
  simp only [List.getD_eq_getElem?_getD]
  split
  · rename_i hi
    rw [List.getElem?_set]
    by_cases hji : j = i
    · subst hji; simp [hi]
    · have : ¬ i = j := fun h => hji h.symm
      simp [this, hji]
  · rename_i hi
    have hi : M.length ≤ i := Nat.le_of_not_lt hi
    by_cases hji : j = i
    · rw [if_pos hji, hji]
      have hlen : (M ++ List.replicate (i - M.length) ([] : List Idx)).length = i := by
        simp only [List.length_append, List.length_replicate]; omega
      rw [List.getElem?_append_right (by omega), hlen]
      simp
    · rw [if_neg hji]
      by_cases hj : j < M.length
      · rw [List.append_assoc, List.getElem?_append_left hj]
      · have hj : M.length ≤ j := Nat.le_of_not_lt hj
        rw [List.getElem?_eq_none hj]
        by_cases hj2 : j < i
        · have hlen : (M ++ List.replicate (i - M.length) ([] : List Idx)).length = i := by
            simp only [List.length_append, List.length_replicate]; omega
          rw [List.getElem?_append_left (by omega), List.getElem?_append_right hj,
            List.getElem?_replicate]
          split <;> rfl
        · rw [List.getElem?_eq_none (by
            simp only [List.length_append, List.length_replicate, List.length_singleton]; omega)]

/-- `max(lv for … if cells)` really is the largest level carrying marks -/
theorem maxLevel_spec (M : Marks) (mx : Nat) (h : maxLevel M = some mx) :
    ∀ lv, mx < lv → getM M lv = [] := by
  have key : ∀ n, ∀ r, (List.range n).foldl
      (fun acc lv => if (getM M lv).isEmpty then acc else some lv) none = r →
      ∀ lv, lv < n → (r = none → getM M lv = []) ∧ (∀ m, r = some m → m < lv → getM M lv = []) := by
    intro n
    induction n with
    | zero => intro r _ lv hlv; omega
    | succ n ih =>
      intro r hr lv hlv
      rw [List.range_succ, List.foldl_append] at hr
      simp only [List.foldl_cons, List.foldl_nil] at hr
      have ih' := ih _ rfl
      by_cases he : (getM M n).isEmpty = true
      · rw [if_pos he] at hr
        have hnil : getM M n = [] := List.isEmpty_iff.1 he
        by_cases hln : lv = n
        · subst hln; exact ⟨fun _ => hnil, fun _ _ _ => hnil⟩
        · have := ih' lv (by omega)
          rw [hr] at this
          exact this
      · rw [if_neg he] at hr
        subst hr
        refine ⟨fun h => by simp at h, fun m hm hlt => ?_⟩
        simp at hm; omega
  intro lv hlv
  by_cases hl : lv < M.length
  · exact ((key M.length _ h) lv hl).2 mx rfl hlv
  · exact getM_of_length_le M lv (Nat.le_of_not_lt hl)

/-- marked cells are active cells of their level -/
def MarksActive (levels : List Level) (M : Marks) : Prop :=
  ∀ lv c, c ∈ getM M lv → c ∈ (levels.getD lv emptyLevel).act

/-- no marks on levels `≥ K` -/
def MarksBelow (K : Nat) (M : Marks) : Prop := ∀ lv, K ≤ lv → getM M lv = []

section mark
variable {O : Ops} {VC VF : Nat → Idx → Prop} {par : Idx → Idx}

theorem inter_nil_right (a : List Idx) : inter a [] = [] := by simp [inter]

theorem foldl_parent_nil (L : Laws O VC VF par) (l : Nat) : ∀ (n : Nat),
    (List.range n).foldl (fun cs i => O.parent (l - i) cs) [] = []
  | 0 => rfl
  | n + 1 => by
    rw [List.range_succ, List.foldl_append, foldl_parent_nil L l n]
    simp [L.parent_nil]

theorem cellSupportExtension_nil (L : Laws O VC VF par) (l k : Nat) :
    cellSupportExtension O l [] k = [] := by
  unfold cellSupportExtension
  split <;> simp [foldl_parent_nil L, L.supportedIn_nil, L.support_nil]

theorem cellNeighborhood_nil (L : Laws O VC VF par) (d : Nat) (levels : List Level) (l : Nat) (tr : Bool) :
    cellNeighborhood O d levels l [] tr = [] := by
  unfold cellNeighborhood
  split
  · rfl
  · split <;> simp [cellSupportExtension_nil L, L.parent_nil, inter_nil_right]

theorem cellNeighborhood_sub (d : Nat) (levels : List Level) (l : Nat) (cells : List Idx) (tr : Bool) :
    ∀ c ∈ cellNeighborhood O d levels l cells tr, c ∈ (levels.getD (l - d) emptyLevel).act := by
  intro c hc
  unfold cellNeighborhood at hc
  split at hc
  · simp at hc
  · split at hc <;> exact (mem_inter.1 hc).1

theorem markRec_ok (L : Laws O VC VF par) (d : Nat) (hd : 1 ≤ d) (levels : List Level) (tr : Bool) (K : Nat) :
    ∀ (fuel l : Nat) (M : Marks), MarksActive levels M → MarksBelow K M →
      MarksActive levels (markRec O d levels tr fuel l M) ∧ MarksBelow K (markRec O d levels tr fuel l M)
  | 0, _, _, h1, h2 => ⟨h1, h2⟩
  | fuel + 1, l, M, h1, h2 => by
    unfold markRec
    simp only
    split
    · exact ⟨h1, h2⟩
    · rename_i hne
      have hl : getM M l ≠ [] := by
        intro h
        rw [h, cellNeighborhood_nil L] at hne
        exact hne rfl
      have hlK : l < K := by
        apply Classical.byContradiction
        intro h
        exact hl (h2 l (Nat.le_of_not_lt h))
      apply markRec_ok L d hd levels tr K fuel (l - d)
      · intro lv c hc
        rw [getM_setM] at hc
        split at hc
        · rename_i e
          subst e
          rcases mem_union.1 hc with h | h
          · exact h1 _ c (mem_dedup.1 h)
          · exact cellNeighborhood_sub d levels l _ tr c h
        · exact h1 lv c hc
      · intro lv hlv
        rw [getM_setM]
        split
        · omega
        · exact h2 lv hlv

theorem foldl_invariant {α β : Type} (P : β → Prop) (f : β → α → β) :
    ∀ (l : List α) (b : β), P b → (∀ b a, P b → P (f b a)) → P (l.foldl f b)
  | [], _, hb, _ => hb
  | a :: l, b, hb, hf => foldl_invariant P f l (f b a) (hf b a hb) hf

theorem markAll_ok (L : Laws O VC VF par) (d : Nat) (hd : 1 ≤ d) (levels : List Level) (tr : Bool) (K : Nat)
    (M : Marks) (h1 : MarksActive levels M) (h2 : MarksBelow K M) :
    MarksActive levels (markAll O d levels tr M) ∧ MarksBelow K (markAll O d levels tr M) := by
  unfold markAll
  exact foldl_invariant (fun M => MarksActive levels M ∧ MarksBelow K M) _ _ M ⟨h1, h2⟩
    (fun M l h => markRec_ok L d hd levels tr K (l + 1) l M h.1 h.2)

/-! ### `refineLevels` preserves the invariant -/

theorem getD_ensureLevels (K : Nat) (levels : List Level) (i : Nat) :
    (ensureLevels K levels).getD i emptyLevel = levels.getD i emptyLevel := by
  unfold ensureLevels
  simp only [List.getD_eq_getElem?_getD]
  by_cases hi : i < levels.length
  · rw [List.getElem?_append_left hi]
  · have hi : levels.length ≤ i := Nat.le_of_not_lt hi
    rw [List.getElem?_append_right hi, List.getElem?_eq_none hi, List.getElem?_replicate]
    split <;> rfl

theorem length_ensureLevels (K : Nat) (levels : List Level) : K ≤ (ensureLevels K levels).length := by
  simp [ensureLevels]; omega

/-- **Invariant preservation**: one `HSpace.refine` call (any disparity, any `truncate` flag, marks
on any number of levels at once) maps a well-formed level list to a well-formed level list; the
only hypothesis is that the marked cells are currently active. -/
theorem refineLevels_inv (L : Laws O VC VF par) (disp : Option Nat) (levels levels' : List Level)
    (M M' : Marks) (tr : Bool)
    (hinv : Inv O VC VF par 0 (VC 0) levels) (hM : MarksActive levels M)
    (hr : refineLevels O disp levels M tr = .ok (levels', M')) :
    Inv O VC VF par 0 (VC 0) levels' ∧ MarksActive (ensureLevels (levels'.length) levels) M' := by
  unfold refineLevels at hr
  split at hr
  · simp at hr
  · rename_i mx hmx
    simp only [Except.ok.injEq, Prod.mk.injEq] at hr
    obtain ⟨hl', hM'⟩ := hr
    -- after `_ensure_levels`
    have hinv1 := inv_ensureLevels L levels 0 (VC 0) (mx + 2) hinv
    have hM1 : MarksActive (ensureLevels (mx + 2) levels) M := by
      intro lv c hc; rw [getD_ensureLevels]; exact hM lv c hc
    have hB : MarksBelow (mx + 1) M := fun lv hlv => maxLevel_spec M mx hmx lv (by omega)
    -- after marking
    have hmark : MarksActive (ensureLevels (mx + 2) levels) M' ∧ MarksBelow (mx + 1) M' := by
      rw [← hM']
      cases disp with
      | none => exact ⟨hM1, hB⟩
      | some d =>
        simp only
        split
        · exact ⟨hM1, hB⟩
        · rename_i hd
          exact markAll_ok L d (by omega) _ tr _ M hM1 hB
    have hlen := length_ensureLevels (mx + 2) levels
    have hlast : getM M' ((ensureLevels (mx + 2) levels).length - 1) = [] := hmark.2 _ (by omega)
    have hcore : levels' = mapFrom (stepLevel O M') 0 (ensureLevels (mx + 2) levels) := by
      rw [← hl', ← hM']
      have := refineCore_eq L M' (ensureLevels (mx + 2) levels) hlast
      rw [← hM'] at this
      exact this
    have hstep := inv_step L M' (ensureLevels (mx + 2) levels) 0 (VC 0) (fun c h => h) hinv1
      (marksIn_of_forall M' _ 0 (fun i c hc => hmark.1 i c (by simpa using hc)))
      (by simpa using hlast) (by intro c hc; simp [newCells] at hc) (by intro c hc; simp [newCells] at hc)
    refine ⟨?_, ?_⟩
    · rw [hcore]
      exact Inv.congr hstep (fun c => by simp [newCells])
    · have hlen' : levels'.length = (ensureLevels (mx + 2) levels).length := by
        rw [hcore, mapFrom_length]
      intro lv c hc
      rw [getD_ensureLevels]
      have := hmark.1 lv c hc
      rwa [getD_ensureLevels] at this

end mark

/-! ### reading the invariant level by level -/

section read
variable {O : Ops} {VC VF : Nat → Idx → Prop} {par : Idx → Idx}

theorem inv_ne_nil {lv : Nat} {Ω : Idx → Prop} {levels : List Level}
    (h : Inv O VC VF par lv Ω levels) : levels ≠ [] := by
  intro e; subst e; exact h

theorem inv_level_succ : ∀ (levels : List Level) (lv : Nat) (Ω : Idx → Prop) (i : Nat),
    Inv O VC VF par lv Ω levels → i + 1 < levels.length →
    LevelOK O VF (lv + i + 1)
      (fun c => VC (lv + i + 1) c ∧ par c ∈ (levels.getD i emptyLevel).deact)
      (levels.getD (i + 1) emptyLevel)
  | [], _, _, _, h, _ => h.elim
  | [_], _, _, _, _, hi => by simp at hi
  | l :: l2 :: rest, lv, Ω, 0, h, _ => by
    simpa using Inv.head h.2
  | l :: l2 :: rest, lv, Ω, i + 1, h, hi => by
    have := inv_level_succ (l2 :: rest) (lv + 1) _ i h.2 (by simpa using hi)
    simp only [List.getD_cons_succ]
    rwa [show lv + 1 + i + 1 = lv + (i + 1) + 1 by omega] at this

theorem inv_last : ∀ (levels : List Level) (lv : Nat) (Ω : Idx → Prop),
    Inv O VC VF par lv Ω levels → (levels.getD (levels.length - 1) emptyLevel).deact = []
  | [], _, _, h => h.elim
  | [l], _, _, h => by simpa using h.2
  | l :: l2 :: rest, lv, Ω, h => by
    have := inv_last (l2 :: rest) (lv + 1) _ h.2
    simpa using this

/-- ancestor `n` levels up -/
def anc (par : Idx → Idx) : Nat → Idx → Idx
  | 0, c => c
  | n + 1, c => par (anc par n c)

/-- number of levels on which the ancestor-or-self of the finest-level cell `c` is active -/
def hits (par : Idx → Idx) : List Level → Idx → Nat
  | [], _ => 0
  | l :: rest, c => (if anc par rest.length c ∈ l.act then 1 else 0) + hits par rest c

theorem anc_valid (L : Laws O VC VF par) (lv : Nat) : ∀ (n : Nat) (c : Idx),
    VC (lv + n) c → VC lv (anc par n c)
  | 0, _, h => h
  | n + 1, c, h => L.par_valid lv _ (anc_valid L (lv + 1) n c (by rwa [show lv + 1 + n = lv + (n + 1) by omega]))

/-- **active cells tile the domain once**: for every cell `c` of the finest level, exactly one of
its ancestors-or-self is an active cell (`hits = 1`), if its level-`lv` ancestor lies in `Ω`
(always true for `lv = 0`), and none otherwise. -/
theorem hits_spec (L : Laws O VC VF par) : ∀ (levels : List Level) (lv : Nat) (Ω : Idx → Prop) (c : Idx),
    Inv O VC VF par lv Ω levels → VC (lv + (levels.length - 1)) c →
    (Ω (anc par (levels.length - 1) c) → hits par levels c = 1) ∧
    (¬ Ω (anc par (levels.length - 1) c) → hits par levels c = 0)
  | [], _, _, _, h, _ => h.elim
  | [l], lv, Ω, c, h, _ => by
    simp only [List.length_cons, List.length_nil, Nat.zero_add, Nat.sub_self, anc, hits, Nat.add_zero]
    constructor
    · intro hΩ
      have := (h.1.cover c).2 hΩ
      rw [h.2] at this
      simp at this
      simp [this]
    · intro hΩ
      have : c ∉ l.act := fun hc => hΩ ((h.1.cover c).1 (Or.inl hc))
      simp [this]
  | l :: l2 :: rest, lv, Ω, c, h, hc => by
    have hlen : (l :: l2 :: rest).length - 1 = (l2 :: rest).length - 1 + 1 := by simp
    have hc' : VC (lv + 1 + ((l2 :: rest).length - 1)) c := by
      rw [hlen] at hc
      rwa [show lv + 1 + ((l2 :: rest).length - 1) = lv + ((l2 :: rest).length - 1 + 1) by omega]
    have ih := hits_spec L (l2 :: rest) (lv + 1) _ c h.2 hc'
    have hav := anc_valid L (lv + 1) ((l2 :: rest).length - 1) c hc'
    have hanc : anc par ((l :: l2 :: rest).length - 1) c = par (anc par ((l2 :: rest).length - 1) c) := by
      rw [hlen]; rfl
    rw [hanc]
    have hh : hits par (l :: l2 :: rest) c =
        (if par (anc par ((l2 :: rest).length - 1) c) ∈ l.act then 1 else 0) + hits par (l2 :: rest) c := by
      show (if anc par (l2 :: rest).length c ∈ l.act then 1 else 0) + _ = _
      have : (l2 :: rest).length = (l2 :: rest).length - 1 + 1 := by simp
      rw [this]; rfl
    rw [hh]
    constructor
    · intro hΩ
      rcases (h.1.cover _).2 hΩ with ha | hd
      · have hnd := h.1.disj _ ha
        rw [ih.2 (fun hx => hnd hx.2), if_pos ha]
      · have hna : par (anc par ((l2 :: rest).length - 1) c) ∉ l.act := fun ha => h.1.disj _ ha hd
        rw [ih.1 ⟨hav, hd⟩, if_neg hna]
    · intro hΩ
      have hna : par (anc par ((l2 :: rest).length - 1) c) ∉ l.act :=
        fun ha => hΩ ((h.1.cover _).1 (Or.inl ha))
      have hnd : par (anc par ((l2 :: rest).length - 1) c) ∉ l.deact :=
        fun ha => hΩ ((h.1.cover _).1 (Or.inr ha))
      rw [ih.2 (fun hx => hnd hx.2), if_neg hna]

end read

end Pyiga.Hier
