/-
C08 `subset` (bounding box): the on-demand shift `g_sta = intv.a - bbox_ofs` addresses the same nodes.
-/
import Pyiga.Proofs.AsmSum

namespace Pyiga.Asm
open Pyiga.Index

variable {α : Type} [AddCommMonoid α]

/-- `g` is `g0` shifted down by the offsets, none of which exceeds the box start -/
def Shifted : List (Nat × Nat) → List (Nat × Nat) → List Nat → Prop
  | p :: g, p0 :: g0, o :: os => p.1 = p0.1 - o ∧ p.2 = p0.2 - o ∧ o ≤ p0.1 ∧ Shifted g g0 os
  | [], [], [] => True
  | _, _, _ => False

theorem runCombine_shifted : ∀ (g g0 : List (Nat × Nat)) (ofs : List Nat), Shifted g g0 ofs →
    ∀ (K : List Nat → α), runCombine g (fun q => K (List.zipWith (· + ·) q ofs)) = runCombine g0 K
  | [], [], [], _, K => by simp [runCombine, combine, loopNest]
  | (a', b') :: g, (a, b) :: g0, o :: os, h, K => by
    obtain ⟨h1, h2, h3, h4⟩ := h
    simp only at h1 h2 h3
    rw [runCombine_cons, runCombine_cons]
    have hsz : b' - a' = b - a := by omega
    rw [hsz]
    apply congrArg
    apply List.map_congr_left
    intro t _
    have := runCombine_shifted g g0 os h4 (fun r => K ((a + t) :: r))
    rw [← this]
    congr 1
    funext q
    simp only [List.zipWith_cons_cons]
    congr 2
    omega
  | [], [], _ :: _, h, _ => by simp [Shifted] at h
  | [], _ :: _, _, h, _ => by simp [Shifted] at h
  | _ :: _, [], _, h, _ => by simp [Shifted] at h
  | _ :: _, _ :: _, [], h, _ => by simp [Shifted] at h

theorem gaussRange2_shifted : ∀ (su sv : List Intv) (ofs : List Nat), OfsBelow su sv ofs →
    match gaussRange2 su sv ofs, gaussRange2 su sv (zeros ofs) with
    | some g, some g0 => Shifted g g0 ofs
    | none, none => True
    | _, _ => False
  | [], [], [], _ => by simp [gaussRange2, zeros, Shifted]
  | u :: su, v :: sv, o :: os, h => by
    have ih := gaussRange2_shifted su sv os h.2
    have ho : o ≤ (intersect u v).a := h.1
    simp only [zeros, List.map_cons, gaussRange2]
    by_cases hemp : (intersect u v).b ≤ (intersect u v).a
    · simp only [ge_iff_le, hemp, ↓reduceIte]
    · simp only [ge_iff_le, hemp, ↓reduceIte]
      revert ih
      simp only [zeros]
      cases gaussRange2 su sv os <;> cases gaussRange2 su sv (List.map (fun _ => 0) os) <;> simp [Shifted, ho]
  | [], [], _ :: _, h => by simp [OfsBelow] at h
  | [], _ :: _, _, h => by simp [OfsBelow] at h
  | _ :: _, [], _, h => by simp [OfsBelow] at h
  | _ :: _, _ :: _, [], h => by simp [OfsBelow] at h

theorem entryImpl2_bbox : entryImpl2_bbox_stmt := by
  intro α _ suppU suppV ofs K h
  have hs := gaussRange2_shifted suppU suppV ofs h
  unfold entryImpl2
  cases h1 : gaussRange2 suppU suppV ofs <;> cases h2 : gaussRange2 suppU suppV (zeros ofs) <;>
    rw [h1, h2] at hs <;> simp only at hs ⊢
  · exact runCombine_shifted _ _ _ hs K

end Pyiga.Asm
