/-
C09: the span-by-span COO assembly sums to the global Gram matrix (helper lemmas + main lemma).
-/
import Pyiga.Proofs.Galerkin

namespace Pyiga.Galerkin
open Finset

section Ring
variable {α : Type} [CommRing α]

theorem length_block {γ : Type} (n1 n2 : Nat) (g : Nat → Nat → γ) :
    ((List.range n1).flatMap fun a => (List.range n2).map fun b => g a b).length = n1 * n2 := by
  induction n1 with
  | zero => simp
  | succ n ih =>
    rw [List.range_succ, List.flatMap_append, List.length_append, ih]
    simp [Nat.succ_mul]

theorem zip_block {β γ : Type} (n1 n2 : Nat) (g : Nat → Nat → β) (h : Nat → Nat → γ) :
    ((List.range n1).flatMap fun a => (List.range n2).map fun b => g a b).zip
      ((List.range n1).flatMap fun a => (List.range n2).map fun b => h a b) =
    (List.range n1).flatMap fun a => (List.range n2).map fun b => (g a b, h a b) := by
  rw [zip_flatMap _ _ _ (by intros; simp)]
  apply List.flatMap_congr
  intro a _
  rw [List.zip_map']

/-- **The COO triples of `_assemble_matrix_custom` ∘ `_create_coo_1d_custom` in nested-loop form.** -/
theorem assembleCustom_eq (nqp : Nat) (vals1 vals2 : List (List α)) (fa1 fa2 : List Nat) (w : List α)
    (h : fa2.length = fa1.length) :
    assembleCustom fa1.length nqp vals1 vals2
        (cooCustom fa1.length vals1.length vals2.length fa1 fa2).1
        (cooCustom fa1.length vals1.length vals2.length fa1 fa2).2 w =
      (List.range fa1.length).flatMap fun k =>
        (List.range vals1.length).flatMap fun a =>
          (List.range vals2.length).map fun b =>
            (fa1.getD k 0 + a, fa2.getD k 0 + b, elMat nqp vals1 vals2 w k a b) := by
  rw [cooCustom_eq _ _ _ _ h]
  unfold assembleCustom cooTriples elMatsRavel
  simp only
  rw [flatMap_eq_range fa1 0, flatMap_eq_range fa2 0, h]
  rw [zip_flatMap _ _ _ (by intros; rw [length_block, length_block])]
  rw [zip_flatMap _ _ _ (by
    intros
    rw [length_block, List.length_zip, length_block, length_block, Nat.min_self])]
  apply List.flatMap_congr
  intro k _
  rw [zip_block, zip_block]

theorem sum_ite_and_shift (n1 n2 f1 f2 i j : Nat) (g : Nat → Nat → α) :
    (∑ a ∈ range n1, ∑ b ∈ range n2, if f1 + a = i ∧ f2 + b = j then g a b else 0) =
      if (f1 ≤ i ∧ i < f1 + n1) ∧ (f2 ≤ j ∧ j < f2 + n2) then g (i - f1) (j - f2) else 0 := by
  have h1 : ∀ a, (∑ b ∈ range n2, if f1 + a = i ∧ f2 + b = j then g a b else 0) =
      if f1 + a = i then (if f2 ≤ j ∧ j < f2 + n2 then g a (j - f2) else 0) else 0 := by
    intro a
    by_cases ha : f1 + a = i
    · simp only [ha, true_and, if_true]
      exact sum_range_shift_ite n2 f2 j (g a)
    · simp [ha]
  simp only [h1]
  rw [sum_range_shift_ite n1 f1 i (fun a => if f2 ≤ j ∧ j < f2 + n2 then g a (j - f2) else 0)]
  by_cases p : f1 ≤ i ∧ i < f1 + n1 <;> by_cases q : f2 ≤ j ∧ j < f2 + n2 <;> simp [p, q]

/-- entry `(i,j)` of the assembled matrix as a sum over spans of the (at most one) matching
element-matrix entry -/
theorem cooEntry_assembleCustom (nqp : Nat) (vals1 vals2 : List (List α)) (fa1 fa2 : List Nat) (w : List α)
    (h : fa2.length = fa1.length) (i j : Nat) :
    cooEntry (assembleCustom fa1.length nqp vals1 vals2
        (cooCustom fa1.length vals1.length vals2.length fa1 fa2).1
        (cooCustom fa1.length vals1.length vals2.length fa1 fa2).2 w) i j =
      ∑ k ∈ range fa1.length,
        if (fa1.getD k 0 ≤ i ∧ i < fa1.getD k 0 + vals1.length) ∧
           (fa2.getD k 0 ≤ j ∧ j < fa2.getD k 0 + vals2.length)
        then elMat nqp vals1 vals2 w k (i - fa1.getD k 0) (j - fa2.getD k 0) else 0 := by
  rw [assembleCustom_eq nqp vals1 vals2 fa1 fa2 w h, cooEntry_flatMap, sum_map_range]
  apply Finset.sum_congr rfl
  intro k _
  rw [cooEntry_flatMap, sum_map_range]
  simp only [cooEntry_map_range]
  exact sum_ite_and_shift _ _ _ _ i j _

/-- **Main lemma (`biform_1d`, general two-basis form).**
`V I q`, `U J q`: values of the global test/trial functions (already differentiated) at node `q`;
the arrays handed to the assembler hold, for node `q = nqp*k+t` of cell `k`, the values of the
`n1` (`n2`) functions starting at `fa1[k]` (`fa2[k]`), and every other function vanishes at the
nodes of that cell (local support).  Then the duplicate-summed COO matrix is the Gram matrix of the
quadrature rule. -/
theorem cooEntry_assembleCustom_gram (nqp : Nat) (vals1 vals2 : List (List α)) (fa1 fa2 : List Nat) (w : List α)
    (h : fa2.length = fa1.length) (V U : Nat → Nat → α)
    (hv1 : ∀ k < fa1.length, ∀ a < vals1.length, ∀ t < nqp,
      get2 vals1 a (nqp * k + t) = V (fa1.getD k 0 + a) (nqp * k + t))
    (hv2 : ∀ k < fa1.length, ∀ b < vals2.length, ∀ t < nqp,
      get2 vals2 b (nqp * k + t) = U (fa2.getD k 0 + b) (nqp * k + t))
    (hs1 : ∀ k < fa1.length, ∀ t < nqp, ∀ I,
      ¬ (fa1.getD k 0 ≤ I ∧ I < fa1.getD k 0 + vals1.length) → V I (nqp * k + t) = 0)
    (hs2 : ∀ k < fa1.length, ∀ t < nqp, ∀ J,
      ¬ (fa2.getD k 0 ≤ J ∧ J < fa2.getD k 0 + vals2.length) → U J (nqp * k + t) = 0)
    (I J : Nat) :
    cooEntry (assembleCustom fa1.length nqp vals1 vals2
        (cooCustom fa1.length vals1.length vals2.length fa1 fa2).1
        (cooCustom fa1.length vals1.length vals2.length fa1 fa2).2 w) I J =
      ∑ q ∈ range (fa1.length * nqp), V I q * (U J q * w.getD q 0) := by
  rw [cooEntry_assembleCustom nqp vals1 vals2 fa1 fa2 w h, sum_range_mul]
  apply Finset.sum_congr rfl
  intro k hk
  have hk' := Finset.mem_range.mp hk
  by_cases p : fa1.getD k 0 ≤ I ∧ I < fa1.getD k 0 + vals1.length
  · by_cases q : fa2.getD k 0 ≤ J ∧ J < fa2.getD k 0 + vals2.length
    · rw [if_pos ⟨p, q⟩]
      unfold elMat
      rw [sumRange_eq]
      apply Finset.sum_congr rfl
      intro t ht
      have ht' := Finset.mem_range.mp ht
      rw [hv1 k hk' (I - fa1.getD k 0) (by omega) t ht', hv2 k hk' (J - fa2.getD k 0) (by omega) t ht']
      have e1 : fa1.getD k 0 + (I - fa1.getD k 0) = I := by omega
      have e2 : fa2.getD k 0 + (J - fa2.getD k 0) = J := by omega
      rw [e1, e2]
    · rw [if_neg (fun hh => q hh.2)]
      symm
      apply Finset.sum_eq_zero
      intro t ht
      rw [hs2 k hk' t (Finset.mem_range.mp ht) J q]
      ring
  · rw [if_neg (fun hh => p hh.1)]
    symm
    apply Finset.sum_eq_zero
    intro t ht
    rw [hs1 k hk' t (Finset.mem_range.mp ht) I p]
    ring

end Ring

end Pyiga.Galerkin
