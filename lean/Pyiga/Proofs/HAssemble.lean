/-
Helper lemmas for C03: COO scatter with duplicate summation, the three level blocks of
`HDiscretization.assemble_matrix`, and the reduction of the `interlevel_ix`-restricted sums to the
full Galerkin sums.
-/
import Pyiga.Model.HAssemble
import Mathlib.Algebra.BigOperators.Group.Finset.Basic
import Mathlib.Algebra.BigOperators.Ring.Finset
import Mathlib.Algebra.BigOperators.Intervals
import Mathlib.Tactic.Ring

namespace Pyiga.HAsm
open Pyiga.Transfer Finset

variable {K : Type} [CommRing K] [DecidableEq K]

theorem sumRange_eq_sum' (n : Nat) (g : Nat → K) : sumRange n g = ∑ k ∈ range n, g k := by
  induction n with
  | zero => simp [sumRange]
  | succ n ih => simp [sumRange, ih, Finset.sum_range_succ]

theorem mul_f' (A B : Mat K) (i j : Nat) :
    (A.mul B).f i j = ∑ k ∈ range A.n, A.f i k * B.f k j := by
  show sumRange A.n _ = _
  rw [sumRange_eq_sum']
  refine Finset.sum_congr rfl (fun k _ => ?_)
  by_cases h : A.f i k = 0 <;> simp [h]

theorem scatterGet_eq (B : Mat K) (rows cols : List Nat) (i j : Nat) :
    Input.scatterGet B rows cols i j =
      ∑ a ∈ range B.m, ∑ b ∈ range B.n,
        if rows.getD a 0 = i ∧ cols.getD b 0 = j then B.f a b else 0 := by
  unfold Input.scatterGet
  rw [sumRange_eq_sum']
  refine Finset.sum_congr rfl (fun a _ => ?_)
  rw [sumRange_eq_sum']

/-- index lists that are injective on the positions actually used -/
def InjOn (l : List Nat) (n : Nat) : Prop :=
  ∀ a a', a < n → a' < n → l.getD a 0 = l.getD a' 0 → a = a'

theorem scatterGet_hit (B : Mat K) (rows cols : List Nat) (hr : InjOn rows B.m) (hc : InjOn cols B.n)
    {a b : Nat} (ha : a < B.m) (hb : b < B.n) :
    Input.scatterGet B rows cols (rows.getD a 0) (cols.getD b 0) = B.f a b := by
  rw [scatterGet_eq]
  rw [Finset.sum_eq_single a]
  · rw [Finset.sum_eq_single b]
    · rw [if_pos ⟨rfl, rfl⟩]
    · intro b' hb' hne
      have : cols.getD b' 0 ≠ cols.getD b 0 := fun h => hne (hc b' b (Finset.mem_range.mp hb') hb h)
      rw [if_neg (fun h => this h.2)]
    · intro h; exact absurd (Finset.mem_range.mpr hb) h
  · intro a' ha' hne
    have : rows.getD a' 0 ≠ rows.getD a 0 := fun h => hne (hr a' a (Finset.mem_range.mp ha') ha h)
    exact Finset.sum_eq_zero (fun b' _ => if_neg (fun h => this h.1))
  · intro h; exact absurd (Finset.mem_range.mpr ha) h

theorem scatterGet_miss_row (B : Mat K) (rows cols : List Nat) (i j : Nat)
    (h : ∀ a, a < B.m → rows.getD a 0 ≠ i) : Input.scatterGet B rows cols i j = 0 := by
  rw [scatterGet_eq]
  exact Finset.sum_eq_zero (fun a ha => Finset.sum_eq_zero (fun b _ =>
    if_neg (fun hh => h a (Finset.mem_range.mp ha) hh.1)))

theorem scatterGet_miss_col (B : Mat K) (rows cols : List Nat) (i j : Nat)
    (h : ∀ b, b < B.n → cols.getD b 0 ≠ j) : Input.scatterGet B rows cols i j = 0 := by
  rw [scatterGet_eq]
  exact Finset.sum_eq_zero (fun a _ => Finset.sum_eq_zero (fun b hb =>
    if_neg (fun hh => h b (Finset.mem_range.mp hb) hh.2)))

/-! ### the three blocks of one level (specification form, no tabulation) -/

/-- `A_k[new_loc][:, new_loc]` -/
def blockD (Ak : Mat K) (newLoc : List Nat) : Mat K := (Ak.selRows newLoc).selCols newLoc

/-- `I[ilx][:, nb].T @ A_k[ilx][:, new_loc] @ I[new_loc][:, new]` -/
def blockE (Ak I : Mat K) (ilx newLoc nb nw : List Nat) : Mat K :=
  ((((I.selRows ilx).selCols nb).transpose.mul ((Ak.selRows ilx).selCols newLoc)).mul
    ((I.selRows newLoc).selCols nw))

/-- `I[new_loc][:, new].T @ A_k[new_loc][:, ilx] @ I[ilx][:, nb]` -/
def blockE2 (Ak I : Mat K) (ilx newLoc nb nw : List Nat) : Mat K :=
  ((((I.selRows newLoc).selCols nw).transpose.mul ((Ak.selRows newLoc).selCols ilx)).mul
    ((I.selRows ilx).selCols nb))

/-- the representation of the level-`k` active functions on level `k` is the identity:
`I[new_loc][:, new] = eye` -/
def NewIsId (I : Mat K) (newLoc nw : List Nat) : Prop :=
  ∀ c b, c < newLoc.length → b < nw.length →
    I.f (newLoc.getD c 0) (nw.getD b 0) = if c = b then 1 else 0

theorem blockE_f (Ak I : Mat K) (ilx newLoc nb nw : List Nat) (hid : NewIsId I newLoc nw)
    (hlen : nw.length = newLoc.length) {n b : Nat} (hb : b < nw.length) :
    (blockE Ak I ilx newLoc nb nw).f n b =
      ∑ q ∈ range ilx.length, I.f (ilx.getD q 0) (nb.getD n 0) * Ak.f (ilx.getD q 0) (newLoc.getD b 0) := by
  unfold blockE
  rw [mul_f']
  have hn : ((((I.selRows ilx).selCols nb).transpose.mul ((Ak.selRows ilx).selCols newLoc))).n = newLoc.length := rfl
  rw [hn, Finset.sum_eq_single b]
  · have h1 : ((I.selRows newLoc).selCols nw).f b b = 1 := by
      show I.f (newLoc.getD b 0) (nw.getD b 0) = 1
      rw [hid b b (hlen ▸ hb) hb]; simp
    rw [h1, mul_one, mul_f']
    rfl
  · intro c hc hne
    have h0 : ((I.selRows newLoc).selCols nw).f c b = 0 := by
      show I.f (newLoc.getD c 0) (nw.getD b 0) = 0
      rw [hid c b (Finset.mem_range.mp hc) hb]; simp [hne]
    rw [h0, mul_zero]
  · intro h; exact absurd (Finset.mem_range.mpr (hlen ▸ hb)) h

theorem blockE2_f (Ak I : Mat K) (ilx newLoc nb nw : List Nat) (hid : NewIsId I newLoc nw)
    (hlen : nw.length = newLoc.length) {a n : Nat} (ha : a < nw.length) :
    (blockE2 Ak I ilx newLoc nb nw).f a n =
      ∑ q ∈ range ilx.length, Ak.f (newLoc.getD a 0) (ilx.getD q 0) * I.f (ilx.getD q 0) (nb.getD n 0) := by
  unfold blockE2
  rw [mul_f']
  have hn : ((((I.selRows newLoc).selCols nw).transpose.mul ((Ak.selRows newLoc).selCols ilx))).n = ilx.length := rfl
  rw [hn]
  refine Finset.sum_congr rfl (fun q _ => ?_)
  rw [mul_f']
  have hn2 : (((I.selRows newLoc).selCols nw).transpose).n = newLoc.length := rfl
  rw [hn2, Finset.sum_eq_single a]
  · have h1 : (((I.selRows newLoc).selCols nw).transpose).f a a = 1 := by
      show I.f (newLoc.getD a 0) (nw.getD a 0) = 1
      rw [hid a a (hlen ▸ ha) ha]; simp
    rw [h1, one_mul]; rfl
  · intro c hc hne
    have h0 : (((I.selRows newLoc).selCols nw).transpose).f a c = 0 := by
      show I.f (newLoc.getD c 0) (nw.getD a 0) = 0
      rw [hid c a (Finset.mem_range.mp hc) ha]; simp [hne]
    rw [h0, zero_mul]
  · intro h; exact absurd (Finset.mem_range.mpr (hlen ▸ ha)) h

/-! ### sums over an index list vs. sums over the whole tensor-product range -/

theorem sum_list_eq_sum_range (l : List Nat) (hl : l.Nodup) (N : Nat) (hN : ∀ r ∈ l, r < N) (g : Nat → K) :
    ∑ q ∈ range l.length, g (l.getD q 0) = ∑ r ∈ range N, if r ∈ l then g r else 0 := by
  induction l with
  | nil => simp
  | cons x xs ih =>
    have hx : x ∉ xs := (List.nodup_cons.mp hl).1
    have hxs : xs.Nodup := (List.nodup_cons.mp hl).2
    rw [List.length_cons, Finset.sum_range_succ']
    simp only [List.getD_cons_succ, List.getD_cons_zero]
    rw [ih hxs (fun r hr => hN r (List.mem_cons_of_mem _ hr))]
    have hxN : x < N := hN x List.mem_cons_self
    have : ∀ r ∈ range N, (if r ∈ x :: xs then g r else 0)
        = (if r ∈ xs then g r else 0) + (if r = x then g r else 0) := by
      intro r _
      by_cases h1 : r = x
      · subst h1; simp [hx]
      · simp [h1]
    rw [Finset.sum_congr rfl this, Finset.sum_add_distrib, Finset.sum_ite_eq' (range N) x g]
    simp [hxN]

/-- if every tensor-product function `r` that contributes to the Galerkin sum lies in `ilx`, the
restricted sum is the full sum (`interlevel_ix` loses nothing) -/
theorem restricted_sum_eq_full (ilx : List Nat) (hl : ilx.Nodup) (N : Nat) (hN : ∀ r ∈ ilx, r < N)
    (g : Nat → K) (hsupp : ∀ r, r < N → g r ≠ 0 → r ∈ ilx) :
    ∑ q ∈ range ilx.length, g (ilx.getD q 0) = ∑ r ∈ range N, g r := by
  rw [sum_list_eq_sum_range ilx hl N hN g]
  refine Finset.sum_congr rfl (fun r hr => ?_)
  by_cases h : r ∈ ilx
  · simp [h]
  · have : g r = 0 := by
      by_contra h0; exact h (hsupp r (Finset.mem_range.mp hr) h0)
    simp [h, this]

end Pyiga.HAsm
