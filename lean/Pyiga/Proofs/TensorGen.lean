/-
C18: `TensorGenerator.__getitem__`: the entries of the Cartesian product of the index ranges, reshaped in
C order, are the per-axis selection of the wrapped array.
-/
import Pyiga.Proofs.TensorBasic
import Pyiga.Proofs.Index

set_option linter.unusedSectionVars false
set_option linter.unusedSimpArgs false
set_option linter.unusedVariables false

namespace Pyiga.Tensor
open Pyiga.Index

theorem inBox_below : ∀ (I s : List Nat), inBox I s = true → Below I s
  | [], [], _ => trivial
  | i :: I, n :: s, h => by
    simp only [inBox_cons] at h
    exact ⟨h.1, inBox_below I s h.2⟩
  | [], _ :: _, h => by simp [inBox] at h
  | _ :: _, [], h => by simp [inBox] at h

theorem cartesianProduct_length : ∀ (idx : List (List Nat)),
    (cartesianProduct idx).length = prod (idx.map List.length)
  | [] => rfl
  | r :: rs => by
    simp only [cartesianProduct, List.map_cons, prod_cons]
    have ih := cartesianProduct_length rs
    induction r with
    | nil => simp
    | cons a r ihr =>
      simp only [List.flatMap_cons, List.length_append, List.length_map, List.length_cons, ih]
      rw [ihr, Nat.add_mul, Nat.one_mul, Nat.add_comm]

/-- indexing a concatenation of blocks of equal length -/
theorem flatMap_block {β γ : Type} (f : β → List γ) (L : Nat) : ∀ (r : List β) (i k : Nat),
    (∀ a ∈ r, (f a).length = L) → (hi : i < r.length) → k < L →
    (r.flatMap f)[i * L + k]? = (f r[i])[k]?
  | [], i, k, _, hi, _ => by simp at hi
  | a :: r, 0, k, hL, _, hk => by
    simp only [List.flatMap_cons, Nat.zero_mul, Nat.zero_add, List.getElem_cons_zero]
    rw [List.getElem?_append_left (by rw [hL a (by simp)]; exact hk)]
  | a :: r, i + 1, k, hL, hi, hk => by
    simp only [List.flatMap_cons, List.getElem_cons_succ]
    have : (i + 1) * L + k = (f a).length + (i * L + k) := by
      rw [hL a (by simp), Nat.add_mul, Nat.one_mul]; omega
    rw [this, List.getElem?_append_right (by omega), Nat.add_sub_cancel_left]
    exact flatMap_block f L r i k (fun b hb => hL b (by simp [hb])) (by simpa using hi) hk

/-- the row of `utils.cartesian_product` at the C-order position of `I` is the picked multi-index -/
theorem cartesianProduct_get : ∀ (idx : List (List Nat)) (I : List Nat),
    inBox I (idx.map List.length) = true →
    (cartesianProduct idx)[toSeq I (idx.map List.length)]? = some (pick idx I)
  | [], [], _ => rfl
  | [], _ :: _, h => by simp [inBox] at h
  | r :: rs, [], h => by simp [inBox] at h
  | r :: rs, i :: I, h => by
    simp only [List.map_cons, inBox_cons] at h
    have hIl : I.length = (rs.map List.length).length := inBox_length h.2
    rw [List.map_cons, toSeq_cons i r.length I _ hIl]
    simp only [cartesianProduct]
    have hk : toSeq I (rs.map List.length) < prod (rs.map List.length) :=
      toSeq_lt _ _ (inBox_below _ _ h.2)
    rw [flatMap_block (fun a => (cartesianProduct rs).map (a :: ·)) (prod (rs.map List.length)) r i _
      (fun a _ => by simp [cartesianProduct_length]) h.1 hk]
    rw [List.getElem?_map, cartesianProduct_get rs I h.2]
    simp [pick, List.getD_eq_getElem?_getD, List.getElem?_eq_getElem h.1]

theorem normGo_shape : ∀ (k : Nat) (I : List PyIndex) (s : List Nat) (n : NormIdx),
    normGo k I s = .ok n → n.shape = n.idx.map List.length
  | k, [], s, n, h => by simp only [normGo] at h; injection h with h; subst h; rfl
  | k, _ :: _, [], n, h => by simp only [normGo] at h; injection h with h; subst h; rfl
  | k, ik :: I, m :: s, n, h => by
    simp only [normGo] at h
    cases h1 : normAxis m ik with
    | error e => simp [h1, bind, Except.bind] at h
    | ok r =>
      cases h2 : normGo (k + 1) I s with
      | error e => simp [h1, h2, bind, Except.bind] at h
      | ok rest =>
        simp [h1, h2, bind, Except.bind, pure, Except.pure] at h
        subst h
        simp [normGo_shape (k + 1) I s rest h2]

theorem normalizeIndices_shape (I : List PyIndex) (s : List Nat) (n : NormIdx)
    (h : normalizeIndices I s = .ok n) : n.shape = n.idx.map List.length := by
  simp only [normalizeIndices] at h
  split at h
  · cases h
  · exact normGo_shape _ _ _ _ h

variable {α : Type} [Zero α]

/-- reshaping the generated entries gives the per-axis selection -/
theorem gen_values (X : Full α) (idx : List (List Nat)) :
    Full.ofList (idx.map List.length) ((cartesianProduct idx).map X.get) = X.take idx := by
  simp only [Full.ofList, Full.take]
  refine ofFn_congr _ _ _ (fun I hI => ?_)
  simp only [List.getD_eq_getElem?_getD, List.getElem?_map, cartesianProduct_get idx I hI, Option.map_some,
    Option.getD_some]

end Pyiga.Tensor
