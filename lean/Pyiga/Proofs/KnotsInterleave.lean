/-
Helper lemmas for the C19 theorem `refine_uniform_mesh`: the breakpoints of a uniformly refined
knot vector are the old breakpoints interleaved with the span midpoints ("every span is halved"
stated on the mesh itself, not only as a count).
-/
import Pyiga.Proofs.Knots
import Mathlib.Data.List.Sort

namespace Pyiga.Knots

section Interleave
variable {α : Type}

/-- `a₀, m₀, a₁, m₁, …` — the second list is consumed as long as both have entries; what is left of
the first list is appended. -/
def interleave : List α → List α → List α
  | a :: as, m :: ms => a :: m :: interleave as ms
  | as, [] => as
  | [], _ :: _ => []

end Interleave

section InterleaveField
variable {K : Type} [Field K] [LinearOrder K] [IsStrictOrderedRing K]

/-- membership in the interleaving of a list with its own midpoints -/
theorem mem_interleave_midpoints : ∀ (l : List K) (x : K),
    x ∈ interleave l (midpoints l) ↔ x ∈ l ∨ x ∈ midpoints l := by
  intro l
  induction l with
  | nil => intro x; simp [interleave, midpoints]
  | cons a l ih =>
    intro x
    cases l with
    | nil => simp [interleave, midpoints]
    | cons b rest =>
      have ihx := ih x
      simp only [midpoints, interleave, List.mem_cons] at ihx ⊢
      rw [ihx]
      constructor
      · rintro (h | h | h)
        · exact Or.inl (Or.inl h)
        · exact Or.inr (Or.inl h)
        · rcases h with (h | h) | h
          · exact Or.inl (Or.inr (Or.inl h))
          · exact Or.inl (Or.inr (Or.inr h))
          · exact Or.inr (Or.inr h)
      · rintro ((h | h | h) | h | h)
        · exact Or.inl h
        · exact Or.inr (Or.inr (Or.inl (Or.inl h)))
        · exact Or.inr (Or.inr (Or.inl (Or.inr h)))
        · exact Or.inr (Or.inl h)
        · exact Or.inr (Or.inr (Or.inr h))

/-- the interleaving of a strictly increasing list with its midpoints is strictly increasing and
starts at (is bounded below by) the head of the list -/
theorem interleave_midpoints_sorted : ∀ (l : List K), l.Pairwise (· < ·) →
    (interleave l (midpoints l)).Pairwise (· < ·) ∧
    ∀ a, l.head? = some a → ∀ x ∈ interleave l (midpoints l), a ≤ x := by
  intro l
  induction l with
  | nil => intro _; simp [interleave, midpoints]
  | cons a l ih =>
    intro h
    cases l with
    | nil => simp [interleave, midpoints]
    | cons b rest =>
      have hab : a < b := (List.pairwise_cons.mp h).1 b (by simp)
      have htail : (b :: rest).Pairwise (· < ·) := (List.pairwise_cons.mp h).2
      obtain ⟨ihs, ihb⟩ := ih htail
      have ihb' : ∀ x ∈ interleave (b :: rest) (midpoints (b :: rest)), b ≤ x := ihb b rfl
      have h2 : ((2 : ℕ) : K) = 2 := by norm_num
      have hm1 : a < (b + a) / ((2 : ℕ) : K) := by
        rw [h2, lt_div_iff₀ (by norm_num : (0 : K) < 2)]; linarith
      have hm2 : (b + a) / ((2 : ℕ) : K) < b := by
        rw [h2, div_lt_iff₀ (by norm_num : (0 : K) < 2)]; linarith
      simp only [midpoints, interleave]
      refine ⟨?_, ?_⟩
      · refine List.pairwise_cons.mpr ⟨?_, List.pairwise_cons.mpr ⟨?_, ihs⟩⟩
        · intro x hx
          rcases List.mem_cons.mp hx with e | e
          · rw [e]; exact hm1
          · exact lt_of_lt_of_le hab (ihb' x e)
        · intro x hx
          exact lt_of_lt_of_le hm2 (ihb' x hx)
      · intro a' ha' x hx
        have : a' = a := by simpa using ha'.symm
        subst this
        rcases List.mem_cons.mp hx with e | e
        · exact le_of_eq e.symm
        · rcases List.mem_cons.mp e with e | e
          · rw [e]; exact le_of_lt hm1
          · exact le_of_lt (lt_of_lt_of_le hab (ihb' x e))

end InterleaveField

end Pyiga.Knots
