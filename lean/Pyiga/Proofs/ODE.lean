/-
Helper lemmas for property C12 (Mathlib allowed here).
-/
import Pyiga.Model.ODE
import Mathlib.Tactic.Ring
import Mathlib.Tactic.Linarith
import Mathlib.Algebra.BigOperators.Group.Finset.Basic
import Mathlib.Algebra.Module.Basic

namespace Pyiga.ODE

end Pyiga.ODE
