/-
Helper lemmas for property C12 (Mathlib allowed here).
-/
import Pyiga.Model.ODE
import Mathlib.Tactic.Ring
import Mathlib.Tactic.Linarith
import Mathlib.Tactic.Abel
import Mathlib.Algebra.BigOperators.Group.Finset.Basic
import Mathlib.Algebra.Module.Basic
import Mathlib.Algebra.Order.Field.Basic

namespace Pyiga.ODE

/-! ### `sumRange` -/

section sumRange

theorem sumRange_zero {V : Type} [Zero V] [Add V] (f : Nat → V) : sumRange 0 f = 0 := rfl

theorem sumRange_succ {V : Type} [Zero V] [Add V] (n : Nat) (f : Nat → V) :
    sumRange (n + 1) f = sumRange n f + f n := by
  simp [sumRange, List.range_succ, List.foldl_append]

theorem sumRange_congr {V : Type} [Zero V] [Add V] {n : Nat} {f g : Nat → V}
    (h : ∀ j, j < n → f j = g j) : sumRange n f = sumRange n g := by
  induction n with
  | zero => rfl
  | succ n ih =>
    rw [sumRange_succ, sumRange_succ, ih (fun j hj => h j (Nat.lt_succ_of_lt hj)),
      h n (Nat.lt_succ_self n)]

theorem sumRange_eq_sum {V : Type} [AddCommMonoid V] (n : Nat) (f : Nat → V) :
    sumRange n f = ∑ j ∈ Finset.range n, f j := by
  induction n with
  | zero => simp [sumRange_zero]
  | succ n ih => rw [sumRange_succ, Finset.sum_range_succ, ih]

theorem sumRange_smul_const {K V : Type} [Semiring K] [AddCommMonoid V] [Module K V]
    (n : Nat) (b : Nat → K) (c : V) :
    sumRange n (fun i => b i • c) = (sumRange n b) • c := by
  induction n with
  | zero => simp [sumRange_zero]
  | succ n ih => rw [sumRange_succ, sumRange_succ, ih, add_smul]

end sumRange

/-! ### `getD` on appended singletons -/

section lists
variable {V : Type}

theorem getD_append_lt (l : List V) (a d : V) {i : Nat} (h : i < l.length) :
    (l ++ [a]).getD i d = l.getD i d := by
  simp [List.getD_eq_getElem?_getD, List.getElem?_append_left h]

theorem getD_append_length (l : List V) (a d : V) : (l ++ [a]).getD l.length d = a := by
  simp [List.getD_eq_getElem?_getD]

theorem getD_congr_default (l : List V) (d d' : V) {i : Nat} (h : i < l.length) :
    l.getD i d = l.getD i d' := by
  simp [List.getD_eq_getElem?_getD, List.getElem?_eq_getElem h]

end lists

/-! ### `newton` -/

section newton
variable {V : Type} [Sub V]

theorem newtonLoop_converged (G : V → V) (jsolve : V → V → V) (conv : V → Bool) (freeze : Nat) :
    ∀ (fuel k : Nat) (x res xJ x' : V) (k' : Nat), res = G x →
      newtonLoop G jsolve conv freeze fuel k x res xJ = .converged x' k' →
      conv (G x') = true ∧ k ≤ k' ∧ k' < k + fuel := by
  intro fuel
  induction fuel with
  | zero => intro k x res xJ x' k' _ h; simp [newtonLoop] at h
  | succ fuel ih =>
    intro k x res xJ x' k' hres h
    rw [newtonLoop] at h
    split at h
    · rename_i hc
      injection h with h1 h2
      subst h1 h2 hres
      exact ⟨hc, Nat.le_refl _, by omega⟩
    · obtain ⟨h1, h2, h3⟩ := ih _ _ _ _ _ _ rfl h
      exact ⟨h1, by omega, by omega⟩

theorem newtonLoop_noConvergence (G : V → V) (jsolve : V → V → V) (conv : V → Bool)
    (freeze : Nat) :
    ∀ (fuel k : Nat) (x res xJ x' : V) (k' : Nat),
      newtonLoop G jsolve conv freeze fuel k x res xJ = .noConvergence x' k' →
      k' = k + fuel := by
  intro fuel
  induction fuel with
  | zero =>
    intro k x res xJ x' k' h
    rw [newtonLoop] at h
    injection h with h1 h2
    omega
  | succ fuel ih =>
    intro k x res xJ x' k' h
    rw [newtonLoop] at h
    split at h
    · simp at h
    · have := ih _ _ _ _ _ _ h
      omega

theorem newton_converged (G : V → V) (jsolve : V → V → V) (convOf : V → V → Bool)
    (maxiter freeze : Nat) (x0 x : V) (k : Nat)
    (h : newton G jsolve convOf maxiter freeze x0 = .converged x k) :
    convOf (G x0) (G x) = true ∧ k < maxiter := by
  obtain ⟨h1, _, h3⟩ :=
    newtonLoop_converged G jsolve (convOf (G x0)) freeze maxiter 0 x0 (G x0) x0 x k rfl h
  exact ⟨h1, by omega⟩

theorem newton_noConvergence (G : V → V) (jsolve : V → V → V) (convOf : V → V → Bool)
    (maxiter freeze : Nat) (x0 x : V) (k : Nat)
    (h : newton G jsolve convOf maxiter freeze x0 = .noConvergence x k) : k = maxiter := by
  have := newtonLoop_noConvergence G jsolve (convOf (G x0)) freeze maxiter 0 x0 (G x0) x0 x k h
  omega

theorem newton_linear [Zero V] (G : V → V) (jsolve : V → V → V) (convOf : V → V → Bool)
    (maxiter freeze : Nat) (x0 : V)
    (hJ : ∀ z xJ, G (z - jsolve xJ (G z)) = 0) (hzero : ∀ r0, convOf r0 0 = true)
    (hm : 2 ≤ maxiter) :
    ∃ x k, newton G jsolve convOf maxiter freeze x0 = .converged x k ∧
      ((k = 0 ∧ x = x0) ∨ (k = 1 ∧ G x = 0)) := by
  obtain ⟨m, rfl⟩ : ∃ m, maxiter = m + 2 := ⟨maxiter - 2, by omega⟩
  unfold newton
  simp only []
  rw [newtonLoop]
  by_cases hc : convOf (G x0) (G x0) = true
  · exact ⟨x0, 0, by simp [hc], Or.inl ⟨rfl, rfl⟩⟩
  · simp only [hc, if_false, Bool.false_eq_true]
    rw [newtonLoop]
    simp only [hJ, hzero, if_true]
    exact ⟨_, _, rfl, Or.inr ⟨rfl, hJ _ _⟩⟩

end newton

/-! ### `dirk_step` -/

section dirk
variable {K V : Type} [Field K] [AddCommGroup V] [Module K V]

/-- What the stage loop guarantees about stage `i` of the stage lists `ys`, `Fy`:
an explicit stage (`a_ii = 0`) is the first one and copies `x`, `Fx or F(x)`; an implicit
stage carries `F(y_i)` and `y_i` passed Newton's convergence test for the stage residual. -/
def StageOK (A : Nat → Nat → K) (M F : V → V) (convOf : V → V → Bool) (x : V) (tau : K)
    (Fx : Option V) (ys Fy : List V) (i : Nat) : Prop :=
  (A i i = 0 → i = 0 ∧ ys.getD i 0 = x ∧ Fy.getD i 0 = Fx.getD (F x)) ∧
  (A i i ≠ 0 → Fy.getD i 0 = F (ys.getD i 0) ∧
    ∃ r0, convOf r0 (M (ys.getD i 0) - (tau * A i i) • F (ys.getD i 0)
      - (M x + tau • sumRange i (fun j => A i j • Fy.getD j 0))) = true)

theorem StageOK.congr {A : Nat → Nat → K} {M F : V → V} {convOf : V → V → Bool} {x : V} {tau : K}
    {Fx : Option V} {ys Fy ys' Fy' : List V} {i : Nat}
    (hy : ys'.getD i 0 = ys.getD i 0) (hF : ∀ j, j ≤ i → Fy'.getD j 0 = Fy.getD j 0)
    (h : StageOK A M F convOf x tau Fx ys Fy i) : StageOK A M F convOf x tau Fx ys' Fy' i := by
  have hs : sumRange i (fun j => A i j • Fy'.getD j 0) = sumRange i (fun j => A i j • Fy.getD j 0) :=
    sumRange_congr (fun j hj => by rw [hF j (Nat.le_of_lt hj)])
  unfold StageOK
  rw [hy, hF i (Nat.le_refl i), hs]
  exact h

theorem dirkStage_ok [DecidableEq K] {A : Nat → Nat → K} {M F : V → V} {jsolve : K → V → V → V}
    {convOf : V → V → Bool} {x : V} {tau : K} {Fx : Option V} {i : Nat} {st st' : StageState V}
    (h : dirkStage A M F jsolve convOf x tau Fx i st = .ok st') :
    ∃ y fy, st'.ys = st.ys ++ [y] ∧ st'.Fy = st.Fy ++ [fy] ∧
      (A i i = 0 → i = 0 ∧ y = x ∧ fy = Fx.getD (F x)) ∧
      (A i i ≠ 0 → fy = F y ∧
        ∃ r0, convOf r0 (M y - (tau * A i i) • F y
          - (M x + tau • sumRange i (fun j => A i j • st.Fy.getD j 0))) = true) := by
  by_cases ha : A i i = 0
  · simp only [dirkStage, ha, beq_self_eq_true, if_true] at h
    split at h
    · exact absurd h (by simp)
    · rename_i hi
      have hi0 : i = 0 := by simpa using hi
      cases Fx with
      | some v =>
        simp only [Except.ok.injEq] at h
        subst h
        exact ⟨x, v, rfl, rfl, fun _ => ⟨hi0, rfl, rfl⟩, fun hne => absurd ha hne⟩
      | none =>
        simp only [Except.ok.injEq] at h
        subst h
        exact ⟨x, F x, rfl, rfl, fun _ => ⟨hi0, rfl, rfl⟩, fun hne => absurd ha hne⟩
  · have hb : (A i i == 0) = false := by simpa using ha
    simp only [dirkStage, hb, Bool.false_eq_true, if_false] at h
    split at h
    · rename_i y k hn
      simp only [Except.ok.injEq] at h
      subst h
      have := (newton_converged _ _ _ _ _ _ _ _ hn).1
      exact ⟨y, F y, rfl, rfl, fun h0 => absurd h0 ha, fun _ => ⟨rfl, _, this⟩⟩
    · exact absurd h (by simp)

theorem dirkStages_spec [DecidableEq K] {A : Nat → Nat → K} {M F : V → V} {jsolve : K → V → V → V}
    {convOf : V → V → Bool} {x : V} {tau : K} {Fx : Option V} :
    ∀ (n : Nat) (st : StageState V), dirkStages A M F jsolve convOf x tau Fx n = .ok st →
      st.ys.length = n ∧ st.Fy.length = n ∧
      ∀ i, i < n → StageOK A M F convOf x tau Fx st.ys st.Fy i := by
  intro n
  induction n with
  | zero =>
    intro st h
    simp only [dirkStages, Except.ok.injEq] at h
    subst h
    exact ⟨rfl, rfl, fun i hi => absurd hi (Nat.not_lt_zero i)⟩
  | succ n ih =>
    intro st' h
    rw [dirkStages] at h
    split at h
    · exact absurd h (by simp)
    · rename_i st hst
      obtain ⟨hl1, hl2, hall⟩ := ih st hst
      obtain ⟨y, fy, hy, hf, h0, h1⟩ := dirkStage_ok h
      refine ⟨by simp [hy, hl1], by simp [hf, hl2], ?_⟩
      intro i hi
      have hFpre : ∀ j, j < n → st'.Fy.getD j 0 = st.Fy.getD j 0 := fun j hj => by
        rw [hf]; exact getD_append_lt _ _ _ (by omega)
      rcases Nat.lt_succ_iff_lt_or_eq.mp hi with hlt | rfl
      · refine (hall i hlt).congr ?_ (fun j hj => hFpre j (by omega))
        rw [hy]; exact getD_append_lt _ _ _ (by omega)
      · have hyn : st'.ys.getD i 0 = y := by rw [hy, ← hl1]; exact getD_append_length _ _ _
        have hfn : st'.Fy.getD i 0 = fy := by rw [hf, ← hl2]; exact getD_append_length _ _ _
        have hs : sumRange i (fun j => A i j • st'.Fy.getD j 0)
            = sumRange i (fun j => A i j • st.Fy.getD j 0) :=
          sumRange_congr (fun j hj => by rw [hFpre j hj])
        unfold StageOK
        rw [hyn, hfn, hs]
        exact ⟨h0, h1⟩

/-- with a consistent `Fx`, `Fy[i] = F(ys[i])` for every stage. -/
theorem StageOK.Fy_eq {A : Nat → Nat → K} {M F : V → V} {convOf : V → V → Bool} {x : V} {tau : K}
    {Fx : Option V} {ys Fy : List V} {i : Nat} (hFx : Fx = none ∨ Fx = some (F x))
    (h : StageOK A M F convOf x tau Fx ys Fy i) : Fy.getD i 0 = F (ys.getD i 0) := by
  by_cases ha : A i i = 0
  · obtain ⟨_, h2, h3⟩ := h.1 ha
    rw [h3, h2]
    rcases hFx with rfl | rfl <;> rfl
  · exact (h.2 ha).1

/-- residual form of the stage equation. -/
theorem StageOK.residual {A : Nat → Nat → K} {M F : V → V} {convOf : V → V → Bool} {x : V}
    {tau : K} {Fx : Option V} {ys Fy : List V} {i : Nat} (ha : A i i ≠ 0)
    (h : StageOK A M F convOf x tau Fx ys Fy i) :
    ∃ r0 ρ, convOf r0 ρ = true ∧
      M (ys.getD i 0) = M x + tau • sumRange (i + 1) (fun j => A i j • Fy.getD j 0) + ρ := by
  obtain ⟨hf, r0, hr⟩ := h.2 ha
  refine ⟨r0, _, hr, ?_⟩
  rw [sumRange_succ, smul_add, smul_smul, hf]
  abel

theorem StageOK.exact {A : Nat → Nat → K} {M F : V → V} {convOf : V → V → Bool} {x : V} {tau : K}
    {Fx : Option V} {ys Fy : List V} {i : Nat}
    (hexact : ∀ r0 r, convOf r0 r = true → r = 0) (hFx : Fx = none ∨ Fx = some (F x))
    (hall : ∀ j, j ≤ i → StageOK A M F convOf x tau Fx ys Fy j) :
    M (ys.getD i 0) = M x + tau • sumRange (i + 1) (fun j => A i j • F (ys.getD j 0)) := by
  have hs : sumRange (i + 1) (fun j => A i j • F (ys.getD j 0))
      = sumRange (i + 1) (fun j => A i j • Fy.getD j 0) :=
    sumRange_congr (fun j hj => by rw [(hall j (by omega)).Fy_eq hFx])
  rw [hs]
  by_cases ha : A i i = 0
  · obtain ⟨h1, h2, _⟩ := (hall i (Nat.le_refl i)).1 ha
    subst h1
    rw [h2, sumRange_succ, sumRange_zero, ha]
    simp
  · obtain ⟨r0, ρ, hr, h⟩ := (hall i (Nat.le_refl i)).residual ha
    rw [h, hexact r0 ρ hr, add_zero]

end dirk

section dirkStep
variable {K V : Type} [Field K] [DecidableEq K] [AddCommGroup V] [Module K V]
variable {s : Nat} {A : Nat → Nat → K} {b : Nat → K} {bhat : Option (Nat → K)} {isSA : Bool}
  {M Minv F : V → V} {jsolve : K → V → V → V} {convOf : V → V → Bool} {x : V} {tau : K}
  {Fx : Option V} {o : DirkOut V}

theorem dirkStep_ok
    (h : dirkStep s A b bhat isSA M Minv F jsolve convOf x tau Fx = .ok o) :
    dirkStages A M F jsolve convOf x tau Fx s = .ok ⟨o.ys, o.Fy, o.fcalls⟩ ∧
    o.xnew = (if isSA then o.ys.getD (s - 1) x else dirkCombine s M Minv x tau o.Fy b) ∧
    o.Fxnew = (if isSA then some (o.Fy.getD (s - 1) 0) else none) ∧
    o.xest = bhat.map (dirkCombine s M Minv x tau o.Fy) := by
  unfold dirkStep at h
  split at h
  · exact absurd h (by simp)
  · rename_i st hst
    simp only [Except.ok.injEq] at h
    subst h
    exact ⟨hst, rfl, rfl, rfl⟩

theorem dirkStages_linear {n : Nat} {st : StageState V}
    (hexact : ∀ r0 r, convOf r0 r = true → r = 0) (hFx : Fx = none ∨ Fx = some (F x))
    (h : dirkStages A M F jsolve convOf x tau Fx n = .ok st) :
    ∀ i, i < n → st.Fy.getD i 0 = F (st.ys.getD i 0) ∧
      M (st.ys.getD i 0) = M x + tau • sumRange (i + 1) (fun j => A i j • F (st.ys.getD j 0)) := by
  obtain ⟨_, _, hall⟩ := dirkStages_spec n st h
  intro i hi
  exact ⟨(hall i hi).Fy_eq hFx, StageOK.exact hexact hFx (fun j hj => hall j (by omega))⟩

theorem dirkStep_update (h : dirkStep s A b bhat false M Minv F jsolve convOf x tau Fx = .ok o)
    (hM : ∀ v, M (Minv v) = v) :
    M o.xnew = M x + tau • sumRange s (fun i => b i • o.Fy.getD i 0) ∧ o.Fxnew = none ∧
    dirkStages A M F jsolve convOf x tau Fx s = .ok ⟨o.ys, o.Fy, o.fcalls⟩ := by
  obtain ⟨h1, h2, h3, _⟩ := dirkStep_ok h
  refine ⟨?_, by simpa using h3, h1⟩
  rw [h2]
  simp only [Bool.false_eq_true, if_false, dirkCombine, hM]

theorem dirkStep_embedded (h : dirkStep s A b bhat isSA M Minv F jsolve convOf x tau Fx = .ok o)
    (hM : ∀ v, M (Minv v) = v) :
    (∀ w, bhat = some w → ∃ xe, o.xest = some xe ∧
      M xe = M x + tau • sumRange s (fun i => w i • o.Fy.getD i 0)) ∧
    (bhat = none → o.xest = none) := by
  obtain ⟨_, _, _, h4⟩ := dirkStep_ok h
  constructor
  · rintro w rfl
    exact ⟨_, h4, by simp only [dirkCombine, hM]⟩
  · rintro rfl
    exact h4

/-- stiffly accurate shortcut, residual form. -/
theorem dirkStep_sa_residual
    (h : dirkStep s A b bhat true M Minv F jsolve convOf x tau Fx = .ok o)
    (hs : 0 < s) (hb : ∀ j, j < s → b j = A (s - 1) j) (ha : A (s - 1) (s - 1) ≠ 0) :
    (∃ r0 ρ, convOf r0 ρ = true ∧
      M o.xnew = M x + tau • sumRange s (fun i => b i • o.Fy.getD i 0) + ρ) ∧
    o.Fxnew = some (F o.xnew) ∧ o.xnew = o.ys.getD (s - 1) 0 := by
  obtain ⟨h1, h2, h3, _⟩ := dirkStep_ok h
  obtain ⟨hl, _, hall⟩ := dirkStages_spec s _ h1
  simp only [if_true] at h2 h3
  have hx : o.xnew = o.ys.getD (s - 1) 0 := by
    rw [h2]; exact getD_congr_default _ _ _ (by simp only at hl; omega)
  have hst := hall (s - 1) (by omega)
  refine ⟨?_, ?_, hx⟩
  · obtain ⟨r0, ρ, hr, he⟩ := hst.residual ha
    refine ⟨r0, ρ, hr, ?_⟩
    rw [hx, he, Nat.sub_add_cancel hs]
    congr 3
    exact sumRange_congr (fun j hj => by rw [hb j hj])
  · rw [h3, hx, (hst.2 ha).1]

theorem dirkStep_sa (h : dirkStep s A b bhat true M Minv F jsolve convOf x tau Fx = .ok o)
    (hs : 0 < s) (hb : ∀ j, j < s → b j = A (s - 1) j) (ha : A (s - 1) (s - 1) ≠ 0)
    (hexact : ∀ r0 r, convOf r0 r = true → r = 0) (hFx : Fx = none ∨ Fx = some (F x)) :
    M o.xnew = M x + tau • sumRange s (fun i => b i • F (o.ys.getD i 0)) ∧
    o.Fxnew = some (F o.xnew) := by
  obtain ⟨⟨r0, ρ, hr, he⟩, hF, _⟩ := dirkStep_sa_residual h hs hb ha
  obtain ⟨h1, _⟩ := dirkStep_ok h
  have hlin := dirkStages_linear hexact hFx h1
  refine ⟨?_, hF⟩
  rw [he, hexact r0 ρ hr, add_zero]
  congr 2
  exact sumRange_congr (fun j hj => by rw [(hlin j hj).1])

theorem dirkStages_const {c : V} {n : Nat} {st : StageState V}
    (hFx : Fx = none ∨ Fx = some c)
    (h : dirkStages A M (fun _ => c) jsolve convOf x tau Fx n = .ok st) :
    ∀ i, i < n → st.Fy.getD i 0 = c := by
  obtain ⟨_, _, hall⟩ := dirkStages_spec n st h
  intro i hi
  exact (hall i hi).Fy_eq (F := fun _ => c) hFx

theorem dirkStep_const {c : V}
    (h : dirkStep s A b bhat false M Minv (fun _ => c) jsolve convOf x tau Fx = .ok o)
    (hFx : Fx = none ∨ Fx = some c) (hM : ∀ v, M (Minv v) = v) :
    M o.xnew = M x + (tau * sumRange s b) • c ∧ (sumRange s b = 1 → M o.xnew = M x + tau • c) := by
  obtain ⟨h1, _, h3⟩ := dirkStep_update h hM
  have hc := dirkStages_const hFx h3
  have : M o.xnew = M x + (tau * sumRange s b) • c := by
    rw [h1, mul_smul, ← sumRange_smul_const]
    congr 2
    exact sumRange_congr (fun j hj => by rw [hc j hj])
  exact ⟨this, fun h1 => by rw [this, h1, mul_one]⟩

theorem dirkStep_const_sa {c : V}
    (h : dirkStep s A b bhat true M Minv (fun _ => c) jsolve convOf x tau Fx = .ok o)
    (hs : 0 < s) (hb : ∀ j, j < s → b j = A (s - 1) j) (ha : A (s - 1) (s - 1) ≠ 0)
    (hexact : ∀ r0 r, convOf r0 r = true → r = 0) (hFx : Fx = none ∨ Fx = some c) :
    M o.xnew = M x + (tau * sumRange s b) • c ∧ (sumRange s b = 1 → M o.xnew = M x + tau • c) := by
  have := (dirkStep_sa h hs hb ha hexact hFx).1
  have : M o.xnew = M x + (tau * sumRange s b) • c := by
    rw [this, mul_smul, ← sumRange_smul_const]
  exact ⟨this, fun h1 => by rw [this, h1, mul_one]⟩

end dirkStep

/-! ### `rosenbrock_step` -/

section ros
variable {K V : Type} [Field K] [AddCommGroup V] [Module K V]
variable (A G : Nat → Nat → K) (F jac : V → V) (csolve : K → V → V) (x : V) (tau : K)

theorem rosStages_length (n : Nat) : (rosStages A G F jac csolve x tau n).length = n := by
  induction n with
  | zero => rfl
  | succ n ih => simp [rosStages, ih]

theorem rosStage_congr {i : Nat} {ks ks' : List V} (h : ∀ j, j < i → ks.getD j 0 = ks'.getD j 0) :
    rosStage A G F jac csolve x tau i ks = rosStage A G F jac csolve x tau i ks' := by
  have h1 : sumRange i (fun j => A i j • ks.getD j 0) = sumRange i (fun j => A i j • ks'.getD j 0) :=
    sumRange_congr (fun j hj => by rw [h j hj])
  have h2 : sumRange i (fun j => G i j • ks.getD j 0) = sumRange i (fun j => G i j • ks'.getD j 0) :=
    sumRange_congr (fun j hj => by rw [h j hj])
  simp only [rosStage, h1, h2]

theorem rosStages_getD_mono {i m n : Nat} (hi : i < m) (hmn : m ≤ n) :
    (rosStages A G F jac csolve x tau n).getD i 0 = (rosStages A G F jac csolve x tau m).getD i 0 := by
  induction n with
  | zero => omega
  | succ n ih =>
    rcases Nat.eq_or_lt_of_le hmn with rfl | hlt
    · rfl
    · rw [← ih (by omega), rosStages]
      exact getD_append_lt _ _ _ (by rw [rosStages_length]; omega)

theorem rosStages_getD {i n : Nat} (hi : i < n) :
    (rosStages A G F jac csolve x tau n).getD i 0
      = rosStage A G F jac csolve x tau i (rosStages A G F jac csolve x tau n) := by
  rw [rosStages_getD_mono A G F jac csolve x tau (Nat.lt_succ_self i) hi]
  conv_lhs => rw [rosStages]
  have := getD_append_length (rosStages A G F jac csolve x tau i)
    (rosStage A G F jac csolve x tau i (rosStages A G F jac csolve x tau i)) 0
  rw [rosStages_length] at this
  rw [this]
  exact rosStage_congr A G F jac csolve x tau
    (fun j hj => (rosStages_getD_mono A G F jac csolve x tau hj (Nat.le_of_lt hi)).symm)

theorem rosStages_equation (M : V → V)
    (hC : ∀ r, M (csolve (tau * G 0 0) r) - (tau * G 0 0) • jac (csolve (tau * G 0 0) r) = r)
    {i n : Nat} (hi : i < n) :
    M ((rosStages A G F jac csolve x tau n).getD i 0)
        - (tau * G 0 0) • jac ((rosStages A G F jac csolve x tau n).getD i 0)
      = F (x + tau • sumRange i (fun j => A i j • (rosStages A G F jac csolve x tau n).getD j 0))
        + (if i > 0 then
            tau • jac (sumRange i (fun j => G i j • (rosStages A G F jac csolve x tau n).getD j 0))
           else 0) := by
  rw [rosStages_getD A G F jac csolve x tau hi]
  simp only [rosStage, hC]
  split_ifs <;> simp

theorem rosStages_const (c : V) {i n : Nat} (hi : i < n) :
    (rosStages A G (fun _ => c) (fun _ => 0) csolve x tau n).getD i 0 = csolve (tau * G 0 0) c := by
  rw [rosStages_getD A G _ _ csolve x tau hi]
  simp [rosStage]

theorem rosStep_const (s : Nat) (b : Nat → K) (bhat : Option (Nat → K)) (c : V) :
    (rosStep s A G b bhat (fun _ => c) (fun _ => 0) csolve x tau).xnew
      = x + (tau * sumRange s b) • csolve (tau * G 0 0) c := by
  simp only [rosStep]
  rw [mul_smul, ← sumRange_smul_const]
  congr 2
  exact sumRange_congr (fun j hj => by rw [rosStages_const A G csolve x tau c hj])

end ros

/-! ### `_constant_step_method` -/

section constDriver
variable {K V : Type}

theorem constLoop_extends [Add K] [Mul K] [NatCast K]
    (step : V → Option V → Except StepErr (V × Option V)) (t0 tau : K) :
    ∀ (fuel i : Nat) (x : V) (Fx : Option V) (ts : List K) (xs : List V) (ts' : List K)
      (xs' : List V), constLoop step t0 tau fuel i x Fx ts xs = .ok (ts', xs') →
      ts <+: ts' ∧ xs <+: xs' := by
  intro fuel
  induction fuel with
  | zero =>
    intro i x Fx ts xs ts' xs' h
    simp only [constLoop, Except.ok.injEq, Prod.mk.injEq] at h
    obtain ⟨rfl, rfl⟩ := h
    exact ⟨List.prefix_refl _, List.prefix_refl _⟩
  | succ fuel ih =>
    intro i x Fx ts xs ts' xs' h
    rw [constLoop] at h
    split at h
    · simp only [Except.ok.injEq, Prod.mk.injEq] at h
      obtain ⟨rfl, rfl⟩ := h
      exact ⟨List.prefix_refl _, List.prefix_refl _⟩
    · exact absurd h (by simp)
    · obtain ⟨h1, h2⟩ := ih _ _ _ _ _ _ _ h
      exact ⟨(List.prefix_append _ _).trans h1, (List.prefix_append _ _).trans h2⟩

theorem constLoop_prefix [Add K] [Mul K] [NatCast K]
    (step : V → Option V → Except StepErr (V × Option V)) (t0 tau : K) :
    ∀ (m n : Nat), m ≤ n → ∀ (i : Nat) (x : V) (Fx : Option V) (ts : List K) (xs : List V)
      (ts' : List K) (xs' : List V), constLoop step t0 tau n i x Fx ts xs = .ok (ts', xs') →
      ∃ ts'' xs'', constLoop step t0 tau m i x Fx ts xs = .ok (ts'', xs'') ∧
        ts'' <+: ts' ∧ xs'' <+: xs' := by
  intro m
  induction m with
  | zero =>
    intro n _ i x Fx ts xs ts' xs' h
    exact ⟨ts, xs, rfl, constLoop_extends step t0 tau n i x Fx ts xs ts' xs' h⟩
  | succ m ih =>
    intro n hmn i x Fx ts xs ts' xs' h
    obtain ⟨n, rfl⟩ : ∃ n', n = n' + 1 := ⟨n - 1, by omega⟩
    rw [constLoop] at h
    rw [constLoop]
    split at h
    · rename_i hst
      simp only [Except.ok.injEq, Prod.mk.injEq] at h
      obtain ⟨rfl, rfl⟩ := h
      exact ⟨ts, xs, rfl, List.prefix_refl _, List.prefix_refl _⟩
    · exact absurd h (by simp)
    · rename_i x' Fx' hst
      exact ih n (by omega) _ _ _ _ _ _ _ h

theorem constLoop_spec [Ring K] (step : V → Option V → Except StepErr (V × Option V))
    (t0 tau : K) :
    ∀ (fuel i : Nat) (x : V) (Fx : Option V) (ts : List K) (xs : List V) (ts' : List K)
      (xs' : List V), constLoop step t0 tau fuel i x Fx ts xs = .ok (ts', xs') →
      ts.length = xs.length → ts.length = i + 1 →
      (∀ k, k < ts.length → ts.getD k 0 = t0 + (k : K) * tau) →
      ts'.length = xs'.length ∧ ts.length ≤ ts'.length ∧ ts'.length ≤ ts.length + fuel ∧
      ∀ k, k < ts'.length → ts'.getD k 0 = t0 + (k : K) * tau := by
  intro fuel
  induction fuel with
  | zero =>
    intro i x Fx ts xs ts' xs' h hl hi hk
    simp only [constLoop, Except.ok.injEq, Prod.mk.injEq] at h
    obtain ⟨rfl, rfl⟩ := h
    exact ⟨hl, Nat.le_refl _, Nat.le_refl _, hk⟩
  | succ fuel ih =>
    intro i x Fx ts xs ts' xs' h hl hi hk
    rw [constLoop] at h
    split at h
    · simp only [Except.ok.injEq, Prod.mk.injEq] at h
      obtain ⟨rfl, rfl⟩ := h
      exact ⟨hl, Nat.le_refl _, by omega, hk⟩
    · exact absurd h (by simp)
    · have := ih _ _ _ _ _ _ _ h (by simp [hl]) (by simp [hi]) (by
        intro k hk'
        rw [List.length_append, List.length_singleton] at hk'
        rcases Nat.lt_succ_iff_lt_or_eq.mp hk' with hlt | rfl
        · rw [getD_append_lt _ _ _ hlt]; exact hk k hlt
        · rw [getD_append_length, hi])
      rw [List.length_append, List.length_singleton] at this
      obtain ⟨h1, h2, h3, h4⟩ := this
      exact ⟨h1, by omega, by omega, h4⟩

theorem constLoop_complete [Add K] [Mul K] [NatCast K]
    (step : V → Option V → Except StepErr (V × Option V)) (t0 tau : K)
    (hstep : ∀ x Fx, ∃ r, step x Fx = .ok r) :
    ∀ (fuel i : Nat) (x : V) (Fx : Option V) (ts : List K) (xs : List V),
      ∃ ts' xs', constLoop step t0 tau fuel i x Fx ts xs = .ok (ts', xs') ∧
        ts'.length = ts.length + fuel := by
  intro fuel
  induction fuel with
  | zero => intro i x Fx ts xs; exact ⟨ts, xs, rfl, rfl⟩
  | succ fuel ih =>
    intro i x Fx ts xs
    obtain ⟨⟨x', Fx'⟩, hr⟩ := hstep x Fx
    rw [constLoop, hr]
    obtain ⟨ts', xs', h1, h2⟩ := ih (i + 1) x' Fx' (ts ++ [t0 + ((i + 1 : Nat) : K) * tau]) (xs ++ [x'])
    exact ⟨ts', xs', h1, by rw [h2, List.length_append, List.length_singleton]; omega⟩

theorem constDriver_spec [Ring K] (step : V → Option V → Except StepErr (V × Option V))
    (x0 : V) (tau t0 : K) (n : Nat) (ts : List K) (xs : List V)
    (h : constDriver step x0 tau t0 n = .ok (ts, xs)) :
    ts.length = xs.length ∧ 1 ≤ ts.length ∧ ts.length ≤ n + 1 ∧
      ∀ k, k < ts.length → ts.getD k 0 = t0 + (k : K) * tau := by
  have := constLoop_spec step t0 tau n 0 x0 none [t0] [x0] ts xs h rfl rfl (by
    intro k hk
    have : k = 0 := by simpa using hk
    subst this
    simp)
  simp only [List.length_singleton] at this
  obtain ⟨h1, h2, h3, h4⟩ := this
  exact ⟨h1, h2, by omega, h4⟩

end constDriver

/-! ### `_adaptive_step_method` -/

section adapt
variable {K V : Type} [Field K] [LinearOrder K] [IsStrictOrderedRing K]

theorem pclamp_mem {lo hi : K} (h : lo ≤ hi) (z : K) :
    lo ≤ pmin hi (pmax lo z) ∧ pmin hi (pmax lo z) ≤ hi := by
  unfold pmin pmax
  split_ifs <;> constructor <;> linarith

/-- an accepted step -/
def Event.isAccepted : Event K → Bool
  | .stepped _ acc _ => acc
  | .newtonFailed => false

/-- a logged step was accepted iff `r ≤ 1` and its factor was clamped to `[lo, hi]`. -/
def Event.OK (c : Ctl K) : Event K → Prop
  | .stepped r acc fac => (acc = true ↔ r ≤ c.one) ∧ c.lo ≤ fac ∧ fac ≤ c.hi
  | .newtonFailed => True

/-- loop invariant of `adaptLoop`. -/
structure AdaptInv (c : Ctl K) (t0 t tau : K) (ts : List K) (xs : List V)
    (log : List (Event K)) : Prop where
  tau_pos : 0 < tau
  len : ts.length = xs.length
  sorted : ts.Pairwise (· < ·)
  le_t : ∀ a ∈ ts, a ≤ t
  head : ts.head? = some t0
  last : ts.getLast? = some t
  log_ok : ∀ e ∈ log, Event.OK c e
  count : ts.length = 1 + log.countP Event.isAccepted

omit [IsStrictOrderedRing K] in
theorem AdaptInv.init (c : Ctl K) (t0 tau0 : K) (x0 : V) (h : 0 < tau0) :
    AdaptInv c t0 t0 tau0 [t0] [x0] [] :=
  ⟨h, rfl, List.pairwise_singleton _ _, by simp, rfl, rfl, by simp, rfl⟩

theorem AdaptInv.fail {c : Ctl K} {t0 t tau : K} {ts : List K} {xs : List V}
    {log : List (Event K)} (h : AdaptInv c t0 t tau ts xs log) (hh : 0 < c.half) :
    AdaptInv c t0 t (tau * c.half) ts xs (log ++ [.newtonFailed]) :=
  ⟨mul_pos h.tau_pos hh, h.len, h.sorted, h.le_t, h.head, h.last, by
    intro e he
    rcases List.mem_append.mp he with he | he
    · exact h.log_ok e he
    · rw [List.mem_singleton.mp he]; trivial,
   by rw [h.count]; simp [Event.isAccepted]⟩

theorem AdaptInv.reject {c : Ctl K} {t0 t tau : K} {ts : List K} {xs : List V}
    {log : List (Event K)} (h : AdaptInv c t0 t tau ts xs log) (hlo : 0 < c.lo) {r fac : K}
    (hr : ¬ r ≤ c.one) (hf : c.lo ≤ fac ∧ fac ≤ c.hi) :
    AdaptInv c t0 t (tau * fac) ts xs (log ++ [.stepped r false fac]) :=
  ⟨mul_pos h.tau_pos (lt_of_lt_of_le hlo hf.1), h.len, h.sorted, h.le_t, h.head, h.last, by
    intro e he
    rcases List.mem_append.mp he with he | he
    · exact h.log_ok e he
    · rw [List.mem_singleton.mp he]; exact ⟨by simp [hr], hf⟩,
   by rw [h.count]; simp [Event.isAccepted]⟩

theorem AdaptInv.accept {c : Ctl K} {t0 t tau : K} {ts : List K} {xs : List V}
    {log : List (Event K)} (h : AdaptInv c t0 t tau ts xs log) (hlo : 0 < c.lo) {r fac : K}
    (hr : r ≤ c.one) (hf : c.lo ≤ fac ∧ fac ≤ c.hi) (xnew : V) :
    AdaptInv c t0 (t + tau) (tau * fac) (ts ++ [t + tau]) (xs ++ [xnew])
      (log ++ [.stepped r true fac]) := by
  have hpos := h.tau_pos
  refine ⟨mul_pos h.tau_pos (lt_of_lt_of_le hlo hf.1), by simp [h.len], ?_, ?_, ?_, ?_, ?_, ?_⟩
  · rw [List.pairwise_append]
    refine ⟨h.sorted, List.pairwise_singleton _ _, ?_⟩
    intro a ha b hb
    rw [List.mem_singleton.mp hb]
    have := h.le_t a ha
    linarith
  · intro a ha
    rcases List.mem_append.mp ha with ha | ha
    · have := h.le_t a ha; linarith
    · rw [List.mem_singleton.mp ha]
  · rw [List.head?_append, h.head]; rfl
  · simp
  · intro e he
    rcases List.mem_append.mp he with he | he
    · exact h.log_ok e he
    · rw [List.mem_singleton.mp he]; exact ⟨by simp [hr], hf⟩
  · rw [List.length_append, h.count]; simp [Event.isAccepted]; omega

theorem adaptLoop_spec (step : V → K → Option V → Except StepErr (V × V × Option V))
    (ratio : V → V → V → K) (powf : K → K) (c : Ctl K) (tEnd t0 : K)
    (hlo : 0 < c.lo) (hlh : c.lo ≤ c.hi) (hh : 0 < c.half) :
    ∀ (fuel : Nat) (t tau : K) (x : V) (Fx : Option V) (ts : List K) (xs : List V)
      (log : List (Event K)) (o : AdaptOut K V),
      adaptLoop step ratio powf c tEnd fuel t tau x Fx ts xs log = .ok o →
      AdaptInv c t0 t tau ts xs log →
      AdaptInv c t0 o.t o.tau o.times o.sols o.log ∧ (o.outOfFuel = false → ¬ o.t < tEnd) := by
  intro fuel
  induction fuel with
  | zero =>
    intro t tau x Fx ts xs log o h hinv
    simp only [adaptLoop, Except.ok.injEq] at h
    subst h
    exact ⟨hinv, fun hd => of_decide_eq_false hd⟩
  | succ fuel ih =>
    intro t tau x Fx ts xs log o h hinv
    rw [adaptLoop] at h
    split at h
    · split at h
      · exact ih _ _ _ _ _ _ _ _ h (hinv.fail hh)
      · exact absurd h (by simp)
      · rename_i xnew xhat Fxnew hst
        simp only [] at h
        by_cases hr : (if ratio x xnew xhat == 0 then c.tiny else ratio x xnew xhat) ≤ c.one
        · rw [if_pos hr] at h
          exact ih _ _ _ _ _ _ _ _ h (hinv.accept hlo hr (pclamp_mem hlh _) _)
        · rw [if_neg hr] at h
          exact ih _ _ _ _ _ _ _ _ h (hinv.reject hlo hr (pclamp_mem hlh _))
    · rename_i hnt
      simp only [Except.ok.injEq] at h
      subst h
      exact ⟨hinv, fun _ => hnt⟩

end adapt

/-! ### deciding that an `Except` computation succeeded (for non-vacuity examples) -/

/-- `e` is `.ok o` with `p o = true`. -/
def okAnd {ε α : Type} (e : Except ε α) (p : α → Bool) : Bool :=
  match e with
  | .ok o => p o
  | .error _ => false

theorem exists_ok_of_okAnd {ε α : Type} {e : Except ε α} {p : α → Bool} (h : okAnd e p = true) :
    ∃ o, e = .ok o ∧ p o = true := by
  cases e with
  | ok o => exact ⟨o, rfl, h⟩
  | error e => simp [okAnd] at h


end Pyiga.ODE
