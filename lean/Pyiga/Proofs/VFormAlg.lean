/-
Part 2: soundness of the passes that need algebraic laws.  Values live in an arbitrary field of
characteristic zero (`ConstExpr` values are rationals).
-/
import Pyiga.Proofs.VForm
import Mathlib.Data.Rat.Cast.CharZero
import Mathlib.Tactic.Ring
import Mathlib.Tactic.FieldSimp
import Mathlib.Tactic.SplitIfs

namespace Pyiga.VForm
open Expr

variable {α : Type} [Field α] [CharZero α]

/-- the operations of a field; builtin functions are arbitrary -/
def fieldOps (fn : String → α → α) : Ops α :=
  { add := (· + ·), sub := (· - ·), mul := (· * ·), div := (· / ·), neg := (- ·),
    ofRat := fun q => (q : α), fn := fn }

@[simp] theorem isConst_iff (e : Expr) (v : Rat) : isConst e v = true ↔ e = const v := by
  cases e <;> simp [isConst]

@[simp] theorem isZero_iff (e : Expr) : isZero e = true ↔ e = const 0 := by
  simp [isZero]

/-- the node classes whose shape is `()` by construction -/
def scalarCls : Expr → Bool
  | const _ | varref .. | neg _ | builtin .. | sop .. | pderiv .. | gw _ | dx | ds => true
  | _ => false

/-- shape discipline of `ScalarOperExpr.__init__` / `NegExpr` / `BuiltinFuncExpr` (their asserts):
the children of scalar operator nodes are scalar nodes. -/
def SopWS : Expr → Bool
  | litvec es => (es.map SopWS).all id
  | litmat _ _ es => (es.map SopWS).all id
  | neg x => scalarCls x && SopWS x
  | builtin _ x => scalarCls x && SopWS x
  | sop _ x y => scalarCls x && scalarCls y && SopWS x && SopWS y
  | top _ x y => SopWS x && SopWS y
  | cross x y => SopWS x && SopWS y
  | outer x y => SopWS x && SopWS y
  | matvec x y => SopWS x && SopWS y
  | matmat x y => SopWS x && SopWS y
  | _ => true

theorem scalar_ev (o : Ops α) (ρ : Env α) (e : Expr) (h : scalarCls e = true) (i j : Nat) :
    ev o ρ e i j = ev o ρ e 0 0 := by
  cases e <;> simp_all [scalarCls, ev]

theorem fold1_scalarCls (op : Op) (x y : Expr) (hx : scalarCls x = true) (hy : scalarCls y = true) :
    scalarCls (fold1 op x y) = true := by
  unfold fold1
  split
  · split <;> simp [scalarCls]
  · cases op
    all_goals simp only []
    all_goals repeat' split
    all_goals simp_all [scalarCls]

theorem scalarCls_shape (e : Expr) (h : scalarCls e = true) : shape e = [] := by
  cases e <;> simp_all [scalarCls, shape]

theorem foldAll_scalarCls (e : Expr) : SopWS e = true → scalarCls e = true → scalarCls (foldAll e) = true := by
  induction e using Expr.rec (motive_2 := fun _ => True) with
  | sop op x y ihx ihy =>
    intro h _
    simp only [SopWS, Bool.and_eq_true] at h
    obtain ⟨⟨⟨hx, hy⟩, hwx⟩, hwy⟩ := h
    simp only [foldAll]
    exact fold1_scalarCls op _ _ (ihx hwx hx) (ihy hwy hy)
  | nil => trivial
  | cons _ _ _ _ => trivial
  | _ => intros; simp_all [scalarCls, foldAll]

theorem shape_foldAll (e : Expr) : SopWS e = true → shape (foldAll e) = shape e := by
  induction e using Expr.rec (motive_2 := fun _ => True) with
  | sop op x y ihx ihy =>
    intro h
    simp only [SopWS, Bool.and_eq_true] at h
    obtain ⟨⟨⟨hx, hy⟩, hwx⟩, hwy⟩ := h
    simp only [foldAll]
    rw [scalarCls_shape _ (fold1_scalarCls op _ _ (foldAll_scalarCls x hwx hx) (foldAll_scalarCls y hwy hy))]
    simp [shape]
  | top op x y ihx ihy => intro h; simp only [SopWS, Bool.and_eq_true] at h; simp [foldAll, shape, ihx h.1]
  | cross x y ihx ihy => intro h; simp only [SopWS, Bool.and_eq_true] at h; simp [foldAll, shape, ihx h.1]
  | outer x y ihx ihy => intro h; simp only [SopWS, Bool.and_eq_true] at h; simp [foldAll, shape, ihx h.1, ihy h.2]
  | matvec x y ihx ihy => intro h; simp only [SopWS, Bool.and_eq_true] at h; simp [foldAll, shape, ihx h.1]
  | matmat x y ihx ihy => intro h; simp only [SopWS, Bool.and_eq_true] at h; simp [foldAll, shape, ihx h.1, ihy h.2]
  | nil => trivial
  | cons _ _ _ _ => trivial
  | _ => intros; simp [foldAll, shape]

theorem fold1_sound (fn : String → α → α) (ρ : Env α) (op : Op) (x y : Expr)
    (hx : scalarCls x = true) (hy : scalarCls y = true) (i j : Nat) :
    ev (fieldOps fn) ρ (fold1 op x y) i j
      = (fieldOps fn).bin op (ev (fieldOps fn) ρ x 0 0) (ev (fieldOps fn) ρ y 0 0) := by
  rw [scalar_ev _ _ _ (fold1_scalarCls op x y hx hy)]
  unfold fold1
  split
  · -- both constants
    rename_i a b
    split
    · simp [ev]
    · cases op <;> simp [applyOp, ev, Ops.bin, fieldOps]
  · cases op
    all_goals simp only []
    all_goals repeat' split
    all_goals simp_all [ev, Ops.bin, fieldOps]
    all_goals try (first | ring1 | (rename_i h; rcases h with h | h <;> simp [h, ev]))

/-- **fold_constants_sound**: constant folding (with the exact `is_constant` test) preserves the
value of every entry of every expression tree, for every environment. -/
theorem foldAll_sound_aux (fn : String → α → α) (ρ : Env α) (e : Expr) :
    SopWS e = true → ∀ i j, ev (fieldOps fn) ρ (foldAll e) i j = ev (fieldOps fn) ρ e i j := by
  induction e using Expr.rec
    (motive_2 := fun es => (es.map SopWS).all id = true →
      ∀ i, evL (fieldOps fn) ρ (es.map foldAll) i = evL (fieldOps fn) ρ es i) with
  | const v => intro _ i j; simp [foldAll]
  | litvec es ih => intro h i j; simp only [SopWS] at h; simp [foldAll, ev, ih h]
  | litmat m n es ih => intro h i j; simp only [SopWS] at h; simp [foldAll, ev, ih h]
  | varref v I D p => intro _ i j; simp [foldAll]
  | neg x ih => intro h i j; simp only [SopWS, Bool.and_eq_true] at h; simp [foldAll, ev, ih h.2]
  | builtin f x ih => intro h i j; simp only [SopWS, Bool.and_eq_true] at h; simp [foldAll, ev, ih h.2]
  | sop op x y ihx ihy =>
    intro h i j
    simp only [SopWS, Bool.and_eq_true] at h
    obtain ⟨⟨⟨hx, hy⟩, hwx⟩, hwy⟩ := h
    simp only [foldAll]
    rw [fold1_sound fn ρ op _ _ (foldAll_scalarCls x hwx hx) (foldAll_scalarCls y hwy hy)]
    simp [ev, ihx hwx, ihy hwy]
  | top op x y ihx ihy => intro h i j; simp only [SopWS, Bool.and_eq_true] at h; simp [foldAll, ev, ihx h.1, ihy h.2]
  | cross x y ihx ihy => intro h i j; simp only [SopWS, Bool.and_eq_true] at h; rcases i with _ | _ | i <;> simp [foldAll, ev, ihx h.1, ihy h.2]
  | outer x y ihx ihy => intro h i j; simp only [SopWS, Bool.and_eq_true] at h; simp [foldAll, ev, ihx h.1, ihy h.2]
  | pderiv b D ph => intro _ i j; simp [foldAll]
  | matvec A x ihA ihx => intro h i j; simp only [SopWS, Bool.and_eq_true] at h; simp [foldAll, ev, ihA h.1, ihx h.2, len, shape_foldAll x h.2]
  | matmat A B ihA ihB => intro h i j; simp only [SopWS, Bool.and_eq_true] at h; simp [foldAll, ev, ihA h.1, ihB h.2, ncols, shape_foldAll A h.1]
  | gw a => intro _ i j; simp [foldAll]
  | dx => intro _ i j; simp [foldAll]
  | ds => intro _ i j; simp [foldAll]
  | nil => simp
  | cons e es ihe ihes =>
    rename_i h i
    simp only [List.map_cons, List.all_cons, id, Bool.and_eq_true] at h
    cases i with
    | zero => simp [evL, ihe h.1]
    | succ i => simpa [evL] using ihes h.2 i

end Pyiga.VForm

/-! ### differentiation -/

namespace Pyiga.VForm
open Expr

variable {α : Type} [Field α] [CharZero α]

/-- a family of derivations `d k` on the value field (additive, Leibniz, rational constants are constant) -/
structure IsDeriv (d : Nat → α → α) : Prop where
  add : ∀ k a b, d k (a + b) = d k a + d k b
  mul : ∀ k a b, d k (a * b) = d k a * b + a * d k b
  const : ∀ k (q : ℚ), d k (q : α) = 0

namespace IsDeriv
variable {d : Nat → α → α} (hd : IsDeriv d)
include hd

theorem zero (k : Nat) : d k 0 = 0 := by simpa using hd.const k 0

theorem neg (k : Nat) (a : α) : d k (-a) = - d k a := by
  have h := hd.add k a (-a)
  rw [add_neg_cancel, hd.zero] at h
  exact (neg_eq_of_add_eq_zero_right h.symm).symm

theorem sub (k : Nat) (a b : α) : d k (a - b) = d k a - d k b := by
  rw [sub_eq_add_neg, hd.add, hd.neg, ← sub_eq_add_neg]

/-- quotient rule (also at `b = 0`, where `a / 0 = 0`) -/
theorem div (k : Nat) (a b : α) : d k (a / b) = (d k a * b - a * d k b) / (b * b) := by
  by_cases hb : b = 0
  · subst hb; simp [hd.zero]
  · have h := hd.mul k (a / b) b
    rw [div_mul_cancel₀ a hb] at h
    rw [eq_div_iff (mul_ne_zero hb hb), h]
    field_simp
    ring

theorem iter_zero (k n : Nat) : (d k)^[n] 0 = 0 := by
  induction n with
  | zero => rfl
  | succ n ih => rw [Function.iterate_succ_apply, hd.zero, ih]

theorem iter_add (k n : Nat) (a b : α) : (d k)^[n] (a + b) = (d k)^[n] a + (d k)^[n] b := by
  induction n generalizing a b with
  | zero => rfl
  | succ n ih => rw [Function.iterate_succ_apply, hd.add, ih]; rfl

theorem iter_sub (k n : Nat) (a b : α) : (d k)^[n] (a - b) = (d k)^[n] a - (d k)^[n] b := by
  induction n generalizing a b with
  | zero => rfl
  | succ n ih => rw [Function.iterate_succ_apply, hd.sub, ih]; rfl

theorem iter_const (k n : Nat) (q : ℚ) (hn : 0 < n) : (d k)^[n] (q : α) = 0 := by
  obtain ⟨m, rfl⟩ := Nat.exists_eq_succ_of_ne_zero (Nat.pos_iff_ne_zero.mp hn)
  rw [Function.iterate_succ_apply, hd.const, hd.iter_zero]

end IsDeriv

/-- The environment is a *jet*: the value it gives to a derivative multi-index is the derivative of
the value it gives to the lower multi-index, for the derivations of one flavour `par`
(parametric / physical).  For order 0 the flavour flag of an atom is irrelevant. -/
structure JetClosed (d : Nat → α → α) (par : Bool) (vt : VarTable) (fn : String → α → α) (ρ : Env α) : Prop where
  bf : ∀ b D ph k n, (ph = !par ∨ dsum D = 0) →
    ρ.bf b (bump D k n) (!par) = (d k)^[n] (ρ.bf b D ph)
  input : ∀ v I D p k n av f, lookupVar vt v = some av → av.src = .input f → (p = par ∨ dsum D = 0) →
    ρ.var v I (bump D k n) par = (d k)^[n] (ρ.var v I D p)
  param : ∀ v I D p k av q, lookupVar vt v = some av → av.src = .param q → d k (ρ.var v I D p) = 0
  exprvar : ∀ v I D p av ue, lookupVar vt v = some av → av.src = .expr ue →
    ρ.var v I D p = ev (fieldOps fn) ρ (underlying ue I) 0 0

theorem except_bind_ok {ε β γ : Type} (x : Except ε β) (f : β → Except ε γ) (c : γ) :
    (x >>= f) = .ok c ↔ ∃ a, x = .ok a ∧ f a = .ok c := by
  cases x <;> simp [bind, Except.bind]

/-- **dx_sound**: whenever `Dx(e, k, times, parametric)` returns (no exception), the returned
expression denotes the `times`-fold derivative `∂_k^times` of the value of `e` — for constants,
input-field / parameter / expression-defined variable references, basis functions, and `+ − * /`
(product and quotient rule; `times = 1` there, as in the code). -/
theorem dx_sound_aux (d : Nat → α → α) (hd : IsDeriv d) (vt : VarTable) (fn : String → α → α)
    (ρ : Env α) (par : Bool) (hρ : JetClosed d par vt fn ρ) (k : Nat) :
    ∀ (fuel : Nat) (e : Expr) (times : Nat) (e' : Expr),
      dxE vt fuel e k times par = .ok e' →
      ev (fieldOps fn) ρ e' 0 0 = (d k)^[times] (ev (fieldOps fn) ρ e 0 0) := by
  intro fuel
  induction fuel using Nat.strong_induction_on with
  | _ fuel ihf =>
  intro e
  induction e using Expr.rec (motive_2 := fun _ => True) with
  | const v =>
    intro times e' h
    simp only [dxE] at h
    injection h with h; subst h
    by_cases ht : times > 0
    · simp [ht, ev, fieldOps, hd.iter_const k times v ht]
    · have : times = 0 := by omega
      subst this; simp [ev]
  | varref v I D p =>
    intro times e' h
    simp only [dxE] at h
    split at h
    · cases h
    · rename_i hmix
      split at h
      · rename_i ht
        have : times = 0 := by simpa using ht
        subst this
        injection h with h; subst h; rfl
      · rename_i ht
        split at h
        · cases h
        · rename_i av hav
          split at h
          · -- input field
            rename_i f hsrc
            split at h
            · injection h with h; subst h
              simp only [ev]
              apply hρ.input v I D p k times av f hav hsrc
              simp only [Bool.not_eq_true, Bool.not_eq_false_eq_eq_true, Bool.or_eq_true, beq_iff_eq, Bool.not_not] at hmix
              rcases hmix with h1 | h1
              · exact Or.inl h1.symm
              · exact Or.inr h1
            · cases h
          · -- parameter
            rename_i q hsrc
            injection h with h; subst h
            obtain ⟨m, rfl⟩ := Nat.exists_eq_succ_of_ne_zero (by simpa using ht : times ≠ 0)
            simp only [ev, Function.iterate_succ_apply]
            rw [hρ.param v I D p k av q hav hsrc, hd.iter_zero]
            simp [fieldOps]
          · -- expression-defined variable
            rename_i ue hsrc
            cases fuel with
            | zero => simp at h
            | succ fuel =>
              simp only at h
              rw [ihf fuel (Nat.lt_succ_self _) _ times e' h]
              simp only [ev]
              rw [hρ.exprvar v I D p av ue hav hsrc]
  | sop op x y ihx ihy =>
    intro times e' h
    cases op
    · simp only [dxE, except_bind_ok] at h
      obtain ⟨a, ha, b, hb, h⟩ := h
      injection h with h; subst h
      simp only [ev, Ops.bin, fieldOps] at *
      rw [ihx times a ha, ihy times b hb, hd.iter_add]
    · simp only [dxE, except_bind_ok] at h
      obtain ⟨a, ha, b, hb, h⟩ := h
      injection h with h; subst h
      simp only [ev, Ops.bin, fieldOps] at *
      rw [ihx times a ha, ihy times b hb, hd.iter_sub]
    · simp only [dxE] at h
      split at h
      · cases h
      · rename_i ht
        have : times = 1 := by simpa using ht
        subst this
        simp only [except_bind_ok] at h
        obtain ⟨a, ha, b, hb, h⟩ := h
        injection h with h; subst h
        have hx := ihx 1 a ha
        have hy := ihy 1 b hb
        simp only [ev, Ops.bin, fieldOps, Function.iterate_one] at *
        rw [hx, hy, hd.mul]
    · simp only [dxE] at h
      split at h
      · cases h
      · rename_i ht
        have : times = 1 := by simpa using ht
        subst this
        simp only [except_bind_ok] at h
        obtain ⟨a, ha, b, hb, h⟩ := h
        injection h with h; subst h
        have hx := ihx 1 a ha
        have hy := ihy 1 b hb
        simp only [ev, Ops.bin, fieldOps, Function.iterate_one] at *
        rw [hx, hy, hd.div]
  | pderiv b D ph =>
    intro times e' h
    simp only [dxE] at h
    split at h
    · cases h
    · rename_i hmix
      split at h
      · injection h with h; subst h
        simp only [ev]
        apply hρ.bf b D ph k times
        simp only [Bool.and_eq_true, bne_iff_ne, ne_eq, not_and, Decidable.not_not] at hmix
        by_cases h1 : par = !ph
        · left; rw [h1]; simp
        · right; simpa using hmix h1
      · cases h
  | nil => trivial
  | cons _ _ _ _ => trivial
  | _ =>
    intro times e' h
    rw [dxE] at h <;> first | (cases h; done) | nofun | (intros; contradiction)

end Pyiga.VForm
