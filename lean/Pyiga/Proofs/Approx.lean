/-
Helper lemmas for C17: applying the Kronecker product of one-sided inverses undoes the Kronecker
product (functional multi-index form), Greville averages, discrete L2 projection algebra.
-/
import Pyiga.Model.Approx
import Pyiga.Proofs.Operators
import Mathlib.Algebra.Order.Field.Basic
import Mathlib.Algebra.Order.BigOperators.Group.Finset
import Mathlib.Data.Matrix.Mul

namespace Pyiga.LA
open Pyiga.Index

section
variable {α : Type} [CommSemiring α]

/-- `Σ_j [I = j] · g j = g I` for `I` in the box -/
theorem boxSum_delta : ∀ (dims I : List Nat) (g : List Nat → α), Below I dims →
    boxSum dims (fun j => (if I = j then 1 else 0) * g j) = g I
  | [], [], g, _ => by simp [boxSum]
  | [], _ :: _, _, h => by simp [Below] at h
  | _ :: _, [], _, h => by simp [Below] at h
  | d :: ds, i :: I, g, h => by
    simp only [boxSum, sumRange_eq_sum]
    rw [Finset.sum_eq_single i]
    · have := boxSum_delta ds I (fun js => g (i :: js)) h.2
      rw [← this]
      apply boxSum_congr
      intro js
      by_cases hIj : I = js <;> simp [hIj]
    · intro b _ hb
      rw [← boxSum_zero (α := α) ds]
      apply boxSum_congr
      intro js
      have : ¬ (i :: I = b :: js) := fun e => hb (by injection e with e1 _; exact e1.symm)
      simp [this, boxSum_zero]
    · intro hi
      exact absurd (Finset.mem_range.2 h.1) hi

/-- **undoing a Kronecker product**: if `S_k · C_k = 1` for every factor then
`Σ_i (⊗S)[I,i] · Σ_j (⊗C)[i,j] · c[j ++ t] = c[I ++ t]`. -/
theorem kron_apply_inverse (facs : List ((Nat → Nat → α) × (Nat → Nat → α) × Nat))
    (hinv : ∀ f ∈ facs, ∀ i k, i < f.2.2 → k < f.2.2 → mulEnt f.1 f.2.1 f.2.2 i k = delta i k)
    (c : List Nat → α) (I t : List Nat) (hI : Below I (facs.map (·.2.2))) :
    boxSum (facs.map (·.2.2)) (fun i => kronEntry (facs.map (·.1)) I i *
        boxSum (facs.map (·.2.2)) (fun j => kronEntry (facs.map (·.2.1)) i j * c (j ++ t)))
      = c (I ++ t) := by
  set dims := facs.map (·.2.2) with hd
  have h1 : ∀ i, kronEntry (facs.map (·.1)) I i *
        boxSum dims (fun j => kronEntry (facs.map (·.2.1)) i j * c (j ++ t))
      = boxSum dims (fun j => kronEntry (facs.map (·.1)) I i * kronEntry (facs.map (·.2.1)) i j * c (j ++ t)) := by
    intro i
    rw [boxSum_mul_left]
    exact boxSum_congr _ _ _ (fun j => (mul_assoc _ _ _).symm)
  rw [boxSum_congr _ _ _ h1, boxSum_comm]
  have h2 : ∀ j, Below j dims →
      boxSum dims (fun i => kronEntry (facs.map (·.1)) I i * kronEntry (facs.map (·.2.1)) i j * c (j ++ t))
        = (if I = j then 1 else 0) * c (j ++ t) := by
    intro j hj
    rw [← boxSum_mul_right, kron_inv facs hinv I j hI hj]
  rw [boxSum_congr_below _ _ _ h2]
  exact boxSum_delta dims I (fun j => c (j ++ t)) hI

end
end Pyiga.LA

namespace Pyiga.Approx

section greville
variable {K : Type} [Field K] [LinearOrder K] [IsStrictOrderedRing K]

/-- running average of `p` consecutive knots `t (j+1) … t (j+p)` -/
def avg (t : ℕ → K) (p j : ℕ) : K := (∑ i ∈ Finset.range p, t (j + 1 + i)) / (p : K)

theorem avg_bounds (t : ℕ → K) (hmono : Monotone t) (p j : ℕ) (hp : 0 < p) :
    t (j + 1) ≤ avg t p j ∧ avg t p j ≤ t (j + p) := by
  have hp' : (0 : K) < (p : K) := by exact_mod_cast hp
  unfold avg
  constructor
  · rw [le_div_iff₀ hp']
    calc t (j + 1) * (p : K) = ∑ _i ∈ Finset.range p, t (j + 1) := by
          rw [Finset.sum_const, Finset.card_range, nsmul_eq_mul, mul_comm]
      _ ≤ ∑ i ∈ Finset.range p, t (j + 1 + i) :=
          Finset.sum_le_sum (fun i _ => hmono (by omega))
  · rw [div_le_iff₀ hp']
    calc ∑ i ∈ Finset.range p, t (j + 1 + i) ≤ ∑ _i ∈ Finset.range p, t (j + p) :=
          Finset.sum_le_sum (fun i hi => hmono (by have := Finset.mem_range.1 hi; omega))
      _ = t (j + p) * (p : K) := by
          rw [Finset.sum_const, Finset.card_range, nsmul_eq_mul, mul_comm]

end greville

section l2
open Matrix
variable {Q N K : Type*} [Fintype Q] [Fintype N] [DecidableEq Q] [DecidableEq N] [CommRing K]

theorem l2_orth (C : Matrix Q N K) (w f : Q → K) (x : N → K)
    (hsys : (Cᵀ * diagonal w * C) *ᵥ x = Cᵀ *ᵥ (diagonal w *ᵥ f)) :
    Cᵀ *ᵥ (diagonal w *ᵥ (f - C *ᵥ x)) = 0 := by
  rw [mulVec_sub, mulVec_sub, mulVec_mulVec, mulVec_mulVec, mulVec_mulVec, hsys, mulVec_mulVec, sub_self]

theorem l2_repro (C : Matrix Q N K) (w : Q → K) (c x : N → K) (S : Matrix N N K)
    (hS : S * (Cᵀ * diagonal w * C) = 1)
    (hsys : (Cᵀ * diagonal w * C) *ᵥ x = Cᵀ *ᵥ (diagonal w *ᵥ (C *ᵥ c))) : x = c := by
  have h1 : (Cᵀ * diagonal w * C) *ᵥ x = (Cᵀ * diagonal w * C) *ᵥ c := by
    rw [hsys, mulVec_mulVec, mulVec_mulVec]
  have h2 := congrArg (fun v => S *ᵥ v) h1
  simp only [mulVec_mulVec, hS, one_mulVec] at h2
  exact h2

end l2

end Pyiga.Approx
