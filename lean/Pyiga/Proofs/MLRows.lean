/-
`pyx_raveled_cartesian_product` (odometer with wrap-around) refines the
lexicographic Cartesian product; `nonzeros_for_rows` returns, per requested
row, exactly the entries of the layout specification lying in that row, in
layout order.
-/
import Pyiga.Proofs.MLMatrix2

namespace Pyiga.ML
open Pyiga.Index

/-! ### the wrapping odometer -/

theorem ravStates_eq (shp : List Nat) : ∀ (n m : Nat), m + n ≤ prod shp →
    ravStates shp n (fromSeq m shp) = (List.range' m n).map (fun k => fromSeq k shp)
  | 0, _, _ => rfl
  | n + 1, m, h => by
    simp only [ravStates, List.range'_succ, List.map_cons]
    congr 1
    rcases Nat.eq_zero_or_pos n with h0 | hpos
    · subst h0; rfl
    · rw [incr_fromSeq _ _ (by omega)]
      exact ravStates_eq shp n (m + 1) (by omega)

/-- selection of one element per array by a position list -/
def pick (arrays : List (List Nat)) (I : List Nat) : List Nat :=
  (arrays.zip I).map (fun (ai : List Nat × Nat) => ai.1.getD ai.2 0)

theorem pick_cons (a : List Nat) (as : List (List Nat)) (i : Nat) (I : List Nat) :
    pick (a :: as) (i :: I) = a.getD i 0 :: pick as I := rfl

theorem cartesian_eq_range : ∀ (arrays : List (List Nat)),
    (List.range (prod (arrays.map List.length))).map
      (fun m => pick arrays (fromSeq m (arrays.map List.length))) = cartesian arrays
  | [] => by simp [cartesian, fromSeq, fromSeqRev, prod, pick]
  | a :: as => by
    have ih := cartesian_eq_range as
    simp only [List.map_cons, prod_cons, cartesian]
    rw [range_mul_map]
    have ha : a = (List.range a.length).map (fun k => a.getD k 0) := by
      apply List.ext_getElem
      · simp
      · intro i h1 h2; simp [List.getD_eq_getElem?_getD, List.getElem?_eq_getElem h1]
    conv => rhs; rw [ha]
    rw [List.flatMap_map]
    apply flatMap_congr'
    intro k hk
    have hk' : k < a.length := by simpa using hk
    rw [← ih, List.map_map]
    apply List.map_congr_left
    intro r hr
    have hr' : r < prod (as.map List.length) := by simpa using hr
    simp only [Function.comp]
    rw [fromSeq_cons _ _ _ _ hr', Nat.mod_eq_of_lt hk', pick_cons]

theorem cartesian_nil_of_empty : ∀ (arrays : List (List Nat)),
    arrays.any (·.isEmpty) = true → cartesian arrays = []
  | [], h => by simp at h
  | a :: as, h => by
    simp only [List.any_cons, Bool.or_eq_true] at h
    rcases h with h | h
    · have : a = [] := by simpa using h
      subst this; simp [cartesian]
    · simp [cartesian, cartesian_nil_of_empty as h]

/-- **`pyx_raveled_cartesian_product` refinement** (any number of arrays, any lengths,
including empty ones): the odometer loop emits the raveled lexicographic product. -/
theorem ravCart_eq (arrays : List (List Nat)) (dims : List Nat) :
    ravCart arrays dims = (cartesian arrays).map (fun K => toSeq K dims) := by
  unfold ravCart
  by_cases he : arrays.any (·.isEmpty) = true
  · rw [if_pos he, cartesian_nil_of_empty _ he]; rfl
  · rw [if_neg he]
    simp only []
    have hz : (arrays.map List.length).map (fun _ => 0) = fromSeq 0 (arrays.map List.length) := by
      rw [fromSeq_zero]
    rw [hz, ravStates_eq _ _ 0 (by omega), ← cartesian_eq_range, List.map_map, List.map_map,
      List.range_eq_range']
    rfl

/-! ### filtering a product level by level -/

theorem product_filter : ∀ (pats : List Pattern) (rs : List Nat), rs.length = pats.length →
    product ((pats.zip rs).map (fun (pr : Pattern × Nat) => pr.1.filter (fun e => e.1 = pr.2)))
      = (product pats).filter (fun es => es.map (·.1) = rs)
  | [], [], _ => by simp [product]
  | [], _ :: _, h => by simp at h
  | _ :: _, [], h => by simp at h
  | p :: ps, r :: rs, h => by
    have hl : rs.length = ps.length := by simpa using h
    have ih := product_filter ps rs hl
    simp only [List.zip_cons_cons, List.map_cons, product, ih]
    clear h
    induction p with
    | nil => simp
    | cons e p ihp =>
      rw [List.flatMap_cons, List.filter_append, ← ihp]
      by_cases her : e.1 = r
      · rw [List.filter_cons_of_pos (by simpa using her), List.flatMap_cons]
        congr 1
        rw [List.filter_map]
        congr 1
        apply List.filter_congr
        intro es _
        simp [her]
      · rw [List.filter_cons_of_neg (by simpa using her)]
        have hnil : ((product ps).map (e :: ·)).filter (fun es => es.map (·.1) = r :: rs) = [] := by
          rw [List.filter_eq_nil_iff]
          intro es hes
          simp only [List.mem_map] at hes
          obtain ⟨t, _, rfl⟩ := hes
          simp [her]
        rw [hnil, List.nil_append]

/-! ### rows -/

theorem rowwise_getD (m : Nat) (bx : Pattern) (i : Nat) (h : i < m) :
    (rowwise m bx).getD i [] = (bx.filter (fun e => e.1 = i)).map (·.2) := by
  simp [rowwise, List.getD_eq_getElem?_getD, h]

theorem cartesian_map_snd : ∀ (pats : List Pattern),
    cartesian (pats.map (·.map (·.2))) = (product pats).map (·.map (·.2))
  | [] => rfl
  | p :: ps => by
    simp only [List.map_cons, cartesian, product, cartesian_map_snd ps, List.flatMap_map,
      List.map_flatMap, List.map_map]
    apply flatMap_congr'
    intro e _
    apply List.map_congr_left
    intro es _
    rfl

/-- the per-level interaction lists selected by the digits of row `r` -/
theorem ia_eq : ∀ (bs : List (Nat × Nat)) (bidx : List Pattern) (ix : List Nat),
    bs.length = bidx.length → Below ix (bs.map (·.1)) →
    (((bs.zip bidx).map (fun (bb : (Nat × Nat) × Pattern) => rowwise bb.1.1 bb.2)).zip ix).map
        (fun (li : List (List Nat) × Nat) => li.1.getD li.2 [])
      = ((bidx.zip ix).map (fun (pr : Pattern × Nat) => pr.1.filter (fun e => e.1 = pr.2))).map (·.map (·.2))
  | [], [], [], _, _ => rfl
  | b :: bs, p :: ps, i :: ix, h, hb => by
    have hl : bs.length = ps.length := by simpa using h
    simp only [List.zip_cons_cons, List.map_cons, ia_eq bs ps ix hl hb.2, rowwise_getD _ _ _ hb.1]
  | [], _ :: _, _, h, _ => by simp at h
  | _ :: _, [], _, h, _ => by simp at h
  | [], [], _ :: _, _, hb => by simp [Below] at hb
  | _ :: _, _ :: _, [], _, hb => by simp [Below] at hb

end Pyiga.ML
