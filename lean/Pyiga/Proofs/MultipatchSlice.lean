/-
Helper lemmas for C14: the dofs enumerated by `boundary_dofs` exist (`< prod shape`), so a history of
`join_boundaries` calls needs no validity hypothesis.
-/
import Pyiga.Proofs.Multipatch
import Pyiga.Proofs.Index
import Mathlib.Data.List.Range

namespace Pyiga.MP
open Pyiga.Index Pyiga.Slice

/-- every candidate of every axis is below the size of that axis -/
def Sub : List (List Nat) → List Nat → Prop
  | [], [] => True
  | l :: ls, n :: ns => (∀ a ∈ l, a < n) ∧ Sub ls ns
  | _, _ => False

theorem product_below : ∀ (ls : List (List Nat)) (shape I : List Nat), Sub ls shape → I ∈ product ls → Below I shape
  | [], [], I, _, h => by
    simp only [product, List.mem_singleton] at h; subst h; trivial
  | l :: ls, n :: ns, I, hs, h => by
    simp only [product, List.mem_flatMap, List.mem_map] at h
    obtain ⟨a, ha, J, hJ, rfl⟩ := h
    exact ⟨hs.1 a ha, product_below ls ns J hs.2 hJ⟩
  | [], _ :: _, _, hs, _ => by simp [Sub] at hs
  | _ :: _, [], _, hs, _ => by simp [Sub] at hs

theorem sub_range : ∀ (shape : List Nat), Sub (shape.map List.range) shape
  | [] => trivial
  | n :: ns => ⟨fun a ha => List.mem_range.1 ha, sub_range ns⟩

theorem sub_applyFlip : ∀ (ds : List (List Nat)) (shape : List Nat) (fl : List Bool), Sub ds shape →
    Sub (applyFlip ds fl) shape
  | [], [], fl, _ => by cases fl <;> trivial
  | _ :: _, _ :: _, [], h => h
  | d :: ds, n :: ns, f :: fs, h => by
    refine ⟨?_, sub_applyFlip ds ns fs h.2⟩
    intro a ha
    cases f
    · exact h.1 a (by simpa using ha)
    · exact h.1 a (by simpa using ha)
  | [], _ :: _, _, h => by simp [Sub] at h
  | _ :: _, [], _, h => by simp [Sub] at h

theorem sub_set : ∀ (ds : List (List Nat)) (shape : List Nat) (ax i : Nat), Sub ds shape →
    (∀ h : ax < shape.length, i < shape[ax]) → Sub (ds.set ax [i]) shape
  | [], [], _, _, _, _ => by simp [Sub]
  | d :: ds, n :: ns, 0, i, h, hi => by
    refine ⟨?_, h.2⟩
    intro a ha
    have : a = i := by simpa using ha
    subst this
    exact hi (by simp)
  | d :: ds, n :: ns, ax + 1, i, h, hi => by
    refine ⟨h.1, sub_set ds ns ax i h.2 ?_⟩
    intro hlt
    have := hi (by simpa using hlt)
    simpa using this
  | [], _ :: _, _, _, h, _ => by simp [Sub] at h
  | _ :: _, [], _, _, h, _ => by simp [Sub] at h

theorem sub_axDofs (ax i : Nat) (shape : List Nat) (flip : Option (List Bool)) (h : ax < shape.length)
    (hi : i < shape[ax]) : Sub (axDofs ax i shape flip) shape := by
  unfold axDofs
  apply sub_set _ _ _ _ _ (fun _ => hi)
  cases flip with
  | none => exact sub_range shape
  | some fl => exact sub_applyFlip _ _ _ (sub_range shape)

theorem wrapIdx_lt {idx : Int} {n i : Nat} (h : wrapIdx idx n = some i) : i < n := by
  unfold wrapIdx at h
  dsimp only at h
  by_cases hneg : idx < 0
  · rw [if_pos hneg] at h
    by_cases hc : 0 ≤ idx + ↑n ∧ idx + ↑n < ↑n
    · rw [if_pos hc] at h; have := Option.some.inj h; omega
    · rw [if_neg hc] at h; cases h
  · rw [if_neg hneg] at h
    by_cases hc : 0 ≤ idx ∧ idx < ↑n
    · rw [if_pos hc] at h; have := Option.some.inj h; omega
    · rw [if_neg hc] at h; cases h

theorem sliceIndices_ok {ax : Nat} {idx : Int} {shape : List Nat} {flip : Option (List Bool)} {l : List Nat}
    (h : sliceIndices ax idx shape flip = .ok l) :
    ∃ (hax : ax < shape.length) (i : Nat), wrapIdx idx shape[ax] = some i ∧ l = sliceRavel ax i shape flip := by
  unfold sliceIndices at h
  by_cases hax : ax < shape.length
  · rw [dif_pos hax] at h
    refine ⟨hax, ?_⟩
    cases hw : wrapIdx idx shape[ax] with
    | none =>
      exfalso
      cases flip with
      | none => simp [hw] at h
      | some fl =>
        by_cases hb : ((insertFalse ax fl).drop shape.length).any id = true <;> simp [hw, hb] at h
    | some i =>
      refine ⟨i, rfl, ?_⟩
      cases flip with
      | none => simpa [hw, eq_comm] using h
      | some fl =>
        by_cases hb : ((insertFalse ax fl).drop shape.length).any id = true
        · simp [hw, hb] at h
        · simpa [hw, hb, eq_comm] using h
  · rw [dif_neg hax] at h; cases h

/-- every dof returned by `slice_indices(..., ravel=True)` is a dof of the patch -/
theorem sliceIndices_lt {ax : Nat} {idx : Int} {shape : List Nat} {flip : Option (List Bool)} {l : List Nat}
    (h : sliceIndices ax idx shape flip = .ok l) : ∀ I ∈ l, I < prod shape := by
  obtain ⟨hax, i, hw, rfl⟩ := sliceIndices_ok h
  intro I hI
  simp only [sliceRavel, sliceMulti, List.mem_map] at hI
  obtain ⟨J, hJ, rfl⟩ := hI
  exact toSeq_lt J shape (product_below _ _ _ (sub_axDofs ax i shape flip hax (wrapIdx_lt hw)) hJ)

theorem boundaryDofs_lt {N : List Nat} {bdax bdside : Nat} {flip : Option (List Bool)} {l : List Nat}
    (h : boundaryDofs N bdax bdside flip = .ok l) : ∀ I ∈ l, I < prod N :=
  sliceIndices_lt h

/-- what a `join_dofs` call must satisfy for its dofs to exist; `join_boundaries` needs nothing -/
def CallValid (shapes : List (List Nat)) : Call → Prop
  | .jd p1 I1 p2 I2 => p1 < shapes.length ∧ p2 < shapes.length ∧
      (∀ i ∈ I1, i < prod (shapes.getD p1 [])) ∧ (∀ i ∈ I2, i < prod (shapes.getD p2 []))
  | .jb .. => True

theorem pairsOf_valid {P : Nat} {N : Nat → Nat} {p1 p2 : Nat} {I1 I2 : List Nat} (hp1 : p1 < P) (hp2 : p2 < P)
    (h1 : ∀ i ∈ I1, i < N p1) (h2 : ∀ i ∈ I2, i < N p2) :
    ∀ ab ∈ pairsOf p1 I1 p2 I2, ValidDof P N ab.1 ∧ ValidDof P N ab.2 := by
  intro ab hab
  simp only [pairsOf, List.mem_map] at hab
  obtain ⟨ii, hii, rfl⟩ := hab
  exact ⟨⟨hp1, h1 _ (List.of_mem_zip hii).1⟩, ⟨hp2, h2 _ (List.of_mem_zip hii).2⟩⟩

theorem callPairs_valid (shapes : List (List Nat)) (c : Call) (hc : CallValid shapes c) :
    ∀ ab ∈ callPairs shapes c,
      ValidDof shapes.length (fun p => prod (shapes.getD p [])) ab.1 ∧
      ValidDof shapes.length (fun p => prod (shapes.getD p [])) ab.2 := by
  cases c with
  | jd p1 I1 p2 I2 =>
    obtain ⟨hp1, hp2, h1, h2⟩ := hc
    simp only [callPairs]
    by_cases hcond : I1.length ≠ I2.length ∨ p1 = p2
    · rw [if_pos hcond]; intro ab hab; simp at hab
    · rw [if_neg hcond]; exact pairsOf_valid hp1 hp2 h1 h2
  | jb p1 ax1 s1 p2 ax2 s2 fl =>
    unfold callPairs
    cases hs1 : shapes[p1]? with
    | none => cases hs2 : shapes[p2]? <;> (intro ab hab; simp [hs1, hs2] at hab)
    | some sh1 =>
      cases hs2 : shapes[p2]? with
      | none => intro ab hab; simp [hs1, hs2] at hab
      | some sh2 =>
        simp only [hs1, hs2]
        obtain ⟨hp1, e1⟩ := List.getElem?_eq_some_iff.1 hs1
        obtain ⟨hp2, e2⟩ := List.getElem?_eq_some_iff.1 hs2
        have g1 : shapes.getD p1 [] = sh1 := by simp [List.getD, hs1]
        have g2 : shapes.getD p2 [] = sh2 := by simp [List.getD, hs2]
        cases h1 : boundaryDofs sh1 ax1 s1 none with
        | error e => intro ab hab; simp at hab
        | ok d1 =>
          cases h2 : boundaryDofs sh2 ax2 s2 fl with
          | error e => intro ab hab; simp at hab
          | ok d2 =>
            simp only []
            by_cases hcond : d1.length ≠ d2.length ∨ p1 = p2
            · rw [if_pos hcond]; intro ab hab; simp at hab
            · rw [if_neg hcond]
              exact pairsOf_valid hp1 hp2 (by rw [g1]; exact boundaryDofs_lt h1) (by rw [g2]; exact boundaryDofs_lt h2)

theorem declaredOf_valid (shapes : List (List Nat)) (calls : List Call) (hc : ∀ c ∈ calls, CallValid shapes c) :
    ∀ ab ∈ declaredOf shapes calls,
      ValidDof shapes.length (fun p => prod (shapes.getD p [])) ab.1 ∧
      ValidDof shapes.length (fun p => prod (shapes.getD p [])) ab.2 := by
  intro ab hab
  simp only [declaredOf, List.mem_flatMap] at hab
  obtain ⟨c, hcm, hab⟩ := hab
  exact callPairs_valid shapes c (hc c hcm) ab hab

/-! ### flips -/

/-- reversed coordinate on a flipped axis -/
def flipCoord (n c : Nat) (f : Bool) : Nat := if f then n - 1 - c else c

/-- reverse the coordinates of a multi-index on the flagged axes -/
def flipIdx : List Nat → List Bool → List Nat → List Nat
  | n :: ns, f :: fs, c :: cs => flipCoord n c f :: flipIdx ns fs cs
  | _, _, I => I

theorem reverse_range_eq (n : Nat) : (List.range n).reverse = (List.range n).map (fun c => n - 1 - c) := by
  apply List.ext_getElem
  · simp
  · intro k h1 h2
    simp only [List.length_reverse, List.length_range] at h1
    simp [List.getElem_reverse, List.getElem_range]

/-- a flag may only be set on an axis whose candidate list is the full `range` -/
def FlipOk : List Nat → List (List Nat) → List Bool → Prop
  | _, _, [] => True
  | [], [], _ => True
  | n :: ns, d :: ds, f :: fs => (f = true → d = List.range n) ∧ FlipOk ns ds fs
  | _, _, _ => False

theorem product_applyFlip : ∀ (ns : List Nat) (D : List (List Nat)) (F : List Bool), FlipOk ns D F →
    product (applyFlip D F) = (product D).map (flipIdx ns F)
  | ns, D, [], _ => by
    have h1 : applyFlip D [] = D := by cases D <;> rfl
    have h2 : ∀ I, flipIdx ns [] I = I := by intro I; cases ns <;> rfl
    have h3 : flipIdx ns [] = id := funext h2
    rw [h1, h3, List.map_id]
  | [], [], f :: fs, _ => by simp [applyFlip, product, flipIdx]
  | n :: ns, d :: ds, f :: fs, h => by
    have ih := product_applyFlip ns ds fs h.2
    simp only [applyFlip, product, ih]
    cases f with
    | false =>
      simp only [Bool.false_eq_true, if_false, List.map_flatMap, List.map_map]
      congr 1
    | true =>
      rw [h.1 rfl]
      simp only [if_true, reverse_range_eq, List.flatMap_map, List.map_flatMap, List.map_map]
      congr 1
  | [], _ :: _, _ :: _, h => by simp [FlipOk] at h
  | _ :: _, [], _ :: _, h => by simp [FlipOk] at h


theorem set_applyFlip : ∀ (D : List (List Nat)) (F : List Bool) (ax : Nat) (v : List Nat),
    F[ax]? ≠ some true → (applyFlip D F).set ax v = applyFlip (D.set ax v) F
  | [], F, ax, v, _ => by cases F <;> simp [applyFlip]
  | d :: ds, [], ax, v, _ => by simp [applyFlip]
  | d :: ds, f :: fs, 0, v, h => by
    have : f = false := by cases f <;> simp_all
    subst this; simp [applyFlip]
  | d :: ds, f :: fs, ax + 1, v, h => by
    have h' : fs[ax]? ≠ some true := by simpa using h
    simp [applyFlip, set_applyFlip ds fs ax v h']

theorem insertFalse_get (ax : Nat) (fl : List Bool) : (insertFalse ax fl)[ax]? ≠ some true := by
  unfold insertFalse
  by_cases h : ax ≤ fl.length
  · have : (fl.take ax).length = ax := by simp [h]
    rw [List.getElem?_append_right (by omega)]
    simp [this]
  · have hd : fl.drop ax = [] := List.drop_eq_nil_of_le (by omega)
    have ht : fl.take ax = fl := List.take_of_length_le (by omega)
    rw [ht, hd, List.getElem?_eq_none (by simp; omega)]
    simp

theorem flipOk_set : ∀ (shape : List Nat) (F : List Bool) (ax i : Nat), F[ax]? ≠ some true →
    FlipOk shape ((shape.map List.range).set ax [i]) F
  | shape, [], _, _, _ => by cases shape <;> simp [FlipOk]
  | [], _ :: _, _, _, _ => by simp [FlipOk]
  | n :: ns, f :: fs, 0, i, h => by
    have : f = false := by cases f <;> simp_all
    subst this
    refine ⟨by simp, ?_⟩
    have : ∀ (ns : List Nat) (fs : List Bool), FlipOk ns (ns.map List.range) fs := by
      intro ns
      induction ns with
      | nil => intro fs; cases fs <;> simp [FlipOk]
      | cons m ms ih => intro fs; cases fs with
        | nil => simp [FlipOk]
        | cons g gs => exact ⟨fun _ => rfl, ih gs⟩
    exact this ns fs
  | n :: ns, f :: fs, ax + 1, i, h => by
    have h' : fs[ax]? ≠ some true := by simpa using h
    exact ⟨fun _ => rfl, flipOk_set ns fs ax i h'⟩

/-- **flip**: the k-th multi-index of a face enumerated with `flip` is the k-th multi-index of the
unflipped face with the coordinates reversed on the flipped axes -/
theorem sliceMulti_flip (ax i : Nat) (shape : List Nat) (fl : List Bool) :
    sliceMulti ax i shape (some fl) =
      (sliceMulti ax i shape none).map (flipIdx shape (insertFalse ax fl)) := by
  unfold sliceMulti axDofs
  simp only []
  rw [set_applyFlip _ _ _ _ (insertFalse_get ax fl)]
  exact product_applyFlip shape _ _ (flipOk_set shape _ ax i (insertFalse_get ax fl))


/-- the unflipped enumeration succeeds whenever the flipped one does -/
theorem sliceIndices_none_of_ok {ax : Nat} {idx : Int} {shape : List Nat} (hax : ax < shape.length) {i : Nat}
    (hw : wrapIdx idx shape[ax] = some i) : sliceIndices ax idx shape none = .ok (sliceRavel ax i shape none) := by
  simp [sliceIndices, hax, hw]

end Pyiga.MP
