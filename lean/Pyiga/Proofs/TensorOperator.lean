/-
C18: CanonicalOperator algebra vs. `asmatrix` (entry level): sum of Kronecker products, `+`, unary `-`, `.T`.
-/
import Pyiga.Proofs.TensorBasic

set_option linter.unusedSectionVars false
set_option linter.unusedSimpArgs false
set_option linter.unusedVariables false

namespace Pyiga.Tensor
open Pyiga.Index

variable {α : Type} [CommRing α]

theorem foldl_add_get (ts : List (List (Mat α))) (X0 : Mat α) (i j : Nat) :
    (ts.foldl (fun X t' => X.add (multiKron t')) X0).get i j
      = X0.get i j + sumL (ts.map (fun t => (multiKron t).get i j)) := by
  induction ts generalizing X0 with
  | nil => simp
  | cons t ts ih => simp only [List.foldl_cons, List.map_cons, sumL_cons]; rw [ih]; simp [Mat.add]; ring

/-- `asmatrix()` is the entrywise sum of the Kronecker products of the terms -/
theorem asmatrix_get (A : COp α) (i j : Nat) :
    A.asmatrix.get i j = sumL (A.terms.map (fun t => (multiKron t).get i j)) := by
  unfold COp.asmatrix
  cases h : A.terms with
  | nil => simp [Mat.zeros]
  | cons t ts => simp only [List.map_cons, sumL_cons]; exact foldl_add_get ts _ i j

theorem mkCOp_terms (ts : List (List (Mat α))) (C : COp α) (h : mkCOp ts = .ok C) : C.terms = ts := by
  cases ts with
  | nil => cases h
  | cons t0 r =>
    simp only [mkCOp] at h
    split at h
    · cases h
    · split at h
      · injection h with h; subst h; rfl
      · cases h

theorem multiKron_neg_get : ∀ (X : Mat α) (r : List (Mat α)) (i j : Nat),
    (multiKron (X.neg :: r)).get i j = - (multiKron (X :: r)).get i j
  | X, [], i, j => rfl
  | X, Y :: r, i, j => by
    simp only [multiKron, Mat.kron, Mat.neg]; ring

theorem multiKron_transpose : ∀ (t : List (Mat α)),
    multiKron (t.map Mat.transpose) = (multiKron t).transpose
  | [] => rfl
  | [A] => rfl
  | A :: B :: r => by
    have ih := multiKron_transpose (B :: r)
    simp only [List.map_cons] at ih ⊢
    simp only [multiKron]
    rw [ih]
    simp only [Mat.kron, Mat.transpose]

end Pyiga.Tensor
