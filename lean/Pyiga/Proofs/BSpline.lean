/-
Helper lemmas about `Pyiga.Model.BSpline` (L-bsp): Cox-de Boor facts over an arbitrary
linearly ordered field and the refinement of the transliterated A2.3 table to them.

`coxS t s u p i` is the Cox-de Boor recursion whose degree-0 functions are the indicator of
the span index `s` (the span reported by `findspan`: `t s ≤ u ≤ t (s+1)`, `t s < t (s+1)`).
For `t s ≤ u < t (s+1)` this *is* the usual right-continuous recursion (`coxS_eq_cox`);
for `u = t (s+1)` it is its limit from the left (left-continuity at the right end point).
-/
import Pyiga.Model.BSpline
import Pyiga.Proofs.Knots
import Mathlib.Algebra.BigOperators.Group.Finset.Basic
import Mathlib.Algebra.Order.BigOperators.Group.Finset
import Mathlib.Algebra.BigOperators.Ring.Finset
import Mathlib.Algebra.Order.Field.Basic
import Mathlib.Tactic.Ring
import Mathlib.Tactic.FieldSimp
import Mathlib.Tactic.Linarith

namespace Pyiga.BSpline
open Pyiga.Knots

set_option linter.unusedSectionVars false

variable {K : Type} [Field K] [LinearOrder K] [IsStrictOrderedRing K]

/-- the usual half-open Cox-de Boor recursion (0/0 := 0) -/
def cox (t : ℕ → K) (u : K) : ℕ → ℕ → K
  | 0, i => if t i ≤ u ∧ u < t (i + 1) then 1 else 0
  | p + 1, i =>
      (u - t i) / (t (i + p + 1) - t i) * cox t u p i
        + (t (i + p + 2) - u) / (t (i + p + 2) - t (i + 1)) * cox t u p (i + 1)

/-! ## support (index argument only) -/

theorem coxS_support (t : ℕ → K) (s : ℕ) (u : K) :
    ∀ p i, (s < i ∨ i + p < s) → coxS t s u p i = 0 := by
  intro p
  induction p with
  | zero =>
    intro i h
    have : i ≠ s := by omega
    simp [coxS, this]
  | succ p ih =>
    intro i h
    have h1 : coxS t s u p i = 0 := ih i (by omega)
    have h2 : coxS t s u p (i + 1) = 0 := ih (i + 1) (by omega)
    simp [coxS, h1, h2]

theorem dcoxS_support (t : ℕ → K) (s : ℕ) (u : K) :
    ∀ k p i, (s < i ∨ i + p < s) → dcoxS t s u k p i = 0 := by
  intro k
  induction k with
  | zero => intro p i h; simpa [dcoxS] using coxS_support t s u p i h
  | succ k ih =>
    intro p i h
    cases p with
    | zero => simp [dcoxS]
    | succ p =>
      have h1 : dcoxS t s u k p i = 0 := ih p i (by omega)
      have h2 : dcoxS t s u k p (i + 1) = 0 := ih p (i + 1) (by omega)
      simp [dcoxS, h1, h2]

theorem dcoxS_vanish (t : ℕ → K) (s : ℕ) (u : K) :
    ∀ k p i, p < k → dcoxS t s u k p i = 0 := by
  intro k
  induction k with
  | zero => intro p i h; omega
  | succ k ih =>
    intro p i h
    cases p with
    | zero => simp [dcoxS]
    | succ p =>
      have h1 : dcoxS t s u k p i = 0 := ih p i (by omega)
      have h2 : dcoxS t s u k p (i + 1) = 0 := ih p (i + 1) (by omega)
      simp [dcoxS, h1, h2]

/-! ## non-negativity -/

theorem coxS_nonneg (t : ℕ → K) (s N : ℕ) (u : K)
    (hmono : ∀ i j, i ≤ j → j < N → t i ≤ t j) (hlo : t s ≤ u) (hhi : u ≤ t (s + 1)) :
    ∀ p i, s + p + 1 < N → 0 ≤ coxS t s u p i := by
  intro p
  induction p with
  | zero =>
    intro i _
    unfold coxS
    split_ifs <;> simp
  | succ p ih =>
    intro i hN
    unfold coxS
    apply add_nonneg
    · by_cases hsup : s < i ∨ i + p < s
      · rw [coxS_support t s u p i hsup]; simp
      · have h1 : t i ≤ u := le_trans (hmono i s (by omega) (by omega)) hlo
        have h2 : t i ≤ t (i + p + 1) := hmono _ _ (by omega) (by omega)
        exact mul_nonneg (div_nonneg (sub_nonneg.mpr h1) (sub_nonneg.mpr h2)) (ih i (by omega))
    · by_cases hsup : s < i + 1 ∨ i + 1 + p < s
      · rw [coxS_support t s u p (i + 1) hsup]; simp
      · have h1 : u ≤ t (i + p + 2) := le_trans hhi (hmono (s + 1) _ (by omega) (by omega))
        have h2 : t (i + 1) ≤ t (i + p + 2) := hmono _ _ (by omega) (by omega)
        exact mul_nonneg (div_nonneg (sub_nonneg.mpr h1) (sub_nonneg.mpr h2)) (ih (i + 1) (by omega))

/-! ## partition of unity -/

theorem coxS_pu (t : ℕ → K) (s N : ℕ) (u : K)
    (hmono : ∀ i j, i ≤ j → j < N → t i ≤ t j) (hspan : t s < t (s + 1)) :
    ∀ p j, j + p = s → s + p + 1 < N →
      ∑ r ∈ Finset.range (p + 1), coxS t s u p (j + r) = 1 := by
  intro p
  induction p with
  | zero =>
    intro j hj _
    have hj' : j = s := by omega
    subst hj'
    simp [coxS]
  | succ p ih =>
    intro j hj hN
    have ih' := ih (j + 1) (by omega) (by omega)
    simp only [coxS]
    rw [Finset.sum_add_distrib, Finset.sum_range_succ', Finset.sum_range_succ _ (p + 1)]
    have h0 : coxS t s u p j = 0 := coxS_support t s u p _ (by omega)
    have hl : coxS t s u p (j + (p + 1) + 1) = 0 := coxS_support t s u p _ (by omega)
    simp only [h0, hl, mul_zero, add_zero]
    rw [← Finset.sum_add_distrib, ← ih']
    apply Finset.sum_congr rfl
    intro r hr
    have hr' : r < p + 1 := Finset.mem_range.mp hr
    have e1 : j + (r + 1) = j + 1 + r := by omega
    have e2 : j + r + p + 2 = j + 1 + r + p + 1 := by omega
    have e3 : j + r + 1 = j + 1 + r := by omega
    rw [e1, e2, e3]
    have hd : t (j + 1 + r + p + 1) - t (j + 1 + r) ≠ 0 := by
      have ha : t (j + 1 + r) ≤ t s := hmono _ _ (by omega) (by omega)
      have hb : t (s + 1) ≤ t (j + 1 + r + p + 1) := hmono _ _ (by omega) (by omega)
      have : t (j + 1 + r) < t (j + 1 + r + p + 1) := lt_of_le_of_lt ha (lt_of_lt_of_le hspan hb)
      exact ne_of_gt (sub_pos.mpr this)
    field_simp
    ring

/-! ## derivative sums -/

theorem dcoxS_sum_zero (t : ℕ → K) (s : ℕ) (u : K) :
    ∀ k p j, j + p = s →
      ∑ r ∈ Finset.range (p + 1), dcoxS t s u (k + 1) p (j + r) = 0 := by
  intro k p j hj
  cases p with
  | zero => simp [dcoxS]
  | succ p =>
    simp only [dcoxS]
    rw [← Finset.mul_sum, Finset.sum_sub_distrib, Finset.sum_range_succ', Finset.sum_range_succ _ (p + 1)]
    have h0 : dcoxS t s u k p j = 0 := dcoxS_support t s u k p _ (by omega)
    have hl : dcoxS t s u k p (j + (p + 1) + 1) = 0 := dcoxS_support t s u k p _ (by omega)
    simp only [h0, hl, zero_div, add_zero]
    have : ∀ r ∈ Finset.range (p + 1),
        dcoxS t s u k p (j + (r + 1)) / (t (j + (r + 1) + p + 1) - t (j + (r + 1)))
          = dcoxS t s u k p (j + r + 1) / (t (j + r + p + 2) - t (j + r + 1)) := by
      intro r _
      have e1 : j + (r + 1) = j + r + 1 := by omega
      have e2 : j + r + 1 + p + 1 = j + r + p + 2 := by omega
      rw [e1, e2]
    rw [Finset.sum_congr rfl this]
    simp

/-! ## `coxS` is the usual recursion on `[t s, t (s+1))` -/

theorem cox_eq_coxS (t : ℕ → K) (s N : ℕ) (u : K)
    (hmono : ∀ i j, i ≤ j → j < N → t i ≤ t j) (hlo : t s ≤ u) (hhi : u < t (s + 1)) :
    ∀ p i, i + p + 1 < N → s + 1 < N → cox t u p i = coxS t s u p i := by
  intro p
  induction p with
  | zero =>
    intro i hi hs
    unfold cox coxS
    by_cases h : i = s
    · subst h; simp [hlo, hhi]
    · have : ¬ (t i ≤ u ∧ u < t (i + 1)) := by
        rintro ⟨h1, h2⟩
        exact h (span_unique t N u hmono i s (by omega) hs ⟨h1, h2⟩ ⟨hlo, hhi⟩)
      simp [this, h]
  | succ p ih =>
    intro i hi hs
    unfold cox coxS
    rw [ih i (by omega) hs, ih (i + 1) (by omega) hs]

/-! ## the A2.3 table -/

/-- `left[k] = u - kv[span-k]`, `right[k] = kv[span+1+k] - u`: every denominator
`right[r] + left[j-r-1]` of the table is the knot difference `kv[span+r+1] - kv[span-j+r+1]`. -/
theorem ndu_den (t : ℕ → K) (s : ℕ) (u : K) (j r : ℕ) :
    rightK t s u r + leftK t s u (j - r - 1) = t (s + r + 1) - t (s - (j - r - 1)) := by
  unfold rightK leftK; ring

/-- refinement of the inner loop: with `s = j0 + q + 1`, the running variable `saved` equal to
the "left" contribution of function `j0 + r` and the unread part of column `q`, the loop
produces the rest of column `q+1`. -/
theorem nduInner_eq (t : ℕ → K) (j0 q : ℕ) (u : K) :
    ∀ (m r : ℕ), r + m = q + 1 →
      nduInner (leftK t (j0 + q + 1) u) (rightK t (j0 + q + 1) u) (q + 1) r
        ((u - t (j0 + r)) / (t (j0 + r + q + 1) - t (j0 + r)) * coxS t (j0 + q + 1) u q (j0 + r))
        ((List.range m).map (fun k => coxS t (j0 + q + 1) u q (j0 + 1 + r + k)))
      = (List.range (m + 1)).map (fun k => coxS t (j0 + q + 1) u (q + 1) (j0 + r + k)) := by
  intro m
  induction m with
  | zero =>
    intro r hr
    have hr' : r = q + 1 := by omega
    subst hr'
    have hz : coxS t (j0 + q + 1) u q (j0 + (q + 1) + 1) = 0 :=
      coxS_support t _ u q _ (by omega)
    simp [nduInner, coxS, hz]
  | succ m ih =>
    intro r hr
    rw [List.range_succ_eq_map, List.map_cons, List.map_map]
    rw [List.range_succ_eq_map (n := m + 1), List.map_cons, List.map_map]
    unfold nduInner
    simp only []
    have hidx : j0 + q + 1 - (q + 1 - r - 1) = j0 + 1 + r := by omega
    have hden : rightK t (j0 + q + 1) u r + leftK t (j0 + q + 1) u (q + 1 - r - 1)
        = t (j0 + r + q + 2) - t (j0 + 1 + r) := by
      rw [ndu_den, hidx]
      have : j0 + q + 1 + r + 1 = j0 + r + q + 2 := by omega
      rw [this]
    have hL : leftK t (j0 + q + 1) u (q + 1 - r - 1) = u - t (j0 + 1 + r) := by
      unfold leftK; rw [hidx]
    have hR : rightK t (j0 + q + 1) u r = t (j0 + r + q + 2) - u := by
      unfold rightK
      have : j0 + q + 1 + r + 1 = j0 + r + q + 2 := by omega
      rw [this]
    rw [hden, hL, hR]
    congr 1
    · -- head: value of function j0 + r of degree q+1
      simp only [Nat.add_zero, coxS]
      have e1 : j0 + r + 1 = j0 + 1 + r := by omega
      rw [e1]
      ring
    · -- tail: recursive call in the shape of the induction hypothesis for r+1
      have hih := ih (r + 1) (by omega)
      have e1 : j0 + (r + 1) = j0 + 1 + r := by omega
      have e2 : j0 + 1 + r + q + 1 = j0 + r + q + 2 := by omega
      rw [e1, e2] at hih
      have hl : (List.map ((fun k => coxS t (j0 + q + 1) u q (j0 + 1 + r + k)) ∘ Nat.succ) (List.range m))
          = List.map (fun k => coxS t (j0 + q + 1) u q (j0 + 1 + (r + 1) + k)) (List.range m) := by
        apply List.map_congr_left
        intro k _
        simp only [Function.comp, Nat.succ_eq_add_one]
        congr 1; omega
      have hr2 : (List.map ((fun k => coxS t (j0 + q + 1) u (q + 1) (j0 + r + k)) ∘ Nat.succ) (List.range (m + 1)))
          = List.map (fun k => coxS t (j0 + q + 1) u (q + 1) (j0 + 1 + r + k)) (List.range (m + 1)) := by
        apply List.map_congr_left
        intro k _
        simp only [Function.comp, Nat.succ_eq_add_one]
        congr 1; omega
      rw [hl, hr2, ← hih]
      congr 1
      simp only [Nat.add_zero]
      ring

/-- **column `j` of the `NDU` table = the Cox-de Boor values of degree `j`** of the `j+1`
functions `s-j .. s`. -/
theorem nduCol_eq (t : ℕ → K) (s : ℕ) (u : K) :
    ∀ j, j ≤ s → nduCol (leftK t s u) (rightK t s u) j
      = (List.range (j + 1)).map (fun k => coxS t s u j (s - j + k)) := by
  intro j
  induction j with
  | zero => intro _; simp [nduCol, coxS]
  | succ q ih =>
    intro hq
    obtain ⟨j0, rfl⟩ : ∃ j0, s = j0 + q + 1 := ⟨s - (q + 1), by omega⟩
    unfold nduCol
    rw [ih (by omega)]
    have h := nduInner_eq t j0 q u (q + 1) 0 (by omega)
    have hz : coxS t (j0 + q + 1) u q (j0 + 0) = 0 := coxS_support t _ u q _ (by omega)
    rw [hz, mul_zero] at h
    have e1 : j0 + q + 1 - q = j0 + 1 := by omega
    have e2 : j0 + q + 1 - (q + 1) = j0 := by omega
    rw [e1, e2]
    simpa using h

theorem nduTable_eq (L R : ℕ → K) : ∀ p,
    nduTable L R p = ((List.range (p + 1)).map (nduCol L R)).reverse := by
  intro p
  induction p with
  | zero => simp [nduTable, nduCol]
  | succ p ih =>
    unfold nduTable
    rw [ih, List.range_succ (n := p + 1), List.map_append, List.reverse_append]
    rw [List.range_succ, List.map_append, List.reverse_append]
    simp [nduCol]

theorem nduTable_head (L R : ℕ → K) (p : ℕ) : (nduTable L R p).headD [] = nduCol L R p := by
  rw [nduTable_eq, List.range_succ, List.map_append, List.reverse_append]
  simp

/-- reading the table through `nduAt`: upper triangle -/
theorem nduAt_upper (L R : ℕ → K) (p i j : ℕ) (hij : i ≤ j) (hj : j ≤ p) :
    nduAt (nduTable L R p).reverse.toArray L R i j = (nduCol L R j).getD i 0 := by
  unfold nduAt
  simp only [hij, if_true]
  rw [nduTable_eq, List.reverse_reverse]
  congr 1
  simp [Array.getD, List.getD]
  intro h; omega

/-- reading the table through `nduAt`: strict lower triangle -/
theorem nduAt_lower (cols : Array (List K)) (L R : ℕ → K) (i j : ℕ) (hij : j < i) :
    nduAt cols L R i j = R j + L (i - j - 1) := by
  unfold nduAt
  have : ¬ i ≤ j := by omega
  simp [this]

/-! ## derivative loops -/

/-- for `k > p` the body of the `k`-loop executes no assignment and yields `0`:
`r ≥ k` is false, the `j`-loop is empty (`j1 > j2`), `r ≤ pk` is false. -/
theorem dersStep_high (ndu : ℕ → ℕ → K) (p r k : ℕ) (st : DState K) (hk : p < k) (hr : r ≤ p) :
    (dersStep ndu p r k st).2 = 0 ∧ (dersStep ndu p r k st).1.a1 = st.a2
      ∧ (dersStep ndu p r k st).1.a2 = st.a1 := by
  unfold dersStep
  have h1 : ¬ (r ≥ k) := by omega
  have h3 : ¬ ((r : ℤ) ≤ (p : ℤ) - (k : ℤ)) := by omega
  simp only [h1, h3, if_false]
  have hcnt : ((if (r : ℤ) - 1 ≤ (p : ℤ) - (k : ℤ) then (k : ℤ) - 1 else (p : ℤ) - (r : ℤ)) + 1
      - (if (r : ℤ) - (k : ℤ) ≥ -1 then (1 : ℤ) else -((r : ℤ) - (k : ℤ)))).toNat = 0 := by
    split_ifs <;> omega
  rw [hcnt]
  simp [dersMid]


/-! ## more facts used by the property theorems -/

theorem getD_map_range (f : ℕ → K) (n i : ℕ) (h : i < n) :
    ((List.range n).map f).getD i 0 = f i := by
  simp [List.getD_eq_getElem?_getD, List.getElem?_map, List.getElem?_range, h]

/-- all denominators `NDU[j, r] = right[r] + left[j-r-1]` (`r < j ≤ s`) are positive: they span
the non-empty knot span `[t s, t (s+1)]` — this is why the C code may divide without a guard. -/
theorem ndu_den_pos (t : ℕ → K) (s N : ℕ) (u : K)
    (hmono : ∀ i j, i ≤ j → j < N → t i ≤ t j) (hspan : t s < t (s + 1))
    (j r : ℕ) (hr : r < j) (hj : j ≤ s) (hN : s + j < N) :
    0 < rightK t s u r + leftK t s u (j - r - 1) := by
  rw [ndu_den]
  have ha : t (s - (j - r - 1)) ≤ t s := hmono _ _ (by omega) (by omega)
  have hb : t (s + 1) ≤ t (s + r + 1) := hmono _ _ (by omega) (by omega)
  exact sub_pos.mpr (lt_of_le_of_lt ha (lt_of_lt_of_le hspan hb))

/-- value of the last active function at the right end of an open knot vector is 1 -/
theorem coxS_right_end (t : ℕ → K) (s : ℕ) (hspan : t s < t (s + 1)) :
    ∀ p, (∀ k, k ≤ p → t (s + 1 + k) = t (s + 1)) → coxS t s (t (s + 1)) p s = 1 := by
  intro p
  induction p with
  | zero => intro _; simp [coxS]
  | succ p ih =>
    intro h
    have h1 := ih (fun k hk => h k (by omega))
    have hz : coxS t s (t (s + 1)) p (s + 1) = 0 := coxS_support t s _ p _ (by omega)
    have e : t (s + p + 1) = t (s + 1) := by
      have := h p (by omega)
      rwa [show s + 1 + p = s + p + 1 by omega] at this
    have hne : t (s + 1) - t s ≠ 0 := ne_of_gt (sub_pos.mpr hspan)
    simp [coxS, h1, hz, e, div_self hne]

/-- the `k = 1` pass of the derivative loop for basis function `r`, in terms of the table -/
theorem dersStep_one (ndu : ℕ → ℕ → K) (p r : ℕ) (st : DState K) (hr : r ≤ p) (hp : 1 ≤ p)
    (ha : st.a1.getD 0 0 = 1) (hf : st.fac = p) :
    (dersStep ndu p r 1 st).2 =
      ((if 1 ≤ r then 1 / ndu p (r - 1) * ndu (r - 1) (p - 1) else 0)
        + (if r + 1 ≤ p then -1 / ndu p r * ndu r (p - 1) else 0)) * (p : K) := by
  unfold dersStep
  have hj1 : ((r : ℤ) - ((1 : ℕ) : ℤ) ≥ -1) := by omega
  have hj2 : ((r : ℤ) - 1 ≤ (p : ℤ) - ((1 : ℕ) : ℤ)) := by omega
  have hcnt : ((((1 : ℕ) : ℤ) - 1) + 1 - 1).toNat = 0 := by simp
  have e1 : ((p : ℤ) - ((1 : ℕ) : ℤ) + 1).toNat = p := by omega
  have e2 : ((r : ℤ) - ((1 : ℕ) : ℤ)).toNat = r - 1 := by omega
  have e3 : ((p : ℤ) - ((1 : ℕ) : ℤ)).toNat = p - 1 := by omega
  simp only [hj1, hj2, if_true, hcnt, dersMid, e1, e2, e3, ha, hf, Nat.sub_self]
  have hc : (((p : ℤ)) : K) = (p : K) := Int.cast_natCast p
  by_cases h1 : r ≥ 1
  · by_cases h2 : (r : ℤ) ≤ (p : ℤ) - ((1 : ℕ) : ℤ)
    · have h2' : r + 1 ≤ p := by omega
      have h1' : 1 ≤ r := h1
      simp only [h1, h2, h1', h2', if_true, hc]
    · have h2' : ¬ (r + 1 ≤ p) := by omega
      have h1' : 1 ≤ r := h1
      simp only [h1, h2, h1', h2', if_true, if_false, hc, add_zero]
  · by_cases h2 : (r : ℤ) ≤ (p : ℤ) - ((1 : ℕ) : ℤ)
    · have h2' : r + 1 ≤ p := by omega
      have h1' : ¬ (1 ≤ r) := h1
      simp only [h1, h2, h1', h2', if_true, if_false, hc, zero_add]
    · omega

/-- **`k = 1` row of A2.3 = first derivative by the derivative recursion** (step level) -/
theorem ders1_eq (t : ℕ → K) (j0 q : ℕ) (u : K) (r : ℕ) (hr : r ≤ q + 1) (st : DState K)
    (ha : st.a1.getD 0 0 = 1) (hf : st.fac = ((q + 1 : ℕ) : ℤ)) :
    (dersStep (nduAt (nduTable (leftK t (j0 + q + 1) u) (rightK t (j0 + q + 1) u) (q + 1)).reverse.toArray
        (leftK t (j0 + q + 1) u) (rightK t (j0 + q + 1) u)) (q + 1) r 1 st).2
      = dcoxS t (j0 + q + 1) u 1 (q + 1) (j0 + r) := by
  rw [dersStep_one _ (q + 1) r st hr (by omega) ha hf]
  simp only [dcoxS, Nat.add_sub_cancel]
  have hcol : ∀ i, i ≤ q →
      nduAt (nduTable (leftK t (j0 + q + 1) u) (rightK t (j0 + q + 1) u) (q + 1)).reverse.toArray
        (leftK t (j0 + q + 1) u) (rightK t (j0 + q + 1) u) i q = coxS t (j0 + q + 1) u q (j0 + 1 + i) := by
    intro i hi
    rw [nduAt_upper _ _ _ _ _ hi (by omega), nduCol_eq t _ u q (by omega), getD_map_range _ _ _ (by omega)]
    congr 1; omega
  by_cases h1 : 1 ≤ r
  · by_cases h2 : r + 1 ≤ q + 1
    · simp only [h1, h2, if_true]
      rw [nduAt_lower _ _ _ _ _ (show r - 1 < q + 1 by omega), nduAt_lower _ _ _ _ _ (show r < q + 1 by omega),
        hcol (r - 1) (by omega), hcol r (by omega), ndu_den, ndu_den]
      have a1 : j0 + q + 1 + (r - 1) + 1 = j0 + r + q + 1 := by omega
      have a2 : j0 + q + 1 - (q + 1 - (r - 1) - 1) = j0 + r := by omega
      have a3 : j0 + 1 + (r - 1) = j0 + r := by omega
      have a4 : j0 + q + 1 + r + 1 = j0 + r + q + 2 := by omega
      have a5 : j0 + q + 1 - (q + 1 - r - 1) = j0 + r + 1 := by omega
      have a6 : j0 + 1 + r = j0 + r + 1 := by omega
      rw [a1, a2, a3, a4, a5, a6]
      push_cast
      ring
    · have hrq : r = q + 1 := by omega
      subst hrq
      simp only [h1, h2, if_true, if_false, add_zero]
      have hz : coxS t (j0 + q + 1) u q (j0 + (q + 1) + 1) = 0 := coxS_support t _ u q _ (by omega)
      rw [nduAt_lower _ _ _ _ _ (show q + 1 - 1 < q + 1 by omega), hcol (q + 1 - 1) (by omega), ndu_den, hz]
      have a1 : j0 + q + 1 + (q + 1 - 1) + 1 = j0 + (q + 1) + q + 1 := by omega
      have a2 : j0 + q + 1 - (q + 1 - (q + 1 - 1) - 1) = j0 + (q + 1) := by omega
      have a3 : j0 + 1 + (q + 1 - 1) = j0 + (q + 1) := by omega
      rw [a1, a2, a3]
      push_cast
      ring
  · have hr0 : r = 0 := by omega
    subst hr0
    have h2 : 0 + 1 ≤ q + 1 := by omega
    simp only [h1, h2, if_true, if_false, zero_add]
    have hz : coxS t (j0 + q + 1) u q (j0 + 0) = 0 := coxS_support t _ u q _ (by omega)
    rw [nduAt_lower _ _ _ _ _ (show 0 < q + 1 by omega), hcol 0 (by omega), ndu_den, hz]
    have a4 : j0 + q + 1 + 0 + 1 = j0 + 0 + q + 2 := by omega
    have a5 : j0 + q + 1 - (q + 1 - 0 - 1) = j0 + 0 + 1 := by omega
    have a6 : j0 + 1 + 0 = j0 + 0 + 1 := by omega
    rw [a4, a5, a6]
    push_cast
    ring


/-! ## derivative of a spline as a spline -/

/-- Cox-de Boor on the shortened knot vector `kv[1:-1]` (accessor shifted by one) -/
theorem coxS_shift (t : ℕ → K) (s : ℕ) (u : K) :
    ∀ q i, coxS (fun k => t (k + 1)) s u q i = coxS t (s + 1) u q (i + 1) := by
  intro q
  induction q with
  | zero => intro i; simp [coxS]
  | succ q ih =>
    intro i
    have e1 : i + q + 1 + 1 = i + 1 + q + 1 := by omega
    have e2 : i + q + 2 + 1 = i + 1 + q + 2 := by omega
    simp only [coxS, ih, e1, e2]

/-- **Abel summation**: `Σ_i c_i N'_{i,p}(u) = Σ_i d_i N_{i,p-1}(u)` on the shortened knot vector with
`d_i = p (c_{i+1} - c_i)/(t_{i+p+1} - t_{i+1})`; `p = q+1`, span `s = j+q+1`, active functions `j .. j+q+1`. -/
theorem spline_derivative_sum (t : ℕ → K) (c : ℕ → K) (j q : ℕ) (u : K) :
    ∑ r ∈ Finset.range (q + 2), c (j + r) * dcoxS t (j + q + 1) u 1 (q + 1) (j + r)
      = ∑ r ∈ Finset.range (q + 1),
          (((q + 1 : ℕ) : K) / (t (q + 1 + 1 + (j + r)) - t (1 + (j + r))) * (c (j + r + 1) - c (j + r)))
            * coxS (fun k => t (k + 1)) (j + q) u q (j + r) := by
  have hA0 : coxS t (j + q + 1) u q j = 0 := coxS_support t _ u q _ (by omega)
  have hAl : coxS t (j + q + 1) u q (j + (q + 1) + 1) = 0 := coxS_support t _ u q _ (by omega)
  simp only [dcoxS]
  have hsplit : ∀ r, c (j + r) * (((q + 1 : ℕ) : K) * (coxS t (j + q + 1) u q (j + r) / (t (j + r + q + 1) - t (j + r))
        - coxS t (j + q + 1) u q (j + r + 1) / (t (j + r + q + 2) - t (j + r + 1))))
      = ((q + 1 : ℕ) : K) * (c (j + r) * (coxS t (j + q + 1) u q (j + r) / (t (j + r + q + 1) - t (j + r))))
        - ((q + 1 : ℕ) : K) * (c (j + r) * (coxS t (j + q + 1) u q (j + r + 1) / (t (j + r + q + 2) - t (j + r + 1)))) := by
    intro r; ring
  simp only [hsplit]
  rw [Finset.sum_sub_distrib, Finset.sum_range_succ', Finset.sum_range_succ _ (q + 1)]
  simp only [Nat.add_zero, hA0, hAl, zero_div, mul_zero, add_zero]
  rw [← Finset.sum_sub_distrib]
  apply Finset.sum_congr rfl
  intro r _
  rw [coxS_shift]
  have e1 : j + (r + 1) = j + r + 1 := by omega
  have e2 : j + r + 1 + q + 1 = j + r + q + 2 := by omega
  have e3 : q + 1 + 1 + (j + r) = j + r + q + 2 := by omega
  have e4 : 1 + (j + r) = j + r + 1 := by omega
  rw [e1, e2, e3, e4]
  ring


/-! ## from the loop body to the rows of the result -/

theorem dersMid_length (ndu : ℕ → ℕ → K) (a1 : List K) (pk rk : ℤ) :
    ∀ (cnt : ℕ) (j : ℤ) (a2 : List K) (d : K), (dersMid ndu a1 pk rk cnt j a2 d).1.length = a2.length := by
  intro cnt
  induction cnt with
  | zero => intro j a2 d; rfl
  | succ c ih => intro j a2 d; simp only [dersMid]; rw [ih]; simp

theorem dersStep_length (ndu : ℕ → ℕ → K) (p r k : ℕ) (st : DState K) :
    (dersStep ndu p r k st).1.a1.length = st.a2.length ∧ (dersStep ndu p r k st).1.a2.length = st.a1.length := by
  unfold dersStep
  refine ⟨?_, rfl⟩
  simp only []
  split_ifs <;> simp [dersMid_length]

theorem dersK_length (ndu : ℕ → ℕ → K) (p r L : ℕ) :
    ∀ (cnt k : ℕ) (st : DState K), st.a1.length = L → st.a2.length = L →
      (dersK ndu p r cnt k st).1.a1.length = L ∧ (dersK ndu p r cnt k st).1.a2.length = L := by
  intro cnt
  induction cnt with
  | zero => intro k st h1 h2; exact ⟨h1, h2⟩
  | succ c ih =>
    intro k st h1 h2
    have hl := dersStep_length ndu p r k st
    rcases hs : dersStep ndu p r k st with ⟨st', v⟩
    rw [hs] at hl
    have := ih (k + 1) st' (by rw [hl.1, h2]) (by rw [hl.2, h1])
    rcases hk : dersK ndu p r c (k + 1) st' with ⟨st'', vs⟩
    rw [hk] at this
    simp only [dersK, hs, hk]
    exact this

/-- element `m` of the list produced by the `k`-loop is the result of the loop body at `k + m`
for *some* state -/
theorem dersK_get (ndu : ℕ → ℕ → K) (p r : ℕ) :
    ∀ (cnt k : ℕ) (st : DState K) (m : ℕ), m < cnt →
      ∃ st', ((dersK ndu p r cnt k st).2).getD m 0 = (dersStep ndu p r (k + m) st').2 ∧ (m = 0 → st' = st) := by
  intro cnt
  induction cnt with
  | zero => intro k st m hm; omega
  | succ c ih =>
    intro k st m hm
    rcases hs : dersStep ndu p r k st with ⟨st1, v⟩
    rcases hk : dersK ndu p r c (k + 1) st1 with ⟨st2, vs⟩
    cases m with
    | zero =>
      refine ⟨st, ?_, fun _ => rfl⟩
      simp [dersK, hs, hk]
    | succ m =>
      obtain ⟨st', h1, _⟩ := ih (k + 1) st1 m (by omega)
      refine ⟨st', ?_, fun h => by omega⟩
      rw [hk] at h1
      simp only [dersK, hs, hk, List.getD_cons_succ]
      rw [h1]
      congr 2; omega

theorem dersR_length (ndu : ℕ → ℕ → K) (p nd : ℕ) :
    ∀ (cnt r : ℕ) (a1 a2 : List K), (dersR ndu p nd cnt r a1 a2).length = cnt := by
  intro cnt
  induction cnt with
  | zero => intro r a1 a2; rfl
  | succ c ih =>
    intro r a1 a2
    rcases hk : dersK ndu p r nd 1 { a1 := a1.set 0 1, a2 := a2, fac := p } with ⟨st, vs⟩
    simp [dersR, hk, ih]

/-- entry `m` of the per-function lists is the `k`-loop run for function `r + m` from a state with
`a1[0] = 1`, `fac = p` and buffers of the original length -/
theorem dersR_get (ndu : ℕ → ℕ → K) (p nd L : ℕ) (hL : 0 < L) :
    ∀ (cnt r : ℕ) (a1 a2 : List K) (m : ℕ), a1.length = L → a2.length = L → m < cnt →
      ∃ st : DState K, st.a1.getD 0 0 = 1 ∧ st.fac = (p : ℤ) ∧
        (dersR ndu p nd cnt r a1 a2).getD m [] = (dersK ndu p (r + m) nd 1 st).2 := by
  intro cnt
  induction cnt with
  | zero => intro r a1 a2 m _ _ hm; omega
  | succ c ih =>
    intro r a1 a2 m h1 h2 hm
    have hlen := dersK_length ndu p r L nd 1 { a1 := a1.set 0 1, a2 := a2, fac := p } (by simp [h1]) h2
    rcases hk : dersK ndu p r nd 1 { a1 := a1.set 0 1, a2 := a2, fac := p } with ⟨st, vs⟩
    rw [hk] at hlen
    cases m with
    | zero =>
      refine ⟨{ a1 := a1.set 0 1, a2 := a2, fac := p }, ?_, rfl, ?_⟩
      · have : 0 < a1.length := by omega
        simp [List.getD_eq_getElem?_getD, this]
      · simp [dersR, hk]
    | succ m =>
      obtain ⟨st', ha, hf, hget⟩ := ih (r + 1) st.a1 st.a2 m hlen.1 hlen.2 (by omega)
      refine ⟨st', ha, hf, ?_⟩
      simp only [dersR, hk, List.getD_cons_succ]
      rw [hget]
      congr 2; omega


/-! ## `_bspline_single_ev_single` -/

theorem cox_support (t : ℕ → K) (N : ℕ) (u : K) (hmono : ∀ i j, i ≤ j → j < N → t i ≤ t j) :
    ∀ p i, i + p + 1 < N → (u < t i ∨ t (i + p + 1) ≤ u) → cox t u p i = 0 := by
  intro p
  induction p with
  | zero =>
    intro i _ h
    unfold cox
    have : ¬ (t i ≤ u ∧ u < t (i + 1)) := by
      rintro ⟨h1, h2⟩
      rcases h with h | h
      · exact absurd (lt_of_lt_of_le h h1) (lt_irrefl _)
      · exact absurd (lt_of_lt_of_le h2 h) (lt_irrefl _)
    simp [this]
  | succ p ih =>
    intro i hi h
    have h1 : cox t u p i = 0 := by
      apply ih i (by omega)
      rcases h with h | h
      · exact Or.inl h
      · exact Or.inr (le_trans (hmono _ _ (by omega) (by omega)) h)
    have h2 : cox t u p (i + 1) = 0 := by
      apply ih (i + 1) (by omega)
      rcases h with h | h
      · exact Or.inl (lt_of_lt_of_le h (hmono _ _ (by omega) (by omega)))
      · right
        have e : i + 1 + p + 1 = i + (p + 1) + 1 := by omega
        rw [e]; exact h
    simp [cox, h1, h2]

theorem getD_set_self (l : List K) (j : ℕ) (v : K) (h : j < l.length) : (l.set j v).getD j 0 = v := by
  simp [List.getD_eq_getElem?_getD, h]

theorem getD_set_ne (l : List K) (j x : ℕ) (v : K) (h : j ≠ x) : (l.set j v).getD x 0 = l.getD x 0 := by
  simp [List.getD_eq_getElem?_getD, List.getElem?_set_ne h]

theorem singleInner_length (t : ℕ → K) (i k : ℕ) (u : K) :
    ∀ (cnt j : ℕ) (N : List K) (saved : K), (singleInner t i k u cnt j N saved).length = N.length := by
  intro cnt
  induction cnt with
  | zero => intro j N saved; rfl
  | succ c ih =>
    intro j N saved
    unfold singleInner
    simp only []
    split_ifs <;> rw [ih] <;> simp

/-- the inner loop of `_bspline_single_ev_single` turns degree-`k'` values into degree-`k'+1` values
(`k = k'+1`), in place, reading only cells it has not yet overwritten -/
theorem singleInner_spec (t : ℕ → K) (i k' : ℕ) (u : K) :
    ∀ (cnt j : ℕ) (N : List K) (saved : K),
      saved = (u - t (i + j)) * (cox t u k' (i + j) / (t (i + j + k' + 1) - t (i + j))) →
      (∀ x, j ≤ x → x ≤ j + cnt → N.getD x 0 = cox t u k' (i + x)) →
      j + cnt < N.length + 1 →
      (∀ x, j ≤ x → x < j + cnt →
          (singleInner t i (k' + 1) u cnt j N saved).getD x 0 = cox t u (k' + 1) (i + x)) ∧
      (∀ x, x < j → (singleInner t i (k' + 1) u cnt j N saved).getD x 0 = N.getD x 0) := by
  intro cnt
  induction cnt with
  | zero =>
    intro j N saved _ _ _
    exact ⟨fun x h1 h2 => by omega, fun x _ => rfl⟩
  | succ c ih =>
    intro j N saved hs hN hlen
    have hj1 : N.getD (j + 1) 0 = cox t u k' (i + (j + 1)) := hN (j + 1) (by omega) (by omega)
    have hjl : j < N.length := by omega
    -- the value written to cell j and the new `saved`, in both branches
    have hval : ∀ v s', (v = saved + (t (i + j + (k' + 1) + 1) - u) * (N.getD (j + 1) 0 / (t (i + j + (k' + 1) + 1) - t (i + j + 1)))) →
        (s' = (u - t (i + j + 1)) * (N.getD (j + 1) 0 / (t (i + j + (k' + 1) + 1) - t (i + j + 1)))) →
        (∀ x, j ≤ x → x < j + (c + 1) →
          (singleInner t i (k' + 1) u c (j + 1) (N.set j v) s').getD x 0 = cox t u (k' + 1) (i + x)) ∧
        (∀ x, x < j → (singleInner t i (k' + 1) u c (j + 1) (N.set j v) s').getD x 0 = N.getD x 0) := by
      intro v s' hv hs'
      have hs2 : s' = (u - t (i + (j + 1))) * (cox t u k' (i + (j + 1)) / (t (i + (j + 1) + k' + 1) - t (i + (j + 1)))) := by
        rw [hs', hj1]
        have e1 : i + j + 1 = i + (j + 1) := by omega
        have e2 : i + j + (k' + 1) + 1 = i + (j + 1) + k' + 1 := by omega
        rw [e1, e2]
      have hN2 : ∀ x, j + 1 ≤ x → x ≤ j + 1 + c → (N.set j v).getD x 0 = cox t u k' (i + x) := by
        intro x h1 h2
        rw [getD_set_ne N j x v (by omega)]
        exact hN x (by omega) (by omega)
      have := ih (j + 1) (N.set j v) s' hs2 hN2 (by simp; omega)
      refine ⟨?_, ?_⟩
      · intro x h1 h2
        rcases Nat.lt_or_ge j x with hx | hx
        · exact this.1 x (by omega) (by omega)
        · have hxj : x = j := by omega
          subst hxj
          rw [this.2 x (by omega), getD_set_self N x v hjl, hv, hs, hj1]
          simp only [cox]
          have e1 : i + x + k' + 2 = i + x + (k' + 1) + 1 := by omega
          have e2 : i + (x + 1) = i + x + 1 := by omega
          rw [e1, e2]
          ring
      · intro x hx
        rw [this.2 x (by omega), getD_set_ne N j x v (by omega)]
    unfold singleInner
    simp only []
    by_cases hz : N.getD (j + 1) 0 = 0
    · simp only [hz, if_true]
      exact hval saved 0 (by rw [hz]; simp) (by rw [hz]; simp)
    · simp only [hz, if_false]
      exact hval _ _ rfl rfl

theorem singleOuter_spec (t : ℕ → K) (i p : ℕ) (u : K) :
    ∀ (cnt k : ℕ) (N : List K), k + cnt = p + 1 → 1 ≤ k → N.length = p + 1 →
      (∀ x, x + k ≤ p + 1 → N.getD x 0 = cox t u (k - 1) (i + x)) →
      (singleOuter t i p u cnt k N).getD 0 0 = cox t u p i := by
  intro cnt
  induction cnt with
  | zero =>
    intro k N hk _ _ hN
    have : k = p + 1 := by omega
    subst this
    unfold singleOuter
    simpa using hN 0 (by omega)
  | succ c ih =>
    intro k N hk hk1 hlen hN
    obtain ⟨k', rfl⟩ : ∃ k', k = k' + 1 := ⟨k - 1, by omega⟩
    unfold singleOuter
    simp only []
    have h0 : N.getD 0 0 = cox t u k' (i + 0) := by simpa using hN 0 (by omega)
    have hsaved : (if N.getD 0 0 = 0 then (0 : K) else ((u - t i) * N.getD 0 0) / (t (i + (k' + 1)) - t i))
        = (u - t (i + 0)) * (cox t u k' (i + 0) / (t (i + 0 + k' + 1) - t (i + 0))) := by
      by_cases hz : N.getD 0 0 = 0
      · rw [if_pos hz, ← h0, hz]; simp
      · rw [if_neg hz, ← h0]
        simp only [Nat.add_zero]
        have e : i + (k' + 1) = i + k' + 1 := by omega
        rw [e, mul_div_assoc]
    have hin := singleInner_spec t i k' u (p - (k' + 1) + 1) 0 N _ hsaved
      (fun x _ hx => by simpa using hN x (by omega)) (by rw [hlen]; omega)
    apply ih (k' + 1 + 1) _ (by omega) (by omega) (by rw [singleInner_length]; exact hlen)
    intro x hx
    have := hin.1 x (Nat.zero_le _) (by omega)
    simpa using this

end Pyiga.BSpline
