/-
C18 helper lemmas: well-formedness of tensor objects and faithfulness (entry level) of
negation, addition and subtraction in every format.
-/
import Pyiga.Proofs.TensorBasic

set_option linter.unusedSectionVars false
set_option linter.unusedSimpArgs false

namespace Pyiga.Tensor
open Pyiga.Index

variable {α : Type} [CommRing α]

/-! ### well-formed tensor objects (what the Python constructors guarantee / assume) -/

mutual
/-- `CanonicalTensor`: at least one factor, all with `R` columns.  `TuckerTensor`: the core
has one axis per factor, of the factor's column count.  `TensorSum`: non-empty, terms of the
stored shape.  `TensorProd`: the stored shape is the concatenation. -/
def Ten.WF : Ten α → Prop
  | .full _ => True
  | .can Xs => Xs ≠ [] ∧ ∀ X ∈ Xs, X.cols = canR Xs
  | .tucker Us X => Us.map (·.cols) = X.shape
  | .sum s Xs => Xs ≠ [] ∧ WFList Xs ∧ AllShape s Xs
  | .prod s Xs => WFList Xs ∧ s = Xs.flatMap Ten.shape
def WFList : List (Ten α) → Prop
  | [] => True
  | X :: Xs => X.WF ∧ WFList Xs
def AllShape (s : List Nat) : List (Ten α) → Prop
  | [] => True
  | X :: Xs => X.shape = s ∧ AllShape s Xs
end

theorem allShape_all (s : List Nat) : ∀ (Xs : List (Ten α)), AllShape s Xs → Xs.all (fun Y => Y.shape = s) = true
  | [], _ => rfl
  | X :: Xs, h => by
    simp only [AllShape] at h
    simp only [List.all_cons, Bool.and_eq_true, decide_eq_true_eq]
    exact ⟨h.1, allShape_all s Xs h.2⟩

theorem all_allShape (s : List Nat) : ∀ (Xs : List (Ten α)), Xs.all (fun Y => Y.shape = s) = true → AllShape s Xs
  | [], _ => trivial
  | X :: Xs, h => by
    simp only [List.all_cons, Bool.and_eq_true, decide_eq_true_eq] at h
    exact ⟨h.1, all_allShape s Xs h.2⟩

/-- `mkSum` succeeds exactly on non-empty lists of equal shape and stores that shape -/
theorem mkSum_ok (Xs : List (Ten α)) (T : Ten α) (h : mkSum Xs = .ok T) :
    ∃ X Xr, Xs = X :: Xr ∧ T = .sum X.shape Xs ∧ AllShape X.shape Xs := by
  cases Xs with
  | nil => simp [mkSum] at h
  | cons X Xr =>
    simp only [mkSum] at h
    split at h
    · rename_i hall
      injection h with h
      exact ⟨X, Xr, rfl, h.symm, all_allShape _ _ hall⟩
    · cases h

theorem mkSum_of_allShape (X : Ten α) (Xr : List (Ten α)) (h : AllShape X.shape (X :: Xr)) :
    mkSum (X :: Xr) = .ok (.sum X.shape (X :: Xr)) := by
  simp only [mkSum]
  rw [if_pos (allShape_all _ _ h)]

/-! ### entry of a sum / product of tensors -/

theorem entrySum_append : ∀ (Xs Ys : List (Ten α)) (I : List Nat),
    entrySum (Xs ++ Ys) I = entrySum Xs I + entrySum Ys I
  | [], Ys, I => by simp [entrySum]
  | X :: Xs, Ys, I => by simp [entrySum, entrySum_append Xs Ys I, add_assoc]

/-! ### canonical format -/

/-- the rank-one term `r` of a canonical tensor at multi-index `I` -/
def canTerm (Xs : List (Mat α)) (I : List Nat) (r : Nat) : α :=
  prodL ((Xs.zip I).map (fun p => p.1.get p.2 r))

theorem canEntry_eq (Xs : List (Mat α)) (I : List Nat) : canEntry Xs I = sumN (canR Xs) (canTerm Xs I) := rfl

theorem canTerm_hstack_left : ∀ (X1 X2 : List (Mat α)) (I : List Nat) (R1 r : Nat),
    X1.length = X2.length → (∀ X ∈ X1, X.cols = R1) → r < R1 →
    canTerm ((X1.zip X2).map (fun p => Mat.hstack p.1 p.2)) I r = canTerm X1 I r
  | [], [], I, _, _, _, _, _ => rfl
  | A :: X1, B :: X2, [], _, _, _, _, _ => rfl
  | A :: X1, B :: X2, i :: I, R1, r, hl, hc, hr => by
    have ih := canTerm_hstack_left X1 X2 I R1 r (by simpa using hl) (fun X hX => hc X (by simp [hX])) hr
    have hA : A.cols = R1 := hc A (by simp)
    simp only [canTerm, List.zip_cons_cons, List.map_cons, prodL_cons] at ih ⊢
    rw [ih]
    simp [Mat.hstack, hA, hr]
  | [], _ :: _, _, _, _, hl, _, _ => by simp at hl
  | _ :: _, [], _, _, _, hl, _, _ => by simp at hl

theorem canTerm_hstack_right : ∀ (X1 X2 : List (Mat α)) (I : List Nat) (R1 j : Nat),
    X1.length = X2.length → (∀ X ∈ X1, X.cols = R1) →
    canTerm ((X1.zip X2).map (fun p => Mat.hstack p.1 p.2)) I (R1 + j) = canTerm X2 I j
  | [], [], I, _, _, _, _ => rfl
  | A :: X1, B :: X2, [], _, _, _, _ => rfl
  | A :: X1, B :: X2, i :: I, R1, j, hl, hc => by
    have ih := canTerm_hstack_right X1 X2 I R1 j (by simpa using hl) (fun X hX => hc X (by simp [hX]))
    have hA : A.cols = R1 := hc A (by simp)
    simp only [canTerm, List.zip_cons_cons, List.map_cons, prodL_cons] at ih ⊢
    rw [ih]
    simp [Mat.hstack, hA]
  | [], _ :: _, _, _, _, hl, _ => by simp at hl
  | _ :: _, [], _, _, _, hl, _ => by simp at hl

/-- `np.hstack` of the factor matrices adds the canonical tensors (tensor.py 803-805) -/
theorem canEntry_hstack (X1 X2 : List (Mat α)) (I : List Nat)
    (hl : X1.length = X2.length) (h1 : ∀ X ∈ X1, X.cols = canR X1) :
    canEntry ((X1.zip X2).map (fun p => Mat.hstack p.1 p.2)) I = canEntry X1 I + canEntry X2 I := by
  have hR : canR ((X1.zip X2).map (fun p => Mat.hstack p.1 p.2)) = canR X1 + canR X2 := by
    cases X1 with
    | nil => cases X2 with
      | nil => rfl
      | cons _ _ => simp at hl
    | cons A X1 => cases X2 with
      | nil => simp at hl
      | cons B X2 => rfl
  rw [canEntry_eq, hR, sumN_add, canEntry_eq, canEntry_eq]
  congr 1
  · exact sumN_congr _ _ _ (fun r hr => canTerm_hstack_left X1 X2 I _ r hl h1 hr)
  · exact sumN_congr _ _ _ (fun j _ => canTerm_hstack_right X1 X2 I _ j hl h1)

theorem canEntry_neg (X : Mat α) (Xs : List (Mat α)) (i : Nat) (I : List Nat) :
    canEntry (X.neg :: Xs) (i :: I) = - canEntry (X :: Xs) (i :: I) := by
  rw [canEntry_eq, canEntry_eq, ← sumN_neg]
  refine sumN_congr _ _ _ (fun r _ => ?_)
  simp [canTerm, Mat.neg]

/-! ### Tucker format: `join_tucker_bases` -/

theorem padEntry_cons (b a n j : Nat) (pw : List (Nat × Nat)) (s J : List Nat) (x : List Nat → α) :
    padEntry ((b, a) :: pw) (n :: s) (j :: J) x =
      if b ≤ j ∧ j < b + n then padEntry pw s J (fun K => x ((j - b) :: K)) else 0 := by
  simp [padEntry]

/-- `T1 == TuckerTensor(U, X1)`: the first tensor in the joint basis (docstring of
`join_tucker_bases`) -/
theorem join_left : ∀ (U1 U2 : List (Mat α)) (I : List Nat) (x : List Nat → α),
    U1.length = U2.length → I.length = U1.length →
    nwayEntry (((U1.zip U2).map (fun p => Mat.hstack p.1 p.2)).map some) I
        (fun J => padEntry ((U2.map (·.cols)).map (fun n => (0, n))) (U1.map (·.cols)) J x)
      = nwayEntry (U1.map some) I x
  | [], [], [], x, _, _ => by simp [nwayEntry, padEntry]
  | A :: U1, B :: U2, i :: I, x, hl, hI => by
    simp only [List.zip_cons_cons, List.map_cons, nwayEntry]
    have hc : (Mat.hstack A B).cols = A.cols + B.cols := rfl
    rw [hc, sumN_add]
    have h2 : sumN B.cols (fun j => (Mat.hstack A B).get i (A.cols + j) *
        nwayEntry (((U1.zip U2).map (fun p => Mat.hstack p.1 p.2)).map some) I
          (fun J => padEntry ((0, B.cols) :: (U2.map (·.cols)).map (fun n => (0, n))) (A.cols :: U1.map (·.cols))
            ((A.cols + j) :: J) x)) = 0 := by
      refine sumN_eq_zero _ _ (fun j _ => ?_)
      have : (fun J => padEntry ((0, B.cols) :: (U2.map (·.cols)).map (fun n => (0, n))) (A.cols :: U1.map (·.cols))
            ((A.cols + j) :: J) x) = fun _ => 0 := by
        funext J; rw [padEntry_cons]; simp
      rw [this, nwayEntry_zero]; ring
    rw [h2, add_zero]
    refine sumN_congr _ _ _ (fun j hj => ?_)
    have : (fun J => padEntry ((0, B.cols) :: (U2.map (·.cols)).map (fun n => (0, n))) (A.cols :: U1.map (·.cols))
          (j :: J) x) = fun J => padEntry ((U2.map (·.cols)).map (fun n => (0, n))) (U1.map (·.cols)) J (fun K => x (j :: K)) := by
      funext J; rw [padEntry_cons]; simp [hj]
    rw [this, join_left U1 U2 I (fun K => x (j :: K)) (by simpa using hl) (by simpa using hI)]
    simp [Mat.hstack, hj]
  | [], _ :: _, _, _, hl, _ => by simp at hl
  | _ :: _, [], _, _, hl, _ => by simp at hl
  | [], [], _ :: _, _, _, hI => by simp at hI
  | _ :: _, _ :: _, [], _, _, hI => by simp at hI

/-- `T2 == TuckerTensor(U, X2)` -/
theorem join_right : ∀ (U1 U2 : List (Mat α)) (I : List Nat) (x : List Nat → α),
    U1.length = U2.length → I.length = U1.length →
    nwayEntry (((U1.zip U2).map (fun p => Mat.hstack p.1 p.2)).map some) I
        (fun J => padEntry ((U1.map (·.cols)).map (fun n => (n, 0))) (U2.map (·.cols)) J x)
      = nwayEntry (U2.map some) I x
  | [], [], [], x, _, _ => by simp [nwayEntry, padEntry]
  | A :: U1, B :: U2, i :: I, x, hl, hI => by
    simp only [List.zip_cons_cons, List.map_cons, nwayEntry]
    have hc : (Mat.hstack A B).cols = A.cols + B.cols := rfl
    rw [hc, sumN_add]
    have h1 : sumN A.cols (fun j => (Mat.hstack A B).get i j *
        nwayEntry (((U1.zip U2).map (fun p => Mat.hstack p.1 p.2)).map some) I
          (fun J => padEntry ((A.cols, 0) :: (U1.map (·.cols)).map (fun n => (n, 0))) (B.cols :: U2.map (·.cols))
            (j :: J) x)) = 0 := by
      refine sumN_eq_zero _ _ (fun j hj => ?_)
      have : (fun J => padEntry ((A.cols, 0) :: (U1.map (·.cols)).map (fun n => (n, 0))) (B.cols :: U2.map (·.cols))
            (j :: J) x) = fun _ => 0 := by
        funext J; rw [padEntry_cons]; simp; omega
      rw [this, nwayEntry_zero]; ring
    rw [h1, zero_add]
    refine sumN_congr _ _ _ (fun j hj => ?_)
    have : (fun J => padEntry ((A.cols, 0) :: (U1.map (·.cols)).map (fun n => (n, 0))) (B.cols :: U2.map (·.cols))
          ((A.cols + j) :: J) x) = fun J => padEntry ((U1.map (·.cols)).map (fun n => (n, 0))) (U2.map (·.cols)) J (fun K => x (j :: K)) := by
      funext J; rw [padEntry_cons]; simp [hj]
    rw [this, join_right U1 U2 I (fun K => x (j :: K)) (by simpa using hl) (by simpa using hI)]
    simp [Mat.hstack]
  | [], _ :: _, _, _, hl, _ => by simp at hl
  | _ :: _, [], _, _, hl, _ => by simp at hl
  | [], [], _ :: _, _, _, hI => by simp at hI
  | _ :: _, _ :: _, [], _, _, hI => by simp at hI

end Pyiga.Tensor
