/-
C03, part 2: index structure of the canonical index lists of `HDiscretization.assemble_matrix`
(G1), the unique block that writes an entry (G2), coverage of the representation by
`interlevel_ix` (G3), and the inter-level entry as the full Galerkin sum with the neighbour
coverage as the only support hypothesis (G4).
-/
import Pyiga.Proofs.HAssemble
import Pyiga.Proofs.Transfer
import Pyiga.Proofs.ProlongateTo
import Mathlib.Data.List.Range

namespace Pyiga.HAsm
open Pyiga.Transfer Finset

set_option linter.unusedSectionVars false
set_option linter.unusedVariables false

variable {K : Type} [CommRing K] [DecidableEq K]

/-! ## G1: index structure -/

theorem off_eq_ntb (X : Input K) (l : Nat) : X.off l = X.H.ntb l := HSp.off_eq X.H l

theorem off_succ (X : Input K) (l : Nat) : X.off (l + 1) = X.off l + (X.H.ia l).length := by
  rw [off_eq_ntb, off_eq_ntb, HSp.ntb_succ]

theorem off_mono (X : Input K) {a b : Nat} (h : a ≤ b) : X.off a ≤ X.off b := by
  rw [off_eq_ntb, off_eq_ntb]; exact X.H.ntb_mono h

theorem off_succ_le (X : Input K) {a b : Nat} (h : a < b) :
    X.off a + (X.H.ia a).length ≤ X.off b := by
  rw [← off_succ]; exact off_mono X h

/-- a canonical index determines its level and its position -/
theorem off_locate (X : Input K) {l l' a a' : Nat} (ha : a < (X.H.ia l).length)
    (ha' : a' < (X.H.ia l').length) (h : X.off l + a = X.off l' + a') : l = l' ∧ a = a' := by
  rcases Nat.lt_trichotomy l l' with hlt | heq | hgt
  · have := off_succ_le X hlt; omega
  · subst heq; exact ⟨rfl, by omega⟩
  · have := off_succ_le X hgt; omega

theorem newCan_length (X : Input K) (k : Nat) : (X.newCan k).length = (X.H.ia k).length := by
  simp [Input.newCan]

theorem newCan_getD (X : Input K) (k : Nat) {a : Nat} (ha : a < (X.H.ia k).length) :
    (X.newCan k).getD a 0 = X.off k + a := by
  unfold Input.newCan
  rw [List.getD_eq_getElem?_getD, List.getElem?_map, List.getElem?_range ha]
  simp [Nat.add_comm]

theorem mem_newCan (X : Input K) (k y : Nat) :
    y ∈ X.newCan k ↔ ∃ a, a < (X.H.ia k).length ∧ y = X.off k + a := by
  unfold Input.newCan
  simp only [List.mem_map, List.mem_range]
  constructor
  · rintro ⟨a, ha, rfl⟩; exact ⟨a, ha, Nat.add_comm _ _⟩
  · rintro ⟨a, ha, rfl⟩; exact ⟨a, ha, Nat.add_comm _ _⟩

/-- every entry of `new[k]` lies in the index range of level `k` -/
theorem newCan_range (X : Input K) (k y : Nat) (h : y ∈ X.newCan k) :
    X.off k ≤ y ∧ y < X.off (k + 1) := by
  obtain ⟨a, ha, rfl⟩ := (mem_newCan X k y).1 h
  rw [off_succ]; omega

theorem injOn_of_nodup {l : List Nat} (h : l.Nodup) : InjOn l l.length := by
  intro a a' ha ha' he
  rw [List.getD_eq_getElem _ _ ha, List.getD_eq_getElem _ _ ha'] at he
  exact (List.Nodup.getElem_inj_iff h).1 he

theorem newCan_injOn (X : Input K) (k : Nat) : InjOn (X.newCan k) (X.H.ia k).length := by
  intro a a' ha ha' he
  rw [newCan_getD X k ha, newCan_getD X k ha'] at he
  omega

theorem mem_neighborsCan (X : Input K) (k y : Nat) :
    y ∈ X.neighborsCan k ↔
      ∃ l, l < k ∧ ∃ x, x ∈ X.nbrs k l ∧ y = X.off l + (X.H.ia l).idxOf x := by
  unfold Input.neighborsCan positionIndex
  simp only [List.mem_flatMap, List.mem_map, List.mem_range]
  constructor
  · rintro ⟨l, hl, _, ⟨x, hx, rfl⟩, rfl⟩; exact ⟨l, hl, x, hx, Nat.add_comm _ _⟩
  · rintro ⟨l, hl, x, hx, rfl⟩; exact ⟨l, hl, _, ⟨x, hx, rfl⟩, Nat.add_comm _ _⟩

/-- under `hnb` every entry of `neighbors[k]` is an index of a level below `k` -/
theorem neighborsCan_lt (X : Input K) (k : Nat)
    (hnb : ∀ l, l < k → ∀ x ∈ X.nbrs k l, x ∈ X.H.ia l) (y : Nat) (h : y ∈ X.neighborsCan k) :
    y < X.off k := by
  obtain ⟨l, hl, x, hx, rfl⟩ := (mem_neighborsCan X k y).1 h
  have h1 := List.idxOf_lt_length_iff.2 (hnb l hl x hx)
  have := off_succ_le X hl
  omega

theorem neighborsCan_nodup (X : Input K) (k : Nat)
    (hnb : ∀ l, l < k → ∀ x ∈ X.nbrs k l, x ∈ X.H.ia l)
    (hnd : ∀ l, l < k → (X.nbrs k l).Nodup) : (X.neighborsCan k).Nodup := by
  unfold Input.neighborsCan
  rw [List.nodup_flatMap]
  constructor
  · intro l hl
    have hl' : l < k := List.mem_range.1 hl
    unfold positionIndex
    rw [List.map_map]
    refine List.Nodup.map_on ?_ (hnd l hl')
    intro x hx y hy hxy
    have : (X.H.ia l).idxOf x = (X.H.ia l).idxOf y := by
      simp only [Function.comp] at hxy; omega
    exact (List.idxOf_inj (hnb l hl' x hx)).1 this
  · refine List.Pairwise.imp_of_mem ?_ (List.pairwise_lt_range (n := k))
    intro l l' hl hl' hlt
    have hlk : l < k := List.mem_range.1 hl
    have hlk' : l' < k := List.mem_range.1 hl'
    show List.Disjoint _ _
    intro y hy hy'
    unfold positionIndex at hy hy'
    simp only [List.mem_map] at hy hy'
    obtain ⟨_, ⟨x, hx, rfl⟩, rfl⟩ := hy
    obtain ⟨_, ⟨x', hx', rfl⟩, he⟩ := hy'
    have h1 := List.idxOf_lt_length_iff.2 (hnb l hlk x hx)
    have := off_succ_le X hlt
    omega

theorem neighborsCan_injOn (X : Input K) (k : Nat)
    (hnb : ∀ l, l < k → ∀ x ∈ X.nbrs k l, x ∈ X.H.ia l)
    (hnd : ∀ l, l < k → (X.nbrs k l).Nodup) :
    InjOn (X.neighborsCan k) (X.neighborsCan k).length :=
  injOn_of_nodup (neighborsCan_nodup X k hnb hnd)

/-- the coarse dof `off lv + q` is listed in `neighbors[k]` iff its raveled index is in
`cell_supp_indices[k][lv]` -/
theorem neighborsCan_of_mem (X : Input K) {k lv q : Nat} (hlv : lv < k)
    (hnd : (X.H.ia lv).Nodup) (hq : q < (X.H.ia lv).length)
    (hx : (X.H.ia lv).getD q 0 ∈ X.nbrs k lv) : X.off lv + q ∈ X.neighborsCan k := by
  refine (mem_neighborsCan X k _).2 ⟨lv, hlv, _, hx, ?_⟩
  rw [idxOf_getD hnd hq]

theorem mem_of_neighborsCan (X : Input K) {k lv q : Nat}
    (hnb : ∀ l, l < k → ∀ x ∈ X.nbrs k l, x ∈ X.H.ia l) (hq : q < (X.H.ia lv).length)
    (h : X.off lv + q ∈ X.neighborsCan k) : lv < k ∧ (X.H.ia lv).getD q 0 ∈ X.nbrs k lv := by
  obtain ⟨l, hl, x, hx, he⟩ := (mem_neighborsCan X k _).1 h
  have hxa := hnb l hl x hx
  have h1 := List.idxOf_lt_length_iff.2 hxa
  obtain ⟨rfl, rfl⟩ := off_locate X hq h1 he
  exact ⟨hl, by rw [getD_idxOf hxa]; exact hx⟩

theorem getD_of_mem {l : List Nat} {y : Nat} (h : y ∈ l) : ∃ n, n < l.length ∧ l.getD n 0 = y := by
  obtain ⟨n, hn, rfl⟩ := List.mem_iff_getElem.1 h
  exact ⟨n, hn, List.getD_eq_getElem _ _ hn⟩

/-! ## G2: the unique block that writes `(i,j)` -/

/-- the inputs of the level-`k` blocks as the model computes them -/
def Ak' (X : Input K) (k : Nat) : Mat K := ((X.Ak k).keepRows (X.toAssemble k)).freeze
def I' (X : Input K) (k : Nat) : Mat K :=
  (X.H.representFine k false (some (X.toAssemble k)) false).freeze

def Inb (X : Input K) (k : Nat) : Mat K :=
  (((I' X k).selRows (X.interlevelIx k)).selCols (X.neighborsCan k)).freeze
def Inew (X : Input K) (k : Nat) : Mat K :=
  (((I' X k).selRows (X.H.ia k)).selCols (X.newCan k)).freeze

/-- the three tabulated blocks of level `k` -/
def blkD (X : Input K) (k : Nat) : Mat K := ((Ak' X k).selRows (X.H.ia k)).selCols (X.H.ia k)
def blkE (X : Input K) (k : Nat) : Mat K :=
  (((Inb X k).transpose.mul (((Ak' X k).selRows (X.interlevelIx k)).selCols (X.H.ia k)).freeze).freeze.mul
    (Inew X k)).freeze
def blkE2 (X : Input K) (k : Nat) : Mat K :=
  if X.symmetric then (blkE X k).transpose
  else (((Inew X k).transpose.mul (((Ak' X k).selRows (X.H.ia k)).selCols (X.interlevelIx k)).freeze).freeze.mul
    (Inb X k)).freeze

theorem levelBlocks_eq (X : Input K) (k : Nat) :
    X.levelBlocks k = [(blkD X k, X.newCan k, X.newCan k), (blkE X k, X.neighborsCan k, X.newCan k),
      (blkE2 X k, X.newCan k, X.neighborsCan k)] := rfl

/-- the contribution of the three blocks of level `k` to the entry `(i,j)` -/
def contrib (X : Input K) (k i j : Nat) : K :=
  ((X.levelBlocks k).map fun (B, r, c) => Input.scatterGet B r c i j).foldl (· + ·) 0

theorem hbEntry_eq_sum (X : Input K) (i j : Nat) :
    X.hbEntry i j = ∑ k ∈ range X.H.numlevels, contrib X k i j := by
  unfold Input.hbEntry
  rw [sumRange_eq_sum']
  rfl

theorem contrib_eq (X : Input K) (k i j : Nat) :
    contrib X k i j =
      Input.scatterGet (blkD X k) (X.newCan k) (X.newCan k) i j
      + Input.scatterGet (blkE X k) (X.neighborsCan k) (X.newCan k) i j
      + Input.scatterGet (blkE2 X k) (X.newCan k) (X.neighborsCan k) i j := by
  unfold contrib
  rw [levelBlocks_eq]
  simp only [List.map_cons, List.map_nil, List.foldl_cons, List.foldl_nil, zero_add]

@[simp] theorem blkD_m (X : Input K) (k : Nat) : (blkD X k).m = (X.H.ia k).length := rfl
@[simp] theorem blkD_n (X : Input K) (k : Nat) : (blkD X k).n = (X.H.ia k).length := rfl
@[simp] theorem blkE_m (X : Input K) (k : Nat) : (blkE X k).m = (X.neighborsCan k).length := rfl
@[simp] theorem blkE_n (X : Input K) (k : Nat) : (blkE X k).n = (X.newCan k).length := rfl
theorem blkE2_m (X : Input K) (k : Nat) : (blkE2 X k).m = (X.newCan k).length := by
  unfold blkE2; split_ifs <;> rfl
theorem blkE2_n (X : Input K) (k : Nat) : (blkE2 X k).n = (X.neighborsCan k).length := by
  unfold blkE2; split_ifs <;> rfl

/-- `new[k']` does not contain a dof of another level -/
theorem newCan_miss (X : Input K) {k' l a : Nat} (ha : a < (X.H.ia l).length) (hne : k' ≠ l) :
    ∀ a', a' < (X.H.ia k').length → (X.newCan k').getD a' 0 ≠ X.off l + a := by
  intro a' ha' he
  rw [newCan_getD X k' ha'] at he
  exact hne (off_locate X ha' ha he).1

/-- `neighbors[k']` does not contain a dof of a level `≥ k'` -/
theorem neighborsCan_miss (X : Input K) {k' l a : Nat}
    (hnb : ∀ l, l < k' → ∀ x ∈ X.nbrs k' l, x ∈ X.H.ia l) (hle : k' ≤ l) :
    ∀ n, n < (X.neighborsCan k').length → (X.neighborsCan k').getD n 0 ≠ X.off l + a := by
  intro n hn he
  have h1 := neighborsCan_lt X k' hnb _ (getD_mem hn)
  have := off_mono X hle
  omega

section G2
variable (X : Input K) (hnb : ∀ k l, l < k → ∀ x ∈ X.nbrs k l, x ∈ X.H.ia l)
  {ki kj a b : Nat} (ha : a < (X.H.ia ki).length) (hb : b < (X.H.ia kj).length)
include hnb ha hb

theorem scatD_zero (k' : Nat) (h : k' ≠ ki ∨ k' ≠ kj) :
    Input.scatterGet (blkD X k') (X.newCan k') (X.newCan k') (X.off ki + a) (X.off kj + b) = 0 := by
  rcases h with h | h
  · exact scatterGet_miss_row _ _ _ _ _ (newCan_miss X ha h)
  · exact scatterGet_miss_col _ _ _ _ _ (newCan_miss X hb h)

theorem scatE_zero (k' : Nat) (h : k' ≠ kj ∨ kj ≤ ki) :
    Input.scatterGet (blkE X k') (X.neighborsCan k') (X.newCan k') (X.off ki + a) (X.off kj + b) = 0 := by
  by_cases h1 : k' = kj
  · subst h1
    have hle : k' ≤ ki := by omega
    exact scatterGet_miss_row _ _ _ _ _ (neighborsCan_miss X (hnb k') hle)
  · refine scatterGet_miss_col _ _ _ _ _ ?_
    rw [blkE_n, newCan_length]
    exact newCan_miss X hb h1

theorem scatE2_zero (k' : Nat) (h : k' ≠ ki ∨ ki ≤ kj) :
    Input.scatterGet (blkE2 X k') (X.newCan k') (X.neighborsCan k') (X.off ki + a) (X.off kj + b) = 0 := by
  by_cases h1 : k' = ki
  · subst h1
    have hle : k' ≤ kj := by omega
    refine scatterGet_miss_col _ _ _ _ _ ?_
    rw [blkE2_n]
    exact neighborsCan_miss X (hnb k') hle
  · refine scatterGet_miss_row _ _ _ _ _ ?_
    rw [blkE2_m, newCan_length]
    exact newCan_miss X ha h1

/-- levels other than `max ki kj` write nothing at `(i,j)` -/
theorem contrib_zero (k' : Nat) (h : k' ≠ max ki kj) :
    contrib X k' (X.off ki + a) (X.off kj + b) = 0 := by
  rw [contrib_eq, scatD_zero X hnb ha hb k' (by omega), scatE_zero X hnb ha hb k' (by omega),
    scatE2_zero X hnb ha hb k' (by omega)]
  simp

/-- **G2**: the entry `(i,j)` is written on level `max ki kj` only -/
theorem hbEntry_eq_contrib (hki : ki < X.H.numlevels) (hkj : kj < X.H.numlevels) :
    X.hbEntry (X.off ki + a) (X.off kj + b) = contrib X (max ki kj) (X.off ki + a) (X.off kj + b) := by
  rw [hbEntry_eq_sum]
  refine Finset.sum_eq_single (max ki kj) ?_ ?_
  · intro k' _ hne
    exact contrib_zero X hnb ha hb k' hne
  · intro h
    exact absurd (Finset.mem_range.2 (by omega)) h

/-- same level: only the diagonal block contributes -/
theorem hbEntry_same (hki : ki < X.H.numlevels) (hk : ki = kj) :
    X.hbEntry (X.off ki + a) (X.off kj + b)
      = Input.scatterGet (blkD X ki) (X.newCan ki) (X.newCan ki) (X.off ki + a) (X.off kj + b) ∧
    Input.scatterGet (blkE X ki) (X.neighborsCan ki) (X.newCan ki) (X.off ki + a) (X.off kj + b) = 0 ∧
    Input.scatterGet (blkE2 X ki) (X.newCan ki) (X.neighborsCan ki) (X.off ki + a) (X.off kj + b) = 0 := by
  have hE := scatE_zero X hnb ha hb ki (by omega)
  have hE2 := scatE2_zero X hnb ha hb ki (by omega)
  refine ⟨?_, hE, hE2⟩
  rw [hbEntry_eq_contrib X hnb ha hb hki (hk ▸ hki), show max ki kj = ki by omega, contrib_eq, hE, hE2]
  simp

/-- row dof coarser than column dof: only `A_hb_interlevel` of level `kj` contributes -/
theorem hbEntry_lt (hkj : kj < X.H.numlevels) (hk : ki < kj) :
    X.hbEntry (X.off ki + a) (X.off kj + b)
      = Input.scatterGet (blkE X kj) (X.neighborsCan kj) (X.newCan kj) (X.off ki + a) (X.off kj + b) ∧
    Input.scatterGet (blkD X kj) (X.newCan kj) (X.newCan kj) (X.off ki + a) (X.off kj + b) = 0 ∧
    Input.scatterGet (blkE2 X kj) (X.newCan kj) (X.neighborsCan kj) (X.off ki + a) (X.off kj + b) = 0 := by
  have hD := scatD_zero X hnb ha hb kj (by omega)
  have hE2 := scatE2_zero X hnb ha hb kj (by omega)
  refine ⟨?_, hD, hE2⟩
  rw [hbEntry_eq_contrib X hnb ha hb (by omega) hkj, show max ki kj = kj by omega, contrib_eq, hD, hE2]
  simp

/-- row dof finer than column dof: only `A_hb_interlevel2` of level `ki` contributes -/
theorem hbEntry_gt (hki : ki < X.H.numlevels) (hk : kj < ki) :
    X.hbEntry (X.off ki + a) (X.off kj + b)
      = Input.scatterGet (blkE2 X ki) (X.newCan ki) (X.neighborsCan ki) (X.off ki + a) (X.off kj + b) ∧
    Input.scatterGet (blkD X ki) (X.newCan ki) (X.newCan ki) (X.off ki + a) (X.off kj + b) = 0 ∧
    Input.scatterGet (blkE X ki) (X.neighborsCan ki) (X.newCan ki) (X.off ki + a) (X.off kj + b) = 0 := by
  have hD := scatD_zero X hnb ha hb ki (by omega)
  have hE := scatE_zero X hnb ha hb ki (by omega)
  refine ⟨?_, hD, hE⟩
  rw [hbEntry_eq_contrib X hnb ha hb hki (by omega), show max ki kj = ki by omega, contrib_eq, hD, hE]
  simp

end G2

/-! ## G3: `interlevel_ix` covers the representation -/

theorem mem_children (X : Input K) (lv : Nat) (funcs : List Nat) (s : Nat) :
    s ∈ X.children lv funcs ↔ s < X.H.Nl (lv + 1) ∧ ∃ r ∈ funcs, (X.H.Tl lv).f s r ≠ 0 := by
  unfold Input.children
  simp only [List.mem_filter, List.mem_range, List.any_eq_true, decide_eq_true_eq]

/-- (b) `function_children` is monotone in the function list -/
theorem children_mono (X : Input K) (lv : Nat) {f f' : List Nat} (h : ∀ x ∈ f, x ∈ f') :
    ∀ s ∈ X.children lv f, s ∈ X.children lv f' := by
  intro s hs
  rw [mem_children] at hs ⊢
  obtain ⟨h1, r, hr, h2⟩ := hs
  exact ⟨h1, r, h r hr, h2⟩

/-- (b) `function_grandchildren` is monotone in the function list -/
theorem grandchildren_mono (X : Input K) : ∀ (d lv : Nat) {f f' : List Nat}, (∀ x ∈ f, x ∈ f') →
    ∀ s ∈ X.grandchildren d lv f, s ∈ X.grandchildren d lv f'
  | 0, _, _, _, h => h
  | d + 1, lv, _, _, h => grandchildren_mono X d (lv + 1) (children_mono X lv h)

theorem sum_ne_zero_exists {n : Nat} {g : Nat → K} (h : ∑ s ∈ range n, g s ≠ 0) :
    ∃ s, s < n ∧ g s ≠ 0 := by
  by_contra hc
  apply h
  refine Finset.sum_eq_zero fun s hs => ?_
  by_contra h0
  exact hc ⟨s, Finset.mem_range.1 hs, h0⟩

/-- (a) a nonzero entry `(r,x)` of `T_{k-1} ⋯ T_{k-d}` makes `r` a grand-child (on level `k`) of the
level-`(k-d)` function `x` -/
theorem tpUp'_support (X : Input K) (hwf : X.H.WF) {k : Nat} (hk : k < X.H.numlevels) :
    ∀ (d : Nat), d ≤ k → ∀ (r x : Nat), r < X.H.Nl k → (X.H.tpUp' k d).f r x ≠ 0 →
      r ∈ X.grandchildren d (k - d) [x]
  | 0, _, r, x, _, h => by
      have h' : (if r = x then (1 : K) else 0) ≠ 0 := h
      have : r = x := by
        by_contra hne
        exact h' (if_neg hne)
      subst this
      exact List.mem_singleton.2 rfl
  | d + 1, hd, r, x, hr, h => by
      rw [HSp.tpUp'_succ, Mat.mul_f, HSp.tpUp'_n X.H hwf hk (by omega)] at h
      obtain ⟨s, hs, hne⟩ := sum_ne_zero_exists h
      have h1 : (X.H.tpUp' k d).f r s ≠ 0 := fun h0 => hne (by rw [h0, zero_mul])
      have h2 : (X.H.Tl (k - (d + 1))).f s x ≠ 0 := fun h0 => hne (by rw [h0, mul_zero])
      have ih := tpUp'_support X hwf hk d (by omega) r s hr h1
      have hidx : k - (d + 1) + 1 = k - d := by omega
      have hs' : s ∈ X.children (k - (d + 1)) [x] := by
        rw [mem_children, hidx]
        exact ⟨hs, x, List.mem_singleton.2 rfl, h2⟩
      show r ∈ X.grandchildren d (k - (d + 1) + 1) (X.children (k - (d + 1)) [x])
      rw [hidx]
      refine grandchildren_mono X d (k - d) ?_ r ih
      intro y hy
      rw [List.mem_singleton.1 hy]
      exact hs'

theorem mem_interlevelIx (X : Input K) (k r : Nat) :
    r ∈ X.interlevelIx k ↔ r < X.H.Nl k ∧
      ∃ lv, lv < k ∧ X.firstLevel k ≤ lv ∧ r ∈ X.grandchildren (k - lv) lv (X.nbrs k lv) := by
  unfold Input.interlevelIx
  simp only [List.mem_filter, List.mem_range]
  constructor
  · rintro ⟨hr, h⟩
    refine ⟨hr, ?_⟩
    rw [pos?_invArr _ _ _ hr] at h
    split_ifs at h with hm
    · simp only [List.mem_flatMap, List.mem_filter, List.mem_range, decide_eq_true_eq] at hm
      obtain ⟨lv, ⟨h1, h2⟩, h3⟩ := hm
      exact ⟨lv, h1, h2, h3⟩
    · simp at h
  · rintro ⟨hr, lv, h1, h2, h3⟩
    refine ⟨hr, ?_⟩
    rw [pos?_invArr _ _ _ hr, if_pos]
    · rfl
    · simp only [List.mem_flatMap, List.mem_filter, List.mem_range, decide_eq_true_eq]
      exact ⟨lv, ⟨h1, h2⟩, h3⟩

/-- (c) every level-`k` function that occurs in the representation of a listed neighbour of an
admissible level lies in `interlevel_ix[k]` -/
theorem interlevelIx_covers (X : Input K) (hwf : X.H.WF) {k lv q r : Nat} (hk : k < X.H.numlevels)
    (hlv : lv < k) (hfl : X.firstLevel k ≤ lv) (hq : q < (X.H.ia lv).length)
    (hx : (X.H.ia lv).getD q 0 ∈ X.nbrs k lv) (hr : r < X.H.Nl k)
    (hne : (X.H.representFine k false none false).f r (X.H.ntb lv + q) ≠ 0) :
    r ∈ X.interlevelIx k := by
  have hact : X.H.actv k lv = X.H.ia lv := HSp.actv_of_lt X.H hlv
  rw [HSp.representFine_closed X.H k lv (by omega) r q (by rw [hact]; exact hq), hact] at hne
  have hE := HSp.tpUp_eqv X.H k (k - lv)
  have hxN : (X.H.ia lv).getD q 0 < X.H.Nl lv := hwf.ia_getD_lt (by omega) hq
  have hm : (X.H.tpUp k (k - lv)).m = X.H.Nl k := by rw [hE.1, HSp.tpUp'_m]
  have hn : (X.H.tpUp k (k - lv)).n = X.H.Nl lv := by
    rw [hE.2.1, HSp.tpUp'_n X.H hwf hk (by omega)]; congr 1; omega
  rw [hE.2.2 r (by rw [hm]; exact hr) _ (by rw [hn]; exact hxN)] at hne
  have hg := tpUp'_support X hwf hk (k - lv) (by omega) r _ hr hne
  rw [show k - (k - lv) = lv by omega] at hg
  refine (mem_interlevelIx X k r).2 ⟨hr, lv, hlv, hfl, ?_⟩
  refine grandchildren_mono X (k - lv) lv ?_ r hg
  intro y hy
  rw [List.mem_singleton.1 hy]
  exact hx

/-! ## G4: the inter-level entries are the full Galerkin sums -/

/-- `interlevel_ix[k]` is a duplicate-free list of level-`k` tensor-product indices -/
theorem interlevelIx_lt (X : Input K) (k r : Nat) (h : r ∈ X.interlevelIx k) : r < X.H.Nl k :=
  ((mem_interlevelIx X k r).1 h).1

theorem interlevelIx_nodup (X : Input K) (k : Nat) : (X.interlevelIx k).Nodup := by
  unfold Input.interlevelIx
  exact List.Nodup.filter _ List.nodup_range

theorem mem_toAssemble (X : Input K) (k r : Nat) :
    r ∈ X.toAssemble k ↔ r < X.H.Nl k ∧ (r ∈ X.interlevelIx k ∨ r ∈ X.H.ia k) := by
  unfold Input.toAssemble
  simp only [List.mem_filter, List.mem_range, Bool.or_eq_true]
  constructor
  · rintro ⟨hr, h⟩
    rw [pos?_invArr _ _ _ hr, pos?_invArr _ _ _ hr] at h
    refine ⟨hr, ?_⟩
    rcases h with h | h
    · left; by_contra hm; rw [if_neg hm] at h; simp at h
    · right; by_contra hm; rw [if_neg hm] at h; simp at h
  · rintro ⟨hr, h⟩
    refine ⟨hr, ?_⟩
    rw [pos?_invArr _ _ _ hr, pos?_invArr _ _ _ hr]
    rcases h with h | h
    · left; rw [if_pos h]; rfl
    · right; rw [if_pos h]; rfl

/-- `represent_fine(k, rows=…)` as the matrix-level loop (shape bookkeeping only) -/
theorem repF_rows_eq (H : HSp K) (lv : Nat) (rows : List Nat) :
    H.representFine lv false (some rows) false
      = H.repLoopM lv lv ((Mat.id (H.Nl lv)).keepRows rows)
          (((Mat.id (H.Nl lv)).keepRows rows).selCols (H.ir lv)) := by
  show Mat.hcatList _ (H.repLoop lv false lv ((Mat.id (H.Nl lv)).keepRows rows)
    [((Mat.id (H.Nl lv)).keepRows rows).selCols (H.actv lv lv)]) = _
  rw [HSp.hcatList_repLoop H lv _ lv _ _ (List.cons_ne_nil _ _), HSp.actv_self]
  rfl

theorem repF_rows_m (H : HSp K) (lv : Nat) (rows : List Nat) :
    (H.representFine lv false (some rows) false).m = H.Nl lv := by
  rw [repF_rows_eq]
  refine (HSp.repLoopM_m H lv lv _ _ ?_).trans ?_ <;> rfl

theorem repF_rows_n (H : HSp K) (lv : Nat) (rows : List Nat) :
    (H.representFine lv false (some rows) false).n = (H.representFine lv false none false).n := by
  rw [repF_rows_eq, HSp.repLoopM_n H lv lv (le_refl _), HSp.repF_n]; rfl

/-- the rows-variant of `represent_fine`: only the listed rows are kept (proved below: `rowsSpec`) -/
def RowsSpec (H : HSp K) (k : Nat) (rows : List Nat) : Prop :=
  ∀ i j, i < H.Nl k → j < (H.representFine k false none false).n →
    (H.representFine k false (some rows) false).f i j
      = if i ∈ rows then (H.representFine k false none false).f i j else 0

/-- two runs of the `represent_fine` loop whose carried matrices differ by the row mask `rows`
produce results that differ by the row mask -/
theorem repLoopM_rows (H : HSp K) (hwf : H.WF) (lv : Nat) (hlv : lv < H.numlevels) (rows : List Nat) :
    ∀ (k : Nat), k ≤ lv → ∀ (P' P M' M : Mat K) (c : Nat),
      P'.n = P.n → P.n = H.Nl k → P'.m = H.Nl lv → P.m = H.Nl lv →
      (∀ i < H.Nl lv, ∀ j < P.n, P'.f i j = if i ∈ rows then P.f i j else 0) →
      (∀ i < H.Nl lv, ∀ j < c, M'.f i j = if i ∈ rows then M.f i j else 0) →
      ∀ i < H.Nl lv, ∀ j < H.ntb k + c,
        (H.repLoopM lv k P' M').f i j = if i ∈ rows then (H.repLoopM lv k P M).f i j else 0
  | 0, _, _, _, _, _, c, _, _, _, _, _, hM => by
      intro i hi j hj
      rw [HSp.ntb, Nat.zero_add] at hj
      exact hM i hi j hj
  | k + 1, hk, P', P, M', M, c, hn, hPn, hPm', hPm, hP, hM => by
      intro i hi j hj
      have hkl : k + 1 < H.numlevels := by omega
      have hTn := hwf.Tn k hkl
      show (H.repLoopM lv k _ _).f i j = if i ∈ rows then (H.repLoopM lv k _ _).f i j else 0
      rw [HSp.ntb_succ, Nat.add_assoc] at hj
      have hrel : ∀ i < H.Nl lv, ∀ j < ((P.mul (H.Tl k)).freeze).n,
          ((P'.mul (H.Tl k)).freeze).f i j
            = if i ∈ rows then ((P.mul (H.Tl k)).freeze).f i j else 0 := by
        intro i hi j hj
        have hj' : j < (H.Tl k).n := hj
        rw [Mat.freeze_f (P'.mul (H.Tl k)) (by rw [Mat.mul_m, hPm']; exact hi) hj',
          Mat.freeze_f (P.mul (H.Tl k)) (by rw [Mat.mul_m, hPm]; exact hi) hj', Mat.mul_f, Mat.mul_f, hn]
        by_cases hr : i ∈ rows
        · rw [if_pos hr]
          refine Finset.sum_congr rfl fun x hx => ?_
          rw [hP i hi x (Finset.mem_range.1 hx), if_pos hr]
        · rw [if_neg hr]
          refine Finset.sum_eq_zero fun x hx => ?_
          rw [hP i hi x (Finset.mem_range.1 hx), if_neg hr, zero_mul]
      refine repLoopM_rows H hwf lv hlv rows k (by omega) ((P'.mul (H.Tl k)).freeze)
        ((P.mul (H.Tl k)).freeze) _ _ ((H.ia k).length + c)
        rfl hTn hPm' hPm hrel ?_ i hi j hj
      intro i hi j hj
      rw [HSp.actv_of_lt H (by omega : k < lv), Mat.hcat_f, Mat.hcat_f, Mat.selCols_n, Mat.selCols_n]
      by_cases hjk : j < (H.ia k).length
      · rw [if_pos hjk, if_pos hjk, Mat.selCols_f, Mat.selCols_f]
        have hcol : (H.ia k).getD j 0 < H.Nl k := hwf.ia_getD_lt (by omega) hjk
        exact hrel i hi _ (by show _ < (H.Tl k).n; rw [hTn]; exact hcol)
      · rw [if_neg hjk, if_neg hjk]
        exact hM i hi _ (by omega)

/-- **rows-variant of `represent_fine`** (HB, `restrict = False`): exactly the listed rows of
`represent_fine(k)` are kept -/
theorem rowsSpec (H : HSp K) (hwf : H.WF) {k : Nat} (hk : k < H.numlevels) (rows : List Nat) :
    RowsSpec H k rows := by
  intro i j hi hj
  rw [repF_rows_eq, HSp.representFine_eq]
  rw [HSp.repF_n] at hj
  refine repLoopM_rows H hwf k hk rows k (le_refl _) ((Mat.id (H.Nl k)).keepRows rows)
    (Mat.id (H.Nl k)) (((Mat.id (H.Nl k)).keepRows rows).selCols (H.ir k))
    ((Mat.id (H.Nl k)).selCols (H.ir k)) (H.ir k).length rfl rfl rfl rfl ?_ ?_ i hi j hj
  · intro i hi j _
    exact Mat.keepRows_f (Mat.id (H.Nl k)) rows hi j
  · intro i hi j _
    show ((Mat.id (H.Nl k)).keepRows rows).f i _ = _
    exact Mat.keepRows_f (Mat.id (H.Nl k)) rows hi _

/-- residual hypotheses for level `k` (no hypothesis about `interlevel_ix`) -/
structure LevelHyp (X : Input K) (k : Nat) : Prop where
  wf : X.H.WF
  hk : k < X.H.numlevels
  Am : (X.Ak k).m = X.H.Nl k
  An : (X.Ak k).n = X.H.Nl k
  hnb : ∀ k l, l < k → ∀ x ∈ X.nbrs k l, x ∈ X.H.ia l
  nbr_nodup : ∀ l, l < k → (X.nbrs k l).Nodup

section G4
variable {X : Input K} {k : Nat} (h : LevelHyp X k)
include h

theorem LevelHyp.ia_sub (c : Nat) (hc : c < (X.H.ia k).length) :
    (X.H.ia k).getD c 0 ∈ X.toAssemble k :=
  (mem_toAssemble X k _).2 ⟨h.wf.ia_getD_lt h.hk hc, Or.inr (getD_mem hc)⟩

theorem LevelHyp.ilx_sub (r : Nat) (hr : r ∈ X.interlevelIx k) : r ∈ X.toAssemble k :=
  (mem_toAssemble X k _).2 ⟨interlevelIx_lt X k r hr, Or.inl hr⟩

theorem LevelHyp.I'_f {r j : Nat} (hr : r ∈ X.toAssemble k)
    (hj : j < (X.H.representFine k false none false).n) :
    (I' X k).f r j = (X.H.representFine k false none false).f r j := by
  have hrN : r < X.H.Nl k := ((mem_toAssemble X k r).1 hr).1
  unfold I'
  rw [Mat.freeze_f _ (by rw [repF_rows_m]; exact hrN) (by rw [repF_rows_n]; exact hj),
    rowsSpec X.H h.wf h.hk _ r j hrN hj, if_pos hr]

theorem LevelHyp.Ak'_f {r c : Nat} (hr : r ∈ X.toAssemble k) (hc : c < X.H.Nl k) :
    (Ak' X k).f r c = (X.Ak k).f r c := by
  have hrN : r < X.H.Nl k := ((mem_toAssemble X k r).1 hr).1
  unfold Ak'
  rw [Mat.freeze_f _ (by rw [Mat.keepRows_m, h.Am]; exact hrN) (by rw [Mat.keepRows_n, h.An]; exact hc),
    Mat.keepRows_f _ _ (by rw [h.Am]; exact hrN), if_pos hr]

/-- column index of a coarser dof is in range of `I_k` -/
theorem LevelHyp.col_lt {lv q : Nat} (hlv : lv ≤ k) (hq : q < (X.H.ia lv).length) :
    X.off lv + q < (X.H.representFine k false none false).n := by
  rw [HSp.repF_n, HSp.ir, List.length_append]
  rcases Nat.lt_or_ge lv k with hlt | hge
  · have := off_succ_le X hlt
    rw [off_eq_ntb X k] at this; omega
  · have : lv = k := by omega
    subst this
    rw [off_eq_ntb]; omega

theorem LevelHyp.newIsId : NewIsId (I' X k) (X.H.ia k) (X.newCan k) := by
  intro c b hc hb
  rw [newCan_length] at hb
  have hnd : (X.H.ia k).Nodup := h.wf.ia_nodup h.hk
  rw [newCan_getD X k hb, h.I'_f (h.ia_sub c hc) (h.col_lt (le_refl _) hb), off_eq_ntb,
    HSp.repF_f_tail]
  have : (X.H.ir k).getD b 0 = (X.H.ia k).getD b 0 := List.getD_append _ _ _ _ hb
  rw [this]
  by_cases hcb : c = b
  · subst hcb; simp
  · rw [if_neg hcb, if_neg]
    intro he
    apply hcb
    have := congrArg (X.H.ia k).idxOf he
    rwa [idxOf_getD hnd hc, idxOf_getD hnd hb] at this

omit h in
theorem blkE_eqv (X : Input K) (k : Nat) :
    Mat.Eqv (blkE X k)
      (blockE (Ak' X k) (I' X k) (X.interlevelIx k) (X.H.ia k) (X.neighborsCan k) (X.newCan k)) := by
  unfold blkE Inb Inew blockE
  refine Mat.Eqv.trans (Mat.freeze_eqv _) ?_
  refine Mat.Eqv.mul (Nat.le_refl _) ?_ (Mat.freeze_eqv _)
  refine Mat.Eqv.trans (Mat.freeze_eqv _) ?_
  refine Mat.Eqv.mul (Nat.le_refl _) ?_ (Mat.freeze_eqv _)
  exact ⟨rfl, rfl, fun i hi j hj => Mat.freeze_f _ hj hi⟩

omit h in
theorem blkE2_eqv (X : Input K) (k : Nat) (hs : X.symmetric = false) :
    Mat.Eqv (blkE2 X k)
      (blockE2 (Ak' X k) (I' X k) (X.interlevelIx k) (X.H.ia k) (X.neighborsCan k) (X.newCan k)) := by
  unfold blkE2 Inb Inew blockE2
  simp only [hs]
  refine Mat.Eqv.trans (Mat.freeze_eqv _) ?_
  refine Mat.Eqv.mul (Nat.le_refl _) ?_ (Mat.freeze_eqv _)
  refine Mat.Eqv.trans (Mat.freeze_eqv _) ?_
  refine Mat.Eqv.mul (Nat.le_refl _) ?_ (Mat.freeze_eqv _)
  exact ⟨rfl, rfl, fun i hi j hj => Mat.freeze_f _ hj hi⟩

/-- entry of the tabulated block `A_hb_interlevel` at a listed neighbour: the full Galerkin sum -/
theorem LevelHyp.blkE_entry {lv q b n : Nat} (hlv : lv < k) (hq : q < (X.H.ia lv).length)
    (hb : b < (X.H.ia k).length) (hn : n < (X.neighborsCan k).length)
    (hni : (X.neighborsCan k).getD n 0 = X.off lv + q)
    (hcov : ∀ r, r < X.H.Nl k →
      (X.H.representFine k false none false).f r (X.off lv + q) *
        (X.Ak k).f r ((X.H.ia k).getD b 0) ≠ 0 →
      X.firstLevel k ≤ lv ∧ (X.H.ia lv).getD q 0 ∈ X.nbrs k lv) :
    (blkE X k).f n b = ∑ r ∈ range (X.H.Nl k),
      (X.H.representFine k false none false).f r (X.off lv + q) *
        (X.Ak k).f r ((X.H.ia k).getD b 0) := by
  have hb' : b < (X.newCan k).length := by rw [newCan_length]; exact hb
  rw [(blkE_eqv X k).2.2 n hn b hb',
    blockE_f _ _ _ _ _ _ h.newIsId (newCan_length X k) hb', hni]
  have hc : (X.H.ia k).getD b 0 < X.H.Nl k := h.wf.ia_getD_lt h.hk hb
  have hcol := h.col_lt (le_of_lt hlv) hq
  have hterm : ∀ q' ∈ range (X.interlevelIx k).length,
      (I' X k).f ((X.interlevelIx k).getD q' 0) (X.off lv + q) *
        (Ak' X k).f ((X.interlevelIx k).getD q' 0) ((X.H.ia k).getD b 0)
      = (fun r => (X.H.representFine k false none false).f r (X.off lv + q) *
          (X.Ak k).f r ((X.H.ia k).getD b 0)) ((X.interlevelIx k).getD q' 0) := by
    intro q' hq'
    have hm := h.ilx_sub _ (getD_mem (Finset.mem_range.1 hq'))
    rw [h.I'_f hm hcol, h.Ak'_f hm hc]
  rw [Finset.sum_congr rfl hterm]
  refine restricted_sum_eq_full (K := K) _ (interlevelIx_nodup X k) _ (interlevelIx_lt X k)
    (fun r => (X.H.representFine k false none false).f r (X.off lv + q) *
      (X.Ak k).f r ((X.H.ia k).getD b 0)) ?_
  intro r hr hne
  obtain ⟨hfl, hx⟩ := hcov r hr hne
  have h1 : (X.H.representFine k false none false).f r (X.H.ntb lv + q) ≠ 0 := by
    rw [← off_eq_ntb]
    exact fun h0 => hne (by simp only [h0, zero_mul])
  exact interlevelIx_covers X h.wf h.hk hlv hfl hq hx hr h1

/-- entry of the tabulated block `A_hb_interlevel2` (general branch) at a listed neighbour -/
theorem LevelHyp.blkE2_entry (hs : X.symmetric = false) {lv q b n : Nat} (hlv : lv < k)
    (hq : q < (X.H.ia lv).length)
    (hb : b < (X.H.ia k).length) (hn : n < (X.neighborsCan k).length)
    (hni : (X.neighborsCan k).getD n 0 = X.off lv + q)
    (hcov : ∀ r, r < X.H.Nl k →
      (X.Ak k).f ((X.H.ia k).getD b 0) r *
        (X.H.representFine k false none false).f r (X.off lv + q) ≠ 0 →
      X.firstLevel k ≤ lv ∧ (X.H.ia lv).getD q 0 ∈ X.nbrs k lv) :
    (blkE2 X k).f b n = ∑ r ∈ range (X.H.Nl k),
      (X.Ak k).f ((X.H.ia k).getD b 0) r *
        (X.H.representFine k false none false).f r (X.off lv + q) := by
  have hb' : b < (X.newCan k).length := by rw [newCan_length]; exact hb
  rw [(blkE2_eqv X k hs).2.2 b (by rw [blkE2_m]; exact hb') n (by rw [blkE2_n]; exact hn),
    blockE2_f _ _ _ _ _ _ h.newIsId (newCan_length X k) hb', hni]
  have hcol := h.col_lt (le_of_lt hlv) hq
  have hterm : ∀ q' ∈ range (X.interlevelIx k).length,
      (Ak' X k).f ((X.H.ia k).getD b 0) ((X.interlevelIx k).getD q' 0) *
        (I' X k).f ((X.interlevelIx k).getD q' 0) (X.off lv + q)
      = (fun r => (X.Ak k).f ((X.H.ia k).getD b 0) r *
          (X.H.representFine k false none false).f r (X.off lv + q))
          ((X.interlevelIx k).getD q' 0) := by
    intro q' hq'
    have hmem := getD_mem (Finset.mem_range.1 hq')
    rw [h.I'_f (h.ilx_sub _ hmem) hcol, h.Ak'_f (h.ia_sub b hb) (interlevelIx_lt X k _ hmem)]
  rw [Finset.sum_congr rfl hterm]
  refine restricted_sum_eq_full (K := K) _ (interlevelIx_nodup X k) _ (interlevelIx_lt X k)
    (fun r => (X.Ak k).f ((X.H.ia k).getD b 0) r *
      (X.H.representFine k false none false).f r (X.off lv + q)) ?_
  intro r hr hne
  obtain ⟨hfl, hx⟩ := hcov r hr hne
  have h1 : (X.H.representFine k false none false).f r (X.H.ntb lv + q) ≠ 0 := by
    rw [← off_eq_ntb]
    exact fun h0 => hne (by simp only [h0, mul_zero])
  exact interlevelIx_covers X h.wf h.hk hlv hfl hq hx hr h1

/-- **G4 (block E)**: for a coarser dof `i = off lv + q` and `j = off k + b` the assembled entry is
the full Galerkin sum `(I_kᵀ A_k I_k)[i,j] = Σ_r I_k[r,i] · A_k[r, loc b]`; the only support
hypothesis is the neighbour coverage `hcov`. -/
theorem hb_entry_interlevel {lv q b : Nat} (hlv : lv < k) (hq : q < (X.H.ia lv).length)
    (hb : b < (X.H.ia k).length)
    (hcov : ∀ r, r < X.H.Nl k →
      (X.H.representFine k false none false).f r (X.off lv + q) *
        (X.Ak k).f r ((X.H.ia k).getD b 0) ≠ 0 →
      X.firstLevel k ≤ lv ∧ (X.H.ia lv).getD q 0 ∈ X.nbrs k lv) :
    X.hbEntry (X.off lv + q) (X.off k + b) = ∑ r ∈ range (X.H.Nl k),
      (X.H.representFine k false none false).f r (X.off lv + q) *
        (X.Ak k).f r ((X.H.ia k).getD b 0) := by
  rw [(hbEntry_lt X h.hnb hq hb h.hk hlv).1]
  have hb' : b < (X.newCan k).length := by rw [newCan_length]; exact hb
  by_cases hx : (X.H.ia lv).getD q 0 ∈ X.nbrs k lv
  · obtain ⟨n, hn, hni⟩ := getD_of_mem
      (neighborsCan_of_mem X hlv (h.wf.ia_nodup (by have := h.hk; omega)) hq hx)
    have hit := scatterGet_hit (blkE X k) (X.neighborsCan k) (X.newCan k)
      (neighborsCan_injOn X k (h.hnb k) h.nbr_nodup)
      (by rw [blkE_n, newCan_length]; exact newCan_injOn X k) (a := n) (b := b) hn hb'
    rw [hni, newCan_getD X k hb] at hit
    rw [hit]
    exact h.blkE_entry hlv hq hb hn hni hcov
  · rw [scatterGet_miss_row]
    · symm
      refine Finset.sum_eq_zero fun r hr => ?_
      by_contra hne
      exact hx (hcov r (Finset.mem_range.1 hr) hne).2
    · intro n hn he
      have hmem : X.off lv + q ∈ X.neighborsCan k := he ▸ getD_mem hn
      exact hx (mem_of_neighborsCan X (h.hnb k) hq hmem).2

/-- **G4 (block E2)**: the transposed entry `(j,i)`: `Σ_r A_k[loc b, r] · I_k[r,i]`.  For
`symmetric = true` (`A_hb_interlevel2 := A_hb_interlevel.T`) the level matrix is assumed symmetric. -/
theorem hb_entry_interlevel2 {lv q b : Nat} (hlv : lv < k) (hq : q < (X.H.ia lv).length)
    (hb : b < (X.H.ia k).length)
    (hsym : X.symmetric = true → ∀ r, r < X.H.Nl k → ∀ c, c < X.H.Nl k →
      (X.Ak k).f r c = (X.Ak k).f c r)
    (hcov : ∀ r, r < X.H.Nl k →
      (X.Ak k).f ((X.H.ia k).getD b 0) r *
        (X.H.representFine k false none false).f r (X.off lv + q) ≠ 0 →
      X.firstLevel k ≤ lv ∧ (X.H.ia lv).getD q 0 ∈ X.nbrs k lv) :
    X.hbEntry (X.off k + b) (X.off lv + q) = ∑ r ∈ range (X.H.Nl k),
      (X.Ak k).f ((X.H.ia k).getD b 0) r *
        (X.H.representFine k false none false).f r (X.off lv + q) := by
  rw [(hbEntry_gt X h.hnb hb hq h.hk hlv).1]
  have hb' : b < (X.newCan k).length := by rw [newCan_length]; exact hb
  have hc : (X.H.ia k).getD b 0 < X.H.Nl k := h.wf.ia_getD_lt h.hk hb
  by_cases hx : (X.H.ia lv).getD q 0 ∈ X.nbrs k lv
  · obtain ⟨n, hn, hni⟩ := getD_of_mem
      (neighborsCan_of_mem X hlv (h.wf.ia_nodup (by have := h.hk; omega)) hq hx)
    have hit := scatterGet_hit (blkE2 X k) (X.newCan k) (X.neighborsCan k)
      (by rw [blkE2_m, newCan_length]; exact newCan_injOn X k)
      (by rw [blkE2_n]; exact neighborsCan_injOn X k (h.hnb k) h.nbr_nodup)
      (a := b) (b := n) (by rw [blkE2_m]; exact hb') (by rw [blkE2_n]; exact hn)
    rw [hni, newCan_getD X k hb] at hit
    rw [hit]
    cases hs : X.symmetric with
    | false => exact h.blkE2_entry hs hlv hq hb hn hni hcov
    | true =>
      have hsy := hsym hs
      have hE2 : (blkE2 X k).f b n = (blkE X k).f n b := by
        unfold blkE2; rw [if_pos hs]; rfl
      rw [hE2, h.blkE_entry hlv hq hb hn hni]
      · refine Finset.sum_congr rfl fun r hr => ?_
        rw [hsy r (Finset.mem_range.1 hr) _ hc, mul_comm]
      · intro r hr hne
        refine hcov r hr ?_
        rw [hsy _ hc r hr, mul_comm]
        exact hne
  · rw [scatterGet_miss_col]
    · symm
      refine Finset.sum_eq_zero fun r hr => ?_
      by_contra hne
      exact hx (hcov r (Finset.mem_range.1 hr) hne).2
    · intro n hn he
      rw [blkE2_n] at hn
      have hmem : X.off lv + q ∈ X.neighborsCan k := he ▸ getD_mem hn
      exact hx (mem_of_neighborsCan X (h.hnb k) hq hmem).2

/-- **diagonal block** through the model's own blocks: two active functions of level `k` -/
theorem hb_entry_diag {a b : Nat} (ha : a < (X.H.ia k).length) (hb : b < (X.H.ia k).length) :
    X.hbEntry (X.off k + a) (X.off k + b)
      = (X.Ak k).f ((X.H.ia k).getD a 0) ((X.H.ia k).getD b 0) := by
  rw [(hbEntry_same X h.hnb ha hb h.hk rfl).1]
  have hit := scatterGet_hit (blkD X k) (X.newCan k) (X.newCan k)
    (newCan_injOn X k) (newCan_injOn X k) (a := a) (b := b) ha hb
  rw [newCan_getD X k ha, newCan_getD X k hb] at hit
  rw [hit]
  show (Ak' X k).f ((X.H.ia k).getD a 0) ((X.H.ia k).getD b 0) = _
  exact h.Ak'_f (h.ia_sub a ha) (h.wf.ia_getD_lt h.hk hb)

end G4

/-! ### the right-hand sides are entries of the Galerkin triple product `I_kᵀ A_k I_k` -/

/-- `I_kᵀ · A_k · I_k` with `I_k = represent_fine(k)` (all rows) -/
def galerkin (X : Input K) (k : Nat) : Mat K :=
  ((X.H.representFine k false none false).transpose.mul (X.Ak k)).mul
    (X.H.representFine k false none false)

theorem galerkin_col (X : Input K) {k : Nat} (hwf : X.H.WF) (hk : k < X.H.numlevels)
    (hAm : (X.Ak k).m = X.H.Nl k) (hAn : (X.Ak k).n = X.H.Nl k) (i : Nat) {b : Nat}
    (hb : b < (X.H.ia k).length) :
    (galerkin X k).f i (X.off k + b) = ∑ r ∈ range (X.H.Nl k),
      (X.H.representFine k false none false).f r i * (X.Ak k).f r ((X.H.ia k).getD b 0) := by
  have hc : (X.H.ia k).getD b 0 < X.H.Nl k := hwf.ia_getD_lt hk hb
  have hir : (X.H.ir k).getD b 0 = (X.H.ia k).getD b 0 := List.getD_append _ _ _ _ hb
  unfold galerkin
  rw [Mat.mul_f, off_eq_ntb]
  simp only [HSp.repF_f_tail, hir]
  rw [Mat.sum_mul_delta, Mat.mul_n, hAn, if_pos hc, Mat.mul_f]
  show ∑ r ∈ range (X.H.representFine k false none false).m, _ = _
  rw [HSp.repF_m]
  rfl

theorem galerkin_row (X : Input K) {k : Nat} (hwf : X.H.WF) (hk : k < X.H.numlevels)
    (hAm : (X.Ak k).m = X.H.Nl k) (hAn : (X.Ak k).n = X.H.Nl k) (i : Nat) {b : Nat}
    (hb : b < (X.H.ia k).length) :
    (galerkin X k).f (X.off k + b) i = ∑ r ∈ range (X.H.Nl k),
      (X.Ak k).f ((X.H.ia k).getD b 0) r * (X.H.representFine k false none false).f r i := by
  have hc : (X.H.ia k).getD b 0 < X.H.Nl k := hwf.ia_getD_lt hk hb
  have hir : (X.H.ir k).getD b 0 = (X.H.ia k).getD b 0 := List.getD_append _ _ _ _ hb
  unfold galerkin
  rw [Mat.mul_f, Mat.mul_n, hAn]
  refine Finset.sum_congr rfl fun s _ => ?_
  congr 1
  rw [Mat.mul_f]
  show ∑ r ∈ range (X.H.representFine k false none false).m,
    (X.H.representFine k false none false).f r (X.off k + b) * (X.Ak k).f r s = _
  rw [HSp.repF_m, off_eq_ntb]
  simp only [HSp.repF_f_tail, hir]
  simp only [ite_mul, one_mul, zero_mul, Finset.sum_ite_eq', Finset.mem_range, hc, if_true]

section G4'
variable {X : Input K} {k : Nat} (h : LevelHyp X k)
include h

/-- **G4, matrix form**: `A_hb[i,j] = (I_kᵀ A_k I_k)[i,j]` for `i` coarser than `j` (level `k`) -/
theorem hb_entry_interlevel_galerkin {lv q b : Nat} (hlv : lv < k) (hq : q < (X.H.ia lv).length)
    (hb : b < (X.H.ia k).length)
    (hcov : ∀ r, r < X.H.Nl k →
      (X.H.representFine k false none false).f r (X.off lv + q) *
        (X.Ak k).f r ((X.H.ia k).getD b 0) ≠ 0 →
      X.firstLevel k ≤ lv ∧ (X.H.ia lv).getD q 0 ∈ X.nbrs k lv) :
    X.hbEntry (X.off lv + q) (X.off k + b) = (galerkin X k).f (X.off lv + q) (X.off k + b) := by
  rw [hb_entry_interlevel h hlv hq hb hcov, galerkin_col X h.wf h.hk h.Am h.An _ hb]

theorem hb_entry_interlevel2_galerkin {lv q b : Nat} (hlv : lv < k) (hq : q < (X.H.ia lv).length)
    (hb : b < (X.H.ia k).length)
    (hsym : X.symmetric = true → ∀ r, r < X.H.Nl k → ∀ c, c < X.H.Nl k →
      (X.Ak k).f r c = (X.Ak k).f c r)
    (hcov : ∀ r, r < X.H.Nl k →
      (X.Ak k).f ((X.H.ia k).getD b 0) r *
        (X.H.representFine k false none false).f r (X.off lv + q) ≠ 0 →
      X.firstLevel k ≤ lv ∧ (X.H.ia lv).getD q 0 ∈ X.nbrs k lv) :
    X.hbEntry (X.off k + b) (X.off lv + q) = (galerkin X k).f (X.off k + b) (X.off lv + q) := by
  rw [hb_entry_interlevel2 h hlv hq hb hsym hcov, galerkin_row X h.wf h.hk h.Am h.An _ hb]

theorem hb_entry_diag_galerkin {a b : Nat} (ha : a < (X.H.ia k).length)
    (hb : b < (X.H.ia k).length) :
    X.hbEntry (X.off k + a) (X.off k + b) = (galerkin X k).f (X.off k + a) (X.off k + b) := by
  have hc : (X.H.ia k).getD a 0 < X.H.Nl k := h.wf.ia_getD_lt h.hk ha
  have hir : (X.H.ir k).getD a 0 = (X.H.ia k).getD a 0 := List.getD_append _ _ _ _ ha
  rw [hb_entry_diag h ha hb, galerkin_col X h.wf h.hk h.Am h.An _ hb, off_eq_ntb]
  simp only [HSp.repF_f_tail, hir]
  simp only [ite_mul, one_mul, zero_mul, Finset.sum_ite_eq', Finset.mem_range, hc, if_true]

end G4'

/-! ### summary: every entry of the HB matrix is the Galerkin entry of the finer of the two levels -/

/-- **neighbour coverage** (mesh query of the refinement model): whenever a coarser active function
interacts with an active level-`k` function through the level-`k` matrix, `cell_supp_indices[k]`
lists it and its level is within the disparity range.  No statement about `interlevel_ix`. -/
def NbrCoverage (X : Input K) (k : Nat) : Prop :=
  ∀ lv q b r, lv < k → q < (X.H.ia lv).length → b < (X.H.ia k).length → r < X.H.Nl k →
    ((X.H.representFine k false none false).f r (X.off lv + q) *
        (X.Ak k).f r ((X.H.ia k).getD b 0) ≠ 0 ∨
     (X.Ak k).f ((X.H.ia k).getD b 0) r *
        (X.H.representFine k false none false).f r (X.off lv + q) ≠ 0) →
    X.firstLevel k ≤ lv ∧ (X.H.ia lv).getD q 0 ∈ X.nbrs k lv

/-- **C03, entrywise**: for active functions `a` of level `ki` and `b` of level `kj`, the assembled
HB entry is the entry of `I_kᵀ A_k I_k` on the finer level `k = max ki kj`. -/
theorem hb_entry_galerkin (X : Input K) {ki kj a b : Nat} (ha : a < (X.H.ia ki).length)
    (hb : b < (X.H.ia kj).length) (h : LevelHyp X (max ki kj)) (hcov : NbrCoverage X (max ki kj))
    (hsym : X.symmetric = true → ∀ r, r < X.H.Nl (max ki kj) → ∀ c, c < X.H.Nl (max ki kj) →
      (X.Ak (max ki kj)).f r c = (X.Ak (max ki kj)).f c r) :
    X.hbEntry (X.off ki + a) (X.off kj + b)
      = (galerkin X (max ki kj)).f (X.off ki + a) (X.off kj + b) := by
  rcases Nat.lt_trichotomy ki kj with hlt | heq | hgt
  · have hm : max ki kj = kj := by omega
    rw [hm] at h hcov hsym ⊢
    exact hb_entry_interlevel_galerkin h hlt ha hb
      (fun r hr hne => hcov ki a b r hlt ha hb hr (Or.inl hne))
  · subst heq
    have hm : max ki ki = ki := by omega
    rw [hm] at h ⊢
    exact hb_entry_diag_galerkin h ha hb
  · have hm : max ki kj = ki := by omega
    rw [hm] at h hcov hsym ⊢
    exact hb_entry_interlevel2_galerkin h hgt hb ha hsym
      (fun r hr hne => hcov kj b a r hgt hb ha hr (Or.inr hne))

end Pyiga.HAsm
