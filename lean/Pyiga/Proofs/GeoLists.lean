/-
Helper lemmas for C07: entries of the flat coefficient lists built by the model's list-level
constructors (`flatMap` over control points of equal-length component chunks).
-/
import Pyiga.Proofs.Geometry

namespace Pyiga.Geo
variable {K : Type} [Field K]

theorem length_flatMap_chunks {β : Type} (n L : Nat) (f : Nat → List β) (hL : ∀ I, (f I).length = L) :
    ((List.range n).flatMap f).length = n * L := by
  induction n with
  | zero => simp
  | succ n ih => rw [List.range_succ, List.flatMap_append, List.length_append, ih]; simp [hL]; ring

/-- entry `I*L + b` of a concatenation of `n` chunks of length `L` is entry `b` of chunk `I` -/
theorem getD_flatMap_chunks {β : Type} (d : β) (n L : Nat) (f : Nat → List β) (hL : ∀ I, (f I).length = L)
    (I b : Nat) (hI : I < n) (hb : b < L) :
    ((List.range n).flatMap f).getD (I * L + b) d = (f I).getD b d := by
  induction n with
  | zero => omega
  | succ n ih =>
    rw [List.range_succ, List.flatMap_append]
    simp only [List.flatMap_cons, List.flatMap_nil, List.append_nil, List.getD_eq_getElem?_getD]
    have hlen := length_flatMap_chunks n L f hL
    by_cases h : I < n
    · have hlt : I * L + b < ((List.range n).flatMap f).length := by
        rw [hlen]
        calc I * L + b < I * L + L := by omega
          _ = (I + 1) * L := by ring
          _ ≤ n * L := Nat.mul_le_mul_right _ (by omega)
      rw [List.getElem?_append_left hlt]
      have := ih h
      simpa [List.getD_eq_getElem?_getD] using this
    · have hIn : I = n := by omega
      subst hIn
      rw [List.getElem?_append_right (by rw [hlen]; omega), hlen, Nat.add_sub_cancel_left]

theorem getD_map_range {β : Type} (d : β) (n : Nat) (f : Nat → β) (i : Nat) (h : i < n) :
    ((List.range n).map f).getD i d = f i := by
  simp [List.getD_eq_getElem?_getD, List.getElem?_range h]

/-- entries of `tensorC` (the coefficient array of `tensor_product`) -/
theorem tensorC_getD (n1 m1 n2 m2 : Nat) (C1 C2 : List K) (k1 k2 b : Nat)
    (h1 : k1 < n1) (h2 : k2 < n2) (hb : b < m1 + m2) :
    (tensorC n1 m1 n2 m2 C1 C2).getD ((k1 * n2 + k2) * (m1 + m2) + b) 0
      = if b < m2 then C2.getD (k2 * m2 + b) 0 else C1.getD (k1 * m1 + (b - m2)) 0 := by
  unfold tensorC
  have hin : ∀ I1 I2, ((List.range m2).map (fun b => C2.getD (I2 * m2 + b) 0)
      ++ (List.range m1).map (fun b => C1.getD (I1 * m1 + b) 0)).length = m1 + m2 := by
    intro I1 I2; simp; omega
  have hout : ∀ I1, ((List.range n2).flatMap (fun I2 =>
      (List.range m2).map (fun b => C2.getD (I2 * m2 + b) 0)
        ++ (List.range m1).map (fun b => C1.getD (I1 * m1 + b) 0))).length = n2 * (m1 + m2) := by
    intro I1; exact length_flatMap_chunks n2 (m1 + m2) _ (hin I1)
  have e : (k1 * n2 + k2) * (m1 + m2) + b = k1 * (n2 * (m1 + m2)) + (k2 * (m1 + m2) + b) := by ring
  have hlt : k2 * (m1 + m2) + b < n2 * (m1 + m2) := by
    calc k2 * (m1 + m2) + b < k2 * (m1 + m2) + (m1 + m2) := by omega
      _ = (k2 + 1) * (m1 + m2) := by ring
      _ ≤ n2 * (m1 + m2) := Nat.mul_le_mul_right _ (by omega)
  rw [e, getD_flatMap_chunks 0 n1 (n2 * (m1 + m2)) _ hout k1 _ h1 hlt,
    getD_flatMap_chunks 0 n2 (m1 + m2) _ (hin k1) k2 b h2 hb]
  simp only [List.getD_eq_getElem?_getD]
  by_cases hb2 : b < m2
  · rw [if_pos hb2, List.getElem?_append_left (by simpa using hb2)]
    simp [List.getElem?_range hb2]
  · rw [if_neg hb2, List.getElem?_append_right (by simp; omega)]
    have : b - m2 < m1 := by omega
    simp [List.getElem?_range this]

/-- `nest_two` with the leaf hypothesis needed only inside the control grid -/
theorem nest_two' (leaf : Nat → K) (r1 r2 : List (Nat × (Nat → K))) (F : Nat → Nat → K)
    (h : ∀ k1 k2, k1 < size r1 → k2 < size r2 → leaf (k1 * size r2 + k2) = F k1 k2) :
    nest leaf (r1 ++ r2) 0 = nest (fun k1 => nest (fun k2 => F k1 k2) r2 0) r1 0 := by
  rw [nest_append]
  apply nest_congr_bounded
  intro k1 hk1
  simp only [Nat.zero_mul, Nat.zero_add]
  rw [nest_offset]
  apply nest_congr_bounded
  intro k2 hk2
  simp only [Nat.zero_mul, Nat.zero_add]
  exact h k1 k2 hk1 hk2

theorem rows_append {X : Type} (B : Nat → X → Info K) (dims2 : List Nat) (ys2 : List X) (D2 : List Nat) :
    ∀ (dims1 : List Nat) (ys1 : List X) (D1 : List Nat) (i : Nat),
      ys1.length = dims1.length → D1.length = dims1.length →
      rows B i (dims1 ++ dims2) (ys1 ++ ys2) (D1 ++ D2)
        = rows B i dims1 ys1 D1 ++ rows B (i + dims1.length) dims2 ys2 D2
  | [], [], [], i, _, _ => by simp [rows]
  | n :: dims1, y :: ys1, ν :: D1, i, h1, h2 => by
    have := rows_append B dims2 ys2 D2 dims1 ys1 D1 (i + 1) (by simpa using h1) (by simpa using h2)
    simp only [List.cons_append, rows, this, List.length_cons]
    congr 3
    omega
  | [], _ :: _, _, _, h, _ => by simp at h
  | [], [], _ :: _, _, _, h => by simp at h
  | _ :: _, [], _, _, h, _ => by simp at h
  | _ :: _, _ :: _, [], _, _, h => by simp at h

theorem size_rows {X : Type} (B : Nat → X → Info K) :
    ∀ (dims : List Nat) (ys : List X) (D : List Nat) (i : Nat),
      ys.length = dims.length → D.length = dims.length → size (rows B i dims ys D) = Index.prod dims
  | [], [], [], _, _, _ => by simp [rows, size, Index.prod]
  | n :: dims, y :: ys, ν :: D, i, h1, h2 => by
    have := size_rows B dims ys D (i + 1) (by simpa using h1) (by simpa using h2)
    simp only [rows, size, this, Index.prod, List.foldr_cons]
  | [], _ :: _, _, _, h, _ => by simp at h
  | [], [], _ :: _, _, _, h => by simp at h
  | _ :: _, [], _, _, h, _ => by simp at h
  | _ :: _, _ :: _, [], _, _, h => by simp at h

end Pyiga.Geo
