/-
L-hier: canonical order — `sorted`, flat listings, raveled indices.
-/
import Pyiga.Proofs.HierLaws

namespace Pyiga.Hier
open Pyiga.Index

/-! ### the lexicographic order of Python tuples -/

theorem lexLt_irrefl : ∀ (x : Idx), lexLt x x = false
  | [] => rfl
  | a :: as => by simp [lexLt, lexLt_irrefl as]

theorem lexLt_trans : ∀ {x y z : Idx}, lexLt x y = true → lexLt y z = true → lexLt x z = true
  | [], [], _, h, _ => by simp [lexLt] at h
  | [], _ :: _, [], _, h => by simp [lexLt] at h
  | [], _ :: _, _ :: _, _, _ => rfl
  | _ :: _, [], _, h, _ => by simp [lexLt] at h
  | _ :: _, _ :: _, [], _, h => by simp [lexLt] at h
  | a :: as, b :: bs, c :: cs, h1, h2 => by
    simp only [lexLt, Bool.or_eq_true, decide_eq_true_eq, Bool.and_eq_true, beq_iff_eq] at h1 h2 ⊢
    rcases h1 with h1 | ⟨h1, h1'⟩ <;> rcases h2 with h2 | ⟨h2, h2'⟩
    · left; omega
    · left; omega
    · left; omega
    · right; exact ⟨by omega, lexLt_trans h1' h2'⟩

theorem lexLt_total : ∀ (x y : Idx), x = y ∨ lexLt x y = true ∨ lexLt y x = true
  | [], [] => Or.inl rfl
  | [], _ :: _ => Or.inr (Or.inl rfl)
  | _ :: _, [] => Or.inr (Or.inr rfl)
  | a :: as, b :: bs => by
    simp only [lexLt, Bool.or_eq_true, decide_eq_true_eq, Bool.and_eq_true, beq_iff_eq, List.cons.injEq]
    rcases Nat.lt_trichotomy a b with h | h | h
    · exact Or.inr (Or.inl (Or.inl h))
    · rcases lexLt_total as bs with h' | h' | h'
      · exact Or.inl ⟨h, h'⟩
      · exact Or.inr (Or.inl (Or.inr ⟨h, h'⟩))
      · exact Or.inr (Or.inr (Or.inr ⟨h.symm, h'⟩))
    · exact Or.inr (Or.inr (Or.inl h))

/-! ### `sorted` -/

theorem mem_insertSorted {x z : Idx} : ∀ {l : List Idx}, z ∈ insertSorted x l ↔ z = x ∨ z ∈ l
  | [] => by simp [insertSorted]
  | y :: ys => by
    unfold insertSorted
    split
    · simp only [List.mem_cons, mem_insertSorted (l := ys)]
      constructor
      · rintro (h | h | h)
        · exact Or.inr (Or.inl h)
        · exact Or.inl h
        · exact Or.inr (Or.inr h)
      · rintro (h | h | h)
        · exact Or.inr (Or.inl h)
        · exact Or.inl h
        · exact Or.inr (Or.inr h)
    · simp

theorem length_insertSorted (x : Idx) : ∀ (l : List Idx), (insertSorted x l).length = l.length + 1
  | [] => rfl
  | y :: ys => by
    unfold insertSorted
    split <;> simp [length_insertSorted x ys]

@[simp] theorem mem_sortIdx {z : Idx} : ∀ {l : List Idx}, z ∈ sortIdx l ↔ z ∈ l
  | [] => by simp [sortIdx]
  | y :: ys => by
    have ih := @mem_sortIdx z ys
    simp only [sortIdx, List.foldr_cons] at ih ⊢
    rw [mem_insertSorted, ih, List.mem_cons]

@[simp] theorem length_sortIdx : ∀ (l : List Idx), (sortIdx l).length = l.length
  | [] => rfl
  | y :: ys => by
    have ih := length_sortIdx ys
    simp only [sortIdx, List.foldr_cons] at ih ⊢
    rw [length_insertSorted, ih]; rfl

/-- strictly increasing in the tuple order -/
def SortedLex (l : List Idx) : Prop := l.Pairwise (fun a b => lexLt a b = true)

theorem sorted_insertSorted {x : Idx} : ∀ {l : List Idx}, SortedLex l → x ∉ l → SortedLex (insertSorted x l)
  | [], _, _ => by simp [insertSorted, SortedLex]
  | y :: ys, hs, hx => by
    have hs' : (∀ z ∈ ys, lexLt y z = true) ∧ SortedLex ys := List.pairwise_cons.1 hs
    unfold insertSorted
    split
    · rename_i hyx
      refine List.pairwise_cons.2 ⟨?_, sorted_insertSorted hs'.2 (fun h => hx (List.mem_cons_of_mem _ h))⟩
      intro z hz
      rcases mem_insertSorted.1 hz with rfl | hz
      · exact hyx
      · exact hs'.1 z hz
    · rename_i hyx
      have hxy : lexLt x y = true := by
        rcases lexLt_total x y with h | h | h
        · exact absurd (h ▸ List.mem_cons_self ..) hx
        · exact h
        · exact absurd h hyx
      refine List.pairwise_cons.2 ⟨?_, hs⟩
      intro z hz
      rcases List.mem_cons.1 hz with rfl | hz
      · exact hxy
      · exact lexLt_trans hxy (hs'.1 z hz)

/-- `sorted(s)` of a set is strictly increasing -/
theorem sorted_sortIdx : ∀ {l : List Idx}, l.Nodup → SortedLex (sortIdx l)
  | [], _ => List.Pairwise.nil
  | y :: ys, h => by
    have h' := List.nodup_cons.1 h
    have ih := sorted_sortIdx h'.2
    simp only [sortIdx, List.foldr_cons] at ih ⊢
    exact sorted_insertSorted ih (fun hm => h'.1 (mem_sortIdx.1 hm))

/-! ### raveling is strictly monotone -/

theorem toSeq_lt_of_lexLt (f g dims : List Nat) (hf : Below f dims) (hg : Below g dims)
    (h : lexLt f g = true) : toSeq f dims < toSeq g dims := by
  induction dims generalizing f g with
  | nil =>
    cases f with
    | nil =>
      cases g with
      | nil => simp [lexLt] at h
      | cons b bs => simp [Below] at hg
    | cons a as => simp [Below] at hf
  | cons m ms ih =>
    cases f with
    | nil => simp [Below] at hf
    | cons a as =>
      cases g with
      | nil => simp [Below] at hg
      | cons b bs =>
        have hla := below_length hf.2
        have hlb := below_length hg.2
        rw [toSeq_cons a m as ms hla, toSeq_cons b m bs ms hlb]
        simp only [lexLt, Bool.or_eq_true, decide_eq_true_eq, Bool.and_eq_true, beq_iff_eq] at h
        rcases h with h | ⟨h, h'⟩
        · have h1 := toSeq_lt as ms hf.2
          calc a * prod ms + toSeq as ms < a * prod ms + prod ms := by omega
            _ = (a + 1) * prod ms := by rw [Nat.add_mul, Nat.one_mul]
            _ ≤ b * prod ms := Nat.mul_le_mul_right _ h
            _ ≤ b * prod ms + toSeq bs ms := Nat.le_add_right _ _
        · subst h
          have := ih as bs hf.2 hg.2 h'
          omega

/-- raveled indices of a sorted list of in-range multi-indices are strictly increasing -/
theorem pairwise_ravel (dims : List Nat) : ∀ (l : List Idx), SortedLex l → (∀ f ∈ l, Below f dims) →
    (l.map (fun f => toSeq f dims)).Pairwise (· < ·)
  | [], _, _ => List.Pairwise.nil
  | x :: xs, hs, hv => by
    have hs' := List.pairwise_cons.1 hs
    simp only [List.map_cons]
    refine List.pairwise_cons.2 ⟨?_, pairwise_ravel dims xs hs'.2 (fun f hf => hv f (List.mem_cons_of_mem _ hf))⟩
    intro z hz
    obtain ⟨g, hg, rfl⟩ := List.mem_map.1 hz
    exact toSeq_lt_of_lexLt x g dims (hv x (List.mem_cons_self ..)) (hv g (List.mem_cons_of_mem _ hg)) (hs'.1 g hg)

/-! ### flat listings -/

/-- canonical order on `(level, multi-index)` pairs -/
def canonLt (a b : Nat × Idx) : Prop := a.1 < b.1 ∨ (a.1 = b.1 ∧ lexLt a.2 b.2 = true)

theorem canonLt_irrefl (a : Nat × Idx) : ¬ canonLt a a := by
  rintro (h | ⟨_, h⟩)
  · omega
  · rw [lexLt_irrefl] at h; cases h

theorem mem_flat (g : Level → List Idx) : ∀ (ls : List Level) (lv0 : Nat) (a : Nat × Idx),
    a ∈ (mapFrom (fun lv l => (g l).map (fun c => (lv, c))) lv0 ls).flatten ↔
      lv0 ≤ a.1 ∧ a.1 < lv0 + ls.length ∧ a.2 ∈ g (ls.getD (a.1 - lv0) emptyLevel)
  | [], lv0, a => by simp [mapFrom]; omega
  | l :: rest, lv0, a => by
    simp only [mapFrom, List.flatten_cons, List.mem_append, List.mem_map, mem_flat g rest (lv0 + 1) a,
      List.length_cons]
    constructor
    · rintro (⟨c, hc, rfl⟩ | ⟨h1, h2, h3⟩)
      · exact ⟨Nat.le_refl _, by omega, by simpa using hc⟩
      · refine ⟨by omega, by omega, ?_⟩
        have : a.1 - lv0 = (a.1 - (lv0 + 1)) + 1 := by omega
        rw [this, List.getD_cons_succ]; exact h3
    · rintro ⟨h1, h2, h3⟩
      by_cases he : a.1 = lv0
      · left
        refine ⟨a.2, ?_, ?_⟩
        · rw [he] at h3; simpa using h3
        · rw [← he]
      · right
        refine ⟨by omega, by omega, ?_⟩
        have : a.1 - lv0 = (a.1 - (lv0 + 1)) + 1 := by omega
        rw [this, List.getD_cons_succ] at h3; exact h3

/-- a flat listing (levels in order, each level sorted) is strictly increasing in canonical order -/
theorem pairwise_flat (g : Level → List Idx) : ∀ (ls : List Level) (lv0 : Nat),
    (∀ l ∈ ls, SortedLex (g l)) →
    (mapFrom (fun lv l => (g l).map (fun c => (lv, c))) lv0 ls).flatten.Pairwise canonLt
  | [], _, _ => by simp [mapFrom]
  | l :: rest, lv0, h => by
    simp only [mapFrom, List.flatten_cons]
    refine List.pairwise_append.2 ⟨?_, pairwise_flat g rest (lv0 + 1) (fun l' hl' => h l' (List.mem_cons_of_mem _ hl')), ?_⟩
    · have hs := h l (List.mem_cons_self ..)
      exact List.Pairwise.map _ (fun a b hab => Or.inr ⟨rfl, hab⟩) hs
    · intro a ha b hb
      obtain ⟨c, _, rfl⟩ := List.mem_map.1 ha
      have := (mem_flat g rest (lv0 + 1) b).1 hb
      exact Or.inl (by show lv0 < b.1; omega)

theorem length_flat (g : Level → List Idx) : ∀ (ls : List Level) (lv0 : Nat),
    (mapFrom (fun lv l => (g l).map (fun c => (lv, c))) lv0 ls).flatten.length
      = (ls.map (fun l => (g l).length)).sum
  | [], _ => rfl
  | l :: rest, lv0 => by
    simp [mapFrom, length_flat g rest (lv0 + 1)]

end Pyiga.Hier
