/-
C01 `layout`: `gen_assign` (skip `i > j` for symmetric variables) writes every slot exactly once.
-/
import Pyiga.Proofs.Layout
import Mathlib.Data.List.Perm.Basic
import Mathlib.Data.List.Nodup

namespace Pyiga.Layout
open Pyiga.Index

theorem pairs_nodup (m n : Nat) :
    ((List.range m).flatMap (fun i => (List.range n).map (fun j => (i, j)))).Nodup := by
  rw [List.nodup_flatMap]
  refine ⟨fun i _ => (List.nodup_range (n := n)).map (fun a b h => by injection h), ?_⟩
  apply (List.nodup_range (n := m)).imp
  intro a b hab
  simp only [Function.onFun, List.disjoint_left, List.mem_map]
  rintro x ⟨q, _, rfl⟩ ⟨q', _, h⟩
  injection h with h1 _
  exact hab h1.symm

theorem mem_assignedPairs (v : Var) (hsym : v.symmetric = true) (m : Nat) (p : Nat × Nat) :
    p ∈ assignedPairs v m m ↔ p.1 ≤ p.2 ∧ p.2 < m := by
  unfold assignedPairs
  simp only [List.mem_filter, List.mem_flatMap, List.mem_range, List.mem_map, hsym, Bool.true_and,
    Bool.not_eq_true', decide_eq_false_iff_not, Nat.not_lt]
  constructor
  · rintro ⟨⟨i, hi, j, hj, rfl⟩, hle⟩
    exact ⟨hle, hj⟩
  · rintro ⟨hle, hlt⟩
    exact ⟨⟨p.1, by omega, p.2, hlt, rfl⟩, hle⟩

/-- `gen_assign` writes every slot of a symmetric `m x m` variable exactly once -/
theorem assignedPairs_slots (v : Var) (m : Nat) (hs : v.sym = true) (hshape : v.shape = [m, m]) :
    ((assignedPairs v m m).map (fun p => storageIndex v [p.1, p.2])).Perm (List.range (storageSize v)) := by
  have hsym : v.symmetric = true := by
    unfold Var.sym at hs
    simp only [Bool.and_eq_true] at hs
    exact hs.2
  have hidx : ∀ p : Nat × Nat, storageIndex v [p.1, p.2] = symIndexToSeq m p.1 p.2 := by
    intro p
    unfold storageIndex
    simp [hshape, hs]
  have hsize : storageSize v = m * (m + 1) / 2 := by
    unfold storageSize
    simp [hshape, hs]
  have hnd : ((assignedPairs v m m).map (fun p => storageIndex v [p.1, p.2])).Nodup := by
    apply List.Nodup.map_on
    · intro p hp q hq hpq
      rw [mem_assignedPairs v hsym] at hp hq
      rw [hidx, hidx] at hpq
      obtain ⟨h1, h2⟩ := symIndexToSeq_inj m p.1 p.2 q.1 q.2 hp.1 hp.2 hq.1 hq.2 hpq
      exact Prod.ext h1 h2
    · exact (pairs_nodup m m).filter _
  rw [List.perm_ext_iff_of_nodup hnd List.nodup_range]
  intro s
  rw [List.mem_range, hsize, List.mem_map]
  constructor
  · rintro ⟨p, hp, rfl⟩
    rw [mem_assignedPairs v hsym] at hp
    rw [hidx]
    exact symIndexToSeq_lt m p.1 p.2 (by omega) hp.2
  · intro hslt
    obtain ⟨i, j, hij, hj, rfl⟩ := symIndexToSeq_surj m s hslt
    exact ⟨(i, j), (mem_assignedPairs v hsym m (i, j)).2 ⟨hij, hj⟩, hidx (i, j)⟩

end Pyiga.Layout
