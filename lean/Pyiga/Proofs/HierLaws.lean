/-
L-hier, abstract part: the invariants of `HSpace.refine` over an abstract nested mesh
hierarchy (`Ops` + `Laws`), by induction over the list of levels.
-/
import Pyiga.Proofs.HierSets
import Pyiga.Proofs.Index

namespace Pyiga.Hier

/-- What the refinement algorithm needs from the mesh hierarchy.  `VC lv c` / `VF lv f`: `c` is a
cell / `f` a basis function of the level-`lv` tensor-product mesh; `par` the parent cell. -/
structure Laws (O : Ops) (VC VF : Nat → Idx → Prop) (par : Idx → Idx) : Prop where
  supportedIn_nil : ∀ lv, O.supportedIn lv [] = []
  supportedIn_nodup : ∀ lv cells, (O.supportedIn lv cells).Nodup
  /-- children partition the parent: a fine cell is a child of exactly its parent -/
  mem_children : ∀ lv cells c', (∀ c ∈ cells, VC lv c) →
      (c' ∈ O.children lv cells ↔ VC (lv + 1) c' ∧ par c' ∈ cells)
  /-- `supported_in` is the converse of `support` -/
  mem_supportedIn : ∀ lv cells f, (∀ c ∈ cells, VC lv c) →
      (f ∈ O.supportedIn lv cells ↔ VF lv f ∧ ∃ c ∈ cells, c ∈ O.support lv [f])
  support_valid : ∀ lv f c, VF lv f → c ∈ O.support lv [f] → VC lv c
  support_nonempty : ∀ lv f, VF lv f → ∃ c, c ∈ O.support lv [f]
  support_nil : ∀ lv, O.support lv [] = []
  parent_nil : ∀ lv, O.parent lv [] = []
  par_valid : ∀ lv c, VC (lv + 1) c → VC lv (par c)

/-! the concrete hierarchy: dyadic refinement of tensor products of 1-D knot vectors -/

/-- `c` is a cell multi-index of the level-`lv` tensor-product mesh -/
def VCtp (kvs : Mesh) (lv : Nat) (c : Idx) : Prop := Index.Below c ((meshAt kvs lv).map KV.numspans)
/-- `f` is a function multi-index of the level-`lv` tensor-product mesh -/
def VFtp (kvs : Mesh) (lv : Nat) (f : Idx) : Prop := Index.Below f ((meshAt kvs lv).map KV.numdofs)
/-- parent cell under dyadic refinement -/
def parTp (c : Idx) : Idx := c.map (· / 2)
/-- a knot vector as `np.unique` reports it: at least one knot, every multiplicity in `1..p+1` -/
def GoodKV (kv : KV) : Prop := kv.mults ≠ [] ∧ ∀ m ∈ kv.mults, 1 ≤ m ∧ m ≤ kv.p + 1

/-- Well-formedness of one level relative to its refinement region `Ω` (= `Ω^lv`):
tiling clause (`cover`, `disj`) and the Kraft selection rule (`actfun_iff`, `deactfun_iff`). -/
structure LevelOK (O : Ops) (VF : Nat → Idx → Prop) (lv : Nat) (Ω : Idx → Prop) (l : Level) : Prop where
  cover : ∀ c, (c ∈ l.act ∨ c ∈ l.deact) ↔ Ω c
  disj : ∀ c, c ∈ l.act → c ∉ l.deact
  actfun_iff : ∀ f, f ∈ l.actfun ↔ VF lv f ∧ (∀ c ∈ O.support lv [f], c ∈ l.act ∨ c ∈ l.deact) ∧
      ¬ (∀ c ∈ O.support lv [f], c ∈ l.deact)
  deactfun_iff : ∀ f, f ∈ l.deactfun ↔ VF lv f ∧ (∀ c ∈ O.support lv [f], c ∈ l.deact)
  nd_act : l.act.Nodup
  nd_deact : l.deact.Nodup
  nd_actfun : l.actfun.Nodup
  nd_deactfun : l.deactfun.Nodup

theorem LevelOK.congr {O : Ops} {VF : Nat → Idx → Prop} {lv : Nat} {Ω Ω' : Idx → Prop} {l : Level}
    (h : LevelOK O VF lv Ω l) (e : ∀ c, Ω c ↔ Ω' c) : LevelOK O VF lv Ω' l :=
  { h with cover := fun c => (h.cover c).trans (e c) }

/-- the net effect of one `HSpace.refine` on level `lv` -/
def stepLevel (O : Ops) (M : Marks) (lv : Nat) (l : Level) : Level :=
  actF (fun _ => mfOf O M lv (hmeshF M lv (hmeshG O M lv l))) lv
    (actG O M lv (hmeshF M lv (hmeshG O M lv l)))

section step
variable {O : Ops} {VC VF : Nat → Idx → Prop} {par : Idx → Idx}

theorem mem_step_act (M : Marks) (lv : Nat) (l : Level) (c : Idx) :
    c ∈ (stepLevel O M lv l).act ↔ (c ∈ l.act ∨ c ∈ newCells O M lv) ∧ c ∉ getM M lv := by
  simp [stepLevel, actF, actG, hmeshF, hmeshG]

theorem mem_step_deact (M : Marks) (lv : Nat) (l : Level) (c : Idx) :
    c ∈ (stepLevel O M lv l).deact ↔ c ∈ l.deact ∨ c ∈ getM M lv := by
  simp [stepLevel, actF, actG, hmeshF, hmeshG]

theorem step_deact_eq (M : Marks) (lv : Nat) (l : Level) :
    (stepLevel O M lv l).deact = union l.deact (dedup (getM M lv)) := rfl

theorem levelOK_step (L : Laws O VC VF par) (M : Marks) (lv : Nat) (Ω : Idx → Prop) (l : Level)
    (h : LevelOK O VF lv Ω l) (hΩ : ∀ c, Ω c → VC lv c)
    (hM : ∀ c ∈ getM M lv, c ∈ l.act)
    (hncv : ∀ c ∈ newCells O M lv, VC lv c) (hncd : ∀ c ∈ newCells O M lv, ¬ Ω c) :
    LevelOK O VF lv (fun c => Ω c ∨ c ∈ newCells O M lv) (stepLevel O M lv l) := by
  -- abbreviations for the refined mesh level
  have hact := mem_step_act (O := O) M lv l
  have hdeact := mem_step_deact (O := O) M lv l
  have hmv : ∀ c ∈ getM M lv, VC lv c := fun c hc => hΩ c ((h.cover c).1 (Or.inl (hM c hc)))
  have hcover : ∀ c, (c ∈ (stepLevel O M lv l).act ∨ c ∈ (stepLevel O M lv l).deact) ↔
      (Ω c ∨ c ∈ newCells O M lv) := by
    intro c
    rw [hact, hdeact]
    constructor
    · rintro (⟨h1 | h1, _⟩ | h1 | h1)
      · exact Or.inl ((h.cover c).1 (Or.inl h1))
      · exact Or.inr h1
      · exact Or.inl ((h.cover c).1 (Or.inr h1))
      · exact Or.inl ((h.cover c).1 (Or.inl (hM c h1)))
    · intro hc
      by_cases hm : c ∈ getM M lv
      · exact Or.inr (Or.inr hm)
      · rcases hc with hc | hc
        · rcases (h.cover c).2 hc with h1 | h1
          · exact Or.inl ⟨Or.inl h1, hm⟩
          · exact Or.inr (Or.inl h1)
        · exact Or.inl ⟨Or.inr hc, hm⟩
  have hdisj : ∀ c, c ∈ (stepLevel O M lv l).act → c ∉ (stepLevel O M lv l).deact := by
    intro c
    rw [hact, hdeact]
    rintro ⟨h1, h2⟩ (h3 | h3)
    · rcases h1 with h1 | h1
      · exact h.disj c h1 h3
      · exact hncd c h1 ((h.cover c).1 (Or.inr h3))
    · exact h2 h3
  -- the two function sets computed by the call
  have hmf : ∀ f, f ∈ mfOf O M lv (hmeshF M lv (hmeshG O M lv l)) ↔
      f ∈ l.actfun ∧ (∃ c ∈ getM M lv, c ∈ O.support lv [f]) ∧
        (∀ c ∈ O.support lv [f], c ∉ (stepLevel O M lv l).act) := by
    intro f
    have hact' : ∀ c, c ∈ (hmeshF M lv (hmeshG O M lv l)).act ↔ c ∈ (stepLevel O M lv l).act := by
      intro c; simp [stepLevel, actF, actG]
    unfold mfOf
    split
    · rename_i he
      have he' := isEmpty_iff_forall_not_mem.1 he
      simp only [List.not_mem_nil, false_iff]
      rintro ⟨_, ⟨c, hc, _⟩, _⟩
      exact he' c hc
    · simp only [List.mem_filter, mem_inter, isEmpty_iff_forall_not_mem, L.mem_supportedIn lv _ f hmv]
      have haf : (hmeshF M lv (hmeshG O M lv l)).actfun = l.actfun := rfl
      rw [haf]
      constructor
      · rintro ⟨⟨⟨_, hex⟩, hf⟩, hall⟩
        exact ⟨hf, hex, fun c hc hc' => hall c ⟨hc, (hact' c).2 hc'⟩⟩
      · rintro ⟨hf, hex, hall⟩
        exact ⟨⟨⟨((h.actfun_iff f).1 hf).1, hex⟩, hf⟩, fun c ⟨hc, hc'⟩ => hall c hc ((hact' c).1 hc')⟩
  have hactfun : ∀ f, f ∈ (stepLevel O M lv l).actfun ↔
      (f ∈ l.actfun ∨ (VF lv f ∧ (∃ c ∈ newCells O M lv, c ∈ O.support lv [f]) ∧ f ∉ l.actfun ∧
          ∀ c ∈ O.support lv [f], c ∈ (stepLevel O M lv l).act ∨ c ∈ (stepLevel O M lv l).deact)) ∧
        f ∉ mfOf O M lv (hmeshF M lv (hmeshG O M lv l)) := by
    intro f
    have e1 : ∀ c, c ∈ (hmeshF M lv (hmeshG O M lv l)).act ↔ c ∈ (stepLevel O M lv l).act := by
      intro c; simp [stepLevel, actF, actG]
    have e2 : ∀ c, c ∈ (hmeshF M lv (hmeshG O M lv l)).deact ↔ c ∈ (stepLevel O M lv l).deact := by
      intro c; simp [stepLevel, actF, actG]
    have haf : (hmeshF M lv (hmeshG O M lv l)).actfun = l.actfun := rfl
    simp only [stepLevel, actF, actG, mem_diff, mem_union, List.mem_filter, subset_iff, haf,
      L.mem_supportedIn lv _ f hncv]
    constructor
    · rintro ⟨h1 | ⟨⟨⟨hv, hex⟩, hn⟩, hs⟩, h2⟩
      · exact ⟨Or.inl h1, h2⟩
      · exact ⟨Or.inr ⟨hv, hex, hn, fun c hc => (hs c hc).imp (e1 c).1 (e2 c).1⟩, h2⟩
    · rintro ⟨h1 | ⟨hv, hex, hn, hs⟩, h2⟩
      · exact ⟨Or.inl h1, h2⟩
      · exact ⟨Or.inr ⟨⟨⟨hv, hex⟩, hn⟩, fun c hc => (hs c hc).imp (e1 c).2 (e2 c).2⟩, h2⟩
  have hdeactfun : ∀ f, f ∈ (stepLevel O M lv l).deactfun ↔
      f ∈ l.deactfun ∨ f ∈ mfOf O M lv (hmeshF M lv (hmeshG O M lv l)) := by
    intro f
    have hdf : (hmeshF M lv (hmeshG O M lv l)).deactfun = l.deactfun := rfl
    simp [stepLevel, actF, actG, hdf]
  refine ⟨hcover, hdisj, ?_, ?_, ?_, ?_, ?_, ?_⟩
  · -- selection rule, active functions
    intro f
    rw [hactfun, hmf]
    constructor
    · rintro ⟨h1 | ⟨hv, ⟨c0, hc0, hc0s⟩, hn, hs⟩, h2⟩
      · obtain ⟨hv, hin, hnd⟩ := (h.actfun_iff f).1 h1
        refine ⟨hv, fun c hc => (hcover c).2 (Or.inl ((h.cover c).1 (hin c hc))), ?_⟩
        intro hall
        apply h2
        refine ⟨h1, ?_, fun c hc hc' => hdisj c hc' (hall c hc)⟩
        apply Classical.byContradiction
        intro hne
        apply hnd
        intro c hc
        rcases (hdeact c).1 (hall c hc) with h3 | h3
        · exact h3
        · exact absurd ⟨c, h3, hc⟩ hne
      · refine ⟨hv, hs, ?_⟩
        intro hall
        rcases (hdeact c0).1 (hall c0 hc0s) with h3 | h3
        · exact hncd c0 hc0 ((h.cover c0).1 (Or.inr h3))
        · exact hncd c0 hc0 ((h.cover c0).1 (Or.inl (hM c0 h3)))
    · rintro ⟨hv, hcov, hnd⟩
      refine ⟨?_, ?_⟩
      · by_cases hS : ∀ c ∈ O.support lv [f], Ω c
        · left
          refine (h.actfun_iff f).2 ⟨hv, fun c hc => (h.cover c).2 (hS c hc), ?_⟩
          intro hall
          exact hnd (fun c hc => (hdeact c).2 (Or.inl (hall c hc)))
        · right
          have : ∃ c, c ∈ O.support lv [f] ∧ ¬ Ω c := by
            apply Classical.byContradiction
            intro hne
            apply hS
            intro c hc
            apply Classical.byContradiction
            intro hn
            exact hne ⟨c, hc, hn⟩
          obtain ⟨c, hc, hn⟩ := this
          have hcn : c ∈ newCells O M lv := by
            rcases (hcover c).1 (hcov c hc) with h3 | h3
            · exact absurd h3 hn
            · exact h3
          refine ⟨hv, ⟨c, hcn, hc⟩, ?_, hcov⟩
          intro hf
          exact hn ((h.cover c).1 (((h.actfun_iff f).1 hf).2.1 c hc))
      · rintro ⟨_, _, hall⟩
        apply hnd
        intro c hc
        rcases hcov c hc with h3 | h3
        · exact absurd h3 (hall c hc)
        · exact h3
  · -- selection rule, deactivated functions
    intro f
    rw [hdeactfun, hmf]
    constructor
    · rintro (h1 | ⟨h1, _, hall⟩)
      · obtain ⟨hv, hin⟩ := (h.deactfun_iff f).1 h1
        exact ⟨hv, fun c hc => (hdeact c).2 (Or.inl (hin c hc))⟩
      · obtain ⟨hv, hin, _⟩ := (h.actfun_iff f).1 h1
        refine ⟨hv, fun c hc => ?_⟩
        rcases (hcover c).2 (Or.inl ((h.cover c).1 (hin c hc))) with h3 | h3
        · exact absurd h3 (hall c hc)
        · exact h3
    · rintro ⟨hv, hall⟩
      by_cases hS : ∀ c ∈ O.support lv [f], c ∈ l.deact
      · exact Or.inl ((h.deactfun_iff f).2 ⟨hv, hS⟩)
      · right
        have : ∃ c, c ∈ O.support lv [f] ∧ c ∉ l.deact := by
          apply Classical.byContradiction
          intro hne
          apply hS
          intro c hc
          apply Classical.byContradiction
          intro hn
          exact hne ⟨c, hc, hn⟩
        obtain ⟨c, hc, hn⟩ := this
        have hcm : c ∈ getM M lv := by
          rcases (hdeact c).1 (hall c hc) with h3 | h3
          · exact absurd h3 hn
          · exact h3
        refine ⟨(h.actfun_iff f).2 ⟨hv, ?_, hS⟩, ⟨c, hcm, hc⟩, fun c' hc' h4 => hdisj c' h4 (hall c' hc')⟩
        intro c' hc'
        rcases (hdeact c').1 (hall c' hc') with h3 | h3
        · exact Or.inr h3
        · exact Or.inl (hM c' h3)
  · exact nodup_diff (nodup_union h.nd_act (nodup_dedup _))
  · exact nodup_union h.nd_deact (nodup_dedup _)
  · refine nodup_diff (nodup_union h.nd_actfun ?_)
    exact (nodup_diff (L.supportedIn_nodup _ _)).filter _
  · refine nodup_union h.nd_deactfun ?_
    unfold mfOf
    split
    · exact List.nodup_nil
    · exact (nodup_inter (L.supportedIn_nodup _ _)).filter _

end step

end Pyiga.Hier
