/-
Data layout of a Kronecker-structured matrix: for `S = from_kronecker(As)` the entry of the compact data
tensor with index `μ` sits at a position `(I, J)` where the dense Kronecker product has the value
`∏_k A_k.data[μ_k]` -- so a data tensor filled with the outer product of the factors' stored values denotes
exactly the Kronecker product (any number of factors, rectangular factors).
-/
import Pyiga.Proofs.MLMatrix2

namespace Pyiga.ML
open Pyiga.Index

/-- a sparse factor as scipy hands it over: stored positions in range and pairwise distinct -/
def SpMat.WF (A : SpMat) : Prop :=
  (∀ e ∈ A.ent, e.1 < A.m ∧ e.2.1 < A.n) ∧ (A.ent.map (fun e => (e.1, e.2.1))).Nodup

/-- looking up the position of the `m`-th stored entry finds that entry's value -/
theorem get_of_getD : ∀ (ent : List (Nat × Nat × Int)) (m : Nat), m < ent.length →
    (ent.map (fun e => (e.1, e.2.1))).Nodup →
    ((ent.find? (fun e => e.1 = ((ent.map (fun e => (e.1, e.2.1))).getD m (0, 0)).1 ∧
                          e.2.1 = ((ent.map (fun e => (e.1, e.2.1))).getD m (0, 0)).2)).map (·.2.2)).getD 0
      = (ent.getD m (0, 0, 0)).2.2
  | [], _, h, _ => by simp at h
  | e :: ent, 0, _, _ => by simp [List.find?_cons]
  | e :: ent, m + 1, h, hn => by
    have hlt : m < ent.length := by simpa using h
    rw [List.map_cons, List.nodup_cons] at hn
    have hmem : (ent.map (fun e => (e.1, e.2.1))).getD m (0, 0) ∈ ent.map (fun e => (e.1, e.2.1)) := by
      rw [List.getD_eq_getElem?_getD, List.getElem?_eq_getElem (by simpa using hlt)]
      exact List.getElem_mem _
    have hne : ¬ (e.1 = ((ent.map (fun e => (e.1, e.2.1))).getD m (0, 0)).1 ∧
                  e.2.1 = ((ent.map (fun e => (e.1, e.2.1))).getD m (0, 0)).2) := by
      intro hc
      apply hn.1
      have : (e.1, e.2.1) = (ent.map (fun e => (e.1, e.2.1))).getD m (0, 0) := Prod.ext hc.1 hc.2
      rw [this]; exact hmem
    simp only [List.map_cons, List.getD_cons_succ, List.find?_cons]
    rw [show decide (e.1 = ((ent.map (fun e => (e.1, e.2.1))).getD m (0, 0)).1 ∧
              e.2.1 = ((ent.map (fun e => (e.1, e.2.1))).getD m (0, 0)).2) = false from decide_eq_false hne]
    exact get_of_getD ent m hlt hn.2

theorem getD_pos_in_range (A : SpMat) (hwf : A.WF) (m : Nat) (hm : m < A.ent.length) :
    ((A.ent.map (fun e => (e.1, e.2.1))).getD m (0, 0)).1 < A.m ∧
    ((A.ent.map (fun e => (e.1, e.2.1))).getD m (0, 0)).2 < A.n := by
  rw [List.getD_eq_getElem?_getD, List.getElem?_map, List.getElem?_eq_getElem hm]
  exact hwf.1 _ (List.getElem_mem hm)

/-- per-level lookups of the selected digits give the selected stored values; the digits are in range -/
theorem kron_lookup : ∀ (As : List SpMat) (μ : List Nat), (∀ A ∈ As, A.WF) →
    Below μ (As.map (fun A => A.ent.length)) →
    (As.zip ((selI (As.map (fun A => A.ent.map (fun e => (e.1, e.2.1)))) μ).zip
             (selJ (As.map (fun A => A.ent.map (fun e => (e.1, e.2.1)))) μ))).map
        (fun (a : SpMat × Nat × Nat) => a.1.get a.2.1 a.2.2)
      = (As.zip μ).map (fun (am : SpMat × Nat) => (am.1.ent.getD am.2 (0, 0, 0)).2.2)
    ∧ Below (selI (As.map (fun A => A.ent.map (fun e => (e.1, e.2.1)))) μ) (As.map (·.m))
    ∧ Below (selJ (As.map (fun A => A.ent.map (fun e => (e.1, e.2.1)))) μ) (As.map (·.n))
  | [], [], _, _ => by simp [selI, selJ, Below]
  | [], _ :: _, _, h => by simp [Below] at h
  | _ :: _, [], _, h => by simp [Below] at h
  | A :: As, m :: μ, hwf, hb => by
    have hA := hwf A (List.mem_cons_self ..)
    have hrest := kron_lookup As μ (fun B hB => hwf B (List.mem_cons_of_mem _ hB)) hb.2
    have hr := getD_pos_in_range A hA m hb.1
    simp only [List.map_cons, selI, selJ, sel_cons, List.zip_cons_cons, Below] at *
    refine ⟨?_, ⟨hr.1, hrest.2.1⟩, ⟨hr.2, hrest.2.2⟩⟩
    rw [hrest.1]
    congr 1
    exact get_of_getD A.ent m hb.1 hA.2

/-- **data layout of a Kronecker product** -/
theorem kron_value_at (As : List SpMat) (hwf : ∀ A ∈ As, A.WF) (μ : List Nat)
    (hμ : Below μ (fromKronecker As).NN) :
    kronValue As ((fromKronecker As).entryAt μ).1 ((fromKronecker As).entryAt μ).2
      = ((As.zip μ).map (fun (am : SpMat × Nat) => (am.1.ent.getD am.2 (0, 0, 0)).2.2)).foldl (· * ·) 1 := by
  have hNN : (fromKronecker As).NN = As.map (fun A => A.ent.length) := by
    simp [fromKronecker, MLStructure.NN, Function.comp_def]
  rw [hNN] at hμ
  obtain ⟨hval, hI, hJ⟩ := kron_lookup As μ hwf hμ
  have hbidx : (fromKronecker As).bidx = As.map (fun A => A.ent.map (fun e => (e.1, e.2.1))) := rfl
  have hrows : (fromKronecker As).rows = As.map (·.m) := by
    simp [fromKronecker, MLStructure.rows, Function.comp_def]
  have hcols : (fromKronecker As).cols = As.map (·.n) := by
    simp [fromKronecker, MLStructure.cols, Function.comp_def]
  rw [entryAt_eq, hbidx, hrows, hcols]
  unfold kronValue
  simp only
  rw [fromSeq_toSeq _ _ hI, fromSeq_toSeq _ _ hJ, hval]

end Pyiga.ML
