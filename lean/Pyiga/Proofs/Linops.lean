/-
`_apply_kronecker_linops`: the column-major sweeps.  The Fortran-order flat buffer of the `(N, n)`
array is the row-major tensor of shape `n :: dims` (right-hand-side index first); one sweep contracts the
last axis and re-inserts the new axis at position 1, i.e. `stepF` with `dst = 1` — so the whole loop is
`loopF_spec` with `head = [k]`.
-/
import Pyiga.Proofs.KronDense

namespace Pyiga.LA
open Pyiga.Index

section
variable {α : Type} [CommSemiring α]

theorem getD_ofFn {n : Nat} (g : Fin n → α) (i : Nat) (h : i < n) : (Array.ofFn g).getD i 0 = g ⟨i, h⟩ := by
  simp [Array.getD, h]

/-- one sweep, read on the row-major tensor view of the flat buffer -/
theorem sweep_agree (B : Op α) (n sz : Nat) (q : FMat α) (S' : List Nat) (F : List Nat → α)
    (hpos : 0 < B.n) (hsz : sz = prod S' * B.n)
    (hA : Agree ⟨n :: (S' ++ [B.n]), q.data⟩ F) :
    Agree ⟨n :: B.n :: S', (linopsSweep B n sz q).data⟩ (stepF B.ent B.n (1 + S'.length) 1 F) := by
  intro idx hb
  have hb' : Below idx (n :: B.n :: S') := hb
  match idx, hb' with
  | k :: b :: s', hb' =>
    obtain ⟨hk, hbb, hs⟩ := hb'
    set ri := prod S' with hri
    set a := toSeq s' S' with ha
    have hsl : s'.length = S'.length := below_length hs
    have ha_lt : a < ri := toSeq_lt _ _ hs
    have hri_pos : 0 < ri := by omega
    have hdiv : sz / B.n = ri := by rw [hsz]; exact Nat.mul_div_cancel _ hpos
    have hf : toSeq (k :: b :: s') (n :: B.n :: S') = ri * (k * B.n + b) + a := by
      rw [toSeq_cons _ _ _ _ (by simp [hsl]), toSeq_cons _ _ _ _ hsl, prod_cons]
      ring
    have hlt : ri * (k * B.n + b) + a < ri * (n * B.n) := by
      have h1 : k * B.n + b < n * B.n := by
        calc k * B.n + b < k * B.n + B.n := by omega
          _ = (k + 1) * B.n := by ring
          _ ≤ n * B.n := Nat.mul_le_mul_right _ hk
      calc ri * (k * B.n + b) + a < ri * (k * B.n + b) + ri := by omega
        _ = ri * (k * B.n + b + 1) := by ring
        _ ≤ ri * (n * B.n) := Nat.mul_le_mul_left _ h1
    have hmod : (ri * (k * B.n + b) + a) % ri = a := by
      rw [Nat.mul_add_mod, Nat.mod_eq_of_lt ha_lt]
    have hdv : (ri * (k * B.n + b) + a) / ri = k * B.n + b := by
      rw [Nat.mul_add_div hri_pos, Nat.div_eq_of_lt ha_lt, Nat.add_zero]
    have hk' : (k * B.n + b) / B.n = k := by
      rw [Nat.mul_comm k, Nat.mul_add_div hpos, Nat.div_eq_of_lt hbb, Nat.add_zero]
    have hb'' : (k * B.n + b) % B.n = b := by
      rw [Nat.mul_comm k, Nat.mul_add_mod, Nat.mod_eq_of_lt hbb]
    -- the source entries
    have hsrc : ∀ j, j < B.n → q.data.getD (j + B.n * (k * ri + a)) 0 = F (k :: (s' ++ [j])) := by
      intro j hj
      have hbj : Below (k :: (s' ++ [j])) (n :: (S' ++ [B.n])) :=
        ⟨hk, below_append hs (show Below [j] [B.n] from ⟨hj, trivial⟩)⟩
      rw [← hA _ hbj]
      unfold Tensor.get
      simp only
      congr 1
      have : k :: (s' ++ [j]) = (k :: s') ++ [j] := rfl
      rw [this, show n :: (S' ++ [B.n]) = (n :: S') ++ [B.n] from rfl,
        toSeq_append_singleton _ _ _ _ (by simp [hsl]), toSeq_cons _ _ _ _ hsl]
      ring
    -- evaluate the sweep at the flat position
    rw [stepF_apply]
    simp only [List.getD_cons_succ, List.getD_cons_zero, List.eraseIdx_cons_succ, List.eraseIdx_cons_zero]
    have hins : ∀ j, insertAt (1 + S'.length) j (k :: s') = k :: (s' ++ [j]) := by
      intro j
      have := insertAt_length_append (k :: s') [] j
      simp only [List.length_cons, List.append_nil] at this
      rw [show 1 + S'.length = s'.length + 1 by omega, this]
      rfl
    simp only [hins]
    unfold Tensor.get
    simp only
    rw [hf]
    unfold linopsSweep
    simp only
    rw [getD_ofFn _ _ (by rw [hdiv]; exact hlt)]
    simp only [hdiv, hmod, hdv, hk', hb'']
    by_cases hn1 : n = 1
    · have hk0 : k = 0 := by omega
      subst hk0
      rw [if_pos hn1, sumRange_eq_sum]
      apply Finset.sum_congr rfl
      intro j hj
      simp only [Nat.zero_mul, Nat.zero_add]
      rw [← hsrc j (Finset.mem_range.1 hj)]
      simp [FMat.get]
    · rw [if_neg hn1, sumRange_eq_sum]
      apply Finset.sum_congr rfl
      intro j hj
      rw [← hsrc j (Finset.mem_range.1 hj)]
      simp [FMat.get]

/-- the factors of a list of square operands as `(entries, size)` pairs -/
def sqFacs (ops : List (Op α)) : List ((Nat → Nat → α) × Nat) := ops.map (fun B => (B.ent, B.n))

/-- all sweeps, for a suffix `ops` of the factor list; `pre` = extents of the not yet processed prefix -/
theorem sweeps_agree (n sz : Nat) : ∀ (ops : List (Op α)) (pre : List Nat) (q : FMat α) (F : List Nat → α),
    (∀ B ∈ ops, 0 < B.n) → sz = prod pre * prod (ops.map (·.n)) →
    Agree ⟨n :: (pre ++ ops.map (·.n)), q.data⟩ F →
    Agree ⟨n :: (ops.map (·.n) ++ pre), (ops.foldr (fun B q => linopsSweep B n sz q) q).data⟩
      (loopF (sqFacs ops) (pre.length + ops.length) 1 F)
  | [], pre, q, F, _, _, hA => by simpa [loopF, sqFacs] using hA
  | B :: ops, pre, q, F, hpos, hsz, hA => by
    have ih := sweeps_agree n sz ops (pre ++ [B.n]) q F (fun C hC => hpos C (List.mem_cons_of_mem _ hC))
      (by rw [hsz, prod_append]; simp [prod_cons, Nat.mul_assoc])
      (by simpa using hA)
    have hstep := sweep_agree B n sz (ops.foldr (fun B q => linopsSweep B n sz q) q) (ops.map (·.n) ++ pre)
      (loopF (sqFacs ops) ((pre ++ [B.n]).length + ops.length) 1 F) (hpos B List.mem_cons_self)
      (by rw [hsz, prod_append]; simp only [List.map_cons, prod_cons]; ring)
      (by simpa using ih)
    have e1 : 1 + (ops.map (·.n) ++ pre).length = pre.length + (B :: ops).length := by
      simp only [List.length_append, List.length_map, List.length_cons]; omega
    have e2 : (pre ++ [B.n]).length + ops.length = pre.length + (B :: ops).length := by
      simp only [List.length_append, List.length_cons, List.length_nil]; omega
    rw [e1, e2] at hstep
    simpa [loopF, sqFacs] using hstep

theorem prod_pos_of_all_pos : ∀ (ds : List Nat), (∀ d ∈ ds, 0 < d) → 0 < prod ds
  | [], _ => by simp
  | d :: ds, h => by
    rw [prod_cons]
    exact Nat.mul_pos (h d List.mem_cons_self) (prod_pos_of_all_pos ds (fun e he => h e (List.mem_cons_of_mem _ he)))

/-- the general branch (≥ 2 factors) of `applyKroneckerLinops`, restated for an arbitrary list -/
def linopsBody (ops : List (Op α)) (x : Tensor α) : Except Err (Tensor α) :=
  let sz := prod (ops.map (·.m))
  match x.shape with
  | [] => .error .index
  | N :: rest =>
    if sz ≠ N then .error .assertion else
    if rest.length > 1 then .error .value else
    let n := rest.headD 1
    let q0 : FMat α := { r := N, c := n, data := Array.ofFn (n := N * n) (fun f =>
        x.data.getD ((f.val % N) * n + f.val / N) 0) }
    if ops.any (fun B => B.m ≠ B.n) then .error .value else
    let q := ops.foldr (fun B q => linopsSweep B n sz q) q0
    .ok (Tensor.ofFn x.shape (fun idx =>
      let i := idx.getD 0 0
      let k := idx.getD 1 0
      q.data.getD (i + N * k) 0))

theorem linops_unfold (B1 B2 : Op α) (rest : List (Op α)) (x : Tensor α) :
    applyKroneckerLinops (B1 :: B2 :: rest) x = linopsBody (B1 :: B2 :: rest) x := rfl

theorem linopsBody_spec (ops : List (Op α)) (x : Tensor α) (nrhs : Nat)
    (hsq : ∀ B ∈ ops, B.m = B.n) (hx : x.shape = [prod (ops.map (·.n)), nrhs]) :
    ∃ T, linopsBody ops x = .ok T ∧ T.shape = x.shape ∧
      ∀ i k, Below i (ops.map (·.n)) → k < nrhs →
        T.get [toSeq i (ops.map (·.n)), k]
          = boxSum (ops.map (·.n)) (fun j => kronEntry (ops.map (·.ent)) i j * x.get [toSeq j (ops.map (·.n)), k]) := by
  have hmn : ops.map (·.m) = ops.map (·.n) := List.map_congr_left (fun B hB => hsq B hB)
  have hany : ops.any (fun B => decide (B.m ≠ B.n)) = false := by
    rw [List.any_eq_false]
    intro B hB
    simp [hsq B hB]
  generalize hdims : ops.map (·.n) = dims at hx hmn ⊢
  generalize hN : prod dims = N at hx ⊢
  unfold linopsBody
  simp only [hx, hmn, hN, ne_eq, not_true_eq_false, if_false, List.length_cons, List.length_nil,
    Nat.lt_irrefl, List.headD_cons, hany, Bool.false_eq_true]
  refine ⟨_, rfl, rfl, ?_⟩
  intro i k hi hk
  have hI : toSeq i dims < N := by rw [← hN]; exact toSeq_lt _ _ hi
  rw [Tensor.get_ofFn _ _ _ (show Below [toSeq i dims, k] [N, nrhs] from ⟨hI, hk, trivial⟩)]
  simp only [List.getD_cons_zero, List.getD_cons_succ]
  have hNpos : 0 < N := by omega
  have hposd : ∀ d ∈ dims, 0 < d := pos_of_prod_pos dims (by omega)
  have hpos : ∀ B ∈ ops, 0 < B.n := fun B hB => hposd B.n (by rw [← hdims]; exact List.mem_map.2 ⟨B, hB, rfl⟩)
  -- the initial buffer is the row-major tensor `G[k, j…] = x[J, k]`
  generalize hF : (fun idx : List Nat => x.get [toSeq idx.tail dims, idx.headD 0]) = F
  generalize hq0 : ({ r := N, c := nrhs, data := Array.ofFn (n := N * nrhs) (fun f =>
      x.data.getD ((f.val % N) * nrhs + f.val / N) 0) } : FMat α) = q0
  have hA0 : Agree ⟨nrhs :: ([] ++ ops.map (·.n)), q0.data⟩ F := by
    intro idx hb
    have hb' : Below idx (nrhs :: dims) := by simpa [hdims] using hb
    match idx, hb' with
    | k' :: j, hb' =>
      have hJ : toSeq j dims < N := by rw [← hN]; exact toSeq_lt _ _ hb'.2
      have hfl : toSeq (k' :: j) (nrhs :: dims) = N * k' + toSeq j dims := by
        rw [toSeq_cons _ _ _ _ (below_length hb'.2), hN]; ring
      have hlt : N * k' + toSeq j dims < N * nrhs := by
        calc N * k' + toSeq j dims < N * k' + N := by omega
          _ = N * (k' + 1) := by ring
          _ ≤ N * nrhs := Nat.mul_le_mul_left _ hb'.1
      unfold Tensor.get
      simp only [List.nil_append, hdims]
      rw [hfl, ← hq0]
      simp only
      rw [getD_ofFn _ _ hlt]
      simp only [Nat.mul_add_mod, Nat.mod_eq_of_lt hJ, Nat.mul_add_div hNpos, Nat.div_eq_of_lt hJ, Nat.add_zero,
        ← hF, List.tail_cons, List.headD_cons]
      unfold Tensor.get
      rw [hx, toSeq_pair]
  have hfin := sweeps_agree nrhs N ops [] q0 F hpos (by simp [hdims, hN]) hA0
  have hval := hfin (k :: i) (by
    show Below (k :: i) (nrhs :: (ops.map (·.n) ++ []))
    rw [hdims, List.append_nil]; exact ⟨hk, hi⟩)
  unfold Tensor.get at hval
  simp only [hdims, List.append_nil, List.length_nil, Nat.zero_add] at hval
  rw [toSeq_cons _ _ _ _ (below_length hi), hN] at hval
  have hidx : toSeq i dims + N * k = k * N + toSeq i dims := by ring
  rw [hidx, hval]
  have hil : i.length = (sqFacs ops).length := by
    have := below_length hi
    rw [← hdims] at this
    simpa [sqFacs] using this
  have hsrc : ops.length + 1 = [k].length + ([] : List Nat).length + (sqFacs ops).length := by
    simp only [sqFacs, List.length_map, List.length_cons, List.length_nil]; omega
  have hspec := loopF_spec (sqFacs ops) F [k] [] i [] ops.length hil hsrc
  simp only [List.length_cons, List.length_nil, List.append_nil, List.singleton_append, Nat.zero_add] at hspec
  rw [hspec]
  have m1 : (sqFacs ops).map (·.2) = dims := by rw [← hdims]; simp [sqFacs]
  have m2 : (sqFacs ops).map (·.1) = ops.map (·.ent) := by simp [sqFacs]
  rw [m1, m2]
  apply boxSum_congr
  intro j
  simp [← hF]

/-- **`_apply_kronecker_linops`** for ≥ 2 square factors and an `(N, n)` right-hand side -/
theorem applyKroneckerLinops_spec (ops : List (Op α)) (x : Tensor α) (nrhs : Nat)
    (hlen : 2 ≤ ops.length) (hsq : ∀ B ∈ ops, B.m = B.n)
    (hx : x.shape = [prod (ops.map (·.n)), nrhs]) :
    ∃ T, applyKroneckerLinops ops x = .ok T ∧ T.shape = x.shape ∧
      ∀ i k, Below i (ops.map (·.n)) → k < nrhs →
        T.get [toSeq i (ops.map (·.n)), k]
          = boxSum (ops.map (·.n)) (fun j => kronEntry (ops.map (·.ent)) i j * x.get [toSeq j (ops.map (·.n)), k]) := by
  match ops, hlen, hsq, hx with
  | B1 :: B2 :: rest, _, hsq, hx =>
    rw [linops_unfold]
    exact linopsBody_spec (B1 :: B2 :: rest) x nrhs hsq hx

end
end Pyiga.LA
