/-
C08 `sym_equiv`: lower-triangular enumeration plus mirrored strict lower part = full enumeration,
as finite maps (COO duplicate summation); the skip test of the vector core; block transposition.
-/
import Pyiga.Model.Assembler
import Pyiga.Proofs.Index
import Mathlib.Algebra.BigOperators.Group.List.Basic
import Mathlib.Data.List.Count
import Mathlib.Data.List.Nodup
import Mathlib.Data.List.GetD
import Mathlib.Tactic.Linarith

namespace Pyiga.Asm
open Pyiga.ML

section coo
variable {α : Type} [AddCommMonoid α]

theorem foldl_add_eq (l : Triples α) (a : α) :
    l.foldl (fun acc x => acc + x.2.2) a = a + (l.map (·.2.2)).sum := by
  induction l generalizing a with
  | nil => simp
  | cons x xs ih => simp [List.foldl_cons, ih, add_assoc]

theorem cooGet_eq_sum (t : Triples α) (i j : Nat) :
    cooGet t i j = ((t.filter (fun x => x.1 = i ∧ x.2.1 = j)).map (·.2.2)).sum := by
  unfold cooGet
  rw [foldl_add_eq, zero_add]

theorem cooGet_append (t u : Triples α) (i j : Nat) :
    cooGet (t ++ u) i j = cooGet t i j + cooGet u i j := by
  simp [cooGet_eq_sum, List.filter_append]

theorem cooGet_nil (i j : Nat) : cooGet ([] : Triples α) i j = 0 := by
  simp [cooGet_eq_sum]

theorem cooGet_cons (x : Nat × Nat × α) (t : Triples α) (i j : Nat) :
    cooGet (x :: t) i j = (if x.1 = i ∧ x.2.1 = j then x.2.2 else 0) + cooGet t i j := by
  simp only [cooGet_eq_sum, List.filter_cons]
  by_cases h : x.1 = i ∧ x.2.1 = j
  · simp [h]
  · simp [h]

theorem cooGet_map (l : List (Nat × Nat)) (f : Nat → Nat → α) (i j : Nat) :
    cooGet (l.map (fun p => (p.1, p.2, f p.1 p.2))) i j = l.count (i, j) • f i j := by
  induction l with
  | nil => simp [cooGet_nil]
  | cons p ps ih =>
    rw [List.map_cons, cooGet_cons, ih, List.count_cons]
    by_cases h : p = (i, j)
    · subst h; simp [add_nsmul, add_comm, one_nsmul]
    · have : ¬ (p.1 = i ∧ p.2 = j) := fun hh => h (Prod.ext hh.1 hh.2)
      simp [this, h]

theorem cooGet_map_swap (l : List (Nat × Nat)) (f : Nat → Nat → α) (i j : Nat) :
    cooGet (l.map (fun p => (p.2, p.1, f p.1 p.2))) i j = l.count (j, i) • f j i := by
  induction l with
  | nil => simp [cooGet_nil]
  | cons p ps ih =>
    rw [List.map_cons, cooGet_cons, ih, List.count_cons]
    by_cases h : p = (j, i)
    · subst h; simp [add_nsmul, add_comm, one_nsmul]
    · have : ¬ (p.2 = i ∧ p.1 = j) := fun hh => h (Prod.ext hh.2 hh.1)
      simp [this, h]

theorem assembleEntries_full (nz : List (Nat × Nat)) (e : Nat → Nat → α) (i j : Nat) :
    cooGet (assembleEntries nz false e) i j = nz.count (i, j) • e i j := by
  simp only [assembleEntries, MLStructure.lowerFilter, Bool.false_eq_true, if_false]
  exact cooGet_map nz e i j

theorem count_filter_ite {β : Type} [BEq β] [LawfulBEq β] (p : β → Bool) (a : β) (l : List β) :
    (l.filter p).count a = if p a then l.count a else 0 := by
  by_cases h : p a = true
  · rw [List.count_filter h]; simp [h]
  · have : a ∉ l.filter p := fun hm => h (List.mem_filter.1 hm).2
    rw [List.count_eq_zero_of_not_mem this]; simp [h]

theorem assembleEntries_sym (nz : List (Nat × Nat)) (e : Nat → Nat → α)
    (hpat : ∀ i j, nz.count (i, j) = nz.count (j, i)) (he : ∀ i j, e i j = e j i) (i j : Nat) :
    cooGet (assembleEntries nz true e) i j = cooGet (assembleEntries nz false e) i j := by
  rw [assembleEntries_full]
  have hT : assembleEntries nz true e =
      (nz.filter (fun p => p.2 ≤ p.1)).map (fun p => (p.1, p.2, e p.1 p.2)) ++
      ((nz.filter (fun p => p.2 ≤ p.1)).filter (fun p => p.1 ≠ p.2)).map (fun p => (p.2, p.1, e p.1 p.2)) := rfl
  rw [hT, cooGet_append, cooGet_map, cooGet_map_swap]
  simp only [count_filter_ite]
  rcases Nat.lt_trichotomy i j with h | h | h
  · -- strictly upper: comes from the mirrored part
    have h1 : ¬ (j ≤ i) := by omega
    have h2 : i ≤ j := by omega
    have h3 : j ≠ i := by omega
    simp [h1, h2, h3, hpat i j, he i j]
  · subst h
    simp
  · have h1 : j ≤ i := by omega
    have h2 : ¬ (i ≤ j) := by omega
    simp [h1, h2]

theorem cooGet_restrict (l : List (Nat × Nat)) (e : Nat → Nat → α) (i j : Nat) (hnd : l.Nodup) :
    cooGet (l.map (fun p => (p.1, p.2, e p.1 p.2))) i j = if (i, j) ∈ l then e i j else 0 := by
  rw [cooGet_map]
  by_cases h : (i, j) ∈ l
  · rw [List.count_eq_one_of_mem hnd h]; simp [h, one_nsmul]
  · rw [List.count_eq_zero_of_not_mem h]; simp [h]

end coo

def lexGt : List Nat → List Nat → Prop
  | i :: is, j :: js => j > i ∨ (j = i ∧ lexGt is js)
  | _, _ => False

theorem vecSkip_iff (i j : List Nat) : vecSkip i j = true ↔ lexGt i j := by
  induction i generalizing j with
  | nil => simp [vecSkip, lexGt]
  | cons a as ih =>
    cases j with
    | nil => simp [vecSkip, lexGt]
    | cons b bs =>
      simp only [vecSkip, lexGt]
      by_cases h1 : b > a
      · simp [h1]
      · by_cases h2 : b = a
        · subst h2; simp [ih]
        · simp [h1, h2]

theorem lexGt_iff_toSeq (i j dims : List Nat) (hi : Pyiga.Index.Below i dims) (hj : Pyiga.Index.Below j dims) :
    lexGt i j ↔ Pyiga.Index.toSeq j dims > Pyiga.Index.toSeq i dims := by
  induction dims generalizing i j with
  | nil =>
    cases i <;> cases j <;> simp_all [Pyiga.Index.Below, lexGt, Pyiga.Index.toSeq]
  | cons m ms ih =>
    match i, j, hi, hj with
    | a :: as, b :: bs, hi, hj =>
      have la := Pyiga.Index.below_length hi.2
      have lb := Pyiga.Index.below_length hj.2
      rw [Pyiga.Index.toSeq_cons a m as ms la, Pyiga.Index.toSeq_cons b m bs ms lb]
      have ha := Pyiga.Index.toSeq_lt as ms hi.2
      have hb := Pyiga.Index.toSeq_lt bs ms hj.2
      simp only [lexGt]
      rw [ih as bs hi.2 hj.2]
      constructor
      · rintro (h | ⟨rfl, h⟩)
        · have : (a + 1) * Pyiga.Index.prod ms ≤ b * Pyiga.Index.prod ms := Nat.mul_le_mul_right _ h
          rw [Nat.add_mul] at this
          omega
        · omega
      · intro h
        rcases Nat.lt_trichotomy a b with h1 | h1 | h1
        · exact Or.inl h1
        · subst h1; exact Or.inr ⟨rfl, by omega⟩
        · exfalso
          have : (b + 1) * Pyiga.Index.prod ms ≤ a * Pyiga.Index.prod ms := Nat.mul_le_mul_right _ h1
          rw [Nat.add_mul] at this
          omega
    | [], _, hi, _ => simp [Pyiga.Index.Below] at hi
    | _ :: _, [], _, hj => simp [Pyiga.Index.Below] at hj

theorem blockT_getD {α : Type} [Inhabited α] (br bc : Nat) (B : List α) (r c : Nat) (hr : r < br) (hc : c < bc) :
    (blockT br bc B).getD (c * br + r) default = B.getD (r * bc + c) default := by
  unfold blockT
  -- general fact: flatMap over range with constant inner length
  have key : ∀ (n : Nat) (g : Nat → Nat → α) (c : Nat), c < n →
      ((List.range n).flatMap (fun c => (List.range br).map (fun r => g c r))).getD (c * br + r) default = g c r := by
    clear hc c
    intro n g
    have hlenAll : ∀ n, ((List.range n).flatMap (fun c => (List.range br).map (fun r => g c r))).length = n * br := by
      intro n
      induction n with
      | zero => simp
      | succ k ihk => rw [List.range_succ, List.flatMap_append]; simp [ihk, Nat.succ_mul]
    induction n with
    | zero => intro c hc; omega
    | succ n ih =>
      intro c hc
      rw [List.range_succ, List.flatMap_append]
      have hlen := hlenAll n
      by_cases hcn : c < n
      · rw [List.getD_append _ _ _ _ (by rw [hlen]; calc c * br + r < c * br + br := by omega
            _ = (c + 1) * br := by rw [Nat.succ_mul]
            _ ≤ n * br := Nat.mul_le_mul_right _ hcn)]
        exact ih c hcn
      · have : c = n := by omega
        subst this
        rw [List.getD_append_right _ _ _ _ (by rw [hlen]; exact Nat.le_add_right _ _), hlen, Nat.add_sub_cancel_left]
        simp [hr, List.getD_eq_getElem?_getD]
  exact key bc (fun c r => B.getD (r * bc + c) default) c hc

end Pyiga.Asm
