/-
C18: `apply_tprod` / `nway_prod` on arbitrarily nested tensor objects (TensorSum: term by term by linearity;
TensorProd: factor by factor) commutes with expansion.
-/
import Pyiga.Proofs.TensorNway

set_option linter.unusedSectionVars false
set_option linter.unusedSimpArgs false
set_option linter.unusedVariables false

namespace Pyiga.Tensor
open Pyiga.Index
variable {α : Type} [CommRing α]

theorem nwayShape_length : ∀ (ops : List (Option (Mat α))) (s s' : List Nat),
    nwayShape ops s = some s' → s'.length = s.length
  | [], s, s', h => by simp only [nwayShape, Option.some.injEq] at h; subst h; rfl
  | none :: Bs, n :: s, s', h => by
    simp only [nwayShape, Option.map_eq_some_iff] at h
    obtain ⟨t, ht, rfl⟩ := h
    simp [nwayShape_length Bs s t ht]
  | some B :: Bs, n :: s, s', h => by
    simp only [nwayShape] at h
    split at h
    · simp only [Option.map_eq_some_iff] at h
      obtain ⟨t, ht, rfl⟩ := h
      simp [nwayShape_length Bs s t ht]
    · cases h
  | o :: _, [], s', h => by cases o <;> simp [nwayShape] at h

/-- the mode product of a product tensor factorises -/
theorem nway_split : ∀ (n : Nat) (ops : List (Option (Mat α))) (I : List Nat) (f g : List Nat → α),
    n ≤ I.length →
    nwayEntry ops I (fun J => f (J.take n) * g (J.drop n))
      = nwayEntry (ops.take n) (I.take n) f * nwayEntry (ops.drop n) (I.drop n) g
  | 0, ops, I, f, g, _ => by
    simp only [List.take_zero, List.drop_zero, nwayEntry]
    exact nwayEntry_smul ops I (f []) g
  | n + 1, ops, [], f, g, h => by simp at h
  | n + 1, [], i :: I, f, g, h => rfl
  | n + 1, none :: ops, i :: I, f, g, h => by
    simp only [List.take_succ_cons, List.drop_succ_cons, nwayEntry]
    exact nway_split n ops I (fun J => f (i :: J)) g (by simpa using h)
  | n + 1, some B :: ops, i :: I, f, g, h => by
    simp only [List.take_succ_cons, List.drop_succ_cons, nwayEntry]
    rw [← sumN_mul_right]
    refine sumN_congr _ _ _ (fun j _ => ?_)
    have := nway_split n ops I (fun J => f (j :: J)) g (by simpa using h)
    rw [this]; ring

theorem nwayShape_append : ∀ (s1 s2 t1 t2 : List Nat) (ops : List (Option (Mat α))),
    nwayShape (ops.take s1.length) s1 = some t1 → nwayShape (ops.drop s1.length) s2 = some t2 →
    nwayShape ops (s1 ++ s2) = some (t1 ++ t2)
  | [], s2, t1, t2, ops, h1, h2 => by
    simp only [List.length_nil, List.take_zero, nwayShape, Option.some.injEq] at h1
    subst h1
    simpa using h2
  | n :: s1, s2, t1, t2, [], h1, h2 => by
    simp only [List.take_nil, List.drop_nil, nwayShape, Option.some.injEq] at h1 h2
    subst h1; subst h2
    simp [nwayShape]
  | n :: s1, s2, t1, t2, none :: ops, h1, h2 => by
    simp only [List.length_cons, List.take_succ_cons, List.drop_succ_cons, nwayShape, Option.map_eq_some_iff] at h1 h2
    obtain ⟨u, hu, rfl⟩ := h1
    simp only [List.cons_append, nwayShape]
    rw [nwayShape_append s1 s2 u t2 ops hu h2]; rfl
  | n :: s1, s2, t1, t2, some B :: ops, h1, h2 => by
    simp only [List.length_cons, List.take_succ_cons, List.drop_succ_cons, nwayShape] at h1 h2
    split at h1
    · rename_i hc
      simp only [Option.map_eq_some_iff] at h1
      obtain ⟨u, hu, rfl⟩ := h1
      simp only [List.cons_append, nwayShape, hc, if_true]
      rw [nwayShape_append s1 s2 u t2 ops hu h2]; rfl
    · cases h1

theorem asarray_get_inBox (T : Ten α) (J : List Nat) (h : inBox J T.shape = true) : T.asarray.get J = T.entry J := by
  simp only [Ten.asarray]; exact ofFn_get _ _ _ h

mutual
/-- **`apply_tprod(ops, T)` for every tensor object** (at most one operator per axis): the multi-mode product of the
expansion -/
theorem nway_spec : ∀ (T T' : Ten α) (ops : List (Option (Mat α))), T.WF → ops.length ≤ T.shape.length →
    T.nway false ops = .ok T' →
    T'.WF ∧ nwayShape ops T.shape = some T'.shape ∧
      ∀ I, inBox I T'.shape = true → T'.entry I = nwayEntry ops I T.asarray.get
  | .full A, T', ops, hw, _, h => by
    obtain ⟨a, _, b, c⟩ := nway_leaf_spec (.full A) T' ops hw trivial h
    exact ⟨a, b, c⟩
  | .can Xs, T', ops, hw, _, h => by
    obtain ⟨a, _, b, c⟩ := nway_leaf_spec (.can Xs) T' ops hw trivial h
    exact ⟨a, b, c⟩
  | .tucker Us X, T', ops, hw, _, h => by
    obtain ⟨a, _, b, c⟩ := nway_leaf_spec (.tucker Us X) T' ops hw trivial h
    exact ⟨a, b, c⟩
  | .sum s Xs, T', ops, hw, hl, h => by
    simp only [Ten.nway] at h
    obtain ⟨Ys, hYs, h⟩ := bind_ok _ _ _ h
    obtain ⟨hne, hwl, hs⟩ := hw
    obtain ⟨hwY, hlen, hrest, hex⟩ := nwayList_spec Xs Ys ops s hwl hs hl hYs
    obtain ⟨s', hs'⟩ := hex hne
    obtain ⟨hall, hent⟩ := hrest s' hs'
    obtain ⟨Y, Yr, rfl, hT, _⟩ := mkSum_ok _ _ h
    subst hT
    have hYs' : Y.shape = s' := hall.1
    refine ⟨⟨by simp, hwY, by rw [hYs']; exact hall⟩, by show nwayShape ops s = some Y.shape; rw [hYs']; exact hs', fun I hI => ?_⟩
    have hI' : inBox I s' = true := by
      have : inBox I Y.shape = true := hI
      rwa [hYs'] at this
    simp only [Ten.entry]
    rw [hent I hI']
    refine nwayEntry_congr_box ops s s' I _ _ hs' hI' (fun J hJ => ?_)
    exact (asarray_get_inBox (.sum s Xs) J hJ).symm
  | .prod s Xs, T', ops, hw, hl, h => by
    simp only [Ten.nway] at h
    obtain ⟨Ys, hYs, h⟩ := bind_ok _ _ _ h
    injection h with h; subst h
    obtain ⟨hwl, hs⟩ := hw
    subst hs
    obtain ⟨hwY, hsh, hent⟩ := nwayProd_spec Xs Ys ops hwl hl hYs
    refine ⟨⟨hwY, rfl⟩, hsh, fun I hI => ?_⟩
    have hI' : inBox I (Ys.flatMap Ten.shape) = true := hI
    simp only [mkProd, Ten.entry]
    rw [hent I hI']
    refine nwayEntry_congr_box ops _ _ I _ _ hsh hI' (fun J hJ => ?_)
    exact (asarray_get_inBox (.prod _ Xs) J hJ).symm
theorem nwayList_spec : ∀ (Xs Ys : List (Ten α)) (ops : List (Option (Mat α))) (s : List Nat),
    WFList Xs → AllShape s Xs → ops.length ≤ s.length → nwayList false Xs ops = .ok Ys →
    WFList Ys ∧ Ys.length = Xs.length ∧
      (∀ s', nwayShape ops s = some s' → AllShape s' Ys ∧
        ∀ I, inBox I s' = true → entrySum Ys I = nwayEntry ops I (entrySum Xs)) ∧
      (Xs ≠ [] → ∃ s', nwayShape ops s = some s')
  | [], Ys, ops, s, _, _, _, h => by
    simp only [nwayList] at h; injection h with h; subst h
    exact ⟨trivial, rfl, fun s' _ => ⟨trivial, fun I _ => by
      have : entrySum ([] : List (Ten α)) = fun _ => 0 := by funext J; rfl
      rw [this, nwayEntry_zero]⟩, fun hne => absurd rfl hne⟩
  | X :: Xr, Ys, ops, s, hw, hs, hl, h => by
    simp only [nwayList] at h
    obtain ⟨Y, hY, h⟩ := bind_ok _ _ _ h
    obtain ⟨Yr, hYr, h⟩ := bind_ok _ _ _ h
    injection h with h; subst h
    have hXs : X.shape = s := hs.1
    obtain ⟨hYw, hYsh, hYe⟩ := nway_spec X Y ops hw.1 (by rw [hXs]; exact hl) hY
    obtain ⟨hrw, hrl, hrest, _⟩ := nwayList_spec Xr Yr ops s hw.2 hs.2 hl hYr
    rw [hXs] at hYsh
    refine ⟨⟨hYw, hrw⟩, by simp [hrl], fun s' hs' => ?_, fun _ => ⟨_, hYsh⟩⟩
    have heq : Y.shape = s' := by rw [hYsh] at hs'; injection hs'
    obtain ⟨hra, hre⟩ := hrest s' hs'
    refine ⟨⟨heq, hra⟩, fun I hI => ?_⟩
    have e1 : entrySum (Y :: Yr) I = Y.entry I + entrySum Yr I := by simp only [entrySum]
    rw [e1, hYe I (by rw [heq]; exact hI), hre I hI]
    have : entrySum (X :: Xr) = fun J => X.entry J + entrySum Xr J := by funext J; simp only [entrySum]
    rw [this, nwayEntry_add]
    congr 1
    refine nwayEntry_congr_box ops s s' I _ _ hs' hI (fun J hJ => ?_)
    exact asarray_get_inBox X J (by rw [hXs]; exact hJ)
theorem nwayProd_spec : ∀ (Xs Ys : List (Ten α)) (ops : List (Option (Mat α))),
    WFList Xs → ops.length ≤ (Xs.flatMap Ten.shape).length → nwayProd false Xs ops = .ok Ys →
    WFList Ys ∧ nwayShape ops (Xs.flatMap Ten.shape) = some (Ys.flatMap Ten.shape) ∧
      ∀ I, inBox I (Ys.flatMap Ten.shape) = true → entryProd Ys I = nwayEntry ops I (entryProd Xs)
  | [], Ys, ops, _, hl, h => by
    simp only [nwayProd] at h; injection h with h; subst h
    have : ops = [] := List.eq_nil_of_length_eq_zero (by simpa using hl)
    subst this
    exact ⟨trivial, rfl, fun I _ => rfl⟩
  | X :: Xr, Ys, ops, hw, hl, h => by
    simp only [nwayProd] at h
    obtain ⟨Y, hY, h⟩ := bind_ok _ _ _ h
    obtain ⟨Yr, hYr, h⟩ := bind_ok _ _ _ h
    injection h with h; subst h
    simp only [List.flatMap_cons, List.length_append] at hl
    obtain ⟨hYw, hYsh, hYe⟩ := nway_spec X Y (ops.take X.ndim) hw.1 (by simp [Ten.ndim]) hY
    obtain ⟨hrw, hrsh, hre⟩ := nwayProd_spec Xr Yr (ops.drop X.ndim) hw.2 (by rw [List.length_drop]; simp only [Ten.ndim]; omega) hYr
    have hnd : Y.ndim = X.ndim := nwayShape_length _ _ _ hYsh
    refine ⟨⟨hYw, hrw⟩, ?_, fun I hI => ?_⟩
    · simp only [List.flatMap_cons]
      exact nwayShape_append X.shape _ Y.shape _ ops hYsh hrsh
    · simp only [List.flatMap_cons] at hI
      have h1 : inBox (I.take Y.shape.length) Y.shape = true := inBox_take I Y.shape _ hI
      have h2 : inBox (I.drop Y.shape.length) (Yr.flatMap Ten.shape) = true := inBox_drop I Y.shape _ hI
      have hIl : X.ndim ≤ I.length := by
        have := inBox_length hI
        simp only [List.length_append] at this
        have h3 : Y.shape.length = X.shape.length := hnd
        show X.shape.length ≤ I.length
        omega
      have e1 : entryProd (Y :: Yr) I = Y.entry (I.take Y.ndim) * entryProd Yr (I.drop Y.ndim) := by
        simp only [entryProd]
      rw [e1]
      have hY' : Y.shape.length = X.ndim := hnd
      rw [show Y.ndim = X.ndim from hnd]
      rw [hY'] at h1 h2
      rw [hYe _ h1, hre _ h2]
      have : entryProd (X :: Xr) = fun J => X.entry (J.take X.ndim) * entryProd Xr (J.drop X.ndim) := by
        funext J; simp only [entryProd]
      rw [this, nway_split X.ndim ops I X.entry (entryProd Xr) hIl]
      congr 1
      refine nwayEntry_congr_box _ X.shape Y.shape _ _ _ hYsh h1 (fun J hJ => ?_)
      exact asarray_get_inBox X J hJ
end

end Pyiga.Tensor
