/-
C18: `apply_tprod` / `nway_prod` (mode products) commute with expansion for ndarray, Canonical and
Tucker tensors; `pad` as a special case.
-/
import Pyiga.Proofs.TensorAddSpec

set_option linter.unusedSectionVars false
set_option linter.unusedSimpArgs false
set_option linter.unusedVariables false

namespace Pyiga.Tensor
open Pyiga.Index

variable {α : Type} [CommRing α]

/-- the mode product reads its argument only inside the input box -/
theorem nwayEntry_congr_box : ∀ (ops : List (Option (Mat α))) (s s' I : List Nat) (x y : List Nat → α),
    nwayShape ops s = some s' → inBox I s' = true → (∀ J, inBox J s = true → x J = y J) →
    nwayEntry ops I x = nwayEntry ops I y
  | [], s, s', I, x, y, hs, hI, h => by
    simp only [nwayShape, Option.some.injEq] at hs; subst hs
    simp only [nwayEntry]; exact h I hI
  | none :: Bs, n :: s, s', I, x, y, hs, hI, h => by
    simp only [nwayShape, Option.map_eq_some_iff] at hs
    obtain ⟨t, ht, rfl⟩ := hs
    cases I with
    | nil => simp [inBox] at hI
    | cons i I =>
      simp only [inBox_cons] at hI
      simp only [nwayEntry]
      exact nwayEntry_congr_box Bs s t I _ _ ht hI.2 (fun J hJ => h (i :: J) (by simp [hI.1, hJ]))
  | some B :: Bs, n :: s, s', I, x, y, hs, hI, h => by
    simp only [nwayShape] at hs
    split at hs
    · rename_i hc
      simp only [Option.map_eq_some_iff] at hs
      obtain ⟨t, ht, rfl⟩ := hs
      cases I with
      | nil => simp [inBox] at hI
      | cons i I =>
        simp only [inBox_cons] at hI
        simp only [nwayEntry]
        refine sumN_congr _ _ _ (fun j hj => ?_)
        rw [nwayEntry_congr_box Bs s t I (fun J => x (j :: J)) (fun J => y (j :: J)) ht hI.2
          (fun J hJ => h (j :: J) (by simp [hJ]; omega))]
    · cases hs
  | _ :: _, [], s', I, x, y, hs, _, _ => by
    cases ‹Option (Mat α)› <;> simp [nwayShape] at hs

/-! ### canonical tensors -/

theorem nwayFactors_shape : ∀ (ops : List (Option (Mat α))) (Xs Ys : List (Mat α)),
    ops.length ≤ Xs.length → nwayFactors ops Xs = .ok Ys →
    nwayShape ops (Xs.map (·.rows)) = some (Ys.map (·.rows)) ∧ Ys.map (·.cols) = Xs.map (·.cols)
  | [], [], Ys, _, h => by
    simp only [nwayFactors] at h; injection h with h; subst h; simp [nwayShape]
  | [], X :: Xs, Ys, _, h => by
    simp only [nwayFactors] at h
    obtain ⟨r, hr, h⟩ := bind_ok _ _ _ h
    injection h with h; subst h
    simp [nwayShape]
    have := nwayFactors_shape [] Xs r (by simp) hr
    simp [nwayShape] at this
    exact ⟨this.1, this.2⟩
  | none :: Bs, X :: Xs, Ys, hl, h => by
    simp only [nwayFactors] at h
    obtain ⟨r, hr, h⟩ := bind_ok _ _ _ h
    injection h with h; subst h
    have := nwayFactors_shape Bs Xs r (by simpa using hl) hr
    simp [nwayShape, this.1, this.2]
  | some B :: Bs, X :: Xs, Ys, hl, h => by
    simp only [nwayFactors] at h
    obtain ⟨Y, hY, h⟩ := bind_ok _ _ _ h
    obtain ⟨r, hr, h⟩ := bind_ok _ _ _ h
    injection h with h; subst h
    simp only [dotChecked] at hY
    split at hY
    · rename_i hc
      injection hY with hY; subst hY
      have := nwayFactors_shape Bs Xs r (by simpa using hl) hr
      simp [nwayShape, hc, this.1, this.2, Mat.mul]
    · cases hY
  | _ :: _, [], _, hl, _ => by simp at hl

/-- rank-one term: the mode product acts factor by factor -/
theorem nway_canTerm : ∀ (ops : List (Option (Mat α))) (Xs Ys : List (Mat α)) (I : List Nat) (r : Nat),
    ops.length ≤ Xs.length → I.length = Xs.length → nwayFactors ops Xs = .ok Ys →
    nwayEntry ops I (fun J => canTerm Xs J r) = canTerm Ys I r
  | [], [], Ys, I, r, _, hI, h => by
    simp only [nwayFactors] at h; injection h with h; subst h
    simp [nwayEntry]
  | [], X :: Xs, Ys, I, r, _, hI, h => by
    simp only [nwayFactors] at h
    obtain ⟨Yr, hr, h⟩ := bind_ok _ _ _ h
    injection h with h; subst h
    cases I with
    | nil => simp at hI
    | cons i I =>
      have ih := nway_canTerm [] Xs Yr I r (by simp) (by simpa using hI) hr
      simp only [nwayEntry] at ih ⊢
      simp only [canTerm, List.zip_cons_cons, List.map_cons, prodL_cons] at ih ⊢
      rw [ih]
  | none :: Bs, X :: Xs, Ys, I, r, hl, hI, h => by
    simp only [nwayFactors] at h
    obtain ⟨Yr, hr, h⟩ := bind_ok _ _ _ h
    injection h with h; subst h
    cases I with
    | nil => simp at hI
    | cons i I =>
      have ih := nway_canTerm Bs Xs Yr I r (by simpa using hl) (by simpa using hI) hr
      simp only [nwayEntry]
      have : (fun J => canTerm (X :: Xs) (i :: J) r) = fun J => X.get i r * canTerm Xs J r := by
        funext J; simp [canTerm]
      rw [this, nwayEntry_smul, ih]
      simp [canTerm]
  | some B :: Bs, X :: Xs, Ys, I, r, hl, hI, h => by
    simp only [nwayFactors] at h
    obtain ⟨Y, hY, h⟩ := bind_ok _ _ _ h
    obtain ⟨Yr, hr, h⟩ := bind_ok _ _ _ h
    injection h with h; subst h
    simp only [dotChecked] at hY
    split at hY
    · rename_i hc
      injection hY with hY; subst hY
      cases I with
      | nil => simp at hI
      | cons i I =>
        have ih := nway_canTerm Bs Xs Yr I r (by simpa using hl) (by simpa using hI) hr
        simp only [nwayEntry]
        have : ∀ j, (fun J => canTerm (X :: Xs) (j :: J) r) = fun J => X.get j r * canTerm Xs J r := by
          intro j; funext J; simp [canTerm]
        simp only [this, nwayEntry_smul, ih]
        simp only [canTerm, List.zip_cons_cons, List.map_cons, prodL_cons, Mat.mul]
        rw [← sumN_mul_right]
        exact sumN_congr _ _ _ (fun j _ => by ring)
    · cases hY
  | _ :: _, [], _, _, _, hl, _, _ => by simp at hl

theorem nwayFactors_length : ∀ (ops : List (Option (Mat α))) (Xs Ys : List (Mat α)),
    nwayFactors ops Xs = .ok Ys → Ys.length = Xs.length := by
  intro ops Xs
  induction Xs generalizing ops with
  | nil => intro Ys h; cases ops <;> (simp only [nwayFactors] at h; injection h with h; subst h; rfl)
  | cons X Xs ih =>
    intro Ys h
    cases ops with
    | nil =>
      simp only [nwayFactors] at h
      obtain ⟨r, hr, h⟩ := bind_ok _ _ _ h
      injection h with h; subst h; simp [ih _ _ hr]
    | cons o ops =>
      cases o with
      | none =>
        simp only [nwayFactors] at h
        obtain ⟨r, hr, h⟩ := bind_ok _ _ _ h
        injection h with h; subst h; simp [ih _ _ hr]
      | some B =>
        simp only [nwayFactors] at h
        obtain ⟨Y, hY, h⟩ := bind_ok _ _ _ h
        obtain ⟨r, hr, h⟩ := bind_ok _ _ _ h
        injection h with h; subst h; simp [ih _ _ hr]

theorem canR_of_cols (Xs Ys : List (Mat α)) (h : Ys.map (·.cols) = Xs.map (·.cols)) : canR Ys = canR Xs := by
  cases Xs with
  | nil => cases Ys with
    | nil => rfl
    | cons _ _ => simp at h
  | cons X Xs => cases Ys with
    | nil => simp at h
    | cons Y Ys => simp at h; exact h.1

/-- `CanonicalTensor.nway_prod` -/
theorem canNway_entry (ops : List (Option (Mat α))) (Xs Ys : List (Mat α)) (I : List Nat)
    (hl : ops.length ≤ Xs.length) (hI : I.length = Xs.length) (h : nwayFactors ops Xs = .ok Ys) :
    canEntry Ys I = nwayEntry ops I (canEntry Xs) := by
  have hR := canR_of_cols Xs Ys (nwayFactors_shape ops Xs Ys hl h).2
  have : canEntry Xs = fun J => sumN (canR Xs) (fun r => canTerm Xs J r) := by funext J; rfl
  rw [this, nwayEntry_sumN, canEntry_eq, hR]
  exact sumN_congr _ _ _ (fun r _ => (nway_canTerm ops Xs Ys I r hl hI h).symm)

/-! ### Tucker tensors -/

/-- `TuckerTensor.nway_prod`: multiplying the factor matrices is the mode product of the expansion -/
theorem tuckerNway_entry : ∀ (ops : List (Option (Mat α))) (Us Vs : List (Mat α)) (I : List Nat) (x : List Nat → α),
    ops.length ≤ Us.length → I.length = Us.length → nwayFactors ops Us = .ok Vs →
    nwayEntry (Vs.map some) I x = nwayEntry ops I (fun J => nwayEntry (Us.map some) J x)
  | [], [], Vs, I, x, _, hI, h => by
    simp only [nwayFactors] at h; injection h with h; subst h
    simp [nwayEntry]
  | [], U :: Us, Vs, I, x, _, hI, h => by
    simp only [nwayFactors] at h
    obtain ⟨Vr, hr, h⟩ := bind_ok _ _ _ h
    injection h with h; subst h
    cases I with
    | nil => simp at hI
    | cons i I =>
      simp only [List.map_cons, nwayEntry]
      refine sumN_congr _ _ _ (fun j _ => ?_)
      have := tuckerNway_entry [] Us Vr I (fun J => x (j :: J)) (by simp) (by simpa using hI) hr
      simp only [nwayEntry] at this
      rw [this]
  | none :: Bs, U :: Us, Vs, I, x, hl, hI, h => by
    simp only [nwayFactors] at h
    obtain ⟨Vr, hr, h⟩ := bind_ok _ _ _ h
    injection h with h; subst h
    cases I with
    | nil => simp at hI
    | cons i I =>
      simp only [List.map_cons, nwayEntry]
      rw [nwayEntry_sumN]
      refine sumN_congr _ _ _ (fun j _ => ?_)
      rw [nwayEntry_smul]
      rw [tuckerNway_entry Bs Us Vr I (fun J => x (j :: J)) (by simpa using hl) (by simpa using hI) hr]
  | some B :: Bs, U :: Us, Vs, I, x, hl, hI, h => by
    simp only [nwayFactors] at h
    obtain ⟨Y, hY, h⟩ := bind_ok _ _ _ h
    obtain ⟨Vr, hr, h⟩ := bind_ok _ _ _ h
    injection h with h; subst h
    simp only [dotChecked] at hY
    split at hY
    · rename_i hc
      injection hY with hY; subst hY
      cases I with
      | nil => simp at hI
      | cons i I =>
        simp only [List.map_cons, nwayEntry]
        have hmc : (B.mul U).cols = U.cols := rfl
        rw [hmc]
        have e1 : ∀ c, (B.mul U).get i c * nwayEntry (Vr.map some) I (fun J => x (c :: J))
            = sumN B.cols (fun j => B.get i j * (U.get j c *
                nwayEntry Bs I (fun J => nwayEntry (Us.map some) J (fun K => x (c :: K))))) := by
          intro c
          rw [tuckerNway_entry Bs Us Vr I (fun J => x (c :: J)) (by simpa using hl) (by simpa using hI) hr]
          simp only [Mat.mul]
          rw [← sumN_mul_right]
          exact sumN_congr _ _ _ (fun j _ => by ring)
        rw [sumN_congr _ _ _ (fun c _ => e1 c), sumN_comm]
        refine sumN_congr _ _ _ (fun j _ => ?_)
        rw [sumN_mul_left]
        congr 1
        rw [nwayEntry_sumN]
        exact sumN_congr _ _ _ (fun c _ => by rw [nwayEntry_smul])
    · cases hY
  | _ :: _, [], _, _, _, hl, _, _ => by simp at hl

/-! ### `apply_tprod(ops, T)` for ndarray / Canonical / Tucker operands -/

/-- `T` is an ndarray, a CanonicalTensor or a TuckerTensor -/
def Ten.isLeaf : Ten α → Prop
  | .full _ => True
  | .can _ => True
  | .tucker _ _ => True
  | _ => False

theorem nway_leaf_spec (T T' : Ten α) (ops : List (Option (Mat α))) (hw : T.WF) (hleaf : T.isLeaf)
    (h : T.nway false ops = .ok T') :
    T'.WF ∧ T'.isLeaf ∧ nwayShape ops T.shape = some T'.shape ∧
      ∀ I, inBox I T'.shape = true → T'.entry I = nwayEntry ops I T.asarray.get := by
  cases T with
  | full A =>
    simp only [Ten.nway, Bool.false_and, Bool.false_eq_true, if_false] at h
    obtain ⟨R, hR, h⟩ := bind_ok _ _ _ h
    injection h with h; subst h
    simp only [Full.nway] at hR
    split at hR
    · rename_i s hs
      injection hR with hR; subst hR
      refine ⟨trivial, trivial, hs, fun I hI => ?_⟩
      have hI' : inBox I s = true := hI
      simp only [Ten.entry]
      rw [ofFn_get s _ I hI']
      refine nwayEntry_congr_box ops A.shape s I _ _ hs hI' (fun J hJ => ?_)
      simp only [Ten.asarray, Ten.shape, Ten.entry]
      rw [ofFn_get _ _ _ hJ]
    · cases hR
  | can Xs =>
    simp only [Ten.nway] at h
    split at h
    · cases h
    · rename_i hl
      have hl : ops.length ≤ Xs.length := by omega
      obtain ⟨Ys, hYs, h⟩ := bind_ok _ _ _ h
      obtain ⟨rfl, hne, hc⟩ := mkCan_ok _ _ h
      obtain ⟨hsh, hcols⟩ := nwayFactors_shape ops Xs Ys hl hYs
      refine ⟨⟨hne, hc⟩, trivial, hsh, fun I hI => ?_⟩
      have hIl : I.length = Xs.length := by
        have := inBox_length hI
        simp [Ten.shape] at this
        rw [this, nwayFactors_length ops Xs Ys hYs]
      simp only [Ten.entry]
      rw [canNway_entry ops Xs Ys I hl hIl hYs]
      refine nwayEntry_congr_box ops _ _ I _ _ hsh hI (fun J hJ => ?_)
      simp only [Ten.asarray, Ten.shape, Ten.entry]
      rw [ofFn_get _ _ _ hJ]
  | tucker Us C =>
    simp only [Ten.nway] at h
    split at h
    · cases h
    · rename_i hl
      have hl : ops.length ≤ Us.length := by omega
      obtain ⟨Vs, hVs, h⟩ := bind_ok _ _ _ h
      obtain ⟨rfl, hlen⟩ := mkTucker_ok _ _ _ h
      obtain ⟨hsh, hcols⟩ := nwayFactors_shape ops Us Vs hl hVs
      have hw' : Us.map (·.cols) = C.shape := hw
      refine ⟨by show Vs.map (·.cols) = C.shape; rw [hcols, hw'], trivial, hsh, fun I hI => ?_⟩
      have hIl : I.length = Us.length := by
        have := inBox_length hI
        simp [Ten.shape] at this
        rw [this, nwayFactors_length ops Us Vs hVs]
      simp only [Ten.entry, tuckerEntry]
      rw [tuckerNway_entry ops Us Vs I C.get hl hIl hVs]
      refine nwayEntry_congr_box ops _ _ I _ _ hsh hI (fun J hJ => ?_)
      simp only [Ten.asarray, Ten.shape, Ten.entry, tuckerEntry]
      rw [ofFn_get _ _ _ hJ]
  | sum _ _ => exact absurd hleaf (by simp [Ten.isLeaf])
  | prod _ _ => exact absurd hleaf (by simp [Ten.isLeaf])

end Pyiga.Tensor
