/-
C09: entry-level lemmas for `stiffness2d` / `stiffness3d` (shapes of `matAdd` of Kronecker products).
-/
import Pyiga.Proofs.GalerkinKron
import Pyiga.Proofs.GalerkinAsm

namespace Pyiga.Galerkin

section Ring
variable {α : Type} [CommRing α]

theorem length_matAdd (X Y : List (List α)) : (matAdd X Y).length = min X.length Y.length := by
  simp [matAdd]

theorem rowlen_matAdd (X Y : List (List α)) (i : Nat) (hX : i < X.length) (hY : i < Y.length) :
    ((matAdd X Y).getD i []).length = min (X.getD i []).length (Y.getD i []).length := by
  unfold matAdd
  simp only [List.getD_eq_getElem?_getD, List.getElem?_zipWith, List.getElem?_eq_getElem hX,
    List.getElem?_eq_getElem hY]
  simp

theorem idx_lt (i1 i2 r1 r2 : Nat) (h1 : i1 < r1) (h2 : i2 < r2) : i1 * r2 + i2 < r1 * r2 := by
  calc i1 * r2 + i2 < i1 * r2 + r2 := by omega
    _ = (i1 + 1) * r2 := by ring
    _ ≤ r1 * r2 := Nat.mul_le_mul_right _ h1

/-- entries of `kron(K1,M2) + kron(M1,K2)` at a Kronecker index -/
theorem stiffness2d_entry (M1 K1 M2 K2 : List (List α))
    (hr1 : matRows K1 = matRows M1) (hc1 : matCols K1 = matCols M1)
    (hr2 : matRows K2 = matRows M2) (hc2 : matCols K2 = matCols M2)
    (i1 i2 j1 j2 : Nat) (hi1 : i1 < matRows M1) (hi2 : i2 < matRows M2) (hj1 : j1 < matCols M1) (hj2 : j2 < matCols M2) :
    get2 (stiffness2d M1 K1 M2 K2) (i1 * matRows M2 + i2) (j1 * matCols M2 + j2) =
      get2 K1 i1 j1 * get2 M2 i2 j2 + get2 M1 i1 j1 * get2 K2 i2 j2 := by
  unfold stiffness2d
  have hi := idx_lt i1 i2 _ _ hi1 hi2
  have hj := idx_lt j1 j2 _ _ hj1 hj2
  rw [get2_matAdd]
  · have a := get2_kron K1 M2 i1 i2 j1 j2 (hr1 ▸ hi1) hi2 (hc1 ▸ hj1) hj2
    have b := get2_kron M1 K2 i1 i2 j1 j2 hi1 (hr2 ▸ hi2) hj1 (hc2 ▸ hj2)
    rw [hr2, hc2] at b
    rw [a, b]
  · show _ < matRows (kron K1 M2); rw [matRows_kron, hr1]; exact hi
  · show _ < matRows (kron M1 K2); rw [matRows_kron, hr2]; exact hi
  · rw [rowlen_kron _ _ _ (by rw [hr1]; exact hi), hc1]; exact hj
  · rw [rowlen_kron _ _ _ (by rw [hr2]; exact hi), hc2]; exact hj

theorem matRows_stiffness2d (M1 K1 M2 K2 : List (List α))
    (hr1 : matRows K1 = matRows M1) (hr2 : matRows K2 = matRows M2) :
    matRows (stiffness2d M1 K1 M2 K2) = matRows M1 * matRows M2 := by
  unfold stiffness2d
  show (matAdd _ _).length = _
  rw [length_matAdd]
  show min (matRows (kron K1 M2)) (matRows (kron M1 K2)) = _
  rw [matRows_kron, matRows_kron, hr1, hr2, Nat.min_self]

theorem matCols_stiffness2d (M1 K1 M2 K2 : List (List α))
    (hr1 : matRows K1 = matRows M1) (hc1 : matCols K1 = matCols M1)
    (hr2 : matRows K2 = matRows M2) (hc2 : matCols K2 = matCols M2)
    (h : 0 < matRows M1 * matRows M2) :
    matCols (stiffness2d M1 K1 M2 K2) = matCols M1 * matCols M2 := by
  unfold stiffness2d
  show ((matAdd _ _).getD 0 []).length = _
  rw [rowlen_matAdd]
  · rw [rowlen_kron _ _ _ (by rw [hr1]; exact h), rowlen_kron _ _ _ (by rw [hr2]; exact h), hc1, hc2, Nat.min_self]
  · show _ < matRows (kron K1 M2); rw [matRows_kron, hr1]; exact h
  · show _ < matRows (kron M1 K2); rw [matRows_kron, hr2]; exact h

/-- entries of `bsp_stiffness_3d` (geo=None) at a Kronecker index -/
theorem stiffness3d_entry (M0 K0 M1 K1 M2 K2 : List (List α))
    (hr0 : matRows K0 = matRows M0) (hc0 : matCols K0 = matCols M0)
    (hr1 : matRows K1 = matRows M1) (hc1 : matCols K1 = matCols M1)
    (hr2 : matRows K2 = matRows M2) (hc2 : matCols K2 = matCols M2)
    (i0 i1 i2 j0 j1 j2 : Nat) (hi0 : i0 < matRows M0) (hi1 : i1 < matRows M1) (hi2 : i2 < matRows M2)
    (hj0 : j0 < matCols M0) (hj1 : j1 < matCols M1) (hj2 : j2 < matCols M2) :
    get2 (stiffness3d M0 K0 M1 K1 M2 K2) (i0 * (matRows M1 * matRows M2) + (i1 * matRows M2 + i2))
        (j0 * (matCols M1 * matCols M2) + (j1 * matCols M2 + j2)) =
      get2 K0 i0 j0 * (get2 M1 i1 j1 * get2 M2 i2 j2) +
      get2 M0 i0 j0 * (get2 K1 i1 j1 * get2 M2 i2 j2 + get2 M1 i1 j1 * get2 K2 i2 j2) := by
  have hi := idx_lt i1 i2 _ _ hi1 hi2
  have hj := idx_lt j1 j2 _ _ hj1 hj2
  have hpos : 0 < matRows M1 * matRows M2 := by omega
  have hrM : matRows (kron M1 M2) = matRows M1 * matRows M2 := matRows_kron _ _
  have hcM : matCols (kron M1 M2) = matCols M1 * matCols M2 := matCols_kron _ _ hpos
  have hrK := matRows_stiffness2d M1 K1 M2 K2 hr1 hr2
  have hcK := matCols_stiffness2d M1 K1 M2 K2 hr1 hc1 hr2 hc2 hpos
  have hI := idx_lt i0 (i1 * matRows M2 + i2) _ _ hi0 hi
  have hJ := idx_lt j0 (j1 * matCols M2 + j2) _ _ hj0 hj
  show get2 (matAdd (kron K0 (kron M1 M2)) (kron M0 (stiffness2d M1 K1 M2 K2))) _ _ = _
  rw [get2_matAdd]
  · have a := get2_kron K0 (kron M1 M2) i0 (i1 * matRows M2 + i2) j0 (j1 * matCols M2 + j2)
      (hr0 ▸ hi0) (by rw [hrM]; exact hi) (hc0 ▸ hj0) (by rw [hcM]; exact hj)
    have b := get2_kron M0 (stiffness2d M1 K1 M2 K2) i0 (i1 * matRows M2 + i2) j0 (j1 * matCols M2 + j2)
      hi0 (by rw [hrK]; exact hi) hj0 (by rw [hcK]; exact hj)
    rw [hrM, hcM] at a
    rw [hrK, hcK] at b
    rw [a, b, get2_kron _ _ _ _ _ _ hi1 hi2 hj1 hj2,
      stiffness2d_entry M1 K1 M2 K2 hr1 hc1 hr2 hc2 i1 i2 j1 j2 hi1 hi2 hj1 hj2]
  · show _ < matRows (kron K0 (kron M1 M2)); rw [matRows_kron, hrM, hr0]; exact hI
  · show _ < matRows (kron M0 (stiffness2d M1 K1 M2 K2)); rw [matRows_kron, hrK]; exact hI
  · rw [rowlen_kron _ _ _ (by rw [hrM, hr0]; exact hI), hcM, hc0]; exact hJ
  · rw [rowlen_kron _ _ _ (by rw [hrK]; exact hI), hcK]; exact hJ

/-! ### `integrate` on a two-axis tensor grid -/

theorem sum_flatMap_range_block (n1 n2 : Nat) (g : Nat → Nat → α) :
    ((List.range n1).flatMap fun a => (List.range n2).map fun b => g a b).sum =
      ∑ a ∈ Finset.range n1, ∑ b ∈ Finset.range n2, g a b := by
  induction n1 with
  | zero => simp
  | succ n ih =>
    rw [List.range_succ, List.flatMap_append, List.sum_append, ih, Finset.sum_range_succ]
    simp [sum_map_range]

theorem getD_block {γ : Type} (n1 n2 : Nat) (g : Nat → Nat → γ) (d : γ) (a b : Nat) (ha : a < n1) (hb : b < n2) :
    ((List.range n1).flatMap fun a => (List.range n2).map fun b => g a b).getD (a * n2 + b) d = g a b := by
  induction n1 with
  | zero => omega
  | succ n ih =>
    rw [List.range_succ, List.flatMap_append, List.getD_eq_getElem?_getD]
    by_cases h : a < n
    · have : a * n2 + b < ((List.range n).flatMap fun a => (List.range n2).map fun b => g a b).length := by
        rw [length_block]; exact idx_lt a b n n2 h hb
      rw [List.getElem?_append_left this, ← List.getD_eq_getElem?_getD]; exact ih h
    · have hn : a = n := by omega
      subst hn
      have : ((List.range a).flatMap fun a => (List.range n2).map fun b => g a b).length ≤ a * n2 + b := by
        rw [length_block]; omega
      rw [List.getElem?_append_right this, length_block]
      simp [hb]

theorem length_flatMap_map {β γ δ : Type} (h : List β) (w : List γ) (g : β → γ → δ) :
    (h.flatMap fun hi => w.map (g hi)).length = h.length * w.length := by
  induction h with
  | nil => simp
  | cons a as ih => simp [List.flatMap_cons, ih, Nat.succ_mul, Nat.add_comm]

/-- number of weights produced by `make_iterated_quadrature` -/
theorem length_iteratedQuadrature_weights (half : α) (xg wg : List α) (a : α) (rest : List α) :
    (iteratedQuadrature half xg wg (a :: rest)).2.length = rest.length * wg.length := by
  unfold iteratedQuadrature gaussRule
  simp only
  rw [length_flatMap_map]
  simp

theorem map_eq_map_range {β γ : Type} (l : List β) (d : β) (f : β → γ) :
    l.map f = (List.range l.length).map fun k => f (l.getD k d) := by
  apply List.ext_getElem
  · simp
  · intro i h1 h2
    simp at h1
    simp [List.getD_eq_getElem?_getD, List.getElem?_eq_getElem h1]

end Ring

end Pyiga.Galerkin
