/-
Part 3: structural keys.  If every stored attribute of every class occurs in its `hash_key`
(`KeyTableComplete`), the key (the tuple Python hashes) determines the expression tree; hence
merging by key (CSE) and caching by key are sound.  Core Lean only.
-/
import Pyiga.Model.VForm

namespace Pyiga.VForm
open Expr

def KeyTree.cls : KeyTree → Cls
  | .node c _ _ _ => c
def KeyTree.shp : KeyTree → List Nat
  | .node _ s _ _ => s
def KeyTree.vals : KeyTree → List AVal
  | .node _ _ v _ => v
def KeyTree.kids : KeyTree → List KeyTree
  | .node _ _ _ k => k

theorem key_cls (t : KeyTable) (e : Expr) : (key t e).cls = cls e := by
  cases e <;> simp [key, KeyTree.cls, cls]

theorem key_vals (t : KeyTable) (e : Expr) : (key t e).vals = (t.attrs (cls e)).map (attr e) := by
  cases e <;> simp [key, KeyTree.vals, cls]

theorem key_kids (t : KeyTable) (e : Expr) : (key t e).kids = (children e).map (key t) := by
  cases e <;> simp [key, KeyTree.kids, children]

theorem complete_mem (t : KeyTable) (h : KeyTableComplete t = true) (c : Cls) (a : Attr)
    (ha : a ∈ semAttrs c) : a ∈ t.attrs c := by
  unfold KeyTableComplete at h
  rw [List.all_eq_true] at h
  have hc : c ∈ allCls := by cases c <;> simp [allCls]
  have h1 := h c hc
  rw [List.all_eq_true] at h1
  have h2 := h1 a ha
  simpa using h2

/-- equal keys ⇒ every stored attribute agrees -/
theorem key_attr (t : KeyTable) (hc : KeyTableComplete t = true) (e₁ e₂ : Expr)
    (h : key t e₁ = key t e₂) (a : Attr) (ha : a ∈ semAttrs (cls e₁)) : attr e₁ a = attr e₂ a := by
  have hcls : cls e₁ = cls e₂ := by rw [← key_cls t e₁, ← key_cls t e₂, h]
  have hv : (t.attrs (cls e₁)).map (attr e₁) = (t.attrs (cls e₁)).map (attr e₂) := by
    have := congrArg KeyTree.vals h
    rw [key_vals, key_vals, ← hcls] at this
    exact this
  exact List.map_inj_left.mp hv a (complete_mem t hc _ a ha)

/-- **key_sound** (injectivity form): with a complete key table, two expression trees with the
same key are the same tree. -/
theorem key_injective (t : KeyTable) (hc : KeyTableComplete t = true) (e₁ : Expr) :
    ∀ e₂, key t e₁ = key t e₂ → e₁ = e₂ := by
  induction e₁ using Expr.rec
    (motive_2 := fun es₁ => ∀ es₂ : List Expr, es₁.map (key t) = es₂.map (key t) → es₁ = es₂) with
  | nil => intro es₂ h; cases es₂ <;> simp_all
  | cons e es ihe ihes =>
    intro es₂ h
    cases es₂ with
    | nil => simp at h
    | cons e' es' =>
      simp only [List.map_cons, List.cons.injEq] at h
      rw [ihe e' h.1, ihes es' h.2]
  | const v =>
    intro e₂ h
    have hcls : cls (const v) = cls e₂ := by rw [← key_cls t, ← key_cls t e₂, h]
    have ha := key_attr t hc _ _ h
    cases e₂ <;> simp [cls] at hcls
    have := ha .value (by simp [cls, semAttrs])
    simp [attr] at this; rw [this]
  | litvec es ih =>
    intro e₂ h
    have hcls : cls (litvec es) = cls e₂ := by rw [← key_cls t, ← key_cls t e₂, h]
    have hk := congrArg KeyTree.kids h
    rw [key_kids, key_kids] at hk
    cases e₂ <;> simp [cls] at hcls
    simp only [children] at hk
    rw [ih _ hk]
  | litmat m n es ih =>
    intro e₂ h
    have hcls : cls (litmat m n es) = cls e₂ := by rw [← key_cls t, ← key_cls t e₂, h]
    have hk := congrArg KeyTree.kids h
    have hs := congrArg KeyTree.shp h
    rw [key_kids, key_kids] at hk
    cases e₂ <;> simp [cls] at hcls
    simp only [children] at hk
    simp only [key, KeyTree.shp, List.cons.injEq, and_true] at hs
    rw [ih _ hk, hs.1, hs.2]
  | varref v I D p =>
    intro e₂ h
    have hcls : cls (varref v I D p) = cls e₂ := by rw [← key_cls t, ← key_cls t e₂, h]
    have ha := key_attr t hc _ _ h
    cases e₂ <;> simp [cls] at hcls
    have h1 := ha .varName (by simp [cls, semAttrs])
    have h2 := ha .I (by simp [cls, semAttrs])
    have h3 := ha .D (by simp [cls, semAttrs])
    have h4 := ha .parametric (by simp [cls, semAttrs])
    simp [attr] at h1 h2 h3 h4
    rw [h1, h2, h3, h4]
  | neg x ih =>
    intro e₂ h
    have hcls : cls (neg x) = cls e₂ := by rw [← key_cls t, ← key_cls t e₂, h]
    have hk := congrArg KeyTree.kids h
    rw [key_kids, key_kids] at hk
    cases e₂ <;> simp [cls] at hcls
    simp only [children, List.map_cons, List.map_nil, List.cons.injEq, and_true] at hk
    rw [ih _ hk]
  | builtin f x ih =>
    intro e₂ h
    have hcls : cls (builtin f x) = cls e₂ := by rw [← key_cls t, ← key_cls t e₂, h]
    have ha := key_attr t hc _ _ h
    have hk := congrArg KeyTree.kids h
    rw [key_kids, key_kids] at hk
    cases e₂ <;> simp [cls] at hcls
    simp only [children, List.map_cons, List.map_nil, List.cons.injEq, and_true] at hk
    have h1 := ha .funcname (by simp [cls, semAttrs])
    simp [attr] at h1
    rw [ih _ hk, h1]
  | sop op x y ihx ihy =>
    intro e₂ h
    have hcls : cls (sop op x y) = cls e₂ := by rw [← key_cls t, ← key_cls t e₂, h]
    have ha := key_attr t hc _ _ h
    have hk := congrArg KeyTree.kids h
    rw [key_kids, key_kids] at hk
    cases e₂ <;> simp [cls] at hcls
    simp only [children, List.map_cons, List.map_nil, List.cons.injEq, and_true] at hk
    have h1 := ha .oper (by simp [cls, semAttrs])
    simp [attr] at h1
    rw [ihx _ hk.1, ihy _ hk.2, h1]
  | top op x y ihx ihy =>
    intro e₂ h
    have hcls : cls (top op x y) = cls e₂ := by rw [← key_cls t, ← key_cls t e₂, h]
    have ha := key_attr t hc _ _ h
    have hk := congrArg KeyTree.kids h
    rw [key_kids, key_kids] at hk
    cases e₂ <;> simp [cls] at hcls
    simp only [children, List.map_cons, List.map_nil, List.cons.injEq, and_true] at hk
    have h1 := ha .oper (by simp [cls, semAttrs])
    simp [attr] at h1
    rw [ihx _ hk.1, ihy _ hk.2, h1]
  | cross x y ihx ihy =>
    intro e₂ h
    have hcls : cls (cross x y) = cls e₂ := by rw [← key_cls t, ← key_cls t e₂, h]
    have hk := congrArg KeyTree.kids h
    rw [key_kids, key_kids] at hk
    cases e₂ <;> simp [cls] at hcls
    simp only [children, List.map_cons, List.map_nil, List.cons.injEq, and_true] at hk
    rw [ihx _ hk.1, ihy _ hk.2]
  | outer x y ihx ihy =>
    intro e₂ h
    have hcls : cls (outer x y) = cls e₂ := by rw [← key_cls t, ← key_cls t e₂, h]
    have hk := congrArg KeyTree.kids h
    rw [key_kids, key_kids] at hk
    cases e₂ <;> simp [cls] at hcls
    simp only [children, List.map_cons, List.map_nil, List.cons.injEq, and_true] at hk
    rw [ihx _ hk.1, ihy _ hk.2]
  | pderiv b D ph =>
    intro e₂ h
    have hcls : cls (pderiv b D ph) = cls e₂ := by rw [← key_cls t, ← key_cls t e₂, h]
    have ha := key_attr t hc _ _ h
    cases e₂ <;> simp [cls] at hcls
    rename_i b' D' ph'
    have h1 := ha .bfName (by simp [cls, semAttrs])
    have h2 := ha .bfNumcomp (by simp [cls, semAttrs])
    have h3 := ha .bfComponent (by simp [cls, semAttrs])
    have h4 := ha .bfSpace (by simp [cls, semAttrs])
    have h5 := ha .D (by simp [cls, semAttrs])
    have h6 := ha .physical (by simp [cls, semAttrs])
    simp [attr] at h1 h2 h3 h4 h5 h6
    have hb : b = b' := by
      cases b; cases b'; simp_all
    rw [hb, h5, h6]
  | matvec x y ihx ihy =>
    intro e₂ h
    have hcls : cls (matvec x y) = cls e₂ := by rw [← key_cls t, ← key_cls t e₂, h]
    have hk := congrArg KeyTree.kids h
    rw [key_kids, key_kids] at hk
    cases e₂ <;> simp [cls] at hcls
    simp only [children, List.map_cons, List.map_nil, List.cons.injEq, and_true] at hk
    rw [ihx _ hk.1, ihy _ hk.2]
  | matmat x y ihx ihy =>
    intro e₂ h
    have hcls : cls (matmat x y) = cls e₂ := by rw [← key_cls t, ← key_cls t e₂, h]
    have hk := congrArg KeyTree.kids h
    rw [key_kids, key_kids] at hk
    cases e₂ <;> simp [cls] at hcls
    simp only [children, List.map_cons, List.map_nil, List.cons.injEq, and_true] at hk
    rw [ihx _ hk.1, ihy _ hk.2]
  | gw a =>
    intro e₂ h
    have hcls : cls (gw a) = cls e₂ := by rw [← key_cls t, ← key_cls t e₂, h]
    have ha := key_attr t hc _ _ h
    cases e₂ <;> simp [cls] at hcls
    have h1 := ha .axis (by simp [cls, semAttrs])
    simp [attr] at h1; rw [h1]
  | dx =>
    intro e₂ h
    have hcls : cls dx = cls e₂ := by rw [← key_cls t, ← key_cls t e₂, h]
    cases e₂ <;> simp [cls] at hcls
    rfl
  | ds =>
    intro e₂ h
    have hcls : cls ds = cls e₂ := by rw [← key_cls t, ← key_cls t e₂, h]
    cases e₂ <;> simp [cls] at hcls
    rfl

/-- soundness of the executable key comparison -/
theorem KeyTree.beq_sound : ∀ (a b : KeyTree), KeyTree.beq a b = true → a = b := by
  intro a
  induction a using KeyTree.rec
    (motive_2 := fun as => ∀ bs, KeyTree.beqL as bs = true → as = bs) with
  | node c s v ks ih =>
    intro b h
    cases b with
    | node c' s' v' ks' =>
      simp only [KeyTree.beq, Bool.and_eq_true, decide_eq_true_eq] at h
      obtain ⟨⟨⟨h1, h2⟩, h3⟩, h4⟩ := h
      rw [h1, h2, h3, ih _ h4]
  | nil => intro bs h; cases bs <;> simp_all [KeyTree.beqL]
  | cons a as iha ihas =>
    intro bs h
    cases bs with
    | nil => simp [KeyTree.beqL] at h
    | cons b bs =>
      simp only [KeyTree.beqL, Bool.and_eq_true] at h
      rw [iha _ h.1, ihas _ h.2]

/-- **cse_sound**: replacing every node selected by `p` with `x` preserves every entry, provided all
selected nodes denote what `x` denotes.  With a complete key table the nodes selected by
`hashes[e] == h` are *equal* to the extracted expression `c` (`key_injective`), and `x` is the
reference to the new variable bound to `c`. -/
theorem cseReplace_sound {α : Type} (o : Ops α) (ρ : Env α) (p : Expr → Bool) (x : Expr)
    (hp : ∀ e, p e = true → ∀ i j, ev o ρ x i j = ev o ρ e i j)
    (hshape : ∀ e, p e = true → shape x = shape e) (e : Expr) :
    (∀ i j, ev o ρ (cseReplace p x e) i j = ev o ρ e i j) ∧ shape (cseReplace p x e) = shape e := by
  induction e using Expr.rec
    (motive_2 := fun es => (∀ i, evL o ρ (es.map (cseReplace p x)) i = evL o ρ es i)) with
  | nil => intro i; simp
  | cons e es ihe ihes => intro i; cases i <;> simp_all [evL]
  | const v => by_cases h : p (const v) = true <;> simp_all [cseReplace]
  | varref v I D q => by_cases h : p (varref v I D q) = true <;> simp_all [cseReplace]
  | pderiv b D ph => by_cases h : p (pderiv b D ph) = true <;> simp_all [cseReplace]
  | gw a => by_cases h : p (gw a) = true <;> simp_all [cseReplace]
  | dx => by_cases h : p dx = true <;> simp_all [cseReplace]
  | ds => by_cases h : p ds = true <;> simp_all [cseReplace]
  | litvec es ih => by_cases h : p (litvec es) = true <;> simp_all [cseReplace, ev, shape]
  | litmat m n es ih => by_cases h : p (litmat m n es) = true <;> simp_all [cseReplace, ev, shape]
  | neg a ih => by_cases h : p (neg a) = true <;> simp_all [cseReplace, ev, shape]
  | builtin f a ih => by_cases h : p (builtin f a) = true <;> simp_all [cseReplace, ev, shape]
  | sop op a b iha ihb => by_cases h : p (sop op a b) = true <;> simp_all [cseReplace, ev, shape]
  | top op a b iha ihb => by_cases h : p (top op a b) = true <;> simp_all [cseReplace, ev, shape]
  | cross a b iha ihb =>
    by_cases h : p (cross a b) = true
    · simp_all [cseReplace]
    · simp only [cseReplace, h, Bool.false_eq_true, if_false, shape, iha.2, and_true]
      intro i j; rcases i with _ | _ | i <;> simp [ev, iha.1, ihb.1]
  | outer a b iha ihb => by_cases h : p (outer a b) = true <;> simp_all [cseReplace, ev, shape]
  | matvec a b iha ihb => by_cases h : p (matvec a b) = true <;> simp_all [cseReplace, ev, shape, len]
  | matmat a b iha ihb => by_cases h : p (matmat a b) = true <;> simp_all [cseReplace, ev, shape, ncols]

end Pyiga.VForm
