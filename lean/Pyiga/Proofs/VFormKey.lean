/-
Part 3: structural keys.  If every stored attribute of every class occurs in its `hash_key`
(`KeyTableComplete`), the key (the tuple Python hashes) determines the expression tree; hence
merging by key (CSE) and caching by key are sound.  Core Lean only.
-/
import Pyiga.Model.VForm

namespace Pyiga.VForm
open Expr

def KeyTree.cls : KeyTree → Cls
  | .node c _ _ _ => c
def KeyTree.shp : KeyTree → List Nat
  | .node _ s _ _ => s
def KeyTree.vals : KeyTree → List AVal
  | .node _ _ v _ => v
def KeyTree.kids : KeyTree → List KeyTree
  | .node _ _ _ k => k

theorem key_cls (t : KeyTable) (e : Expr) : (key t e).cls = cls e := by
  cases e <;> simp [key, KeyTree.cls, cls]

theorem key_vals (t : KeyTable) (e : Expr) : (key t e).vals = (t.attrs (cls e)).map (attr e) := by
  cases e <;> simp [key, KeyTree.vals, cls]

theorem key_kids (t : KeyTable) (e : Expr) : (key t e).kids = (children e).map (key t) := by
  cases e <;> simp [key, KeyTree.kids, children]

theorem complete_mem (t : KeyTable) (h : KeyTableComplete t = true) (c : Cls) (a : Attr)
    (ha : a ∈ semAttrs c) : a ∈ t.attrs c := by
  unfold KeyTableComplete at h
  rw [List.all_eq_true] at h
  have hc : c ∈ allCls := by cases c <;> simp [allCls]
  have h1 := h c hc
  rw [List.all_eq_true] at h1
  have h2 := h1 a ha
  simpa using h2

/-- equal keys ⇒ every stored attribute agrees -/
theorem key_attr (t : KeyTable) (hc : KeyTableComplete t = true) (e₁ e₂ : Expr)
    (h : key t e₁ = key t e₂) (a : Attr) (ha : a ∈ semAttrs (cls e₁)) : attr e₁ a = attr e₂ a := by
  have hcls : cls e₁ = cls e₂ := by rw [← key_cls t e₁, ← key_cls t e₂, h]
  have hv : (t.attrs (cls e₁)).map (attr e₁) = (t.attrs (cls e₁)).map (attr e₂) := by
    have := congrArg KeyTree.vals h
    rw [key_vals, key_vals, ← hcls] at this
    exact this
  exact List.map_inj_left.mp hv a (complete_mem t hc _ a ha)

/-- **key_sound** (injectivity form): with a complete key table, two expression trees with the
same key are the same tree. -/
theorem key_injective (t : KeyTable) (hc : KeyTableComplete t = true) (e₁ : Expr) :
    ∀ e₂, key t e₁ = key t e₂ → e₁ = e₂ := by
  induction e₁ using Expr.rec
    (motive_2 := fun es₁ => ∀ es₂ : List Expr, es₁.map (key t) = es₂.map (key t) → es₁ = es₂) with
  | nil => rename_i es₂ h; cases es₂ <;> simp_all
  | cons e es ihe ihes =>
    rename_i es₂ h
    cases es₂ with
    | nil => simp at h
    | cons e' es' =>
      simp only [List.map_cons, List.cons.injEq] at h
      rw [ihe e' h.1, ihes es' h.2]
  | const v =>
    intro e₂ h
    have hcls : cls (const v) = cls e₂ := by rw [← key_cls t, ← key_cls t e₂, h]
    have ha := key_attr t hc _ _ h
    cases e₂ <;> simp [cls] at hcls
    have := ha .value (by simp [cls, semAttrs])
    simp [attr] at this; rw [this]
  | litvec es ih =>
    intro e₂ h
    have hcls : cls (litvec es) = cls e₂ := by rw [← key_cls t, ← key_cls t e₂, h]
    have hk := congrArg KeyTree.kids h
    rw [key_kids, key_kids] at hk
    cases e₂ <;> simp [cls] at hcls
    simp only [children] at hk
    rw [ih _ hk]
  | litmat m n es ih =>
    intro e₂ h
    have hcls : cls (litmat m n es) = cls e₂ := by rw [← key_cls t, ← key_cls t e₂, h]
    have hk := congrArg KeyTree.kids h
    have hs := congrArg KeyTree.shp h
    rw [key_kids, key_kids] at hk
    cases e₂ <;> simp [cls] at hcls
    simp only [children] at hk
    simp only [key, KeyTree.shp, List.cons.injEq, and_true] at hs
    rw [ih _ hk, hs.1, hs.2]
  | varref v I D p =>
    intro e₂ h
    have hcls : cls (varref v I D p) = cls e₂ := by rw [← key_cls t, ← key_cls t e₂, h]
    have ha := key_attr t hc _ _ h
    cases e₂ <;> simp [cls] at hcls
    have h1 := ha .varName (by simp [cls, semAttrs])
    have h2 := ha .I (by simp [cls, semAttrs])
    have h3 := ha .D (by simp [cls, semAttrs])
    have h4 := ha .parametric (by simp [cls, semAttrs])
    simp [attr] at h1 h2 h3 h4
    rw [h1, h2, h3, h4]
  | neg x ih =>
    intro e₂ h
    have hcls : cls (neg x) = cls e₂ := by rw [← key_cls t, ← key_cls t e₂, h]
    have hk := congrArg KeyTree.kids h
    rw [key_kids, key_kids] at hk
    cases e₂ <;> simp [cls] at hcls
    simp only [children, List.map_cons, List.map_nil, List.cons.injEq, and_true] at hk
    rw [ih _ hk]
  | builtin f x ih =>
    intro e₂ h
    have hcls : cls (builtin f x) = cls e₂ := by rw [← key_cls t, ← key_cls t e₂, h]
    have ha := key_attr t hc _ _ h
    have hk := congrArg KeyTree.kids h
    rw [key_kids, key_kids] at hk
    cases e₂ <;> simp [cls] at hcls
    simp only [children, List.map_cons, List.map_nil, List.cons.injEq, and_true] at hk
    have h1 := ha .funcname (by simp [cls, semAttrs])
    simp [attr] at h1
    rw [ih _ hk, h1]
  | sop op x y ihx ihy =>
    intro e₂ h
    have hcls : cls (sop op x y) = cls e₂ := by rw [← key_cls t, ← key_cls t e₂, h]
    have ha := key_attr t hc _ _ h
    have hk := congrArg KeyTree.kids h
    rw [key_kids, key_kids] at hk
    cases e₂ <;> simp [cls] at hcls
    simp only [children, List.map_cons, List.map_nil, List.cons.injEq, and_true] at hk
    have h1 := ha .oper (by simp [cls, semAttrs])
    simp [attr] at h1
    rw [ihx _ hk.1, ihy _ hk.2, h1]
  | top op x y ihx ihy =>
    intro e₂ h
    have hcls : cls (top op x y) = cls e₂ := by rw [← key_cls t, ← key_cls t e₂, h]
    have ha := key_attr t hc _ _ h
    have hk := congrArg KeyTree.kids h
    rw [key_kids, key_kids] at hk
    cases e₂ <;> simp [cls] at hcls
    simp only [children, List.map_cons, List.map_nil, List.cons.injEq, and_true] at hk
    have h1 := ha .oper (by simp [cls, semAttrs])
    simp [attr] at h1
    rw [ihx _ hk.1, ihy _ hk.2, h1]
  | cross x y ihx ihy =>
    intro e₂ h
    have hcls : cls (cross x y) = cls e₂ := by rw [← key_cls t, ← key_cls t e₂, h]
    have hk := congrArg KeyTree.kids h
    rw [key_kids, key_kids] at hk
    cases e₂ <;> simp [cls] at hcls
    simp only [children, List.map_cons, List.map_nil, List.cons.injEq, and_true] at hk
    rw [ihx _ hk.1, ihy _ hk.2]
  | outer x y ihx ihy =>
    intro e₂ h
    have hcls : cls (outer x y) = cls e₂ := by rw [← key_cls t, ← key_cls t e₂, h]
    have hk := congrArg KeyTree.kids h
    rw [key_kids, key_kids] at hk
    cases e₂ <;> simp [cls] at hcls
    simp only [children, List.map_cons, List.map_nil, List.cons.injEq, and_true] at hk
    rw [ihx _ hk.1, ihy _ hk.2]
  | pderiv b D ph =>
    intro e₂ h
    have hcls : cls (pderiv b D ph) = cls e₂ := by rw [← key_cls t, ← key_cls t e₂, h]
    have ha := key_attr t hc _ _ h
    cases e₂ <;> simp [cls] at hcls
    rename_i b' D' ph'
    have h1 := ha .bfName (by simp [cls, semAttrs])
    have h2 := ha .bfNumcomp (by simp [cls, semAttrs])
    have h3 := ha .bfComponent (by simp [cls, semAttrs])
    have h4 := ha .bfSpace (by simp [cls, semAttrs])
    have h5 := ha .D (by simp [cls, semAttrs])
    have h6 := ha .physical (by simp [cls, semAttrs])
    simp [attr] at h1 h2 h3 h4 h5 h6
    have hb : b = b' := by
      cases b; cases b'; simp_all
    rw [hb, h5, h6]
  | matvec x y ihx ihy =>
    intro e₂ h
    have hcls : cls (matvec x y) = cls e₂ := by rw [← key_cls t, ← key_cls t e₂, h]
    have hk := congrArg KeyTree.kids h
    rw [key_kids, key_kids] at hk
    cases e₂ <;> simp [cls] at hcls
    simp only [children, List.map_cons, List.map_nil, List.cons.injEq, and_true] at hk
    rw [ihx _ hk.1, ihy _ hk.2]
  | matmat x y ihx ihy =>
    intro e₂ h
    have hcls : cls (matmat x y) = cls e₂ := by rw [← key_cls t, ← key_cls t e₂, h]
    have hk := congrArg KeyTree.kids h
    rw [key_kids, key_kids] at hk
    cases e₂ <;> simp [cls] at hcls
    simp only [children, List.map_cons, List.map_nil, List.cons.injEq, and_true] at hk
    rw [ihx _ hk.1, ihy _ hk.2]
  | gw a =>
    intro e₂ h
    have hcls : cls (gw a) = cls e₂ := by rw [← key_cls t, ← key_cls t e₂, h]
    have ha := key_attr t hc _ _ h
    cases e₂ <;> simp [cls] at hcls
    have h1 := ha .axis (by simp [cls, semAttrs])
    simp [attr] at h1; rw [h1]
  | dx =>
    intro e₂ h
    have hcls : cls dx = cls e₂ := by rw [← key_cls t, ← key_cls t e₂, h]
    cases e₂ <;> simp [cls] at hcls
    rfl
  | ds =>
    intro e₂ h
    have hcls : cls ds = cls e₂ := by rw [← key_cls t, ← key_cls t e₂, h]
    cases e₂ <;> simp [cls] at hcls
    rfl

/-- soundness of the executable key comparison -/
theorem KeyTree.beq_sound : ∀ (a b : KeyTree), KeyTree.beq a b = true → a = b := by
  intro a
  induction a using KeyTree.rec
    (motive_2 := fun as => ∀ bs, KeyTree.beqL as bs = true → as = bs) with
  | node c s v ks ih =>
    intro b h
    cases b with
    | node c' s' v' ks' =>
      simp only [KeyTree.beq, Bool.and_eq_true, decide_eq_true_eq] at h
      obtain ⟨⟨⟨h1, h2⟩, h3⟩, h4⟩ := h
      rw [h1, h2, h3, ih _ h4]
  | nil => rename_i bs h; cases bs <;> simp_all [KeyTree.beqL]
  | cons a as iha ihas =>
    rename_i bs h
    cases bs with
    | nil => simp [KeyTree.beqL] at h
    | cons b bs =>
      simp only [KeyTree.beqL, Bool.and_eq_true] at h
      rw [iha _ h.1, ihas _ h.2]

/-- **cse_sound**: replacing every node selected by `p` with `x` preserves every entry, provided all
selected nodes denote what `x` denotes.  With a complete key table the nodes selected by
`hashes[e] == h` are *equal* to the extracted expression `c` (`key_injective`), and `x` is the
reference to the new variable bound to `c`. -/
theorem cseReplace_sound {α : Type} (o : Ops α) (ρ : Env α) (p : Expr → Bool) (x : Expr)
    (hp : ∀ e, p e = true → ∀ i j, ev o ρ x i j = ev o ρ e i j)
    (hshape : ∀ e, p e = true → shape x = shape e) (e : Expr) :
    (∀ i j, ev o ρ (cseReplace p x e) i j = ev o ρ e i j) ∧ shape (cseReplace p x e) = shape e := by
  induction e using Expr.rec
    (motive_2 := fun es => (∀ i, evL o ρ (es.map (cseReplace p x)) i = evL o ρ es i)) with
  | nil => simp
  | cons e es ihe ihes => rename_i i; cases i <;> simp_all [evL]
  | const v =>
    by_cases h : p (const v) = true
    · simp only [cseReplace, h, if_true]; exact ⟨hp _ h, hshape _ h⟩
    · simp_all [cseReplace]
  | varref v I D q =>
    by_cases h : p (varref v I D q) = true
    · simp only [cseReplace, h, if_true]; exact ⟨hp _ h, hshape _ h⟩
    · simp_all [cseReplace]
  | pderiv b D ph =>
    by_cases h : p (pderiv b D ph) = true
    · simp only [cseReplace, h, if_true]; exact ⟨hp _ h, hshape _ h⟩
    · simp_all [cseReplace]
  | gw a =>
    by_cases h : p (gw a) = true
    · simp only [cseReplace, h, if_true]; exact ⟨hp _ h, hshape _ h⟩
    · simp_all [cseReplace]
  | dx =>
    by_cases h : p dx = true
    · simp only [cseReplace, h, if_true]; exact ⟨hp _ h, hshape _ h⟩
    · simp_all [cseReplace]
  | ds =>
    by_cases h : p ds = true
    · simp only [cseReplace, h, if_true]; exact ⟨hp _ h, hshape _ h⟩
    · simp_all [cseReplace]
  | litvec es ih =>
    by_cases h : p (litvec es) = true
    · simp only [cseReplace, h, if_true]; exact ⟨hp _ h, hshape _ h⟩
    · simp_all [cseReplace, ev, shape]
  | litmat m n es ih =>
    by_cases h : p (litmat m n es) = true
    · simp only [cseReplace, h, if_true]; exact ⟨hp _ h, hshape _ h⟩
    · simp_all [cseReplace, ev, shape]
  | neg a ih =>
    by_cases h : p (neg a) = true
    · simp only [cseReplace, h, if_true]; exact ⟨hp _ h, hshape _ h⟩
    · simp_all [cseReplace, ev, shape]
  | builtin f a ih =>
    by_cases h : p (builtin f a) = true
    · simp only [cseReplace, h, if_true]; exact ⟨hp _ h, hshape _ h⟩
    · simp_all [cseReplace, ev, shape]
  | sop op a b iha ihb =>
    by_cases h : p (sop op a b) = true
    · simp only [cseReplace, h, if_true]; exact ⟨hp _ h, hshape _ h⟩
    · simp_all [cseReplace, ev, shape]
  | top op a b iha ihb =>
    by_cases h : p (top op a b) = true
    · simp only [cseReplace, h, if_true]; exact ⟨hp _ h, hshape _ h⟩
    · simp_all [cseReplace, ev, shape]
  | cross a b iha ihb =>
    by_cases h : p (cross a b) = true
    · simp only [cseReplace, h, if_true]; exact ⟨hp _ h, hshape _ h⟩
    · simp only [cseReplace, h, Bool.false_eq_true, if_false, shape, iha.2, and_true]
      intro i j; rcases i with _ | _ | i <;> simp [ev, iha.1, ihb.1]
  | outer a b iha ihb =>
    by_cases h : p (outer a b) = true
    · simp only [cseReplace, h, if_true]; exact ⟨hp _ h, hshape _ h⟩
    · simp_all [cseReplace, ev, shape]
  | matvec a b iha ihb =>
    by_cases h : p (matvec a b) = true
    · simp only [cseReplace, h, if_true]; exact ⟨hp _ h, hshape _ h⟩
    · simp_all [cseReplace, ev, shape, len]
  | matmat a b iha ihb =>
    by_cases h : p (matmat a b) = true
    · simp only [cseReplace, h, if_true]; exact ⟨hp _ h, hshape _ h⟩
    · simp_all [cseReplace, ev, shape, ncols]

end Pyiga.VForm

namespace Pyiga.VForm
open Expr

/-- **inline_sound** (translation validation of CSE / trivial-variable elimination): if the store
gives every listed variable entry the value of its definition, inlining preserves every entry. -/
theorem inlineVars_sound {α : Type} (o : Ops α) (ρ : Env α) (defs : List (String × Expr))
    (H : ∀ v I D q d, defs.find? (·.1 == v) = some d →
      (∀ i j, ev o ρ (underlying d.2 I) i j = ρ.var v I D q) ∧ shape (underlying d.2 I) = [])
    (e : Expr) :
    (∀ i j, ev o ρ (inlineVars defs e) i j = ev o ρ e i j) ∧ shape (inlineVars defs e) = shape e := by
  induction e using Expr.rec
    (motive_2 := fun es => (∀ i, evL o ρ (es.map (inlineVars defs)) i = evL o ρ es i)) with
  | nil => simp
  | cons e es ihe ihes => rename_i i; cases i <;> simp_all [evL]
  | varref v I D q =>
    simp only [inlineVars]
    split
    · rename_i d hd
      have := H v I D q d hd
      exact ⟨fun i j => by simp [ev, this.1], by simp [shape, this.2]⟩
    · simp
  | cross a b iha ihb =>
    simp only [inlineVars, shape, iha.2, and_true]
    intro i j; rcases i with _ | _ | i <;> simp [ev, iha.1, ihb.1]
  | matvec a b iha ihb => simp_all [inlineVars, ev, shape, len]
  | matmat a b iha ihb => simp_all [inlineVars, ev, shape, ncols]
  | _ => simp_all [inlineVars, ev, shape]

/-- the environment in which the component basis functions `(name, c)` of a vector-valued basis
function are `δ_{c,comp}` times the underlying scalar basis function -/
def Env.selectComp {α : Type} (o : Ops α) (ρ : Env α) (basic : BFun) (comp : Nat) : Env α :=
  { ρ with bf := fun b D ph =>
      if b.name == basic.name && b.component.isSome then
        (if b.component == some comp then ρ.bf basic D ph else o.ofRat 0)
      else ρ.bf b D ph }

/-- **vec_subst_sound**: `replace_vector_bfuns(·, name, comp)` denotes the expression with the
vector basis function replaced by `φ·e_comp`; so entry `(i,j)` of `substitute_vec_components`
is the form applied to `(ψ e_i, φ e_j)`. -/
theorem replBf_sound {α : Type} (o : Ops α) (ρ : Env α) (basic : BFun) (comp : Nat) (e : Expr) :
    (∀ i j, ev o ρ (replBf basic comp e) i j = ev o (ρ.selectComp o basic comp) e i j)
      ∧ shape (replBf basic comp e) = shape e := by
  induction e using Expr.rec
    (motive_2 := fun es => (∀ i, evL o ρ (es.map (replBf basic comp)) i = evL o (ρ.selectComp o basic comp) es i)) with
  | nil => simp [evL]
  | cons e es ihe ihes => rename_i i; cases i <;> simp_all [evL]
  | pderiv b D ph =>
    simp only [replBf, Env.selectComp, ev]
    constructor
    · intro i j
      split
      · split <;> simp [ev]
      · simp [ev]
    · split
      · split <;> simp [shape]
      · simp [shape]
  | cross a b iha ihb =>
    simp only [replBf, shape, iha.2, and_true]
    intro i j; rcases i with _ | _ | i <;> simp [ev, iha.1, ihb.1]
  | matvec a b iha ihb => simp_all [replBf, ev, shape, len]
  | matmat a b iha ihb => simp_all [replBf, ev, shape, ncols]
  | varref v I D q => simp [replBf, ev, Env.selectComp]
  | gw a => simp [replBf, ev, Env.selectComp]
  | dx => simp [replBf, ev, Env.selectComp]
  | ds => simp [replBf, ev, Env.selectComp]
  | _ => simp_all [replBf, ev, shape]

/-! ### form-level keys and the cache -/

theorem FVal.beq_sound : ∀ (a b : FVal), FVal.beq a b = true → a = b := by
  intro a
  induction a using FVal.rec (motive_2 := fun as => ∀ bs, FVal.beqL as bs = true → as = bs) with
  | nil => rename_i bs h; cases bs <;> simp_all [FVal.beqL]
  | cons a as iha ihas =>
    rename_i bs h
    cases bs with
    | nil => simp [FVal.beqL] at h
    | cons b bs =>
      simp only [FVal.beqL, Bool.and_eq_true] at h
      rw [iha _ h.1, ihas _ h.2]
  | tree k => intro b h; cases b <;> simp_all [FVal.beq]; exact KeyTree.beq_sound _ _ h
  | list l ih => intro b h; cases b <;> simp_all [FVal.beq]; exact ih _ h
  | _ => intro b h; cases b <;> simp_all [FVal.beq]

theorem fld_complete (t : FKeyTable) (h : FKeyTableComplete t = true) (a : FAttr) (v : FVal) :
    fld t a v = v := by
  unfold FKeyTableComplete at h
  rw [List.all_eq_true] at h
  have : a ∈ allFAttrs := by cases a <;> simp [allFAttrs]
  have hc := h a this
  unfold fld
  rw [hc]; rfl

theorem bfKey_inj (t : FKeyTable) (h : FKeyTableComplete t = true) (a b : BFun) (e : bfKey t a = bfKey t b) : a = b := by
  simp only [bfKey, fld_complete t h] at e
  cases a; cases b; simp_all

theorem inKey_inj (t : FKeyTable) (h : FKeyTableComplete t = true) (a b : InputField) (e : inKey t a = inKey t b) : a = b := by
  simp only [inKey, fld_complete t h] at e
  cases a; cases b; simp_all

theorem parKey_inj (t : FKeyTable) (h : FKeyTableComplete t = true) (a b : Parameter) (e : parKey t a = parKey t b) : a = b := by
  simp only [parKey, fld_complete t h] at e
  cases a; cases b; simp_all

theorem srcKey_inj (kt : KeyTable) (hk : KeyTableComplete kt = true) (t : FKeyTable) (h : FKeyTableComplete t = true)
    (a b : Src) (e : srcKey kt t a = srcKey kt t b) : a = b := by
  cases a <;> cases b <;> simp [srcKey] at e
  · rw [key_injective kt hk _ _ e]
  · rw [inKey_inj t h _ _ e]
  · rw [parKey_inj t h _ _ e]

theorem varKey_inj (kt : KeyTable) (hk : KeyTableComplete kt = true) (t : FKeyTable) (h : FKeyTableComplete t = true)
    (a b : AsmVar) (e : varKey kt t a = varKey kt t b) : a = b := by
  simp only [varKey, fld_complete t h] at e
  cases a; cases b
  simp only [FVal.list.injEq, List.cons.injEq, FVal.str.injEq, FVal.nats.injEq, FVal.bool.injEq, FVal.onat.injEq, and_true] at e
  obtain ⟨h1, h2, h3, h4, h5⟩ := e
  have := srcKey_inj kt hk t h _ _ h2
  simp_all

theorem map_inj_of_inj {β γ : Type} (f : β → γ) (hf : ∀ a b, f a = f b → a = b) :
    ∀ (l₁ l₂ : List β), l₁.map f = l₂.map f → l₁ = l₂
  | [], [], _ => rfl
  | [], _ :: _, h => by simp at h
  | _ :: _, [], h => by simp at h
  | a :: l₁, b :: l₂, h => by
      simp only [List.map_cons, List.cons.injEq] at h
      rw [hf a b h.1, map_inj_of_inj f hf l₁ l₂ h.2]

/-- with complete tables the cache key determines the request (form and on-demand flag) -/
theorem cacheKey_injective (kt : KeyTable) (hk : KeyTableComplete kt = true) (t : FKeyTable)
    (h : FKeyTableComplete t = true) (r₁ r₂ : Form × Bool) (e : cacheKey kt t r₁ = cacheKey kt t r₂) :
    r₁ = r₂ := by
  obtain ⟨f₁, o₁⟩ := r₁
  obtain ⟨f₂, o₂⟩ := r₂
  simp only [cacheKey, formKey, fld_complete t h] at e
  simp only [FVal.list.injEq, List.cons.injEq, FVal.nat.injEq, FVal.bool.injEq, and_true] at e
  obtain ⟨⟨h1, h2, h3, h4, h5, h6, h7, h8, h9, h10⟩, h11⟩ := e
  have e7 := map_inj_of_inj _ (bfKey_inj t h) _ _ h7
  have e8 := map_inj_of_inj _ (inKey_inj t h) _ _ h8
  have e9 := map_inj_of_inj _ (varKey_inj kt hk t h) _ _ h9
  have e10 := map_inj_of_inj (fun e => FVal.tree (key kt e))
    (fun a b hab => key_injective kt hk a b (by simpa using hab)) _ _ h10
  cases f₁; cases f₂
  simp_all

/-- cache invariant: every entry was generated from a request with that key -/
def CacheInv {Asm : Type} (gen : Form × Bool → Asm) (kt : KeyTable) (t : FKeyTable) (c : AsmCache Asm) : Prop :=
  ∀ p ∈ c, ∃ r, p.1 = cacheKey kt t r ∧ p.2 = gen r

/-- **cache_sound** (one request): under the invariant, `compile_vform` returns the assembler
generated from the requested form itself, and keeps the invariant. -/
theorem compileVform_sound {Asm : Type} (gen : Form × Bool → Asm) (kt : KeyTable) (hk : KeyTableComplete kt = true)
    (t : FKeyTable) (h : FKeyTableComplete t = true) (c : AsmCache Asm) (hc : CacheInv gen kt t c) (r : Form × Bool) :
    (compileVform gen kt t c r).2 = gen r ∧ CacheInv gen kt t (compileVform gen kt t c r).1 := by
  unfold compileVform
  split
  · rename_i p hp
    have hmem := List.mem_of_find?_eq_some hp
    have hbeq := List.find?_some hp
    obtain ⟨r', hr1, hr2⟩ := hc p hmem
    have hkey : p.1 = cacheKey kt t r := FVal.beq_sound _ _ hbeq
    have : r' = r := cacheKey_injective kt hk t h r' r (by rw [← hr1, hkey])
    subst this
    exact ⟨hr2, hc⟩
  · refine ⟨rfl, ?_⟩
    intro p hp
    rcases List.mem_cons.mp hp with e | hp'
    · exact ⟨r, by rw [e], by rw [e]⟩
    · exact hc p hp'

/-- **cache_sound** (every history of requests) -/
theorem compileAll_sound {Asm : Type} (gen : Form × Bool → Asm) (kt : KeyTable) (hk : KeyTableComplete kt = true)
    (t : FKeyTable) (h : FKeyTableComplete t = true) :
    ∀ (rs : List (Form × Bool)) (c : AsmCache Asm), CacheInv gen kt t c →
      (compileAll gen kt t c rs).2 = rs.map gen ∧ CacheInv gen kt t (compileAll gen kt t c rs).1
  | [], c, hc => ⟨rfl, hc⟩
  | r :: rs, c, hc => by
      have h1 := compileVform_sound gen kt hk t h c hc r
      have h2 := compileAll_sound gen kt hk t h rs _ h1.2
      simp only [compileAll, List.map_cons]
      exact ⟨by rw [h1.1, h2.1], h2.2⟩

end Pyiga.VForm
