/-
`BaseBlockOperator._matvec` (accumulation loop) = the explicit block matrix times `x`;
`CSRRowSlice` = the selected rows of the dense matrix the CSR arrays denote.
-/
import Pyiga.Proofs.Operators

namespace Pyiga.Ops
open Pyiga.Index Pyiga.LA

section
variable {α : Type} [CommSemiring α]

/-- a windowed sum: only `c ∈ [c0, c1)` contributes -/
theorem sum_window (N c0 c1 : Nat) (F : Nat → α) (h01 : c0 ≤ c1) (h1N : c1 ≤ N) :
    ∑ c ∈ Finset.range N, (if c0 ≤ c ∧ c < c1 then F c else 0) = ∑ j ∈ Finset.range (c1 - c0), F (c0 + j) := by
  obtain ⟨w, rfl⟩ := Nat.exists_eq_add_of_le h01
  obtain ⟨k, rfl⟩ := Nat.exists_eq_add_of_le h1N
  rw [Finset.sum_range_add, Finset.sum_range_add, Nat.add_sub_cancel_left]
  have z1 : ∑ x ∈ Finset.range c0, (if c0 ≤ x ∧ x < c0 + w then F x else 0) = 0 :=
    Finset.sum_eq_zero (fun x hx => by
      have := Finset.mem_range.1 hx
      rw [if_neg (by omega)])
  have z3 : ∑ x ∈ Finset.range k, (if c0 ≤ c0 + w + x ∧ c0 + w + x < c0 + w then F (c0 + w + x) else 0) = 0 :=
    Finset.sum_eq_zero (fun x _ => by rw [if_neg (by omega)])
  rw [z1, z3, zero_add, add_zero]
  apply Finset.sum_congr rfl
  intro j hj
  have := Finset.mem_range.1 hj
  rw [if_pos (by omega)]

theorem dot_vec (B : Op α) (x : Tensor α) (h : x.shape = [B.n]) :
    dot B x = .ok (Tensor.ofFn [B.m] (fun idx => sumRange B.n (fun j => B.ent (idx.getD 0 0) j * x.get [j]))) := by
  unfold dot
  rw [h]
  simp

/-- contribution of one placed block to row `r` of the product -/
def contrib (x : Tensor α) (N : Nat) (p : Op α × Rng × Rng) (r : Nat) : α :=
  sumRange N (fun c => placed p.1 p.2.1 p.2.2 r c * x.get [c])

def BlkOk (M N : Nat) (p : Op α × Rng × Rng) : Prop :=
  p.2.1.1 ≤ p.2.1.2 ∧ p.2.1.2 ≤ M ∧ p.2.2.1 ≤ p.2.2.2 ∧ p.2.2.2 ≤ N ∧
    p.1.m = p.2.1.2 - p.2.1.1 ∧ p.1.n = p.2.2.2 - p.2.2.1

/-- one iteration `y[ran_out] += op.dot(x[ran_in])` -/
theorem block_step (M N : Nat) (x y : Tensor α) (hx : x.shape = [N]) (hy : y.shape = [M])
    (p : Op α × Rng × Rng) (hp : BlkOk M N p) :
    ∃ y', (do let v ← dot p.1 (takeRows x p.2.2); addRows y p.2.1 v) = Except.ok y' ∧ y'.shape = [M] ∧
      ∀ r, r < M → y'.get [r] = y.get [r] + contrib x N p r := by
  obtain ⟨B, ⟨a, a'⟩, ⟨c0, c1⟩⟩ := p
  obtain ⟨h1, h2, h3, h4, h5, h6⟩ := hp
  simp only at h1 h2 h3 h4 h5 h6
  have hts : (takeRows x (c0, c1)).shape = [B.n] := by simp [takeRows, hx, h6]
  rw [dot_vec B _ hts]
  have hvs : (Tensor.ofFn [B.m] (fun idx => sumRange B.n (fun j => B.ent (idx.getD 0 0) j *
      (takeRows x (c0, c1)).get [j]))).shape = (a' - a) :: y.shape.tail := by simp [hy, h5]
  refine ⟨_, by simp only [bind, Except.bind, addRows]; rw [if_neg (not_not.2 hvs)], by simp [hy], ?_⟩
  intro r hr
  rw [Tensor.get_ofFn _ _ _ (by rw [hy]; exact ⟨hr, trivial⟩)]
  unfold contrib placed
  rw [sumRange_eq_sum]
  by_cases hin : a ≤ r ∧ r < a'
  · simp only [List.headD_cons, List.tail_cons, hin.1, hin.2, and_self, true_and, if_true, ite_mul, zero_mul]
    congr 1
    have hra : r - a < B.m := by omega
    rw [Tensor.get_ofFn _ _ _ (show Below [r - a] [B.m] from ⟨hra, trivial⟩), sumRange_eq_sum]
    simp only [List.getD_cons_zero]
    rw [sum_window N c0 c1 _ h3 h4, h6]
    apply Finset.sum_congr rfl
    intro j hj
    have hj' := Finset.mem_range.1 hj
    rw [Nat.add_sub_cancel_left]
    congr 1
    unfold takeRows
    rw [Tensor.get_ofFn _ _ _ (by simp only [hx, List.tail_cons]; exact ⟨hj', trivial⟩)]
    simp
  · have z : ∀ c, (if a ≤ r ∧ r < a' ∧ c0 ≤ c ∧ c < c1 then B.ent (r - a) (c - c0) else 0) * x.get [c] = 0 := by
      intro c
      rw [if_neg (fun h => hin ⟨h.1, h.2.1⟩), zero_mul]
    simp only [z, Finset.sum_const_zero, add_zero, List.headD_cons, List.tail_cons, hin, if_false]

theorem block_fold (M N : Nat) (x : Tensor α) (hx : x.shape = [N]) :
    ∀ (L : List (Op α × Rng × Rng)) (y : Tensor α), y.shape = [M] → (∀ p ∈ L, BlkOk M N p) →
    ∃ y', L.foldl (fun (acc : Except Err (Tensor α)) (p : Op α × Rng × Rng) => do
        let y ← acc
        let v ← dot p.1 (takeRows x p.2.2)
        addRows y p.2.1 v) (.ok y) = .ok y' ∧ y'.shape = [M] ∧
      ∀ r, r < M → y'.get [r] = y.get [r] + (L.map (fun p => contrib x N p r)).sum
  | [], y, hy, _ => ⟨y, rfl, hy, fun r _ => by simp⟩
  | p :: L, y, hy, hL => by
    obtain ⟨y1, e1, s1, g1⟩ := block_step M N x y hx hy p (hL p List.mem_cons_self)
    obtain ⟨y2, e2, s2, g2⟩ := block_fold M N x hx L y1 s1 (fun q hq => hL q (List.mem_cons_of_mem _ hq))
    refine ⟨y2, ?_, s2, ?_⟩
    · rw [List.foldl_cons]
      have : (do let y ← (Except.ok y : Except Err (Tensor α)); let v ← dot p.1 (takeRows x p.2.2); addRows y p.2.1 v)
          = Except.ok y1 := e1
      rw [this]; exact e2
    · intro r hr
      rw [g2 r hr, g1 r hr, List.map_cons, List.sum_cons, add_assoc]

theorem sum_contrib (x : Tensor α) (N r : Nat) : ∀ (L : List (Op α × Rng × Rng)),
    (L.map (fun p => contrib x N p r)).sum
      = sumRange N (fun c => (L.map (fun p => placed p.1 p.2.1 p.2.2 r c)).sum * x.get [c])
  | [] => by simp [sumRange_eq_sum]
  | p :: L => by
    rw [List.map_cons, List.sum_cons, sum_contrib x N r L]
    unfold contrib
    simp only [sumRange_eq_sum, List.map_cons, List.sum_cons, add_mul, Finset.sum_add_distrib]

theorem blockAccum_spec (B : BaseBlock α) (x : Tensor α) (hx : x.shape = [B.N]) (hw : B.WellFormed) :
    ∃ y, blockAccum B x (Tensor.ofFn [B.M] (fun _ => 0)) = .ok y ∧ y.shape = [B.M] ∧
      ∀ r, r < B.M → y.get [r] = sumRange B.N (fun c => B.blockDense r c * x.get [c]) := by
  obtain ⟨y, e, s, g⟩ := block_fold B.M B.N x hx (B.ops.zip (B.ranOut.zip B.ranIn))
    (Tensor.ofFn [B.M] (fun _ => 0)) rfl (fun p hp => hw.2.2 p hp)
  refine ⟨y, e, s, ?_⟩
  intro r hr
  rw [g r hr, Tensor.get_ofFn _ _ _ (show Below [r] [B.M] from ⟨hr, trivial⟩), zero_add, sum_contrib]
  rfl

end
end Pyiga.Ops
