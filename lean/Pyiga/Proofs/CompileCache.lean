/-
Helper lemmas for property C20: the inductive invariant of the repaired compile-cache
protocol and its preservation by every event of the scheduler.
-/
import Pyiga.Model.CompileCache

namespace Pyiga.CompileCache

/-- the private build directory a program counter owns (if any) -/
def tmpOf : PC → Option Nat
  | .pyx0 w | .pyx1 w | .cy0 w | .cy1 w _ | .cc0 w | .cc1 w _ | .ld0 w | .ld1 w _ => w
  | .pub t | .clean t => some t
  | _ => none

/-- the final path of module `n` is absent, or a complete module whose source has digest `n` -/
def FinalOK (digest : Src → Nat) (d : Dir) : Prop :=
  ∀ n, d (final n) = .absent ∨ ∃ s, d (final n) = .complete s ∧ digest s = n

/-- what a process of the repaired protocol knows at each program point -/
def ProcOK (digest : Src → Nat) (d : Dir) (nt : Nat) (src : Src) : PC → Prop
  | .unborn | .imp | .mk | .killed => True
  | .loaded s => s = src
  | .failed | .crashed => False
  | .pyx0 (some t) | .pyx1 (some t) => t < nt
  | .cy0 (some t) => t < nt ∧ d (.priv t .pyx) = .complete src
  | .cy1 (some t) s | .cc1 (some t) s | .ld1 (some t) s => t < nt ∧ s = src
  | .cc0 (some t) => t < nt ∧ d (.priv t .c) = .complete src
  | .ld0 (some t) => t < nt ∧ d (.priv t .o) = .complete src
  | .pub t => t < nt ∧ d (.priv t .so) = .complete src
  | .clean t => t < nt ∧ d (final (digest src)) = .complete src
  | .imp2 => d (final (digest src)) = .complete src
  | _ => False

/-- The inductive invariant of the repaired protocol. -/
structure Inv (digest : Src → Nat) (σ : State) : Prop where
  final_ok : FinalOK digest σ.dir
  fresh : ∀ t k, σ.nextTmp ≤ t → σ.dir (.priv t k) = .absent
  procs_ok : ∀ i, ProcOK digest σ.dir σ.nextTmp (σ.procs i).src (σ.procs i).pc
  own : ∀ i j t, i ≠ j → tmpOf (σ.procs i).pc = some t → tmpOf (σ.procs j).pc ≠ some t

@[simp] theorem set_same (d : Dir) (p : Path) (v : FileState) : d.set p v p = v := by
  simp [Dir.set]

theorem set_other (d : Dir) (p q : Path) (v : FileState) (h : q ≠ p) : d.set p v q = d q := by
  simp [Dir.set, h]

theorem ProcOK_tmp_lt {digest d nt src pc t} (h : ProcOK digest d nt src pc)
    (ht : tmpOf pc = some t) : t < nt := by
  cases pc <;> simp [tmpOf] at ht <;> (try subst ht) <;> simp [ProcOK] at h <;>
    first | exact h | exact h.1

/-- `ProcOK` only looks at the owner's private directory and at complete final entries. -/
theorem ProcOK_frame {digest : Src → Nat} {d d' : Dir} {nt nt' : Nat} {src : Src} {pc : PC}
    (h : ProcOK digest d nt src pc) (hnt : nt ≤ nt')
    (hpriv : ∀ t k, tmpOf pc = some t → d' (.priv t k) = d (.priv t k))
    (hfin : ∀ n s, d (final n) = .complete s → d' (final n) = .complete s) :
    ProcOK digest d' nt' src pc := by
  cases pc with
  | pyx0 w | pyx1 w | cy0 w | cc0 w | ld0 w =>
      cases w with
      | none => simp [ProcOK] at h
      | some t =>
          simp only [ProcOK] at h ⊢
          first
            | exact Nat.lt_of_lt_of_le h hnt
            | exact ⟨Nat.lt_of_lt_of_le h.1 hnt, by rw [hpriv t _ rfl]; exact h.2⟩
  | cy1 w s | cc1 w s | ld1 w s =>
      cases w with
      | none => simp [ProcOK] at h
      | some t => simp only [ProcOK] at h ⊢; exact ⟨Nat.lt_of_lt_of_le h.1 hnt, h.2⟩
  | pub t => simp only [ProcOK] at h ⊢; exact ⟨Nat.lt_of_lt_of_le h.1 hnt, by rw [hpriv t _ rfl]; exact h.2⟩
  | clean t => simp only [ProcOK] at h ⊢; exact ⟨Nat.lt_of_lt_of_le h.1 hnt, hfin _ _ h.2⟩
  | pub1 t => simp [ProcOK] at h
  | imp2 => simp only [ProcOK] at h ⊢; exact hfin _ _ h
  | loaded s => simpa [ProcOK] using h
  | failed | crashed => simp [ProcOK] at h
  | unborn | imp | mk | killed => simp [ProcOK]


theorem final_ne_priv (n t : Nat) (k : Kind) : final n ≠ Path.priv t k := by simp [final]
theorem priv_ne_final (n t : Nat) (k : Kind) : Path.priv t k ≠ final n := by simp [final]

/-- everything one step of a process of the repaired protocol does, given the invariant -/
structure StepFacts (digest : Src → Nat) (d : Dir) (nt : Nat) (src : Src) (pc : PC)
    (r : Dir × Nat × PC) : Prop where
  ok' : ProcOK digest r.1 r.2.1 src r.2.2
  mono : nt ≤ r.2.1
  priv_frame : ∀ t k, tmpOf pc ≠ some t → r.1 (.priv t k) = d (.priv t k)
  fin_stable : ∀ n s, d (final n) = .complete s → r.1 (final n) = .complete s
  final_ok' : FinalOK digest r.1
  fresh' : ∀ t k, r.2.1 ≤ t → r.1 (.priv t k) = .absent
  tmp' : ∀ t, tmpOf r.2.2 = some t → tmpOf pc = some t ∨ nt ≤ t
  shared_frame : ∀ n k, Path.shared n k ≠ final (digest src) → r.1 (.shared n k) = d (.shared n k)

/-- a write into the owner's private directory -/
theorem facts_priv_write {digest : Src → Nat} {d : Dir} {nt : Nat} {src : Src} {pc pc' : PC}
    {t0 : Nat} {k0 : Kind} {v : FileState}
    (hfin : FinalOK digest d) (hfresh : ∀ t k, nt ≤ t → d (.priv t k) = .absent)
    (hown : tmpOf pc = some t0) (hlt : t0 < nt) (hown' : tmpOf pc' = some t0)
    (hok : ProcOK digest (d.set (.priv t0 k0) v) nt src pc') :
    StepFacts digest d nt src pc (d.set (.priv t0 k0) v, nt, pc') where
  ok' := hok
  mono := Nat.le_refl _
  priv_frame := by
    intro t k ht
    apply set_other
    intro h; injection h with h1 h2; subst h1; exact ht hown
  fin_stable := by
    intro n s h
    dsimp only
    rw [set_other _ _ _ _ (final_ne_priv _ _ _)]; exact h
  final_ok' := by
    intro n
    dsimp only
    rw [set_other _ _ _ _ (final_ne_priv _ _ _)]; exact hfin n
  fresh' := by
    intro t k ht
    dsimp only at ht ⊢
    rw [set_other]
    · exact hfresh t k ht
    · intro h; injection h with h1 h2; subst h1; exact absurd hlt (Nat.not_lt.mpr ht)
  tmp' := by
    intro t ht; left; rw [hown]; rw [hown'] at ht; exact ht
  shared_frame := by
    intro n k _
    dsimp only
    exact set_other _ _ _ _ (by intro h; cases h)

/-- a step that does not touch the directory -/
theorem facts_nowrite {digest : Src → Nat} {d : Dir} {nt : Nat} {src : Src} {pc pc' : PC}
    (hfin : FinalOK digest d) (hfresh : ∀ t k, nt ≤ t → d (.priv t k) = .absent)
    (hok : ProcOK digest d nt src pc') (htmp : tmpOf pc' = none) :
    StepFacts digest d nt src pc (d, nt, pc') where
  ok' := hok
  mono := Nat.le_refl _
  priv_frame := fun _ _ _ => rfl
  fin_stable := fun _ _ h => h
  final_ok' := hfin
  fresh' := hfresh
  tmp' := by intro t ht; rw [htmp] at ht; cases ht
  shared_frame := fun _ _ _ => rfl


theorem rmtree_shared (d : Dir) (t n : Nat) (k : Kind) : d.rmtree t (.shared n k) = d (.shared n k) := rfl

theorem rmtree_priv (d : Dir) (t t' : Nat) (k : Kind) :
    d.rmtree t (.priv t' k) = if t' = t then .absent else d (.priv t' k) := rfl

/-- **Preservation, process-local part.**  One step of a process of the repaired protocol
that satisfies its `ProcOK` keeps all the facts the invariant needs. -/
theorem pstep_facts {digest : Src → Nat} (hinj : Function.Injective digest)
    {d : Dir} {nt : Nat} {src : Src} (crash : Bool) {pc : PC}
    (hfin : FinalOK digest d) (hfresh : ∀ t k, nt ≤ t → d (.priv t k) = .absent)
    (hok : ProcOK digest d nt src pc) :
    StepFacts digest d nt src pc (pstep .repaired (digest src) d nt src crash pc) := by
  cases pc with
  | unborn | killed => exact facts_nowrite hfin hfresh hok rfl
  | loaded s => exact facts_nowrite hfin hfresh hok rfl
  | failed | crashed => simp [ProcOK] at hok
  | pub1 t => simp [ProcOK] at hok
  | imp =>
      simp only [pstep]
      apply facts_nowrite hfin hfresh
      · unfold importStep
        rcases hfin (digest src) with h | ⟨s, h, hs⟩
        · rw [h]; simp [ProcOK]
        · rw [h]; simp only [ProcOK]; exact hinj hs
      · unfold importStep
        rcases hfin (digest src) with h | ⟨s, h, hs⟩
        · rw [h]; rfl
        · rw [h]; rfl
  | mk =>
      simp only [pstep]
      refine ⟨?_, Nat.le_succ _, fun _ _ _ => rfl, fun _ _ h => h, hfin, ?_, ?_, fun _ _ _ => rfl⟩
      · simp [ProcOK]
      · intro t k ht; exact hfresh t k (Nat.le_of_succ_le ht)
      · intro t ht; simp [tmpOf] at ht; right; omega
  | pyx0 w =>
      cases w with
      | none => simp [ProcOK] at hok
      | some t =>
          simp only [ProcOK] at hok
          exact facts_priv_write hfin hfresh rfl hok rfl (by simpa [ProcOK] using hok)
  | pyx1 w =>
      cases w with
      | none => simp [ProcOK] at hok
      | some t =>
          simp only [ProcOK] at hok
          exact facts_priv_write hfin hfresh rfl hok rfl (by simp [ProcOK, fileAt, hok])
  | cy0 w =>
      cases w with
      | none => simp [ProcOK] at hok
      | some t =>
          simp only [ProcOK] at hok
          simp only [pstep, readSrc, fileAt, hok.2]
          exact facts_priv_write hfin hfresh rfl hok.1 rfl (by simp [ProcOK, hok.1])
  | cy1 w s =>
      cases w with
      | none => simp [ProcOK] at hok
      | some t =>
          simp only [ProcOK] at hok
          exact facts_priv_write hfin hfresh rfl hok.1 rfl (by simp [ProcOK, fileAt, hok.1, hok.2])
  | cc0 w =>
      cases w with
      | none => simp [ProcOK] at hok
      | some t =>
          simp only [ProcOK] at hok
          simp only [pstep, readSrc, fileAt, hok.2]
          exact facts_priv_write hfin hfresh rfl hok.1 rfl (by simp [ProcOK, hok.1])
  | cc1 w s =>
      cases w with
      | none => simp [ProcOK] at hok
      | some t =>
          simp only [ProcOK] at hok
          exact facts_priv_write hfin hfresh rfl hok.1 rfl (by simp [ProcOK, fileAt, hok.1, hok.2])
  | ld0 w =>
      cases w with
      | none => simp [ProcOK] at hok
      | some t =>
          simp only [ProcOK] at hok
          simp only [pstep, readSrc, fileAt, hok.2]
          exact facts_priv_write hfin hfresh rfl hok.1 rfl (by simp [ProcOK, hok.1])
  | ld1 w s =>
      cases w with
      | none => simp [ProcOK] at hok
      | some t =>
          simp only [ProcOK] at hok
          exact facts_priv_write hfin hfresh rfl hok.1 rfl (by simp [ProcOK, fileAt, hok.1, hok.2])
  | pub t =>
      simp only [ProcOK] at hok
      obtain ⟨hlt, hso⟩ := hok
      simp only [pstep, hso]
      have hne : final (digest src) ≠ Path.priv t Kind.so := final_ne_priv _ _ _
      refine ⟨?_, Nat.le_refl _, ?_, ?_, ?_, ?_, ?_, ?_⟩
      rotate_left 6
      · intro n k hnk
        dsimp only
        rw [set_other _ _ _ _ (by intro h; cases h), set_other _ _ _ _ hnk]
      · simp only [ProcOK]
        refine ⟨hlt, ?_⟩
        rw [set_other _ _ _ _ hne, set_same]
      · intro t' k ht'
        have h1 : Path.priv t' k ≠ Path.priv t Kind.so := by
          intro h; injection h with h1 h2; subst h1; exact ht' rfl
        dsimp only
        rw [set_other _ _ _ _ h1, set_other _ _ _ _ (priv_ne_final _ _ _)]
      · intro n s h
        dsimp only
        rw [set_other _ _ _ _ (final_ne_priv _ _ _)]
        by_cases hn : n = digest src
        · subst hn
          rw [set_same]
          rcases hfin (digest src) with h0 | ⟨s', h', hs'⟩
          · rw [h0] at h; cases h
          · rw [h'] at h; injection h with h; subst h; rw [hinj hs']
        · rw [set_other _ _ _ _ (by simp [final, hn])]; exact h
      · intro n
        dsimp only
        rw [set_other _ _ _ _ (final_ne_priv _ _ _)]
        by_cases hn : n = digest src
        · subst hn; rw [set_same]; exact Or.inr ⟨src, rfl, rfl⟩
        · rw [set_other _ _ _ _ (by simp [final, hn])]; exact hfin n
      · intro t' k ht'
        dsimp only at ht' ⊢
        by_cases h1 : Path.priv t' k = Path.priv t Kind.so
        · rw [h1, set_same]
        · rw [set_other _ _ _ _ h1, set_other _ _ _ _ (priv_ne_final _ _ _)]
          exact hfresh t' k ht'
      · intro t' ht'; left; exact ht'
  | clean t =>
      simp only [ProcOK] at hok
      obtain ⟨hlt, hfinal⟩ := hok
      simp only [pstep]
      refine ⟨?_, Nat.le_refl _, ?_, ?_, ?_, ?_, ?_, fun _ _ _ => rfl⟩
      · simp only [ProcOK]; exact hfinal
      · intro t' k ht'
        dsimp only
        rw [rmtree_priv]
        have : t' ≠ t := fun h => ht' (by rw [h]; rfl)
        simp [this]
      · intro n s h; exact h
      · intro n; exact hfin n
      · intro t' k ht'
        dsimp only at ht' ⊢
        rw [rmtree_priv]
        split
        · rfl
        · exact hfresh t' k ht'
      · intro t' ht'; simp [tmpOf] at ht'
  | imp2 =>
      simp only [ProcOK] at hok
      simp only [pstep, importStep, hok]
      exact facts_nowrite hfin hfresh (by simp [ProcOK]) rfl


/-- Events the repaired protocol is proved safe against: every spawn / step / kill, and
external corruption of *stale* files — anything inside a build directory no live process
owns, and the `.pyx/.c/.o` files the old in-place layout left in MODDIR.  (Corrupting the
final path itself or a live process's private directory is outside the property: the
first is exactly what the protocol makes unreachable, the second is not shared state.) -/
def Admissible (σ : State) : Event → Prop
  | .fault (.priv t _) _ => t < σ.nextTmp ∧ ∀ i, tmpOf (σ.procs i).pc ≠ some t
  | .fault (.shared _ k) _ => k ≠ .so
  | _ => True

def AdmissibleTrace (digest : Src → Nat) : State → List Event → Prop
  | _, [] => True
  | σ, e :: tr => Admissible σ e ∧ AdmissibleTrace digest (step .repaired digest σ e) tr

theorem Inv_init (digest : Src → Nat) : Inv digest State.init where
  final_ok := fun _ => Or.inl rfl
  fresh := fun _ _ _ => rfl
  procs_ok := fun _ => by simp [State.init, ProcOK]
  own := fun _ _ _ _ h => by simp [State.init, tmpOf] at h

theorem step_run_inv {digest : Src → Nat} (hinj : Function.Injective digest) {σ : State}
    (h : Inv digest σ) (i : Nat) (crash : Bool) :
    Inv digest (step .repaired digest σ (.run i crash)) := by
  have facts := pstep_facts hinj crash h.final_ok h.fresh (h.procs_ok i)
  refine ⟨facts.final_ok', facts.fresh', ?_, ?_⟩
  · intro j
    simp only [step]
    by_cases hj : j = i
    · subst hj; simp only [if_true]; exact facts.ok'
    · simp only [if_neg hj]
      refine ProcOK_frame (h.procs_ok j) facts.mono ?_ facts.fin_stable
      intro t k ht
      exact facts.priv_frame t k (h.own j i t hj ht)
  · intro a b t hab ha
    simp only [step] at ha ⊢
    by_cases hai : a = i
    · subst hai
      have hb : b ≠ a := fun h => hab h.symm
      simp only [if_true] at ha
      simp only [if_neg hb]
      rcases facts.tmp' t ha with h1 | h1
      · exact h.own a b t hab h1
      · intro hbt
        have := ProcOK_tmp_lt (h.procs_ok b) hbt
        omega
    · simp only [if_neg hai] at ha
      by_cases hbi : b = i
      · subst hbi
        simp only [if_true]
        intro hbt
        rcases facts.tmp' t hbt with h1 | h1
        · exact h.own a b t hab ha h1
        · have := ProcOK_tmp_lt (h.procs_ok a) ha
          omega
      · simp only [if_neg hbi]
        exact h.own a b t hab ha

theorem step_inv {digest : Src → Nat} (hinj : Function.Injective digest) {σ : State}
    (h : Inv digest σ) (e : Event) (ha : Admissible σ e) :
    Inv digest (step .repaired digest σ e) := by
  cases e with
  | run i crash => exact step_run_inv hinj h i crash
  | spawn i s =>
      simp only [step]
      split
      · refine ⟨h.final_ok, h.fresh, ?_, ?_⟩
        · intro j
          simp only [State.setProc]
          by_cases hj : j = i
          · simp [hj, ProcOK]
          · simp only [if_neg hj]; exact h.procs_ok j
        · intro a b t hab hat
          simp only [State.setProc] at hat ⊢
          by_cases hai : a = i
          · simp [hai, tmpOf] at hat
          · simp only [if_neg hai] at hat
            by_cases hbi : b = i
            · simp [hbi, tmpOf]
            · simp only [if_neg hbi]; exact h.own a b t hab hat
      · exact h
  | kill i =>
      simp only [step]
      split
      · refine ⟨h.final_ok, h.fresh, ?_, ?_⟩
        · intro j
          simp only [State.setProc]
          by_cases hj : j = i
          · simp [hj, ProcOK]
          · simp only [if_neg hj]; exact h.procs_ok j
        · intro a b t hab hat
          simp only [State.setProc] at hat ⊢
          by_cases hai : a = i
          · simp [hai, tmpOf] at hat
          · simp only [if_neg hai] at hat
            by_cases hbi : b = i
            · simp [hbi, tmpOf]
            · simp only [if_neg hbi]; exact h.own a b t hab hat
      · exact h
  | fault p v =>
      simp only [step]
      cases p with
      | priv t k =>
          simp only [Admissible] at ha
          refine ⟨?_, ?_, ?_, h.own⟩
          · intro n
            dsimp only
            rw [set_other _ _ _ _ (final_ne_priv _ _ _)]; exact h.final_ok n
          · intro t' k' ht'
            dsimp only
            rw [set_other]
            · exact h.fresh t' k' ht'
            · intro heq; injection heq with h1 h2; subst h1
              have : t' < σ.nextTmp := ha.1
              have : σ.nextTmp ≤ t' := ht'
              omega
          · intro j
            refine ProcOK_frame (h.procs_ok j) (Nat.le_refl _) ?_ ?_
            · intro t' k' ht'
              dsimp only at ht' ⊢
              apply set_other
              intro heq; injection heq with h1 h2; subst h1; exact ha.2 j ht'
            · intro n s hs
              dsimp only
              rw [set_other _ _ _ _ (final_ne_priv _ _ _)]; exact hs
      | shared n k =>
          simp only [Admissible] at ha
          have hne : ∀ m, final m ≠ Path.shared n k := by
            intro m heq; unfold final at heq; injection heq with h1 h2; exact ha h2.symm
          refine ⟨?_, ?_, ?_, h.own⟩
          · intro m
            dsimp only
            rw [set_other _ _ _ _ (hne m)]; exact h.final_ok m
          · intro t' k' ht'
            dsimp only
            rw [set_other _ _ _ _ (by intro heq; cases heq)]
            exact h.fresh t' k' ht'
          · intro j
            refine ProcOK_frame (h.procs_ok j) (Nat.le_refl _) ?_ ?_
            · intro t' k' _
              dsimp only
              exact set_other _ _ _ _ (by intro heq; cases heq)
            · intro m s hs
              dsimp only
              rw [set_other _ _ _ _ (hne m)]; exact hs

theorem exec_inv {digest : Src → Nat} (hinj : Function.Injective digest) (tr : List Event) :
    ∀ σ : State, Inv digest σ → AdmissibleTrace digest σ tr →
      Inv digest (exec .repaired digest σ tr) := by
  induction tr with
  | nil => intro σ h _; exact h
  | cons e tr ih =>
      intro σ h ha
      show Inv digest (exec .repaired digest (step .repaired digest σ e) tr)
      exact ih _ (step_inv hinj h e ha.1) ha.2

/-- a complete final entry is never changed by any admissible event -/
theorem step_final_stable {digest : Src → Nat} (hinj : Function.Injective digest) {σ : State}
    (h : Inv digest σ) (e : Event) (ha : Admissible σ e) (n : Nat) (s : Src)
    (hs : σ.dir (final n) = .complete s) :
    (step .repaired digest σ e).dir (final n) = .complete s := by
  cases e with
  | run i crash =>
      exact (pstep_facts hinj crash h.final_ok h.fresh (h.procs_ok i)).fin_stable n s hs
  | spawn i s' => simp only [step]; split <;> exact hs
  | kill i => simp only [step]; split <;> exact hs
  | fault p v =>
      simp only [step]
      cases p with
      | priv t k =>
          rw [set_other _ _ _ _ (final_ne_priv _ _ _)]; exact hs
      | shared m k =>
          simp only [Admissible] at ha
          rw [set_other _ _ _ _ (by intro heq; unfold final at heq; injection heq with h1 h2; exact ha h2.symm)]
          exact hs


/-! ### progress -/

/-- number of steps a process of the repaired protocol still needs -/
def rank : PC → Nat
  | .imp => 13 | .mk => 12 | .pyx0 _ => 11 | .pyx1 _ => 10 | .cy0 _ => 9 | .cy1 _ _ => 8
  | .cc0 _ => 7 | .cc1 _ _ => 6 | .ld0 _ => 5 | .ld1 _ _ => 4 | .pub _ => 3 | .clean _ => 2
  | .imp2 => 1
  | _ => 0

/-- started and not killed from outside -/
def Active (pc : PC) : Prop := pc ≠ .unborn ∧ pc ≠ .killed

theorem pstep_rank {digest : Src → Nat} {d : Dir} {nt : Nat} {src : Src} (crash : Bool) {pc : PC}
    (hfin : FinalOK digest d) (hok : ProcOK digest d nt src pc) :
    rank (pstep .repaired (digest src) d nt src crash pc).2.2 ≤ rank pc - 1 ∧
    (Active pc → Active (pstep .repaired (digest src) d nt src crash pc).2.2) := by
  cases pc with
  | unborn | killed | failed | crashed => simp [pstep, rank, Active]
  | loaded s => simp [pstep, rank, Active]
  | imp =>
      simp only [pstep, importStep]
      rcases hfin (digest src) with h | ⟨s, h, _⟩ <;> rw [h] <;> simp [rank, Active]
  | mk => simp [pstep, rank, Active]
  | pyx0 w | pyx1 w => simp [pstep, rank, Active]
  | cy0 w | cc0 w | ld0 w =>
      cases w with
      | none => simp [ProcOK] at hok
      | some t =>
          simp only [ProcOK] at hok
          simp [pstep, readSrc, fileAt, hok.2, rank, Active]
  | cy1 w s | cc1 w s => simp [pstep, rank, Active]
  | ld1 w s =>
      cases w with
      | none => simp [ProcOK] at hok
      | some t => simp [pstep, rank, Active]
  | pub t | clean t => simp [pstep, rank, Active]
  | pub1 t => simp [ProcOK] at hok
  | imp2 =>
      simp only [ProcOK] at hok
      simp [pstep, importStep, hok, rank, Active]

/-- how often process `i` is scheduled in a trace -/
def runsOf (i : Nat) : List Event → Nat
  | [] => 0
  | .run j _ :: tr => (if j = i then 1 else 0) + runsOf i tr
  | _ :: tr => runsOf i tr

/-- process `i` is not killed in the trace -/
def noKill (i : Nat) : List Event → Prop
  | [] => True
  | .kill j :: tr => j ≠ i ∧ noKill i tr
  | _ :: tr => noKill i tr

theorem loaded_of_rank_zero {digest : Src → Nat} {d : Dir} {nt : Nat} {src : Src} {pc : PC}
    (hok : ProcOK digest d nt src pc) (hact : Active pc) (h0 : rank pc = 0) : pc = .loaded src := by
  cases pc <;> simp [rank] at h0 <;> simp [ProcOK] at hok <;> simp [Active] at hact
  subst hok; rfl

/-- **Liveness under arbitrary interference.**  In any admissible trace of the repaired
protocol in which process `i` is scheduled at least `rank` (≤ 13) times and is not itself
killed, its request ends with the module built from its own source — whatever the other
processes do, however many of them are killed at whatever point, whatever garbage sits
in stale build directories. -/
theorem request_succeeds {digest : Src → Nat} (hinj : Function.Injective digest) (i : Nat)
    (tr : List Event) :
    ∀ σ : State, Inv digest σ → AdmissibleTrace digest σ tr → noKill i tr →
      Active (σ.procs i).pc → rank (σ.procs i).pc ≤ runsOf i tr →
      ((exec .repaired digest σ tr).procs i).pc = .loaded (σ.procs i).src := by
  induction tr with
  | nil =>
      intro σ h _ _ hact hr
      exact loaded_of_rank_zero (h.procs_ok i) hact (Nat.le_zero.mp hr)
  | cons e tr ih =>
      intro σ h ha hk hact hr
      have hinv := step_inv hinj h e ha.1
      show ((exec .repaired digest (step .repaired digest σ e) tr).procs i).pc = _
      cases e with
      | run j crash =>
          by_cases hj : j = i
          · subst hj
            have hpr := pstep_rank (digest := digest) crash h.final_ok (h.procs_ok j)
            have hsrc : ((step .repaired digest σ (.run j crash)).procs j).src = (σ.procs j).src := by
              simp [step]
            have hpc : ((step .repaired digest σ (.run j crash)).procs j).pc =
                (pstep .repaired (digest (σ.procs j).src) σ.dir σ.nextTmp (σ.procs j).src crash (σ.procs j).pc).2.2 := by
              simp [step]
            rw [← hsrc]
            apply ih _ hinv ha.2 hk
            · rw [hpc]; exact hpr.2 hact
            · rw [hpc]
              simp only [runsOf, if_true] at hr
              have := hpr.1
              omega
          · have hsame : (step .repaired digest σ (.run j crash)).procs i = σ.procs i := by
              have : i ≠ j := fun h => hj h.symm
              simp [step, this]
            simp only [runsOf, if_neg hj, Nat.zero_add] at hr
            have := ih _ hinv ha.2 hk (by rw [hsame]; exact hact) (by rw [hsame]; exact hr)
            rw [this, hsame]
      | spawn j s =>
          have hsame : (step .repaired digest σ (.spawn j s)).procs i = σ.procs i := by
            simp only [step]
            split
            · rename_i hu
              by_cases hj : i = j
              · subst hj; exact absurd hu hact.1
              · simp [State.setProc, hj]
            · rfl
          have := ih _ hinv ha.2 hk (by rw [hsame]; exact hact) (by rw [hsame]; exact hr)
          rw [this, hsame]
      | kill j =>
          have hji : j ≠ i := hk.1
          have hsame : (step .repaired digest σ (.kill j)).procs i = σ.procs i := by
            have : i ≠ j := fun h => hji h.symm
            simp only [step]
            split
            · simp [State.setProc, this]
            · rfl
          have := ih _ hinv ha.2 hk.2 (by rw [hsame]; exact hact) (by rw [hsame]; exact hr)
          rw [this, hsame]
      | fault p v =>
          have hsame : (step .repaired digest σ (.fault p v)).procs i = σ.procs i := rfl
          have := ih _ hinv ha.2 hk (by rw [hsame]; exact hact) (by rw [hsame]; exact hr)
          rw [this, hsame]

/-- A cache wipe between requests keeps the invariant: the directory is empty, nobody owns
anything in it, and finished requests keep what they loaded. -/
theorem wipe_inv {digest : Src → Nat} {σ : State} (h : Inv digest σ) (hq : σ.Quiescent) :
    Inv digest σ.wipe := by
  refine ⟨fun _ => Or.inl rfl, fun _ _ _ => rfl, ?_, h.own⟩
  intro i
  have hl := hq i
  have hp := h.procs_ok i
  show ProcOK digest Dir.empty σ.nextTmp (σ.procs i).src (σ.procs i).pc
  cases hpc : (σ.procs i).pc <;> rw [hpc] at hl hp <;> simp [PC.live] at hl <;>
    simp [ProcOK] at hp ⊢ <;> exact hp

end Pyiga.CompileCache
