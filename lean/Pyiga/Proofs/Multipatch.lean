/-
Helper lemmas for L-mp (C14): the invariant of the shared-dof bookkeeping and the numbering.
-/
import Pyiga.Model.Multipatch
import Mathlib.Logic.Relation
import Mathlib.Data.List.Basic
import Mathlib.Data.List.Nodup
import Mathlib.Data.List.Range
import Mathlib.Tactic.Ring

namespace Pyiga.MP
open Relation

/-- the relation declared by a list of identifications -/
def Declared (L : List (Dof × Dof)) (x y : Dof) : Prop := (x, y) ∈ L

/-- "stored in the same shared dof" (or equal) -/
def Cls (st : State) (x y : Dof) : Prop := x = y ∨ ∃ s, x ∈ st.sd s ∧ y ∈ st.sd s

/-- consistency of the two tables: `(p,i) ∈ shared_dofs[s] ↔ shared_per_patch[p][i] == s`,
and nothing is stored beyond `len(shared_dofs)` -/
structure Inv (st : State) : Prop where
  mem_iff : ∀ (x : Dof) (s : Nat), x ∈ st.sd s ↔ st.spp x.1 x.2 = some s
  bound : ∀ s, st.nsd ≤ s → st.sd s = []

/-- every stored class is contained in an equivalence class of the declared relation -/
def Sound (st : State) (L : List (Dof × Dof)) : Prop :=
  ∀ s x y, x ∈ st.sd s → y ∈ st.sd s → EqvGen (Declared L) x y

/-- every stored dof exists -/
def ValidSt (P : Nat) (N : Nat → Nat) (st : State) : Prop :=
  ∀ s (x : Dof), x ∈ st.sd s → x.1 < P ∧ x.2 < N x.1

/-! ### sets as lists -/

theorem mem_setAdd {x y : Dof} {l : List Dof} : y ∈ setAdd x l ↔ y = x ∨ y ∈ l := by
  unfold setAdd
  by_cases h : x ∈ l
  · rw [if_pos h]
    constructor
    · exact Or.inr
    · rintro (rfl | h') <;> assumption
  · rw [if_neg h]; simp [or_comm]

theorem mem_setUnion {y : Dof} {a b : List Dof} : y ∈ setUnion a b ↔ y ∈ a ∨ y ∈ b := by
  unfold setUnion
  induction b generalizing a with
  | nil => simp
  | cons x xs ih =>
    rw [List.foldl_cons, ih, mem_setAdd]
    simp only [List.mem_cons]
    tauto

theorem foldl_sppSet (mem : List Dof) (f : Nat → Nat → Option Nat) (s1 p i : Nat) :
    (mem.foldl (fun f x => sppSet f x.1 x.2 s1) f) p i = if (p, i) ∈ mem then some s1 else f p i := by
  induction mem generalizing f with
  | nil => simp
  | cons x xs ih =>
    rw [List.foldl_cons, ih]
    by_cases h : (p, i) ∈ xs
    · simp [h]
    · simp only [h, if_false, List.mem_cons, or_false]
      unfold sppSet
      by_cases hx : (p, i) = x
      · subst hx; simp
      · have : ¬ (p = x.1 ∧ i = x.2) := fun ⟨h1, h2⟩ => hx (by cases x; simp_all)
        simp [this, hx]

/-! ### the invariant -/

theorem Inv.init : Inv State.init := ⟨fun _ _ => by simp [State.init], fun _ _ => rfl⟩

theorem Inv.lt_of_spp {st : State} (h : Inv st) {x : Dof} {s : Nat} (hs : st.spp x.1 x.2 = some s) :
    s < st.nsd := by
  by_contra hge
  have := h.bound s (Nat.le_of_not_lt hge)
  have hm := (h.mem_iff x s).2 hs
  rw [this] at hm; simp at hm

theorem Inv.disjoint {st : State} (h : Inv st) {x : Dof} {s t : Nat} (hs : x ∈ st.sd s) (ht : x ∈ st.sd t) :
    s = t := by
  have a := (h.mem_iff x s).1 hs
  have b := (h.mem_iff x t).1 ht
  rw [a] at b; exact Option.some.inj b

theorem Cls.refl (st : State) (x : Dof) : Cls st x x := Or.inl rfl

theorem Cls.symm {st : State} {x y : Dof} : Cls st x y → Cls st y x
  | Or.inl h => Or.inl h.symm
  | Or.inr ⟨s, a, b⟩ => Or.inr ⟨s, b, a⟩

theorem Cls.trans {st : State} (h : Inv st) {x y z : Dof} : Cls st x y → Cls st y z → Cls st x z
  | Or.inl e, c => e ▸ c
  | c, Or.inl e => e ▸ c
  | Or.inr ⟨s, a, b⟩, Or.inr ⟨t, b', c⟩ => by
    have := h.disjoint b b'
    subst this
    exact Or.inr ⟨s, a, c⟩

/-! ### `add_to_shared` -/

theorem addToShared_sd (st : State) (s p i t : Nat) :
    (addToShared st s p i).sd t = if t = s then setAdd (p, i) (st.sd s) else st.sd t := rfl

theorem addToShared_spp (st : State) (s p i q j : Nat) :
    (addToShared st s p i).spp q j = if q = p ∧ j = i then some s else st.spp q j := rfl

theorem mem_addToShared {st : State} {s p i t : Nat} {x : Dof} :
    x ∈ (addToShared st s p i).sd t ↔ (t = s ∧ x = (p, i)) ∨ x ∈ st.sd t := by
  rw [addToShared_sd]
  by_cases h : t = s
  · subst h; simp [mem_setAdd]
  · simp [h]

theorem Inv.addToShared {st : State} (h : Inv st) {s p i : Nat} (hs : s < st.nsd)
    (hp : st.spp p i = none ∨ st.spp p i = some s) : Inv (addToShared st s p i) := by
  constructor
  · intro x t
    rw [mem_addToShared, addToShared_spp]
    by_cases hx : x = (p, i)
    · subst hx
      simp only [and_self, if_true, and_true]
      constructor
      · rintro (rfl | hm)
        · rfl
        · have := (h.mem_iff _ _).1 hm
          rcases hp with hp | hp <;> simp_all
      · intro e; exact Or.inl (Option.some.inj e).symm
    · have : ¬ (x.1 = p ∧ x.2 = i) := fun ⟨h1, h2⟩ => hx (by cases x; simp_all)
      simp [this, hx, h.mem_iff]
  · intro t ht
    rw [addToShared_sd]
    have : t ≠ s := by
      have : st.nsd = (MP.addToShared st s p i).nsd := rfl
      omega
    rw [if_neg this]
    exact h.bound t ht

theorem Cls.addToShared {st : State} {x y : Dof} (s p i : Nat) (h : Cls st x y) :
    Cls (addToShared st s p i) x y := by
  rcases h with h | ⟨t, a, b⟩
  · exact Or.inl h
  · exact Or.inr ⟨t, mem_addToShared.2 (Or.inr a), mem_addToShared.2 (Or.inr b)⟩

theorem ValidSt.addToShared {P : Nat} {N : Nat → Nat} {st : State} (h : ValidSt P N st) {s p i : Nat}
    (hp : p < P) (hi : i < N p) : ValidSt P N (addToShared st s p i) := by
  intro t x hx
  rcases mem_addToShared.1 hx with ⟨_, rfl⟩ | hx
  · exact ⟨hp, hi⟩
  · exact h t x hx

theorem eqvGen_mono {L L' : List (Dof × Dof)} (hsub : ∀ ab ∈ L, ab ∈ L') {x y : Dof}
    (h : EqvGen (Declared L) x y) : EqvGen (Declared L') x y :=
  EqvGen.mono (fun _ _ hab => hsub _ hab) _ _ h

/-- adding `b` to the class of `a` when `(a,b)` is a declared identification keeps soundness -/
theorem Sound.addToShared {st : State} {L : List (Dof × Dof)} (h : Sound st L) {s : Nat} {a b : Dof}
    (ha : a ∈ st.sd s) (hab : EqvGen (Declared L) a b) : Sound (addToShared st s b.1 b.2) L := by
  intro t x y hx hy
  have hb : (b.1, b.2) = b := rfl
  rw [mem_addToShared, hb] at hx hy
  rcases hx with ⟨ht, hxb⟩ | hx'
  · rcases hy with ⟨_, hyb⟩ | hy'
    · rw [hxb, hyb]; exact EqvGen.refl _
    · rw [hxb]; subst ht
      exact EqvGen.trans _ _ _ (EqvGen.symm _ _ hab) (h _ _ _ ha hy')
  · rcases hy with ⟨ht, hyb⟩ | hy'
    · rw [hyb]; subst ht
      exact EqvGen.trans _ _ _ (h _ _ _ hx' ha) hab
    · exact h _ _ _ hx' hy'

/-! ### `_new_shared_dof` -/

theorem newSharedDof_sd {st : State} (h : Inv st) (t : Nat) : (newSharedDof st).1.sd t = st.sd t := by
  show sdSet st.sd st.nsd [] t = st.sd t
  unfold sdSet
  by_cases ht : t = st.nsd
  · subst ht; rw [if_pos rfl, h.bound _ (Nat.le_refl _)]
  · rw [if_neg ht]

theorem Inv.newSharedDof {st : State} (h : Inv st) : Inv (newSharedDof st).1 := by
  constructor
  · intro x s
    rw [newSharedDof_sd h]; exact h.mem_iff x s
  · intro s hs
    rw [newSharedDof_sd h]
    exact h.bound s (by have : (MP.newSharedDof st).1.nsd = st.nsd + 1 := rfl; omega)

/-! ### merging two classes -/

theorem mergeClasses_sd (st : State) (s1 s2 t : Nat) :
    (mergeClasses st s1 s2).sd t =
      if t = s2 then [] else if t = s1 then setUnion (st.sd s1) (st.sd s2) else st.sd t := rfl

theorem mergeClasses_spp (st : State) (s1 s2 p i : Nat) :
    (mergeClasses st s1 s2).spp p i = if (p, i) ∈ st.sd s2 then some s1 else st.spp p i :=
  foldl_sppSet _ _ _ _ _

theorem mem_mergeClasses {st : State} {s1 s2 t : Nat} (hne : s2 ≠ s1) {x : Dof} :
    x ∈ (mergeClasses st s1 s2).sd t ↔
      (t = s1 ∧ (x ∈ st.sd s1 ∨ x ∈ st.sd s2)) ∨ (t ≠ s1 ∧ t ≠ s2 ∧ x ∈ st.sd t) := by
  rw [mergeClasses_sd]
  by_cases h2 : t = s2
  · subst h2; simp [hne]
  · by_cases h1 : t = s1
    · subst h1; simp [h2, mem_setUnion]
    · simp [h1, h2]

theorem Inv.mergeClasses {st : State} (h : Inv st) {s1 s2 : Nat} (hne : s2 ≠ s1) (hs1 : s1 < st.nsd) :
    Inv (mergeClasses st s1 s2) := by
  constructor
  · intro x t
    rw [mem_mergeClasses hne, mergeClasses_spp]
    have hx : (x.1, x.2) = x := rfl
    rw [hx]
    by_cases hm : x ∈ st.sd s2
    · have hs2 := (h.mem_iff x s2).1 hm
      simp only [hm, or_true, and_true, if_true]
      constructor
      · rintro (rfl | ⟨_, h2, hx'⟩)
        · rfl
        · exact absurd (h.disjoint hx' hm) h2
      · intro e; exact Or.inl (Option.some.inj e).symm
    · simp only [hm, or_false, if_false]
      rw [← h.mem_iff]
      constructor
      · rintro (⟨rfl, hx'⟩ | ⟨_, _, hx'⟩) <;> exact hx'
      · intro hx'
        by_cases h1 : t = s1
        · exact Or.inl ⟨h1, h1 ▸ hx'⟩
        · refine Or.inr ⟨h1, ?_, hx'⟩
          rintro rfl; exact hm hx'
  · intro t ht
    have hn : (MP.mergeClasses st s1 s2).nsd = st.nsd := rfl
    rw [mergeClasses_sd]
    by_cases h2 : t = s2
    · rw [if_pos h2]
    · rw [if_neg h2]
      by_cases h1 : t = s1
      · omega
      · rw [if_neg h1]; exact h.bound t (by omega)


theorem Cls.mergeClasses {st : State} {s1 s2 : Nat} (hne : s2 ≠ s1) {x y : Dof} (h : Cls st x y) :
    Cls (mergeClasses st s1 s2) x y := by
  rcases h with h | ⟨t, a, b⟩
  · exact Or.inl h
  · by_cases h1 : t = s1
    · subst h1
      exact Or.inr ⟨t, (mem_mergeClasses hne).2 (Or.inl ⟨rfl, Or.inl a⟩),
        (mem_mergeClasses hne).2 (Or.inl ⟨rfl, Or.inl b⟩)⟩
    · by_cases h2 : t = s2
      · subst h2
        exact Or.inr ⟨s1, (mem_mergeClasses hne).2 (Or.inl ⟨rfl, Or.inr a⟩),
          (mem_mergeClasses hne).2 (Or.inl ⟨rfl, Or.inr b⟩)⟩
      · exact Or.inr ⟨t, (mem_mergeClasses hne).2 (Or.inr ⟨h1, h2, a⟩),
          (mem_mergeClasses hne).2 (Or.inr ⟨h1, h2, b⟩)⟩

theorem Sound.mergeClasses {st : State} {L : List (Dof × Dof)} (h : Sound st L) {s1 s2 : Nat}
    (hne : s2 ≠ s1) {a b : Dof} (ha : a ∈ st.sd s1) (hb : b ∈ st.sd s2)
    (hab : EqvGen (Declared L) a b) : Sound (mergeClasses st s1 s2) L := by
  intro t x y hx hy
  rw [mem_mergeClasses hne] at hx hy
  have toA : ∀ z, (z ∈ st.sd s1 ∨ z ∈ st.sd s2) → EqvGen (Declared L) z a := by
    rintro z (hz | hz)
    · exact h _ _ _ hz ha
    · exact EqvGen.trans _ _ _ (h _ _ _ hz hb) (EqvGen.symm _ _ hab)
  rcases hx with ⟨_, hx⟩ | ⟨h1, h2, hx⟩
  · rcases hy with ⟨_, hy⟩ | ⟨h1', _, _⟩
    · exact EqvGen.trans _ _ _ (toA x hx) (EqvGen.symm _ _ (toA y hy))
    · omega
  · rcases hy with ⟨ht, _⟩ | ⟨_, _, hy⟩
    · omega
    · exact h _ _ _ hx hy

theorem ValidSt.mergeClasses {P : Nat} {N : Nat → Nat} {st : State} (h : ValidSt P N st) {s1 s2 : Nat}
    (hne : s2 ≠ s1) : ValidSt P N (mergeClasses st s1 s2) := by
  intro t x hx
  rw [mem_mergeClasses hne] at hx
  rcases hx with ⟨_, hx | hx⟩ | ⟨_, _, hx⟩ <;> exact h _ x hx

theorem Sound.addToShared_empty {st : State} {L : List (Dof × Dof)} (h : Sound st L) {s p i : Nat}
    (he : st.sd s = []) : Sound (MP.addToShared st s p i) L := by
  intro t x y hx hy
  rw [mem_addToShared] at hx hy
  rcases hx with ⟨ht, hxb⟩ | hx'
  · rcases hy with ⟨_, hyb⟩ | hy'
    · rw [hxb, hyb]; exact EqvGen.refl _
    · subst ht; rw [he] at hy'; simp at hy'
  · rcases hy with ⟨ht, hyb⟩ | hy'
    · subst ht; rw [he] at hx'; simp at hx'
    · exact h _ _ _ hx' hy'

/-! ### one iteration of the repaired `join_dofs` loop -/

/-- a dof that exists -/
def ValidDof (P : Nat) (N : Nat → Nat) (x : Dof) : Prop := x.1 < P ∧ x.2 < N x.1

structure StepOK (P : Nat) (N : Nat → Nat) (st st' : State) (L : List (Dof × Dof)) (a b : Dof) : Prop where
  inv : Inv st'
  mono : ∀ x y, Cls st x y → Cls st' x y
  joined : Cls st' a b
  sound : Sound st' (L ++ [(a, b)])
  valid : ValidSt P N st'

theorem joinOne_ok {P : Nat} {N : Nat → Nat} {st : State} {L : List (Dof × Dof)} {a b : Dof}
    (cfg : Cfg) (hm : cfg.merge = true) (hI : Inv st) (hS : Sound st L) (hV : ValidSt P N st)
    (hva : ValidDof P N a) (hvb : ValidDof P N b) : StepOK P N st (joinOne cfg st a b) L a b := by
  have hab : EqvGen (Declared (L ++ [(a, b)])) a b := EqvGen.rel _ _ (by simp [Declared])
  have hS' : Sound st (L ++ [(a, b)]) := fun s x y hx hy =>
    eqvGen_mono (fun ab h => by simp [h]) (hS s x y hx hy)
  have hbb : (b.1, b.2) = b := rfl
  have haa : (a.1, a.2) = a := rfl
  unfold joinOne
  cases h1 : st.spp a.1 a.2 with
  | some s1 =>
    have ha : a ∈ st.sd s1 := (hI.mem_iff a s1).2 h1
    have hlt : s1 < st.nsd := hI.lt_of_spp h1
    simp only [hm, if_true]
    cases h2 : st.spp b.1 b.2 with
    | some s2 =>
      simp only []
      by_cases he : s2 = s1
      · rw [if_pos he]
        exact ⟨hI.addToShared hlt (Or.inr (he ▸ h2)), fun _ _ => Cls.addToShared _ _ _,
          Or.inr ⟨s1, mem_addToShared.2 (Or.inr ha), mem_addToShared.2 (Or.inl ⟨rfl, hbb.symm⟩)⟩,
          hS'.addToShared ha hab, hV.addToShared hvb.1 hvb.2⟩
      · rw [if_neg he]
        have hb : b ∈ st.sd s2 := (hI.mem_iff b s2).2 h2
        exact ⟨hI.mergeClasses he hlt, fun _ _ => Cls.mergeClasses he,
          Or.inr ⟨s1, (mem_mergeClasses he).2 (Or.inl ⟨rfl, Or.inl ha⟩),
            (mem_mergeClasses he).2 (Or.inl ⟨rfl, Or.inr hb⟩)⟩,
          hS'.mergeClasses he ha hb hab, hV.mergeClasses he⟩
    | none =>
      simp only []
      exact ⟨hI.addToShared hlt (Or.inl h2), fun _ _ => Cls.addToShared _ _ _,
        Or.inr ⟨s1, mem_addToShared.2 (Or.inr ha), mem_addToShared.2 (Or.inl ⟨rfl, hbb.symm⟩)⟩,
        hS'.addToShared ha hab, hV.addToShared hvb.1 hvb.2⟩
  | none =>
    simp only []
    cases h2 : st.spp b.1 b.2 with
    | some s2 =>
      simp only []
      have hb : b ∈ st.sd s2 := (hI.mem_iff b s2).2 h2
      have hlt : s2 < st.nsd := hI.lt_of_spp h2
      exact ⟨hI.addToShared hlt (Or.inl h1), fun _ _ => Cls.addToShared _ _ _,
        Or.inr ⟨s2, mem_addToShared.2 (Or.inl ⟨rfl, haa.symm⟩), mem_addToShared.2 (Or.inr hb)⟩,
        hS'.addToShared hb (EqvGen.symm _ _ hab), hV.addToShared hva.1 hva.2⟩
    | none =>
      simp only []
      -- new shared dof `s = len(shared_dofs)`, then both dofs are added to it
      set st1 := (newSharedDof st).1 with hst1
      have hs : (newSharedDof st).2 = st.nsd := rfl
      have hI1 : Inv st1 := hI.newSharedDof
      have hsd1 : ∀ t, st1.sd t = st.sd t := newSharedDof_sd hI
      have hn1 : st1.nsd = st.nsd + 1 := rfl
      have hspp1 : st1.spp = st.spp := rfl
      have hI2 : Inv (addToShared st1 st.nsd a.1 a.2) :=
        hI1.addToShared (by omega) (Or.inl (by rw [hspp1]; exact h1))
      have hspp2 : (addToShared st1 st.nsd a.1 a.2).spp b.1 b.2 = none ∨
          (addToShared st1 st.nsd a.1 a.2).spp b.1 b.2 = some st.nsd := by
        rw [addToShared_spp]
        by_cases hc : b.1 = a.1 ∧ b.2 = a.2
        · right; rw [if_pos hc]
        · left; rw [if_neg hc, hspp1]; exact h2
      have hI3 := hI2.addToShared (s := st.nsd) (by show st.nsd < st1.nsd; omega) hspp2
      have hS1 : Sound st1 (L ++ [(a, b)]) := fun s x y hx hy => by
        rw [hsd1] at hx hy; exact hS' s x y hx hy
      have hS2 : Sound (addToShared st1 st.nsd a.1 a.2) (L ++ [(a, b)]) :=
        hS1.addToShared_empty (by rw [hsd1]; exact hI.bound _ (Nat.le_refl _))
      have ha2 : a ∈ (addToShared st1 st.nsd a.1 a.2).sd st.nsd :=
        mem_addToShared.2 (Or.inl ⟨rfl, haa.symm⟩)
      have hV1 : ValidSt P N st1 := fun s x hx => by rw [hsd1] at hx; exact hV s x hx
      refine ⟨hI3, ?_, ?_, hS2.addToShared ha2 hab, (hV1.addToShared hva.1 hva.2).addToShared hvb.1 hvb.2⟩
      · intro x y hxy
        apply Cls.addToShared; apply Cls.addToShared
        rcases hxy with h | ⟨t, hx, hy⟩
        · exact Or.inl h
        · exact Or.inr ⟨t, by rw [hsd1]; exact hx, by rw [hsd1]; exact hy⟩
      · exact Or.inr ⟨st.nsd, mem_addToShared.2 (Or.inr ha2), mem_addToShared.2 (Or.inl ⟨rfl, hbb.symm⟩)⟩

/-! ### histories -/

theorem runPairs_ok {P : Nat} {N : Nat → Nat} (cfg : Cfg) (hm : cfg.merge = true) :
    ∀ (L : List (Dof × Dof)) (st : State) (L0 : List (Dof × Dof)), Inv st → Sound st L0 → ValidSt P N st →
      (∀ ab ∈ L0, Cls st ab.1 ab.2) → (∀ ab ∈ L, ValidDof P N ab.1 ∧ ValidDof P N ab.2) →
      Inv (runPairs cfg st L) ∧ Sound (runPairs cfg st L) (L0 ++ L) ∧ ValidSt P N (runPairs cfg st L) ∧
        (∀ ab ∈ L0 ++ L, Cls (runPairs cfg st L) ab.1 ab.2) := by
  intro L
  induction L with
  | nil =>
    intro st L0 hI hS hV hC _
    simp only [runPairs, List.foldl_nil, List.append_nil]
    exact ⟨hI, hS, hV, hC⟩
  | cons ab L ih =>
    intro st L0 hI hS hV hC hval
    have hv := hval ab (by simp)
    have ok := joinOne_ok (L := L0) cfg hm hI hS hV hv.1 hv.2
    have hC' : ∀ cd ∈ L0 ++ [(ab.1, ab.2)], Cls (joinOne cfg st ab.1 ab.2) cd.1 cd.2 := by
      intro cd hcd
      rcases List.mem_append.1 hcd with h | h
      · exact ok.mono _ _ (hC cd h)
      · have : cd = (ab.1, ab.2) := by simpa using h
        subst this; exact ok.joined
    have := ih (joinOne cfg st ab.1 ab.2) (L0 ++ [(ab.1, ab.2)]) ok.inv ok.sound ok.valid hC'
      (fun cd h => hval cd (by simp [h]))
    have e : L0 ++ [(ab.1, ab.2)] ++ L = L0 ++ ab :: L := by simp
    rw [e] at this
    exact this

/-- the stored classes are exactly the equivalence closure of the declared identifications -/
theorem cls_iff_eqvGen {st : State} {L : List (Dof × Dof)} (hI : Inv st) (hS : Sound st L)
    (hC : ∀ ab ∈ L, Cls st ab.1 ab.2) (x y : Dof) : Cls st x y ↔ EqvGen (Declared L) x y := by
  constructor
  · rintro (rfl | ⟨s, hx, hy⟩)
    · exact EqvGen.refl _
    · exact hS s x y hx hy
  · intro h
    induction h with
    | rel a b hab => exact hC (a, b) hab
    | refl a => exact Cls.refl _ _
    | symm a b _ ih => exact ih.symm
    | trans a b c _ _ ih1 ih2 => exact Cls.trans hI ih1 ih2


/-! ### `finalize`: dropping the classes emptied by merging -/

theorem keepList_nodup (st : State) : (keepList st).Nodup := List.Nodup.filter _ List.nodup_range

theorem mem_keepList {st : State} {s : Nat} : s ∈ keepList st ↔ s < st.nsd ∧ st.sd s ≠ [] := by
  simp [keepList, List.mem_filter, List.mem_range]

theorem mem_compact_sd {st : State} {k : Nat} {x : Dof} :
    x ∈ (compact st).sd k ↔ ∃ s, s ∈ keepList st ∧ (keepList st).idxOf s = k ∧ x ∈ st.sd s := by
  show x ∈ (match (keepList st)[k]? with | some s => st.sd s | none => []) ↔ _
  constructor
  · intro h
    cases hk : (keepList st)[k]? with
    | none => rw [hk] at h; simp at h
    | some s =>
      rw [hk] at h
      obtain ⟨hlt, hget⟩ := List.getElem?_eq_some_iff.1 hk
      refine ⟨s, ?_, ?_, h⟩
      · rw [← hget]; exact List.getElem_mem _
      · rw [← hget]; exact (keepList_nodup st).idxOf_getElem k hlt
  · rintro ⟨s, hs, hidx, hx⟩
    have : (keepList st)[k]? = some s := by
      rw [← hidx]; exact List.getElem?_idxOf hs
    rw [this]; exact hx

theorem Inv.compact {st : State} (h : Inv st) : Inv (compact st) := by
  constructor
  · intro x k
    rw [mem_compact_sd]
    show _ ↔ (st.spp x.1 x.2).map (fun s => (keepList st).idxOf s) = some k
    constructor
    · rintro ⟨s, _, hidx, hx⟩
      rw [(h.mem_iff x s).1 hx]; simp [hidx]
    · intro hk
      cases hs : st.spp x.1 x.2 with
      | none => rw [hs] at hk; simp at hk
      | some s =>
        rw [hs] at hk
        have hx : x ∈ st.sd s := (h.mem_iff x s).2 hs
        refine ⟨s, mem_keepList.2 ⟨h.lt_of_spp hs, ?_⟩, by simpa using hk, hx⟩
        intro he; rw [he] at hx; simp at hx
  · intro k hk
    show (match (keepList st)[k]? with | some s => st.sd s | none => []) = []
    rw [List.getElem?_eq_none (by exact hk)]

theorem cls_compact {st : State} (h : Inv st) (x y : Dof) : Cls (compact st) x y ↔ Cls st x y := by
  constructor
  · rintro (h' | ⟨k, hx, hy⟩)
    · exact Or.inl h'
    · obtain ⟨s, hs, hk, hx⟩ := mem_compact_sd.1 hx
      obtain ⟨s', hs', hk', hy⟩ := mem_compact_sd.1 hy
      have : s = s' := (List.idxOf_inj hs).1 (hk.trans hk'.symm)
      subst this
      exact Or.inr ⟨s, hx, hy⟩
  · rintro (h' | ⟨s, hx, hy⟩)
    · exact Or.inl h'
    · by_cases hlt : s < st.nsd
      · have hs : s ∈ keepList st := mem_keepList.2 ⟨hlt, by intro he; rw [he] at hx; simp at hx⟩
        exact Or.inr ⟨_, mem_compact_sd.2 ⟨s, hs, rfl, hx⟩, mem_compact_sd.2 ⟨s, hs, rfl, hy⟩⟩
      · rw [h.bound s (by omega)] at hx; simp at hx


theorem ValidSt.compact {P : Nat} {N : Nat → Nat} {st : State} (h : ValidSt P N st) :
    ValidSt P N (compact st) := by
  intro k x hx
  obtain ⟨s, _, _, hx⟩ := mem_compact_sd.1 hx
  exact h s x hx

/-- no stored class is empty -/
def AllNonempty (st : State) : Prop := ∀ k, k < st.nsd → st.sd k ≠ []

theorem allNonempty_compact (st : State) : AllNonempty (compact st) := by
  intro k hk
  have hk' : k < (keepList st).length := hk
  show (match (keepList st)[k]? with | some s => st.sd s | none => []) ≠ []
  rw [List.getElem?_eq_getElem hk']
  exact (mem_keepList.1 (List.getElem_mem hk')).2

/-! ### the global numbering -/

namespace Glob
variable (G : Glob)

theorem mem_localDofs {p i : Nat} : i ∈ G.localDofs p ↔ i < G.N p ∧ G.st.spp p i = none := by
  simp [localDofs, List.mem_filter, List.mem_range]

theorem localDofs_nodup (p : Nat) : (G.localDofs p).Nodup := List.Nodup.filter _ List.nodup_range

theorem M_eq (p : Nat) : G.M p = (G.localDofs p).length := by
  unfold M numShared localDofs
  have h := List.length_eq_countP_add_countP (fun i => (G.st.spp p i).isSome) (l := List.range (G.N p))
  rw [List.countP_eq_length_filter, List.countP_eq_length_filter, List.length_range] at h
  have e : (List.range (G.N p)).filter (fun a => decide ¬((G.st.spp p a).isSome = true)) =
      (List.range (G.N p)).filter (fun i => (G.st.spp p i).isNone) := by
    congr 1; funext i; cases G.st.spp p i <;> simp
  rw [e] at h; omega

theorem Mofs_add_le {p q : Nat} (h : p < q) : G.Mofs p + G.M p ≤ G.Mofs q := by
  induction q with
  | zero => omega
  | succ q ih =>
    rcases Nat.lt_succ_iff_lt_or_eq.1 h with h | rfl
    · have := ih h; simp only [Mofs]; omega
    · simp [Mofs]

theorem exists_patch : ∀ (P g : Nat), g < G.Mofs P → ∃ p, p < P ∧ G.Mofs p ≤ g ∧ g < G.Mofs p + G.M p
  | 0, g, h => by simp [Mofs] at h
  | P + 1, g, h => by
    by_cases hg : g < G.Mofs P
    · obtain ⟨p, hp, h1, h2⟩ := exists_patch P g hg
      exact ⟨p, by omega, h1, h2⟩
    · exact ⟨P, by omega, by omega, by simpa [Mofs] using h⟩

theorem globalIdx_some {p i s : Nat} (h : G.st.spp p i = some s) : G.globalIdx p i = G.Mofs G.P + s := by
  simp [globalIdx, h]

theorem globalIdx_none {p i : Nat} (h : G.st.spp p i = none) :
    G.globalIdx p i = G.Mofs p + (G.localDofs p).idxOf i := by
  simp [globalIdx, h]

theorem idxOf_local_lt {p i : Nat} (hi : i < G.N p) (h : G.st.spp p i = none) :
    (G.localDofs p).idxOf i < G.M p := by
  rw [M_eq]; exact List.idxOf_lt_length_of_mem ((G.mem_localDofs).2 ⟨hi, h⟩)

/-- an unshared dof is numbered below `M_ofs[-1]` -/
theorem globalIdx_none_lt {p i : Nat} (hp : p < G.P) (hi : i < G.N p) (h : G.st.spp p i = none) :
    G.globalIdx p i < G.Mofs G.P := by
  rw [G.globalIdx_none h]
  have := G.idxOf_local_lt hi h
  have := G.Mofs_add_le hp
  omega

theorem globalIdx_lt (hI : Inv G.st) {x : Dof} (hp : x.1 < G.P) (hi : x.2 < G.N x.1) :
    G.globalIdx x.1 x.2 < G.numdofs := by
  unfold numdofs
  cases h : G.st.spp x.1 x.2 with
  | some s => rw [G.globalIdx_some h]; have := hI.lt_of_spp h; omega
  | none => have := G.globalIdx_none_lt hp hi h; omega

/-- **same global index ⇔ stored in the same shared dof (or equal)** -/
theorem globalIdx_eq_iff (hI : Inv G.st) {x y : Dof} (hx : ValidDof G.P G.N x) (hy : ValidDof G.P G.N y) :
    G.globalIdx x.1 x.2 = G.globalIdx y.1 y.2 ↔ Cls G.st x y := by
  cases h1 : G.st.spp x.1 x.2 with
  | some s =>
    cases h2 : G.st.spp y.1 y.2 with
    | some t =>
      rw [G.globalIdx_some h1, G.globalIdx_some h2]
      constructor
      · intro e
        have : s = t := by omega
        subst this
        exact Or.inr ⟨s, (hI.mem_iff x s).2 h1, (hI.mem_iff y s).2 h2⟩
      · rintro (rfl | ⟨u, hxu, hyu⟩)
        · rw [h1] at h2; have := Option.some.inj h2; omega
        · have a := (hI.mem_iff x u).1 hxu; have b := (hI.mem_iff y u).1 hyu
          rw [h1] at a; rw [h2] at b
          have := Option.some.inj a; have := Option.some.inj b; omega
    | none =>
      have hlt := G.globalIdx_none_lt hy.1 hy.2 h2
      rw [G.globalIdx_some h1]
      constructor
      · intro e; omega
      · rintro (rfl | ⟨u, _, hyu⟩)
        · rw [h1] at h2; cases h2
        · have b := (hI.mem_iff y u).1 hyu; rw [h2] at b; cases b
  | none =>
    cases h2 : G.st.spp y.1 y.2 with
    | some t =>
      have hlt := G.globalIdx_none_lt hx.1 hx.2 h1
      rw [G.globalIdx_some h2]
      constructor
      · intro e; omega
      · rintro (rfl | ⟨u, hxu, _⟩)
        · rw [h1] at h2; cases h2
        · have b := (hI.mem_iff x u).1 hxu; rw [h1] at b; cases b
    | none =>
      rw [G.globalIdx_none h1, G.globalIdx_none h2]
      have kx := G.idxOf_local_lt hx.2 h1
      have ky := G.idxOf_local_lt hy.2 h2
      constructor
      · intro e
        have hpq : x.1 = y.1 := by
          rcases Nat.lt_trichotomy x.1 y.1 with h | h | h
          · have := G.Mofs_add_le h; omega
          · exact h
          · have := G.Mofs_add_le h; omega
        obtain ⟨p, i⟩ := x; obtain ⟨q, j⟩ := y
        simp only at hpq; subst hpq
        simp only at e h1 h2 hx hy
        have : (G.localDofs p).idxOf i = (G.localDofs p).idxOf j := by omega
        have hij := (List.idxOf_inj ((G.mem_localDofs).2 ⟨hx.2, h1⟩)).1 this
        have hij' : i = j := hij
        exact Or.inl (by rw [hij'])
      · rintro (rfl | ⟨u, hxu, _⟩)
        · rfl
        · have b := (hI.mem_iff x u).1 hxu; rw [h1] at b; cases b

/-- the numbering is onto `range numdofs` -/
theorem globalIdx_surj (hI : Inv G.st) (hne : AllNonempty G.st) (hV : ValidSt G.P G.N G.st)
    {g : Nat} (hg : g < G.numdofs) : ∃ x : Dof, ValidDof G.P G.N x ∧ G.globalIdx x.1 x.2 = g := by
  by_cases hlow : g < G.Mofs G.P
  · obtain ⟨p, hp, h1, h2⟩ := G.exists_patch G.P g hlow
    have hk : g - G.Mofs p < (G.localDofs p).length := by rw [← M_eq]; omega
    have hmem := List.getElem_mem hk
    obtain ⟨hi, hs⟩ := (G.mem_localDofs).1 hmem
    refine ⟨(p, (G.localDofs p)[g - G.Mofs p]), ⟨hp, hi⟩, ?_⟩
    rw [G.globalIdx_none hs, (G.localDofs_nodup p).idxOf_getElem _ hk]; omega
  · have hk : g - G.Mofs G.P < G.st.nsd := by unfold numdofs at hg; omega
    obtain ⟨x, hx⟩ := List.exists_mem_of_ne_nil _ (hne _ hk)
    refine ⟨x, hV _ x hx, ?_⟩
    rw [G.globalIdx_some ((hI.mem_iff x _).1 hx)]; omega

end Glob


/-! ### histories on which the pinned source and the repaired algorithm coincide -/

/-- the join `(a, b)` meets two already-shared dofs with different shared ids -/
def meetB (st : State) (a b : Dof) : Bool :=
  match st.spp a.1 a.2, st.spp b.1 b.2 with
  | some s1, some s2 => s1 != s2
  | _, _ => false

/-- no join of the history (executed by the pinned source) meets two existing classes -/
def noMeet (st : State) : List (Dof × Dof) → Bool
  | [] => true
  | ab :: L => !meetB st ab.1 ab.2 && noMeet (joinOne Cfg.asCoded st ab.1 ab.2) L

theorem joinOne_asCoded_eq {st : State} {a b : Dof} (h : meetB st a b = false) :
    joinOne Cfg.asCoded st a b = joinOne Cfg.repaired st a b := by
  unfold joinOne meetB at *
  cases h1 : st.spp a.1 a.2 with
  | none => simp
  | some s1 =>
    cases h2 : st.spp b.1 b.2 with
    | none => simp [Cfg.asCoded, Cfg.repaired]
    | some s2 =>
      rw [h1, h2] at h
      have : s1 = s2 := by simpa using h
      subst this
      simp [Cfg.asCoded, Cfg.repaired]

theorem addToShared_nonempty {st : State} (h : AllNonempty st) (s p i : Nat) :
    AllNonempty (addToShared st s p i) := by
  intro k hk
  rw [addToShared_sd]
  by_cases hks : k = s
  · rw [if_pos hks]
    intro he
    have : (p, i) ∈ setAdd (p, i) (st.sd s) := mem_setAdd.2 (Or.inl rfl)
    rw [he] at this; simp at this
  · rw [if_neg hks]; exact h k hk

theorem joinOne_nonempty {st : State} {a b : Dof} (hne : AllNonempty st) (h : meetB st a b = false) :
    AllNonempty (joinOne Cfg.repaired st a b) := by
  unfold joinOne meetB at *
  cases h1 : st.spp a.1 a.2 with
  | some s1 =>
    cases h2 : st.spp b.1 b.2 with
    | none => simpa [Cfg.repaired] using addToShared_nonempty hne _ _ _
    | some s2 =>
      rw [h1, h2] at h
      have : s1 = s2 := by simpa using h
      subst this
      simpa [Cfg.repaired] using addToShared_nonempty hne _ _ _
  | none =>
    cases h2 : st.spp b.1 b.2 with
    | some s2 => simpa using addToShared_nonempty hne _ _ _
    | none =>
      simp only []
      intro k hk
      have hk' : k < st.nsd + 1 := hk
      have hs2 : (newSharedDof st).2 = st.nsd := rfl
      rw [addToShared_sd]
      by_cases hks : k = (newSharedDof st).2
      · rw [if_pos hks]
        intro he
        have : (b.1, b.2) ∈ setAdd (b.1, b.2)
            ((addToShared (newSharedDof st).1 (newSharedDof st).2 a.1 a.2).sd (newSharedDof st).2) :=
          mem_setAdd.2 (Or.inl rfl)
        rw [he] at this; simp at this
      · rw [if_neg hks, addToShared_sd, if_neg hks]
        show sdSet st.sd st.nsd [] k ≠ []
        unfold sdSet
        rw [hs2] at hks
        rw [if_neg hks]
        exact hne k (by omega)

theorem runPairs_noMeet : ∀ (L : List (Dof × Dof)) (st : State), noMeet st L = true → AllNonempty st →
    runPairs Cfg.asCoded st L = runPairs Cfg.repaired st L ∧ AllNonempty (runPairs Cfg.repaired st L)
  | [], st, _, hne => ⟨rfl, hne⟩
  | ab :: L, st, h, hne => by
    simp only [noMeet, Bool.and_eq_true, Bool.not_eq_true'] at h
    have e := joinOne_asCoded_eq h.1
    have ih := runPairs_noMeet L (joinOne Cfg.repaired st ab.1 ab.2) (e ▸ h.2) (joinOne_nonempty hne h.1)
    simp only [runPairs, List.foldl_cons] at ih ⊢
    rw [e]; exact ih

/-! ### histories of API calls reduce to histories of elementary identifications -/

/-- the identifications a call declares (none when the call raises) -/
def callPairs (shapes : List (List Nat)) : Call → List (Dof × Dof)
  | .jd p1 I1 p2 I2 => if I1.length ≠ I2.length ∨ p1 = p2 then [] else pairsOf p1 I1 p2 I2
  | .jb p1 ax1 s1 p2 ax2 s2 fl =>
    match shapes[p1]?, shapes[p2]? with
    | some sh1, some sh2 =>
      match Slice.boundaryDofs sh1 ax1 s1 none, Slice.boundaryDofs sh2 ax2 s2 fl with
      | .ok d1, .ok d2 => if d1.length ≠ d2.length ∨ p1 = p2 then [] else pairsOf p1 d1 p2 d2
      | _, _ => []
    | _, _ => []

def declaredOf (shapes : List (List Nat)) (calls : List Call) : List (Dof × Dof) :=
  calls.flatMap (callPairs shapes)

theorem joinDofs_run (cfg : Cfg) (st : State) (p1 : Nat) (I1 : List Nat) (p2 : Nat) (I2 : List Nat) :
    okOr st (joinDofs cfg st p1 I1 p2 I2) =
      runPairs cfg st (if I1.length ≠ I2.length ∨ p1 = p2 then [] else pairsOf p1 I1 p2 I2) := by
  unfold joinDofs
  by_cases h1 : I1.length ≠ I2.length
  · simp [h1, runPairs, okOr]
  · by_cases h2 : p1 = p2
    · simp [h1, h2, runPairs, okOr]
    · simp [h1, h2, okOr]

theorem stepCall_run (cfg : Cfg) (shapes : List (List Nat)) (st : State) (c : Call) :
    applyCall cfg shapes st c = runPairs cfg st (callPairs shapes c) := by
  unfold applyCall
  cases c with
  | jd p1 I1 p2 I2 => exact joinDofs_run cfg st p1 I1 p2 I2
  | jb p1 ax1 s1 p2 ax2 s2 fl =>
    unfold stepCall joinBoundaries callPairs
    cases hs1 : shapes[p1]? with
    | none => cases hs2 : shapes[p2]? <;> simp [hs1, hs2, runPairs, okOr]
    | some sh1 =>
      cases hs2 : shapes[p2]? with
      | none => simp [hs1, hs2, runPairs, okOr]
      | some sh2 =>
        simp only [hs1, hs2]
        cases h1 : Slice.boundaryDofs sh1 ax1 s1 none with
        | error e => cases e <;> simp [liftSlice, runPairs, okOr]
        | ok d1 =>
          cases h2 : Slice.boundaryDofs sh2 ax2 s2 fl with
          | error e => cases e <;> simp [liftSlice, runPairs, okOr]
          | ok d2 => simpa [liftSlice] using joinDofs_run cfg st p1 d1 p2 d2

theorem runPairs_append (cfg : Cfg) (st : State) (L1 L2 : List (Dof × Dof)) :
    runPairs cfg st (L1 ++ L2) = runPairs cfg (runPairs cfg st L1) L2 := by
  simp [runPairs, List.foldl_append]

theorem runCalls_eq (cfg : Cfg) (shapes : List (List Nat)) :
    ∀ (calls : List Call) (st : State), runCalls cfg shapes st calls = runPairs cfg st (declaredOf shapes calls)
  | [], st => rfl
  | c :: cs, st => by
    have ih := runCalls_eq cfg shapes cs (runPairs cfg st (callPairs shapes c))
    simp only [runCalls, List.foldl_cons, declaredOf, List.flatMap_cons] at ih ⊢
    rw [stepCall_run, runPairs_append]
    exact ih

end Pyiga.MP
