/-
C01 `entry_eq_full_sum`: the box sum of the generated `entry_impl` equals the sum over all
quadrature nodes (arity 2 and 1); statement of the bbox shift used by C08 `subset`.
-/
import Pyiga.Model.Assembler
import Pyiga.Proofs.Index
import Mathlib.Algebra.BigOperators.Group.List.Basic
import Mathlib.Tactic.Linarith

namespace Pyiga.Asm
open Pyiga.Index

variable {α : Type} [AddCommMonoid α]

theorem foldl_add_kernel (l : List (List Nat)) (k : List Nat → α) (a : α) :
    l.foldl (fun r q => r + k q) a = a + (l.map k).sum := by
  induction l generalizing a with
  | nil => simp
  | cons x xs ih => simp [List.foldl_cons, ih, add_assoc]

theorem combine_eq_sum (n : List Nat) (kernel : List Nat → α) :
    combine n kernel = ((loopNest n).map kernel).sum := by
  unfold combine
  rw [foldl_add_kernel, zero_add]

theorem sum_flatMap_map (L : List Nat) (inner : List (List Nat)) (F : List Nat → α) :
    ((L.flatMap (fun i => inner.map (i :: ·))).map F).sum =
      (L.map (fun i => (inner.map (fun q => F (i :: q))).sum)).sum := by
  induction L with
  | nil => simp
  | cons i L ih =>
    rw [List.flatMap_cons, List.map_append, List.sum_append, ih, List.map_cons, List.sum_cons, List.map_map]
    rfl

theorem nest_sum_cons (n : Nat) (ns : List Nat) (F : List Nat → α) :
    ((loopNest (n :: ns)).map F).sum =
      ((List.range n).map (fun i => ((loopNest ns).map (fun q => F (i :: q))).sum)).sum := by
  show (((List.range n).flatMap (fun i => (loopNest ns).map (i :: ·))).map F).sum = _
  exact sum_flatMap_map _ _ F

theorem mem_loopNest_cons (i n : Nat) (q ns : List Nat) :
    (i :: q) ∈ loopNest (n :: ns) ↔ i < n ∧ q ∈ loopNest ns := by
  show (i :: q) ∈ (List.range n).flatMap (fun i => (loopNest ns).map (i :: ·)) ↔ _
  simp only [List.mem_flatMap, List.mem_range, List.mem_map]
  constructor
  · rintro ⟨a, ha, b, hb, hab⟩
    injection hab with h1 h2
    subst h1; subst h2
    exact ⟨ha, hb⟩
  · rintro ⟨h1, h2⟩
    exact ⟨i, h1, q, h2, rfl⟩

theorem sum_map_zero' {β : Type} (l : List β) (f : β → α) (h : ∀ x ∈ l, f x = 0) : (l.map f).sum = 0 := by
  induction l with
  | nil => simp
  | cons x xs ih =>
    rw [List.map_cons, List.sum_cons, h x List.mem_cons_self, ih (fun y hy => h y (List.mem_cons_of_mem _ hy)), add_zero]

/-- 1-D: a summand vanishing outside `[a,b)` -/
theorem range_sum_restrict (n a b : Nat) (f : Nat → α) (hab : a ≤ b) (hbn : b ≤ n)
    (hz : ∀ i, i < n → ¬ (a ≤ i ∧ i < b) → f i = 0) :
    ((List.range n).map f).sum = ((List.range (b - a)).map (fun t => f (a + t))).sum := by
  have hsplit : List.range n = List.range' 0 a ++ (List.range' a (b - a) ++ List.range' b (n - b)) := by
    rw [List.range_eq_range']
    have e1 : List.range' a (b - a) ++ List.range' b (n - b) = List.range' a (n - a) := by
      have : b = a + (b - a) := by omega
      conv => lhs; rw [show List.range' b (n - b) = List.range' (a + (b - a)) (n - b) by rw [← this]]
      rw [List.range'_append_1]
      congr 1; omega
    rw [e1]
    have e2 : List.range' 0 a ++ List.range' a (n - a) = List.range' 0 n := by
      conv => lhs; rw [show List.range' a (n - a) = List.range' (0 + a) (n - a) by rw [Nat.zero_add]]
      rw [List.range'_append_1]
      congr 1; omega
    rw [e2]
  rw [hsplit, List.map_append, List.map_append, List.sum_append, List.sum_append]
  rw [sum_map_zero' (List.range' 0 a) f, sum_map_zero' (List.range' b (n - b)) f, zero_add, add_zero]
  · rw [List.range'_eq_map_range, List.map_map]; rfl
  · intro x hx
    rw [List.mem_range'_1] at hx
    exact hz x (by omega) (by omega)
  · intro x hx
    rw [List.mem_range'_1] at hx
    exact hz x (by omega) (by omega)

def InBox : List (Nat × Nat) → List Nat → Prop
  | [], [] => True
  | g :: gs, q :: qs => g.1 ≤ q ∧ q < g.2 ∧ InBox gs qs
  | _, _ => False

def Fits : List (Nat × Nat) → List Nat → Prop
  | [], [] => True
  | g :: gs, n :: ns => g.1 ≤ g.2 ∧ g.2 ≤ n ∧ Fits gs ns
  | _, _ => False

theorem runCombine_cons (a b : Nat) (gs : List (Nat × Nat)) (F : List Nat → α) :
    runCombine ((a, b) :: gs) F =
      ((List.range (b - a)).map (fun t => runCombine gs (fun q => F ((a + t) :: q)))).sum := by
  unfold runCombine
  rw [combine_eq_sum]
  simp only [List.map_cons]
  rw [nest_sum_cons]
  apply congrArg
  apply List.map_congr_left
  intro t _
  rw [combine_eq_sum]
  simp only [List.zipWith_cons_cons]

theorem runCombine_eq_full (g : List (Nat × Nat)) (N : List Nat) (F : List Nat → α)
    (hfit : Fits g N) (hF : ∀ q ∈ loopNest N, ¬ InBox g q → F q = 0) :
    runCombine g F = combine N F := by
  induction g generalizing N F with
  | nil =>
    cases N with
    | nil => simp [runCombine, combine, loopNest]
    | cons _ _ => simp [Fits] at hfit
  | cons ab gs ih =>
    obtain ⟨a, b⟩ := ab
    cases N with
    | nil => simp [Fits] at hfit
    | cons n ns =>
      obtain ⟨hab, hbn, hfits⟩ := hfit
      simp only at hab hbn
      rw [runCombine_cons, combine_eq_sum, nest_sum_cons]
      rw [range_sum_restrict n a b _ hab hbn]
      · apply congrArg
        apply List.map_congr_left
        intro t ht
        rw [List.mem_range] at ht
        rw [ih ns (fun q => F ((a + t) :: q)) hfits, combine_eq_sum]
        intro q hq hnb
        apply hF ((a + t) :: q) ((mem_loopNest_cons _ _ _ _).2 ⟨by omega, hq⟩)
        intro hb
        exact hnb hb.2.2
      · intro i hi hout
        apply sum_map_zero'
        intro q hq
        apply hF (i :: q) ((mem_loopNest_cons _ _ _ _).2 ⟨hi, hq⟩)
        intro hb
        exact hout ⟨hb.1, hb.2.1⟩

def InSupp : List Intv → List Nat → Prop
  | [], [] => True
  | s :: ss, q :: qs => s.a ≤ q ∧ q < s.b ∧ InSupp ss qs
  | _, _ => False

def SuppFits : List Intv → List Nat → Prop
  | [], [] => True
  | s :: ss, n :: ns => s.b ≤ n ∧ SuppFits ss ns
  | _, _ => False

def zeros {β : Type} (l : List β) : List Nat := l.map (fun _ => 0)

/-- characterisation of the header of `entry_impl` without bbox offsets -/
theorem gaussRange2_zeros : ∀ (su sv : List Intv) (N : List Nat), SuppFits su N → SuppFits sv N →
    match gaussRange2 su sv (zeros N) with
    | some g => Fits g N ∧ ∀ q, InBox g q ↔ (InSupp su q ∧ InSupp sv q)
    | none => ∀ q, ¬ (InSupp su q ∧ InSupp sv q)
  | [], [], [], _, _ => by
    simp only [zeros, List.map_nil, gaussRange2]
    refine ⟨trivial, ?_⟩
    intro q
    cases q <;> simp [InBox, InSupp]
  | u :: su, v :: sv, n :: N, hu, hv => by
    have ih := gaussRange2_zeros su sv N hu.2 hv.2
    simp only [zeros, List.map_cons, gaussRange2, intersect]
    by_cases hemp : min u.b v.b ≤ max u.a v.a
    · simp only [ge_iff_le, hemp, ↓reduceIte]
      intro q
      cases q with
      | nil => simp [InSupp]
      | cons x xs =>
        simp only [InSupp]
        intro h
        omega
    · simp only [ge_iff_le, hemp, ↓reduceIte]
      revert ih
      cases hgr : gaussRange2 su sv (zeros N) with
      | none =>
        intro ih
        simp only [zeros] at hgr
        rw [hgr]
        simp only [Option.map_none]
        intro q
        cases q with
        | nil => simp [InSupp]
        | cons x xs =>
          simp only [InSupp]
          intro h
          exact ih xs ⟨h.1.2.2, h.2.2.2⟩
      | some g =>
        intro ih
        simp only [zeros] at hgr
        rw [hgr]
        simp only [Option.map_some, Nat.sub_zero]
        refine ⟨⟨by omega, by have := hu.1; have := hv.1; omega, ih.1⟩, ?_⟩
        intro q
        cases q with
        | nil => simp [InBox, InSupp]
        | cons x xs =>
          simp only [InBox, InSupp]
          rw [ih.2 xs]
          constructor
          · rintro ⟨h1, h2, h3, h4⟩
            exact ⟨⟨by omega, by omega, h3⟩, ⟨by omega, by omega, h4⟩⟩
          · rintro ⟨⟨h1, h2, h3⟩, ⟨h4, h5, h6⟩⟩
            exact ⟨by omega, by omega, h3, h6⟩
  | [], _ :: _, _, hu, hv => by cases ‹List Nat› <;> simp [SuppFits] at hu hv
  | _ :: _, [], _, hu, hv => by cases ‹List Nat› <;> simp [SuppFits] at hu hv
  | [], [], _ :: _, hu, _ => by simp [SuppFits] at hu
  | _ :: _, _ :: _, [], hu, _ => by simp [SuppFits] at hu

theorem entryImpl2_eq_full {Jet : Type} [Zero Jet] (suppU suppV : List Intv) (N : List Nat)
    (jetU jetV : List Nat → Jet) (integrand : Jet → Jet → List Nat → α)
    (hlinU : ∀ y q, integrand 0 y q = 0) (hlinV : ∀ x q, integrand x 0 q = 0)
    (hU : ∀ q ∈ loopNest N, ¬ InSupp suppU q → jetU q = 0)
    (hV : ∀ q ∈ loopNest N, ¬ InSupp suppV q → jetV q = 0)
    (hfU : SuppFits suppU N) (hfV : SuppFits suppV N) :
    entryImpl2 suppU suppV (zeros N) (fun q => integrand (jetU q) (jetV q) q)
      = combine N (fun q => integrand (jetU q) (jetV q) q) := by
  have hchar := gaussRange2_zeros suppU suppV N hfU hfV
  unfold entryImpl2
  cases hgr : gaussRange2 suppU suppV (zeros N) with
  | none =>
    rw [hgr] at hchar
    simp only
    rw [combine_eq_sum]
    symm
    apply sum_map_zero'
    intro q hq
    by_cases h1 : InSupp suppU q
    · have h2 : ¬ InSupp suppV q := fun h2 => hchar q ⟨h1, h2⟩
      rw [hV q hq h2, hlinV]
    · rw [hU q hq h1, hlinU]
  | some g =>
    rw [hgr] at hchar
    simp only
    apply runCombine_eq_full g N _ hchar.1
    intro q hq hnb
    rw [hchar.2 q] at hnb
    by_cases h1 : InSupp suppU q
    · have h2 : ¬ InSupp suppV q := fun h2 => hnb ⟨h1, h2⟩
      rw [hV q hq h2, hlinV]
    · rw [hU q hq h1, hlinU]

theorem entryImpl2_disjoint {Jet : Type} [Zero Jet] (suppU suppV : List Intv) (N : List Nat)
    (jetU jetV : List Nat → Jet) (integrand : Jet → Jet → List Nat → α)
    (hlinU : ∀ y q, integrand 0 y q = 0) (hlinV : ∀ x q, integrand x 0 q = 0)
    (hU : ∀ q ∈ loopNest N, ¬ InSupp suppU q → jetU q = 0)
    (hV : ∀ q ∈ loopNest N, ¬ InSupp suppV q → jetV q = 0)
    (hfU : SuppFits suppU N) (hfV : SuppFits suppV N)
    (hempty : gaussRange2 suppU suppV (zeros N) = none) :
    entryImpl2 suppU suppV (zeros N) (fun q => integrand (jetU q) (jetV q) q) = 0 ∧
    combine N (fun q => integrand (jetU q) (jetV q) q) = 0 := by
  have h := entryImpl2_eq_full suppU suppV N jetU jetV integrand hlinU hlinV hU hV hfU hfV
  have h0 : entryImpl2 suppU suppV (zeros N) (fun q => integrand (jetU q) (jetV q) q) = 0 := by
    unfold entryImpl2; rw [hempty]
  exact ⟨h0, by rw [← h, h0]⟩

theorem gaussRange1_zeros : ∀ (s : List Intv) (N : List Nat), SuppFits s N → (∀ x ∈ s, x.a ≤ x.b) →
    Fits (gaussRange1 s (zeros N)) N ∧ ∀ q, InBox (gaussRange1 s (zeros N)) q ↔ InSupp s q
  | [], [], _, _ => by
    simp only [zeros, List.map_nil, gaussRange1]
    refine ⟨trivial, fun q => ?_⟩
    cases q <;> simp [InBox, InSupp]
  | u :: su, n :: N, hu, hle => by
    have ih := gaussRange1_zeros su N hu.2 (fun x hx => hle x (List.mem_cons_of_mem _ hx))
    simp only [zeros, List.map_cons, gaussRange1, Nat.sub_zero]
    simp only [zeros] at ih
    refine ⟨⟨hle u List.mem_cons_self, hu.1, ih.1⟩, fun q => ?_⟩
    cases q with
    | nil => simp [InBox, InSupp]
    | cons x xs => simp only [InBox, InSupp]; rw [ih.2 xs]
  | [], _ :: _, hu, _ => by simp [SuppFits] at hu
  | _ :: _, [], hu, _ => by simp [SuppFits] at hu

theorem entryImpl1_eq_full {Jet : Type} [Zero Jet] (supp : List Intv) (N : List Nat)
    (jet : List Nat → Jet) (integrand : Jet → List Nat → α)
    (hlin : ∀ q, integrand 0 q = 0)
    (hJ : ∀ q ∈ loopNest N, ¬ InSupp supp q → jet q = 0)
    (hf : SuppFits supp N) (hle : ∀ s ∈ supp, s.a ≤ s.b) :
    entryImpl1 supp (zeros N) (fun q => integrand (jet q) q)
      = combine N (fun q => integrand (jet q) q) := by
  have h := gaussRange1_zeros supp N hf hle
  unfold entryImpl1
  apply runCombine_eq_full _ N _ h.1
  intro q hq hnb
  rw [h.2 q] at hnb
  rw [hJ q hq hnb, hlin]

def OfsBelow : List Intv → List Intv → List Nat → Prop
  | su :: sus, sv :: svs, o :: os => o ≤ max su.a sv.a ∧ OfsBelow sus svs os
  | [], [], [] => True
  | _, _, _ => False

/-- NOT PROVED (kept as a statement; exercised by the `bbox` correspondence stream of C08):
with every array restricted to the bounding box (local node `q` = global node `q + bbox_ofs`),
`g_sta = intv.a - bbox_ofs` addresses the same nodes, so the entry equals the one of the
unrestricted assembler. -/
def entryImpl2_bbox_stmt : Prop :=
  ∀ {α : Type} [AddCommMonoid α] (suppU suppV : List Intv) (ofs : List Nat) (K : List Nat → α),
    OfsBelow suppU suppV ofs →
    entryImpl2 suppU suppV ofs (fun q => K (List.zipWith (· + ·) q ofs))
      = entryImpl2 suppU suppV (zeros ofs) K

/-! ### the strictness of the support test is unobservable

The mutation `if intv.a >= intv.b: return` → `if intv.a > intv.b: return` changes nothing: when
`intv.a == intv.b` the mutated code proceeds with an axis of `g_end - g_sta = 0` nodes, the loop
nest of `combine` runs zero times and the result is `0`, as after the early return. -/

/-- the header of `entry_impl` with the strict test `intv.a > intv.b` -/
def gaussRange2Gt : List Intv → List Intv → List Nat → Option (List (Nat × Nat))
  | su :: sus, sv :: svs, o :: os =>
      let intv := intersect su sv
      if intv.a > intv.b then none
      else (gaussRange2Gt sus svs os).map ((intv.a - o, intv.b - o) :: ·)
  | _, _, _ => some []

def entryImpl2Gt (suppU suppV : List Intv) (ofs : List Nat) (kernel : List Nat → α) : α :=
  match gaussRange2Gt suppU suppV ofs with
  | none => 0
  | some g => runCombine g kernel

theorem loopNest_eq_nil_of_zero : ∀ (ns : List Nat), 0 ∈ ns → loopNest ns = []
  | [], h => by simp at h
  | n :: ns, h => by
    show (List.range n).flatMap (fun i => (loopNest ns).map (i :: ·)) = []
    rcases List.mem_cons.1 h with h0 | h0
    · rw [← h0]; rfl
    · rw [loopNest_eq_nil_of_zero ns h0]; simp

/-- some axis of the box has no nodes -/
def HasEmpty (g : List (Nat × Nat)) : Prop := ∃ p ∈ g, p.2 - p.1 = 0

theorem runCombine_hasEmpty (g : List (Nat × Nat)) (K : List Nat → α) (h : HasEmpty g) : runCombine g K = 0 := by
  unfold runCombine
  rw [combine_eq_sum, loopNest_eq_nil_of_zero]
  · simp
  · obtain ⟨p, hp, h0⟩ := h
    exact List.mem_map.2 ⟨p, hp, h0⟩

theorem gaussRange2_ge_vs_gt : ∀ (su sv : List Intv) (ofs : List Nat),
    match gaussRange2 su sv ofs, gaussRange2Gt su sv ofs with
    | some g, r => r = some g
    | none, none => True
    | none, some g' => HasEmpty g'
  | u :: su, v :: sv, o :: os => by
    have ih := gaussRange2_ge_vs_gt su sv os
    simp only [gaussRange2, gaussRange2Gt]
    by_cases hge : (intersect u v).b ≤ (intersect u v).a
    · simp only [ge_iff_le, hge, ↓reduceIte, gt_iff_lt]
      by_cases hgt : (intersect u v).b < (intersect u v).a
      · simp only [hgt, ↓reduceIte]
      · simp only [hgt, ↓reduceIte]
        cases hr : gaussRange2Gt su sv os with
        | none => simp
        | some g' =>
          simp only [Option.map_some]
          exact ⟨_, List.mem_cons_self, by simp only; omega⟩
    · have hgt : ¬ (intersect u v).b < (intersect u v).a := by omega
      simp only [ge_iff_le, hge, ↓reduceIte, gt_iff_lt, hgt]
      revert ih
      cases hr : gaussRange2 su sv os with
      | some g =>
        intro ih
        simp only at ih
        rw [ih]; simp
      | none =>
        cases hr' : gaussRange2Gt su sv os with
        | none => intro _; simp
        | some g' =>
          intro ih
          simp only at ih
          simp only [Option.map_none, Option.map_some]
          obtain ⟨p, hp, h0⟩ := ih
          exact ⟨p, List.mem_cons_of_mem _ hp, h0⟩
  | [], _, _ => by simp [gaussRange2, gaussRange2Gt]
  | _ :: _, [], _ => by simp [gaussRange2, gaussRange2Gt]
  | _ :: _, _ :: _, [] => by simp [gaussRange2, gaussRange2Gt]

/-- the strict and the non-strict support test compute the same entry, for all inputs -/
theorem entryImpl2Gt_eq (suppU suppV : List Intv) (ofs : List Nat) (K : List Nat → α) :
    entryImpl2Gt suppU suppV ofs K = entryImpl2 suppU suppV ofs K := by
  have h := gaussRange2_ge_vs_gt suppU suppV ofs
  unfold entryImpl2Gt entryImpl2
  cases h1 : gaussRange2 suppU suppV ofs with
  | some g => rw [h1] at h; simp only at h; rw [h]
  | none =>
    cases h2 : gaussRange2Gt suppU suppV ofs with
    | none => rfl
    | some g' =>
      rw [h1, h2] at h
      simp only at h
      exact runCombine_hasEmpty g' K h

end Pyiga.Asm
