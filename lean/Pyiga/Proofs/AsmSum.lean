/-
C01 `entry_eq_full_sum`: the box sum of the generated `entry_impl` equals the sum over all
quadrature nodes; C08 `subset` (bbox): the on-demand shift does not change the value.
-/
import Pyiga.Model.Assembler
import Pyiga.Proofs.Index
import Mathlib.Algebra.BigOperators.Group.List.Basic
import Mathlib.Tactic.Linarith

namespace Pyiga.Asm
open Pyiga.Index

variable {α : Type} [AddCommMonoid α]

/-- `combine` is the sum of the kernel over the loop nest -/
theorem combine_eq_sum (n : List Nat) (kernel : List Nat → α) :
    combine n kernel = ((loopNest n).map kernel).sum := sorry

/-- node `q` lies in the half-open box `∏ [g_k.1, g_k.2)` -/
def InBox : List (Nat × Nat) → List Nat → Prop
  | [], [] => True
  | g :: gs, q :: qs => g.1 ≤ q ∧ q < g.2 ∧ InBox gs qs
  | _, _ => False

/-- the box lies inside the grid `∏ [0, N_k)` -/
def Fits : List (Nat × Nat) → List Nat → Prop
  | [], [] => True
  | g :: gs, n :: ns => g.1 ≤ g.2 ∧ g.2 ≤ n ∧ Fits gs ns
  | _, _ => False

/-- sum over a sub-box = sum over the whole grid, for a summand vanishing outside the sub-box -/
theorem runCombine_eq_full (g : List (Nat × Nat)) (N : List Nat) (F : List Nat → α)
    (hfit : Fits g N) (hF : ∀ q ∈ loopNest N, ¬ InBox g q → F q = 0) :
    runCombine g F = combine N F := sorry

/-- node `q` lies in the support box of a function (per-axis intervals) -/
def InSupp : List Intv → List Nat → Prop
  | [], [] => True
  | s :: ss, q :: qs => s.a ≤ q ∧ q < s.b ∧ InSupp ss qs
  | _, _ => False

/-- supports lie inside the grid -/
def SuppFits : List Intv → List Nat → Prop
  | [], [] => True
  | s :: ss, n :: ns => s.b ≤ n ∧ SuppFits ss ns
  | _, _ => False

def zeros (l : List β) : List Nat := l.map (fun _ => 0)

/-- **entry_eq_full_sum** (arity 2, no bbox).  `jetU q`, `jetV q` are the jets of the two basis
functions at node `q`; they vanish outside `nqp·meshsupp`; the integrand vanishes when either jet
is zero (it is linear in each).  Then the value computed by `entry_impl` — the sum over the
intersection box, or `0` after the early return — is the sum over *all* quadrature nodes. -/
theorem entryImpl2_eq_full {Jet : Type} [Zero Jet] (suppU suppV : List Intv) (N : List Nat)
    (jetU jetV : List Nat → Jet) (integrand : Jet → Jet → List Nat → α)
    (hlinU : ∀ y q, integrand 0 y q = 0) (hlinV : ∀ x q, integrand x 0 q = 0)
    (hU : ∀ q ∈ loopNest N, ¬ InSupp suppU q → jetU q = 0)
    (hV : ∀ q ∈ loopNest N, ¬ InSupp suppV q → jetV q = 0)
    (hfU : SuppFits suppU N) (hfV : SuppFits suppV N) :
    entryImpl2 suppU suppV (zeros N) (fun q => integrand (jetU q) (jetV q) q)
      = combine N (fun q => integrand (jetU q) (jetV q) q) := sorry

/-- early return ⇒ the full sum is zero ("entries without common support are zero") -/
theorem entryImpl2_disjoint {Jet : Type} [Zero Jet] (suppU suppV : List Intv) (N : List Nat)
    (jetU jetV : List Nat → Jet) (integrand : Jet → Jet → List Nat → α)
    (hlinU : ∀ y q, integrand 0 y q = 0) (hlinV : ∀ x q, integrand x 0 q = 0)
    (hU : ∀ q ∈ loopNest N, ¬ InSupp suppU q → jetU q = 0)
    (hV : ∀ q ∈ loopNest N, ¬ InSupp suppV q → jetV q = 0)
    (hfU : SuppFits suppU N) (hfV : SuppFits suppV N)
    (hempty : gaussRange2 suppU suppV (zeros N) = none) :
    entryImpl2 suppU suppV (zeros N) (fun q => integrand (jetU q) (jetV q) q) = 0 ∧
    combine N (fun q => integrand (jetU q) (jetV q) q) = 0 := sorry

/-- arity 1 -/
theorem entryImpl1_eq_full {Jet : Type} [Zero Jet] (supp : List Intv) (N : List Nat)
    (jet : List Nat → Jet) (integrand : Jet → List Nat → α)
    (hlin : ∀ q, integrand 0 q = 0)
    (hJ : ∀ q ∈ loopNest N, ¬ InSupp supp q → jet q = 0)
    (hf : SuppFits supp N) (hle : ∀ s ∈ supp, s.a ≤ s.b) :
    entryImpl1 supp (zeros N) (fun q => integrand (jet q) q)
      = combine N (fun q => integrand (jet q) q) := sorry

/-- the bbox offsets do not exceed the start of the joint support on every axis -/
def OfsBelow : List Intv → List Intv → List Nat → Prop
  | su :: sus, sv :: svs, o :: os => o ≤ max su.a sv.a ∧ OfsBelow sus svs os
  | [], [], [] => True
  | _, _, _ => False

/-- **bbox shift** (on-demand assemblers): with every array restricted to the bounding box
(local node `q` = global node `q + bbox_ofs`), `g_sta = intv.a - bbox_ofs` addresses the same
nodes, so the entry equals the one of the unrestricted assembler. -/
theorem entryImpl2_bbox (suppU suppV : List Intv) (ofs : List Nat) (K : List Nat → α)
    (h : OfsBelow suppU suppV ofs) :
    entryImpl2 suppU suppV ofs (fun q => K (List.zipWith (· + ·) q ofs))
      = entryImpl2 suppU suppV (zeros ofs) K := sorry

end Pyiga.Asm
