/-
Helper lemmas for the operator classes: Kronecker algebra on multi-indices (mixed product, inverse),
`_sizes_to_ranges`, the dense block matrix of a `BaseBlockOperator`.
-/
import Pyiga.Model.Operators
import Pyiga.Proofs.LinAlg

namespace Pyiga.LA
open Pyiga.Index

section kron
variable {α : Type} [CommSemiring α]

theorem kron_mixed : ∀ (facs : List ((Nat → Nat → α) × (Nat → Nat → α) × Nat)) (I K : List Nat),
    boxSum (facs.map (·.2.2)) (fun J => kronEntry (facs.map (·.1)) I J * kronEntry (facs.map (·.2.1)) J K)
      = kronEntry (facs.map (fun f => mulEnt f.1 f.2.1 f.2.2)) I K
  | [], I, K => by simp [boxSum, kronEntry]
  | (a, b, d) :: rest, I, K => by
    simp only [List.map_cons, boxSum, kronEntry, List.headD_cons, List.tail_cons, sumRange_eq_sum]
    rw [← kron_mixed rest I.tail K.tail]
    unfold mulEnt
    rw [sumRange_eq_sum, Finset.sum_mul]
    apply Finset.sum_congr rfl
    intro j _
    rw [boxSum_mul_left]
    apply boxSum_congr
    intro js
    ring

theorem kronEntry_delta : ∀ (facs : List ((Nat → Nat → α) × (Nat → Nat → α) × Nat)),
    (∀ f ∈ facs, ∀ i k, i < f.2.2 → k < f.2.2 → mulEnt f.1 f.2.1 f.2.2 i k = delta i k) →
    ∀ (I K : List Nat), Below I (facs.map (·.2.2)) → Below K (facs.map (·.2.2)) →
      kronEntry (facs.map (fun f => mulEnt f.1 f.2.1 f.2.2)) I K = if I = K then 1 else 0
  | [], _, [], [], _, _ => by simp [kronEntry]
  | [], _, _ :: _, _, h, _ => by simp [Below] at h
  | [], _, [], _ :: _, _, h => by simp [Below] at h
  | _ :: _, _, [], _, h, _ => by simp [Below] at h
  | _ :: _, _, _ :: _, [], _, h => by simp [Below] at h
  | (a, b, d) :: rest, hinv, i :: I, k :: K, hI, hK => by
    have ih := kronEntry_delta rest (fun f hf => hinv f (List.mem_cons_of_mem _ hf)) I K hI.2 hK.2
    simp only [List.map_cons, kronEntry, List.headD_cons, List.tail_cons]
    rw [ih, hinv (a, b, d) (List.mem_cons_self) i k hI.1 hK.1]
    unfold delta
    by_cases h1 : i = k <;> by_cases h2 : I = K <;> simp [h1, h2]

theorem kron_inv (facs : List ((Nat → Nat → α) × (Nat → Nat → α) × Nat))
    (hinv : ∀ f ∈ facs, ∀ i k, i < f.2.2 → k < f.2.2 → mulEnt f.1 f.2.1 f.2.2 i k = delta i k)
    (I K : List Nat) (hI : Below I (facs.map (·.2.2))) (hK : Below K (facs.map (·.2.2))) :
    boxSum (facs.map (·.2.2)) (fun J => kronEntry (facs.map (·.1)) I J * kronEntry (facs.map (·.2.1)) J K)
      = if I = K then 1 else 0 := by
  rw [kron_mixed, kronEntry_delta facs hinv I K hI hK]

end kron
end Pyiga.LA

namespace Pyiga.Ops
open Pyiga.Index Pyiga.LA

/-! ### `_sizes_to_ranges` -/

/-- consecutive ranges starting at `start` -/
def consecutive : Nat → List Nat → List Rng
  | _, [] => []
  | start, s :: ss => (start, start + s) :: consecutive (start + s) ss

theorem sizesToRanges_aux : ∀ (sizes : List Nat) (a : Nat) (acc : List Rng),
    (sizes.foldl (fun (acc : Nat × List Rng) s => (acc.1 + s, acc.2 ++ [(acc.1, acc.1 + s)])) (a, acc)).2
      = acc ++ consecutive a sizes
  | [], a, acc => by simp [consecutive]
  | s :: ss, a, acc => by
    simp only [List.foldl_cons, consecutive]
    rw [sizesToRanges_aux ss (a + s) (acc ++ [(a, a + s)])]
    simp

theorem sizesToRanges_eq (sizes : List Nat) : sizesToRanges sizes = consecutive 0 sizes := by
  unfold sizesToRanges
  rw [sizesToRanges_aux]; simp

/-! ### the dense matrix of a `BaseBlockOperator` -/

section block
variable {α : Type} [Zero α] [Add α] [Mul α]

/-- one placed block: `B[r - a, c - b]` inside `[a, a') × [b, b')`, zero outside -/
def placed (B : Op α) (ro ri : Rng) (r c : Nat) : α :=
  if ro.1 ≤ r ∧ r < ro.2 ∧ ri.1 ≤ c ∧ c < ri.2 then B.ent (r - ro.1) (c - ri.1) else 0

/-- the explicit matrix: sum of all placed blocks (`numpy.block` with zero blocks elsewhere) -/
def BaseBlock.blockDense (B : BaseBlock α) (r c : Nat) : α :=
  ((B.ops.zip (B.ranOut.zip B.ranIn)).map (fun p => placed p.1 p.2.1 p.2.2 r c)).sum

/-- ranges lie inside the operator's shape and every block has the shape of its ranges -/
def BaseBlock.WellFormed (B : BaseBlock α) : Prop :=
  B.ops.length = B.ranOut.length ∧ B.ops.length = B.ranIn.length ∧
  ∀ p ∈ B.ops.zip (B.ranOut.zip B.ranIn),
    p.2.1.1 ≤ p.2.1.2 ∧ p.2.1.2 ≤ B.M ∧ p.2.2.1 ≤ p.2.2.2 ∧ p.2.2.2 ≤ B.N ∧
    p.1.m = p.2.1.2 - p.2.1.1 ∧ p.1.n = p.2.2.2 - p.2.2.1

theorem placed_T (B : Op α) (ro ri : Rng) (r c : Nat) : placed B.T ri ro r c = placed B ro ri c r := by
  unfold placed Op.T
  simp only
  by_cases h : ro.1 ≤ c ∧ c < ro.2 ∧ ri.1 ≤ r ∧ r < ri.2
  · rw [if_pos h, if_pos ⟨h.2.2.1, h.2.2.2, h.1, h.2.1⟩]
  · rw [if_neg h, if_neg (fun h' => h ⟨h'.2.2.1, h'.2.2.2, h'.1, h'.2.1⟩)]

theorem zip_T_map : ∀ (ops : List (Op α)) (ro ri : List Rng) (r c : Nat),
    ((ops.map Op.T).zip (ri.zip ro)).map (fun p => placed p.1 p.2.1 p.2.2 r c)
      = (ops.zip (ro.zip ri)).map (fun p => placed p.1 p.2.1 p.2.2 c r)
  | [], _, _, _, _ => by simp
  | _ :: _, [], _, _, _ => by simp
  | _ :: _, _ :: _, [], _, _ => by simp
  | B :: ops, a :: ro, b :: ri, r, c => by
    simp only [List.map_cons, List.zip_cons_cons, List.cons.injEq]
    exact ⟨placed_T B a b r c, zip_T_map ops ro ri r c⟩

theorem blockDense_T (B : BaseBlock α) (r c : Nat) : B.T.blockDense r c = B.blockDense c r := by
  unfold BaseBlock.blockDense BaseBlock.T
  simp only
  rw [zip_T_map]

theorem mem_zip_T : ∀ (ops : List (Op α)) (ro ri : List Rng) (p : Op α × Rng × Rng),
    p ∈ (ops.map Op.T).zip (ri.zip ro) → ∃ q ∈ ops.zip (ro.zip ri), p = (q.1.T, q.2.2, q.2.1)
  | [], _, _, _, h => by simp at h
  | _ :: _, [], _, _, h => by simp at h
  | _ :: _, _ :: _, [], _, h => by simp at h
  | B :: ops, a :: ro, b :: ri, p, h => by
    simp only [List.map_cons, List.zip_cons_cons, List.mem_cons] at h ⊢
    rcases h with h | h
    · exact ⟨(B, a, b), Or.inl rfl, h⟩
    · obtain ⟨q, hq, e⟩ := mem_zip_T ops ro ri p h
      exact ⟨q, Or.inr hq, e⟩

theorem wellFormed_T (B : BaseBlock α) (hw : B.WellFormed) : B.T.WellFormed := by
  obtain ⟨h1, h2, h3⟩ := hw
  refine ⟨by simpa [BaseBlock.T] using h2, by simpa [BaseBlock.T] using h1, ?_⟩
  intro p hp
  obtain ⟨q, hq, e⟩ := mem_zip_T B.ops B.ranOut B.ranIn p hp
  obtain ⟨a1, a2, a3, a4, a5, a6⟩ := h3 q hq
  subst e
  exact ⟨a3, a4, a1, a2, a6, a5⟩

end block

end Pyiga.Ops
