/-
Helper for C07 (`composed_jet`): the first-order jet of a composition `p ∘ (u₀, …, u_{n-1})`
(`p` a rational expression in `n` variables, evaluated in the jet algebra) has the value `p(u.v)`
and the gradient `Σ_e ∂_e p(u.v) · ∇u_e` — the chain rule that `np.matmul(jac2, jac1)` codes.
-/
import Pyiga.Proofs.Geometry

namespace Pyiga.Jet
open Pyiga.Geo
variable {K : Type} [Field K]

theorem RExpr.jet_v (u : Nat → Jet K) (p : RExpr K) : (p.jet u).v = p.eval (fun e => (u e).v) := by
  induction p with
  | const c => rfl
  | var k => rfl
  | add p q ihp ihq => simp only [RExpr.jet, RExpr.eval, Jet.add, ihp, ihq]
  | mul p q ihp ihq => simp only [RExpr.jet, RExpr.eval, Jet.mul, ihp, ihq]
  | div p q ihp ihq => simp only [RExpr.jet, RExpr.eval, div_v, ihp, ihq]

/-- chain rule, first order -/
theorem RExpr.jet_g (n : Nat) (u : Nat → Jet K) (p : RExpr K) (hv : p.VarsBelow n)
    (hd : p.Defined (fun e => (u e).v)) (m : Nat) :
    (p.jet u).g m = sumTo n (fun e => p.deriv (fun e => (u e).v) e * (u e).g m) := by
  induction p with
  | const c =>
    simp only [RExpr.jet, RExpr.deriv, Jet.const]
    rw [sumTo_eq_zero (fun e _ => by ring)]
  | var k =>
    simp only [RExpr.jet, RExpr.deriv]
    have := sumTo_delta n k (fun e => (u e).g m) hv
    rw [← this]
    apply sumTo_congr
    intro e _
    by_cases h : e = k
    · simp [h]
    · have h' : k ≠ e := fun hh => h hh.symm
      simp [h, h']
  | add p q ihp ihq =>
    simp only [RExpr.jet, RExpr.deriv, Jet.add, ihp hv.1 hd.1, ihq hv.2 hd.2, ← sumTo_add]
    exact sumTo_congr (fun e _ => by ring)
  | mul p q ihp ihq =>
    simp only [RExpr.jet, RExpr.deriv, Jet.mul, ihp hv.1 hd.1, ihq hv.2 hd.2, RExpr.jet_v]
    rw [← sumTo_mul_right, ← sumTo_mul_left, ← sumTo_add]
    exact sumTo_congr (fun e _ => by ring)
  | div p q ihp ihq =>
    have hq : (q.jet u).v ≠ 0 := by rw [RExpr.jet_v]; exact hd.2.2
    simp only [RExpr.jet, RExpr.deriv]
    rw [div_g _ _ hq, ihp hv.1 hd.1, ihq hv.2 hd.2.1, RExpr.jet_v, RExpr.jet_v]
    rw [div_eq_mul_inv, sub_mul]
    rw [← sumTo_mul_right, ← sumTo_mul_left, ← sumTo_mul_right, ← sumTo_mul_right]
    have : ∀ (f g : Nat → K), sumTo n f - sumTo n g = sumTo n (fun e => f e - g e) := by
      intro f g
      have := sumTo_add n (fun e => f e - g e) g
      simp only [sub_add_cancel] at this
      rw [this]; ring
    rw [this]
    apply sumTo_congr
    intro e _
    rw [div_eq_mul_inv]
    ring

end Pyiga.Jet
