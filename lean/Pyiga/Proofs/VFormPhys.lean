/-
Part 4: the physical-derivative substitution, first order, every dimension (Finset sums).
-/
import Pyiga.Proofs.VFormAlg
import Pyiga.Model.VFormPhys
import Mathlib.Algebra.BigOperators.Group.Finset.Basic
import Mathlib.Algebra.BigOperators.Ring.Finset
import Mathlib.Algebra.BigOperators.Group.Finset.Sigma

namespace Pyiga.VForm
open Expr

variable {α : Type} [Field α] [CharZero α]

theorem foldl_add_eq (l : List α) (a : α) : l.foldl (· + ·) a = a + l.sum := by
  induction l generalizing a with
  | nil => simp
  | cons x l ih => simp [ih, add_assoc]

theorem reduceAddV_eq_sum (fn : String → α → α) (l : List α) : reduceAddV (fieldOps fn) l = l.sum := by
  cases l with
  | nil => simp [reduceAddV, fieldOps]
  | cons t ts =>
    simp only [reduceAddV, fieldOps, List.sum_cons]
    exact foldl_add_eq ts t

theorem sum_map_range (f : Nat → α) (n : Nat) : ((List.range n).map f).sum = ∑ i ∈ Finset.range n, f i := by
  induction n with
  | zero => simp
  | succ n ih => rw [List.range_succ, List.map_append, List.sum_append, ih, Finset.sum_range_succ]; simp

/-- **phys_to_para (first order, every dimension).**  `J m i = ∂G_m/∂ξ_i`; `JacInv` holds a right inverse
of `J`; the physical first derivatives of the basis function are *defined* by the chain rule
`∂_{ξ_i} φ = Σ_m J m i · ∂_{x_m} φ`.  Then the substituted expression denotes `∂_{x_k} φ`. -/
theorem physToPara1_sound (fn : String → α → α) (ρ : Env α) (dim : Nat) (b : BFun) (J : Nat → Nat → α)
    (hinv : ∀ m k, m < dim → k < dim →
      ∑ i ∈ Finset.range dim, J m i * ρ.var "JacInv" [i, k] (List.replicate dim 0) false = if m = k then 1 else 0)
    (hchain : ∀ i, i < dim → ρ.bf b (bump (List.replicate dim 0) i 1) false
      = ∑ m ∈ Finset.range dim, J m i * ρ.bf b (bump (List.replicate dim 0) m 1) true)
    (k : Nat) (hk : k < dim) :
    ev (fieldOps fn) ρ (physToPara1 dim b k) 0 0 = ρ.bf b (bump (List.replicate dim 0) k 1) true := by
  unfold physToPara1
  rw [ev_reduceAdd, reduceAddV_eq_sum, List.map_map, sum_map_range]
  simp only [Function.comp_def, ev, Ops.bin, fieldOps]
  calc ∑ i ∈ Finset.range dim, ρ.var "JacInv" [i, k] (List.replicate dim 0) false * ρ.bf b (bump (List.replicate dim 0) i 1) false
      = ∑ i ∈ Finset.range dim, ∑ m ∈ Finset.range dim,
          ρ.bf b (bump (List.replicate dim 0) m 1) true * (J m i * ρ.var "JacInv" [i, k] (List.replicate dim 0) false) := by
        apply Finset.sum_congr rfl
        intro i hi
        rw [hchain i (Finset.mem_range.mp hi), Finset.mul_sum]
        apply Finset.sum_congr rfl
        intro m _
        ring
    _ = ∑ m ∈ Finset.range dim, ρ.bf b (bump (List.replicate dim 0) m 1) true * (if m = k then 1 else 0) := by
        rw [Finset.sum_comm]
        apply Finset.sum_congr rfl
        intro m hm
        rw [← Finset.mul_sum, hinv m k (Finset.mem_range.mp hm) hk]
    _ = ρ.bf b (bump (List.replicate dim 0) k 1) true := by
        simp [Finset.sum_ite_eq', hk]

end Pyiga.VForm
