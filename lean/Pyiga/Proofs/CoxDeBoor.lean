/-
Cox-de Boor recursion over a linearly ordered field, for a monotone knot sequence
`t : ℕ → K` (division by zero is `0` in a field, which is the `0/0 := 0` convention).

  * `cox_support`            — `N_{i,p}` vanishes outside `[t i, t (i+p+1))`
  * `cox_nonneg`             — `0 ≤ N_{i,p}`
  * `cox_pu`                 — local partition of unity on `[t (j+p), t (j+p+1))`
  * `cox_zero_of_degenerate` — `N_{i,p} = 0` if `t i = t (i+p+1)`
-/
import Mathlib.Tactic.Ring
import Mathlib.Tactic.FieldSimp
import Mathlib.Tactic.Linarith
import Mathlib.Tactic.LinearCombination
import Mathlib.Tactic.NormNum
import Mathlib.Tactic.Positivity
import Mathlib.Algebra.BigOperators.Group.Finset.Basic
import Mathlib.Algebra.Order.Field.Basic
import Mathlib.Order.Monotone.Basic

namespace Pyiga.Cox

variable {K : Type*} [Field K] [LinearOrder K] [IsStrictOrderedRing K]

/-- Cox-de Boor recursion: `cox t p i x = N_{i,p}(x)` for the knot sequence `t`. -/
def cox (t : ℕ → K) : ℕ → ℕ → K → K
  | 0, i, x => if t i ≤ x ∧ x < t (i+1) then 1 else 0
  | p+1, i, x => (x - t i) / (t (i+p+1) - t i) * cox t p i x
      + (t (i+p+2) - x) / (t (i+p+2) - t (i+1)) * cox t p (i+1) x

omit [IsStrictOrderedRing K] in
theorem cox_zero (t : ℕ → K) (i : ℕ) (x : K) :
    cox t 0 i x = if t i ≤ x ∧ x < t (i+1) then 1 else 0 := rfl

omit [IsStrictOrderedRing K] in
theorem cox_succ (t : ℕ → K) (p i : ℕ) (x : K) :
    cox t (p+1) i x = (x - t i) / (t (i+p+1) - t i) * cox t p i x
      + (t (i+p+2) - x) / (t (i+p+2) - t (i+1)) * cox t p (i+1) x := rfl

omit [IsStrictOrderedRing K] in
theorem cox_support {t : ℕ → K} (ht : Monotone t) (p i : ℕ) (x : K)
    (h : x < t i ∨ t (i+p+1) ≤ x) : cox t p i x = 0 := by
  induction p generalizing i with
  | zero =>
    rw [cox_zero, if_neg]
    rintro ⟨h1, h2⟩
    rcases h with h | h
    · exact absurd h1 (not_le.mpr h)
    · exact absurd h2 (not_lt.mpr h)
  | succ p ih =>
    rw [cox_succ]
    have h1 : cox t p i x = 0 := by
      apply ih
      rcases h with h | h
      · exact Or.inl h
      · exact Or.inr (le_trans (ht (by omega)) h)
    have h2 : cox t p (i+1) x = 0 := by
      apply ih
      rcases h with h | h
      · exact Or.inl (lt_of_lt_of_le h (ht (by omega)))
      · right
        have e : i + 1 + p + 1 = i + (p+1) + 1 := by omega
        rw [e]; exact h
    rw [h1, h2]; simp

omit [IsStrictOrderedRing K] in
theorem cox_zero_of_degenerate {t : ℕ → K} (ht : Monotone t) (p i : ℕ) (x : K)
    (h : t i = t (i+p+1)) : cox t p i x = 0 := by
  apply cox_support ht
  rcases lt_or_ge x (t i) with hx | hx
  · exact Or.inl hx
  · exact Or.inr (h ▸ hx)

theorem cox_nonneg {t : ℕ → K} (ht : Monotone t) (p i : ℕ) (x : K) : 0 ≤ cox t p i x := by
  induction p generalizing i with
  | zero =>
    rw [cox_zero]
    split_ifs
    · exact zero_le_one
    · exact le_refl 0
  | succ p ih =>
    rw [cox_succ]
    apply add_nonneg
    · rcases lt_or_ge x (t i) with hx | hx
      · rw [cox_support ht p i x (Or.inl hx)]; simp
      · apply mul_nonneg _ (ih i)
        apply div_nonneg (sub_nonneg.mpr hx)
        exact sub_nonneg.mpr (ht (by omega))
    · rcases lt_or_ge x (t (i+p+2)) with hx | hx
      · apply mul_nonneg _ (ih (i+1))
        apply div_nonneg (sub_nonneg.mpr hx.le)
        exact sub_nonneg.mpr (ht (by omega))
      · have e : i + p + 2 = i + 1 + p + 1 := by omega
        rw [cox_support ht p (i+1) x (Or.inr (e ▸ hx))]; simp

theorem cox_pu {t : ℕ → K} (ht : Monotone t) (p j : ℕ) (x : K)
    (h1 : t (j+p) ≤ x) (h2 : x < t (j+p+1)) :
    ∑ r ∈ Finset.range (p+1), cox t p (j+r) x = 1 := by
  induction p generalizing j with
  | zero =>
    rw [Finset.sum_range_one, cox_zero, if_pos]
    exact ⟨h1, h2⟩
  | succ p ih =>
    simp only [cox_succ]
    rw [Finset.sum_add_distrib]
    have z1 : cox t p (j+0) x = 0 := cox_support ht p (j+0) x (Or.inr h1)
    have z2 : cox t p (j+(p+1)+1) x = 0 := cox_support ht p _ x (Or.inl h2)
    have s1 : ∑ r ∈ Finset.range (p+1+1),
          (x - t (j+r)) / (t (j+r+p+1) - t (j+r)) * cox t p (j+r) x
        = ∑ r ∈ Finset.range (p+1),
          (x - t (j+(r+1))) / (t (j+(r+1)+p+1) - t (j+(r+1))) * cox t p (j+(r+1)) x := by
      rw [Finset.sum_range_succ', z1, mul_zero, add_zero]
    have s2 : ∑ r ∈ Finset.range (p+1+1),
          (t (j+r+p+2) - x) / (t (j+r+p+2) - t (j+r+1)) * cox t p (j+r+1) x
        = ∑ r ∈ Finset.range (p+1),
          (t (j+r+p+2) - x) / (t (j+r+p+2) - t (j+r+1)) * cox t p (j+r+1) x := by
      rw [Finset.sum_range_succ, z2, mul_zero, add_zero]
    rw [s1, s2, ← Finset.sum_add_distrib]
    have hj : ∑ r ∈ Finset.range (p+1), cox t p (j+1+r) x = 1 := by
      apply ih
      · have e : j + 1 + p = j + (p+1) := by omega
        rw [e]; exact h1
      · have e : j + 1 + p + 1 = j + (p+1) + 1 := by omega
        rw [e]; exact h2
    rw [← hj]
    apply Finset.sum_congr rfl
    intro r hr
    have hr' : r < p + 1 := Finset.mem_range.mp hr
    have e1 : j + (r+1) = j + 1 + r := by omega
    have e2 : j + r + 1 = j + 1 + r := by omega
    rw [e1, e2]
    have hlt : t (j+1+r) < t (j+1+r+p+1) := by
      calc t (j+1+r) ≤ t (j+(p+1)) := ht (by omega)
        _ ≤ x := h1
        _ < t (j+(p+1)+1) := h2
        _ ≤ t (j+1+r+p+1) := ht (by omega)
    have e3 : j + r + p + 2 = j + 1 + r + p + 1 := by omega
    rw [e3]
    have hne : t (j+1+r+p+1) - t (j+1+r) ≠ 0 := ne_of_gt (sub_pos.mpr hlt)
    field_simp
    ring

end Pyiga.Cox
