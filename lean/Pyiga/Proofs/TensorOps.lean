/-
C18: specification lemmas (shape, well-formedness, entries) of `neg`, `add`, `sub` for every
tensor class, including mixed Canonical/Tucker addition through `from_tensor`.
-/
import Pyiga.Proofs.TensorArith

set_option linter.unusedSectionVars false
set_option linter.unusedSimpArgs false

namespace Pyiga.Tensor
open Pyiga.Index

variable {α : Type} [CommRing α]

theorem bind_ok {ε β γ : Type} (x : Except ε β) (f : β → Except ε γ) (c : γ)
    (h : (x >>= f) = .ok c) : ∃ a, x = .ok a ∧ f a = .ok c := by
  cases x with
  | error e => cases h
  | ok a => exact ⟨a, rfl, h⟩

theorem mkCan_ok (Xs : List (Mat α)) (T : Ten α) (h : mkCan Xs = .ok T) :
    T = .can Xs ∧ Xs ≠ [] ∧ ∀ Y ∈ Xs, Y.cols = canR Xs := by
  cases Xs with
  | nil => cases h
  | cons X Xr =>
    simp only [mkCan] at h
    split at h
    · rename_i hall
      injection h with h
      refine ⟨h.symm, by simp, fun Y hY => ?_⟩
      have := List.all_eq_true.1 hall Y hY
      simpa [canR] using this
    · cases h

theorem mkCan_of (Xs : List (Mat α)) (hne : Xs ≠ []) (h : ∀ Y ∈ Xs, Y.cols = canR Xs) :
    mkCan Xs = .ok (.can Xs) := by
  cases Xs with
  | nil => exact absurd rfl hne
  | cons X Xr =>
    simp only [mkCan]
    rw [if_pos]
    exact List.all_eq_true.2 (fun Y hY => by simpa [canR] using h Y hY)

theorem mkTucker_ok (Us : List (Mat α)) (X : Full α) (T : Ten α) (h : mkTucker Us X = .ok T) :
    T = .tucker Us X ∧ Us.length = X.shape.length := by
  simp only [mkTucker] at h
  split at h
  · rename_i hl; injection h with h; exact ⟨h.symm, hl⟩
  · cases h

/-! ### negation -/

theorem wf_can_shape_inBox (Xs : List (Mat α)) (hne : Xs ≠ []) (I : List Nat)
    (h : inBox I (Xs.map (·.rows)) = true) : ∃ i Ir, I = i :: Ir := by
  cases Xs with
  | nil => exact absurd rfl hne
  | cons X Xr =>
    cases I with
    | nil => simp [inBox] at h
    | cons i Ir => exact ⟨i, Ir, rfl⟩

theorem wfList_append : ∀ (Xs Ys : List (Ten α)), WFList Xs → WFList Ys → WFList (Xs ++ Ys)
  | [], _, _, h => h
  | X :: Xs, Ys, h1, h2 => by
    simp only [List.cons_append, WFList] at *
    exact ⟨h1.1, wfList_append Xs Ys h1.2 h2⟩

theorem allShape_append (s : List Nat) : ∀ (Xs Ys : List (Ten α)), AllShape s Xs → AllShape s Ys → AllShape s (Xs ++ Ys)
  | [], _, _, h => h
  | X :: Xs, Ys, h1, h2 => by
    simp only [List.cons_append, AllShape] at *
    exact ⟨h1.1, allShape_append s Xs Ys h1.2 h2⟩

theorem allShape_head (s : List Nat) (X : Ten α) (Xr : List (Ten α)) (h : AllShape s (X :: Xr)) :
    AllShape X.shape (X :: Xr) := by
  have : X.shape = s := h.1
  rw [this]; exact h

mutual
/-- unary minus: same shape, well-formed, every entry negated -/
theorem neg_spec : ∀ (T T' : Ten α), T.WF → T.neg = .ok T' →
    T'.WF ∧ T'.shape = T.shape ∧ ∀ I, inBox I T.shape = true → T'.entry I = - T.entry I
  | .full A, T', _, h => by
    simp only [Ten.neg] at h
    injection h with h; subst h
    refine ⟨trivial, rfl, fun I hI => ?_⟩
    simp only [Ten.entry, Full.neg]
    exact ofFn_get _ _ _ hI
  | .can Xs, T', hw, h => by
    cases Xs with
    | nil => simp [Ten.neg] at h
    | cons X Xr =>
      simp only [Ten.neg] at h
      obtain ⟨hT, hne, hc⟩ := mkCan_ok _ _ h
      subst hT
      refine ⟨⟨hne, hc⟩, rfl, fun I hI => ?_⟩
      obtain ⟨i, Ir, rfl⟩ := wf_can_shape_inBox (X :: Xr) (by simp) I hI
      simp only [Ten.entry]
      exact canEntry_neg X Xr i Ir
  | .tucker Us X, T', hw, h => by
    simp only [Ten.neg] at h
    obtain ⟨hT, hl⟩ := mkTucker_ok _ _ _ h
    subst hT
    have hw' : Us.map (·.cols) = X.shape := hw
    refine ⟨hw', rfl, fun I hI => ?_⟩
    simp only [Ten.entry, tuckerEntry]
    have hIl : I.length = Us.length := by
      have := inBox_length hI; simpa [Ten.shape] using this
    rw [← nwayEntry_neg]
    refine tuckerEntry_congr Us I _ _ hIl (fun J hJ => ?_)
    simp only [Full.neg]
    exact ofFn_get _ _ _ (by rw [← hw']; exact hJ)
  | .sum s Xs, T', hw, h => by
    simp only [Ten.neg] at h
    obtain ⟨Ys, h1, h2⟩ := bind_ok _ _ _ h
    obtain ⟨hne, hwl, hs⟩ := hw
    obtain ⟨hwY, hsY, hlen, hent⟩ := negList_spec Xs Ys s hwl hs h1
    obtain ⟨Y, Yr, rfl, hT, hall⟩ := mkSum_ok _ _ h2
    subst hT
    have hYs : Y.shape = s := hsY.1
    refine ⟨⟨by simp, hwY, by rw [hYs]; exact hsY⟩, hYs, fun I hI => ?_⟩
    simp only [Ten.entry]
    exact hent I hI
  | .prod s Xs, T', hw, h => by
    simp only [Ten.neg] at h
    obtain ⟨Ys, h1, h2⟩ := bind_ok _ _ _ h
    injection h2 with h2; subst h2
    obtain ⟨hwl, hs⟩ := hw
    cases Xs with
    | nil => simp [negHead] at h1
    | cons X Xr =>
      simp only [negHead] at h1
      obtain ⟨Y, hY, h3⟩ := bind_ok _ _ _ h1
      injection h3 with h3; subst h3
      obtain ⟨hYw, hYs, hYe⟩ := neg_spec X Y hwl.1 hY
      have hshape : (Y :: Xr).flatMap Ten.shape = s := by
        rw [hs]; simp [List.flatMap_cons, hYs]
      refine ⟨⟨⟨hYw, hwl.2⟩, by simp [mkProd]⟩, by simp [mkProd, Ten.shape, hshape], fun I hI => ?_⟩
      simp only [mkProd, Ten.entry, entryProd, Ten.ndim, hYs]
      have hI' : inBox I (X.shape ++ Xr.flatMap Ten.shape) = true := by
        simpa [Ten.shape, hs, List.flatMap_cons] using hI
      rw [hYe _ (inBox_take I X.shape _ hI')]; ring
theorem negList_spec : ∀ (Xs Ys : List (Ten α)) (s : List Nat), WFList Xs → AllShape s Xs →
    negList Xs = .ok Ys →
    WFList Ys ∧ AllShape s Ys ∧ Ys.length = Xs.length ∧
      ∀ I, inBox I s = true → entrySum Ys I = - entrySum Xs I
  | [], Ys, s, _, _, h => by
    simp only [negList] at h
    injection h with h; subst h
    exact ⟨trivial, trivial, rfl, fun I _ => by simp [entrySum]⟩
  | X :: Xr, Ys, s, hw, hs, h => by
    simp only [negList] at h
    obtain ⟨Y, hY, h2⟩ := bind_ok _ _ _ h
    obtain ⟨Yr, hYr, h3⟩ := bind_ok _ _ _ h2
    injection h3 with h3; subst h3
    obtain ⟨hYw, hYs, hYe⟩ := neg_spec X Y hw.1 hY
    obtain ⟨hrw, hrs, hrl, hre⟩ := negList_spec Xr Yr s hw.2 hs.2 hYr
    refine ⟨⟨hYw, hrw⟩, ⟨by rw [hYs]; exact hs.1, hrs⟩, by simp [hrl], fun I hI => ?_⟩
    simp only [entrySum]
    rw [hYe I (by rw [hs.1]; exact hI), hre I hI]; ring
end

end Pyiga.Tensor
