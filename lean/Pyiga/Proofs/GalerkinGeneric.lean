/-
C09: the generated `combine` loop nest (full Gauss sum of the generic assembler, model of b-assembler,
`Pyiga.Model.Assembler`) as nested `Finset` sums, in 2 and 3 dimensions.
-/
import Pyiga.Proofs.GalerkinKron3
import Pyiga.Model.Assembler

namespace Pyiga.Galerkin
open Finset Pyiga.Asm

section Ring
variable {α : Type} [CommRing α]

theorem foldl_add_eq (k : List Nat → α) : ∀ (l : List (List Nat)) (a : α),
    l.foldl (fun r q => r + k q) a = a + (l.map k).sum
  | [], a => by simp
  | q :: l, a => by rw [List.foldl_cons, foldl_add_eq k l, List.map_cons, List.sum_cons]; ring

theorem combine_eq_sum (N : List Nat) (k : List Nat → α) : combine N k = ((loopNest N).map k).sum := by
  unfold combine
  rw [foldl_add_eq]; ring

theorem sum_flatMap_range {γ : Type} (n : Nat) (F : Nat → List γ) (k : γ → α) :
    (((List.range n).flatMap F).map k).sum = ∑ i ∈ range n, ((F i).map k).sum := by
  induction n with
  | zero => simp
  | succ n ih =>
    rw [List.range_succ, List.flatMap_append, List.map_append, List.sum_append, ih, Finset.sum_range_succ]
    simp

theorem sum_loopNest_cons (n : Nat) (ns : List Nat) (k : List Nat → α) :
    ((loopNest (n :: ns)).map k).sum = ∑ i ∈ range n, ((loopNest ns).map fun q => k (i :: q)).sum := by
  have h : loopNest (n :: ns) = (List.range n).flatMap (fun i => (loopNest ns).map (i :: ·)) := by
    rw [loopNest]
  rw [h, sum_flatMap_range]
  apply Finset.sum_congr rfl; intro i _
  rw [List.map_map]; rfl

theorem sum_loopNest_nil (k : List Nat → α) : ((loopNest []).map k).sum = k [] := by
  simp [loopNest]

/-- the 2-D `combine` loop nest is the double sum over all quadrature nodes -/
theorem combine_two (n1 n2 : Nat) (k : List Nat → α) :
    combine [n1, n2] k = ∑ a ∈ range n1, ∑ b ∈ range n2, k [a, b] := by
  rw [combine_eq_sum, sum_loopNest_cons]
  apply Finset.sum_congr rfl; intro a _
  rw [sum_loopNest_cons]
  apply Finset.sum_congr rfl; intro b _
  rw [sum_loopNest_nil]

/-- the 3-D `combine` loop nest is the triple sum over all quadrature nodes -/
theorem combine_three (n0 n1 n2 : Nat) (k : List Nat → α) :
    combine [n0, n1, n2] k = ∑ a ∈ range n0, ∑ b ∈ range n1, ∑ c ∈ range n2, k [a, b, c] := by
  rw [combine_eq_sum, sum_loopNest_cons]
  apply Finset.sum_congr rfl; intro a _
  rw [sum_loopNest_cons]
  apply Finset.sum_congr rfl; intro b _
  rw [sum_loopNest_cons]
  apply Finset.sum_congr rfl; intro c _
  rw [sum_loopNest_nil]

end Ring

end Pyiga.Galerkin
