/-
Helper lemmas for L-la (C10): selection matrices as row lists, scatter/gather algebra.
-/
import Pyiga.Model.Restrict

namespace Pyiga.Restrict

end Pyiga.Restrict
