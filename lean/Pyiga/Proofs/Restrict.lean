/-
Helper lemmas for L-la (C10): selection matrices as row lists, scatter/gather algebra,
the sorted `(index, value)` pairs, `np.unique`.
-/
import Pyiga.Model.Restrict
import Mathlib.Algebra.BigOperators.Group.Finset.Basic
import Mathlib.Algebra.BigOperators.Ring.Finset
import Mathlib.Algebra.BigOperators.Group.List.Basic
import Mathlib.Data.List.Sort
import Mathlib.Data.List.GetD
import Mathlib.Tactic.Ring
import Mathlib.Tactic.Linarith
import Mathlib.Algebra.Field.Basic

namespace Pyiga.Restrict
open List

/-! ### membership / order facts about `free`, `elim` -/

theorem mem_free {n i : Nat} {idx : List Nat} : i ∈ free n idx ↔ i < n ∧ i ∉ idx := by
  simp [free]

theorem mem_elim {n i : Nat} {idx : List Nat} : i ∈ elim n idx ↔ i < n ∧ i ∈ idx := by
  simp [elim]

theorem free_pairwise (n : Nat) (idx : List Nat) : (free n idx).Pairwise (· < ·) :=
  List.pairwise_lt_range.filter _

theorem elim_pairwise (n : Nat) (idx : List Nat) : (elim n idx).Pairwise (· < ·) :=
  List.pairwise_lt_range.filter _

theorem free_nodup (n : Nat) (idx : List Nat) : (free n idx).Nodup :=
  List.nodup_range.filter _

theorem elim_nodup (n : Nat) (idx : List Nat) : (elim n idx).Nodup :=
  List.nodup_range.filter _

/-- with all indices in range, `R_elim` has as many rows as there are indices iff the indices
are pairwise distinct -/
theorem elim_perm {n : Nat} {idx : List Nat} (hn : ∀ i ∈ idx, i < n) (hnd : idx.Nodup) :
    elim n idx ~ idx :=
  (List.perm_ext_iff_of_nodup (elim_nodup n idx) hnd).2 (fun a => by
    rw [mem_elim]; exact ⟨fun h => h.2, fun h => ⟨hn a h, h⟩⟩)

theorem elim_subperm (n : Nat) (idx : List Nat) : (elim n idx).Subperm idx :=
  List.subperm_of_subset (elim_nodup n idx) (fun a h => (mem_elim.1 h).2)

theorem nodup_of_elim_length {n : Nat} {idx : List Nat}
    (h : (elim n idx).length = idx.length) : idx.Nodup := by
  have hp : elim n idx ~ idx := (elim_subperm n idx).perm_of_length_le (by omega)
  exact hp.nodup_iff.1 (elim_nodup n idx)

theorem elim_length_lt_of_dup {n : Nat} {idx : List Nat} (h : ¬ idx.Nodup) :
    (elim n idx).length < idx.length := by
  have hle := (elim_subperm n idx).length_le
  rcases Nat.lt_or_ge (elim n idx).length idx.length with h1 | h1
  · exact h1
  · exact absurd (nodup_of_elim_length (n := n) (by omega)) h

section generic
variable {α : Type}

/-! ### the stable argsort of the `(index, value)` pairs -/

theorem zip_map_fst_snd' {β γ : Type} : ∀ (ps : List (β × γ)), (ps.map Prod.fst).zip (ps.map Prod.snd) = ps
  | [] => rfl
  | p :: ps => by simp [zip_map_fst_snd' ps]

theorem insertPair_perm (p : Nat × α) : ∀ (l : List (Nat × α)), insertPair p l ~ p :: l
  | [] => List.Perm.refl _
  | q :: qs => by
    unfold insertPair
    split
    · exact List.Perm.refl _
    · exact ((insertPair_perm p qs).cons q).trans (List.Perm.swap p q qs)

theorem sortPairs_perm : ∀ (l : List (Nat × α)), sortPairs l ~ l
  | [] => List.Perm.refl _
  | p :: ps => (insertPair_perm p _).trans ((sortPairs_perm ps).cons p)

theorem insertPair_keys_le (p : Nat × α) : ∀ (l : List (Nat × α)),
    (l.map Prod.fst).Pairwise (· ≤ ·) → ((insertPair p l).map Prod.fst).Pairwise (· ≤ ·)
  | [], _ => by simp [insertPair]
  | q :: qs, h => by
    unfold insertPair
    simp only [List.map_cons, List.pairwise_cons] at h
    split
    · rename_i hpq
      simp only [List.map_cons, List.pairwise_cons, List.mem_cons]
      refine ⟨?_, h⟩
      rintro x (rfl | hx)
      · exact hpq
      · exact Nat.le_trans hpq (h.1 x hx)
    · rename_i hpq
      simp only [List.map_cons, List.pairwise_cons]
      refine ⟨?_, insertPair_keys_le p qs h.2⟩
      intro x hx
      obtain ⟨y, hy, rfl⟩ := List.mem_map.1 hx
      rcases List.mem_cons.1 ((insertPair_perm p qs).mem_iff.1 hy) with rfl | hy'
      · omega
      · exact h.1 _ (List.mem_map_of_mem hy')

theorem sortPairs_keys_le : ∀ (l : List (Nat × α)), ((sortPairs l).map Prod.fst).Pairwise (· ≤ ·)
  | [] => by simp [sortPairs]
  | p :: ps => insertPair_keys_le p _ (sortPairs_keys_le ps)

theorem sortedPairs_perm (idx : List Nat) (vals : List α) : sortedPairs idx vals ~ idx.zip vals :=
  sortPairs_perm _

theorem sortedPairs_keys_perm {idx : List Nat} {vals : List α} (hl : idx.length ≤ vals.length) :
    (sortedPairs idx vals).map Prod.fst ~ idx := by
  have := (sortedPairs_perm idx vals).map Prod.fst
  rwa [List.map_fst_zip hl] at this

theorem sortedPairs_keys_le (idx : List Nat) (vals : List α) :
    ((sortedPairs idx vals).map Prod.fst).Pairwise (· ≤ ·) :=
  sortPairs_keys_le _

/-- for distinct in-range indices the sorted keys are exactly the rows of `R_elim` -/
theorem sortedPairs_keys {n : Nat} {idx : List Nat} {vals : List α} (hn : ∀ i ∈ idx, i < n)
    (hnd : idx.Nodup) (hl : idx.length ≤ vals.length) :
    (sortedPairs idx vals).map Prod.fst = elim n idx := by
  have hp := sortedPairs_keys_perm (α := α) (vals := vals) hl
  have hnd' : ((sortedPairs idx vals).map Prod.fst).Nodup := hp.nodup_iff.2 hnd
  have hlt : ((sortedPairs idx vals).map Prod.fst).Pairwise (· < ·) :=
    ((sortedPairs_keys_le idx vals).and hnd').imp (fun ⟨h1, h2⟩ => lt_of_le_of_ne h1 h2)
  apply hlt.eq_of_mem_iff (elim_pairwise n idx)
  intro a
  rw [hp.mem_iff, mem_elim]
  exact ⟨fun h => ⟨hn a h, h⟩, fun h => h.2⟩

theorem length_sortedVals {idx : List Nat} {vals : List α} (hl : idx.length ≤ vals.length) :
    (sortedVals idx vals).length = idx.length := by
  unfold sortedVals
  rw [List.length_map, (sortedPairs_perm idx vals).length_eq, List.length_zip]
  omega

/-- scalar `values` broadcasting = array of equal values (the argsort permutation is invisible) -/
theorem sortedVals_replicate (idx : List Nat) (v : α) :
    sortedVals idx (List.replicate idx.length v) = List.replicate idx.length v := by
  rw [List.eq_replicate_iff]
  constructor
  · rw [length_sortedVals (by simp)]
  · intro b hb
    unfold sortedVals at hb
    obtain ⟨p, hp, rfl⟩ := List.mem_map.1 hb
    have := (sortedPairs_perm idx (List.replicate idx.length v)).mem_iff.1 hp
    obtain ⟨a, x⟩ := p
    exact List.eq_of_mem_replicate (List.of_mem_zip this).2

end generic

section ring
variable {α : Type} [CommRing α]

/-! ### sums over `range n` -/

theorem sumRange_eq (n : Nat) (f : Nat → α) : sumRange n f = ∑ i ∈ Finset.range n, f i := by
  unfold sumRange
  induction n with
  | zero => simp
  | succ k ih => rw [List.range_succ, List.map_append, List.sum_append, ih, Finset.sum_range_succ]; simp

/-! ### `pairSum`: the transposed selection product on explicit `(row, value)` pairs -/

/-- sum of the values paired with row `i` -/
def pairSum (ps : List (Nat × α)) (i : Nat) : α := ((ps.filter (fun p => p.1 == i)).map (·.2)).sum

theorem scatterAt_eq_pairSum (l : List Nat) (w : List α) (i : Nat) :
    scatterAt l w i = pairSum (l.zip w) i := rfl

@[simp] theorem pairSum_nil (i : Nat) : pairSum ([] : List (Nat × α)) i = 0 := rfl

theorem pairSum_cons (a : Nat) (x : α) (ps : List (Nat × α)) (i : Nat) :
    pairSum ((a, x) :: ps) i = (if a = i then x else 0) + pairSum ps i := by
  unfold pairSum
  by_cases h : a = i
  · simp [h]
  · simp [h]

theorem pairSum_perm {ps qs : List (Nat × α)} (h : ps ~ qs) (i : Nat) : pairSum ps i = pairSum qs i :=
  ((h.filter _).map _).sum_eq

theorem pairSum_eq_zero {ps : List (Nat × α)} {i : Nat} (h : ∀ p ∈ ps, p.1 ≠ i) : pairSum ps i = 0 := by
  induction ps with
  | nil => rfl
  | cons p ps ih =>
    obtain ⟨a, x⟩ := p
    rw [pairSum_cons, if_neg (h (a, x) (by simp)), ih (fun q hq => h q (by simp [hq])), add_zero]

/-- for pairwise distinct rows the transposed product just places the values -/
theorem pairSum_of_nodup {ps : List (Nat × α)} (hnd : (ps.map Prod.fst).Nodup) {a : Nat} {x : α}
    (hm : (a, x) ∈ ps) : pairSum ps a = x := by
  induction ps with
  | nil => simp at hm
  | cons p ps ih =>
    obtain ⟨b, y⟩ := p
    simp only [List.map_cons, List.nodup_cons] at hnd
    rw [pairSum_cons]
    rcases List.mem_cons.1 hm with h | h
    · obtain ⟨rfl, rfl⟩ := Prod.mk.inj h
      rw [if_pos rfl, pairSum_eq_zero, add_zero]
      intro q hq hqa
      exact hnd.1 (hqa ▸ List.mem_map_of_mem hq)
    · have hab : b ≠ a := by
        rintro rfl
        exact hnd.1 (List.mem_map_of_mem (f := Prod.fst) h)
      rw [if_neg hab, zero_add, ih hnd.2 h]

/-- `Σ_j f j * (Rᵀ w)_j = Σ_k f (rows_k) * w_k` for any rows in range (no distinctness needed:
the transposed product sums) -/
theorem sum_mul_pairSum (n : Nat) (f : Nat → α) (ps : List (Nat × α)) (h : ∀ p ∈ ps, p.1 < n) :
    ∑ j ∈ Finset.range n, f j * pairSum ps j = (ps.map (fun p => f p.1 * p.2)).sum := by
  induction ps with
  | nil => simp
  | cons p ps ih =>
    obtain ⟨a, x⟩ := p
    have ha : a < n := h (a, x) (by simp)
    simp only [pairSum_cons, mul_add, Finset.sum_add_distrib, List.map_cons, List.sum_cons]
    rw [ih (fun q hq => h q (by simp [hq]))]
    congr 1
    simp [mul_ite, Finset.sum_ite_eq, ha]

/-- a zip-indexed sum as a sum over positions -/
theorem sum_zip_eq (F : Nat → α → α) : ∀ (l : List Nat) (w : List α), l.length = w.length →
    ((l.zip w).map (fun p => F p.1 p.2)).sum =
      ∑ c ∈ Finset.range l.length, F (l.getD c 0) (w.getD c 0)
  | [], _, _ => by simp
  | _ :: _, [], h => by simp at h
  | a :: l, x :: w, h => by
    have hl : l.length = w.length := by simpa using h
    simp only [List.zip_cons_cons, List.map_cons, List.sum_cons, List.length_cons]
    rw [Finset.sum_range_succ', sum_zip_eq F l w hl]
    simp [add_comm]

/-! ### entries of the vectors the constructor builds -/

theorem getD_scatter (n : Nat) (l : List Nat) (w : List α) {j : Nat} (hj : j < n) :
    (scatter n l w).getD j 0 = scatterAt l w j := by
  simp [scatter, List.getD_eq_getElem?_getD, List.getElem?_map, List.getElem?_range hj]

theorem length_scatter (n : Nat) (l : List Nat) (w : List α) : (scatter n l w).length = n := by
  simp [scatter]

theorem getD_vadd (u v : List α) (j : Nat) (h : u.length = v.length) :
    (vadd u v).getD j 0 = u.getD j 0 + v.getD j 0 := by
  unfold vadd
  simp only [List.getD_eq_getElem?_getD, List.getElem?_zipWith]
  rcases Nat.lt_or_ge j u.length with hj | hj
  · have hj' : j < v.length := by omega
    simp [List.getElem?_eq_getElem hj, List.getElem?_eq_getElem hj']
  · have hj' : v.length ≤ j := by omega
    simp [List.getElem?_eq_none hj, List.getElem?_eq_none hj']

theorem getD_vsub (u v : List α) (j : Nat) (h : u.length = v.length) :
    (vsub u v).getD j 0 = u.getD j 0 - v.getD j 0 := by
  unfold vsub
  simp only [List.getD_eq_getElem?_getD, List.getElem?_zipWith]
  rcases Nat.lt_or_ge j u.length with hj | hj
  · have hj' : j < v.length := by omega
    simp [List.getElem?_eq_getElem hj, List.getElem?_eq_getElem hj']
  · have hj' : v.length ≤ j := by omega
    simp [List.getElem?_eq_none hj, List.getElem?_eq_none hj']

theorem getD_matVec (n : Nat) (A : List (List α)) (u : List α) (r : Nat) :
    (matVec n A u).getD r 0 = if r < A.length then dotN n (A.getD r []) u else 0 := by
  unfold matVec
  simp only [List.getD_eq_getElem?_getD, List.getElem?_map]
  split
  · rename_i h; simp [List.getElem?_eq_getElem h]
  · rename_i h; simp [List.getElem?_eq_none (Nat.le_of_not_lt h)]

theorem dotN_eq (n : Nat) (row u : List α) :
    dotN n row u = ∑ j ∈ Finset.range n, row.getD j 0 * u.getD j 0 := sumRange_eq _ _

theorem scatterAt_not_mem {l : List Nat} {w : List α} {i : Nat} (h : i ∉ l) : scatterAt l w i = 0 := by
  rw [scatterAt_eq_pairSum]
  apply pairSum_eq_zero
  rintro ⟨a, x⟩ hp rfl
  exact h (List.of_mem_zip hp).1

theorem scatterAt_getElem {l : List Nat} {w : List α} (hnd : l.Nodup) (hl : l.length ≤ w.length)
    {k : Nat} (hk : k < l.length) : scatterAt l w l[k] = w.getD k 0 := by
  rw [scatterAt_eq_pairSum]
  apply pairSum_of_nodup
  · rwa [List.map_fst_zip hl]
  · have hk' : k < w.length := by omega
    rw [List.getD_eq_getElem _ _ hk']
    exact List.mem_iff_getElem.2 ⟨k, by simp; omega, by simp⟩

/-- **the D5 repair is what makes the values line up**: scattering the argsort-permuted values
over the increasing rows of `R_elim` is the same as scattering the caller's values over the
caller's indices. -/
theorem scatterAt_elim_sortedVals {n : Nat} {idx : List Nat} {vals : List α} (hn : ∀ i ∈ idx, i < n)
    (hnd : idx.Nodup) (hl : idx.length ≤ vals.length) (i : Nat) :
    scatterAt (elim n idx) (sortedVals idx vals) i = scatterAt idx vals i := by
  rw [scatterAt_eq_pairSum, scatterAt_eq_pairSum, ← sortedPairs_keys hn hnd hl]
  unfold sortedVals
  rw [zip_map_fst_snd']
  exact pairSum_perm (sortedPairs_perm idx vals) i

/-! ### the core of `complete_spec` -/

/-- entry `j` of `complete(u_f)` -/
theorem getD_complete (n : Nat) (fr el : List Nat) (uf vs : List α) {j : Nat} (hj : j < n) :
    (vadd (scatter n fr uf) (scatter n el vs)).getD j 0 = scatterAt fr uf j + scatterAt el vs j := by
  rw [getD_vadd _ _ _ (by simp [length_scatter]), getD_scatter _ _ _ hj, getD_scatter _ _ _ hj]

/-- row `r` of the restricted matrix applied to `u_f` is row `r` of `A` applied to `extend u_f` -/
theorem dotN_select (n : Nat) (row : List α) (fr : List Nat) (uf : List α) (hfr : ∀ i ∈ fr, i < n)
    (hl : uf.length = fr.length) :
    dotN fr.length (fr.map (fun c => row.getD c 0)) uf =
      ∑ j ∈ Finset.range n, row.getD j 0 * scatterAt fr uf j := by
  rw [dotN_eq]
  have h1 := sum_mul_pairSum n (fun j => row.getD j 0) (fr.zip uf)
    (fun p hp => hfr p.1 (List.of_mem_zip (a := p.1) (b := p.2) hp).1)
  simp only [← scatterAt_eq_pairSum] at h1
  rw [h1, sum_zip_eq (fun a x => row.getD a 0 * x) fr uf hl.symm]
  apply Finset.sum_congr rfl
  intro c hc
  have hc' : c < fr.length := Finset.mem_range.1 hc
  congr 1
  simp [List.getD_eq_getElem?_getD, List.getElem?_map, List.getElem?_eq_getElem hc']

/-- **core of `complete_spec`**, on the explicit data the constructor computes. -/
theorem complete_core (m n : Nat) (A : List (List α)) (bv : List α) (idx : List Nat) (vals : List α)
    (rows : List Nat) (hn : ∀ i ∈ idx, i < n) (hnd : idx.Nodup) (hl : idx.length ≤ vals.length)
    (hA : A.length = m) (hb : bv.length = m) (uf : List α) (huf : uf.length = (free n idx).length)
    (hsolve : matVec (free n idx).length (selectMatrix (free m rows) (free n idx) A) uf =
      gather (free m rows) (vsub bv (matVec n A (scatter n (elim n idx) (sortedVals idx vals))))) :
    let u := vadd (scatter n (free n idx) uf) (scatter n (elim n idx) (sortedVals idx vals))
    u.length = n ∧ (∀ k (hk : k < idx.length), u.getD idx[k] 0 = vals.getD k 0) ∧
    (∀ r, r < m → r ∉ rows → dotN n (A.getD r []) u = bv.getD r 0) := by
  intro u
  have hu : ∀ j, j < n → u.getD j 0 = scatterAt (free n idx) uf j + scatterAt idx vals j := by
    intro j hj
    rw [getD_complete n _ _ _ _ hj, scatterAt_elim_sortedVals hn hnd hl]
  refine ⟨by simp [u, vadd, length_scatter], ?_, ?_⟩
  · intro k hk
    have hlt : idx[k] < n := hn _ (List.getElem_mem hk)
    rw [hu _ hlt, scatterAt_not_mem (fun h => (mem_free.1 h).2 (List.getElem_mem hk)), zero_add,
      scatterAt_getElem hnd hl hk]
  · intro r hr hrows
    have hmem : r ∈ free m rows := mem_free.2 ⟨hr, hrows⟩
    -- the r-th restricted equation
    have hrow := (List.map_inj_left.1 (by
      simpa only [matVec, selectMatrix, gather, List.map_map] using hsolve)) r hmem
    simp only [Function.comp] at hrow
    have hg : ∀ j, j < n → (scatter n (elim n idx) (sortedVals idx vals)).getD j 0 = scatterAt idx vals j := by
      intro j hj
      rw [getD_scatter _ _ _ hj, scatterAt_elim_sortedVals hn hnd hl]
    rw [getD_vsub _ _ _ (by simp [hb, hA])] at hrow
    change _ = _ - (matVec n A _).getD r 0 at hrow
    rw [getD_matVec, if_pos (by omega)] at hrow
    have hsel := dotN_select n (A.getD r []) (free n idx) uf (fun i hi => (mem_free.1 hi).1) huf
    unfold entry at hrow
    rw [hsel] at hrow
    rw [dotN_eq] at hrow ⊢
    rw [Finset.sum_congr rfl (fun j hj => by rw [hu j (Finset.mem_range.1 hj)])]
    have hG : ∑ j ∈ Finset.range n, (A.getD r []).getD j 0 *
          (scatter n (elim n idx) (sortedVals idx vals)).getD j 0 =
        ∑ j ∈ Finset.range n, (A.getD r []).getD j 0 * scatterAt idx vals j :=
      Finset.sum_congr rfl (fun j hj => by rw [hg j (Finset.mem_range.1 hj)])
    rw [hG] at hrow
    simp only [mul_add, Finset.sum_add_distrib]
    rw [hrow]
    ring

/-! ### what a successful constructor call implies -/

theorem any_ge_false_iff {n : Nat} {l : List Nat} :
    (l.any (fun i => decide (n ≤ i))) = false ↔ ∀ i ∈ l, i < n := by
  simp [List.any_eq_false]

theorem build_inv {m n : Nat} {A : List (List α)} {b : ScalarOr α} {isArr : Bool} {idx : List Nat}
    {vals : List α} {er : Option (List Nat)} {S : Sys α}
    (hS : Sys.build m n A b isArr idx (.array vals) er = .ok S) :
    idx.length ≤ vals.length ∧ (∀ i ∈ idx, i < n) ∧ idx.Nodup ∧ (b.toList m).length = m ∧
    (∀ r, er = some r → ∀ i ∈ r, i < m) ∧ (er = none → n = m) ∧
    S = { m := m, n := n, rfree := free n idx, relim := elim n idx,
          rfreeV := free m (er.getD idx), relimV := elim m (er.getD idx), values := sortedVals idx vals,
          A := selectMatrix (free m (er.getD idx)) (free n idx) A,
          b := gather (free m (er.getD idx))
            (vsub (b.toList m) (matVec n A (scatter n (elim n idx) (sortedVals idx vals)))) } := by
  unfold Sys.build at hS
  simp only [valuesOf] at hS
  by_cases h1 : vals.length < idx.length
  · simp [h1] at hS
  simp only [h1, if_false] at hS
  by_cases h2 : (idx.any (fun i => decide (n ≤ i))) = true
  · simp [h2] at hS
  simp only [h2, Bool.false_eq_true, if_false] at hS
  have hn : ∀ i ∈ idx, i < n := any_ge_false_iff.1 (by simpa using h2)
  have hl : idx.length ≤ vals.length := by omega
  cases er with
  | none =>
    simp only [rowSets] at hS
    by_cases h3 : n = m
    · subst h3
      simp only [ne_eq, not_true_eq_false, if_false] at hS
      by_cases h4 : (elim n idx).length = (sortedVals idx vals).length
      · simp only [h4, not_true_eq_false, if_false] at hS
        by_cases h5 : (b.toList n).length = n
        · simp only [h5, not_true_eq_false, if_false] at hS
          rw [length_sortedVals hl] at h4
          refine ⟨hl, hn, nodup_of_elim_length h4, h5, by simp, fun _ => rfl, ?_⟩
          simpa using (Except.ok.inj hS).symm
        · simp [h5] at hS
      · simp [h4] at hS
    · simp [h3] at hS
  | some r =>
    simp only [rowSets] at hS
    by_cases h6 : (r.any (fun i => decide (m ≤ i))) = true
    · simp [h6] at hS
    simp only [h6, Bool.false_eq_true, if_false] at hS
    have hr : ∀ i ∈ r, i < m := any_ge_false_iff.1 (by simpa using h6)
    simp only [ne_eq, not_true_eq_false, if_false] at hS
    by_cases h4 : (elim n idx).length = (sortedVals idx vals).length
    · simp only [h4, not_true_eq_false, if_false] at hS
      by_cases h5 : (b.toList m).length = m
      · simp only [h5, not_true_eq_false, if_false] at hS
        rw [length_sortedVals hl] at h4
        refine ⟨hl, hn, nodup_of_elim_length h4, h5, ?_, by simp, ?_⟩
        · intro r' hr'; cases hr'; exact hr
        · simpa using (Except.ok.inj hS).symm
      · simp [h5] at hS
    · simp [h4] at hS

/-! ### constructor outcomes, restrict/extend laws -/

/-- the constructor succeeds on every valid input -/
theorem build_ok_core (m n : Nat) (A : List (List α)) (b : ScalarOr α) (isArr : Bool) (idx : List Nat)
    (vals : List α) (er : Option (List Nat)) (hn : ∀ i ∈ idx, i < n) (hnd : idx.Nodup)
    (hl : idx.length ≤ vals.length) (hb : (b.toList m).length = m)
    (her : ∀ r, er = some r → ∀ i ∈ r, i < m) (hsq : er = none → n = m) :
    Sys.build m n A b isArr idx (.array vals) er = .ok
        { m := m, n := n, rfree := free n idx, relim := elim n idx,
          rfreeV := free m (er.getD idx), relimV := elim m (er.getD idx), values := sortedVals idx vals,
          A := selectMatrix (free m (er.getD idx)) (free n idx) A,
          b := gather (free m (er.getD idx))
            (vsub (b.toList m) (matVec n A (scatter n (elim n idx) (sortedVals idx vals)))) } := by
  have h1 : ¬ vals.length < idx.length := by omega
  have h2 : (idx.any (fun i => decide (n ≤ i))) = false := any_ge_false_iff.2 hn
  have h4 : (elim n idx).length = (sortedVals idx vals).length := by
    rw [length_sortedVals hl, (elim_perm hn hnd).length_eq]
  unfold Sys.build
  simp only [valuesOf, h1, if_false, h2, Bool.false_eq_true]
  cases er with
  | none =>
    have := hsq rfl
    subst this
    simp [rowSets, h4, hb]
  | some r =>
    have h6 : (r.any (fun i => decide (m ≤ i))) = false := any_ge_false_iff.2 (her r rfl)
    simp [rowSets, h6, h4, hb]

/-- duplicate indices: `R_elim` has fewer rows than there are values → `ValueError` -/
theorem build_dup_error (m n : Nat) (A : List (List α)) (b : ScalarOr α) (isArr : Bool) (idx : List Nat)
    (vals : List α) (er : Option (List Nat)) (hn : ∀ i ∈ idx, i < n) (hdup : ¬ idx.Nodup)
    (hl : idx.length ≤ vals.length) (her : ∀ r, er = some r → ∀ i ∈ r, i < m) :
    Sys.build m n A b isArr idx (.array vals) er = .error .value := by
  have h1 : ¬ vals.length < idx.length := by omega
  have h2 : (idx.any (fun i => decide (n ≤ i))) = false := any_ge_false_iff.2 hn
  have h4 : (elim n idx).length ≠ (sortedVals idx vals).length := by
    rw [length_sortedVals hl]; exact Nat.ne_of_lt (elim_length_lt_of_dup hdup)
  unfold Sys.build
  simp only [valuesOf, h1, if_false, h2, Bool.false_eq_true]
  cases er with
  | none =>
    by_cases h3 : n = m
    · subst h3; simp [rowSets, h4]
    · simp [rowSets, h3]
  | some r =>
    have h6 : (r.any (fun i => decide (m ≤ i))) = false := any_ge_false_iff.2 (her r rfl)
    simp [rowSets, h6, h4]

/-- an index outside `[0, n)` → `IndexError` -/
theorem build_oor_error (m n : Nat) (A : List (List α)) (b : ScalarOr α) (isArr : Bool) (idx : List Nat)
    (vals : List α) (er : Option (List Nat)) (i : Nat) (hi : i ∈ idx) (hin : n ≤ i) :
    Sys.build m n A b isArr idx (.array vals) er = .error .index := by
  have h2 : (idx.any (fun i => decide (n ≤ i))) = true := by
    rw [List.any_eq_true]; exact ⟨i, hi, by simpa using hin⟩
  unfold Sys.build
  by_cases h1 : vals.length < idx.length
  · simp [valuesOf, h1]
  · simp [valuesOf, h1, h2]

/-- scalar `values` (with ndarray indices) give the same system as the constant array -/
theorem build_scalar_values (m n : Nat) (A : List (List α)) (b : ScalarOr α) (idx : List Nat) (v : α)
    (er : Option (List Nat)) :
    Sys.build m n A b true idx (.scalar v) er =
      Sys.build m n A b true idx (.array (List.replicate idx.length v)) er := by
  unfold Sys.build
  simp [valuesOf, sortedVals_replicate]

theorem getD_gather (l : List Nat) (u : List α) (k : Nat) (hk : k < l.length) :
    (gather l u).getD k 0 = u.getD l[k] 0 := by
  simp [gather, List.getD_eq_getElem?_getD, List.getElem?_map, List.getElem?_eq_getElem hk]

/-- `restrict (extend u_f) = u_f` -/
theorem gather_scatter {n : Nat} {l : List Nat} (hnd : l.Nodup) (hn : ∀ i ∈ l, i < n) (w : List α)
    (hl : w.length = l.length) : gather l (scatter n l w) = w := by
  apply List.ext_getElem (by simp [gather, hl])
  intro k h1 h2
  have hk : k < l.length := by simpa [gather] using h1
  have := getD_gather l (scatter n l w) k hk
  rw [List.getD_eq_getElem _ _ h1] at this
  rw [this, getD_scatter _ _ _ (hn _ (List.getElem_mem hk)), scatterAt_getElem hnd (by omega) hk,
    List.getD_eq_getElem _ _ h2]

/-- `extend (restrict u)` keeps the free entries and zeroes the rest -/
theorem scatterAt_gather {l : List Nat} (hnd : l.Nodup) (u : List α) (j : Nat) :
    scatterAt l (gather l u) j = if j ∈ l then u.getD j 0 else 0 := by
  by_cases hj : j ∈ l
  · obtain ⟨k, hk, rfl⟩ := List.mem_iff_getElem.1 hj
    rw [if_pos hj, scatterAt_getElem hnd (by simp [gather]) hk, getD_gather _ _ _ hk]
  · rw [if_neg hj, scatterAt_not_mem hj]

/-- `complete (restrict u) = u` for a vector that carries the prescribed values -/
theorem complete_gather {n : Nat} {idx : List Nat} {vals : List α} (hn : ∀ i ∈ idx, i < n)
    (hnd : idx.Nodup) (hl : idx.length ≤ vals.length) (u : List α) (hu : u.length = n)
    (hv : ∀ k (hk : k < idx.length), u.getD idx[k] 0 = vals.getD k 0) :
    vadd (scatter n (free n idx) (gather (free n idx) u)) (scatter n (elim n idx) (sortedVals idx vals)) = u := by
  apply List.ext_getElem (by simp [vadd, length_scatter, hu])
  intro j h1 h2
  have hj : j < n := by omega
  have := getD_complete n (free n idx) (elim n idx) (gather (free n idx) u) (sortedVals idx vals) hj
  rw [List.getD_eq_getElem _ _ h1] at this
  rw [this, scatterAt_elim_sortedVals hn hnd hl, scatterAt_gather (free_nodup n idx), ← List.getD_eq_getElem _ 0 h2]
  by_cases hm : j ∈ idx
  · obtain ⟨k, hk, rfl⟩ := List.mem_iff_getElem.1 hm
    rw [if_neg (fun h => (mem_free.1 h).2 hm), zero_add, scatterAt_getElem hnd hl hk, hv k hk]
  · rw [if_pos (mem_free.2 ⟨hj, hm⟩), scatterAt_not_mem hm, add_zero]

/-- entries of `restrict_matrix(B)`: `(R_v B R_fᵀ)[r'][c'] = B[rows_v[r']][rows_f[c']]` -/
theorem entry_selectMatrix (rv rf : List Nat) (B : List (List α)) (r c : Nat) (hr : r < rv.length)
    (hc : c < rf.length) : entry (selectMatrix rv rf B) r c = entry B rv[r] rf[c] := by
  simp [entry, selectMatrix, List.getD_eq_getElem?_getD, List.getElem?_map,
    List.getElem?_eq_getElem hr, List.getElem?_eq_getElem hc]

end ring

/-! ### `np.unique(·, return_index=True)` and `combine_bcs` -/

theorem le_foldl_max : ∀ (l : List Nat) (a : Nat), a ≤ l.foldl max a ∧ ∀ v ∈ l, v ≤ l.foldl max a
  | [], a => ⟨Nat.le_refl _, fun v hv => by simp at hv⟩
  | x :: xs, a => by
    obtain ⟨h1, h2⟩ := le_foldl_max xs (max a x)
    simp only [List.foldl_cons, List.mem_cons]
    refine ⟨Nat.le_trans (Nat.le_max_left a x) h1, ?_⟩
    rintro v (rfl | hv)
    · exact Nat.le_trans (Nat.le_max_right a v) h1
    · exact h2 v hv

theorem mem_unique {l : List Nat} {v : Nat} : v ∈ unique l ↔ v ∈ l := by
  unfold unique
  simp only [List.mem_filter, List.mem_range, List.contains_iff_mem, and_iff_right_iff_imp]
  intro hv
  have := (le_foldl_max l 0).2 v hv
  omega

theorem unique_pairwise (l : List Nat) : (unique l).Pairwise (· < ·) :=
  List.pairwise_lt_range.filter _

/-- `idxOf` is the position of the *first* occurrence -/
theorem idxOf_first : ∀ (l : List Nat) (a : Nat), a ∈ l →
    l.idxOf a < l.length ∧ l.getD (l.idxOf a) 0 = a ∧ ∀ q, q < l.idxOf a → l.getD q 0 ≠ a
  | [], a, h => by simp at h
  | b :: l, a, h => by
    by_cases hb : b = a
    · subst hb
      simp
    · have hm : a ∈ l := by
        rcases List.mem_cons.1 h with h | h
        · exact absurd h.symm hb
        · exact h
      obtain ⟨h1, h2, h3⟩ := idxOf_first l a hm
      rw [List.idxOf_cons_ne _ hb]
      refine ⟨by simpa using h1, by simpa using h2, ?_⟩
      intro q hq
      cases q with
      | zero => simpa using hb
      | succ q => simpa using h3 q (by omega)

theorem length_flatMap_eq {β : Type} : ∀ (bcs : List (List Nat × List β)),
    (∀ bc ∈ bcs, bc.1.length = bc.2.length) → (bcs.flatMap (·.1)).length = (bcs.flatMap (·.2)).length
  | [], _ => rfl
  | bc :: bcs, h => by
    simp only [List.flatMap_cons, List.length_append]
    rw [h bc (by simp), length_flatMap_eq bcs (fun b hb => h b (by simp [hb]))]

section
variable {β : Type} [Inhabited β]

theorem combineBcs_ok (bcs : List (List Nat × List β)) (h : ∀ bc ∈ bcs, bc.1.length = bc.2.length) :
    combineBcs bcs = .ok (unique (bcs.flatMap (·.1)),
      (uniqueIndex (bcs.flatMap (·.1))).map (fun k => (bcs.flatMap (·.2)).getD k default)) := by
  unfold combineBcs
  simp [length_flatMap_eq bcs h]

theorem combineBcs_inv {bcs : List (List Nat × List β)} {ui : List Nat} {uv : List β}
    (h : combineBcs bcs = .ok (ui, uv)) :
    (bcs.flatMap (·.1)).length = (bcs.flatMap (·.2)).length ∧ ui = unique (bcs.flatMap (·.1)) ∧
      uv = (uniqueIndex (bcs.flatMap (·.1))).map (fun k => (bcs.flatMap (·.2)).getD k default) := by
  unfold combineBcs at h
  by_cases hl : (bcs.flatMap (·.1)).length = (bcs.flatMap (·.2)).length
  · simp only [hl, ne_eq, not_true_eq_false, if_false] at h
    have := Except.ok.inj h
    exact ⟨hl, (Prod.mk.inj this).1.symm, (Prod.mk.inj this).2.symm⟩
  · simp only [ne_eq, hl, not_false_eq_true, if_true, reduceCtorEq] at h

end

/-- blocked numbering `i + j·N` (`bdindices + j*NN`) is injective on `i < N` -/
theorem blocked_inj {N i i' j j' : Nat} (hi : i < N) (hi' : i' < N) (h : i + j * N = i' + j' * N) :
    j = j' ∧ i = i' := by
  have h1 : (i + j * N) % N = i := by rw [Nat.add_mul_mod_self_right, Nat.mod_eq_of_lt hi]
  have h2 : (i' + j' * N) % N = i' := by rw [Nat.add_mul_mod_self_right, Nat.mod_eq_of_lt hi']
  have hii : i = i' := by rw [← h1, h, h2]
  subst hii
  have hN : 0 < N := by omega
  exact ⟨Nat.eq_of_mul_eq_mul_right hN (by omega), rfl⟩

/-! ### `_drop_nans` -/

theorem map_getD_range {γ : Type} (l : List γ) (d : γ) :
    (List.range l.length).map (fun k => l.getD k d) = l := by
  apply List.ext_getElem (by simp)
  intro k h1 h2
  simp [List.getD_eq_getElem?_getD, List.getElem?_eq_getElem h2]

/-- `_drop_nans` keeps exactly the positions whose value is not NaN, in order, and keeps index
and value of a position together. -/
theorem dropNans_spec {β : Type} (idx : List Nat) (vals : List (Option β)) (h : idx.length = vals.length) :
    ∃ ks : List Nat, ks.Sublist (List.range vals.length) ∧
      (∀ k, k ∈ ks ↔ k < vals.length ∧ (vals.getD k none).isSome) ∧
      (dropNans idx vals).1 = ks.map (fun k => idx.getD k 0) ∧
      (dropNans idx vals).2 = ks.map (fun k => vals.getD k none) := by
  unfold dropNans
  by_cases hn : vals.any Option.isNone = true
  · simp only [hn, if_true]
    refine ⟨_, List.filter_sublist, fun k => ?_, rfl, rfl⟩
    simp [List.mem_filter]
  · simp only [hn, Bool.false_eq_true, if_false]
    refine ⟨List.range vals.length, List.Sublist.refl _, fun k => ?_, ?_, ?_⟩
    · simp only [List.mem_range, iff_self_and]
      intro hk
      have hall : none ∉ vals := by simpa [List.any_eq_true] using hn
      rw [List.getD_eq_getElem _ _ hk]
      cases hv : vals[k] with
      | none => exact absurd (hv ▸ List.getElem_mem hk) hall
      | some _ => rfl
    · rw [← h]; exact (map_getD_range idx 0).symm
    · exact (map_getD_range vals none).symm

/-! ### `compute_initial_condition_01` -/

section field
open Pyiga.Slice
variable {α : Type} [Field α]

theorem getD_zipWith_of_lt {f : α → α → α} (r0 r1 : List α) (k : Nat) (h0 : k < r0.length)
    (h1 : k < r1.length) : (List.zipWith f r0 r1).getD k 0 = f (r0.getD k 0) (r1.getD k 0) := by
  simp [List.getD_eq_getElem?_getD, List.getElem?_zipWith, List.getElem?_eq_getElem h0,
    List.getElem?_eq_getElem h1]

theorem cramer_row0 {a b c d : α} (hD : a * d - b * c ≠ 0) (x y : α) :
    a * ((d * x - b * y) / (a * d - b * c)) + b * ((a * y - c * x) / (a * d - b * c)) = x := by
  have : a * ((d * x - b * y) / (a * d - b * c)) + b * ((a * y - c * x) / (a * d - b * c)) =
      x * (a * d - b * c) / (a * d - b * c) := by ring
  rw [this, mul_div_assoc, div_self hD, mul_one]

theorem cramer_row1 {a b c d : α} (hD : a * d - b * c ≠ 0) (x y : α) :
    c * ((d * x - b * y) / (a * d - b * c)) + d * ((a * y - c * x) / (a * d - b * c)) = y := by
  have : c * ((d * x - b * y) / (a * d - b * c)) + d * ((a * y - c * x) / (a * d - b * c)) =
      y * (a * d - b * c) / (a * d - b * c) := by ring
  rw [this, mul_div_assoc, div_self hD, mul_one]

variable [DecidableEq α]

/-- the closed-form 2×2 solve really solves: `[[a,b],[c,d]] · [x0;x1] = [r0;r1]` column-wise -/
theorem solve2_spec {a b c d : α} {r0 r1 x0 x1 : List α} (hlen : r0.length = r1.length)
    (h : solve2 a b c d r0 r1 = .ok (x0, x1)) :
    a * d - b * c ≠ 0 ∧ x0.length = r0.length ∧ x1.length = r0.length ∧
    ∀ k, k < r0.length → a * x0.getD k 0 + b * x1.getD k 0 = r0.getD k 0 ∧
      c * x0.getD k 0 + d * x1.getD k 0 = r1.getD k 0 := by
  unfold solve2 at h
  by_cases hdet : a * d - b * c = 0
  · simp [hdet] at h
  · simp only [hdet, if_false] at h
    obtain ⟨rfl, rfl⟩ := Prod.mk.inj (Except.ok.inj h)
    refine ⟨hdet, by simp [hlen], by simp [hlen], fun k hk => ?_⟩
    have hk1 : k < r1.length := by omega
    rw [getD_zipWith_of_lt _ _ _ hk hk1, getD_zipWith_of_lt _ _ _ hk hk1]
    exact ⟨cramer_row0 hdet _ _, cramer_row1 hdet _ _⟩

theorem initialCondition01_inv {N : List Nat} {bd : BdSpec} {a b c d : α} {c0 c1 : List α}
    {idx : List Nat} {vals : List α} (h : initialCondition01 N bd a b c d c0 c1 = .ok (idx, vals)) :
    ∃ ax side s0 s1 x0 x1, parseBdspec bd N.length = .ok (ax, side) ∧ c0.length = c1.length ∧
      solve2 a b c d c0 c1 = .ok (x0, x1) ∧
      sliceIndices ax (if side = 0 then 0 else -2) N none = .ok s0 ∧
      sliceIndices ax ((if side = 0 then 0 else -2) + 1) N none = .ok s1 ∧
      idx = s0 ++ s1 ∧ vals = x0 ++ x1 := by
  unfold initialCondition01 at h
  split at h
  · cases h
  · rename_i ax side hp
    split at h
    · cases h
    · rename_i hlen
      split at h
      · cases h
      · rename_i x0 x1 hs
        simp only at h
        split at h
        · cases h
        · rename_i s0 h0
          split at h
          · cases h
          · rename_i s1 h1
            obtain ⟨rfl, rfl⟩ := Prod.mk.inj (Except.ok.inj h)
            exact ⟨ax, side, s0, s1, x0, x1, hp, by simpa using hlen, hs, h0, h1, rfl, rfl⟩

end field
end Pyiga.Restrict
