/-
C18: `pad` on every tensor object; `__getitem__` on ndarray operands and on (nested) TensorSum objects by linearity.
-/
import Pyiga.Proofs.TensorNwayAll
import Pyiga.Proofs.TensorPad
import Pyiga.Proofs.TensorGetitemT

set_option linter.unusedSectionVars false
set_option linter.unusedSimpArgs false
set_option linter.unusedVariables false

namespace Pyiga.Tensor
open Pyiga.Index
variable {α : Type} [CommRing α]

/-- `pad(T, pad_width)` for every tensor object: `np.pad` of the expansion -/
theorem pad_spec (T T' : Ten α) (pw : List (Option (Nat × Nat))) (hw : T.WF) (h : T.pad pw = .ok T') :
    T'.WF ∧ T.asarray.pad (padWidths pw) = .ok T'.asarray := by
  simp only [Ten.pad] at h
  split at h
  · cases h
  · rename_i hl
    have hl : pw.length = T.shape.length := by simpa [Ten.ndim] using hl
    have h' : T.nway false (padOps pw T.shape) = .ok T' := h
    have hlen : (padOps (α := α) pw T.shape).length ≤ T.shape.length := by simp [padOps]
    obtain ⟨hw', hsh, he⟩ := nway_spec T T' (padOps pw T.shape) hw hlen h'
    rw [padOps_shape (α := α) pw T.shape hl] at hsh
    injection hsh with hsh
    refine ⟨hw', ?_⟩
    have hlen2 : (padWidths pw).length = T.asarray.ndim := by
      simp [padWidths, hl, Full.ndim, Ten.asarray]
    simp only [Full.pad]
    rw [if_pos hlen2]
    congr 1
    show Full.ofFn (padShape (padWidths pw) T.shape) (fun J => padEntry (padWidths pw) T.shape J T.asarray.get)
      = Full.ofFn T'.shape T'.entry
    rw [← hsh]
    refine ofFn_congr _ _ _ (fun I hI => ?_)
    rw [he I (by rw [← hsh]; exact hI)]
    exact (padOps_entry pw T.shape I T.asarray.get hl hI).symm

/-! ### indexing full arrays and sums -/

theorem take_asarray_full (A : Full α) (idx : List (List Nat)) (hidx : IdxOK idx A.shape) :
    (Ten.full A).asarray.take idx = A.take idx := by
  simp only [Full.take, Ten.asarray, Ten.shape, Ten.entry]
  exact ofFn_congr _ _ _ (fun J hJ => ofFn_get _ _ _ (pick_inBox idx _ J hidx hJ))

theorem squeeze_normal (A B : Full α) (ax : List Nat) (h : A.squeeze ax = .ok B) :
    Full.ofFn B.shape B.get = B := by
  simp only [Full.squeeze] at h
  split at h
  · injection h with h; subst h; exact ofFn_get_self _ _
  · cases h

/-- `ndarray.__getitem__` (ints, slices, at most one index list and then no ints) -/
theorem fullGetitem_spec (A : Full α) (I : List PyIndex) (r : Res α) (h : fullGetitem A I = .ok r) :
    ∃ nm, normalizeIndices I A.shape = .ok nm ∧ ((Ten.full A).asarray.take nm.idx).squeeze nm.singl = .ok r.asarray := by
  simp only [fullGetitem] at h
  split at h
  · cases h
  · split at h
    · cases h
    · obtain ⟨nm, hnm, h⟩ := bind_ok _ _ _ h
      obtain ⟨B, hB, h⟩ := bind_ok _ _ _ h
      obtain ⟨_, hidx, _, hstr, hs⟩ := normalizeIndices_ok I _ nm hnm
      refine ⟨nm, hnm, ?_⟩
      rw [take_asarray_full A nm.idx hidx, hB]
      congr 1
      split at h
      · rename_i hall
        injection h with h; subst h
        -- every axis is int-indexed: B is 0-dimensional
        have hBs : B.shape = [] := by
          simp only [Full.squeeze] at hB
          split at hB
          · injection hB with hB; subst hB
            simp only [ofFn_shape, Full.take]
            have hl : nm.idx.length = A.shape.length := IdxOK.length hidx
            exact dropAxes_all nm.singl _ (StrictFrom.nodup hstr)
              (fun p hp => by simpa [hl] using (hs p hp).1) (by simpa [hl, Full.ndim] using hall)
          · cases hB
        have hn := squeeze_normal _ B _ hB
        rw [hBs] at hn
        simp only [Res.asarray]
        rw [← hn]
        exact ofFn_congr _ _ _ (fun J hJ => by
          cases J with
          | nil => rfl
          | cons _ _ => simp [inBox] at hJ)
      · injection h with h; subst h
        simp only [Res.asarray, Ten.asarray, Ten.shape, Ten.entry]
        exact (squeeze_normal _ B _ hB).symm

end Pyiga.Tensor

namespace Pyiga.Tensor
open Pyiga.Index
variable {α : Type} [CommRing α]

mutual
/-- no `TensorProd` node anywhere inside -/
def Ten.NoProd : Ten α → Prop
  | .prod _ _ => False
  | .sum _ Xs => NoProdList Xs
  | _ => True
def NoProdList : List (Ten α) → Prop
  | [] => True
  | X :: Xs => X.NoProd ∧ NoProdList Xs
end

/-- selected-and-squeezed entry `K` of a full tensor (`0` outside the selection box) -/
def sqEntry (idx : List (List Nat)) (singl : List Nat) (A : Full α) (K : List Nat) : α :=
  (A.take idx).get (unsqueeze idx.length singl K)

theorem sq_eq (idx : List (List Nat)) (singl : List Nat) (A : Full α) :
    (A.take idx).squeeze singl =
      if singl.all (fun k => (idx.map List.length).getD k 0 = 1) then
        .ok (Full.ofFn (dropAxes singl (idx.map List.length)) (sqEntry idx singl A))
      else .error .value := by
  simp only [Full.squeeze, Full.take, ofFn_shape, sqEntry, Full.ndim, List.length_map]
  rfl

theorem sum_asarray_get (s : List Nat) : ∀ (Xs : List (Ten α)), AllShape s Xs → ∀ P,
    (Full.ofFn s (entrySum Xs)).get P = sumL (Xs.map (fun X => X.asarray.get P))
  | [], _, P => by
    by_cases hb : inBox P s = true
    · rw [ofFn_get _ _ _ hb]; rfl
    · rw [ofFn_get_out _ _ _ hb]; rfl
  | X :: Xr, h, P => by
    have ih := sum_asarray_get s Xr h.2 P
    simp only [List.map_cons, sumL_cons]
    rw [← ih]
    have hX : X.asarray = Full.ofFn s X.entry := by simp only [Ten.asarray, h.1]
    by_cases hb : inBox P s = true
    · rw [ofFn_get _ _ _ hb, hX, ofFn_get _ _ _ hb, ofFn_get _ _ _ hb]; simp only [entrySum]
    · rw [ofFn_get_out _ _ _ hb, hX, ofFn_get_out _ _ _ hb, ofFn_get_out _ _ _ hb]; ring

/-- selection + squeeze is linear over the terms of a TensorSum -/
theorem sqEntry_sum (idx : List (List Nat)) (singl : List Nat) (s : List Nat) (Xs : List (Ten α))
    (h : AllShape s Xs) (K : List Nat) :
    sqEntry idx singl (Ten.sum s Xs).asarray K = sumL (Xs.map (fun X => sqEntry idx singl X.asarray K)) := by
  simp only [sqEntry, Full.take]
  by_cases hb : inBox (unsqueeze idx.length singl K) (idx.map List.length) = true
  · rw [ofFn_get _ _ _ hb]
    have : (Ten.sum s Xs).asarray = Full.ofFn s (entrySum Xs) := rfl
    rw [this, sum_asarray_get s Xs h]
    refine sumL_map_congr _ _ _ (fun X _ => ?_)
    rw [ofFn_get _ _ _ hb]
  · rw [ofFn_get_out _ _ _ hb]
    rw [sumL_map_congr _ _ (fun _ => 0) (fun X _ => ofFn_get_out _ _ _ hb), sumL_map_zero]

theorem resTensors_asarray : ∀ (Ys : List (Res α)), (resTensors Ys).map Ten.asarray = Ys.map Res.asarray
  | [] => rfl
  | .t T :: Ys => by simp [resTensors, Res.asarray, resTensors_asarray Ys]
  | .s a :: Ys => by
    simp only [resTensors, List.map_cons, Res.asarray, resTensors_asarray Ys]
    congr 1
    simp only [Ten.asarray, Ten.shape, ofFn_shape, Ten.entry]
    exact ofFn_get_self _ _

theorem resScalars_all : ∀ (Ys : List (Res α)), Ys.all Res.isScalar = true →
    Ys.map Res.asarray = (resScalars Ys).map (fun a => Full.ofFn [] (fun _ => a))
  | [], _ => rfl
  | .s a :: Ys, h => by
    simp only [List.all_cons, Bool.and_eq_true] at h
    simp [resScalars, Res.asarray, resScalars_all Ys h.2]
  | .t _ :: Ys, h => by simp [Res.isScalar] at h

/-- per-term results: each is the selection + squeeze of the term's expansion; tensor results are well-formed -/
def SqAll (idx : List (List Nat)) (singl : List Nat) : List (Ten α) → List (Res α) → Prop
  | [], [] => True
  | X :: Xs, y :: Ys => (X.asarray.take idx).squeeze singl = .ok y.asarray ∧
      (∀ T', y = .t T' → T'.WF ∧ T'.NoProd) ∧ SqAll idx singl Xs Ys
  | _, _ => False

theorem sq_ok (idx : List (List Nat)) (singl : List Nat) (A B : Full α) (h : (A.take idx).squeeze singl = .ok B) :
    (singl.all (fun k => (idx.map List.length).getD k 0 = 1)) = true ∧
      B = Full.ofFn (dropAxes singl (idx.map List.length)) (sqEntry idx singl A) := by
  rw [sq_eq] at h
  split at h
  · rename_i hc
    injection h with h
    exact ⟨hc, h.symm⟩
  · cases h

theorem sqAll_sum (idx : List (List Nat)) (singl : List Nat) : ∀ (Xs : List (Ten α)) (Ys : List (Res α)),
    SqAll idx singl Xs Ys →
    (∀ y ∈ Ys, y.asarray.shape = dropAxes singl (idx.map List.length)) ∧
    (∀ T' ∈ resTensors Ys, T'.WF ∧ T'.NoProd) ∧
    ∀ K, inBox K (dropAxes singl (idx.map List.length)) = true →
      sumL (Xs.map (fun X => sqEntry idx singl X.asarray K)) = sumL (Ys.map (fun y => y.asarray.get K))
  | [], [], _ => ⟨fun y hy => by simp at hy, fun T hT => by simp [resTensors] at hT, fun K _ => rfl⟩
  | X :: Xs, y :: Ys, h => by
    obtain ⟨h1, h2, h3⟩ := h
    obtain ⟨_, hy⟩ := sq_ok idx singl _ _ h1
    obtain ⟨ih1, ih2, ih3⟩ := sqAll_sum idx singl Xs Ys h3
    refine ⟨fun z hz => ?_, fun T hT => ?_, fun K hK => ?_⟩
    · simp only [List.mem_cons] at hz
      rcases hz with rfl | hz
      · rw [hy]; rfl
      · exact ih1 z hz
    · cases y with
      | t T0 =>
        simp only [resTensors, List.mem_cons] at hT
        rcases hT with rfl | hT
        · exact h2 _ rfl
        · exact ih2 T hT
      | s a =>
        simp only [resTensors, List.mem_cons] at hT
        rcases hT with rfl | hT
        · exact ⟨trivial, trivial⟩
        · exact ih2 T hT
    · simp only [List.map_cons, sumL_cons]
      rw [ih3 K hK, hy, ofFn_get _ _ _ hK]
  | [], _ :: _, h => by simp [SqAll] at h
  | _ :: _, [], h => by simp [SqAll] at h

theorem wfList_of_mem : ∀ (Xs : List (Ten α)), (∀ X ∈ Xs, X.WF) → WFList Xs
  | [], _ => trivial
  | X :: Xs, h => ⟨h X (by simp), wfList_of_mem Xs (fun Y hY => h Y (by simp [hY]))⟩

theorem noProdList_of_mem : ∀ (Xs : List (Ten α)), (∀ X ∈ Xs, X.NoProd) → NoProdList Xs
  | [], _ => trivial
  | X :: Xs, h => ⟨h X (by simp), noProdList_of_mem Xs (fun Y hY => h Y (by simp [hY]))⟩

theorem entrySum_asarray (s : List Nat) : ∀ (Xs : List (Ten α)), AllShape s Xs → ∀ K, inBox K s = true →
    entrySum Xs K = sumL (Xs.map (fun X => X.asarray.get K))
  | [], _, _, _ => rfl
  | X :: Xs, h, K, hK => by
    simp only [entrySum, List.map_cons, sumL_cons]
    rw [entrySum_asarray s Xs h.2 K hK, asarray_get_inBox X K (by rw [h.1]; exact hK)]

mutual
/-- **`T[I]` for ndarray, Canonical, Tucker and arbitrarily nested TensorSum objects** -/
theorem getitem_spec : ∀ (T : Ten α) (I : List PyIndex) (r : Res α), T.WF → T.NoProd → T.getitem I = .ok r →
    ∃ nm, normalizeIndices I T.shape = .ok nm ∧ (T.asarray.take nm.idx).squeeze nm.singl = .ok r.asarray ∧
      (∀ T', r = .t T' → T'.WF ∧ T'.NoProd)
  | .full A, I, r, _, _, h => by
    simp only [Ten.getitem] at h
    obtain ⟨nm, a, b⟩ := fullGetitem_spec A I r h
    refine ⟨nm, a, b, fun T' hT => ?_⟩
    -- a tensor result of ndarray indexing is an ndarray
    simp only [fullGetitem] at h
    split at h
    · cases h
    · split at h
      · cases h
      · obtain ⟨_, _, h⟩ := bind_ok _ _ _ h
        obtain ⟨_, _, h⟩ := bind_ok _ _ _ h
        split at h <;> (injection h with h; subst h)
        · cases hT
        · injection hT with hT; subst hT; exact ⟨trivial, trivial⟩
  | .can Xs, I, r, hw, _, h => by
    simp only [Ten.getitem] at h
    obtain ⟨nm, a, b, c⟩ := canGetitem_spec Xs hw I r h
    refine ⟨nm, a, b, fun T' hT => ⟨(c T' hT).1, ?_⟩⟩
    have := (c T' hT).2
    cases T' <;> simp_all [Ten.isLeaf, Ten.NoProd]
  | .tucker Us X, I, r, hw, _, h => by
    simp only [Ten.getitem] at h
    obtain ⟨nm, a, b, c⟩ := tuckerGetitem_spec Us X hw I r h
    refine ⟨nm, a, b, fun T' hT => ⟨(c T' hT).1, ?_⟩⟩
    have := (c T' hT).2
    cases T' <;> simp_all [Ten.isLeaf, Ten.NoProd]
  | .prod _ _, _, _, _, hn, _ => by simp [Ten.NoProd] at hn
  | .sum s Xs, I, r, hw, hn, h => by
    obtain ⟨hne, hwl, hs⟩ := hw
    cases Xs with
    | nil => exact absurd rfl hne
    | cons X Xr =>
      simp only [Ten.getitem] at h
      obtain ⟨Ys, hYs, h⟩ := bind_ok _ _ _ h
      obtain ⟨nm, hnm, hall⟩ := getitemList_spec (X :: Xr) Ys I s hwl hn hs (by simp) hYs
      refine ⟨nm, hnm, ?_⟩
      obtain ⟨hsh, hwf, hent⟩ := sqAll_sum nm.idx nm.singl (X :: Xr) Ys hall
      -- the condition of squeeze holds (first term)
      have hc : (nm.singl.all (fun k => (nm.idx.map List.length).getD k 0 = 1)) = true := by
        cases Ys with
        | nil => simp [SqAll] at hall
        | cons y Yr => exact (sq_ok _ _ _ _ hall.1).1
      rw [sq_eq, if_pos hc]
      split at h
      · rename_i hsc
        injection h with h; subst h
        refine ⟨?_, fun T' hT => by cases hT⟩
        congr 1
        -- all results are scalars: the selection box is 0-dimensional
        have hmap := resScalars_all Ys hsc
        have hsh0 : dropAxes nm.singl (nm.idx.map List.length) = [] := by
          cases Ys with
          | nil => simp [SqAll] at hall
          | cons y Yr =>
            have := hsh y (by simp)
            cases y with
            | s a => simpa [Res.asarray] using this.symm
            | t _ => simp [Res.isScalar] at hsc
        simp only [Res.asarray, hsh0]
        refine ofFn_congr _ _ _ (fun K hK => ?_)
        rw [sqEntry_sum nm.idx nm.singl s (X :: Xr) hs K, hent K (by rw [hsh0]; exact hK)]
        have : Ys.map (fun y => y.asarray.get K) = (Ys.map Res.asarray).map (fun A => A.get K) := by
          rw [List.map_map]; rfl
        rw [this, hmap, List.map_map]
        have hK0 : K = [] := by
          cases K with
          | nil => rfl
          | cons _ _ => simp [inBox] at hK
        subst hK0
        congr 1
        have hid : ∀ a : α, ((fun A : Full α => A.get []) ∘ fun a => Full.ofFn [] fun _ => a) a = a :=
          fun a => by simp [Function.comp, Full.ofFn, inBox]
        rw [List.map_congr_left (fun a _ => hid a)]
        simp
      · obtain ⟨T', hT', h⟩ := bind_ok _ _ _ h
        injection h with h; subst h
        obtain ⟨Y, Yr, hYeq, rfl, hallsh⟩ := mkSum_ok _ _ hT'
        have hYsh : Y.shape = dropAxes nm.singl (nm.idx.map List.length) := by
          have hm : Y.asarray ∈ (resTensors Ys).map Ten.asarray := by rw [hYeq]; simp
          rw [resTensors_asarray] at hm
          obtain ⟨y, hy, hye⟩ := List.mem_map.1 hm
          have := hsh y hy
          rw [hye] at this
          exact this
        refine ⟨?_, fun T'' hT'' => ?_⟩
        · congr 1
          simp only [Res.asarray]
          have : (Ten.sum Y.shape (resTensors Ys)).asarray = Full.ofFn Y.shape (entrySum (resTensors Ys)) := rfl
          rw [this, hYsh]
          refine ofFn_congr _ _ _ (fun K hK => ?_)
          rw [sqEntry_sum nm.idx nm.singl s (X :: Xr) hs K, hent K hK,
            entrySum_asarray _ (resTensors Ys) hallsh K (by rw [hYsh]; exact hK)]
          have e1 : (resTensors Ys).map (fun X => X.asarray.get K) = ((resTensors Ys).map Ten.asarray).map (fun A => A.get K) := by
            rw [List.map_map]; rfl
          have e2 : Ys.map (fun y => y.asarray.get K) = (Ys.map Res.asarray).map (fun A => A.get K) := by
            rw [List.map_map]; rfl
          rw [e1, e2, resTensors_asarray]
        · injection hT'' with hT''; subst hT''
          refine ⟨⟨by rw [hYeq]; simp, wfList_of_mem _ (fun Z hZ => (hwf Z hZ).1), hallsh⟩, ?_⟩
          show NoProdList (resTensors Ys)
          exact noProdList_of_mem _ (fun Z hZ => (hwf Z hZ).2)
theorem getitemList_spec : ∀ (Xs : List (Ten α)) (Ys : List (Res α)) (I : List PyIndex) (s : List Nat),
    WFList Xs → NoProdList Xs → AllShape s Xs → Xs ≠ [] → getitemList Xs I = .ok Ys →
    ∃ nm, normalizeIndices I s = .ok nm ∧ SqAll nm.idx nm.singl Xs Ys
  | [], _, _, _, _, _, _, hne, _ => absurd rfl hne
  | X :: Xr, Ys, I, s, hw, hn, hs, _, h => by
    simp only [getitemList] at h
    obtain ⟨y, hy, h⟩ := bind_ok _ _ _ h
    obtain ⟨Yr, hYr, h⟩ := bind_ok _ _ _ h
    injection h with h; subst h
    obtain ⟨nm, hnm, hsq, hwf⟩ := getitem_spec X I y hw.1 hn.1 hy
    rw [hs.1] at hnm
    refine ⟨nm, hnm, hsq, hwf, ?_⟩
    cases Xr with
    | nil =>
      simp only [getitemList] at hYr
      injection hYr with hYr; subst hYr
      trivial
    | cons X2 Xr2 =>
      obtain ⟨nm2, hnm2, hall2⟩ := getitemList_spec (X2 :: Xr2) Yr I s hw.2 hn.2 hs.2 (by simp) hYr
      rw [hnm] at hnm2
      injection hnm2 with hnm2; subst hnm2
      exact hall2
end

end Pyiga.Tensor
