/-
`_apply_kronecker_dense` (reshape to `shape_in (+m)`, `apply_tprod`, reshape to `shape_out`) and the
"Kronecker matrix times vec" reading of `apply_tprod`.
-/
import Pyiga.Proofs.Tprod

namespace Pyiga.LA
open Pyiga.Index

section
variable {α : Type} [CommSemiring α]

theorem toSeq_append_singleton (I d : List Nat) (k m : Nat) (h : I.length = d.length) :
    toSeq (I ++ [k]) (d ++ [m]) = toSeq I d * m + k := by
  unfold toSeq
  rw [List.zip_append h, List.foldl_append]
  simp

theorem toSeq_single (s M : Nat) : toSeq [s] [M] = s := by simp [toSeq]

theorem colsOk_some : ∀ (ops : List (Op α)), ColsOk (ops.map some) (ops.map (·.n))
  | [] => trivial
  | B :: ops => ⟨fun B' h => by cases h; rfl, colsOk_some ops⟩

theorem rowsOf_some : ∀ (ops : List (Op α)), rowsOf (ops.map some) (ops.map (·.n)) = ops.map (·.m)
  | [] => rfl
  | B :: ops => by simp [rowsOf, rowOf, rowsOf_some ops]

theorem map_entOf_some (ops : List (Op α)) : (ops.map some).map entOf = ops.map (·.ent) := by
  induction ops with
  | nil => rfl
  | cons B ops ih => simp [entOf, ih]

/-- the three accepted right-hand-side shapes of `_apply_kronecker_dense` -/
theorem applyKroneckerDense_spec (ops : List (Op α)) (x : Tensor α) (tl : List Nat)
    (hx : x.shape = prod (ops.map (·.n)) :: tl) (htl : tl = [] ∨ ∃ m, tl = [m] ∧ 0 < m) :
    ∃ T, applyKroneckerDense ops x = .ok T ∧ T.shape = prod (ops.map (·.m)) :: tl ∧
      ∀ i k, Below i (ops.map (·.m)) → Below k tl →
        T.get (toSeq i (ops.map (·.m)) :: k)
          = boxSum (ops.map (·.n)) (fun j =>
              kronEntry (ops.map (·.ent)) i j * x.get (toSeq j (ops.map (·.n)) :: k)) := by
  set cols := ops.map (·.n) with hcols
  set rows := ops.map (·.m) with hrows
  have hc := colsOk_some ops
  rcases htl with rfl | ⟨m, rfl, hm⟩
  · -- (N,)
    obtain ⟨T0, h1, h2, h3⟩ := applyTprod_spec (ops.map some) (x.reshape cols) cols [] (by simp) hc
    rw [rowsOf_some, List.append_nil] at h2
    refine ⟨T0.reshape [prod rows], ?_, rfl, ?_⟩
    · unfold applyKroneckerDense
      simp only [hx, List.length_cons, List.length_nil, List.tail_cons]
      simp [h1, h2, ← hcols, ← hrows, Except.bind, bind, pure, Except.pure]
    · intro i k hi hk
      have hk' : k = [] := by cases k with
        | nil => rfl
        | cons a b => simp [Below] at hk
      subst hk'
      rw [Tensor.get_reshape T0 [prod rows] [toSeq i rows] i (by rw [toSeq_single, h2])]
      have := h3 i [] (by rw [rowsOf_some]; exact hi) trivial
      rw [List.append_nil] at this
      rw [this, map_entOf_some]
      apply boxSum_congr
      intro j
      rw [List.append_nil, Tensor.get_reshape x cols j [toSeq j cols] (by rw [hx, toSeq_single])]
  · rcases Nat.lt_or_ge 1 m with hgt | hle
    · -- (N, m), m > 1
      obtain ⟨T0, h1, h2, h3⟩ := applyTprod_spec (ops.map some) (x.reshape (cols ++ [m])) cols [m] (by simp) hc
      rw [rowsOf_some] at h2
      refine ⟨T0.reshape [prod rows, m], ?_, rfl, ?_⟩
      · unfold applyKroneckerDense
        simp only [hx, List.length_cons, List.length_nil, List.tail_cons, List.getD_cons_succ,
          List.getD_cons_zero]
        simp [h1, h2, hgt, prod_append, ← hcols, ← hrows, Except.bind, bind, pure, Except.pure]
      · intro i k hi hk
        match k, hk with
        | [k0], hk =>
          have hil : i.length = rows.length := below_length hi
          rw [Tensor.get_reshape T0 [prod rows, m] [toSeq i rows, k0] (i ++ [k0])
            (by rw [h2, toSeq_append_singleton _ _ _ _ hil, toSeq_pair])]
          rw [h3 i [k0] (by rw [rowsOf_some]; exact hi) hk, map_entOf_some]
          apply boxSum_congr_below
          intro j hj
          have hjl : j.length = cols.length := below_length hj
          rw [Tensor.get_reshape x (cols ++ [m]) (j ++ [k0]) [toSeq j cols, k0]
            (by rw [hx, toSeq_append_singleton _ _ _ _ hjl, toSeq_pair])]
    · -- (N, 1): the vector path, but shape_out keeps the trailing 1
      have hm1 : m = 1 := by omega
      subst hm1
      obtain ⟨T0, h1, h2, h3⟩ := applyTprod_spec (ops.map some) (x.reshape cols) cols [] (by simp) hc
      rw [rowsOf_some, List.append_nil] at h2
      refine ⟨T0.reshape [prod rows, 1], ?_, rfl, ?_⟩
      · unfold applyKroneckerDense
        simp only [hx, List.length_cons, List.length_nil, List.tail_cons, List.getD_cons_succ,
          List.getD_cons_zero]
        simp [h1, h2, ← hcols, ← hrows, Except.bind, bind, pure, Except.pure]
      · intro i k hi hk
        match k, hk with
        | [k0], hk =>
          have hk0 : k0 = 0 := by have := hk.1; omega
          subst hk0
          rw [Tensor.get_reshape T0 [prod rows, 1] [toSeq i rows, 0] i (by rw [h2, toSeq_pair, Nat.mul_one, Nat.add_zero])]
          have := h3 i [] (by rw [rowsOf_some]; exact hi) trivial
          rw [List.append_nil] at this
          rw [this, map_entOf_some]
          apply boxSum_congr
          intro j
          rw [List.append_nil, Tensor.get_reshape x cols j [toSeq j cols, 0] (by rw [hx, toSeq_pair]; simp)]

/-! ### `apply_tprod` as "Kronecker matrix times vec" -/

theorem pos_of_prod_pos : ∀ (ds : List Nat), 0 < prod ds → ∀ m ∈ ds, 0 < m
  | [], _, _, hm => by simp at hm
  | d :: ds, h, m, hm => by
    simp only [prod_cons] at h
    have hd : 0 < d := Nat.pos_of_mul_pos_right h
    have hP : 0 < prod ds := Nat.pos_of_mul_pos_left h
    rcases List.mem_cons.1 hm with rfl | hm'
    · exact hd
    · exact pos_of_prod_pos ds hP m hm'

theorem fromSeq_cons (J d : Nat) (ds : List Nat) (h : J < d * prod ds) :
    fromSeq J (d :: ds) = (J / prod ds) :: fromSeq (J % prod ds) ds := by
  have hP : 0 < prod ds := by
    rcases Nat.eq_zero_or_pos (prod ds) with h0 | h0
    · rw [h0] at h; simp at h
    · exact h0
  have hb : Below ((J / prod ds) :: fromSeq (J % prod ds) ds) (d :: ds) :=
    ⟨by rw [Nat.div_lt_iff_lt_mul hP]; exact h, fromSeq_below _ _ (pos_of_prod_pos ds hP)⟩
  have hval : toSeq ((J / prod ds) :: fromSeq (J % prod ds) ds) (d :: ds) = J := by
    rw [toSeq_cons _ _ _ _ (fromSeq_length _ _), toSeq_fromSeq _ _ (Nat.mod_lt _ hP)]
    exact Nat.div_add_mod' J (prod ds)
  rw [← hval, fromSeq_toSeq _ _ hb, hval]

theorem sum_range_mul_eq (d P : Nat) (g : Nat → Nat → α) :
    ∑ J ∈ Finset.range (d * P), g (J / P) (J % P) = ∑ a ∈ Finset.range d, ∑ b ∈ Finset.range P, g a b := by
  induction d with
  | zero => simp
  | succ d ih =>
    rw [Nat.succ_mul, Finset.sum_range_add, ih, Finset.sum_range_succ]
    congr 1
    apply Finset.sum_congr rfl
    intro b hb
    have hb' : b < P := Finset.mem_range.1 hb
    have hP : 0 < P := by omega
    rw [Nat.mul_comm d P, Nat.mul_add_div hP, Nat.mul_add_mod, Nat.div_eq_of_lt hb', Nat.mod_eq_of_lt hb',
      Nat.add_zero]

theorem boxSum_eq_flat : ∀ (dims : List Nat) (f : List Nat → α),
    boxSum dims f = ∑ J ∈ Finset.range (prod dims), f (fromSeq J dims)
  | [], f => by simp [boxSum, fromSeq, fromSeqRev]
  | d :: ds, f => by
    simp only [boxSum, sumRange_eq_sum, prod_cons]
    have h1 : ∀ a, boxSum ds (fun js => f (a :: js))
        = ∑ b ∈ Finset.range (prod ds), f (a :: fromSeq b ds) := fun a => boxSum_eq_flat ds _
    simp only [h1]
    rw [← sum_range_mul_eq d (prod ds) (fun a b => f (a :: fromSeq b ds))]
    apply Finset.sum_congr rfl
    intro J hJ
    rw [fromSeq_cons J d ds (Finset.mem_range.1 hJ)]

theorem applyTprod_kron_vec (ops : List (Option (Op α))) (A : Tensor α) (cols : List Nat)
    (hs : A.shape = cols) (hc : ColsOk ops cols) :
    ∃ T, applyTprod ops A = .ok T ∧ T.shape = rowsOf ops cols ∧
      ∀ I, I < prod (rowsOf ops cols) →
        T.data.getD I 0 = ∑ J ∈ Finset.range (prod cols),
          kronEntry (ops.map entOf) (fromSeq I (rowsOf ops cols)) (fromSeq J cols) * A.data.getD J 0 := by
  obtain ⟨T, h1, h2, h3⟩ := applyTprod_spec ops A cols [] (by simpa using hs) hc
  rw [List.append_nil] at h2
  refine ⟨T, h1, h2, ?_⟩
  intro I hI
  have hb : Below (fromSeq I (rowsOf ops cols)) (rowsOf ops cols) :=
    fromSeq_below _ _ (pos_of_prod_pos _ (by omega))
  have hget : T.data.getD I 0 = T.get (fromSeq I (rowsOf ops cols) ++ []) := by
    rw [List.append_nil]
    unfold Tensor.get
    rw [h2, toSeq_fromSeq _ _ hI]
  rw [hget, h3 _ [] hb trivial, boxSum_eq_flat]
  apply Finset.sum_congr rfl
  intro J hJ
  rw [List.append_nil]
  unfold Tensor.get
  rw [hs, toSeq_fromSeq _ _ (Finset.mem_range.1 hJ)]

end
end Pyiga.LA
