/-
L-hier: additional laws of the mesh hierarchy used by the admissibility proof.
-/
import Pyiga.Proofs.HierLaws

namespace Pyiga.Hier

/-- laws about unions and the nesting of the spline spaces (beyond `Laws`) -/
structure LawsAdm (O : Ops) (VC VF : Nat → Idx → Prop) (par : Idx → Idx) : Prop where
  /-- `support` of a set of functions is the union of the single supports -/
  mem_support : ∀ lv fs c, c ∈ O.support lv fs ↔ ∃ f ∈ fs, c ∈ O.support lv [f]
  /-- `cell_parent` is the image under `par` -/
  mem_parent : ∀ lv cells c, c ∈ O.parent lv cells ↔ ∃ q ∈ cells, c = par q
  /-- nestedness: every fine function has a coarse parent whose support contains (the parents of)
  its support cells -/
  has_parent : ∀ k g, VF (k + 1) g → ∃ f, VF k f ∧ ∀ c ∈ O.support (k + 1) [g], par c ∈ O.support k [f]

end Pyiga.Hier
