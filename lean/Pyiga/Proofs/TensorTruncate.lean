/-
C18: `TuckerTensor.truncate(k)`: slicing the factor matrices and the core to the leading ranks `k` is the Tucker
tensor whose core is zeroed outside the leading box.
-/
import Pyiga.Proofs.TensorOps

set_option linter.unusedSectionVars false
set_option linter.unusedSimpArgs false
set_option linter.unusedVariables false

namespace Pyiga.Tensor
open Pyiga.Index
variable {α : Type} [CommRing α]

theorem sumN_trunc (a b : Nat) (h : a ≤ b) (f : Nat → α) (hz : ∀ j, a ≤ j → j < b → f j = 0) :
    sumN b f = sumN a f := by
  have : b = a + (b - a) := by omega
  rw [this, sumN_add, sumN_eq_zero _ _ (fun j hj => hz (a + j) (by omega) (by omega)), add_zero]

/-- the leading box `min(k_j, n_j)` -/
def minBox (k s : List Nat) : List Nat := (k.zip s).map (fun p => min p.1 p.2)

/-- the core with everything outside the leading box `k` set to zero -/
def Full.mask (X : Full α) (k : List Nat) : Full α :=
  Full.ofFn X.shape (fun J => if inBox J (minBox k X.shape) then X.get J else 0)

theorem truncate_entry : ∀ (Us : List (Mat α)) (k I : List Nat) (x : List Nat → α),
    k.length = Us.length → I.length = Us.length →
    nwayEntry (((Us.zip k).map (fun p => p.1.takeCols p.2)).map some) I x
      = nwayEntry (Us.map some) I (fun J => if inBox J (minBox k (Us.map (·.cols))) then x J else 0)
  | [], [], [], x, _, _ => by simp [nwayEntry, minBox]
  | U :: Us, m :: k, i :: I, x, hk, hI => by
    simp only [List.zip_cons_cons, List.map_cons, nwayEntry, minBox]
    have hc : (U.takeCols m).cols = min m U.cols := rfl
    rw [hc, sumN_trunc (min m U.cols) U.cols (Nat.min_le_right _ _)]
    · refine sumN_congr _ _ _ (fun j hj => ?_)
      have ih := truncate_entry Us k I (fun J => x (j :: J)) (by simpa using hk) (by simpa using hI)
      have : (fun J => if inBox (j :: J) (min m U.cols :: (k.zip (Us.map (·.cols))).map (fun p => min p.1 p.2)) then x (j :: J) else 0)
          = fun J => if inBox J (minBox k (Us.map (·.cols))) then x (j :: J) else 0 := by
        funext J; simp [inBox_cons, hj, minBox] <;> rfl
      rw [this, ← ih]; rfl
    · intro j hj1 hj2
      have : (fun J => if inBox (j :: J) (min m U.cols :: (k.zip (Us.map (·.cols))).map (fun p => min p.1 p.2)) then x (j :: J) else 0)
          = fun _ => (0 : α) := by
        funext J
        have : ¬ j < min m U.cols := by omega
        simp [inBox_cons, this]
      rw [this, nwayEntry_zero, mul_zero]
  | [], _ :: _, _, _, h, _ => by simp at h
  | _ :: _, [], _, _, h, _ => by simp at h
  | [], [], _ :: _, _, _, h => by simp at h
  | _ :: _, _ :: _, [], _, _, h => by simp at h

theorem takeCols_cols : ∀ (Us : List (Mat α)) (k : List Nat), k.length = Us.length →
    ((Us.zip k).map (fun p => p.1.takeCols p.2)).map (·.cols) = minBox k (Us.map (·.cols))
  | [], [], _ => rfl
  | U :: Us, m :: k, h => by
    simp only [List.zip_cons_cons, List.map_cons, minBox]
    have := takeCols_cols Us k (by simpa using h)
    simp only [minBox] at this
    rw [this]; rfl
  | [], _ :: _, h => by simp at h
  | _ :: _, [], h => by simp at h

theorem takeCols_rows : ∀ (Us : List (Mat α)) (k : List Nat), k.length = Us.length →
    ((Us.zip k).map (fun p => p.1.takeCols p.2)).map (·.rows) = Us.map (·.rows)
  | [], [], _ => rfl
  | U :: Us, m :: k, h => by
    simp only [List.zip_cons_cons, List.map_cons]
    rw [takeCols_rows Us k (by simpa using h)]; rfl
  | [], _ :: _, h => by simp at h
  | _ :: _, [], h => by simp at h

/-- **`TuckerTensor.truncate(k)`** expands to the Tucker tensor with the same factors and the core zeroed outside the
leading box `k` (ranks larger than the core are clamped, as Python slices do). -/
theorem truncate_spec (Us : List (Mat α)) (X : Full α) (k : List Nat) (T' : Ten α)
    (hw : (Ten.tucker Us X).WF) (h : (Ten.tucker Us X).truncate k = .ok T') :
    T'.WF ∧ T'.asarray = (Ten.tucker Us (X.mask k)).asarray := by
  have hw' : Us.map (·.cols) = X.shape := hw
  simp only [Ten.truncate] at h
  split at h
  · cases h
  · rename_i hk
    have hk : k.length = Us.length := by omega
    obtain ⟨rfl, _⟩ := mkTucker_ok _ _ _ h
    have hcols := takeCols_cols Us k hk
    refine ⟨by show _ = (X.restrict k).shape; rw [hcols, hw']; rfl, ?_⟩
    simp only [Ten.asarray, Ten.shape, takeCols_rows Us k hk]
    refine ofFn_congr _ _ _ (fun I hI => ?_)
    have hIl : I.length = Us.length := by have := inBox_length hI; simpa using this
    simp only [Ten.entry, tuckerEntry]
    have hlenT : I.length = ((Us.zip k).map (fun p => p.1.takeCols p.2)).length := by
      simp [List.length_zip, hk, hIl]
    rw [tuckerEntry_congr _ I (X.restrict k).get X.get hlenT (fun J hJ => by
      rw [hcols, hw'] at hJ
      simp only [Full.restrict]
      exact ofFn_get _ _ _ hJ)]
    rw [truncate_entry Us k I X.get hk hIl]
    refine tuckerEntry_congr Us I _ _ hIl (fun J hJ => ?_)
    simp only [Full.mask]
    rw [ofFn_get _ _ _ (by rw [← hw']; exact hJ), hw']

end Pyiga.Tensor
