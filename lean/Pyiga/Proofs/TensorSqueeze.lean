/-
C18: index bookkeeping of `squeeze` (dropping axes, re-inserting zeros) and the product identity behind
`CanonicalTensor.squeeze`: the singleton factors multiplied into the first remaining factor.
-/
import Pyiga.Proofs.TensorNorm
import Pyiga.Proofs.TensorOps
import Mathlib.Algebra.BigOperators.Group.List.Basic

set_option linter.unusedSectionVars false
set_option linter.unusedSimpArgs false
set_option linter.unusedVariables false

namespace Pyiga.Tensor
open Pyiga.Index

/-! ### axis lists -/

theorem dropAxesGo_map {β γ : Type} (f : β → γ) (ax : List Nat) : ∀ (k : Nat) (l : List β),
    (dropAxesGo k ax l).map f = dropAxesGo k ax (l.map f)
  | _, [] => rfl
  | k, x :: l => by
    simp only [dropAxesGo, List.map_cons]
    split <;> simp [dropAxesGo_map f ax (k + 1) l]

theorem dropAxesGo_nil {β : Type} : ∀ (k : Nat) (l : List β), dropAxesGo k [] l = l
  | _, [] => rfl
  | k, x :: l => by simp [dropAxesGo, dropAxesGo_nil (k + 1) l]

theorem unsqueezeGo_nil_ax : ∀ (d k : Nat) (I : List Nat), I.length = d → unsqueezeGo d [] k I = I
  | 0, _, I, h => by
    have : I = [] := List.eq_nil_of_length_eq_zero h
    subst this; rfl
  | d + 1, k, [], h => by simp at h
  | d + 1, k, i :: I, h => by
    simp [unsqueezeGo, unsqueezeGo_nil_ax d (k + 1) I (by simpa using h)]

theorem unsqueezeGo_nil_I : ∀ (d k : Nat) (ax : List Nat), unsqueezeGo d ax k [] = List.replicate d 0
  | 0, _, _ => rfl
  | d + 1, k, ax => by
    simp only [unsqueezeGo, List.replicate_succ]
    split <;> simp [unsqueezeGo_nil_I d (k + 1) ax]

/-- positions `k, k+1, …` of `l` counted: dropped + kept = all -/
theorem dropAxesGo_length {β : Type} (ax : List Nat) : ∀ (k : Nat) (l : List β),
    (dropAxesGo k ax l).length + ((List.range' k l.length).filter (fun j => ax.contains j)).length = l.length
  | _, [] => rfl
  | k, x :: l => by
    have ih := dropAxesGo_length ax (k + 1) l
    simp only [dropAxesGo, List.length_cons, List.range'_succ, List.filter_cons]
    split <;> simp_all <;> omega

/-- the kept positions, by index -/
theorem dropAxesGo_eq_filter {β : Type} (ax : List Nat) (dflt : β) : ∀ (k : Nat) (l : List β),
    ((List.range' k l.length).filter (fun j => !ax.contains j)).map (fun j => l.getD (j - k) dflt) = dropAxesGo k ax l
  | _, [] => rfl
  | k, x :: l => by
    have ih := dropAxesGo_eq_filter ax dflt (k + 1) l
    have hmap : ∀ (L : List Nat), (∀ j ∈ L, k + 1 ≤ j) →
        L.map (fun j => (x :: l).getD (j - k) dflt) = L.map (fun j => l.getD (j - (k + 1)) dflt) := by
      intro L hL
      refine List.map_congr_left (fun j hj => ?_)
      have : j - k = (j - (k + 1)) + 1 := by have := hL j hj; omega
      rw [this, List.getD_cons_succ]
    have hge : ∀ j ∈ (List.range' (k + 1) l.length).filter (fun j => !ax.contains j), k + 1 ≤ j := by
      intro j hj
      have := (List.mem_filter.1 hj).1
      rw [List.mem_range'_1] at this; exact this.1
    simp only [dropAxesGo, List.length_cons, List.range'_succ, List.filter_cons]
    by_cases hc : ax.contains k = true
    · simp only [hc, Bool.not_true, Bool.false_eq_true, ↓reduceIte]
      rw [hmap _ hge, ih]
    · have hc' : ax.contains k = false := by simpa using hc
      simp only [hc', Bool.not_false, Bool.false_eq_true, ↓reduceIte, List.map_cons, Nat.sub_self,
        List.getD_cons_zero]
      rw [hmap _ hge, ih]

theorem filter_contains_perm (pos : List Nat) (d : Nat) (hn : pos.Nodup) (hlt : ∀ p ∈ pos, p < d) :
    ((List.range d).filter (fun j => pos.contains j)).Perm pos := by
  refine (List.perm_ext_iff_of_nodup (List.Nodup.sublist List.filter_sublist List.nodup_range) hn).2 (fun a => ?_)
  simp only [List.mem_filter, List.mem_range, List.contains_iff_mem]
  exact ⟨fun h => h.2, fun h => ⟨hlt a h, h⟩⟩

/-- squeezing away every axis leaves none -/
theorem dropAxes_all {β : Type} (pos : List Nat) (l : List β) (hn : pos.Nodup) (hlt : ∀ p ∈ pos, p < l.length)
    (hlen : pos.length = l.length) : dropAxes pos l = [] := by
  have h1 := dropAxesGo_length pos 0 l
  have h2 := (filter_contains_perm pos l.length hn hlt).length_eq
  rw [← List.range_eq_range'] at h1
  have : (dropAxesGo 0 pos l).length = 0 := by omega
  exact List.eq_nil_of_length_eq_zero this

/-- the re-inserted multi-index is in the box when the squeezed axes are singletons -/
theorem unsqueezeGo_inBox (ax : List Nat) : ∀ (s : List Nat) (k : Nat) (K : List Nat),
    (∀ j, j < s.length → ax.contains (k + j) = true → s.getD j 0 = 1) →
    inBox K (dropAxesGo k ax s) = true → inBox (unsqueezeGo s.length ax k K) s = true
  | [], _, K, _, h => by
    cases K with
    | nil => rfl
    | cons _ _ => simp [dropAxesGo, inBox] at h
  | n :: s, k, K, h1, h => by
    have h1' : ∀ j, j < s.length → ax.contains (k + 1 + j) = true → s.getD j 0 = 1 := by
      intro j hj hc
      have := h1 (j + 1) (by simp; omega) (by rw [← hc]; congr 1; omega)
      simpa using this
    simp only [dropAxesGo] at h
    simp only [List.length_cons, unsqueezeGo]
    by_cases hc : ax.contains k = true
    · have hn : n = 1 := by simpa using h1 0 (by simp) (by simpa using hc)
      simp only [hc, ↓reduceIte] at h ⊢
      simp only [inBox_cons]
      exact ⟨by omega, unsqueezeGo_inBox ax s (k + 1) K h1' h⟩
    · have hc' : ax.contains k = false := by simpa using hc
      simp only [hc', Bool.false_eq_true, ↓reduceIte] at h ⊢
      cases K with
      | nil => simp [inBox] at h
      | cons i K =>
        simp only [inBox_cons] at h ⊢
        exact ⟨h.1, unsqueezeGo_inBox ax s (k + 1) K h1' h.2⟩

/-! ### the product identity of `CanonicalTensor.squeeze` -/
section Can
variable {α : Type} [CommRing α]

theorem prodL_eq_prod : ∀ (l : List α), prodL l = l.prod
  | [] => rfl
  | a :: l => by simp [prodL_eq_prod l]

/-- product of the entries `[0, r]` of the factors at squeezed positions `k, k+1, …` -/
def singP (ax : List Nat) (r : Nat) : Nat → List (Mat α) → α
  | _, [] => 1
  | k, X :: Xs => if ax.contains k then X.get 0 r * singP ax r (k + 1) Xs else singP ax r (k + 1) Xs

/-- a rank-one term at a re-inserted index splits into the squeezed factors and the remaining term -/
theorem canTerm_unsqueeze (ax : List Nat) (r : Nat) : ∀ (Xs : List (Mat α)) (k : Nat) (K : List Nat),
    K.length = (dropAxesGo k ax Xs).length →
    canTerm Xs (unsqueezeGo Xs.length ax k K) r = singP ax r k Xs * canTerm (dropAxesGo k ax Xs) K r
  | [], _, K, _ => by simp [unsqueezeGo, canTerm, singP, dropAxesGo]
  | X :: Xs, k, K, hK => by
    simp only [List.length_cons, unsqueezeGo, dropAxesGo, singP] at hK ⊢
    by_cases hc : ax.contains k = true
    · simp only [hc, ↓reduceIte] at hK ⊢
      have ih := canTerm_unsqueeze ax r Xs (k + 1) K hK
      simp only [canTerm, List.zip_cons_cons, List.map_cons, prodL_cons] at ih ⊢
      rw [ih]; ring
    · have hc' : ax.contains k = false := by simpa using hc
      simp only [hc', Bool.false_eq_true, ↓reduceIte] at hK ⊢
      cases K with
      | nil => simp at hK
      | cons i K =>
        have ih := canTerm_unsqueeze ax r Xs (k + 1) K (by simpa using hK)
        simp only [canTerm, List.zip_cons_cons, List.map_cons, prodL_cons] at ih ⊢
        rw [ih]; ring

theorem singP_eq_filter (ax : List Nat) (r : Nat) (dflt : Mat α) : ∀ (Xs : List (Mat α)) (k : Nat),
    singP ax r k Xs = prodL (((List.range' k Xs.length).filter (fun j => ax.contains j)).map
      (fun j => (Xs.getD (j - k) dflt).get 0 r))
  | [], _ => rfl
  | X :: Xs, k => by
    have ih := singP_eq_filter ax r dflt Xs (k + 1)
    have hmap : ∀ (L : List Nat), (∀ j ∈ L, k + 1 ≤ j) →
        L.map (fun j => ((X :: Xs).getD (j - k) dflt).get 0 r) = L.map (fun j => (Xs.getD (j - (k + 1)) dflt).get 0 r) := by
      intro L hL
      refine List.map_congr_left (fun j hj => ?_)
      have : j - k = (j - (k + 1)) + 1 := by have := hL j hj; omega
      rw [this, List.getD_cons_succ]
    have hge : ∀ j ∈ (List.range' (k + 1) Xs.length).filter (fun j => ax.contains j), k + 1 ≤ j := by
      intro j hj
      have := (List.mem_filter.1 hj).1
      rw [List.mem_range'_1] at this; exact this.1
    simp only [singP, List.length_cons, List.range'_succ, List.filter_cons]
    by_cases hc : ax.contains k = true
    · simp only [hc, ↓reduceIte, List.map_cons, Nat.sub_self, List.getD_cons_zero, prodL_cons]
      rw [hmap _ hge, ih]
    · have hc' : ax.contains k = false := by simpa using hc
      simp only [hc', Bool.false_eq_true, ↓reduceIte]
      rw [hmap _ hge, ih]

/-- `factors` of `CanonicalTensor.squeeze` (833-835): product over the given axes in the given order -/
theorem factors_eq_singP (pos : List Nat) (r : Nat) (dflt : Mat α) (Xs : List (Mat α)) (hn : pos.Nodup)
    (hlt : ∀ p ∈ pos, p < Xs.length) :
    prodL (pos.map (fun p => (Xs.getD p dflt).get 0 r)) = singP pos r 0 Xs := by
  rw [singP_eq_filter pos r dflt Xs 0, prodL_eq_prod, prodL_eq_prod, ← List.range_eq_range']
  simp only [Nat.sub_zero]
  exact ((filter_contains_perm pos Xs.length hn hlt).map _).prod_eq.symm

theorem canTerm_mulRow (Y : Mat α) (Ys : List (Mat α)) (f : Nat → α) (K : List Nat) (r : Nat) (hK : K ≠ []) :
    canTerm (Y.mulRow f :: Ys) K r = f r * canTerm (Y :: Ys) K r := by
  cases K with
  | nil => exact absurd rfl hK
  | cons i K => simp [canTerm, Mat.mulRow]; ring
end Can

end Pyiga.Tensor
