/-
Helper lemmas for L-ml: the `ml_nonzero_nd` odometer refines the layout
specification; the specification is the lexicographic Cartesian product of the
level patterns (which is what the nested loops of `ml_nonzero_2d/3d` spell out).
-/
import Pyiga.Proofs.Index
import Pyiga.Model.MLMatrix

namespace Pyiga.ML
open Pyiga.Index

/-- entries selected on every level by the position list `μ` -/
def sel (pats : List Pattern) (μ : List Nat) : List (Nat × Nat) :=
  List.zipWith (fun (pat : Pattern) (m : Nat) => pat.getD m (0,0)) pats μ

def selI (pats : List Pattern) (μ : List Nat) : List Nat := (sel pats μ).map (·.1)
def selJ (pats : List Pattern) (μ : List Nat) : List Nat := (sel pats μ).map (·.2)

@[simp] theorem sel_cons (p : Pattern) (ps : List Pattern) (c : Nat) (cs : List Nat) :
    sel (p :: ps) (c :: cs) = p.getD c (0,0) :: sel ps cs := rfl
@[simp] theorem sel_nil_left (μ : List Nat) : sel [] μ = [] := rfl
@[simp] theorem sel_nil_right (ps : List Pattern) : sel ps [] = [] := by simp [sel]

/-- canonical odometer state for the position list `μ` -/
def stateAt (S : MLStructure) (μ : List Nat) : Odo :=
  { cur := μ, bi := selI S.bidx μ, bj := selJ S.bidx μ }

theorem entryAt_eq (S : MLStructure) (μ : List Nat) :
    S.entryAt μ = (toSeq (selI S.bidx μ) S.rows, toSeq (selJ S.bidx μ) S.cols) := rfl

/-! ### one increment -/

theorem odoStepRev_eq : ∀ (pats : List Pattern) (cs : List Nat), cs.length = pats.length →
    odoStepRev cs (selI pats cs) (selJ pats cs) pats =
      (incrRev cs (pats.map List.length)).map (fun cs' => (cs', selI pats cs', selJ pats cs'))
  | [], [], _ => rfl
  | [], _ :: _, h => by simp at h
  | _ :: _, [], h => by simp at h
  | pat :: pats, c :: cs, h => by
    have hl : cs.length = pats.length := by simpa using h
    have ih := odoStepRev_eq pats cs hl
    simp only [selI, selJ, sel_cons, List.map_cons, odoStepRev, incrRev]
    by_cases hc : c + 1 < pat.length
    · simp [hc, selI, selJ]
    · simp only [hc, if_false]
      cases pats with
      | nil =>
        have : cs = [] := by simpa using hl
        subst this
        simp [incrRev]
      | cons p2 ps =>
        simp only [selI, selJ] at ih
        simp only []
        rw [ih]
        simp [Option.map_map, Function.comp_def, selI, selJ]

theorem sel_reverse : ∀ (pats : List Pattern) (μ : List Nat), μ.length = pats.length →
    sel pats.reverse μ.reverse = (sel pats μ).reverse := by
  intro pats μ h
  unfold sel
  rw [List.reverse_zipWith (by omega)]

theorem odoStep_stateAt (S : MLStructure) (μ : List Nat) (h : μ.length = S.bidx.length) :
    odoStep S (stateAt S μ) = (incr μ S.NN).map (stateAt S) := by
  unfold odoStep stateAt incr MLStructure.NN
  simp only [selI, selJ, ← List.map_reverse]
  rw [← sel_reverse _ _ h]
  have := odoStepRev_eq S.bidx.reverse μ.reverse (by simp [h])
  simp only [selI, selJ] at this
  rw [this]
  simp only [Option.map_map, List.map_reverse]
  cases hq : incrRev μ.reverse (List.map List.length S.bidx).reverse with
  | none => rfl
  | some cs' =>
    have hlen : cs'.length = S.bidx.length := by
      have := incrRev_length _ _ _ hq
      simpa [h] using this
    simp only [Option.map_some, Function.comp]
    congr 1
    have e := sel_reverse S.bidx cs'.reverse (by simpa using hlen)
    rw [List.reverse_reverse] at e
    simp [e]
where
  incrRev_length : ∀ (cs ns cs' : List Nat), incrRev cs ns = some cs' → cs'.length = cs.length
    | [], _, _, h => by simp [incrRev] at h
    | _ :: _, [], _, h => by simp [incrRev] at h
    | c :: cs, n :: ns, cs', h => by
      simp only [incrRev] at h
      by_cases hc : c + 1 < n
      · simp [hc] at h; subst h; simp
      · simp only [hc, if_false] at h
        cases hq : incrRev cs ns with
        | none => simp [hq] at h
        | some r =>
          simp [hq] at h; subst h
          simp [incrRev_length cs ns r hq]

/-! ### the whole loop -/

theorem odoStates_eq (S : MLStructure) (hL : S.bidx.length = S.NN.length) :
    ∀ (fuel m : Nat), m + fuel ≤ S.nnz → 0 < fuel →
      odoStates S fuel (stateAt S (fromSeq m S.NN)) =
        (List.range' m fuel).map (fun k => stateAt S (fromSeq k S.NN))
  | 0, _, _, h => by omega
  | fuel + 1, m, hm, _ => by
    have hlen : (fromSeq m S.NN).length = S.bidx.length := by rw [fromSeq_length, hL]
    simp only [odoStates, List.range'_succ, List.map_cons]
    rw [odoStep_stateAt S _ hlen]
    rcases Nat.eq_zero_or_pos fuel with h0 | hpos
    · subst h0
      rcases Nat.lt_or_ge (m + 1) S.nnz with hlt | hge
      · rw [incr_fromSeq _ _ hlt]; simp [odoStates]
      · have : m + 1 = S.nnz := by omega
        rw [incr_fromSeq_last _ _ this]; simp
    · have hlt : m + 1 < S.nnz := by omega
      rw [incr_fromSeq _ _ hlt]
      simp only [Option.map_some]
      rw [odoStates_eq S hL fuel (m + 1) (by omega) hpos]

theorem sel_zeros : ∀ (ps : List Pattern),
    sel ps ((ps.map List.length).map (fun _ => 0)) = ps.map (fun p => p.getD 0 (0,0))
  | [] => rfl
  | p :: ps => by simp only [List.map_cons, sel_cons, sel_zeros ps]

theorem odoInit_eq (S : MLStructure) : odoInit S false = stateAt S (fromSeq 0 S.NN) := by
  rw [fromSeq_zero]
  unfold odoInit stateAt selI selJ MLStructure.NN
  rw [sel_zeros]
  simp [List.map_map, Function.comp_def]

/-- **odometer refinement**: the repaired `ml_nonzero_nd` loop emits exactly the
layout specification, for every number of levels and every pattern. -/
theorem nonzeroNd_eq_spec (S : MLStructure) (lower : Bool) :
    nonzeroNd S lower false = S.nonzeroSpec lower := by
  unfold nonzeroNd MLStructure.nonzeroSpec
  by_cases h0 : S.nnz = 0
  · simp [h0, MLStructure.lowerFilter]
  · rw [if_neg h0, odoInit_eq,
      odoStates_eq S (by simp [MLStructure.NN]) S.nnz 0 (by omega) (by omega)]
    simp only [List.map_map, List.range_eq_range']
    rfl

/-! ### the specification is the lexicographic product of the patterns -/

/-- lexicographic Cartesian product of the level patterns -/
def product : List Pattern → List (List (Nat × Nat))
  | [] => [[]]
  | p :: ps => p.flatMap (fun e => (product ps).map (e :: ·))

theorem flatMap_congr' {α β} {l : List α} {f g : α → List β} (h : ∀ a ∈ l, f a = g a) :
    l.flatMap f = l.flatMap g := by
  induction l with
  | nil => rfl
  | cons x xs ih =>
    simp only [List.flatMap_cons]
    rw [h x (by simp), ih (fun a ha => h a (by simp [ha]))]

theorem range_mul_map {β} (n P : Nat) (g : Nat → β) :
    (List.range (n * P)).map g =
      (List.range n).flatMap (fun a => (List.range P).map (fun r => g (a * P + r))) := by
  induction n with
  | zero => simp
  | succ n ih =>
    rw [Nat.succ_mul, List.range_add, List.map_append, ih, List.range_succ, List.flatMap_append]
    simp [List.map_map, Function.comp_def]

theorem fromSeq_cons (a r n : Nat) (ns : List Nat) (hr : r < prod ns) :
    fromSeq (a * prod ns + r) (n :: ns) = (a % n) :: fromSeq r ns := by
  have hP : 0 < prod ns := by omega
  unfold fromSeq
  rw [List.reverse_cons]
  have key : ∀ (ms : List Nat) (x : Nat), x < prod ms →
      fromSeqRev (a * prod ms + x) (ms ++ [n]) = fromSeqRev x ms ++ [a % n] := by
    intro ms
    induction ms with
    | nil => intro x hx; simp at hx; subst hx; simp [fromSeqRev]
    | cons m ms ih =>
      intro x hx
      have hm : 0 < m := by
        rcases Nat.eq_zero_or_pos m with h0 | h0
        · simp [h0] at hx
        · exact h0
      simp only [List.cons_append, fromSeqRev, prod_cons]
      have e1 : (a * (m * prod ms) + x) % m = x % m := by
        rw [show a * (m * prod ms) = m * (a * prod ms) by
          rw [← Nat.mul_assoc, Nat.mul_comm a m, Nat.mul_assoc], Nat.mul_add_mod]
      have e2 : (a * (m * prod ms) + x) / m = a * prod ms + x / m := by
        rw [show a * (m * prod ms) = m * (a * prod ms) by
          rw [← Nat.mul_assoc, Nat.mul_comm a m, Nat.mul_assoc], Nat.mul_add_div hm]
      rw [e1, e2, ih (x / m) (by rw [Nat.div_lt_iff_lt_mul hm]; simpa [Nat.mul_comm] using hx)]
  rw [← prod_reverse ns, key ns.reverse r (by rwa [prod_reverse])]
  simp

theorem spec_eq_product : ∀ (pats : List Pattern),
    (List.range (prod (pats.map List.length))).map (fun m => sel pats (fromSeq m (pats.map List.length)))
      = product pats
  | [] => by simp [product, fromSeq, fromSeqRev, prod]
  | p :: ps => by
    have ih := spec_eq_product ps
    simp only [List.map_cons, prod_cons, product]
    rw [range_mul_map]
    have hp : p = (List.range p.length).map (fun a => p.getD a (0,0)) := by
      apply List.ext_getElem
      · simp
      · intro i h1 h2; simp [List.getD_eq_getElem?_getD, List.getElem?_eq_getElem h1]
    conv => rhs; rw [hp]
    rw [List.flatMap_map]
    apply flatMap_congr'
    intro a ha
    have ha' : a < p.length := by simpa using ha
    rw [← ih, List.map_map]
    apply List.map_congr_left
    intro r hr
    have hr' : r < prod (ps.map List.length) := by simpa using hr
    simp only [Function.comp]
    rw [fromSeq_cons _ _ _ _ hr', Nat.mod_eq_of_lt ha']
    rfl

theorem nonzeroSpec_eq_product (S : MLStructure) (lower : Bool) :
    S.nonzeroSpec lower = MLStructure.lowerFilter lower
      ((product S.bidx).map (fun es => (toSeq (es.map (·.1)) S.rows, toSeq (es.map (·.2)) S.cols))) := by
  unfold MLStructure.nonzeroSpec MLStructure.nnz MLStructure.NN
  rw [← spec_eq_product, List.map_map]
  rfl

/-! ### nested loops -/

theorem nonzero2d_eq_spec (b1 b2 : Pattern) (m1 n1 m2 n2 : Nat) (lower : Bool) :
    nonzero2d b1 b2 m2 n2 lower =
      MLStructure.nonzeroSpec { bs := [(m1, n1), (m2, n2)], bidx := [b1, b2] } lower := by
  rw [nonzeroSpec_eq_product]
  unfold nonzero2d
  congr 1
  simp [product, List.map_flatMap, List.map_map, Function.comp_def, toSeq, MLStructure.rows,
    MLStructure.cols, ← List.map_eq_flatMap]

theorem nonzero3d_eq_spec (b1 b2 b3 : Pattern) (m1 n1 m2 n2 m3 n3 : Nat) (lower : Bool) :
    nonzero3d b1 b2 b3 m2 n2 m3 n3 lower =
      MLStructure.nonzeroSpec { bs := [(m1, n1), (m2, n2), (m3, n3)], bidx := [b1, b2, b3] } lower := by
  rw [nonzeroSpec_eq_product]
  unfold nonzero3d
  congr 1
  simp [product, List.map_flatMap, List.map_map, Function.comp_def, toSeq, MLStructure.rows,
    MLStructure.cols, ← List.map_eq_flatMap]

/-! ### membership: the support of the Kronecker product -/

/-- `es` picks one stored entry from every level pattern -/
def AllMem : List (Nat × Nat) → List Pattern → Prop
  | [], [] => True
  | e :: es, p :: ps => e ∈ p ∧ AllMem es ps
  | _, _ => False

theorem mem_product : ∀ (pats : List Pattern) (es : List (Nat × Nat)),
    es ∈ product pats ↔ AllMem es pats
  | [], [] => by simp [product, AllMem]
  | [], _ :: _ => by simp [product, AllMem]
  | p :: ps, [] => by simp [product, AllMem]
  | p :: ps, e :: es => by
    simp only [product, List.mem_flatMap, List.mem_map, AllMem]
    constructor
    · rintro ⟨e', he, t, ht, h⟩
      cases h
      exact ⟨he, (mem_product ps _).1 ht⟩
    · rintro ⟨he, ht⟩
      exact ⟨e, he, es, (mem_product ps _).2 ht, rfl⟩

end Pyiga.ML
