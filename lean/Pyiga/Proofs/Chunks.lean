/-
C08 `chunks_partition`: `chunk_tasks` cuts a list into consecutive slices; the index and result
arrays are cut at the same places; the workers' write-sets are pairwise disjoint, so every
interleaving of their writes yields the sequential result.
-/
import Pyiga.Model.Assembler
import Mathlib.Data.List.Perm.Basic
import Mathlib.Data.List.Nodup
import Mathlib.Tactic.Linarith

namespace Pyiga.Asm

variable {α β : Type}

def numChunks (len k : Nat) : Nat := (len + (len / k + 1) - 1) / (len / k + 1)

theorem chunkTasks_length (l : List α) (k : Nat) : (chunkTasks l k).length = numChunks l.length k := by
  simp [chunkTasks, numChunks]

/-- slices of width `n > 0` concatenate to a prefix -/
theorem slices_flatten (l : List α) (n : Nat) (m : Nat) :
    ((List.range m).map (fun c => (l.drop (c * n)).take n)).flatten = l.take (m * n) := by
  induction m with
  | zero => simp
  | succ m ih =>
    rw [List.range_succ, List.map_append, List.flatten_append, ih]
    simp only [List.map_cons, List.map_nil, List.flatten_cons, List.flatten_nil, List.append_nil]
    rw [Nat.succ_mul, List.take_add]

theorem numChunks_mul_ge (len k : Nat) : len ≤ numChunks len k * (len / k + 1) := by
  unfold numChunks
  have hn : 0 < len / k + 1 := Nat.succ_pos _
  have := Nat.lt_mul_div_succ (len + (len / k + 1) - 1) hn
  -- len + n - 1 < n * ((len+n-1)/n + 1) = n*q + n
  rw [Nat.mul_add, Nat.mul_one] at this
  rw [Nat.mul_comm]
  omega

theorem chunkTasks_flatten (l : List α) (k : Nat) : (chunkTasks l k).flatten = l := by
  unfold chunkTasks
  simp only
  rw [slices_flatten]
  apply List.take_of_length_le
  exact numChunks_mul_ge l.length k

theorem numChunks_le (len k : Nat) (hk : 0 < k) : numChunks len k ≤ k := by
  unfold numChunks
  have hn : 0 < len / k + 1 := Nat.succ_pos _
  rw [Nat.div_le_iff_le_mul_add_pred hn]
  have h1 : len < k * (len / k + 1) := by
    have := Nat.lt_mul_div_succ len hk
    simpa using this
  rw [Nat.mul_comm k] at h1
  omega

theorem chunkTasks_getD (l : List α) (k c : Nat) (hc : c < numChunks l.length k) :
    (chunkTasks l k).getD c [] = (l.drop (c * (l.length / k + 1))).take (l.length / k + 1) := by
  unfold chunkTasks
  simp only
  rw [List.getD_eq_getElem?_getD, List.getElem?_map, List.getElem?_range (by simpa [numChunks] using hc)]
  rfl

theorem chunkTasks_same_cuts (l : List α) (l' : List β) (h : l.length = l'.length) (k : Nat) :
    (chunkTasks l k).map List.length = (chunkTasks l' k).map List.length := by
  unfold chunkTasks
  simp only [List.map_map, h]
  apply List.map_congr_left
  intro c _
  simp [h]

theorem multiEntries_eq (e : Nat → Nat → α) (idx : List (Nat × Nat)) (threads : Nat) :
    multiEntries e idx threads = idx.map (fun p => e p.1 p.2) := by
  unfold multiEntries
  split
  · rfl
  · rw [← List.map_flatten, chunkTasks_flatten]

theorem chunkTasks_chunk_length (l : List α) (k c : Nat) (hc : c < numChunks l.length k) :
    0 < ((chunkTasks l k).getD c []).length ∧ ((chunkTasks l k).getD c []).length ≤ l.length / k + 1 := by
  rw [chunkTasks_getD l k c hc]
  simp only [List.length_take, List.length_drop]
  have hn : 0 < l.length / k + 1 := Nat.succ_pos _
  have hlt : c * (l.length / k + 1) < l.length := by
    unfold numChunks at hc
    rw [Nat.lt_div_iff_mul_lt hn] at hc
    have hcomm : c * (l.length / k + 1) = (l.length / k + 1) * c := Nat.mul_comm _ _
    omega
  omega

/-! ### writes to pairwise distinct positions commute -/

theorem applyWrites_append (mem : Nat → α) (ws us : List (Nat × α)) :
    applyWrites mem (ws ++ us) = applyWrites (applyWrites mem ws) us := by
  simp [applyWrites, List.foldl_append]

theorem applyWrites_not_mem (mem : Nat → α) (ws : List (Nat × α)) (s : Nat)
    (h : s ∉ ws.map (·.1)) : applyWrites mem ws s = mem s := by
  induction ws generalizing mem with
  | nil => rfl
  | cons w ws ih =>
    simp only [List.map_cons, List.mem_cons, not_or] at h
    show applyWrites (fun s => if s = w.1 then w.2 else mem s) ws s = mem s
    rw [ih _ h.2]
    simp [h.1]

theorem applyWrites_mem (mem : Nat → α) (ws : List (Nat × α)) (hnd : (ws.map (·.1)).Nodup)
    (w : Nat × α) (hw : w ∈ ws) : applyWrites mem ws w.1 = w.2 := by
  induction ws generalizing mem with
  | nil => simp at hw
  | cons v vs ih =>
    simp only [List.map_cons, List.nodup_cons] at hnd
    show applyWrites (fun s => if s = v.1 then v.2 else mem s) vs w.1 = w.2
    rcases List.mem_cons.1 hw with rfl | hw'
    · rw [applyWrites_not_mem _ _ _ hnd.1]
      simp
    · exact ih _ hnd.2 hw'

theorem applyWrites_perm (mem : Nat → α) (ws ws' : List (Nat × α)) (hp : ws.Perm ws')
    (hnd : (ws.map (·.1)).Nodup) : applyWrites mem ws = applyWrites mem ws' := by
  have hnd' : (ws'.map (·.1)).Nodup := (hp.map _).nodup_iff.1 hnd
  funext s
  by_cases hs : s ∈ ws.map (·.1)
  · obtain ⟨w, hw, rfl⟩ := List.mem_map.1 hs
    rw [applyWrites_mem mem ws hnd w hw, applyWrites_mem mem ws' hnd' w (hp.mem_iff.1 hw)]
  · have hs' : s ∉ ws'.map (·.1) := fun h => hs ((hp.map _).mem_iff.2 h)
    rw [applyWrites_not_mem _ _ _ hs, applyWrites_not_mem _ _ _ hs']

def allWorkerWrites (e : Nat → Nat → α) (idx : List (Nat × Nat)) (threads : Nat) : List (Nat × α) :=
  (List.range (numChunks idx.length threads)).flatMap (workerWrites e idx threads)

theorem workerWrites_fst (e : Nat → Nat → α) (idx : List (Nat × Nat)) (threads c : Nat) :
    (workerWrites e idx threads c).map (·.1) =
      List.range' (c * (idx.length / threads + 1)) (((idx.drop (c * (idx.length / threads + 1))).take (idx.length / threads + 1)).length) := by
  unfold workerWrites
  simp only [List.map_map]
  generalize ((idx.drop (c * (idx.length / threads + 1))).take (idx.length / threads + 1)) = ch
  generalize c * (idx.length / threads + 1) = b
  rw [List.range'_eq_map_range]
  have h1 : (List.map ((fun x => x.1) ∘ fun (p : (Nat × Nat) × Nat) => (b + p.2, e p.1.1 p.1.2)) ch.zipIdx)
      = List.map (fun i => b + i) (ch.zipIdx.map Prod.snd) := by
    rw [List.map_map]; rfl
  rw [h1, List.zipIdx_map_snd, List.range_eq_range']

theorem workerWrites_snd (e : Nat → Nat → α) (idx : List (Nat × Nat)) (threads c : Nat) :
    (workerWrites e idx threads c).map (·.2) =
      ((idx.drop (c * (idx.length / threads + 1))).take (idx.length / threads + 1)).map (fun p => e p.1 p.2) := by
  unfold workerWrites
  simp only [List.map_map]
  generalize ((idx.drop (c * (idx.length / threads + 1))).take (idx.length / threads + 1)) = ch
  have h1 : (List.map ((fun x => x.2) ∘ fun (p : (Nat × Nat) × Nat) => (c * (idx.length / threads + 1) + p.2, e p.1.1 p.1.2)) ch.zipIdx)
      = List.map (fun p => e p.1 p.2) (ch.zipIdx.map Prod.fst) := by
    rw [List.map_map]; rfl
  rw [h1, List.zipIdx_map_fst]

theorem allWorkerWrites_values (e : Nat → Nat → α) (idx : List (Nat × Nat)) (threads : Nat) :
    (allWorkerWrites e idx threads).map (·.2) = idx.map (fun p => e p.1 p.2) := by
  unfold allWorkerWrites
  rw [List.map_flatMap]
  simp only [workerWrites_snd]
  rw [List.flatMap_def, ← chunkTasks_length idx threads]
  have : (List.range (chunkTasks idx threads).length).map (fun c => ((idx.drop (c * (idx.length / threads + 1))).take (idx.length / threads + 1)).map (fun p => e p.1 p.2))
      = (chunkTasks idx threads).map (fun ch => ch.map (fun p => e p.1 p.2)) := by
    unfold chunkTasks
    simp [List.map_map, Function.comp_def]
  rw [this, ← List.map_flatten, chunkTasks_flatten]

/-- concatenated `range'` pieces of consecutive slices -/
theorem ranges_flatten (len n : Nat) (hn : 0 < n) (m : Nat) :
    ((List.range m).map (fun c => List.range' (c * n) (min n (len - c * n)))).flatten = List.range (min (m * n) len) := by
  induction m with
  | zero => simp
  | succ m ih =>
    rw [List.range_succ, List.map_append, List.flatten_append, ih]
    simp only [List.map_cons, List.map_nil, List.flatten_cons, List.flatten_nil, List.append_nil]
    rw [List.range_eq_range', List.range_eq_range']
    by_cases h : m * n ≤ len
    · rw [Nat.min_eq_left h]
      have : List.range' 0 (m * n) ++ List.range' (m * n) (min n (len - m * n)) = List.range' 0 (m * n + min n (len - m * n)) := by
        rw [show List.range' (m * n) (min n (len - m * n)) = List.range' (0 + m * n) (min n (len - m * n)) by rw [Nat.zero_add],
          List.range'_append_1]
      rw [this]
      congr 1
      rw [Nat.succ_mul]
      omega
    · have h' : len < m * n := by omega
      have e1 : min (m * n) len = len := by omega
      have e2 : len - m * n = 0 := by omega
      have e3 : min ((m + 1) * n) len = len := by rw [Nat.succ_mul]; omega
      rw [e1, e2, e3]
      simp

theorem allWorkerWrites_positions (e : Nat → Nat → α) (idx : List (Nat × Nat)) (threads : Nat) :
    (allWorkerWrites e idx threads).map (·.1) = List.range idx.length := by
  unfold allWorkerWrites
  rw [List.map_flatMap]
  simp only [workerWrites_fst, List.length_take, List.length_drop]
  rw [List.flatMap_def, ranges_flatten idx.length (idx.length / threads + 1) (Nat.succ_pos _)]
  rw [Nat.min_eq_right (numChunks_mul_ge idx.length threads)]

theorem threads_schedule_independent (e : Nat → Nat → α) (idx : List (Nat × Nat)) (threads : Nat)
    (ws' : List (Nat × α)) (hp : (allWorkerWrites e idx threads).Perm ws') (mem : Nat → α) (s : Nat)
    (hs : s < idx.length) :
    applyWrites mem ws' s = e (idx.getD s (0, 0)).1 (idx.getD s (0, 0)).2 := by
  have hpos := allWorkerWrites_positions e idx threads
  have hval := allWorkerWrites_values e idx threads
  have hnd : ((allWorkerWrites e idx threads).map (·.1)).Nodup := by rw [hpos]; exact List.nodup_range
  rw [← applyWrites_perm mem _ _ hp hnd]
  -- the s-th write is (s, e idx[s])
  have hlen : (allWorkerWrites e idx threads).length = idx.length := by
    have := congrArg List.length hpos; simpa using this
  have hs' : s < (allWorkerWrites e idx threads).length := by omega
  set w := (allWorkerWrites e idx threads)[s] with hw
  have hw1 : w.1 = s := by
    have := congrArg (fun l => l[s]?) hpos
    simp only [List.getElem?_map, List.getElem?_range hs, List.getElem?_eq_getElem hs', Option.map_some] at this
    simpa [hw] using this
  have hw2 : w.2 = e (idx.getD s (0, 0)).1 (idx.getD s (0, 0)).2 := by
    have := congrArg (fun l => l[s]?) hval
    simp only [List.getElem?_map, List.getElem?_eq_getElem hs', List.getElem?_eq_getElem hs, Option.map_some] at this
    rw [List.getD_eq_getElem?_getD, List.getElem?_eq_getElem hs]
    simpa [hw] using this
  have := applyWrites_mem mem _ hnd w (List.getElem_mem hs')
  rw [hw1] at this
  rw [this, hw2]

end Pyiga.Asm
