/-
L-hier: two-scale support inclusion.  The children (`KV.funChildren`) of a B-spline on one level
are B-splines of the refined level whose mesh support lies inside the support of the parent.
-/
import Pyiga.Proofs.HierTP

namespace Pyiga.Hier

open Pyiga.Index (Below)

namespace KV

/-! ### knot positions under uniform refinement -/

/-- Coarse knot `k` sits at distinct-knot index `i0 + d`; in the refined vector it has moved `d`
places to the right (one new simple knot per span passed) and sits at distinct-knot index
`I0 + 2 d`. -/
theorem k2mAt_refine : ∀ (ms : List Nat) (i0 I0 k : Nat), k < ms.sum →
    k2mAt I0 (refineMults ms) (k + (k2mAt i0 ms k - i0)) = I0 + 2 * (k2mAt i0 ms k - i0)
  | [], _, _, _, h => by simp at h
  | [m], i0, I0, k, h => by
    have hk : k < m := by simpa using h
    simp [refineMults, k2mAt, hk]
  | m :: m' :: rest, i0, I0, k, h => by
    simp only [List.sum_cons] at h
    by_cases h1 : k < m
    · simp [refineMults, k2mAt, h1]
    · have hk' : k - m < (m' :: rest).sum := by simp only [List.sum_cons]; omega
      have ih := k2mAt_refine (m' :: rest) (i0 + 1) (I0 + 2) (k - m) hk'
      have hlow := k2mAt_lower (m' :: rest) (i0 + 1) (k - m) hk'
      have e : k2mAt i0 (m :: m' :: rest) k = k2mAt (i0 + 1) (m' :: rest) (k - m) := by
        rw [k2mAt, if_neg h1]
      rw [e]
      generalize k2mAt (i0 + 1) (m' :: rest) (k - m) = v at ih hlow ⊢
      have h2 : ¬ k + (v - i0) < m := by omega
      have h3 : ¬ k + (v - i0) - m < 1 := by omega
      have e2 : k + (v - i0) - m - 1 = k - m + (v - (i0 + 1)) := by omega
      rw [refineMults, k2mAt, if_neg h2, k2mAt, if_neg h3, e2, ih]
      omega

theorem refineMults_sum : ∀ (ms : List Nat), ms ≠ [] →
    (refineMults ms).sum + 1 = ms.sum + ms.length
  | [], h => absurd rfl h
  | [_], _ => by simp [refineMults]
  | m :: m' :: rest, _ => by
    have ih := refineMults_sum (m' :: rest) (by simp)
    simp only [refineMults, List.sum_cons, List.length_cons] at ih ⊢
    omega

theorem numknots_refine {kv : KV} (hg : GoodKV kv) :
    kv.refine.mults.sum = kv.mults.sum + kv.numspans := by
  have := refineMults_sum kv.mults hg.1
  have hpos : 0 < kv.mults.length := List.length_pos_iff.2 hg.1
  show (refineMults kv.mults).sum = kv.mults.sum + (kv.mults.length - 1)
  omega

theorem numdofs_refine {kv : KV} (hg : GoodKV kv) (hd : 1 ≤ kv.numdofs) :
    kv.refine.numdofs = kv.numdofs + kv.numspans := by
  have := numknots_refine hg
  have e : kv.refine.numdofs = kv.refine.mults.sum - kv.p - 1 := rfl
  rw [e, this]
  unfold numdofs numknots at hd ⊢
  omega

end KV

/-- position of coarse knot k in the refined knot vector, and its mesh index doubles -/
theorem KV.k2m_refine (kv : KV) (hg : GoodKV kv) (k : Nat) (hk : k < kv.mults.sum) :
    kv.refine.k2m (k + kv.k2m k) = 2 * kv.k2m k := by
  have _ := hg  -- not needed: the identity holds for arbitrary multiplicities
  have := KV.k2mAt_refine kv.mults 0 0 k hk
  simpa [KV.k2m, KV.refine] using this

/-- 1-D: every child i of coarse function j is a function of the refined basis and its mesh
support lies inside the (refined) support of j -/
theorem KV.child_support_sub (kv : KV) (hg : GoodKV kv) (j i : Nat) (hj : j < kv.numdofs)
    (hi : i ∈ kv.funChildren j) :
    i < kv.refine.numdofs ∧ 2 * kv.ms0 j ≤ kv.refine.ms0 i ∧ kv.refine.ms1 i ≤ 2 * kv.ms1 j := by
  unfold KV.funChildren at hi
  rw [mem_rangeFT] at hi
  have hk1 := KV.succ_lt_numknots hj
  have hms1 := KV.ms1_le_numspans hj
  have hnd := KV.numdofs_refine hg (by omega : 1 ≤ kv.numdofs)
  have hnk := KV.numknots_refine hg
  have hi' : i < kv.refine.numdofs := by omega
  have hik := KV.succ_lt_numknots hi'
  have hp : kv.refine.p = kv.p := rfl
  rw [hp] at hik
  refine ⟨hi', ?_, ?_⟩
  · have e := KV.k2m_refine kv hg j (by omega)
    have hm := KV.k2mAt_mono kv.refine.mults 0 (j + kv.k2m j) i hi.1 (by omega)
    show 2 * kv.k2m j ≤ kv.refine.k2m i
    rw [← e]
    exact hm
  · have e := KV.k2m_refine kv hg (j + kv.p + 1) hk1
    have hm := KV.k2mAt_mono kv.refine.mults 0 (i + kv.p + 1)
      (j + kv.p + 1 + kv.k2m (j + kv.p + 1)) (by unfold KV.ms1 at hi; omega)
      (by unfold KV.ms1 at hms1; omega)
    show kv.refine.k2m (i + kv.p + 1) ≤ 2 * kv.k2m (j + kv.p + 1)
    rw [← e]
    exact hm

/-! ### tensor-product lifting -/

theorem children_valid : ∀ (m : Mesh) (f g : Idx), (∀ kv ∈ m, GoodKV kv) →
    Below f (m.map KV.numdofs) →
    g ∈ cart (List.zipWith (fun kv j => kv.funChildren j) m f) →
    Below g ((m.map KV.refine).map KV.numdofs)
  | [], [], g, _, _, hgc => by
    simp only [List.zipWith_nil_left, mem_cart_nil] at hgc
    subst hgc; trivial
  | [], _ :: _, _, _, hf, _ => by simp [Below] at hf
  | _ :: _, [], _, _, hf, _ => by simp [Below] at hf
  | kv :: m, j :: f, [], _, _, hgc => by simp at hgc
  | kv :: m, j :: f, i :: g, hg, hf, hgc => by
    simp only [List.zipWith_cons_cons, cons_mem_cart_cons] at hgc
    simp only [List.map_cons, Below] at hf ⊢
    exact ⟨(KV.child_support_sub kv (hg kv (List.mem_cons_self ..)) j i hf.1 hgc.1).1,
      children_valid m f g (fun x hx => hg x (List.mem_cons_of_mem _ hx)) hf.2 hgc.2⟩

theorem children_support_sub : ∀ (m : Mesh) (f g c : Idx), (∀ kv ∈ m, GoodKV kv) →
    Below f (m.map KV.numdofs) →
    g ∈ cart (List.zipWith (fun kv j => kv.funChildren j) m f) →
    c ∈ Mesh.supportOne (m.map KV.refine) g → parTp c ∈ Mesh.supportOne m f
  | [], [], g, c, _, _, hgc, hc => by
    simp only [List.zipWith_nil_left, mem_cart_nil] at hgc
    subst hgc
    simp only [Mesh.supportOne, List.map_nil, List.zipWith_nil_left, mem_cart_nil] at hc
    subst hc
    simp [Mesh.supportOne, parTp]
  | [], _ :: _, _, _, _, hf, _, _ => by simp [Below] at hf
  | _ :: _, [], _, _, _, hf, _, _ => by simp [Below] at hf
  | kv :: m, j :: f, [], _, _, _, hgc, _ => by simp at hgc
  | kv :: m, j :: f, i :: g, [], _, _, _, hc => by simp [Mesh.supportOne] at hc
  | kv :: m, j :: f, i :: g, k :: c, hg, hf, hgc, hc => by
    simp only [List.zipWith_cons_cons, cons_mem_cart_cons] at hgc
    simp only [List.map_cons, Below] at hf
    simp only [Mesh.supportOne, List.map_cons, List.zipWith_cons_cons, cons_mem_cart_cons,
      mem_rangeFT] at hc
    have ih := children_support_sub m f g c (fun x hx => hg x (List.mem_cons_of_mem _ hx)) hf.2
      hgc.2 hc.2
    have h1 := KV.child_support_sub kv (hg kv (List.mem_cons_self ..)) j i hf.1 hgc.1
    simp only [Mesh.supportOne, parTp] at ih
    simp only [Mesh.supportOne, parTp, List.map_cons, List.zipWith_cons_cons, cons_mem_cart_cons,
      mem_rangeFT]
    exact ⟨by omega, ih⟩

theorem meshAt_succ (kvs : Mesh) (lv : Nat) : meshAt kvs (lv + 1) = (meshAt kvs lv).map KV.refine := by
  unfold meshAt
  rw [List.map_map]
  apply List.map_congr_left
  intro kv _
  exact KV.refineN_succ lv kv

/-- tensor product: children of a valid level-lv function are valid level-(lv+1) functions whose
support cells have their parent cell in the support of the coarse function -/
theorem tp_child_support_sub (kvs : Mesh) (hg : ∀ kv ∈ kvs, GoodKV kv) (lv : Nat) (f g : Idx)
    (hf : VFtp kvs lv f)
    (hgc : g ∈ cart (List.zipWith (fun kv j => kv.funChildren j) (meshAt kvs lv) f)) :
    VFtp kvs (lv + 1) g ∧
    ∀ c ∈ (meshAt kvs (lv + 1)).support [g], parTp c ∈ (meshAt kvs lv).support [f] := by
  have hgm := good_meshAt hg lv
  refine ⟨?_, fun c hc => ?_⟩
  · unfold VFtp
    rw [meshAt_succ]
    exact children_valid _ f g hgm hf hgc
  · rw [meshAt_succ, mem_support_singleton] at hc
    rw [mem_support_singleton]
    exact children_support_sub _ f g c hgm hf hgc hc

end Pyiga.Hier
