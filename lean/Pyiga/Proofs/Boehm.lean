/-
Boehm's knot insertion identity for the matrix built by `pyiga.bspline.knot_insertion`
(`Pyiga.Transfer.insEntry`), over an arbitrary linearly ordered field.

Main result: `boehm` — for a monotone knot sequence `t` and `t k ≤ u < t (k+1)`,
  `N_{i,p} = P[i,i] * N'_{i,p} + P[i+1,i] * N'_{i+1,p}`
where `N = cox t`, `N' = cox (insertKnot t k u)` and `P = insEntry t p k u`.
-/
import Pyiga.Proofs.CoxDeBoor
import Pyiga.Model.TransferKnots

namespace Pyiga.Boehm

open Pyiga.Transfer Pyiga.Cox

/-! ### The refined knot sequence and the diagonal weight `alpha` (no order needed) -/
section Algebra
variable {K : Type}

theorem ik_le (t : ℕ → K) (k : ℕ) (u : K) {j : ℕ} (h : j ≤ k) :
    insertKnot t k u j = t j := by
  simp [insertKnot, h]

theorem ik_eq (t : ℕ → K) (k : ℕ) (u : K) {j : ℕ} (h : j = k + 1) :
    insertKnot t k u j = u := by
  subst h; simp [insertKnot]

theorem ik_gt (t : ℕ → K) (k : ℕ) (u : K) {j m : ℕ} (h : k < m) (hm : j = m + 1) :
    insertKnot t k u j = t m := by
  subst hm
  have h1 : ¬ (m + 1 ≤ k) := by omega
  have h2 : ¬ (m = k) := by omega
  simp [insertKnot, h1, h2]

variable [Field K]

/-- `alpha t p k u j = insEntry t p k u j j`, the diagonal weight of Boehm's algorithm. -/
def alpha (t : ℕ → K) (p k : ℕ) (u : K) (j : ℕ) : K :=
  if j + p ≤ k then 1 else if k < j then 0 else (u - t j) / (t (j + p) - t j)

theorem alpha_lo {t : ℕ → K} {p k : ℕ} {u : K} {j : ℕ} (h : j + p ≤ k) :
    alpha t p k u j = 1 := by
  simp [alpha, h]

theorem alpha_hi {t : ℕ → K} {p k : ℕ} {u : K} {j : ℕ} (h : k < j) :
    alpha t p k u j = 0 := by
  have a : ¬ (j + p ≤ k) := by omega
  simp [alpha, a, h]

theorem alpha_mid {t : ℕ → K} {p k : ℕ} {u : K} {j : ℕ} (h1 : j ≤ k) (h2 : k < j + p)
    {m : ℕ} (hm : m = j + p) : alpha t p k u j = (u - t j) / (t m - t j) := by
  subst hm
  have a : ¬ (j + p ≤ k) := by omega
  have b : ¬ (k < j) := by omega
  simp [alpha, a, b]

theorem insEntry_diag (t : ℕ → K) (p k : ℕ) (u : K) (j : ℕ) :
    insEntry t p k u j j = alpha t p k u j := by
  by_cases h1 : j + p ≤ k
  · have a : j < k + 1 - p := by omega
    simp [insEntry, alpha, h1, a]
  · have a : ¬ (j < k + 1 - p) := by omega
    by_cases h2 : k < j
    · have b : k + 1 ≤ j := h2
      simp [insEntry, alpha, h1, a, h2, b]
    · have b : ¬ (k + 1 ≤ j) := by omega
      simp [insEntry, alpha, h1, a, h2, b]

theorem insEntry_sub (t : ℕ → K) (p k : ℕ) (u : K) (i : ℕ) :
    insEntry t p k u (i + 1) i = 1 - alpha t p k u (i + 1) := by
  by_cases h1 : i + 1 + p ≤ k
  · have a : i + 1 < k + 1 - p := by omega
    simp [insEntry, alpha, h1, a]
  · have a : ¬ (i + 1 < k + 1 - p) := by omega
    by_cases h2 : k < i + 1
    · have b : k + 1 ≤ i + 1 := h2
      simp [insEntry, alpha, h1, a, h2, b]
    · have b : ¬ (k + 1 ≤ i + 1) := by omega
      simp [insEntry, alpha, h1, a, h2, b]

theorem insEntry_eq_zero (t : ℕ → K) (p k : ℕ) (u : K) {j i : ℕ} (h1 : j ≠ i) (h2 : j ≠ i + 1) :
    insEntry t p k u j i = 0 := by
  have a : ¬ (i = j) := fun h => h1 h.symm
  have b : ¬ (i + 1 = j) := fun h => h2 h.symm
  unfold insEntry
  split_ifs <;> rfl

/-- Row `j` of the `(n+1) × n` insertion matrix sums to one.  Row `j` has its entries in columns
`j-1` and `j` only; for `j = 0` the entry `(0,0)` is `1` iff `p ≤ k`, and for `j = n` the entry
`(n,n-1)` is `1` iff `k + 1 ≤ n`.  (No order hypotheses are needed: `(1 - a) + a = 1`.) -/
theorem insEntry_row_sum (t : ℕ → K) (p k : ℕ) (u : K) {n j : ℕ} (hjn : j ≤ n)
    (h0 : j = 0 → p ≤ k) (hn : j = n → k + 1 ≤ n) :
    ∑ i ∈ Finset.range n, insEntry t p k u j i = 1 := by
  rcases Nat.eq_zero_or_pos j with hj | hj
  · subst hj
    have hp : p ≤ k := h0 rfl
    rw [Finset.sum_eq_single 0]
    · rw [insEntry_diag]; exact alpha_lo (by omega)
    · intro b _ hb
      exact insEntry_eq_zero t p k u (Ne.symm hb) (by omega)
    · intro h
      exfalso
      apply h
      rw [Finset.mem_range]
      rcases Nat.eq_zero_or_pos n with h' | h'
      · have := hn h'.symm; omega
      · exact h'
  · obtain ⟨m, rfl⟩ : ∃ m, j = m + 1 := ⟨j - 1, by omega⟩
    rw [Finset.sum_eq_add m (m + 1) (by omega)]
    · rw [insEntry_sub, insEntry_diag]; ring
    · intro c _ hc
      exact insEntry_eq_zero t p k u (Ne.symm hc.2) (fun h => hc.1 (by omega))
    · intro h
      exfalso
      apply h
      rw [Finset.mem_range]; omega
    · intro h
      rw [Finset.mem_range] at h
      have e : m + 1 = n := by omega
      have := hn e
      rw [insEntry_diag]; exact alpha_hi (by omega)

end Algebra

/-! ### Order facts -/
section OrderOnly
variable {K : Type} [LinearOrder K]

theorem insertKnot_monotone {t : ℕ → K} (ht : Monotone t) {k : ℕ} {u : K}
    (hk : t k ≤ u) (hk' : u ≤ t (k + 1)) : Monotone (insertKnot t k u) := by
  apply monotone_nat_of_le_succ
  intro n
  rcases Nat.lt_trichotomy n k with h | h | h
  · rw [ik_le t k u (le_of_lt h), ik_le t k u (Nat.succ_le_of_lt h)]
    exact ht (Nat.le_succ n)
  · subst h
    rw [ik_le t n u (le_refl n), ik_eq t n u rfl]
    exact hk
  · rcases Nat.eq_or_lt_of_le (Nat.succ_le_of_lt h) with h2 | h2
    · -- n = k + 1
      rw [ik_eq t k u h2.symm, ik_gt t k u (m := n) h rfl, ← h2]
      exact hk'
    · obtain ⟨m, rfl⟩ : ∃ m, n = m + 1 := ⟨n - 1, by omega⟩
      rw [ik_gt t k u (m := m) (by omega) rfl, ik_gt t k u (m := m + 1) (by omega) rfl]
      exact ht (Nat.le_succ m)

variable {t : ℕ → K} {k : ℕ} {u : K}

theorem le_u (ht : Monotone t) (hk : t k ≤ u) {a : ℕ} (h : a ≤ k) : t a ≤ u :=
  le_trans (ht h) hk

theorem u_lt (ht : Monotone t) (hk' : u < t (k + 1)) {b : ℕ} (h : k < b) : u < t b :=
  lt_of_lt_of_le hk' (ht (Nat.succ_le_of_lt h))

end OrderOnly

section Order
variable {K : Type} [Field K] [LinearOrder K] [IsStrictOrderedRing K]
variable {t : ℕ → K} {k : ℕ} {u : K}

omit [IsStrictOrderedRing K] in
/-- base case `p = 0` of Boehm's identity in weight form -/
theorem boehm_alpha_zero (hk : t k ≤ u) (hk' : u < t (k + 1)) (i : ℕ) (x : K) :
    cox t 0 i x = alpha t 0 k u i * cox (insertKnot t k u) 0 i x
      + (1 - alpha t 0 k u (i + 1)) * cox (insertKnot t k u) 0 (i + 1) x := by
  rcases Nat.lt_trichotomy i k with h | h | h
  · have a1 : alpha t 0 k u i = 1 := alpha_lo (by omega)
    have a2 : alpha t 0 k u (i + 1) = 1 := alpha_lo (by omega)
    rw [a1, a2, cox_zero, cox_zero, ik_le t k u (le_of_lt h), ik_le t k u (Nat.succ_le_of_lt h)]
    ring
  · subst h
    have a1 : alpha t 0 i u i = 1 := alpha_lo (by omega)
    have a2 : alpha t 0 i u (i + 1) = 0 := alpha_hi (by omega)
    rw [a1, a2, cox_zero, cox_zero, cox_zero, ik_le t i u (le_refl i), ik_eq t i u rfl,
      ik_gt t i u (m := i + 1) (by omega) rfl]
    rcases lt_or_ge x u with hx | hx
    · have h3 : x < t (i + 1) := lt_trans hx hk'
      have h4 : ¬ u ≤ x := not_le.mpr hx
      simp [hx, h3, h4]
    · have h3 : t i ≤ x := le_trans hk hx
      have h4 : ¬ x < u := not_lt.mpr hx
      simp [hx, h3, h4]
  · have a1 : alpha t 0 k u i = 0 := alpha_hi h
    have a2 : alpha t 0 k u (i + 1) = 0 := alpha_hi (by omega)
    rw [a1, a2, cox_zero t, cox_zero _ (i + 1), ik_gt t k u (m := i) h rfl,
      ik_gt t k u (m := i + 1) (by omega) rfl]
    ring

/-- coefficient of `N'_{i,p}` in the induction step -/
theorem coef1 (ht : Monotone t) (hk : t k ≤ u) (hk' : u < t (k + 1)) (p i : ℕ) (x : K) :
    (x - t i) / (t (i + p + 1) - t i) * alpha t p k u i * cox (insertKnot t k u) p i x
      = alpha t (p + 1) k u i
        * ((x - insertKnot t k u i) / (insertKnot t k u (i + p + 1) - insertKnot t k u i))
        * cox (insertKnot t k u) p i x := by
  have ht' : Monotone (insertKnot t k u) := insertKnot_monotone ht hk hk'.le
  rcases Nat.lt_or_ge k i with h | h
  · have a1 : alpha t p k u i = 0 := alpha_hi h
    have a2 : alpha t (p + 1) k u i = 0 := alpha_hi h
    rw [a1, a2]; ring
  · rw [ik_le t k u h]
    rcases Nat.lt_or_ge k (i + p) with h2 | h2
    · have a1 : alpha t p k u i = (u - t i) / (t (i + p) - t i) := alpha_mid h h2 rfl
      have a2 : alpha t (p + 1) k u i = (u - t i) / (t (i + p + 1) - t i) :=
        alpha_mid h (by omega) (by omega)
      rw [a1, a2, ik_gt t k u (m := i + p) h2 rfl]
      ring
    · rcases Nat.eq_or_lt_of_le h2 with h3 | h3
      · have a1 : alpha t p k u i = 1 := alpha_lo h2
        have a2 : alpha t (p + 1) k u i = (u - t i) / (t (i + p + 1) - t i) :=
          alpha_mid h (by omega) (by omega)
        have e1 : insertKnot t k u (i + p + 1) = u := ik_eq t k u (by omega)
        rw [a1, a2, e1]
        rcases eq_or_lt_of_le (le_u ht hk h) with h4 | h4
        · have z : cox (insertKnot t k u) p i x = 0 := by
            apply cox_zero_of_degenerate ht'
            rw [ik_le t k u h, e1]; exact h4
          rw [z]; ring
        · have d1 : u - t i ≠ 0 := ne_of_gt (sub_pos.mpr h4)
          have d2 : t (i + p + 1) - t i ≠ 0 :=
            ne_of_gt (sub_pos.mpr (lt_trans h4 (u_lt ht hk' (by omega))))
          field_simp
      · have a1 : alpha t p k u i = 1 := alpha_lo h2
        have a2 : alpha t (p + 1) k u i = 1 := alpha_lo (by omega)
        rw [a1, a2, ik_le t k u (j := i + p + 1) (by omega)]
        ring

/-- coefficient of `N'_{i+2,p}` in the induction step -/
theorem coef3 (ht : Monotone t) (hk : t k ≤ u) (hk' : u < t (k + 1)) (p i : ℕ) (x : K) :
    (t (i + p + 2) - x) / (t (i + p + 2) - t (i + 1)) * (1 - alpha t p k u (i + 2))
        * cox (insertKnot t k u) p (i + 2) x
      = (1 - alpha t (p + 1) k u (i + 1))
        * ((insertKnot t k u (i + p + 3) - x)
            / (insertKnot t k u (i + p + 3) - insertKnot t k u (i + 2)))
        * cox (insertKnot t k u) p (i + 2) x := by
  rcases Nat.lt_or_ge k (i + p + 2) with hT | hT
  · -- `t' (i+p+3) = t (i+p+2)`
    rw [ik_gt t k u (m := i + p + 2) hT rfl]
    rcases Nat.lt_or_ge k (i + 1) with h | h
    · -- `k ≤ i`
      have a1 : alpha t p k u (i + 2) = 0 := alpha_hi (by omega)
      have a2 : alpha t (p + 1) k u (i + 1) = 0 := alpha_hi h
      rw [a1, a2, ik_gt t k u (m := i + 1) h rfl]
      ring
    · have a2 : alpha t (p + 1) k u (i + 1) = (u - t (i + 1)) / (t (i + p + 2) - t (i + 1)) :=
        alpha_mid h (by omega) (by omega)
      have d1 : t (i + p + 2) - t (i + 1) ≠ 0 :=
        ne_of_gt (sub_pos.mpr (lt_of_le_of_lt (le_u ht hk h) (u_lt ht hk' hT)))
      have d2 : t (i + p + 2) - u ≠ 0 := ne_of_gt (sub_pos.mpr (u_lt ht hk' hT))
      rcases Nat.eq_or_lt_of_le h with h3 | h3
      · -- `k = i + 1`
        have a1 : alpha t p k u (i + 2) = 0 := alpha_hi (by omega)
        rw [a1, a2, ik_eq t k u (j := i + 2) (by omega)]
        field_simp
        ring
      · -- `i + 2 ≤ k`
        have a1 : alpha t p k u (i + 2) = (u - t (i + 2)) / (t (i + p + 2) - t (i + 2)) :=
          alpha_mid h3 (by omega) (by omega)
        have d3 : t (i + p + 2) - t (i + 2) ≠ 0 :=
          ne_of_gt (sub_pos.mpr (lt_of_le_of_lt (le_u ht hk h3) (u_lt ht hk' hT)))
        rw [a1, a2, ik_le t k u (j := i + 2) h3]
        field_simp
        ring
  · have a1 : alpha t p k u (i + 2) = 1 := alpha_lo (by omega)
    have a2 : alpha t (p + 1) k u (i + 1) = 1 := alpha_lo (by omega)
    rw [a1, a2]; ring

/-- coefficient of `N'_{i+1,p}` in the induction step -/
theorem coef2 (ht : Monotone t) (hk : t k ≤ u) (hk' : u < t (k + 1)) (p i : ℕ) (x : K) :
    ((x - t i) / (t (i + p + 1) - t i) * (1 - alpha t p k u (i + 1))
        + (t (i + p + 2) - x) / (t (i + p + 2) - t (i + 1)) * alpha t p k u (i + 1))
        * cox (insertKnot t k u) p (i + 1) x
      = (alpha t (p + 1) k u i
          * ((insertKnot t k u (i + p + 2) - x)
              / (insertKnot t k u (i + p + 2) - insertKnot t k u (i + 1)))
        + (1 - alpha t (p + 1) k u (i + 1))
          * ((x - insertKnot t k u (i + 1))
              / (insertKnot t k u (i + p + 2) - insertKnot t k u (i + 1))))
        * cox (insertKnot t k u) p (i + 1) x := by
  have ht' : Monotone (insertKnot t k u) := insertKnot_monotone ht hk hk'.le
  rcases Nat.lt_or_ge k i with h | h
  · -- pure shift
    have a1 : alpha t p k u (i + 1) = 0 := alpha_hi (by omega)
    have a2 : alpha t (p + 1) k u i = 0 := alpha_hi h
    have a3 : alpha t (p + 1) k u (i + 1) = 0 := alpha_hi (by omega)
    rw [a1, a2, a3, ik_gt t k u (m := i) h rfl, ik_gt t k u (m := i + p + 1) (by omega) rfl]
    ring
  rcases Nat.lt_or_ge (i + p + 1) k with hZ | hZ
  · -- nothing changes
    have a1 : alpha t p k u (i + 1) = 1 := alpha_lo (by omega)
    have a2 : alpha t (p + 1) k u i = 1 := alpha_lo (by omega)
    have a3 : alpha t (p + 1) k u (i + 1) = 1 := alpha_lo (by omega)
    rw [a1, a2, a3, ik_le t k u (j := i + 1) (by omega), ik_le t k u (j := i + p + 2) (by omega)]
    ring
  rcases Nat.eq_or_lt_of_le h with h1 | h1
  · -- `k = i`
    have a1 : alpha t p k u (i + 1) = 0 := alpha_hi (by omega)
    have a2 : alpha t (p + 1) k u i = (u - t i) / (t (i + p + 1) - t i) :=
      alpha_mid h (by omega) (by omega)
    have a3 : alpha t (p + 1) k u (i + 1) = 0 := alpha_hi (by omega)
    rw [a1, a2, a3, ik_eq t k u (j := i + 1) (by omega),
      ik_gt t k u (m := i + p + 1) (by omega) rfl]
    have d1 : t (i + p + 1) - t i ≠ 0 :=
      ne_of_gt (sub_pos.mpr (lt_of_le_of_lt (le_u ht hk h) (u_lt ht hk' (by omega))))
    have d2 : t (i + p + 1) - u ≠ 0 := ne_of_gt (sub_pos.mpr (u_lt ht hk' (by omega)))
    field_simp
    ring
  rcases Nat.eq_or_lt_of_le hZ with h2 | h2
  · -- `k = i + p + 1`
    have a1 : alpha t p k u (i + 1) = 1 := alpha_lo (by omega)
    have a2 : alpha t (p + 1) k u i = 1 := alpha_lo (by omega)
    have a3 : alpha t (p + 1) k u (i + 1) = (u - t (i + 1)) / (t (i + p + 2) - t (i + 1)) :=
      alpha_mid h1 (by omega) (by omega)
    have e1 : insertKnot t k u (i + 1) = t (i + 1) := ik_le t k u h1
    have e2 : insertKnot t k u (i + p + 2) = u := ik_eq t k u (by omega)
    rw [a1, a2, a3, e1, e2]
    rcases eq_or_lt_of_le (le_u ht hk h1) with h4 | h4
    · have z : cox (insertKnot t k u) p (i + 1) x = 0 := by
        apply cox_zero_of_degenerate ht'
        have e3 : i + 1 + p + 1 = i + p + 2 := by omega
        rw [e3, e1, e2]; exact h4
      rw [z]; ring
    · have d1 : u - t (i + 1) ≠ 0 := ne_of_gt (sub_pos.mpr h4)
      have d2 : t (i + p + 2) - t (i + 1) ≠ 0 :=
        ne_of_gt (sub_pos.mpr (lt_trans h4 (u_lt ht hk' (by omega))))
      field_simp
      ring
  · -- `i < k < i + p + 1`
    have a1 : alpha t p k u (i + 1) = (u - t (i + 1)) / (t (i + p + 1) - t (i + 1)) :=
      alpha_mid h1 (by omega) (by omega)
    have a2 : alpha t (p + 1) k u i = (u - t i) / (t (i + p + 1) - t i) :=
      alpha_mid h (by omega) (by omega)
    have a3 : alpha t (p + 1) k u (i + 1) = (u - t (i + 1)) / (t (i + p + 2) - t (i + 1)) :=
      alpha_mid h1 (by omega) (by omega)
    rw [a1, a2, a3, ik_le t k u (j := i + 1) h1, ik_gt t k u (m := i + p + 1) (by omega) rfl]
    have d1 : t (i + p + 1) - t i ≠ 0 :=
      ne_of_gt (sub_pos.mpr (lt_of_le_of_lt (le_u ht hk h) (u_lt ht hk' h2)))
    have d2 : t (i + p + 1) - t (i + 1) ≠ 0 :=
      ne_of_gt (sub_pos.mpr (lt_of_le_of_lt (le_u ht hk h1) (u_lt ht hk' h2)))
    have d3 : t (i + p + 2) - t (i + 1) ≠ 0 :=
      ne_of_gt (sub_pos.mpr (lt_of_le_of_lt (le_u ht hk h1) (u_lt ht hk' (by omega))))
    field_simp
    ring

/-- Boehm's identity in weight form. -/
theorem boehm_alpha (ht : Monotone t) (hk : t k ≤ u) (hk' : u < t (k + 1)) (p i : ℕ) (x : K) :
    cox t p i x = alpha t p k u i * cox (insertKnot t k u) p i x
      + (1 - alpha t p k u (i + 1)) * cox (insertKnot t k u) p (i + 1) x := by
  induction p generalizing i with
  | zero => exact boehm_alpha_zero hk hk' i x
  | succ p ih =>
    have c1 := coef1 ht hk hk' p i x
    have c2 := coef2 ht hk hk' p i x
    have c3 := coef3 ht hk hk' p i x
    have e1 : i + 1 + p + 1 = i + p + 2 := by omega
    have e2 : i + 1 + p + 2 = i + p + 3 := by omega
    have e3 : i + 1 + 1 = i + 2 := rfl
    rw [cox_succ t, ih i, ih (i + 1), cox_succ (insertKnot t k u), cox_succ (insertKnot t k u),
      e1, e2, e3]
    linear_combination c1 + c2 + c3

/-- **Boehm's knot insertion identity** for the matrix exactly as coded in
`pyiga.bspline.knot_insertion`: with `t' = insertKnot t k u` and `P = insEntry t p k u`,
`N_{i,p} = P[i,i] N'_{i,p} + P[i+1,i] N'_{i+1,p}`.  No relation between `p` and `k` is needed. -/
theorem boehm (t : ℕ → K) (ht : Monotone t) (k : ℕ) (u : K) (hk : t k ≤ u) (hk' : u < t (k + 1))
    (p i : ℕ) (x : K) :
    cox t p i x = insEntry t p k u i i * cox (insertKnot t k u) p i x
      + insEntry t p k u (i + 1) i * cox (insertKnot t k u) p (i + 1) x := by
  rw [insEntry_diag, insEntry_sub]
  exact boehm_alpha ht hk hk' p i x

/-- Boehm's identity as a matrix-vector product with column `i` of the insertion matrix. -/
theorem boehm_sum (t : ℕ → K) (ht : Monotone t) (k : ℕ) (u : K) (hk : t k ≤ u)
    (hk' : u < t (k + 1)) (p i : ℕ) (x : K) {n : ℕ} (hn : i < n) :
    cox t p i x
      = ∑ j ∈ Finset.range (n + 1), insEntry t p k u j i * cox (insertKnot t k u) p j x := by
  rw [Finset.sum_eq_add i (i + 1) (by omega)]
  · exact boehm t ht k u hk hk' p i x
  · intro c _ hc
    rw [insEntry_eq_zero t p k u hc.1 hc.2, zero_mul]
  · intro h
    exfalso; apply h; rw [Finset.mem_range]; omega
  · intro h
    exfalso; apply h; rw [Finset.mem_range]; omega

theorem alpha_nonneg (ht : Monotone t) (hk : t k ≤ u) (p j : ℕ) :
    0 ≤ alpha t p k u j := by
  rcases Nat.lt_or_ge k (j + p) with h1 | h1
  · rcases Nat.lt_or_ge k j with h2 | h2
    · rw [alpha_hi h2]
    · rw [alpha_mid h2 h1 rfl]
      exact div_nonneg (sub_nonneg.mpr (le_u ht hk h2)) (sub_nonneg.mpr (ht (by omega)))
  · rw [alpha_lo h1]; exact zero_le_one

theorem alpha_le_one (ht : Monotone t) (hk : t k ≤ u) (hk' : u < t (k + 1)) (p j : ℕ) :
    alpha t p k u j ≤ 1 := by
  rcases Nat.lt_or_ge k (j + p) with h1 | h1
  · rcases Nat.lt_or_ge k j with h2 | h2
    · rw [alpha_hi h2]; exact zero_le_one
    · rw [alpha_mid h2 h1 rfl]
      have d : 0 < t (j + p) - t j :=
        sub_pos.mpr (lt_of_le_of_lt (le_u ht hk h2) (u_lt ht hk' h1))
      rw [div_le_one d]
      exact sub_le_sub_right (u_lt ht hk' h1).le _
  · rw [alpha_lo h1]

/-- all entries of the insertion matrix are non-negative -/
theorem insEntry_nonneg (t : ℕ → K) (ht : Monotone t) (k : ℕ) (u : K) (hk : t k ≤ u)
    (hk' : u < t (k + 1)) (p j i : ℕ) : 0 ≤ insEntry t p k u j i := by
  by_cases h1 : j = i
  · subst h1
    rw [insEntry_diag]; exact alpha_nonneg ht hk p j
  · by_cases h2 : j = i + 1
    · subst h2
      rw [insEntry_sub]; exact sub_nonneg.mpr (alpha_le_one ht hk hk' p (i + 1))
    · rw [insEntry_eq_zero t p k u h1 h2]

end Order

end Pyiga.Boehm
