/-
`compute_sparsity_ij` (searchsorted + while loop) returns exactly the pairs of
basis functions with overlapping mesh support, row by row in increasing `j`,
whenever the mesh-support table of the column space is monotone in both
components (which `mesh_support_idx_all` of a knot vector always is).
-/
import Pyiga.Proofs.MLMatrix

namespace Pyiga.ML

/-- mesh supports `[a0,a1)`, `[b0,b1)` overlap in a set of positive length
(the `do_intersect` of `compute_sparsity_ij`) -/
def overlap (a b : Nat × Nat) : Bool := decide (min a.2 b.2 > max a.1 b.1)

/-- SPEC of `compute_sparsity_ij`: all overlapping pairs, row-major -/
def sparsitySpec (ms1 ms2 : List (Nat × Nat)) : Pattern :=
  (ms2.zipIdx).flatMap (fun (si : (Nat × Nat) × Nat) =>
    ((ms1.zipIdx).filter (fun (sj : (Nat × Nat) × Nat) => overlap si.1 sj.1)).map (fun sj => (si.2, sj.2)))

/-- `takeWhile p = filter p` when `p` can only switch from true to false along the list -/
theorem takeWhile_eq_filter {α} (p : α → Bool) : ∀ (l : List α),
    l.Pairwise (fun x y => p y = true → p x = true) → l.takeWhile p = l.filter p
  | [], _ => rfl
  | x :: xs, h => by
    rw [List.pairwise_cons] at h
    by_cases hx : p x = true
    · simp [List.takeWhile_cons, List.filter_cons, hx, takeWhile_eq_filter p xs h.2]
    · have hall : ∀ y ∈ xs, p y = false := by
        intro y hy
        by_cases hy' : p y = true
        · exact absurd (h.1 y hy hy') hx
        · simpa using hy'
      have hf : xs.filter p = [] := by
        rw [List.filter_eq_nil_iff]; intro y hy; simp [hall y hy]
      simp [List.takeWhile_cons, List.filter_cons, hx, hf]

/-- dropping the `takeWhile` prefix leaves the elements failing `p`, when `p` is antitone along the list -/
theorem drop_takeWhile_eq_filter_not {α} (p : α → Bool) : ∀ (l : List α),
    l.Pairwise (fun x y => p y = true → p x = true) →
    l.drop (l.takeWhile p).length = l.filter (fun x => !p x)
  | [], _ => rfl
  | x :: xs, h => by
    rw [List.pairwise_cons] at h
    by_cases hx : p x = true
    · simp [List.takeWhile_cons, List.filter_cons, hx, drop_takeWhile_eq_filter_not p xs h.2]
    · have hall : ∀ y ∈ xs, p y = false := by
        intro y hy
        by_cases hy' : p y = true
        · exact absurd (h.1 y hy hy') hx
        · simpa using hy'
      have hf : xs.filter (fun x => !p x) = xs := by
        rw [List.filter_eq_self]; intro y hy; simp [hall y hy]
      simp [List.takeWhile_cons, List.filter_cons, hx, hf]

/-- monotone mesh-support table: both end points are non-decreasing along the list and
every support is non-empty -/
structure MonoSupp (ms : List (Nat × Nat)) : Prop where
  lo : ms.Pairwise (fun a b => a.1 ≤ b.1)
  hi : ms.Pairwise (fun a b => a.2 ≤ b.2)
  ne : ∀ a ∈ ms, a.1 < a.2

theorem overlap_iff (s2 s1 : Nat × Nat) (h1 : s1.1 < s1.2) (h2 : s2.1 < s2.2) :
    overlap s2 s1 = true ↔ (s2.1 < s1.2 ∧ s1.1 < s2.2) := by
  simp only [overlap, decide_eq_true_eq, gt_iff_lt]
  omega

theorem length_takeWhile_map {α β} (f : α → β) (p : β → Bool) (l : List α) :
    ((l.map f).takeWhile p).length = (l.takeWhile (p ∘ f)).length := by
  induction l with
  | nil => rfl
  | cons x xs ih =>
    by_cases hx : p (f x) = true
    · simp [List.takeWhile_cons, hx, ih]
    · simp [List.takeWhile_cons, hx]

theorem pairwise_zipIdx {α} (R : α → α → Prop) (l : List α) (k : Nat) (h : l.Pairwise R) :
    (l.zipIdx k).Pairwise (fun a b => R a.1 b.1) := by
  induction l generalizing k with
  | nil => simp
  | cons x xs ih =>
    rw [List.pairwise_cons] at h
    simp only [List.zipIdx_cons, List.pairwise_cons]
    refine ⟨?_, ih (k + 1) h.2⟩
    intro b hb
    exact h.1 b.1 (List.fst_mem_of_mem_zipIdx hb)

theorem drop_zipIdx_length_takeWhile (ms1 : List (Nat × Nat)) (v : Nat) :
    (ms1.zipIdx).drop (searchsortedRight (ms1.map (·.2)) v)
      = (ms1.zipIdx).drop ((ms1.zipIdx).takeWhile (fun sj => decide (sj.1.2 ≤ v))).length := by
  congr 1
  unfold searchsortedRight
  rw [length_takeWhile_map]
  generalize 0 = k
  induction ms1 generalizing k with
  | nil => rfl
  | cons x xs ih =>
    by_cases hx : x.2 ≤ v
    · simp [List.takeWhile_cons, hx, ih (k + 1)]
    · simp [List.takeWhile_cons, hx]

/-- one row of `compute_sparsity_ij` -/
theorem sparsity_row (ms1 : List (Nat × Nat)) (s2 : Nat × Nat) (hm : MonoSupp ms1) (h2 : s2.1 < s2.2) :
    (((ms1.zipIdx).drop (searchsortedRight (ms1.map (·.2)) s2.1)).takeWhile
        (fun (sj : (Nat × Nat) × Nat) => decide (min s2.2 sj.1.2 > max s2.1 sj.1.1)))
      = (ms1.zipIdx).filter (fun sj => overlap s2 sj.1) := by
  rw [drop_zipIdx_length_takeWhile]
  -- the prefix: supports ending at or before the start of `s2`
  have hpre := drop_takeWhile_eq_filter_not (fun (sj : (Nat × Nat) × Nat) => decide (sj.1.2 ≤ s2.1))
    (ms1.zipIdx) (by
      have := pairwise_zipIdx (fun a b : Nat × Nat => a.2 ≤ b.2) ms1 0 hm.hi
      refine this.imp ?_
      intro a b hab hb
      simp only [decide_eq_true_eq] at hb ⊢
      omega)
  rw [hpre]
  -- on the rest, `overlap` is antitone (it is `s1.1 < s2.2` there)
  have hrest : ((ms1.zipIdx).filter (fun sj => !decide (sj.1.2 ≤ s2.1))).Pairwise
      (fun x y => decide (min s2.2 y.1.2 > max s2.1 y.1.1) = true →
        decide (min s2.2 x.1.2 > max s2.1 x.1.1) = true) := by
    have hlo := pairwise_zipIdx (fun a b : Nat × Nat => a.1 ≤ b.1) ms1 0 hm.lo
    have hhi := pairwise_zipIdx (fun a b : Nat × Nat => a.2 ≤ b.2) ms1 0 hm.hi
    have hboth := hlo.and hhi
    refine (hboth.filter _).imp_of_mem ?_
    intro a b ha hb hab hyp
    have ha' := (List.mem_filter.1 ha).2
    have hane := hm.ne a.1 (List.fst_mem_of_mem_zipIdx (List.mem_filter.1 ha).1)
    simp only [Bool.not_eq_true', decide_eq_false_iff_not, Nat.not_le] at ha'
    simp only [decide_eq_true_eq, gt_iff_lt] at hyp ⊢
    omega
  rw [takeWhile_eq_filter _ _ hrest, List.filter_filter]
  apply List.filter_congr
  intro sj hsj
  have hne := hm.ne sj.1 (List.fst_mem_of_mem_zipIdx hsj)
  simp only [overlap]
  by_cases h : sj.1.2 ≤ s2.1
  · have : ¬ (min s2.2 sj.1.2 > max s2.1 sj.1.1) := by omega
    simp [h, this]
  · simp [h]

/-- **sparsity from knot vectors**: for monotone mesh-support tables the loop of
`compute_sparsity_ij` returns exactly the overlapping pairs, in row-major order. -/
theorem sparsityIJ_eq_spec (ms1 ms2 : List (Nat × Nat)) (hm : MonoSupp ms1)
    (h2 : ∀ a ∈ ms2, a.1 < a.2) : sparsityIJ ms1 ms2 = sparsitySpec ms1 ms2 := by
  unfold sparsityIJ sparsitySpec
  apply flatMap_congr'
  intro si hsi
  have := sparsity_row ms1 si.1 hm (h2 si.1 (List.fst_mem_of_mem_zipIdx hsi))
  simp only [] at this ⊢
  rw [this]

end Pyiga.ML
