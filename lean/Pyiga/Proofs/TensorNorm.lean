/-
C18: `_normalize_indices`: every normalised position is inside its axis, the recorded singleton axes are the
integer-indexed ones (strictly increasing, of length-1 selections), and the slice case is exactly the arithmetic
progression `range(*slice(start, stop, step).indices(n))`.
-/
import Pyiga.Proofs.TensorGen
import Mathlib.Tactic.Linarith

set_option linter.unusedSectionVars false
set_option linter.unusedSimpArgs false
set_option linter.unusedVariables false

namespace Pyiga.Tensor
open Pyiga.Index

/-! ### one axis -/

theorem intIndex_lt (n : Nat) (i : Int) (a : Nat) (h : intIndex n i = .ok a) : a < n := by
  simp only [intIndex] at h
  split at h <;> split at h <;> first | (injection h with h; omega) | cases h

theorem listIndex_lt (n : Nat) : ∀ (l : List Int) (r : List Nat), listIndex n l = .ok r → ∀ x ∈ r, x < n
  | [], r, h => by simp only [listIndex] at h; injection h with h; subst h; simp
  | i :: l, r, h => by
    simp only [listIndex] at h
    cases h1 : intIndex n i with
    | error e => simp [h1, bind, Except.bind] at h
    | ok a =>
      cases h2 : listIndex n l with
      | error e => simp [h1, h2, bind, Except.bind] at h
      | ok rr =>
        simp [h1, h2, bind, Except.bind, pure, Except.pure] at h
        subst h
        intro x hx
        simp only [List.mem_cons] at hx
        rcases hx with rfl | hx
        · exact intIndex_lt n i _ h1
        · exact listIndex_lt n l rr h2 x hx

/-- `PySlice_AdjustIndices` for one bound -/
def pyAdj (len st x : Int) : Int :=
  if x < 0 then (if x + len < 0 then (if st < 0 then -1 else 0) else x + len)
  else if x ≥ len then (if st < 0 then len - 1 else len) else x
/-- adjusted start / stop (`None` = the `PySlice_Unpack` defaults after adjustment) -/
def pyStart (len st : Int) : Option Int → Int
  | none => if st < 0 then len - 1 else 0
  | some x => pyAdj len st x
def pyStop (len st : Int) : Option Int → Int
  | none => if st < 0 then -1 else len
  | some x => pyAdj len st x
/-- length of `range(s, e, st)` -/
def pyCount (s e st : Int) : Nat :=
  if st < 0 then (if e < s then ((s - e - 1) / (-st) + 1).toNat else 0)
  else (if s < e then ((e - s - 1) / st + 1).toNat else 0)

/-- **Python slice semantics**: `range(n)[slice(a, b, c)]` is `ValueError` for step 0 and otherwise the arithmetic
progression `s, s+st, …` (`pyCount s e st` terms) with `(s, e, st) = slice(a, b, c).indices(n)`. -/
theorem sliceRange_eq (n : Nat) (a b c : Option Int) :
    sliceRange n a b c = if c.getD 1 = 0 then .error .value else
      .ok ((List.range (pyCount (pyStart n (c.getD 1) a) (pyStop n (c.getD 1) b) (c.getD 1))).map
        (fun (k : Nat) => (pyStart n (c.getD 1) a + Int.ofNat k * c.getD 1).toNat)) := by
  cases a <;> cases b <;> rfl

theorem pyAdj_bounds (len st x : Int) (hl : 0 ≤ len) :
    (st < 0 → -1 ≤ pyAdj len st x ∧ pyAdj len st x ≤ len - 1) ∧ (¬ st < 0 → 0 ≤ pyAdj len st x ∧ pyAdj len st x ≤ len) := by
  unfold pyAdj
  constructor <;> intro h <;> simp only [h, if_true, if_false] <;> split <;> (try split) <;> omega

theorem pyStart_bounds (len st : Int) (a : Option Int) (hl : 0 ≤ len) :
    (st < 0 → -1 ≤ pyStart len st a ∧ pyStart len st a ≤ len - 1) ∧ (¬ st < 0 → 0 ≤ pyStart len st a ∧ pyStart len st a ≤ len) := by
  cases a with
  | none => unfold pyStart; constructor <;> intro h <;> simp only [h, if_true, if_false] <;> omega
  | some x => exact pyAdj_bounds len st x hl

theorem pyStop_bounds (len st : Int) (b : Option Int) (hl : 0 ≤ len) :
    (st < 0 → -1 ≤ pyStop len st b ∧ pyStop len st b ≤ len - 1) ∧ (¬ st < 0 → 0 ≤ pyStop len st b ∧ pyStop len st b ≤ len) := by
  cases b with
  | none => unfold pyStop; constructor <;> intro h <;> simp only [h, if_true, if_false] <;> omega
  | some x => exact pyAdj_bounds len st x hl

/-- every term of the progression lies strictly between the adjusted bounds -/
theorem progression_between (s e st : Int) (k : Nat) (hst : st ≠ 0) (hk : k < pyCount s e st) :
    (st < 0 → e < s + (k : Int) * st ∧ s + (k : Int) * st ≤ s) ∧
    (¬ st < 0 → s ≤ s + (k : Int) * st ∧ s + (k : Int) * st < e) := by
  unfold pyCount at hk
  constructor
  · intro hneg
    simp only [hneg, if_true] at hk
    split at hk
    · rename_i hes
      have hpos : 0 < -st := by omega
      have hq : 0 ≤ (s - e - 1) / (-st) := Int.ediv_nonneg (by omega) (by omega)
      have hk' : (k : Int) ≤ (s - e - 1) / (-st) := by omega
      have hmul := (Int.le_ediv_iff_mul_le hpos).1 hk'
      have e1 : (k : Int) * st = -((k : Int) * (-st)) := by ring
      have e2 : (k : Int) * st ≤ 0 := Int.mul_nonpos_of_nonneg_of_nonpos (by omega) (by omega)
      constructor <;> omega
    · simp at hk
  · intro hneg
    have hpos : 0 < st := by omega
    simp only [hneg, if_false] at hk
    split at hk
    · rename_i hse
      have hq : 0 ≤ (e - s - 1) / st := Int.ediv_nonneg (by omega) (by omega)
      have hk' : (k : Int) ≤ (e - s - 1) / st := by omega
      have hmul := (Int.le_ediv_iff_mul_le hpos).1 hk'
      have h0 : (0 : Int) ≤ (k : Int) * st := Int.mul_nonneg (by omega) (by omega)
      constructor <;> omega
    · simp at hk

/-- all selected positions are inside the axis -/
theorem sliceRange_lt (n : Nat) (a b c : Option Int) (r : List Nat) (h : sliceRange n a b c = .ok r) :
    ∀ x ∈ r, x < n := by
  rw [sliceRange_eq] at h
  split at h
  · cases h
  · rename_i hst
    injection h with h
    subst h
    intro x hx
    simp only [List.mem_map, List.mem_range] at hx
    obtain ⟨k, hk, rfl⟩ := hx
    have hb := progression_between _ _ _ k hst hk
    have hs := pyStart_bounds (n : Int) (c.getD 1) a (by omega)
    have he := pyStop_bounds (n : Int) (c.getD 1) b (by omega)
    simp only [Int.ofNat_eq_natCast]
    by_cases hneg : c.getD 1 < 0
    · have := hb.1 hneg; have := hs.1 hneg; have := he.1 hneg; omega
    · have := hb.2 hneg; have := hs.2 hneg; have := he.2 hneg; omega

theorem normAxis_ok (n : Nat) (ik : PyIndex) (r : List Nat) (sing : Bool) (h : normAxis n ik = .ok (r, sing)) :
    (∀ x ∈ r, x < n) ∧ (sing = true → r.length = 1) := by
  cases ik with
  | int i =>
    simp only [normAxis] at h
    cases h1 : intIndex n i with
    | error e => simp [h1, bind, Except.bind] at h
    | ok a =>
      simp [h1, bind, Except.bind, pure, Except.pure] at h
      obtain ⟨rfl, rfl⟩ := h
      exact ⟨fun x hx => by simp at hx; subst hx; exact intIndex_lt n i _ h1, fun _ => rfl⟩
  | slice a b c =>
    simp only [normAxis] at h
    cases h1 : sliceRange n a b c with
    | error e => simp [h1, bind, Except.bind] at h
    | ok rr =>
      simp [h1, bind, Except.bind, pure, Except.pure] at h
      obtain ⟨rfl, rfl⟩ := h
      exact ⟨sliceRange_lt n a b c _ h1, fun hh => by simp at hh⟩
  | list l =>
    simp only [normAxis] at h
    cases h1 : listIndex n l with
    | error e => simp [h1, bind, Except.bind] at h
    | ok rr =>
      simp [h1, bind, Except.bind, pure, Except.pure] at h
      obtain ⟨rfl, rfl⟩ := h
      exact ⟨listIndex_lt n l _ h1, fun hh => by simp at hh⟩

/-! ### all axes -/

/-- per-axis position lists are inside their axes -/
def IdxOK : List (List Nat) → List Nat → Prop
  | [], [] => True
  | r :: idx, n :: s => (∀ x ∈ r, x < n) ∧ IdxOK idx s
  | _, _ => False

/-- strictly increasing, starting at `k` or later -/
def StrictFrom : Nat → List Nat → Prop
  | _, [] => True
  | k, a :: ax => k ≤ a ∧ StrictFrom (a + 1) ax

theorem StrictFrom.mono : ∀ {k k' : Nat} {ax : List Nat}, k' ≤ k → StrictFrom k ax → StrictFrom k' ax
  | _, _, [], _, _ => trivial
  | k, k', a :: ax, hk, h => ⟨by have := h.1; omega, h.2⟩

theorem StrictFrom.ge : ∀ {k : Nat} {ax : List Nat}, StrictFrom k ax → ∀ j ∈ ax, k ≤ j
  | _, [], _, j, hj => by simp at hj
  | k, a :: ax, h, j, hj => by
    simp only [List.mem_cons] at hj
    rcases hj with rfl | hj
    · exact h.1
    · have := StrictFrom.ge h.2 j hj; have := h.1; omega

theorem StrictFrom.nodup : ∀ {k : Nat} {ax : List Nat}, StrictFrom k ax → ax.Nodup
  | _, [], _ => List.nodup_nil
  | k, a :: ax, h => by
    refine List.nodup_cons.2 ⟨fun hm => ?_, StrictFrom.nodup h.2⟩
    have := StrictFrom.ge h.2 a hm; omega

/-- a strictly increasing list of `m` numbers in `[k, k+m)` is `k, k+1, …` -/
theorem StrictFrom.eq_range' : ∀ (m k : Nat) (ax : List Nat), StrictFrom k ax → ax.length = m →
    (∀ j ∈ ax, j < k + m) → ax = List.range' k m
  | 0, k, ax, _, hl, _ => by
    have : ax = [] := List.eq_nil_of_length_eq_zero hl
    subst this; rfl
  | m + 1, k, [], _, hl, _ => by simp at hl
  | m + 1, k, a :: ax, h, hl, hlt => by
    have hrest : ∀ j ∈ ax, a + 1 ≤ j := StrictFrom.ge h.2
    have hak : a = k := by
      by_contra hne
      have hak : k < a := by have := h.1; omega
      -- ax has m elements in [a+1, k+m+1) ⊆ fewer than m slots
      have ih := StrictFrom.eq_range' m (a + 1) ax h.2 (by simpa using hl)
      by_cases hm : m = 0
      · subst hm
        have := hlt a (by simp); omega
      · -- the last element a+1+(m-1) would be ≥ k+m+1
        have hax : ∀ j ∈ ax, j < a + 1 + m → True := fun _ _ _ => trivial
        have hall : ∀ j ∈ ax, j < k + (m + 1) := fun j hj => hlt j (by simp [hj])
        -- use pigeonhole through the sum of gaps: take the maximum via induction is heavy; instead show ih applies
        -- when all elements are < a+1+m, else contradiction
        by_cases hb : ∀ j ∈ ax, j < a + 1 + m
        · have := ih hb
          have hmem : a + 1 + (m - 1) ∈ ax := by
            rw [this, List.mem_range'_1]; omega
          have := hall _ hmem; omega
        · push Not at hb
          obtain ⟨j, hj, hjge⟩ := hb
          have := hall j hj; omega
    subst hak
    rw [List.range'_succ]
    congr 1
    exact StrictFrom.eq_range' m (a + 1) ax h.2 (by simpa using hl)
      (fun j hj => by have := hlt j (by simp [hj]); omega)

theorem normGo_ok : ∀ (k : Nat) (I : List PyIndex) (s : List Nat) (nm : NormIdx),
    I.length = s.length → normGo k I s = .ok nm →
    IdxOK nm.idx s ∧ StrictFrom k nm.singl ∧
      ∀ j ∈ nm.singl, j < k + s.length ∧ (nm.idx.map List.length).getD (j - k) 0 = 1
  | k, [], [], nm, _, h => by
    simp only [normGo] at h; injection h with h; subst h
    exact ⟨trivial, trivial, fun j hj => by simp at hj⟩
  | k, ik :: I, n :: s, nm, hl, h => by
    simp only [normGo] at h
    cases h1 : normAxis n ik with
    | error e => simp [h1, bind, Except.bind] at h
    | ok r =>
      cases h2 : normGo (k + 1) I s with
      | error e => simp [h1, h2, bind, Except.bind] at h
      | ok rest =>
        simp [h1, h2, bind, Except.bind, pure, Except.pure] at h
        subst h
        obtain ⟨r1, r2⟩ := r
        obtain ⟨hr, hsing⟩ := normAxis_ok n ik r1 r2 h1
        obtain ⟨hidx, hstr, hsl⟩ := normGo_ok (k + 1) I s rest (by simpa using hl) h2
        refine ⟨⟨hr, hidx⟩, ?_, ?_⟩
        · cases r2 with
          | true => exact ⟨Nat.le_refl _, hstr⟩
          | false => simpa using StrictFrom.mono (Nat.le_succ k) hstr
        · intro j hj
          have hrest : ∀ j ∈ rest.singl, j < k + (n :: s).length ∧
              ((r1 :: rest.idx).map List.length).getD (j - k) 0 = 1 := by
            intro j hj
            obtain ⟨a, b⟩ := hsl j hj
            have hge := StrictFrom.ge hstr j hj
            refine ⟨by simp; omega, ?_⟩
            have : j - k = (j - (k + 1)) + 1 := by omega
            rw [this]; simpa using b
          cases r2 with
          | true =>
            simp only [if_true, List.mem_cons] at hj
            rcases hj with rfl | hj
            · exact ⟨by simp, by simp [hsing rfl]⟩
            · exact hrest j hj
          | false =>
            simp only [Bool.false_eq_true, if_false] at hj
            exact hrest j hj
  | k, [], _ :: _, _, hl, _ => by simp at hl
  | k, _ :: _, [], _, hl, _ => by simp at hl

/-- **`_normalize_indices` spec (structure)**: on success the tuple was not longer than the number of axes, every
selected position lies inside its axis, `shape_new` is the list of selection lengths, and `singleton` is the strictly
increasing list of the integer-indexed axes, each selecting exactly one position. -/
theorem normalizeIndices_ok (I : List PyIndex) (s : List Nat) (nm : NormIdx) (h : normalizeIndices I s = .ok nm) :
    I.length ≤ s.length ∧ IdxOK nm.idx s ∧ nm.shape = nm.idx.map List.length ∧ StrictFrom 0 nm.singl ∧
      ∀ j ∈ nm.singl, j < s.length ∧ (nm.idx.map List.length).getD j 0 = 1 := by
  have hshape := normalizeIndices_shape I s nm h
  simp only [normalizeIndices] at h
  split at h
  · cases h
  · rename_i hl
    have hlen : (I ++ List.replicate (s.length - I.length) (PyIndex.slice none none none)).length = s.length := by
      simp; omega
    obtain ⟨a, b, c⟩ := normGo_ok 0 _ s nm hlen h
    exact ⟨by omega, a, hshape, b, fun j hj => by simpa using c j hj⟩

theorem IdxOK.length : ∀ {idx : List (List Nat)} {s : List Nat}, IdxOK idx s → idx.length = s.length
  | [], [], _ => rfl
  | _ :: idx, _ :: s, h => by simp [IdxOK.length h.2]
  | [], _ :: _, h => by simp [IdxOK] at h
  | _ :: _, [], h => by simp [IdxOK] at h

/-- a picked multi-index lies in the original box -/
theorem pick_inBox : ∀ (idx : List (List Nat)) (s J : List Nat), IdxOK idx s →
    inBox J (idx.map List.length) = true → inBox (pick idx J) s = true
  | [], [], [], _, _ => rfl
  | [], [], _ :: _, _, h => by simp [inBox] at h
  | r :: idx, n :: s, [], _, h => by simp [inBox] at h
  | r :: idx, n :: s, j :: J, hok, h => by
    simp only [List.map_cons, inBox_cons] at h
    simp only [pick, inBox_cons]
    refine ⟨hok.1 _ ?_, pick_inBox idx s J hok.2 h.2⟩
    rw [List.getD_eq_getElem?_getD, List.getElem?_eq_getElem h.1]
    exact List.getElem_mem h.1
  | [], _ :: _, _, hok, _ => by simp [IdxOK] at hok
  | _ :: _, [], _, hok, _ => by simp [IdxOK] at hok

end Pyiga.Tensor
