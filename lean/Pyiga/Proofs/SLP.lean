/-
Soundness of the straight-line-program checkers of `Pyiga/Model/SLP.lean`
(used by C06 `schedule_sound` and C13 `slp_perm_sound`).  Core Lean only.
-/
import Pyiga.Model.SLP

namespace Pyiga.SLP

variable {α : Type}

/-- the interpretation of right-hand sides is *local*: a right-hand side depends only on the
names listed as its reads -/
def Local (sem : String → Store α → α) (p : Prog) : Prop :=
  ∀ s ∈ p, ∀ σ τ : Store α, (∀ v ∈ s.reads, σ v = τ v) → sem s.rhs σ = sem s.rhs τ

theorem upd_same (σ : Store α) (x : String) (v : α) : upd σ x v x = v := by simp [upd]

theorem upd_other (σ : Store α) (x y : String) (v : α) (h : y ≠ x) : upd σ x v y = σ y := by
  simp [upd, h]

/-- a name that is never assigned keeps its initial value -/
theorem run_not_def (sem : String → Store α → α) :
    ∀ (p : Prog) (σ : Store α) (v : String), v ∉ defs p → run sem p σ v = σ v
  | [], _, _, _ => rfl
  | s :: p, σ, v, h => by
      have h1 : v ≠ s.lhs := by
        intro e; apply h; simp [defs, e]
      have h2 : v ∉ defs p := by
        intro e; apply h; simp only [defs, List.map_cons, List.mem_cons]; exact Or.inr e
      simp only [run]
      rw [run_not_def sem p _ v h2, upd_other _ _ _ _ h1]

/-- frame: names known before a def-before-use program are not assigned by it -/
theorem run_known (sem : String → Store α → α) :
    ∀ (p : Prog) (known : List String) (σ : Store α) (v : String),
      defBeforeUse known p = true → v ∈ known → run sem p σ v = σ v
  | [], _, _, _, _, _ => rfl
  | s :: p, known, σ, v, h, hv => by
      simp only [defBeforeUse, Bool.and_eq_true, Bool.not_eq_eq_eq_not, Bool.not_true] at h
      obtain ⟨⟨_, hl⟩, hp⟩ := h
      have hne : v ≠ s.lhs := by
        intro e; subst e
        have : known.contains s.lhs = true := by simpa using hv
        rw [this] at hl; cases hl
      simp only [run]
      rw [run_known sem p (s.lhs :: known) _ v hp (List.mem_cons_of_mem _ hv), upd_other _ _ _ _ hne]

/-- **schedule_sound**: in a def-before-use order every variable ends up holding the value of its
defining right-hand side *in the final store*, i.e. `eval` of its definition. -/
theorem run_fixpoint (sem : String → Store α → α) :
    ∀ (p : Prog) (known : List String) (σ : Store α),
      defBeforeUse known p = true → Local sem p →
      ∀ s ∈ p, run sem p σ s.lhs = sem s.rhs (run sem p σ)
  | [], _, _, _, _, s, hs => by cases hs
  | s0 :: p, known, σ, h, hloc, s, hs => by
      have h' := h
      simp only [defBeforeUse, Bool.and_eq_true, Bool.not_eq_eq_eq_not, Bool.not_true] at h
      obtain ⟨⟨hr, hl⟩, hp⟩ := h
      have hlocp : Local sem p := fun t ht => hloc t (List.mem_cons_of_mem _ ht)
      simp only [run]
      rcases List.mem_cons.mp hs with e | hs'
      · subst e
        rw [run_known sem p (s.lhs :: known) _ s.lhs hp (List.mem_cons_self ..), upd_same]
        apply hloc s (List.mem_cons_self ..)
        intro v hv
        have hvk : v ∈ known := by
          have := List.all_eq_true.mp hr v hv
          simpa using this
        have hne : v ≠ s.lhs := by
          intro e; subst e
          have : known.contains s.lhs = true := by simpa using hvk
          rw [this] at hl; cases hl
        rw [run_known sem p (s.lhs :: known) _ v hp (List.mem_cons_of_mem _ hvk), upd_other _ _ _ _ hne]
      · exact run_fixpoint sem p (s0.lhs :: known) _ hp hlocp s hs'

/-- uniqueness of the solution of the defining equations along a def-before-use order -/
theorem fixpoint_unique (sem : String → Store α → α) :
    ∀ (p : Prog) (known : List String) (σ τ : Store α),
      defBeforeUse known p = true → Local sem p →
      (∀ v ∈ known, σ v = τ v) →
      (∀ s ∈ p, σ s.lhs = sem s.rhs σ) → (∀ s ∈ p, τ s.lhs = sem s.rhs τ) →
      ∀ s ∈ p, σ s.lhs = τ s.lhs
  | [], _, _, _, _, _, _, _, _, s, hs => by cases hs
  | s0 :: p, known, σ, τ, h, hloc, hk, hσ, hτ, s, hs => by
      simp only [defBeforeUse, Bool.and_eq_true, Bool.not_eq_eq_eq_not, Bool.not_true] at h
      obtain ⟨⟨hr, _⟩, hp⟩ := h
      have h0 : σ s0.lhs = τ s0.lhs := by
        rw [hσ s0 (List.mem_cons_self ..), hτ s0 (List.mem_cons_self ..)]
        apply hloc s0 (List.mem_cons_self ..)
        intro v hv
        apply hk
        have := List.all_eq_true.mp hr v hv
        simpa using this
      rcases List.mem_cons.mp hs with e | hs'
      · subst e; exact h0
      · refine fixpoint_unique sem p (s0.lhs :: known) σ τ hp (fun t ht => hloc t (List.mem_cons_of_mem _ ht)) ?_
          (fun t ht => hσ t (List.mem_cons_of_mem _ ht)) (fun t ht => hτ t (List.mem_cons_of_mem _ ht)) s hs'
        intro v hv
        rcases List.mem_cons.mp hv with e | hv'
        · subst e; exact h0
        · exact hk v hv'

theorem mem_defs {p : Prog} {v : String} : v ∈ defs p ↔ ∃ s ∈ p, s.lhs = v := by
  simp [defs]

/-- **slp_perm_sound**: two single-assignment, def-before-use programs over the same inputs that
are permutations of each other compute the same final store from every initial store. -/
theorem perm_run_eq (sem : String → Store α → α) (known : List String) (p q : Prog)
    (hp : defBeforeUse known p = true) (hq : defBeforeUse known q = true) (hpq : p.Perm q)
    (hloc : Local sem p) (σ : Store α) (v : String) :
    run sem p σ v = run sem q σ v := by
  have hlocq : Local sem q := fun s hs => hloc s (hpq.mem_iff.mpr hs)
  have eqp := run_fixpoint sem p known σ hp hloc
  have eqq := run_fixpoint sem q known σ hq hlocq
  have eqq' : ∀ s ∈ p, run sem q σ s.lhs = sem s.rhs (run sem q σ) := fun s hs => eqq s (hpq.mem_iff.mp hs)
  have hk : ∀ v ∈ known, run sem p σ v = run sem q σ v := fun v hv => by
    rw [run_known sem p known σ v hp hv, run_known sem q known σ v hq hv]
  have huniq := fixpoint_unique sem p known _ _ hp hloc hk eqp eqq'
  by_cases hv : v ∈ defs p
  · obtain ⟨s, hs, rfl⟩ := mem_defs.mp hv
    exact huniq s hs
  · have hvq : v ∉ defs q := by
      intro h
      obtain ⟨s, hs, e⟩ := mem_defs.mp h
      exact hv (mem_defs.mpr ⟨s, hpq.mem_iff.mpr hs, e⟩)
    rw [run_not_def sem p σ v hv, run_not_def sem q σ v hvq]

/-- the executable checker is sound -/
theorem permEquiv_sound (sem : String → Store α → α) (inputs : List String) (p q : Prog)
    (h : permEquiv inputs p q = true) (hloc : Local sem p) (σ : Store α) :
    run sem p σ = run sem q σ := by
  simp only [permEquiv, Bool.and_eq_true] at h
  obtain ⟨⟨hp, hq⟩, hperm⟩ := h
  funext v
  exact perm_run_eq sem inputs p q hp hq (List.isPerm_iff.mp hperm) hloc σ v

end Pyiga.SLP
