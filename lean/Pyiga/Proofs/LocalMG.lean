/-
Composition lemmas for property C11: the concrete `localMgStep` of `Model/LocalMG.lean`
(Gauss-Seidel smoothers of the CSR kernel, Galerkin coarse matrices, coarse correction
from a zero initial guess) does not increase the energy and fixes exact solutions.
-/
import Pyiga.Model.LocalMG
import Pyiga.Proofs.Relax

namespace Pyiga.Relax

open Finset
set_option linter.unusedSectionVars false
set_option linter.unusedSimpArgs false

section basic
variable {K : Type} [Field K] [DecidableEq K]

theorem getD_range_map (n : ℕ) (g : ℕ → K) (i : ℕ) :
    ((List.range n).map g).getD i 0 = if i < n then g i else 0 := by
  by_cases h : i < n
  · simp [List.getD_eq_getElem?_getD, h]
  · simp [List.getD_eq_getElem?_getD, h]

theorem getD_padTo (n : ℕ) (l : List K) (i : ℕ) :
    (padTo n l).getD i 0 = if i < n then l.getD i 0 else 0 := getD_range_map n _ i

theorem length_padTo (n : ℕ) (l : List K) : (padTo n l).length = n := by simp [padTo]

theorem getD_padAdd (u v : List K) (i : ℕ) :
    (padAdd u v).getD i 0 = u.getD i 0 + v.getD i 0 := by
  induction u generalizing v i with
  | nil => simp [padAdd]
  | cons a u ih =>
    cases v with
    | nil => simp [padAdd]
    | cons b v =>
      cases i with
      | zero => simp [padAdd]
      | succ i => simpa [padAdd] using ih v i

theorem getD_padSub (u v : List K) (i : ℕ) :
    (padSub u v).getD i 0 = u.getD i 0 - v.getD i 0 := by
  induction u generalizing v i with
  | nil =>
    simp only [padSub, List.getD_nil, zero_sub]
    by_cases h : i < v.length
    · simp [List.getD_eq_getElem?_getD, h]
    · simp [List.getD_eq_getElem?_getD, h]
  | cons a u ih =>
    cases v with
    | nil => simp [padSub]
    | cons b v =>
      cases i with
      | zero => simp [padSub]
      | succ i => simpa [padSub] using ih v i

theorem sumTo_eq_sum (n : ℕ) (f : ℕ → K) : sumTo n f = ∑ k ∈ range n, f k := by
  unfold sumTo
  induction n with
  | zero => simp
  | succ n ih => rw [List.range_succ, List.foldl_append, ih, sum_range_succ]; simp

theorem getD_dmv (n m : ℕ) (A : ℕ → ℕ → K) (x : List K) (i : ℕ) :
    (dmv n m A x).getD i 0 = if i < n then ∑ j ∈ range m, A i j * x.getD j 0 else 0 := by
  unfold dmv; rw [getD_range_map]; simp only [denseDot_eq_sum]

theorem getD_dmvT (n m : ℕ) (P : ℕ → ℕ → K) (r : List K) (j : ℕ) :
    (dmvT n m P r).getD j 0 = if j < m then ∑ k ∈ range n, P k j * r.getD k 0 else 0 := by
  unfold dmvT; rw [getD_range_map]; simp only [denseDot_eq_sum]

theorem length_dmv (n m : ℕ) (A : ℕ → ℕ → K) (x : List K) : (dmv n m A x).length = n := by
  simp [dmv]

theorem galerkinEntry_eq (n : ℕ) (A P : ℕ → ℕ → K) (i j : ℕ) :
    galerkinEntry n A P i j = ∑ k ∈ range n, P k i * ∑ l ∈ range n, A k l * P l j := by
  unfold galerkinEntry; rw [sumTo_eq_sum]; simp only [sumTo_eq_sum]

theorem energy_congr (n : ℕ) (A : ℕ → ℕ → K) (b b' x x' : ℕ → K)
    (hx : ∀ j < n, x j = x' j) (hb : ∀ i < n, b i = b' i) :
    energy n A b x = energy n A b' x' := by
  unfold energy
  congr 1
  · congr 1
    apply sum_congr rfl; intro i hi
    apply sum_congr rfl; intro j hj
    rw [hx i (mem_range.mp hi), hx j (mem_range.mp hj)]
  · apply sum_congr rfl; intro i hi
    rw [hx i (mem_range.mp hi), hb i (mem_range.mp hi)]

theorem energy_zero (n : ℕ) (A : ℕ → ℕ → K) (b : ℕ → K) : energy n A b (fun _ => 0) = 0 := by
  simp [energy]

/-- **Galerkin energy identity** (pure big-operator form): with `r = f − A X`,
`rc = Pᵀ r`, `Ac = Pᵀ A P` and `A` symmetric,
`E_A(X + P C; f) = E_A(X; f) + E_{Ac}(C; rc)`. -/
theorem galerkin_energy_identity (n m : ℕ) (A P Ac : ℕ → ℕ → K) (f X C : ℕ → K) [NeZero (2 : K)]
    (hsym : ∀ i < n, ∀ j < n, A i j = A j i)
    (hAc : ∀ i < m, ∀ j < m, Ac i j = ∑ k ∈ range n, P k i * ∑ l ∈ range n, A k l * P l j) :
    energy n A f (fun i => X i + ∑ j ∈ range m, P i j * C j)
      = energy n A f X
        + energy m Ac (fun j => ∑ k ∈ range n, P k j * (f k - ∑ l ∈ range n, A k l * X l)) C := by
  rw [energy_add n A f X _ hsym]
  have h1 : ∑ i ∈ range n, (∑ j ∈ range m, P i j * C j) * (∑ l ∈ range n, A i l * X l - f i)
      = - ∑ j ∈ range m, (∑ k ∈ range n, P k j * (f k - ∑ l ∈ range n, A k l * X l)) * C j := by
    rw [← sum_neg_distrib]
    simp only [sum_mul]
    rw [sum_comm]
    apply sum_congr rfl; intro j _
    rw [← sum_neg_distrib]
    apply sum_congr rfl; intro i _
    ring
  have h2 : ∑ i ∈ range n, ∑ k ∈ range n, (∑ j ∈ range m, P i j * C j) * A i k * (∑ l ∈ range m, P k l * C l)
      = ∑ j ∈ range m, ∑ l ∈ range m, C j * Ac j l * C l := by
    have rhs : ∀ j ∈ range m, ∀ l ∈ range m, C j * Ac j l * C l
        = ∑ i ∈ range n, ∑ k ∈ range n, (P i j * C j) * A i k * (P k l * C l) := by
      intro j hj l hl
      rw [hAc j (mem_range.mp hj) l (mem_range.mp hl)]
      simp only [mul_sum, sum_mul]
      apply sum_congr rfl; intro i _
      apply sum_congr rfl; intro k _
      ring
    have lhs : ∀ i ∈ range n, ∀ k ∈ range n,
        (∑ j ∈ range m, P i j * C j) * A i k * (∑ l ∈ range m, P k l * C l)
        = ∑ j ∈ range m, ∑ l ∈ range m, (P i j * C j) * A i k * (P k l * C l) := by
      intro i _ k _
      simp only [mul_sum, sum_mul]
      rw [sum_comm]
    rw [sum_congr rfl (fun i hi => sum_congr rfl (fun k hk => lhs i hi k hk))]
    rw [sum_congr rfl (fun j hj => sum_congr rfl (fun l hl => rhs j hj l hl))]
    -- reorder the four sums: (i,k,j,l) -> (j,l,i,k)
    calc ∑ i ∈ range n, ∑ k ∈ range n, ∑ j ∈ range m, ∑ l ∈ range m, (P i j * C j) * A i k * (P k l * C l)
        = ∑ i ∈ range n, ∑ j ∈ range m, ∑ k ∈ range n, ∑ l ∈ range m, (P i j * C j) * A i k * (P k l * C l) := by
          apply sum_congr rfl; intro i _; rw [sum_comm]
      _ = ∑ j ∈ range m, ∑ i ∈ range n, ∑ k ∈ range n, ∑ l ∈ range m, (P i j * C j) * A i k * (P k l * C l) := by
          rw [sum_comm]
      _ = ∑ j ∈ range m, ∑ i ∈ range n, ∑ l ∈ range m, ∑ k ∈ range n, (P i j * C j) * A i k * (P k l * C l) := by
          apply sum_congr rfl; intro j _; apply sum_congr rfl; intro i _; rw [sum_comm]
      _ = ∑ j ∈ range m, ∑ l ∈ range m, ∑ i ∈ range n, ∑ k ∈ range n, (P i j * C j) * A i k * (P k l * C l) := by
          apply sum_congr rfl; intro j _; rw [sum_comm]
  rw [h1, h2]
  unfold energy
  have e : ∑ i ∈ range m, (∑ k ∈ range n, P k i * (f k - ∑ l ∈ range n, A k l * X l)) * C i
      = ∑ i ∈ range m, (∑ k ∈ range n, P k i * (f k - ∑ l ∈ range n, A k l * X l)) * C i := rfl
  ring

/-! ### the stored rows of a level matrix are canonical -/

theorem rowVal_append (l₁ l₂ : List (ℕ × K)) (j : ℕ) :
    rowVal (l₁ ++ l₂) j = rowVal l₁ j + rowVal l₂ j := by
  simp [rowVal, List.filter_append, List.map_append, List.sum_append]

theorem denseRow_succ (n : ℕ) (A : ℕ → ℕ → K) (i : ℕ) :
    denseRow (n + 1) A i = denseRow n A i ++ [(n, A i n)] := by
  simp [denseRow, List.range_succ, List.map_append]

theorem rowVal_denseRow (n : ℕ) (A : ℕ → ℕ → K) (i j : ℕ) :
    rowVal (denseRow n A i) j = if j < n then A i j else 0 := by
  induction n with
  | zero => simp [denseRow, rowVal]
  | succ n ih =>
    rw [denseRow_succ, rowVal_append, ih]
    by_cases h1 : j < n
    · have : n ≠ j := by omega
      simp [rowVal, h1, this, Nat.lt_succ_of_lt h1]
    · by_cases h2 : j = n
      · subst h2; simp [rowVal]
      · have h3 : ¬ j < n + 1 := by omega
        have : n ≠ j := fun h => h2 h.symm
        simp [rowVal, h1, h3, this]

theorem denseRow_diag (n : ℕ) (A : ℕ → ℕ → K) (i : ℕ) :
    ((denseRow n A i).filter (fun e => e.1 = i)).length = if i < n then 1 else 0 := by
  induction n with
  | zero => simp [denseRow]
  | succ n ih =>
    rw [denseRow_succ, List.filter_append, List.length_append, ih]
    by_cases h1 : i < n
    · have : n ≠ i := by omega
      simp [h1, this, Nat.lt_succ_of_lt h1]
    · by_cases h2 : i = n
      · subst h2; simp
      · have h3 : ¬ i < n + 1 := by omega
        have : n ≠ i := fun h => h2 h.symm
        simp [h1, h3, this]

theorem denseRow_cols (n : ℕ) (A : ℕ → ℕ → K) (i : ℕ) : ∀ e ∈ denseRow n A i, e.1 < n := by
  intro e he
  simp only [denseRow, List.mem_map, List.mem_range] at he
  obtain ⟨j, hj, rfl⟩ := he
  exact hj

/-- on the stored rows of a level matrix the CSR kernel is the dense update. -/
theorem gsUpdate_denseRow (n : ℕ) (A : ℕ → ℕ → K) (b : ℕ → K) (x : List K) (i : ℕ)
    (hi : i < n) (hne : A i i ≠ 0) :
    gsUpdate (denseRow n A i) b x i = denseUpdate n A b x i := by
  have hd : ((denseRow n A i).filter (fun e => e.1 = i)).length ≤ 1 := by
    rw [denseRow_diag]; split <;> omega
  have hrv : ∀ j < n, A i j = rowVal (denseRow n A i) j := by
    intro j hj; rw [rowVal_denseRow, if_pos hj]
  have hne' : rowVal (denseRow n A i) i ≠ 0 := by rw [← hrv i hi]; exact hne
  exact (gs_dense_sparse (denseRow n A i) A b x i n hd (denseRow_cols n A i) hi hne' hrv).symm

theorem gsRowsSweep_denseRow (n : ℕ) (A : ℕ → ℕ → K) (b : ℕ → K) (idx : List ℕ)
    (hidx : ∀ i ∈ idx, i < n ∧ A i i ≠ 0) (x : List K) :
    gsRowsSweep (denseRow n A) b idx x = denseSweep n A b idx x := by
  induction idx generalizing x with
  | nil => rfl
  | cons i idx ih =>
    obtain ⟨hi, hne⟩ := hidx i List.mem_cons_self
    simp only [gsRowsSweep, denseSweep, List.foldl_cons]
    rw [gsUpdate_denseRow n A b x i hi hne]
    exact ih (fun j hj => hidx j (List.mem_cons_of_mem _ hj)) _

theorem iter_congr {β : Type} (f g : β → β) (h : ∀ x, f x = g x) (k : ℕ) (x : β) :
    iter f k x = iter g k x := by
  induction k generalizing x with
  | zero => rfl
  | succ k ih => simp only [iter]; rw [h x]; exact ih _

theorem gaussSeidel_denseRow (n : ℕ) (A : ℕ → ℕ → K) (b : ℕ → K) (idx : List ℕ)
    (hidx : ∀ i ∈ idx, i < n ∧ A i i ≠ 0) (k : ℕ) (sw : Sweep) (x : List K) :
    gaussSeidel (gsRowsSweep (denseRow n A) b) n (some idx) k sw x
      = gaussSeidel (denseSweep n A b) n (some idx) k sw x := by
  have hrev : ∀ i ∈ idx.reverse, i < n ∧ A i i ≠ 0 := fun i hi => hidx i (List.mem_reverse.mp hi)
  unfold gaussSeidel
  simp only [Option.getD_some]
  cases sw with
  | forward => exact iter_congr _ _ (fun y => gsRowsSweep_denseRow n A b idx hidx y) k x
  | backward => exact iter_congr _ _ (fun y => gsRowsSweep_denseRow n A b idx.reverse hrev y) k x
  | symmetric =>
    refine iter_congr _ _ (fun y => ?_) k x
    rw [gsRowsSweep_denseRow n A b idx hidx y, gsRowsSweep_denseRow n A b idx.reverse hrev _]

end basic

/-! ### energy monotonicity of the concrete V-cycle -/

section energyMG
variable {K : Type} [Field K] [LinearOrder K] [IsStrictOrderedRing K]

/-- level energy `E_lv(x; f) = ½ xᵀ As[lv] x − fᵀx` of list vectors -/
def lvE (S : MGSetup K) (lv : ℕ) (x f : LVec K) : K :=
  energy (S.size lv) (S.A lv) (fun i => f.d.getD i 0) (fun j => x.d.getD j 0)

theorem lvE_zero (S : MGSetup K) (lv : ℕ) (f : LVec K) : lvE S lv 0 f = 0 := by
  unfold lvE
  have : (fun j => ((0 : LVec K).d).getD j (0 : K)) = fun _ => 0 := by
    funext j; show ([] : List K).getD j 0 = 0; simp
  rw [this, energy_zero]

/-- the Gauss-Seidel sweeps `local_mg_step` runs on level `lv` do not increase the level energy. -/
theorem gsRun_energy_le (S : MGSetup K) (lv : ℕ) (sw : Sweep) (x f : LVec K)
    (hsym : ∀ i < S.size lv, ∀ j < S.size lv, S.A lv i j = S.A lv j i)
    (hind : ∀ i ∈ S.ind lv, i < S.size lv ∧ 0 < S.A lv i i) :
    lvE S lv ⟨gaussSeidel (gsRowsSweep (denseRow (S.size lv) (S.A lv)) (fun i => f.d.getD i 0))
      (S.size lv) (some (S.ind lv)) S.steps sw (padTo (S.size lv) x.d)⟩ f ≤ lvE S lv x f := by
  have hne : ∀ i ∈ S.ind lv, i < S.size lv ∧ S.A lv i i ≠ 0 :=
    fun i hi => ⟨(hind i hi).1, ne_of_gt (hind i hi).2⟩
  rw [gaussSeidel_denseRow _ _ _ _ hne]
  have h := gaussSeidel_dense_energy_le (S.size lv) (S.A lv) (fun i => f.d.getD i 0) hsym (S.ind lv) hind
    S.steps sw (padTo (S.size lv) x.d) (by rw [length_padTo])
  refine le_trans h (le_of_eq ?_)
  unfold lvE vecFn
  apply energy_congr
  · intro j hj; rw [getD_padTo, if_pos hj]
  · intro i _; rfl

/-- pre- and post-smoothing with one of the four Gauss-Seidel smoothers. -/
theorem mgSmoothC_gs_energy_le (S : MGSetup K) (post : Bool) (lv : ℕ) (x f : LVec K)
    (hsm : S.smoother < 4)
    (hsym : ∀ i < S.size lv, ∀ j < S.size lv, S.A lv i j = S.A lv j i)
    (hind : ∀ i ∈ S.ind lv, i < S.size lv ∧ 0 < S.A lv i i) :
    lvE S lv (mgSmoothC S post lv x f) f ≤ lvE S lv x f := by
  have h4 : S.smoother = 0 ∨ S.smoother = 1 ∨ S.smoother = 2 ∨ S.smoother = 3 := by omega
  rcases h4 with h | h | h | h <;> simp only [mgSmoothC, h] <;>
    exact gsRun_energy_le S lv _ x f hsym hind

/-- unfolding of one level of the recursion (`mgStep` equation). -/
theorem localMgStepAt_succ (S : MGSetup K) (lv : ℕ) (x f : LVec K) :
    localMgStepAt S (lv + 1) x f =
      mgSmoothC S true (lv + 1)
        (mgSmoothC S false (lv + 1) x f +
          ⟨dmv (S.size (lv + 1)) (S.size lv) (S.P lv)
            (localMgStepAt S lv 0
              ⟨dmvT (S.size (lv + 1)) (S.size lv) (S.P lv)
                (f - ⟨dmv (S.size (lv + 1)) (S.size (lv + 1)) (S.A (lv + 1))
                  (mgSmoothC S false (lv + 1) x f).d⟩).d⟩).d⟩) f := rfl

theorem localMgStepAt_zero (S : MGSetup K) (x f : LVec K) :
    localMgStepAt S 0 x f = mgSolve0C S x f := rfl

/-- **coarse correction** on the concrete vectors:
`E_{lv+1}(x + P c; f) = E_{lv+1}(x; f) + E_lv(c; Pᵀ(f − A x))`. -/
theorem lvE_correction (S : MGSetup K) (lv : ℕ) (x c f : LVec K)
    (hsym : ∀ i < S.size (lv + 1), ∀ j < S.size (lv + 1), S.A (lv + 1) i j = S.A (lv + 1) j i)
    (hgal : ∀ i < S.size lv, ∀ j < S.size lv,
      S.A lv i j = galerkinEntry (S.size (lv + 1)) (S.A (lv + 1)) (S.P lv) i j) :
    lvE S (lv + 1) (x + ⟨dmv (S.size (lv + 1)) (S.size lv) (S.P lv) c.d⟩) f
      = lvE S (lv + 1) x f
        + lvE S lv c ⟨dmvT (S.size (lv + 1)) (S.size lv) (S.P lv)
            (f - ⟨dmv (S.size (lv + 1)) (S.size (lv + 1)) (S.A (lv + 1)) x.d⟩).d⟩ := by
  have hAc : ∀ i < S.size lv, ∀ j < S.size lv, S.A lv i j
      = ∑ k ∈ range (S.size (lv + 1)), S.P lv k i * ∑ l ∈ range (S.size (lv + 1)), S.A (lv + 1) k l * S.P lv l j := by
    intro i hi j hj; rw [hgal i hi j hj, galerkinEntry_eq]
  have key := galerkin_energy_identity (S.size (lv + 1)) (S.size lv) (S.A (lv + 1)) (S.P lv) (S.A lv)
    (fun i => f.d.getD i 0) (fun j => x.d.getD j 0) (fun j => c.d.getD j 0) hsym hAc
  have hL : lvE S (lv + 1) (x + ⟨dmv (S.size (lv + 1)) (S.size lv) (S.P lv) c.d⟩) f
      = energy (S.size (lv + 1)) (S.A (lv + 1)) (fun i => f.d.getD i 0)
          (fun i => x.d.getD i 0 + ∑ j ∈ range (S.size lv), S.P lv i j * c.d.getD j 0) := by
    unfold lvE
    apply energy_congr
    · intro j hj
      show (padAdd x.d (dmv _ _ _ c.d)).getD j 0 = _
      rw [getD_padAdd, getD_dmv, if_pos hj]
    · intro i _; rfl
  have hR : lvE S lv c ⟨dmvT (S.size (lv + 1)) (S.size lv) (S.P lv)
            (f - ⟨dmv (S.size (lv + 1)) (S.size (lv + 1)) (S.A (lv + 1)) x.d⟩).d⟩
      = energy (S.size lv) (S.A lv)
          (fun j => ∑ k ∈ range (S.size (lv + 1)), S.P lv k j *
            (f.d.getD k 0 - ∑ l ∈ range (S.size (lv + 1)), S.A (lv + 1) k l * x.d.getD l 0))
          (fun j => c.d.getD j 0) := by
    unfold lvE
    apply energy_congr
    · intro j _; rfl
    · intro j hj
      show (dmvT _ _ _ (padSub f.d (dmv _ _ _ x.d))).getD j 0 = _
      rw [getD_dmvT, if_pos hj]
      apply sum_congr rfl; intro k hk
      rw [getD_padSub, getD_dmv, if_pos (mem_range.mp hk)]
  rw [hL, hR, key]
  rfl

/-- **Energy monotonicity of the V-cycle, all level counts**, given that the smoothers of
every level `≥ 1` and the level-0 branch (from a zero start) do not increase the energy. -/
theorem localMgStepAt_energy_le (S : MGSetup K)
    (hsym : ∀ lv ≤ S.top, ∀ i < S.size lv, ∀ j < S.size lv, S.A lv i j = S.A lv j i)
    (hgal : ∀ lv < S.top, ∀ i < S.size lv, ∀ j < S.size lv,
      S.A lv i j = galerkinEntry (S.size (lv + 1)) (S.A (lv + 1)) (S.P lv) i j)
    (hsmooth : ∀ post lv, 1 ≤ lv → lv ≤ S.top → ∀ x f, lvE S lv (mgSmoothC S post lv x f) f ≤ lvE S lv x f)
    (h0 : ∀ f, lvE S 0 (mgSolve0C S 0 f) f ≤ 0) :
    ∀ lv ≤ S.top, (∀ f, lvE S lv (localMgStepAt S lv 0 f) f ≤ 0) ∧
      (1 ≤ lv → ∀ x f, lvE S lv (localMgStepAt S lv x f) f ≤ lvE S lv x f) := by
  intro lv
  induction lv with
  | zero =>
    intro _
    refine ⟨fun f => ?_, fun h => absurd h (by omega)⟩
    rw [localMgStepAt_zero]; exact h0 f
  | succ lv ih =>
    intro hle
    have ihl := (ih (by omega)).1
    have step : ∀ x f, lvE S (lv + 1) (localMgStepAt S (lv + 1) x f) f ≤ lvE S (lv + 1) x f := by
      intro x f
      rw [localMgStepAt_succ]
      refine le_trans (hsmooth true (lv + 1) (by omega) hle _ f) ?_
      rw [lvE_correction S lv _ _ f (hsym (lv + 1) hle) (hgal lv (by omega))]
      have hc := ihl ⟨dmvT (S.size (lv + 1)) (S.size lv) (S.P lv)
        (f - ⟨dmv (S.size (lv + 1)) (S.size (lv + 1)) (S.A (lv + 1))
          (mgSmoothC S false (lv + 1) x f).d⟩).d⟩
      have hp := hsmooth false (lv + 1) (by omega) hle x f
      linarith
    refine ⟨fun f => ?_, fun _ => step⟩
    have := step 0 f
    rw [lvE_zero] at this
    exact this

end energyMG

/-! ### exact subspace solves (`exact` smoother, level-0 branch) -/

section subspace
variable {K : Type} [Field K] [LinearOrder K] [IsStrictOrderedRing K]

/-- the vector `x[ind] += c` adds to `0`: entry `i` collects the `c[k]` with `ind[k] = i`. -/
def scatterFn (ind : List ℕ) (c : List K) (i : ℕ) : K :=
  ∑ k ∈ range ind.length, if ind.getD k 0 = i then c.getD k 0 else 0

theorem scatterFn_nil (c : List K) (i : ℕ) : scatterFn [] c i = 0 := by simp [scatterFn]

theorem scatterFn_cons_nil (ind : List ℕ) (i : ℕ) : scatterFn ind ([] : List K) i = 0 := by
  simp [scatterFn]

theorem scatterFn_cons (i0 : ℕ) (ind : List ℕ) (c0 : K) (c : List K) (i : ℕ) :
    scatterFn (i0 :: ind) (c0 :: c) i = (if i0 = i then c0 else 0) + scatterFn ind c i := by
  unfold scatterFn
  rw [List.length_cons, sum_range_succ']
  simp [add_comm]

theorem getD_scatterAdd (x : List K) (ind : List ℕ) (c : List K)
    (hind : ∀ j ∈ ind, j < x.length) (i : ℕ) :
    (scatterAdd x ind c).getD i 0 = x.getD i 0 + scatterFn ind c i := by
  induction ind generalizing x c with
  | nil => simp [scatterAdd, scatterFn_nil]
  | cons i0 ind ih =>
    cases c with
    | nil => simp [scatterAdd, scatterFn_cons_nil]
    | cons c0 c =>
      have h0 : i0 < x.length := hind i0 List.mem_cons_self
      have hrest : ∀ j ∈ ind, j < (x.set i0 (x.getD i0 0 + c0)).length := by
        intro j hj; rw [List.length_set]; exact hind j (List.mem_cons_of_mem _ hj)
      have := ih (x.set i0 (x.getD i0 0 + c0)) c hrest
      simp only [scatterAdd, List.zip_cons_cons, List.foldl_cons] at this ⊢
      rw [this, getD_set _ _ _ _ h0, scatterFn_cons]
      by_cases h : i = i0
      · subst h; simp; ring
      · have : ¬ i0 = i := fun hh => h hh.symm
        simp [h, this]

theorem length_scatterAdd (x : List K) (ind : List ℕ) (c : List K) :
    (scatterAdd x ind c).length = x.length := by
  unfold scatterAdd
  generalize ind.zip c = l
  induction l generalizing x with
  | nil => rfl
  | cons p l ih => simp only [List.foldl_cons]; rw [ih, List.length_set]

/-- `x[ind] = c` equals `x[ind] += c` when `x` vanishes on `ind` and `ind` has no repetitions. -/
theorem scatterSet_eq_scatterAdd (x : List K) (ind : List ℕ) (c : List K)
    (hz : ∀ j ∈ ind, x.getD j 0 = 0) (hnd : ind.Nodup) (hlen : ∀ j ∈ ind, j < x.length) :
    scatterSet x ind c = scatterAdd x ind c := by
  induction ind generalizing x c with
  | nil => simp [scatterSet, scatterAdd]
  | cons i0 ind ih =>
    cases c with
    | nil => simp [scatterSet, scatterAdd]
    | cons c0 c =>
      have hni : i0 ∉ ind := (List.nodup_cons.mp hnd).1
      have h0 : i0 < x.length := hlen i0 List.mem_cons_self
      simp only [scatterSet, scatterAdd, List.zip_cons_cons, List.foldl_cons]
      rw [hz i0 List.mem_cons_self, zero_add]
      have := ih (x.set i0 c0) c
        (fun j hj => by
          have hne : j ≠ i0 := fun h => hni (h ▸ hj)
          rw [getD_set _ _ _ _ h0, if_neg hne]; exact hz j (List.mem_cons_of_mem _ hj))
        (List.nodup_cons.mp hnd).2
        (fun j hj => by rw [List.length_set]; exact hlen j (List.mem_cons_of_mem _ hj))
      simpa [scatterSet, scatterAdd] using this

/-- reindexing: a sum against a scattered vector is a sum over the index list. -/
theorem sum_scatterFn_mul (n : ℕ) (ind : List ℕ) (c : List K) (g : ℕ → K)
    (hind : ∀ k < ind.length, ind.getD k 0 < n) :
    ∑ i ∈ range n, scatterFn ind c i * g i = ∑ k ∈ range ind.length, c.getD k 0 * g (ind.getD k 0) := by
  unfold scatterFn
  simp only [sum_mul]
  rw [sum_comm]
  apply sum_congr rfl; intro k hk
  have : ∀ i ∈ range n, (if ind.getD k 0 = i then c.getD k 0 else 0) * g i
      = if ind.getD k 0 = i then c.getD k 0 * g (ind.getD k 0) else 0 := by
    intro i _
    by_cases h : ind.getD k 0 = i
    · rw [if_pos h, if_pos h, h]
    · rw [if_neg h, if_neg h, zero_mul]
  rw [sum_congr rfl this, sum_ite_eq, if_pos (mem_range.mpr (hind k (mem_range.mp hk)))]

/-- **Exact subspace correction does not increase the energy.**  `c` solves the principal
subsystem `A[ind, ind] c = (f − A x)[ind]`, `A` symmetric positive semidefinite. -/
theorem subspace_step_energy_le (n : ℕ) (A : ℕ → ℕ → K) (f : ℕ → K) (x : List K) (ind : List ℕ)
    (c : List K) (hlen : x.length = n) (hind : ∀ j ∈ ind, j < n)
    (hsym : ∀ i < n, ∀ j < n, A i j = A j i)
    (hpsd : ∀ v : ℕ → K, 0 ≤ ∑ i ∈ range n, ∑ j ∈ range n, v i * A i j * v j)
    (hc : ∀ k < ind.length, ∑ m ∈ range ind.length, A (ind.getD k 0) (ind.getD m 0) * c.getD m 0
        = f (ind.getD k 0) - ∑ j ∈ range n, A (ind.getD k 0) j * x.getD j 0) :
    energy n A f (vecFn (scatterAdd x ind c)) ≤ energy n A f (vecFn x) := by
  have hk : ∀ k < ind.length, ind.getD k 0 < n := by
    intro k hk
    have : ind.getD k 0 = ind[k] := by simp [List.getD_eq_getElem?_getD, hk]
    rw [this]; exact hind _ (List.getElem_mem hk)
  have hfn : vecFn (scatterAdd x ind c) = fun i => vecFn x i + scatterFn ind c i := by
    funext i; unfold vecFn
    exact getD_scatterAdd x ind c (fun j hj => by rw [hlen]; exact hind j hj) i
  rw [hfn, energy_add n A f (vecFn x) _ hsym]
  -- linear term
  have h1 : ∑ i ∈ range n, scatterFn ind c i * (∑ j ∈ range n, A i j * vecFn x j - f i)
      = - ∑ k ∈ range ind.length, c.getD k 0 *
          ∑ m ∈ range ind.length, A (ind.getD k 0) (ind.getD m 0) * c.getD m 0 := by
    rw [sum_scatterFn_mul n ind c _ hk, ← sum_neg_distrib]
    apply sum_congr rfl; intro k hk'
    rw [hc k (mem_range.mp hk')]; unfold vecFn; ring
  -- quadratic term
  have h2 : ∑ i ∈ range n, ∑ j ∈ range n, scatterFn ind c i * A i j * scatterFn ind c j
      = ∑ k ∈ range ind.length, c.getD k 0 *
          ∑ m ∈ range ind.length, A (ind.getD k 0) (ind.getD m 0) * c.getD m 0 := by
    have inner : ∀ i ∈ range n, ∑ j ∈ range n, scatterFn ind c i * A i j * scatterFn ind c j
        = scatterFn ind c i * ∑ m ∈ range ind.length, A i (ind.getD m 0) * c.getD m 0 := by
      intro i _
      have : ∀ j ∈ range n, scatterFn ind c i * A i j * scatterFn ind c j
          = scatterFn ind c j * (scatterFn ind c i * A i j) := by intro j _; ring
      rw [sum_congr rfl this, sum_scatterFn_mul n ind c _ hk, mul_sum]
      apply sum_congr rfl; intro m _; ring
    rw [sum_congr rfl inner, sum_scatterFn_mul n ind c _ hk]
  have hq := hpsd (scatterFn ind c)
  rw [h2] at hq
  rw [h1, h2]
  linarith

end subspace

/-! ### the theorem about `localMgStep` itself -/

section final
variable {K : Type} [Field K] [LinearOrder K] [IsStrictOrderedRing K]

theorem getD_gatherL (v : List K) (ind : List ℕ) (k : ℕ) (hk : k < ind.length) :
    (gatherL v ind).getD k 0 = v.getD (ind.getD k 0) 0 := by
  simp [gatherL, List.getD_eq_getElem?_getD, hk]

theorem length_gatherL (v : List K) (ind : List ℕ) : (gatherL v ind).length = ind.length := by
  simp [gatherL]

/-- hypotheses on the data `local_mg_step` captures -/
structure MGHyp (S : MGSetup K) : Prop where
  /-- `As[lv]` symmetric -/
  sym : ∀ lv ≤ S.top, ∀ i < S.size lv, ∀ j < S.size lv, S.A lv i j = S.A lv j i
  /-- `As[lv] = Ps[lv].T · As[lv+1] · Ps[lv]` -/
  gal : ∀ lv < S.top, ∀ i < S.size lv, ∀ j < S.size lv,
    S.A lv i j = galerkinEntry (S.size (lv + 1)) (S.A (lv + 1)) (S.P lv) i j
  /-- smoothing sets are index lists without repetition into the level, with positive diagonal -/
  ind : ∀ lv ≤ S.top, ∀ i ∈ S.ind lv, i < S.size lv ∧ 0 < S.A lv i i
  nodup : ∀ lv ≤ S.top, (S.ind lv).Nodup
  /-- `As[lv]` positive semidefinite (needed for the exact subspace solves only) -/
  psd : ∀ lv ≤ S.top, ∀ v : ℕ → K,
    0 ≤ ∑ i ∈ range (S.size lv), ∑ j ∈ range (S.size lv), v i * S.A lv i j * v j
  /-- contract of `Bs[lv] = make_solver(As[lv][ind][:, ind])`: `A[ind, ind] · solve(rhs) = rhs` -/
  solve : ∀ lv ≤ S.top, ∀ rhs : List K, rhs.length = (S.ind lv).length →
    ∀ k < (S.ind lv).length,
      ∑ m ∈ range (S.ind lv).length,
        S.A lv ((S.ind lv).getD k 0) ((S.ind lv).getD m 0) * (S.subSolve lv rhs).getD m 0 = rhs.getD k 0

theorem mgSmoothC_exact_energy_le (S : MGSetup K) (h : MGHyp S) (post : Bool) (lv : ℕ) (hlv : lv ≤ S.top)
    (x f : LVec K) (hsm : 4 ≤ S.smoother) :
    lvE S lv (mgSmoothC S post lv x f) f ≤ lvE S lv x f := by
  obtain ⟨k, hk⟩ : ∃ k, S.smoother = k + 4 := ⟨S.smoother - 4, by omega⟩
  have hpad : lvE S lv ⟨padTo (S.size lv) x.d⟩ f = lvE S lv x f := by
    unfold lvE
    apply energy_congr
    · intro j hj; show (padTo _ x.d).getD j 0 = _; rw [getD_padTo, if_pos hj]
    · intro i _; rfl
  cases post with
  | true =>
    simp only [mgSmoothC, hk]
    exact le_of_eq hpad
  | false =>
    simp only [mgSmoothC, hk]
    rw [← hpad]
    unfold lvE
    refine subspace_step_energy_le (S.size lv) (S.A lv) (fun i => f.d.getD i 0)
      (padTo (S.size lv) x.d) (S.ind lv) _ (length_padTo _ _)
      (fun j hj => (h.ind lv hlv j hj).1) (h.sym lv hlv) (h.psd lv hlv) ?_
    intro k' hk'
    have hkn : (S.ind lv).getD k' 0 < S.size lv := by
      have : (S.ind lv).getD k' 0 = (S.ind lv)[k'] := by simp [List.getD_eq_getElem?_getD, hk']
      rw [this]; exact (h.ind lv hlv _ (List.getElem_mem hk')).1
    rw [h.solve lv hlv _ (length_gatherL _ _) k' hk', getD_gatherL _ _ _ hk', getD_padSub,
      getD_padTo, if_pos hkn, getD_dmv, if_pos hkn]

theorem mgSolve0C_energy_le (S : MGSetup K) (h : MGHyp S) (f : LVec K) :
    lvE S 0 (mgSolve0C S 0 f) f ≤ 0 := by
  have hz : ∀ j, (padTo (S.size 0) ([] : List K)).getD j 0 = 0 := by
    intro j; rw [getD_padTo]; split <;> simp
  have hE0 : energy (S.size 0) (S.A 0) (fun i => f.d.getD i 0) (vecFn (padTo (S.size 0) ([] : List K))) = 0 := by
    have : vecFn (padTo (S.size 0) ([] : List K)) = fun _ => 0 := by funext j; exact hz j
    rw [this, energy_zero]
  unfold lvE mgSolve0C
  show energy _ _ _ (vecFn (scatterSet (padTo (S.size 0) ([] : List K)) (S.ind 0) _)) ≤ 0
  rw [scatterSet_eq_scatterAdd _ _ _ (fun j _ => hz j) (h.nodup 0 (Nat.zero_le _))
    (fun j hj => by rw [length_padTo]; exact (h.ind 0 (Nat.zero_le _) j hj).1)]
  refine le_of_le_of_eq ?_ hE0
  refine subspace_step_energy_le (S.size 0) (S.A 0) (fun i => f.d.getD i 0)
    (padTo (S.size 0) []) (S.ind 0) _ (length_padTo _ _)
    (fun j hj => (h.ind 0 (Nat.zero_le _) j hj).1) (h.sym 0 (Nat.zero_le _)) (h.psd 0 (Nat.zero_le _)) ?_
  intro k hk
  have hkn : (S.ind 0).getD k 0 < S.size 0 := by
    have : (S.ind 0).getD k 0 = (S.ind 0)[k] := by simp [List.getD_eq_getElem?_getD, hk]
    rw [this]; exact (h.ind 0 (Nat.zero_le _) _ (List.getElem_mem hk)).1
  rw [h.solve 0 (Nat.zero_le _) _ (length_gatherL _ _) k hk, getD_gatherL _ _ _ hk, getD_padTo, if_pos hkn]
  have : ∑ j ∈ range (S.size 0), S.A 0 ((S.ind 0).getD k 0) j * (padTo (S.size 0) ([] : List K)).getD j 0 = 0 := by
    apply sum_eq_zero; intro j _; rw [hz j, mul_zero]
  rw [this, sub_zero]

/-- **Energy monotonicity of `local_mg_step`** — every level count, every smoother
(`gs`, `forward_gs`, `backward_gs`, `symmetric_gs`, `exact`), every `smooth_steps`, every
smoothing sets: the cycle started from `0` returns an iterate of non-positive energy on every
level, and on every level `≥ 1` it does not increase the energy of any iterate. -/
theorem localMgStepAt_energy (S : MGSetup K) (h : MGHyp S) :
    ∀ lv ≤ S.top, (∀ f, lvE S lv (localMgStepAt S lv 0 f) f ≤ 0) ∧
      (1 ≤ lv → ∀ x f, lvE S lv (localMgStepAt S lv x f) f ≤ lvE S lv x f) := by
  refine localMgStepAt_energy_le S h.sym h.gal ?_ (mgSolve0C_energy_le S h)
  intro post lv _ hlv x f
  by_cases hsm : S.smoother < 4
  · exact mgSmoothC_gs_energy_le S post lv x f hsm (h.sym lv hlv) (h.ind lv hlv)
  · exact mgSmoothC_exact_energy_le S h post lv hlv x f (by omega)

end final

section fieldonly
variable {K : Type} [Field K] [DecidableEq K]

theorem length_gatherL' (v : List K) (ind : List ℕ) : (gatherL v ind).length = ind.length := by
  simp [gatherL]

theorem localMgStepAt_succ' (S : MGSetup K) (lv : ℕ) (x f : LVec K) :
    localMgStepAt S (lv + 1) x f =
      mgSmoothC S true (lv + 1)
        (mgSmoothC S false (lv + 1) x f +
          ⟨dmv (S.size (lv + 1)) (S.size lv) (S.P lv)
            (localMgStepAt S lv 0
              ⟨dmvT (S.size (lv + 1)) (S.size lv) (S.P lv)
                (f - ⟨dmv (S.size (lv + 1)) (S.size (lv + 1)) (S.A (lv + 1))
                  (mgSmoothC S false (lv + 1) x f).d⟩).d⟩).d⟩) f := rfl

end fieldonly

/-! ### fixed point of the concrete V-cycle -/

section fixedpoint
variable {K : Type} [Field K] [DecidableEq K]

theorem getD_replicate_zero (n i : ℕ) : (List.replicate n (0 : K)).getD i 0 = 0 := by
  by_cases h : i < n <;> simp [List.getD_eq_getElem?_getD, h]

theorem padTo_of_length (n : ℕ) (l : List K) (h : l.length = n) : padTo n l = l := by
  apply List.ext_getElem (by rw [length_padTo, h])
  intro i h1 h2
  have := getD_padTo n l i
  rw [length_padTo] at h1
  rw [if_pos h1] at this
  simpa [List.getD_eq_getElem?_getD, h1, h2, length_padTo] using this

theorem padTo_nil (n : ℕ) : padTo n ([] : List K) = List.replicate n 0 := by
  rw [List.eq_replicate_iff]
  refine ⟨length_padTo n _, ?_⟩
  intro b hb
  simp only [padTo, List.mem_map] at hb
  obtain ⟨i, _, rfl⟩ := hb
  simp

theorem dmv_zero (n m : ℕ) (P : ℕ → ℕ → K) (c : List K) (hc : ∀ j, c.getD j 0 = 0) :
    dmv n m P c = List.replicate n 0 := by
  rw [List.eq_replicate_iff]
  refine ⟨length_dmv n m P c, ?_⟩
  intro b hb
  simp only [dmv, List.mem_map] at hb
  obtain ⟨i, _, rfl⟩ := hb
  rw [denseDot_eq_sum]
  apply sum_eq_zero; intro j _; rw [hc j, mul_zero]

theorem padAdd_replicate_zero (u : List K) : padAdd u (List.replicate u.length 0) = u := by
  induction u with
  | nil => simp [padAdd]
  | cons a u ih => simp [padAdd, List.replicate_succ, ih]

theorem scatterAdd_zero (x : List K) (ind : List ℕ) :
    scatterAdd x ind (List.replicate ind.length 0) = x := by
  induction ind generalizing x with
  | nil => simp [scatterAdd]
  | cons i0 ind ih =>
    simp only [scatterAdd, List.length_cons, List.replicate_succ, List.zip_cons_cons, List.foldl_cons,
      add_zero]
    rw [set_getD_self]
    exact ih x

theorem scatterSet_zero (x : List K) (ind : List ℕ) (hx : ∀ j, x.getD j 0 = 0) :
    scatterSet x ind (List.replicate ind.length 0) = x := by
  induction ind with
  | nil => simp [scatterSet]
  | cons i0 ind ih =>
    simp only [scatterSet, List.length_cons, List.replicate_succ, List.zip_cons_cons, List.foldl_cons]
    have : x.set i0 0 = x := by
      have h := set_getD_self x i0
      rwa [hx i0] at h
    rw [this]
    exact ih

theorem gatherL_zero (v : List K) (ind : List ℕ) (h : ∀ i ∈ ind, v.getD i 0 = 0) :
    gatherL v ind = List.replicate ind.length 0 := by
  rw [List.eq_replicate_iff]
  refine ⟨length_gatherL' v ind, ?_⟩
  intro b hb
  simp only [gatherL, List.mem_map] at hb
  obtain ⟨i, hi, rfl⟩ := hb
  exact h i hi

theorem iter_fixed {β : Type} (f : β → β) (x : β) (h : f x = x) (k : ℕ) : iter f k x = x := by
  induction k with
  | zero => rfl
  | succ k ih => simp only [iter]; rw [h]; exact ih

theorem gsRowsSweep_fixed (n : ℕ) (A : ℕ → ℕ → K) (b : ℕ → K) (idx : List ℕ) (x : List K)
    (h : ∀ i ∈ idx, i < n ∧ ∑ j ∈ range n, A i j * x.getD j 0 = b i) :
    gsRowsSweep (denseRow n A) b idx x = x := by
  induction idx with
  | nil => rfl
  | cons i idx ih =>
    obtain ⟨hi, hr⟩ := h i List.mem_cons_self
    simp only [gsRowsSweep, List.foldl_cons]
    have hd : ((denseRow n A i).filter (fun e => e.1 = i)).length ≤ 1 := by
      rw [denseRow_diag]; split <;> omega
    have hrow : ∑ j ∈ range n, rowVal (denseRow n A i) j * x.getD j 0 = b i := by
      rw [← hr]; apply sum_congr rfl; intro j hj
      rw [rowVal_denseRow, if_pos (mem_range.mp hj)]
    rw [gsUpdate_fixed (denseRow n A i) b x i n hd (denseRow_cols n A i) hi hrow]
    exact ih (fun j hj => h j (List.mem_cons_of_mem _ hj))

/-- the residual `f − As[lv]·x` vanishes on the non-Dirichlet rows of level `lv` -/
def ResZ (S : MGSetup K) (dir : ℕ → List ℕ) (lv : ℕ) (x f : List K) : Prop :=
  ∀ i < S.size lv, i ∉ dir lv → f.getD i 0 - ∑ j ∈ range (S.size lv), S.A lv i j * x.getD j 0 = 0

/-- structural hypotheses for the fixed-point theorem -/
structure MGFixHyp (S : MGSetup K) (dir : ℕ → List ℕ) : Prop where
  /-- smoothing sets lie in the level and contain no Dirichlet dof (`smoothing_sets`) -/
  ind : ∀ lv ≤ S.top, ∀ i ∈ S.ind lv, i < S.size lv ∧ i ∉ dir lv
  /-- non-Dirichlet coarse dofs are prolongated to non-Dirichlet fine dofs only -/
  prol : ∀ lv < S.top, ∀ j < S.size lv, j ∉ dir lv → ∀ k < S.size (lv + 1), k ∈ dir (lv + 1) → S.P lv k j = 0
  /-- the direct solvers map `0` to `0` -/
  solve0 : ∀ lv ≤ S.top, ∀ m, S.subSolve lv (List.replicate m 0) = List.replicate m 0

theorem mgSmoothC_fixed (S : MGSetup K) (dir : ℕ → List ℕ) (h : MGFixHyp S dir) (post : Bool) (lv : ℕ)
    (hlv : lv ≤ S.top) (x f : LVec K) (hres : ResZ S dir lv x.d f.d) :
    (mgSmoothC S post lv x f).d = padTo (S.size lv) x.d := by
  have hrow : ∀ i ∈ S.ind lv, i < S.size lv ∧
      ∑ j ∈ range (S.size lv), S.A lv i j * (padTo (S.size lv) x.d).getD j 0 = f.d.getD i 0 := by
    intro i hi
    obtain ⟨hin, hnd⟩ := h.ind lv hlv i hi
    refine ⟨hin, ?_⟩
    have := hres i hin hnd
    have e : ∑ j ∈ range (S.size lv), S.A lv i j * (padTo (S.size lv) x.d).getD j 0
        = ∑ j ∈ range (S.size lv), S.A lv i j * x.d.getD j 0 := by
      apply sum_congr rfl; intro j hj; rw [getD_padTo, if_pos (mem_range.mp hj)]
    rw [e]; exact (sub_eq_zero.mp this).symm
  have hrev : ∀ i ∈ (S.ind lv).reverse, i < S.size lv ∧
      ∑ j ∈ range (S.size lv), S.A lv i j * (padTo (S.size lv) x.d).getD j 0 = f.d.getD i 0 :=
    fun i hi => hrow i (List.mem_reverse.mp hi)
  have hrun : ∀ sw, gaussSeidel (gsRowsSweep (denseRow (S.size lv) (S.A lv)) (fun i => f.d.getD i 0))
      (S.size lv) (some (S.ind lv)) S.steps sw (padTo (S.size lv) x.d) = padTo (S.size lv) x.d := by
    intro sw
    unfold gaussSeidel
    simp only [Option.getD_some]
    cases sw with
    | forward => exact iter_fixed _ _ (gsRowsSweep_fixed _ _ _ _ _ hrow) _
    | backward => exact iter_fixed _ _ (gsRowsSweep_fixed _ _ _ _ _ hrev) _
    | symmetric =>
      refine iter_fixed _ _ ?_ _
      show gsRowsSweep _ _ _ (gsRowsSweep _ _ _ _) = _
      rw [gsRowsSweep_fixed _ _ _ _ _ hrow, gsRowsSweep_fixed _ _ _ _ _ hrev]
  by_cases hsm : S.smoother < 4
  · have h4 : S.smoother = 0 ∨ S.smoother = 1 ∨ S.smoother = 2 ∨ S.smoother = 3 := by omega
    rcases h4 with h' | h' | h' | h' <;> simp only [mgSmoothC, h'] <;> exact hrun _
  · obtain ⟨k, hk⟩ : ∃ k, S.smoother = k + 4 := ⟨S.smoother - 4, by omega⟩
    cases post with
    | true => simp only [mgSmoothC, hk]; rfl
    | false =>
      simp only [mgSmoothC, hk]
      have hg : gatherL (padSub (padTo (S.size lv) f.d)
          (dmv (S.size lv) (S.size lv) (S.A lv) (padTo (S.size lv) x.d))) (S.ind lv)
          = List.replicate (S.ind lv).length 0 := by
        apply gatherL_zero
        intro i hi
        obtain ⟨hin, hr⟩ := hrow i hi
        rw [getD_padSub, getD_padTo, if_pos hin, getD_dmv, if_pos hin, hr, sub_self]
      rw [hg, h.solve0 lv hlv, scatterAdd_zero]
      try rfl

theorem ResZ_congr (S : MGSetup K) (dir : ℕ → List ℕ) (lv : ℕ) (x x' f : List K)
    (hx : ∀ j < S.size lv, x.getD j 0 = x'.getD j 0) (h : ResZ S dir lv x f) : ResZ S dir lv x' f := by
  intro i hi hd
  have e : ∑ j ∈ range (S.size lv), S.A lv i j * x'.getD j 0 = ∑ j ∈ range (S.size lv), S.A lv i j * x.getD j 0 :=
    sum_congr rfl (fun j hj => by rw [hx j (mem_range.mp hj)])
  rw [e]; exact h i hi hd

/-- **Fixed point of `local_mg_step`** (all level counts, all five smoothers): on every
level the cycle started from `0` with a right-hand side vanishing on the non-Dirichlet dofs
returns `0`, and on every level `≥ 1` an iterate whose residual vanishes on the non-Dirichlet
rows is returned unchanged. -/
theorem localMgStepAt_fixed (S : MGSetup K) (dir : ℕ → List ℕ) (h : MGFixHyp S dir) :
    ∀ lv ≤ S.top,
      (∀ f : LVec K, (∀ j < S.size lv, j ∉ dir lv → f.d.getD j 0 = 0) →
        (localMgStepAt S lv 0 f).d = List.replicate (S.size lv) 0) ∧
      (1 ≤ lv → ∀ x f : LVec K, ResZ S dir lv x.d f.d →
        (localMgStepAt S lv x f).d = padTo (S.size lv) x.d) := by
  intro lv
  induction lv with
  | zero =>
    intro _
    refine ⟨fun f hf => ?_, fun h1 => absurd h1 (by omega)⟩
    show (mgSolve0C S 0 f).d = _
    unfold mgSolve0C
    have hg : gatherL (padTo (S.size 0) f.d) (S.ind 0) = List.replicate (S.ind 0).length 0 := by
      apply gatherL_zero
      intro i hi
      obtain ⟨hin, hnd⟩ := h.ind 0 (Nat.zero_le _) i hi
      rw [getD_padTo, if_pos hin]; exact hf i hin hnd
    show scatterSet (padTo (S.size 0) ([] : List K)) _ _ = _
    rw [hg, h.solve0 0 (Nat.zero_le _), padTo_nil]
    exact scatterSet_zero _ _ (fun j => getD_replicate_zero _ j)
  | succ lv ih =>
    intro hle
    have ihA := (ih (by omega)).1
    have stepB : ∀ x f : LVec K, ResZ S dir (lv + 1) x.d f.d →
        (localMgStepAt S (lv + 1) x f).d = padTo (S.size (lv + 1)) x.d := by
      intro x f hres
      rw [localMgStepAt_succ']
      set n := S.size (lv + 1) with hn
      have hx1 : (mgSmoothC S false (lv + 1) x f).d = padTo n x.d := mgSmoothC_fixed S dir h false (lv + 1) hle x f hres
      have hxp : ∀ j < n, (padTo n x.d).getD j 0 = x.d.getD j 0 := fun j hj => by rw [getD_padTo, if_pos hj]
      -- the restricted residual vanishes on the non-Dirichlet coarse dofs
      have hrc : ∀ j < S.size lv, j ∉ dir lv →
          (dmvT n (S.size lv) (S.P lv) (f - ⟨dmv n n (S.A (lv + 1)) (mgSmoothC S false (lv + 1) x f).d⟩).d).getD j 0 = 0 := by
        intro j hj hd
        rw [getD_dmvT, if_pos hj]
        apply sum_eq_zero; intro k hk
        have hk' := mem_range.mp hk
        by_cases hkd : k ∈ dir (lv + 1)
        · rw [h.prol lv (by omega) j hj hd k hk' hkd, zero_mul]
        · have : (f - ⟨dmv n n (S.A (lv + 1)) (mgSmoothC S false (lv + 1) x f).d⟩ : LVec K).d.getD k 0 = 0 := by
            show (padSub f.d (dmv n n (S.A (lv + 1)) (mgSmoothC S false (lv + 1) x f).d)).getD k 0 = 0
            rw [getD_padSub, getD_dmv, if_pos hk', hx1]
            have e : ∑ l ∈ range n, S.A (lv + 1) k l * (padTo n x.d).getD l 0
                = ∑ l ∈ range n, S.A (lv + 1) k l * x.d.getD l 0 :=
              sum_congr rfl (fun l hl => by rw [hxp l (mem_range.mp hl)])
            rw [e]; exact hres k hk' hkd
          rw [this, mul_zero]
      have hc := ihA ⟨dmvT n (S.size lv) (S.P lv)
        (f - ⟨dmv n n (S.A (lv + 1)) (mgSmoothC S false (lv + 1) x f).d⟩).d⟩ hrc
      have hPc : dmv n (S.size lv) (S.P lv)
          (localMgStepAt S lv 0 ⟨dmvT n (S.size lv) (S.P lv)
            (f - ⟨dmv n n (S.A (lv + 1)) (mgSmoothC S false (lv + 1) x f).d⟩).d⟩).d = List.replicate n 0 := by
        apply dmv_zero; intro j; rw [hc]; exact getD_replicate_zero _ j
      have hx2 : (mgSmoothC S false (lv + 1) x f +
          ⟨dmv n (S.size lv) (S.P lv) (localMgStepAt S lv 0 ⟨dmvT n (S.size lv) (S.P lv)
            (f - ⟨dmv n n (S.A (lv + 1)) (mgSmoothC S false (lv + 1) x f).d⟩).d⟩).d⟩ : LVec K).d = padTo n x.d := by
        show padAdd (mgSmoothC S false (lv + 1) x f).d _ = _
        rw [hPc, hx1]
        have := padAdd_replicate_zero (padTo n x.d)
        rwa [length_padTo] at this
      rw [mgSmoothC_fixed S dir h true (lv + 1) hle _ f
        (by rw [hx2]; exact ResZ_congr S dir (lv + 1) x.d _ f.d (fun j hj => (hxp j hj).symm) hres), hx2]
      exact padTo_of_length n _ (length_padTo n _)
    refine ⟨fun f hf => ?_, fun _ => stepB⟩
    have := stepB 0 f (by
      intro i hi hd
      show f.d.getD i 0 - ∑ j ∈ range (S.size (lv + 1)), S.A (lv + 1) i j * ([] : List K).getD j 0 = 0
      have hz : ∑ j ∈ range (S.size (lv + 1)), S.A (lv + 1) i j * ([] : List K).getD j 0 = 0 :=
        sum_eq_zero (fun j _ => by simp)
      rw [hz, sub_zero]; exact hf i hi hd)
    rw [this]; exact padTo_nil _

end fixedpoint

/-! ### symmetry and semidefiniteness are inherited by the Galerkin matrices -/

section inherit
variable {K : Type} [Field K] [LinearOrder K] [IsStrictOrderedRing K]

theorem galerkin_sym (n m : ℕ) (A P Ac : ℕ → ℕ → K)
    (hsym : ∀ i < n, ∀ j < n, A i j = A j i)
    (hAc : ∀ i < m, ∀ j < m, Ac i j = ∑ k ∈ range n, P k i * ∑ l ∈ range n, A k l * P l j) :
    ∀ i < m, ∀ j < m, Ac i j = Ac j i := by
  intro i hi j hj
  rw [hAc i hi j hj, hAc j hj i hi]
  simp only [mul_sum]
  rw [sum_comm]
  apply sum_congr rfl; intro l hl
  apply sum_congr rfl; intro k hk
  rw [hsym k (mem_range.mp hk) l (mem_range.mp hl)]; ring

theorem galerkin_quadratic (n m : ℕ) (A P Ac : ℕ → ℕ → K) (C : ℕ → K)
    (hsym : ∀ i < n, ∀ j < n, A i j = A j i)
    (hAc : ∀ i < m, ∀ j < m, Ac i j = ∑ k ∈ range n, P k i * ∑ l ∈ range n, A k l * P l j) :
    ∑ j ∈ range m, ∑ l ∈ range m, C j * Ac j l * C l
      = ∑ i ∈ range n, ∑ k ∈ range n,
          (∑ j ∈ range m, P i j * C j) * A i k * (∑ l ∈ range m, P k l * C l) := by
  have key := galerkin_energy_identity n m A P Ac (fun _ => 0) (fun _ => 0) C hsym hAc
  simp only [energy, zero_add, zero_mul, mul_zero, sum_const_zero, sub_zero, sub_self, zero_sub,
    neg_zero, add_zero] at key
  have h2 : (2 : K) ≠ 0 := two_ne_zero
  have := mul_left_cancel₀ (by norm_num : (1 / 2 : K) ≠ 0) key
  exact this.symm

theorem galerkin_psd (n m : ℕ) (A P Ac : ℕ → ℕ → K)
    (hsym : ∀ i < n, ∀ j < n, A i j = A j i)
    (hpsd : ∀ v : ℕ → K, 0 ≤ ∑ i ∈ range n, ∑ j ∈ range n, v i * A i j * v j)
    (hAc : ∀ i < m, ∀ j < m, Ac i j = ∑ k ∈ range n, P k i * ∑ l ∈ range n, A k l * P l j) :
    ∀ v : ℕ → K, 0 ≤ ∑ i ∈ range m, ∑ j ∈ range m, v i * Ac i j * v j := by
  intro v
  rw [galerkin_quadratic n m A P Ac v hsym hAc]
  exact hpsd (fun i => ∑ j ∈ range m, P i j * v j)

/-- `MGHyp` from hypotheses on the finest matrix only (plus the Galerkin relation): symmetry and
positive semidefiniteness propagate to every coarse level. -/
theorem MGHyp.of_top (S : MGSetup K)
    (symTop : ∀ i < S.size S.top, ∀ j < S.size S.top, S.A S.top i j = S.A S.top j i)
    (psdTop : ∀ v : ℕ → K, 0 ≤ ∑ i ∈ range (S.size S.top), ∑ j ∈ range (S.size S.top), v i * S.A S.top i j * v j)
    (gal : ∀ lv < S.top, ∀ i < S.size lv, ∀ j < S.size lv,
      S.A lv i j = galerkinEntry (S.size (lv + 1)) (S.A (lv + 1)) (S.P lv) i j)
    (ind : ∀ lv ≤ S.top, ∀ i ∈ S.ind lv, i < S.size lv ∧ 0 < S.A lv i i)
    (nodup : ∀ lv ≤ S.top, (S.ind lv).Nodup)
    (solve : ∀ lv ≤ S.top, ∀ rhs : List K, rhs.length = (S.ind lv).length →
      ∀ k < (S.ind lv).length,
        ∑ m ∈ range (S.ind lv).length,
          S.A lv ((S.ind lv).getD k 0) ((S.ind lv).getD m 0) * (S.subSolve lv rhs).getD m 0 = rhs.getD k 0) :
    MGHyp S := by
  have both : ∀ d, d ≤ S.top →
      (∀ i < S.size (S.top - d), ∀ j < S.size (S.top - d), S.A (S.top - d) i j = S.A (S.top - d) j i) ∧
      (∀ v : ℕ → K, 0 ≤ ∑ i ∈ range (S.size (S.top - d)), ∑ j ∈ range (S.size (S.top - d)),
        v i * S.A (S.top - d) i j * v j) := by
    intro d
    induction d with
    | zero => intro _; exact ⟨symTop, psdTop⟩
    | succ d ih =>
      intro hd
      obtain ⟨hs, hp⟩ := ih (by omega)
      have hlv : S.top - (d + 1) < S.top := by omega
      have e : S.top - (d + 1) + 1 = S.top - d := by omega
      have hAc : ∀ i < S.size (S.top - (d + 1)), ∀ j < S.size (S.top - (d + 1)),
          S.A (S.top - (d + 1)) i j = ∑ k ∈ range (S.size (S.top - d)),
            S.P (S.top - (d + 1)) k i * ∑ l ∈ range (S.size (S.top - d)), S.A (S.top - d) k l * S.P (S.top - (d + 1)) l j := by
        intro i hi j hj
        rw [gal _ hlv i hi j hj, galerkinEntry_eq, e]
      exact ⟨galerkin_sym _ _ _ _ _ hs hAc, galerkin_psd _ _ _ _ _ hs hp hAc⟩
  have at_lv : ∀ lv ≤ S.top,
      (∀ i < S.size lv, ∀ j < S.size lv, S.A lv i j = S.A lv j i) ∧
      (∀ v : ℕ → K, 0 ≤ ∑ i ∈ range (S.size lv), ∑ j ∈ range (S.size lv), v i * S.A lv i j * v j) := by
    intro lv hlv
    have := both (S.top - lv) (by omega)
    rwa [show S.top - (S.top - lv) = lv by omega] at this
  exact { sym := fun lv hlv => (at_lv lv hlv).1, gal := gal, ind := ind, nodup := nodup,
          psd := fun lv hlv => (at_lv lv hlv).2, solve := solve }

end inherit

/-! ### the executable Galerkin chain satisfies the Galerkin relation -/

section chain
variable {K : Type} [Field K] [DecidableEq K]

theorem getD_range_map' {β : Type} (n : ℕ) (g : ℕ → β) (i : ℕ) (d : β) :
    ((List.range n).map g).getD i d = if i < n then g i else d := by
  by_cases h : i < n <;> simp [List.getD_eq_getElem?_getD, h]

theorem getD_append_left' {β : Type} (l₁ l₂ : List β) (i : ℕ) (d : β) (h : i < l₁.length) :
    (l₁ ++ l₂).getD i d = l₁.getD i d := by
  simp [List.getD_eq_getElem?_getD, List.getElem?_append_left h]

theorem getD_append_right' {β : Type} (l₁ l₂ : List β) (i : ℕ) (d : β) (h : l₁.length ≤ i) :
    (l₁ ++ l₂).getD i d = l₂.getD (i - l₁.length) d := by
  simp [List.getD_eq_getElem?_getD, List.getElem?_append_right h]

theorem matFn_galerkinL (n m : ℕ) (A P : List (List K)) (i j : ℕ) (hi : i < m) (hj : j < m) :
    matFn (galerkinL n m A P) i j = galerkinEntry n (matFn A) (matFn P) i j := by
  unfold galerkinL
  simp only [matFn]
  rw [getD_range_map', if_pos hi, getD_range_map, if_pos hj]
  unfold galerkinEntry
  rw [sumTo_eq_sum, sumTo_eq_sum]
  apply sum_congr rfl; intro k hk
  rw [getD_range_map', if_pos (mem_range.mp hk), getD_range_map, if_pos hj]
  rfl

theorem length_galerkinChain (size : ℕ → ℕ) (Ps : ℕ → List (List K)) (A : List (List K)) (top : ℕ) :
    (galerkinChain size Ps A top).length = top + 1 := by
  induction top generalizing A with
  | zero => rfl
  | succ top ih => simp [galerkinChain, ih]

theorem galerkinChain_top (size : ℕ → ℕ) (Ps : ℕ → List (List K)) (A : List (List K)) (top : ℕ) :
    (galerkinChain size Ps A top).getD top [] = A := by
  cases top with
  | zero => rfl
  | succ top =>
    simp only [galerkinChain]
    rw [getD_append_right' _ _ _ _ (by rw [length_galerkinChain])]
    simp [length_galerkinChain]

/-- `As = [A]; for P in reversed(Ps): As.append(P.T·As[-1]·P); As.reverse()` as executed by the
driver yields matrices related by `MGHyp.gal`. -/
theorem galerkinChain_gal (size : ℕ → ℕ) (Ps : ℕ → List (List K)) (A : List (List K)) (top : ℕ) :
    ∀ lv < top, ∀ i < size lv, ∀ j < size lv,
      matFn ((galerkinChain size Ps A top).getD lv []) i j
        = galerkinEntry (size (lv + 1)) (matFn ((galerkinChain size Ps A top).getD (lv + 1) []))
            (matFn (Ps lv)) i j := by
  induction top generalizing A with
  | zero => intro lv hlv; omega
  | succ top ih =>
    intro lv hlv i hi j hj
    simp only [galerkinChain]
    have hlen := length_galerkinChain size Ps (galerkinL (size (top + 1)) (size top) A (Ps top)) top
    rw [getD_append_left' _ _ _ _ (by rw [hlen]; omega)]
    by_cases h : lv < top
    · rw [getD_append_left' _ _ _ _ (by rw [hlen]; omega)]
      exact ih _ lv h i hi j hj
    · have e : lv = top := by omega
      subst e
      rw [getD_append_right' _ _ _ _ (by rw [hlen]), galerkinChain_top]
      simp only [hlen, Nat.sub_self, List.getD_cons_zero]
      exact matFn_galerkinL _ _ _ _ i j hi hj

end chain

end Pyiga.Relax
