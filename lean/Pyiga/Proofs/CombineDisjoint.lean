/-
Helper lemmas for the C10 theorem `combine_bcs_disjoint_order_independent`: when no dof occurs in
two conditions, `combine_bcs` is a function of the *set* of (dof, value) pairs.
-/
import Pyiga.Proofs.Restrict
import Mathlib.Data.List.Sort

namespace Pyiga.Restrict

section CombineDisjoint
variable {β : Type} [Inhabited β]

/-- all (dof, value) pairs of a list of conditions -/
def pairsOf (bcs : List (List Nat × List β)) : List (Nat × β) := bcs.flatMap (fun bc => bc.1.zip bc.2)

theorem pairsOf_fst (bcs : List (List Nat × List β)) (h : ∀ bc ∈ bcs, bc.1.length = bc.2.length) :
    (pairsOf bcs).map Prod.fst = bcs.flatMap (·.1) := by
  induction bcs with
  | nil => rfl
  | cons bc t ih =>
    have h1 := h bc (by simp)
    have ih' := ih (fun b hb => h b (List.mem_cons_of_mem _ hb))
    simp only [pairsOf, List.flatMap_cons, List.map_append] at ih' ⊢
    rw [ih', List.map_fst_zip (le_of_eq h1)]

theorem pairsOf_snd (bcs : List (List Nat × List β)) (h : ∀ bc ∈ bcs, bc.1.length = bc.2.length) :
    (pairsOf bcs).map Prod.snd = bcs.flatMap (·.2) := by
  induction bcs with
  | nil => rfl
  | cons bc t ih =>
    have h1 := h bc (by simp)
    have ih' := ih (fun b hb => h b (List.mem_cons_of_mem _ hb))
    simp only [pairsOf, List.flatMap_cons, List.map_append] at ih' ⊢
    rw [ih', List.map_snd_zip (le_of_eq h1.symm)]

/-- in a pair list with distinct keys, looking a key up by the position of its first occurrence
returns the value it is paired with -/
theorem lookup_of_nodup : ∀ (l : List (Nat × β)), (l.map Prod.fst).Nodup → ∀ i v, (i, v) ∈ l →
    (l.map Prod.snd).getD ((l.map Prod.fst).idxOf i) default = v := by
  intro l
  induction l with
  | nil => intro _ i v h; simp at h
  | cons ab t ih =>
    intro hnd i v hmem
    obtain ⟨a, b⟩ := ab
    simp only [List.map_cons, List.nodup_cons] at hnd
    by_cases hai : a = i
    · subst hai
      rcases List.mem_cons.mp hmem with e | e
      · have : v = b := by simpa using (Prod.mk.inj e).2
        subst this
        simp
      · exact absurd (List.mem_map_of_mem (f := Prod.fst) e) hnd.1
    · have hmem' : (i, v) ∈ t := by
        rcases List.mem_cons.mp hmem with e | e
        · exact absurd (Prod.mk.inj e).1.symm hai
        · exact e
      have := ih hnd.2 i v hmem'
      have hb : (a == i) = false := by simpa using hai
      simp only [List.map_cons, List.idxOf_cons, hb, cond_false]
      simpa using this

end CombineDisjoint

end Pyiga.Restrict
