/-
Abstract theorems of property C11 about the generic part of `Pyiga.Model.Relax`:
subspace correction / V-cycle energy monotonicity, the fixed point of the cycle, the exit
conditions of the two drivers (`iterative_solve`, `twogrid`) and the smoothing sets.
-/
import Pyiga.Model.Relax
import Mathlib.Tactic.Ring
import Mathlib.Tactic.Linarith
import Mathlib.Tactic.LinearCombination
import Mathlib.Tactic.NormNum
import Mathlib.Tactic.FieldSimp
import Mathlib.Logic.Function.Iterate
import Mathlib.LinearAlgebra.BilinearMap
import Mathlib.Algebra.Order.Field.Basic
import Mathlib.Algebra.Order.Ring.Rat
import Mathlib.Algebra.Field.Rat

namespace Pyiga.Relax

/-! ### A. subspace correction -/

section subspace
variable {K V W : Type} [Field K] [NeZero (2 : K)] [AddCommGroup V] [Module K V]
  [AddCommGroup W] [Module K W]

/-- the energy functional `E(v) = ½ a(v,v) − ℓ(v)` of the variational problem
`a(u,v) = ℓ(v)`. -/
def energyForm (a : V →ₗ[K] V →ₗ[K] K) (ℓ : V →ₗ[K] K) (v : V) : K :=
  (1 / 2) * a v v - ℓ v

theorem energyForm_add (a : V →ₗ[K] V →ₗ[K] K) (hs : ∀ u v, a u v = a v u) (ℓ : V →ₗ[K] K)
    (x y : V) :
    energyForm a ℓ (x + y) = energyForm a ℓ x + (a x y - ℓ y) + (1 / 2) * a y y := by
  unfold energyForm
  rw [LinearMap.map_add₂, map_add, map_add, map_add, hs y x]
  have h2 : (2 : K) ≠ 0 := two_ne_zero
  field_simp
  ring

theorem energyForm_galerkin (a : V →ₗ[K] V →ₗ[K] K) (hs : ∀ u v, a u v = a v u)
    (ℓ : V →ₗ[K] K) (P : W →ₗ[K] V) (x : V) (c : W)
    (hc : ∀ w, a (x + P c) (P w) = ℓ (P w)) :
    energyForm a ℓ (x + P c) = energyForm a ℓ x - (1 / 2) * a (P c) (P c) := by
  have h := hc c
  rw [LinearMap.map_add₂] at h
  rw [energyForm_add a hs]
  have h2 : (2 : K) ≠ 0 := two_ne_zero
  field_simp
  linear_combination 2 * h

/-- **Subspace correction and the energy.**  For a symmetric bilinear form `a`, a linear
functional `ℓ` and `E(v) = ½ a(v,v) − ℓ(v)`:
(i) `E(x + y) = E(x) + (a(x,y) − ℓ(y)) + ½ a(y,y)` for all `x, y`;
(ii) if `c` solves the Galerkin equation of the subspace `range P` at the iterate `x`, i.e.
`a(x + P c, P w) = ℓ(P w)` for all `w` (in matrices `PᵀAP c = Pᵀ(b − A x)`), then the
correction lowers the energy by exactly `½ a(P c, P c)`.
(`[NeZero (2 : K)]` is necessary: in characteristic 2, `½ = 0` and (i) fails; it is found
automatically for `ℚ`, `ℝ` and every ordered field.) -/
theorem subspace_correction_energy (a : V →ₗ[K] V →ₗ[K] K) (hs : ∀ u v, a u v = a v u)
    (ℓ : V →ₗ[K] K) (P : W →ₗ[K] V) :
    (∀ x y, energyForm a ℓ (x + y)
        = energyForm a ℓ x + (a x y - ℓ y) + (1 / 2) * a y y) ∧
    (∀ x c, (∀ w, a (x + P c) (P w) = ℓ (P w)) →
        energyForm a ℓ (x + P c) = energyForm a ℓ x - (1 / 2) * a (P c) (P c)) :=
  ⟨energyForm_add a hs ℓ, fun x c hc => energyForm_galerkin a hs ℓ P x c hc⟩

end subspace

section subspaceLe
variable {K V W : Type} [Field K] [LinearOrder K] [IsStrictOrderedRing K]
  [AddCommGroup V] [Module K V] [AddCommGroup W] [Module K W]

/-- **A Galerkin subspace correction never increases the energy** when `a` is symmetric
positive semidefinite: if `a(x + P c, P w) = ℓ(P w)` for all `w` then
`E(x + P c) ≤ E(x)`. -/
theorem subspace_correction_energy_le (a : V →ₗ[K] V →ₗ[K] K) (hs : ∀ u v, a u v = a v u)
    (hpos : ∀ v, 0 ≤ a v v) (ℓ : V →ₗ[K] K) (P : W →ₗ[K] V) (x : V) (c : W)
    (hc : ∀ w, a (x + P c) (P w) = ℓ (P w)) :
    energyForm a ℓ (x + P c) ≤ energyForm a ℓ x := by
  rw [energyForm_galerkin a hs ℓ P x c hc]
  have := hpos (P c)
  linarith

end subspaceLe

/-- non-vacuity of `subspace_correction_energy(_le)`: `a(u,v) = u v`, `ℓ(v) = 3 v`, `P c = 2 c`
on `ℚ`; at `x = 1` the Galerkin correction is `c = 1` and it lowers the energy by `2`. -/
example : ∃ (a : ℚ →ₗ[ℚ] ℚ →ₗ[ℚ] ℚ) (ℓ : ℚ →ₗ[ℚ] ℚ) (P : ℚ →ₗ[ℚ] ℚ) (x c : ℚ),
    (∀ u v, a u v = a v u) ∧ (∀ v, 0 ≤ a v v) ∧ (∀ w, a (x + P c) (P w) = ℓ (P w)) ∧
    (1 / 2) * a (P c) (P c) = 2 ∧ energyForm a ℓ (x + P c) = energyForm a ℓ x - 2 := by
  refine ⟨LinearMap.lsmul ℚ ℚ, LinearMap.lsmul ℚ ℚ 3, (2 : ℚ) • LinearMap.id, 1, 1,
    fun u v => ?_, fun v => ?_, fun w => ?_, ?_, ?_⟩
  · simp [mul_comm]
  · simpa using mul_self_nonneg v
  · simp only [LinearMap.lsmul_apply, LinearMap.smul_apply, LinearMap.id_apply, smul_eq_mul]
    ring
  · simp only [LinearMap.lsmul_apply, LinearMap.smul_apply, LinearMap.id_apply, smul_eq_mul]
    norm_num
  · simp only [energyForm, LinearMap.lsmul_apply, LinearMap.smul_apply, LinearMap.id_apply,
      smul_eq_mul]
    norm_num


/-! ### B. energy monotonicity of the V-cycle -/

section levelEnergy
variable {K V : Type} [Field K] [AddCommGroup V] [Module K V]

/-- level energy `E_lv(x; f) = ½⟨A_lv x, x⟩ − ⟨f, x⟩`. -/
def levelEnergy (ip : V →ₗ[K] V →ₗ[K] K) (A : ℕ → (V →ₗ[K] V)) (lv : ℕ) (x f : V) : K :=
  (1 / 2) * ip (A lv x) x - ip f x

theorem levelEnergy_zero (ip : V →ₗ[K] V →ₗ[K] K) (A : ℕ → (V →ₗ[K] V)) (lv : ℕ) (f : V) :
    levelEnergy ip A lv 0 f = 0 := by
  simp [levelEnergy]

end levelEnergy

section mgEnergy
variable {K V : Type} [Field K] [LinearOrder K] [IsStrictOrderedRing K]
  [AddCommGroup V] [Module K V]

/-- the key identity: a coarse correction changes the fine energy by the coarse energy of the
correction w.r.t. the restricted residual. -/
theorem levelEnergy_correction (ip : V →ₗ[K] V →ₗ[K] K) (A P PT : ℕ → (V →ₗ[K] V))
    (hsymA : ∀ lv x y, ip (A lv x) y = ip (A lv y) x)
    (hgal : ∀ lv x, A lv x = PT lv (A (lv + 1) (P lv x)))
    (hadj : ∀ lv r c, ip (PT lv r) c = ip r (P lv c))
    (lv : ℕ) (x c f : V) :
    levelEnergy ip A (lv + 1) (x + P lv c) f
      = levelEnergy ip A (lv + 1) x f
        + levelEnergy ip A lv c (PT lv (f - A (lv + 1) x)) := by
  unfold levelEnergy
  have h1 : ip (A lv c) c = ip (A (lv + 1) (P lv c)) (P lv c) := by
    rw [hgal lv c, hadj]
  have h2 : ip (A (lv + 1) (P lv c)) x = ip (A (lv + 1) x) (P lv c) := hsymA _ _ _
  rw [hadj, h1]
  simp only [map_add, map_sub, LinearMap.add_apply, LinearMap.sub_apply, h2]
  ring

/-- **Energy monotonicity of the multigrid V-cycle `local_mg_step`.**  With symmetric level
operators related by the Galerkin condition `A_lv = Pᵀ A_{lv+1} P`, `PT` the adjoint of `P`
w.r.t. the pairing `ip`, pre- and post-smoothers that do not increase the level energy
`E_lv(x; f) = ½⟨A_lv x, x⟩ − ⟨f, x⟩` and a level-0 solver with `E_0(solve0 0 f; f) ≤ 0`:
on every level the cycle started from `0` returns an iterate of non-positive energy, and on
every level `≥ 1` one cycle does not increase the energy of any iterate. -/
theorem mg_energy (ip : V →ₗ[K] V →ₗ[K] K) (A P PT : ℕ → (V →ₗ[K] V))
    (pre post : ℕ → V → V → V) (solve0 : V → V → V)
    (hsymA : ∀ lv x y, ip (A lv x) y = ip (A lv y) x)
    (hgal : ∀ lv x, A lv x = PT lv (A (lv + 1) (P lv x)))
    (hadj : ∀ lv r c, ip (PT lv r) c = ip r (P lv c))
    (hpre : ∀ lv x f, levelEnergy ip A lv (pre lv x f) f ≤ levelEnergy ip A lv x f)
    (hpost : ∀ lv x f, levelEnergy ip A lv (post lv x f) f ≤ levelEnergy ip A lv x f)
    (h0 : ∀ f, levelEnergy ip A 0 (solve0 0 f) f ≤ 0) :
    ∀ lv,
      (∀ f, levelEnergy ip A lv (mgStep (fun l => ⇑(A l)) (fun l => ⇑(P l))
          (fun l => ⇑(PT l)) pre post solve0 lv 0 f) f ≤ 0) ∧
      (∀ x f, levelEnergy ip A (lv + 1) (mgStep (fun l => ⇑(A l)) (fun l => ⇑(P l))
          (fun l => ⇑(PT l)) pre post solve0 (lv + 1) x f) f
            ≤ levelEnergy ip A (lv + 1) x f) := by
  -- part 1 on level `lv` gives part 2 on level `lv + 1`
  have step12 : ∀ lv,
      (∀ f, levelEnergy ip A lv (mgStep (fun l => ⇑(A l)) (fun l => ⇑(P l))
          (fun l => ⇑(PT l)) pre post solve0 lv 0 f) f ≤ 0) →
      (∀ x f, levelEnergy ip A (lv + 1) (mgStep (fun l => ⇑(A l)) (fun l => ⇑(P l))
          (fun l => ⇑(PT l)) pre post solve0 (lv + 1) x f) f
            ≤ levelEnergy ip A (lv + 1) x f) := by
    intro lv h1 x f
    simp only [mgStep]
    refine le_trans (hpost _ _ _) ?_
    rw [levelEnergy_correction ip A P PT hsymA hgal hadj]
    have := h1 (PT lv (f - A (lv + 1) (pre (lv + 1) x f)))
    have := hpre (lv + 1) x f
    linarith
  -- part 2 on level `lv + 1` gives part 1 on level `lv + 1`
  have step21 : ∀ lv,
      (∀ x f, levelEnergy ip A (lv + 1) (mgStep (fun l => ⇑(A l)) (fun l => ⇑(P l))
          (fun l => ⇑(PT l)) pre post solve0 (lv + 1) x f) f
            ≤ levelEnergy ip A (lv + 1) x f) →
      (∀ f, levelEnergy ip A (lv + 1) (mgStep (fun l => ⇑(A l)) (fun l => ⇑(P l))
          (fun l => ⇑(PT l)) pre post solve0 (lv + 1) 0 f) f ≤ 0) := by
    intro lv h2 f
    have := h2 0 f
    rwa [levelEnergy_zero] at this
  have part1 : ∀ lv f, levelEnergy ip A lv (mgStep (fun l => ⇑(A l)) (fun l => ⇑(P l))
      (fun l => ⇑(PT l)) pre post solve0 lv 0 f) f ≤ 0 := by
    intro lv
    induction lv with
    | zero => intro f; exact h0 f
    | succ n ih => exact step21 n (step12 n ih)
  exact fun lv => ⟨part1 lv, step12 lv (part1 lv)⟩

end mgEnergy

/-- non-vacuity of `mg_energy`: on `ℚ` with `⟨f, x⟩ = f x`, `A_lv = P = PT = id`, exact
solves `x ↦ f` as smoothers and as level-0 solver (they do change the iterate). -/
example : ∃ (ip : ℚ →ₗ[ℚ] ℚ →ₗ[ℚ] ℚ) (A P PT : ℕ → (ℚ →ₗ[ℚ] ℚ)) (pre post : ℕ → ℚ → ℚ → ℚ)
    (solve0 : ℚ → ℚ → ℚ),
    (∀ lv x y, ip (A lv x) y = ip (A lv y) x) ∧
    (∀ lv x, A lv x = PT lv (A (lv + 1) (P lv x))) ∧
    (∀ lv r c, ip (PT lv r) c = ip r (P lv c)) ∧
    (∀ lv x f, levelEnergy ip A lv (pre lv x f) f ≤ levelEnergy ip A lv x f) ∧
    (∀ lv x f, levelEnergy ip A lv (post lv x f) f ≤ levelEnergy ip A lv x f) ∧
    (∀ f, levelEnergy ip A 0 (solve0 0 f) f ≤ 0) ∧
    pre 1 0 1 ≠ 0 ∧ levelEnergy ip A 1 (pre 1 0 1) 1 < levelEnergy ip A 1 0 1 := by
  refine ⟨LinearMap.lsmul ℚ ℚ, fun _ => LinearMap.id, fun _ => LinearMap.id,
    fun _ => LinearMap.id, fun _ _ f => f, fun _ _ f => f, fun _ f => f,
    fun _ x y => ?_, fun _ _ => rfl, fun _ _ _ => rfl, fun _ x f => ?_, fun _ x f => ?_,
    fun f => ?_, ?_, ?_⟩
  · simp [mul_comm]
  · simp only [levelEnergy, LinearMap.id_apply, LinearMap.lsmul_apply, smul_eq_mul]
    nlinarith [sq_nonneg (x - f)]
  · simp only [levelEnergy, LinearMap.id_apply, LinearMap.lsmul_apply, smul_eq_mul]
    nlinarith [sq_nonneg (x - f)]
  · simp only [levelEnergy, LinearMap.id_apply, LinearMap.lsmul_apply, smul_eq_mul]
    nlinarith [sq_nonneg f]
  · norm_num
  · simp only [levelEnergy, LinearMap.id_apply, LinearMap.lsmul_apply, smul_eq_mul]
    norm_num


/-! ### C. fixed point of the cycle -/

section mgFixed
variable {V : Type} [AddCommGroup V]

/-- **Fixed point of `local_mg_step`.**  `Z lv r` reads "`r` vanishes on the non-Dirichlet
dofs of level `lv`".  If the operators map `0` to `0`, restriction preserves `Z`, the
smoothers leave an iterate with `Z`-residual alone and the level-0 solver returns `0` for a
`Z` right-hand side, then on every level the cycle started from `0` with a `Z` right-hand
side returns `0`, and every iterate whose residual satisfies `Z` (in particular the exact
discrete solution) is a fixed point of the cycle. -/
theorem mg_fixed_point (A P PT : ℕ → V → V) (pre post : ℕ → V → V → V) (solve0 : V → V → V)
    (Z : ℕ → V → Prop)
    (hA0 : ∀ lv, A lv 0 = 0) (hP0 : ∀ lv, P lv 0 = 0)
    (hZ : ∀ lv r, Z (lv + 1) r → Z lv (PT lv r))
    (hpre : ∀ lv x f, Z lv (f - A lv x) → pre lv x f = x)
    (hpost : ∀ lv x f, Z lv (f - A lv x) → post lv x f = x)
    (hs0 : ∀ f, Z 0 f → solve0 0 f = 0) :
    ∀ lv, (∀ f, Z lv f → mgStep A P PT pre post solve0 lv 0 f = 0) ∧
      (∀ x f, Z (lv + 1) (f - A (lv + 1) x) →
        mgStep A P PT pre post solve0 (lv + 1) x f = x) := by
  have step12 : ∀ lv, (∀ f, Z lv f → mgStep A P PT pre post solve0 lv 0 f = 0) →
      (∀ x f, Z (lv + 1) (f - A (lv + 1) x) →
        mgStep A P PT pre post solve0 (lv + 1) x f = x) := by
    intro lv h1 x f hz
    simp only [mgStep]
    rw [hpre _ _ _ hz, h1 _ (hZ _ _ hz), hP0, add_zero]
    exact hpost _ _ _ hz
  have part1 : ∀ lv f, Z lv f → mgStep A P PT pre post solve0 lv 0 f = 0 := by
    intro lv
    induction lv with
    | zero => intro f hf; exact hs0 f hf
    | succ n ih =>
      intro f hf
      apply step12 n ih
      rwa [hA0, sub_zero]
  exact fun lv => ⟨part1 lv, step12 lv (part1 lv)⟩

end mgFixed

/-- non-vacuity of `mg_fixed_point`: on `ℚ` with `A_lv x = 2 x`, `P = PT = id`,
`Z lv r ↔ r = 0`, Jacobi smoothers `x ↦ x + (f − 2x)/2` and the exact level-0 solve. -/
example : ∃ (A P PT : ℕ → ℚ → ℚ) (pre post : ℕ → ℚ → ℚ → ℚ) (solve0 : ℚ → ℚ → ℚ)
    (Z : ℕ → ℚ → Prop),
    (∀ lv, A lv 0 = 0) ∧ (∀ lv, P lv 0 = 0) ∧ (∀ lv r, Z (lv + 1) r → Z lv (PT lv r)) ∧
    (∀ lv x f, Z lv (f - A lv x) → pre lv x f = x) ∧
    (∀ lv x f, Z lv (f - A lv x) → post lv x f = x) ∧
    (∀ f, Z 0 f → solve0 0 f = 0) ∧ pre 1 0 1 ≠ 0 ∧ Z 1 (6 - A 1 3) := by
  refine ⟨fun _ x => 2 * x, fun _ x => x, fun _ x => x, fun _ x f => x + (f - 2 * x) / 2,
    fun _ x f => x + (f - 2 * x) / 2, fun _ f => f / 2, fun _ r => r = 0,
    fun _ => by norm_num, fun _ => rfl, fun _ _ h => h, fun _ x f h => ?_, fun _ x f h => ?_,
    fun f h => ?_, by norm_num, by norm_num⟩
  · show x + (f - 2 * x) / 2 = x
    simp only at h; rw [h]; norm_num
  · show x + (f - 2 * x) / 2 = x
    simp only at h; rw [h]; norm_num
  · show f / 2 = 0
    simp only at h; rw [h]; norm_num


/-! ### D. `iterative_solve` -/

section drivers
variable {V : Type}

theorem iterLoop_spec (step : V → V) (conv : V → Bool) (maxiter : ℕ) :
    ∀ (fuel it : ℕ) (x x' : V) (r : Option ℕ), it + fuel + 1 = max maxiter 1 →
      iterLoop step conv maxiter fuel it x = (x', r) →
      (∀ k, r = some k → ∃ d, k = it + d ∧ 1 ≤ d ∧ d ≤ fuel + 1 ∧ x' = step^[d] x ∧
          conv x' = true ∧ ∀ j, 1 ≤ j → j < d → conv (step^[j] x) = false) ∧
      (r = none → x' = step^[fuel + 1] x ∧
          ∀ j, 1 ≤ j → j ≤ fuel + 1 → conv (step^[j] x) = false) := by
  intro fuel
  induction fuel with
  | zero =>
    intro it x x' r _ h
    simp only [iterLoop] at h
    by_cases hc : conv (step x) = true
    · rw [if_pos hc] at h
      obtain ⟨rfl, rfl⟩ := Prod.mk.inj h
      refine ⟨?_, nofun⟩
      intro k hk
      obtain rfl := Option.some.inj hk
      exact ⟨1, rfl, le_refl _, le_refl _, rfl, hc, fun j h1 h2 => by omega⟩
    · rw [if_neg hc] at h
      obtain ⟨rfl, rfl⟩ := Prod.mk.inj h
      refine ⟨nofun, fun _ => ⟨rfl, ?_⟩⟩
      intro j h1 h2
      obtain rfl : j = 1 := by omega
      simpa using hc
  | succ n ih =>
    intro it x x' r hinv h
    simp only [iterLoop] at h
    by_cases hc : conv (step x) = true
    · rw [if_pos hc] at h
      obtain ⟨rfl, rfl⟩ := Prod.mk.inj h
      refine ⟨?_, nofun⟩
      intro k hk
      obtain rfl := Option.some.inj hk
      exact ⟨1, rfl, le_refl _, by omega, rfl, hc, fun j h1 h2 => by omega⟩
    · rw [if_neg hc] at h
      have hcf : conv (step x) = false := by simpa using hc
      have hlt : ¬ (it + 1 ≥ maxiter) := by
        rcases Nat.le_total maxiter 1 with hm | hm
        · rw [Nat.max_eq_right hm] at hinv; omega
        · rw [Nat.max_eq_left hm] at hinv; omega
      rw [if_neg hlt] at h
      obtain ⟨ihs, ihn⟩ := ih (it + 1) (step x) x' r (by omega) h
      constructor
      · intro k hk
        obtain ⟨d, rfl, hd1, hd2, hx, hcx, hj⟩ := ihs k hk
        refine ⟨d + 1, by omega, by omega, by omega, ?_, hcx, ?_⟩
        · rw [Function.iterate_succ_apply]; exact hx
        · intro j h1 h2
          obtain ⟨j', rfl⟩ : ∃ j', j = j' + 1 := ⟨j - 1, by omega⟩
          rw [Function.iterate_succ_apply]
          rcases Nat.eq_zero_or_pos j' with rfl | hpos
          · exact hcf
          · exact hj j' hpos (by omega)
      · intro hr
        obtain ⟨hx, hj⟩ := ihn hr
        refine ⟨by rw [Function.iterate_succ_apply]; exact hx, ?_⟩
        intro j h1 h2
        obtain ⟨j', rfl⟩ : ∃ j', j = j' + 1 := ⟨j - 1, by omega⟩
        rw [Function.iterate_succ_apply]
        rcases Nat.eq_zero_or_pos j' with rfl | hpos
        · exact hcf
        · exact hj j' hpos (by omega)

/-- **Exit conditions of `iterative_solve`.**  With `m = max maxiter 1` (the loop body runs
at least once): if the driver reports `k` iterations then `1 ≤ k ≤ m`, the returned iterate
is `step^k x0`, it is the first one that satisfies the convergence test; if it reports
`np.inf` (`none`) then exactly `m` steps were made and none of the iterates
`step^1 x0, …, step^m x0` satisfied the test. -/
theorem driver_stop (step : V → V) (conv : V → Bool) (maxiter : ℕ) (x0 x : V) (r : Option ℕ)
    (h : iterativeSolve step conv maxiter x0 = (x, r)) :
    (∀ k, r = some k → 1 ≤ k ∧ k ≤ max maxiter 1 ∧ x = step^[k] x0 ∧ conv x = true ∧
        ∀ j, 1 ≤ j → j < k → conv (step^[j] x0) = false) ∧
    (r = none → x = step^[max maxiter 1] x0 ∧
        ∀ j, 1 ≤ j → j ≤ max maxiter 1 → conv (step^[j] x0) = false) := by
  have hinv : 0 + (maxiter - 1) + 1 = max maxiter 1 := by
    rcases Nat.le_total maxiter 1 with hm | hm
    · rw [Nat.max_eq_right hm]; omega
    · rw [Nat.max_eq_left hm]; omega
  obtain ⟨hs, hn⟩ := iterLoop_spec step conv maxiter (maxiter - 1) 0 x0 x r hinv h
  have hm : maxiter - 1 + 1 = max maxiter 1 := by omega
  constructor
  · intro k hk
    obtain ⟨d, rfl, hd1, hd2, hx, hcx, hj⟩ := hs k hk
    rw [Nat.zero_add]
    exact ⟨hd1, by omega, hx, hcx, hj⟩
  · intro hr
    rw [← hm]
    exact hn hr

/-! ### E. `twogrid` -/
/-- non-vacuity of `driver_stop`: a run that converges in the third of at most ten
iterations, and a run with `maxiter = 0` that makes exactly one step and fails. -/
example : iterativeSolve (· + 1) (fun n : ℕ => decide (3 ≤ n)) 10 0 = (3, some 3) ∧
    iterativeSolve (· + 1) (fun _ : ℕ => false) 0 0 = (1, none) ∧
    iterativeSolve (· + 1) (fun _ : ℕ => false) 4 0 = (4, none) := by
  decide


/-- the iterate after `j` full rounds (smoothing steps, then coarse correction) of
`twogrid`. -/
def tgRound (smooth corr : V → V) (s : ℕ) : ℕ → V → V
  | 0, u0 => u0
  | j + 1, u0 => corr (iter smooth s (tgRound smooth corr s j u0))

theorem tgRound_succ' (smooth corr : V → V) (s : ℕ) (j : ℕ) (u : V) :
    tgRound smooth corr s (j + 1) u = tgRound smooth corr s j (corr (iter smooth s u)) := by
  induction j with
  | zero => rfl
  | succ n ih => rw [tgRound, ih, tgRound]

theorem tgJudge_some (small large : V → Bool) (maxiter : ℕ) (us : V) (n : ℕ) (e : TGExit)
    (h : tgJudge small large maxiter us n = some e) :
    e ≠ .outOfFuel ∧ (e = .converged → small us = true) ∧
      (e = .diverged → small us = false ∧ large us = true) ∧
      (e = .tooMany → n > maxiter) := by
  unfold tgJudge at h
  by_cases h1 : small us = true
  · rw [if_pos h1] at h
    obtain rfl := Option.some.inj h
    exact ⟨by decide, fun _ => h1, nofun, nofun⟩
  · rw [if_neg h1] at h
    by_cases h2 : large us = true
    · rw [if_pos h2] at h
      obtain rfl := Option.some.inj h
      exact ⟨by decide, nofun, fun _ => ⟨by simpa using h1, h2⟩,
        nofun⟩
    · rw [if_neg h2] at h
      by_cases h3 : n > maxiter
      · rw [if_pos h3] at h
        obtain rfl := Option.some.inj h
        exact ⟨by decide, nofun, nofun, fun _ => h3⟩
      · rw [if_neg h3] at h
        cases h

theorem tgJudge_none (small large : V → Bool) (maxiter : ℕ) (us : V) (n : ℕ)
    (h : tgJudge small large maxiter us n = none) : n ≤ maxiter := by
  unfold tgJudge at h
  by_cases h3 : n > maxiter
  · rw [if_pos h3] at h
    split_ifs at h
  · omega

theorem twogridLoop_spec (smooth corr : V → V) (small large : V → Bool) (s maxiter : ℕ) :
    ∀ (fuel k0 : ℕ) (u u' : V) (k : ℕ) (e : TGExit), k0 + fuel = maxiter + 1 → 1 ≤ fuel →
      twogridLoop smooth corr small large s maxiter fuel k0 u = (u', k, e) →
      ∃ d, k = k0 + d + 1 ∧ d < fuel ∧ u' = tgRound smooth corr s (d + 1) u ∧
        e ≠ .outOfFuel ∧
        (e = .converged → small (iter smooth s (tgRound smooth corr s d u)) = true) ∧
        (e = .diverged → small (iter smooth s (tgRound smooth corr s d u)) = false ∧
          large (iter smooth s (tgRound smooth corr s d u)) = true) ∧
        (e = .tooMany → k = maxiter + 1) ∧
        (∀ j, j < d → tgJudge small large maxiter
          (iter smooth s (tgRound smooth corr s j u)) (k0 + j + 1) = none) := by
  intro fuel
  induction fuel with
  | zero => intro k0 u u' k e _ h1; omega
  | succ n ih =>
    intro k0 u u' k e hinv _ h
    simp only [twogridLoop] at h
    cases hj : tgJudge small large maxiter (iter smooth s u) (k0 + 1) with
    | some e' =>
      rw [hj] at h
      simp only [Prod.mk.injEq] at h
      obtain ⟨rfl, rfl, rfl⟩ := h
      obtain ⟨hne, hc, hd, ht⟩ := tgJudge_some small large maxiter _ _ _ hj
      refine ⟨0, rfl, by omega, rfl, hne, hc, hd, fun h => ?_, fun j hj => by omega⟩
      have := ht h
      omega
    | none =>
      rw [hj] at h
      simp only at h
      have hle := tgJudge_none small large maxiter _ _ hj
      obtain ⟨d, rfl, hd, hu, hne, hc, hdv, ht, hjs⟩ :=
        ih (k0 + 1) (corr (iter smooth s u)) u' k e (by omega) (by omega) h
      refine ⟨d + 1, by omega, by omega, ?_, hne, ?_, ?_, ht, ?_⟩
      · rw [tgRound_succ']; exact hu
      · rw [tgRound_succ']; exact hc
      · rw [tgRound_succ']; exact hdv
      · intro j hj'
        rcases Nat.eq_zero_or_pos j with rfl | hpos
        · exact hj
        · obtain ⟨j', rfl⟩ : ∃ j', j = j' + 1 := ⟨j - 1, by omega⟩
          rw [tgRound_succ']
          have := hjs j' (by omega)
          rwa [show k0 + 1 + j' + 1 = k0 + (j' + 1) + 1 by omega] at this

/-- **Exit conditions of `twogrid`.**  The driver never runs out of (model) fuel; it returns
after `k` rounds with `1 ≤ k ≤ maxiter + 1`, the result is the iterate after `k` full rounds
(the correction is applied in the last round too); `converged` means the smoothed iterate
of the last round passed the `small` test, `diverged` that it failed `small` and passed
`large`, `tooMany` that `k = maxiter + 1`; in all earlier rounds no exit test fired. -/
theorem twogrid_stop (smooth corr : V → V) (small large : V → Bool) (s maxiter : ℕ)
    (u0 u : V) (k : ℕ) (e : TGExit)
    (h : twogrid smooth corr small large s maxiter u0 = (u, k, e)) :
    e ≠ .outOfFuel ∧ 1 ≤ k ∧ k ≤ maxiter + 1 ∧ u = tgRound smooth corr s k u0 ∧
    (e = .converged → small (iter smooth s (tgRound smooth corr s (k - 1) u0)) = true) ∧
    (e = .diverged → small (iter smooth s (tgRound smooth corr s (k - 1) u0)) = false ∧
      large (iter smooth s (tgRound smooth corr s (k - 1) u0)) = true) ∧
    (e = .tooMany → k = maxiter + 1) ∧
    (∀ j, j + 1 < k → tgJudge small large maxiter
      (iter smooth s (tgRound smooth corr s j u0)) (j + 1) = none) := by
  obtain ⟨d, rfl, hd, hu, hne, hc, hdv, ht, hjs⟩ :=
    twogridLoop_spec smooth corr small large s maxiter (maxiter + 1) 0 u0 u k e
      (by omega) (by omega) h
  refine ⟨hne, by omega, by omega, ?_, ?_, ?_, ht, ?_⟩
  · rw [Nat.zero_add]; exact hu
  · rw [show 0 + d + 1 - 1 = d by omega]; exact hc
  · rw [show 0 + d + 1 - 1 = d by omega]; exact hdv
  · intro j hj
    have := hjs j (by omega)
    rwa [Nat.zero_add] at this

/-- non-vacuity of `twogrid_stop`: one smoothing step `u ↦ u + 1`, correction `u ↦ 2u`;
the three exits all occur. -/
example :
    twogrid (· + 1) (· * 2) (fun n : ℕ => decide (20 ≤ n)) (fun n => decide (100 ≤ n)) 1 5 0
      = (62, 5, .converged) ∧
    twogrid (· + 1) (· * 2) (fun _ : ℕ => false) (fun n => decide (10 ≤ n)) 1 5 0
      = (30, 4, .diverged) ∧
    twogrid (· + 1) (· * 2) (fun _ : ℕ => false) (fun _ => false) 1 2 0
      = (14, 3, .tooMany) := by
  decide


end drivers

/-! ### F. smoothing sets -/

section smoothing
variable {ι : Type} [DecidableEq ι]

theorem mem_sdiff (a d : List ι) (e : ι) : e ∈ sdiff a d ↔ e ∈ a ∧ e ∉ d := by
  simp [sdiff]

theorem mem_newIndices (act deact : ℕ → List ι) (dir : ℕ → ℕ → List ι) (lv i : ℕ) (e : ι) :
    e ∈ newIndices act deact dir lv i ↔ i = lv ∧ (e ∈ act i ∨ e ∈ deact i) ∧ e ∉ dir lv i := by
  unfold newIndices
  by_cases h : i = lv
  · rw [if_pos h, List.mem_append, mem_sdiff, mem_sdiff]
    tauto
  · rw [if_neg h]
    simp [h]

/-- **Smoothing sets.**  For every smoothing strategy (`new`, `trunc`, `func_supp`,
`cell_supp`, any disparity): the set used on level `lv` for level `lv` itself contains every
new (active or deactivated) dof of that level that is not a Dirichlet dof, and no set
contains a Dirichlet dof. -/
theorem smoothing_sets (useExtra : Bool) (disparity : Option ℕ) (act deact : ℕ → List ι)
    (dir extra : ℕ → ℕ → List ι) (lv : ℕ) :
    (∀ e, (e ∈ act lv ∨ e ∈ deact lv) → e ∉ dir lv lv →
      e ∈ smoothIndices useExtra disparity act deact dir extra lv lv) ∧
    (∀ i e, e ∈ smoothIndices useExtra disparity act deact dir extra lv i → e ∉ dir lv i) := by
  constructor
  · intro e he hd
    unfold smoothIndices
    simp only [Nat.lt_irrefl, decide_false, Bool.and_false, Bool.false_and]
    rw [if_neg (by simp)]
    exact (mem_newIndices act deact dir lv lv e).2 ⟨rfl, he, hd⟩
  · intro i e he
    unfold smoothIndices at he
    simp only at he
    split_ifs at he
    · exact ((mem_sdiff _ _ _).1 he).2
    · exact ((mem_newIndices act deact dir lv i e).1 he).2.2

/-- a concrete instance of `smoothing_sets` (strategy with extra dofs, disparity 1). -/
example :
    smoothIndices true (some 1) (fun _ => [1, 2, 3]) (fun _ => [4]) (fun _ _ => [1])
      (fun _ _ => [1, 2, 5]) 1 0 = [2, 5] ∧
    smoothIndices true (some 1) (fun _ => [1, 2, 3]) (fun _ => [4]) (fun _ _ => [1])
      (fun _ _ => [1, 2, 5]) 1 1 = [2, 3, 4] ∧
    smoothIndices true (some 1) (fun _ => [1, 2, 3]) (fun _ => [4]) (fun _ _ => [1])
      (fun _ _ => [1, 2, 5]) 2 0 = [] := by
  decide


end smoothing

end Pyiga.Relax
