/-
Helper lemmas for the storage layout of generated assemblers (C01 `layout_disjoint`,
C08 `update_equiv`): `sym_index_to_seq`, `allocate_array`, `storage_index`.
-/
import Pyiga.Model.Layout
import Pyiga.Proofs.Index
import Mathlib.Tactic.Ring
import Mathlib.Tactic.Linarith
import Mathlib.Algebra.BigOperators.Group.List.Basic

namespace Pyiga.Layout
open Pyiga.Index

theorem rowStart_zero (n : Nat) : rowStart n 0 = 0 := rfl
theorem rowStart_succ (n i : Nat) : rowStart n (i + 1) = rowStart n i + (n - i) := by
  unfold rowStart
  rw [List.range_succ, List.foldl_append]
  rfl
theorem rowStart_closed (n i : Nat) (h : i ≤ n) : 2 * rowStart n i + i * i = 2 * n * i + i := by
  induction i with
  | zero => simp [rowStart_zero]
  | succ i ih =>
    have ih' := ih (by omega)
    rw [rowStart_succ]
    obtain ⟨k, hk⟩ : ∃ k, n = i + 1 + k := ⟨n - (i+1), by omega⟩
    subst hk
    have e : i + 1 + k - i = k + 1 := by omega
    rw [e]
    nlinarith [ih']
theorem rowStart_mono (n : Nat) {i i' : Nat} (h : i ≤ i') : rowStart n i ≤ rowStart n i' := by
  induction h with
  | refl => exact Nat.le_refl _
  | step _ ih => rw [rowStart_succ]; omega
theorem rowStart_total (n : Nat) : rowStart n n = n * (n + 1) / 2 := by
  have h := rowStart_closed n n (Nat.le_refl n)
  have : 2 * rowStart n n = n * (n + 1) := by nlinarith [h]
  omega

theorem symIndexToSeq_comm (n i j : Nat) : symIndexToSeq n i j = symIndexToSeq n j i := by
  unfold symIndexToSeq
  rcases Nat.lt_trichotomy i j with h | h | h
  · simp [Nat.not_lt.mpr (Nat.le_of_lt h), h]
  · subst h; rfl
  · simp [Nat.not_lt.mpr (Nat.le_of_lt h), h]

theorem symIndexToSeq_of_le (n i j : Nat) (h : i ≤ j) : symIndexToSeq n i j = rowStart n i + (j - i) := by
  unfold symIndexToSeq
  simp [Nat.not_lt.mpr h]

theorem symIndexToSeq_row (n i j : Nat) (hij : i ≤ j) (hj : j < n) :
    rowStart n i ≤ symIndexToSeq n i j ∧ symIndexToSeq n i j < rowStart n (i + 1) := by
  rw [symIndexToSeq_of_le n i j hij, rowStart_succ]
  omega

theorem symIndexToSeq_lt (n i j : Nat) (hi : i < n) (hj : j < n) :
    symIndexToSeq n i j < n * (n + 1) / 2 := by
  wlog hij : i ≤ j generalizing i j
  · rw [symIndexToSeq_comm]; exact this j i hj hi (by omega)
  have h1 := (symIndexToSeq_row n i j hij hj).2
  have h2 := rowStart_mono n (show i + 1 ≤ n by omega)
  rw [rowStart_total] at h2
  omega

theorem symIndexToSeq_inj (n i j i' j' : Nat) (hij : i ≤ j) (hj : j < n) (hij' : i' ≤ j') (hj' : j' < n)
    (h : symIndexToSeq n i j = symIndexToSeq n i' j') : i = i' ∧ j = j' := by
  have r1 := symIndexToSeq_row n i j hij hj
  have r2 := symIndexToSeq_row n i' j' hij' hj'
  have hi : i = i' := by
    rcases Nat.lt_trichotomy i i' with hlt | heq | hgt
    · have := rowStart_mono n (show i + 1 ≤ i' by omega); omega
    · exact heq
    · have := rowStart_mono n (show i' + 1 ≤ i by omega); omega
  subst hi
  rw [symIndexToSeq_of_le n i j hij, symIndexToSeq_of_le n i j' hij'] at h
  exact ⟨rfl, by omega⟩

theorem rowStart_bracket (n s : Nat) : ∀ m, m ≤ n → s < rowStart n m → ∃ i, i < m ∧ rowStart n i ≤ s ∧ s < rowStart n (i + 1) := by
  intro m
  induction m with
  | zero => intro _ h; simp [rowStart_zero] at h
  | succ m ih =>
    intro hm hs
    by_cases h : s < rowStart n m
    · obtain ⟨i, hi, h1, h2⟩ := ih (by omega) h
      exact ⟨i, by omega, h1, h2⟩
    · exact ⟨m, by omega, by omega, hs⟩

theorem symIndexToSeq_surj (n s : Nat) (hs : s < n * (n + 1) / 2) :
    ∃ i j, i ≤ j ∧ j < n ∧ symIndexToSeq n i j = s := by
  rw [← rowStart_total] at hs
  obtain ⟨i, hi, h1, h2⟩ := rowStart_bracket n s n (Nat.le_refl n) hs
  rw [rowStart_succ] at h2
  refine ⟨i, i + (s - rowStart n i), by omega, by omega, ?_⟩
  rw [symIndexToSeq_of_le n i _ (by omega)]
  omega

/-! ### `allocate_array` -/

def prefixOfs (sizes : List Nat) (k : Nat) : Nat := (sizes.take k).sum

theorem allocate_foldl (vs : List Var) (acc : List (Var × Nat × Nat)) (ofs : Nat) :
    vs.foldl (fun (acc : List (Var × Nat × Nat) × Nat) e =>
      (acc.1 ++ [(e, storageSize e, acc.2)], acc.2 + storageSize e)) (acc, ofs) =
    (acc ++ (vs.zipIdx).map (fun (p : Var × Nat) => (p.1, storageSize p.1, ofs + prefixOfs (vs.map storageSize) p.2)),
     ofs + (vs.map storageSize).sum) := by
  induction vs generalizing acc ofs with
  | nil => simp
  | cons v vs ih =>
    rw [List.foldl_cons, ih]
    simp only [List.map_cons, List.sum_cons, List.zipIdx_cons, Nat.zero_add]
    congr 1
    · rw [List.append_assoc]
      congr 1
      simp only [List.singleton_append, prefixOfs, List.take_zero, List.sum_nil, Nat.add_zero]
      congr 1
      rw [show (1 : Nat) = 0 + 1 from rfl, List.zipIdx_succ, List.map_map]
      apply List.map_congr_left
      intro p _
      simp [List.take_succ_cons, Nat.add_assoc]
    · omega

theorem allocateArray_fst (vs : List Var) :
    (allocateArray vs).1 = (vs.zipIdx).map (fun (p : Var × Nat) =>
      (p.1, storageSize p.1, prefixOfs (vs.map storageSize) p.2)) := by
  unfold allocateArray
  rw [allocate_foldl]
  simp

theorem allocateArray_snd (vs : List Var) : (allocateArray vs).2 = (vs.map storageSize).sum := by
  unfold allocateArray
  rw [allocate_foldl]
  simp

theorem prefixOfs_succ (sizes : List Nat) (k : Nat) (hk : k < sizes.length) :
    prefixOfs sizes (k + 1) = prefixOfs sizes k + sizes.getD k 0 := by
  unfold prefixOfs
  induction sizes generalizing k with
  | nil => simp at hk
  | cons a as ih =>
    cases k with
    | zero => simp
    | succ k =>
      simp only [List.take_succ_cons, List.sum_cons, List.getD_cons_succ]
      rw [ih k (by simpa using hk)]
      omega

theorem prefixOfs_mono (sizes : List Nat) {k l : Nat} (h : k ≤ l) (hl : l ≤ sizes.length) :
    prefixOfs sizes k ≤ prefixOfs sizes l := by
  induction h with
  | refl => exact Nat.le_refl _
  | step hkl ih =>
    rw [prefixOfs_succ _ _ (by omega)]
    have := ih (by omega)
    omega

theorem prefixOfs_length (sizes : List Nat) : prefixOfs sizes sizes.length = sizes.sum := by
  simp [prefixOfs]

theorem prefix_cover_aux (sizes : List Nat) (s : Nat) : ∀ m, m ≤ sizes.length → s < prefixOfs sizes m →
    ∃ k, k < m ∧ prefixOfs sizes k ≤ s ∧ s < prefixOfs sizes k + sizes.getD k 0 := by
  intro m
  induction m with
  | zero => intro _ h; simp [prefixOfs] at h
  | succ m ih =>
    intro hm hs
    by_cases h : s < prefixOfs sizes m
    · obtain ⟨k, hk, h1, h2⟩ := ih (by omega) h
      exact ⟨k, by omega, h1, h2⟩
    · rw [prefixOfs_succ _ _ (by omega)] at hs
      exact ⟨m, by omega, by omega, hs⟩

theorem prefix_cover (sizes : List Nat) (s : Nat) (hs : s < sizes.sum) :
    ∃ k, k < sizes.length ∧ prefixOfs sizes k ≤ s ∧ s < prefixOfs sizes k + sizes.getD k 0 := by
  rw [← prefixOfs_length] at hs
  exact prefix_cover_aux sizes s _ (Nat.le_refl _) hs

theorem prefix_disjoint (sizes : List Nat) (k l s : Nat) (hk : k < sizes.length) (hl : l < sizes.length)
    (h1 : prefixOfs sizes k ≤ s ∧ s < prefixOfs sizes k + sizes.getD k 0)
    (h2 : prefixOfs sizes l ≤ s ∧ s < prefixOfs sizes l + sizes.getD l 0) : k = l := by
  rcases Nat.lt_trichotomy k l with h | h | h
  · have := prefixOfs_mono sizes (show k + 1 ≤ l by omega) (by omega)
    rw [prefixOfs_succ _ _ hk] at this
    omega
  · exact h
  · have := prefixOfs_mono sizes (show l + 1 ≤ k by omega) (by omega)
    rw [prefixOfs_succ _ _ hl] at this
    omega

theorem prefix_le_total (sizes : List Nat) (k : Nat) (hk : k < sizes.length) :
    prefixOfs sizes k + sizes.getD k 0 ≤ sizes.sum := by
  rw [← prefixOfs_succ _ _ hk, ← prefixOfs_length]
  exact prefixOfs_mono sizes (by omega) (Nat.le_refl _)

/-! ### `storage_index` -/

def Var.WF (v : Var) : Prop := v.sym = true → ∃ m, v.shape = [m, m]

def Canonical (v : Var) (I : List Nat) : Prop :=
  Below I v.shape ∧ (v.sym = true → I.getD 0 0 ≤ I.getD 1 0)

theorem below_two {I : List Nat} {m n : Nat} (h : Below I [m, n]) : ∃ i j, I = [i, j] ∧ i < m ∧ j < n := by
  match I, h with
  | [i, j], h => exact ⟨i, j, rfl, h.1, h.2.1⟩
  | [], h => simp [Below] at h
  | [_], h => simp [Below] at h
  | _ :: _ :: _ :: _, h => simp [Below] at h

theorem storageIndex_lt (v : Var) (hv : v.WF) (I : List Nat) (hI : Below I v.shape) :
    storageIndex v I < storageSize v := by
  unfold storageIndex storageSize
  by_cases hs : v.sym = true
  · obtain ⟨m, hm⟩ := hv hs
    rw [hm] at hI
    obtain ⟨i, j, rfl, hi, hj⟩ := below_two hI
    simp only [hm, hs, if_true]
    simp only [List.cons_ne_nil, if_false, List.getD_cons_zero, List.getD_cons_succ]
    exact symIndexToSeq_lt m i j hi hj
  · simp only [hs]
    by_cases h0 : v.shape = []
    · rw [h0] at hI
      simp [h0]
    · simp only [h0, if_false, Bool.false_eq_true]
      exact toSeq_lt I v.shape hI

theorem toSeq_inj (I I' dims : List Nat) (h : Below I dims) (h' : Below I' dims)
    (e : toSeq I dims = toSeq I' dims) : I = I' := by
  rw [← fromSeq_toSeq I dims h, ← fromSeq_toSeq I' dims h', e]

theorem storageIndex_inj (v : Var) (hv : v.WF) (I I' : List Nat) (hI : Canonical v I) (hI' : Canonical v I')
    (h : storageIndex v I = storageIndex v I') : I = I' := by
  unfold storageIndex at h
  by_cases hs : v.sym = true
  · obtain ⟨m, hm⟩ := hv hs
    have b1 := hI.1; have b2 := hI'.1
    rw [hm] at b1 b2
    obtain ⟨i, j, rfl, hi, hj⟩ := below_two b1
    obtain ⟨i', j', rfl, hi', hj'⟩ := below_two b2
    have c1 := hI.2 hs; have c2 := hI'.2 hs
    simp only [List.getD_cons_zero, List.getD_cons_succ] at c1 c2
    simp only [hm, hs, if_true, List.cons_ne_nil, if_false, List.getD_cons_zero, List.getD_cons_succ] at h
    obtain ⟨rfl, rfl⟩ := symIndexToSeq_inj m i j i' j' c1 hj c2 hj' h
    rfl
  · by_cases h0 : v.shape = []
    · have b1 := hI.1; have b2 := hI'.1
      rw [h0] at b1 b2
      have l1 := below_length b1; have l2 := below_length b2
      simp at l1 l2
      rw [l1, l2]
    · simp only [h0, if_false, hs, Bool.false_eq_true] at h
      exact toSeq_inj I I' v.shape hI.1 hI'.1 h

theorem storageIndex_symm (v : Var) (hs : v.sym = true) (i j : Nat) :
    storageIndex v [i, j] = storageIndex v [j, i] := by
  unfold storageIndex
  simp only [hs, if_true, List.getD_cons_zero, List.getD_cons_succ]
  rw [symIndexToSeq_comm]

end Pyiga.Layout
