/-
C01 `entry_indexing`: `from_seq{d}` of the Cython base class, `next_lexicographic{d}`, the
`assemble_vector` loop.
-/
import Pyiga.Model.Assembler
import Pyiga.Proofs.Index
import Mathlib.Tactic.Linarith

namespace Pyiga.Asm
open Pyiga.Index

theorem fromSeqRev_snoc (i : Nat) (ms : List Nat) (m : Nat) :
    fromSeqRev i (ms ++ [m]) = fromSeqRev i ms ++ [(i / prod ms) % m] := by
  induction ms generalizing i with
  | nil => simp [fromSeqRev]
  | cons a as ih =>
    simp only [List.cons_append, fromSeqRev, ih, prod_cons, Nat.div_div_eq_div_mul]

theorem fromSeqC_eq (i : Nat) (dims : List Nat) (h : i < prod dims) :
    fromSeqC i dims = fromSeq i dims := by
  cases dims with
  | nil => rfl
  | cons d rest =>
    unfold fromSeqC fromSeq
    rw [List.reverse_cons, fromSeqRev_snoc, List.reverse_append, prod_reverse]
    simp only [List.reverse_cons, List.reverse_nil, List.nil_append, List.singleton_append]
    congr 1
    rw [prod_cons] at h
    have hp : 0 < prod rest := by
      rcases Nat.eq_zero_or_pos (prod rest) with h0 | h0
      · rw [h0] at h; simp at h
      · exact h0
    have : i / prod rest < d := by
      rw [Nat.div_lt_iff_lt_mul hp]; exact h
    exact (Nat.mod_eq_of_lt this).symm

theorem nextLexRev_eq_incrRev : ∀ (c e : List Nat), Below c e → c ≠ [] →
    nextLexRev c (e.map (fun _ => 0)) e = incrRev c e
  | [c], [e], h, _ => by
    have hc : c < e := h.1
    simp only [List.map_cons, List.map_nil, nextLexRev, incrRev]
    by_cases h1 : c + 1 = e
    · have : ¬ (c + 1 < e) := by omega
      simp [h1]
    · have : c + 1 < e := by omega
      simp [h1, this]
  | c :: c2 :: cs, e :: e2 :: es, h, _ => by
    have hc : c < e := h.1
    have ih := nextLexRev_eq_incrRev (c2 :: cs) (e2 :: es) h.2 (by simp)
    simp only [List.map_cons] at ih ⊢
    simp only [nextLexRev, incrRev]
    by_cases h1 : c + 1 = e
    · have : ¬ (c + 1 < e) := by omega
      rw [if_pos h1, if_neg this]
      rw [ih]
      rfl
    · have : c + 1 < e := by omega
      rw [if_neg h1, if_pos this]
  | [], _, _, hne => absurd rfl hne
  | [_], [], h, _ => by simp [Below] at h
  | [_], _ :: _ :: _, h, _ => by simp [Below] at h
  | _ :: _ :: _, [], h, _ => by simp [Below] at h
  | _ :: _ :: _, [_], h, _ => by simp [Below] at h

theorem nextLex_eq_incr (cur stop : List Nat) (h : Below cur stop) (hne : cur ≠ []) :
    nextLex cur (stop.map (fun _ => 0)) stop = incr cur stop := by
  unfold nextLex incr
  have : (stop.map (fun _ => 0)).reverse = stop.reverse.map (fun _ => 0) := by simp
  rw [this, nextLexRev_eq_incrRev _ _ (below_reverse _ _ h) (by simpa using hne)]

theorem vectorVisits_aux (ndofs : List Nat) (hne : ndofs ≠ []) (hpos : ∀ n ∈ ndofs, 0 < n) :
    ∀ (fuel m : Nat), m + fuel = prod ndofs →
      vectorVisits ndofs fuel (fromSeq m ndofs) = (List.range' m fuel).map (fun k => fromSeq k ndofs)
  | 0, _, _ => rfl
  | fuel + 1, m, hm => by
    have hb : Below (fromSeq m ndofs) ndofs := fromSeq_below m ndofs hpos
    have hne' : fromSeq m ndofs ≠ [] := by
      intro h0
      have := fromSeq_length m ndofs
      rw [h0] at this
      exact hne (List.length_eq_zero_iff.1 this.symm)
    simp only [vectorVisits, List.range'_succ, List.map_cons]
    rw [nextLex_eq_incr _ _ hb hne']
    congr 1
    by_cases hlast : fuel = 0
    · subst hlast
      rw [incr_fromSeq_last m ndofs (by omega)]
      rfl
    · rw [incr_fromSeq m ndofs (by omega)]
      exact vectorVisits_aux ndofs hne hpos fuel (m + 1) (by omega)

theorem vectorVisits_eq (ndofs : List Nat) (hne : ndofs ≠ []) (hpos : ∀ n ∈ ndofs, 0 < n) :
    vectorVisits ndofs (prod ndofs) (ndofs.map (fun _ => 0)) =
      (List.range (prod ndofs)).map (fun m => fromSeq m ndofs) := by
  rw [← fromSeq_zero ndofs, vectorVisits_aux ndofs hne hpos (prod ndofs) 0 (by omega), List.range_eq_range']

end Pyiga.Asm
