/-
Helper lemmas and soundness proofs for the expression layer (`Pyiga/Model/VForm.lean`).
Part 1 (this section) needs no algebraic laws at all: indexing is a homomorphism for `ev`
over *any* operations `Ops α`.
-/
import Pyiga.Model.VForm

namespace Pyiga.VForm
open Expr

variable {α : Type} (o : Ops α) (ρ : Env α)

theorem evL_getD (es : List Expr) (i : Nat) :
    ev o ρ (es.getD i (const 0)) 0 0 = evL o ρ es i := by
  induction es generalizing i with
  | nil => simp [ev, evL]
  | cons e es ih =>
    cases i with
    | zero => simp [evL]
    | succ i => simpa [evL] using ih i

theorem ev_foldl_add (ts : List Expr) (acc : Expr) :
    ev o ρ (ts.foldl (fun a b => sop .add a b) acc) 0 0
      = (ts.map (fun t => ev o ρ t 0 0)).foldl o.add (ev o ρ acc 0 0) := by
  induction ts generalizing acc with
  | nil => simp
  | cons t ts ih => simp [ih, ev, Ops.bin]

theorem ev_reduceAdd (ts : List Expr) :
    ev o ρ (reduceAdd ts) 0 0 = reduceAddV o (ts.map (fun t => ev o ρ t 0 0)) := by
  cases ts with
  | nil => simp [reduceAdd, reduceAddV, ev]
  | cons t ts => simp [reduceAdd, reduceAddV, ev_foldl_add]

/-- **at_sound**: `e[i]` / `e[i,j]` built by `at` (for every class that has one: literal
vector/matrix, TensorOperExpr, VectorCrossExpr, OuterProdExpr, MatVecExpr, MatMatExpr) denotes
entry `(i,j)` of `e`.  Holds over arbitrary operations: `at` re-associates nothing. -/
theorem at_sound_aux (e : Expr) : ∀ i j, ev o ρ (atE e i j) 0 0 = ev o ρ e i j := by
  induction e using Expr.rec (motive_2 := fun _ => True) with
  | const v => intro i j; simp [atE, ev]
  | litvec es _ => intro i j; simp only [atE, ev]; exact evL_getD o ρ es _
  | litmat m n es _ => intro i j; simp only [atE, ev]; exact evL_getD o ρ es _
  | varref v I D p => intro i j; simp [atE, ev]
  | neg x _ => intro i j; simp [atE, ev]
  | builtin f x _ => intro i j; simp [atE, ev]
  | sop op x y _ _ => intro i j; simp [atE, ev]
  | top op x y ihx ihy => intro i j; simp [atE, ev, ihx, ihy]
  | cross x y ihx ihy =>
    intro i j
    rcases i with _ | _ | i <;> simp [atE, ev, ihx, ihy, Ops.bin]
  | outer x y ihx ihy => intro i j; simp [atE, ev, ihx, ihy, Ops.bin]
  | pderiv b D ph => intro i j; simp [atE, ev]
  | matvec A x ihA ihx =>
    intro i j
    simp [atE, ev, ev_reduceAdd, List.map_map, Function.comp_def, ihA, ihx, Ops.bin]
  | matmat A B ihA ihB =>
    intro i j
    simp [atE, ev, ev_reduceAdd, List.map_map, Function.comp_def, ihA, ihB, Ops.bin]
  | gw a => intro i j; simp [atE, ev]
  | dx => intro i j; simp [atE, ev]
  | ds => intro i j; simp [atE, ev]
  | nil => trivial
  | cons _ _ _ _ => trivial

theorem evL_map_range (f : Nat → Expr) (n i : Nat) (h : i < n) :
    evL o ρ ((List.range n).map f) i = ev o ρ (f i) 0 0 := by
  have key : ∀ (l : List Nat) (i : Nat) (hi : i < l.length), evL o ρ (l.map f) i = ev o ρ (f (l[i])) 0 0 := by
    intro l
    induction l with
    | nil => intro i hi; simp at hi
    | cons a l ih =>
      intro i hi
      cases i with
      | zero => simp [evL]
      | succ i =>
        simp only [List.map_cons, evL]
        have hi' : i < l.length := by simpa using hi
        simpa using ih i hi'
  have hl : i < (List.range n).length := by simpa using h
  simpa using key (List.range n) i hl

/-- **literal expansion** (`_to_literal_vec_mat` at a node): every in-range entry is preserved. -/
theorem toLit1_vec (e : Expr) (n i : Nat) (hs : shape e = [n]) (hi : i < n) :
    ev o ρ (toLit1 e) i 0 = ev o ρ e i 0 := by
  cases e <;> simp_all [toLit1, ev, evL_map_range, at_sound_aux]

theorem toLit1_mat (e : Expr) (m n i j : Nat) (hs : shape e = [m, n]) (hi : i < m) (hj : j < n) :
    ev o ρ (toLit1 e) i j = ev o ρ e i j := by
  have hk : i * n + j < m * n := by
    calc i * n + j < i * n + n := by omega
      _ = (i + 1) * n := by rw [Nat.add_mul, Nat.one_mul]
      _ ≤ m * n := Nat.mul_le_mul_right n hi
  have hd : (i * n + j) / n = i := by
    rw [Nat.add_comm, Nat.add_mul_div_right _ _ (by omega : 0 < n), Nat.div_eq_of_lt hj, Nat.zero_add]
  have hm : (i * n + j) % n = j := by
    rw [Nat.add_comm, Nat.add_mul_mod_self_right, Nat.mod_eq_of_lt hj]
  cases e <;> simp_all [toLit1, ev, evL_map_range, at_sound_aux]

/-- `Expr.T`: entry `(i,j)` of the transpose is entry `(j,i)`. -/
theorem transpose_entry (e : Expr) (m n i j : Nat) (hs : shape e = [m, n]) (hi : i < n) (hj : j < m) :
    ev o ρ (transposeE e) i j = ev o ρ e j i := by
  have hm0 : 0 < m := by omega
  have hk : i * m + j < n * m := by
    calc i * m + j < i * m + m := by omega
      _ = (i + 1) * m := by rw [Nat.add_mul, Nat.one_mul]
      _ ≤ n * m := Nat.mul_le_mul_right m hi
  have hd : (i * m + j) / m = i := by
    rw [Nat.add_comm, Nat.add_mul_div_right _ _ hm0, Nat.div_eq_of_lt hj, Nat.zero_add]
  have hmod : (i * m + j) % m = j := by
    rw [Nat.add_comm, Nat.add_mul_mod_self_right, Nat.mod_eq_of_lt hj]
  simp [transposeE, len, ncols, hs, ev, evL_map_range, hk, hd, hmod, at_sound_aux]

/-- shape discipline enforced by the Python constructors (their asserts / raises) -/
def WSh : Expr → Bool
  | litvec es => (es.map fun e => WSh e && shape e == []).all id
  | litmat m n es => es.length == m * n && (es.map fun e => WSh e && shape e == []).all id
  | neg x => WSh x && shape x == []
  | builtin _ x => WSh x && shape x == []
  | sop _ x y => WSh x && WSh y && shape x == [] && shape y == []
  | top _ x y => WSh x && WSh y && shape x == shape y && ((shape x).length == 1 || (shape x).length == 2)
  | cross x y => WSh x && WSh y && shape x == [3] && shape y == [3]
  | outer x y => WSh x && WSh y && (shape x).length == 1 && (shape y).length == 1
  | matvec A x => WSh A && WSh x && (shape A).length == 2 && shape x == [ncols A]
  | matmat A B => WSh A && WSh B && (shape A).length == 2 && (shape B).length == 2 && len B == ncols A
  | _ => true

/-- the entries of an expression of the given shape -/
def InRange : List Nat → Nat → Nat → Prop
  | [], _, _ => True
  | [n], i, j => i < n ∧ j = 0
  | [m, n], i, j => i < m ∧ j < n
  | _, _, _ => False

variable {α : Type} (o : Ops α) (ρ : Env α)

theorem toLit1_shape (e : Expr) (h : (shape e).length ≤ 2) : shape (toLit1 e) = shape e := by
  cases e <;> simp only [toLit1] <;> (try rfl)
  all_goals
    generalize hs : shape _ = s at *
    match s, h with
    | [], _ => simp [hs]
    | [n], _ => simp [shape]
    | [m, n], _ => simp [shape]

theorem toLit1_sound (e : Expr) (i j : Nat) (h : InRange (shape e) i j) :
    ev o ρ (toLit1 e) i j = ev o ρ e i j := by
  generalize hs : shape e = s at h
  match s, h with
  | [], _ => cases e <;> simp_all [toLit1, shape]
  | [n], ⟨hi, hj⟩ => subst hj; exact toLit1_vec o ρ e n i hs hi
  | [m, n], ⟨hi, hj⟩ => exact toLit1_mat o ρ e m n i j hs hi hj
  | _ :: _ :: _ :: _, h => exact absurd h (by simp [InRange])


theorem shape_len1 {s : List Nat} (h : s.length = 1) : ∃ n, s = [n] := by
  match s, h with
  | [n], _ => exact ⟨n, rfl⟩

theorem shape_len2 {s : List Nat} (h : s.length = 2) : ∃ m n, s = [m, n] := by
  match s, h with
  | [m, n], _ => exact ⟨m, n, rfl⟩

theorem map_range_congr {β : Type} (f g : Nat → β) (n : Nat) (h : ∀ k, k < n → f k = g k) :
    (List.range n).map f = (List.range n).map g := by
  apply List.map_congr_left
  intro k hk
  exact h k (List.mem_range.mp hk)

/-- **literal expansion of a whole tree** (`vf.transform(_to_literal_vec_mat)`): for every
well-shaped expression, the shape is kept and every entry is preserved. -/
theorem toLit_sound (e : Expr) : WSh e = true →
    shape (toLit e) = shape e ∧ ∀ i j, InRange (shape e) i j → ev o ρ (toLit e) i j = ev o ρ e i j := by
  induction e using Expr.rec
    (motive_2 := fun es => (es.map fun e => WSh e && shape e == []).all id = true →
      ∀ i, evL o ρ (es.map toLit) i = evL o ρ es i) with
  | nil => simp
  | cons e es ihe ihes =>
    rename_i h i
    simp only [List.map_cons, List.all_cons, id, Bool.and_eq_true, beq_iff_eq] at h
    cases i with
    | zero =>
      simp only [List.map_cons, evL]
      exact (ihe h.1.1).2 0 0 (by rw [h.1.2]; trivial)
    | succ i => simpa [evL] using ihes h.2 i
  | const v => intro _; simp [toLit]
  | varref v I D p => intro _; simp [toLit]
  | pderiv b D ph => intro _; simp [toLit]
  | gw a => intro _; simp [toLit]
  | dx => intro _; simp [toLit]
  | ds => intro _; simp [toLit]
  | litvec es ih =>
    intro h
    simp only [WSh] at h
    refine ⟨by simp [toLit, shape], fun i j _ => ?_⟩
    simp only [toLit, ev]
    exact ih h i
  | litmat m n es ih =>
    intro h
    simp only [WSh, Bool.and_eq_true] at h
    refine ⟨by simp [toLit, shape], fun i j _ => ?_⟩
    simp only [toLit, ev]
    exact ih h.2 _
  | neg x ih =>
    intro h
    simp only [WSh, Bool.and_eq_true, beq_iff_eq] at h
    have := ih h.1
    refine ⟨by simp [toLit, toLit1, shape], fun i j _ => ?_⟩
    simp only [toLit, toLit1, shape, ev]
    rw [this.2 0 0 (by rw [h.2]; trivial)]
  | builtin f x ih =>
    intro h
    simp only [WSh, Bool.and_eq_true, beq_iff_eq] at h
    have := ih h.1
    refine ⟨by simp [toLit, toLit1, shape], fun i j _ => ?_⟩
    simp only [toLit, toLit1, shape, ev]
    rw [this.2 0 0 (by rw [h.2]; trivial)]
  | sop op x y ihx ihy =>
    intro h
    simp only [WSh, Bool.and_eq_true, beq_iff_eq] at h
    obtain ⟨⟨⟨hx, hy⟩, hsx⟩, hsy⟩ := h
    refine ⟨by simp [toLit, toLit1, shape], fun i j _ => ?_⟩
    simp only [toLit, toLit1, shape, ev]
    rw [(ihx hx).2 0 0 (by rw [hsx]; trivial), (ihy hy).2 0 0 (by rw [hsy]; trivial)]
  | top op x y ihx ihy =>
    intro h
    simp only [WSh, Bool.and_eq_true, beq_iff_eq, Bool.or_eq_true] at h
    obtain ⟨⟨⟨hx, hy⟩, hs⟩, hl⟩ := h
    have hx' := ihx hx
    have hy' := ihy hy
    have hsh : shape (top op (toLit x) (toLit y)) = shape (top op x y) := by simp [shape, hx'.1]
    have hle : (shape (top op (toLit x) (toLit y))).length ≤ 2 := by
      rw [hsh]; simp only [shape]; rcases hl with h1 | h1 <;> omega
    refine ⟨by simp only [toLit]; rw [toLit1_shape _ hle, hsh], fun i j hr => ?_⟩
    simp only [toLit]
    rw [toLit1_sound o ρ _ i j (by rw [hsh]; exact hr)]
    simp only [ev]
    simp only [shape] at hr
    rw [hx'.2 i j hr, hy'.2 i j (by rw [← hs]; exact hr)]
  | cross x y ihx ihy =>
    intro h
    simp only [WSh, Bool.and_eq_true, beq_iff_eq] at h
    obtain ⟨⟨⟨hx, hy⟩, hsx⟩, hsy⟩ := h
    have hx' := ihx hx
    have hy' := ihy hy
    have hsh : shape (cross (toLit x) (toLit y)) = shape (cross x y) := by simp [shape, hx'.1]
    have hle : (shape (cross (toLit x) (toLit y))).length ≤ 2 := by rw [hsh]; simp [shape, hsx]
    refine ⟨by simp only [toLit]; rw [toLit1_shape _ hle, hsh], fun i j hr => ?_⟩
    simp only [toLit]
    rw [toLit1_sound o ρ _ i j (by rw [hsh]; exact hr)]
    have ex : ∀ k, k < 3 → ev o ρ (toLit x) k 0 = ev o ρ x k 0 := fun k hk => hx'.2 k 0 (by rw [hsx]; exact ⟨hk, rfl⟩)
    have ey : ∀ k, k < 3 → ev o ρ (toLit y) k 0 = ev o ρ y k 0 := fun k hk => hy'.2 k 0 (by rw [hsy]; exact ⟨hk, rfl⟩)
    rcases i with _ | _ | i <;> simp [ev, ex, ey]
  | outer x y ihx ihy =>
    intro h
    simp only [WSh, Bool.and_eq_true, beq_iff_eq] at h
    obtain ⟨⟨⟨hx, hy⟩, hlx⟩, hly⟩ := h
    have hx' := ihx hx
    have hy' := ihy hy
    obtain ⟨nx, hnx⟩ := shape_len1 hlx
    obtain ⟨ny, hny⟩ := shape_len1 hly
    have hsh : shape (outer (toLit x) (toLit y)) = shape (outer x y) := by simp [shape, hx'.1, hy'.1]
    have hle : (shape (outer (toLit x) (toLit y))).length ≤ 2 := by rw [hsh]; simp [shape]
    refine ⟨by simp only [toLit]; rw [toLit1_shape _ hle, hsh], fun i j hr => ?_⟩
    simp only [toLit]
    rw [toLit1_sound o ρ _ i j (by rw [hsh]; exact hr)]
    simp only [shape, hnx, hny, List.headD_cons, InRange] at hr
    simp only [ev]
    rw [hx'.2 i 0 (by rw [hnx]; exact ⟨hr.1, rfl⟩), hy'.2 j 0 (by rw [hny]; exact ⟨hr.2, rfl⟩)]
  | matvec A x ihA ihx =>
    intro h
    simp only [WSh, Bool.and_eq_true, beq_iff_eq] at h
    obtain ⟨⟨⟨hA, hx⟩, hlA⟩, hsx⟩ := h
    have hA' := ihA hA
    have hx' := ihx hx
    obtain ⟨m, n, hmn⟩ := shape_len2 hlA
    have hn : ncols A = n := by simp [ncols, hmn]
    have hsh : shape (matvec (toLit A) (toLit x)) = shape (matvec A x) := by simp [shape, hA'.1]
    have hle : (shape (matvec (toLit A) (toLit x))).length ≤ 2 := by rw [hsh]; simp [shape]
    refine ⟨by simp only [toLit]; rw [toLit1_shape _ hle, hsh], fun i j hr => ?_⟩
    simp only [toLit]
    rw [toLit1_sound o ρ _ i j (by rw [hsh]; exact hr)]
    simp only [shape, hmn, List.headD_cons, InRange] at hr
    simp only [ev, len, hx'.1, hsx, hn, List.headD_cons]
    congr 1
    apply map_range_congr
    intro k hk
    rw [hA'.2 i k (by rw [hmn]; exact ⟨hr.1, hk⟩), hx'.2 k 0 (by rw [hsx, hn]; exact ⟨hk, rfl⟩)]
  | matmat A B ihA ihB =>
    intro h
    simp only [WSh, Bool.and_eq_true, beq_iff_eq] at h
    obtain ⟨⟨⟨⟨hA, hB⟩, hlA⟩, hlB⟩, hk⟩ := h
    have hA' := ihA hA
    have hB' := ihB hB
    obtain ⟨m, n, hmn⟩ := shape_len2 hlA
    obtain ⟨m', n', hmn'⟩ := shape_len2 hlB
    have hn : ncols A = n := by simp [ncols, hmn]
    have hm' : m' = n := by simpa [len, hmn', hn] using hk
    subst hm'
    have hsh : shape (matmat (toLit A) (toLit B)) = shape (matmat A B) := by simp [shape, hA'.1, hB'.1]
    have hle : (shape (matmat (toLit A) (toLit B))).length ≤ 2 := by rw [hsh]; simp [shape]
    refine ⟨by simp only [toLit]; rw [toLit1_shape _ hle, hsh], fun i j hr => ?_⟩
    simp only [toLit]
    rw [toLit1_sound o ρ _ i j (by rw [hsh]; exact hr)]
    simp only [shape, hmn, hmn', List.headD_cons, InRange] at hr
    have hr2 : j < n' := by simpa using hr.2
    simp only [ev, ncols, hA'.1, hmn]
    congr 1
    apply map_range_congr
    intro k hk
    have hk' : k < m' := by simpa using hk
    rw [hA'.2 i k (by rw [hmn]; exact ⟨hr.1, hk'⟩), hB'.2 k j (by rw [hmn']; exact ⟨hk', hr2⟩)]

theorem evL_replicate (e : Expr) : ∀ (n i : Nat), i < n → evL o ρ (List.replicate n e) i = ev o ρ e 0 0
  | 0, _, h => by omega
  | n + 1, 0, _ => by simp [List.replicate, evL]
  | n + 1, i + 1, h => by
      simp only [List.replicate, evL]
      exact evL_replicate e n i (by omega)

/-- `broadcast_expr`: every entry of the broadcast scalar is the scalar -/
theorem broadcast_vec (e : Expr) (n i j : Nat) (h : i < n) : ev o ρ (broadcast e [n]) i j = ev o ρ e 0 0 := by
  simp only [broadcast, ev]; exact evL_replicate o ρ e n i h

theorem broadcast_mat (e : Expr) (m n i j : Nat) (hi : i < m) (hj : j < n) :
    ev o ρ (broadcast e [m, n]) i j = ev o ρ e 0 0 := by
  have hk : i * n + j < m * n := by
    calc i * n + j < i * n + n := by omega
      _ = (i + 1) * n := by rw [Nat.add_mul, Nat.one_mul]
      _ ≤ m * n := Nat.mul_le_mul_right n hi
  simp only [broadcast, ev]; exact evL_replicate o ρ e (m * n) _ hk

/-- `OperExpr` on a scalar and a vector (either order): entrywise operation with the scalar -/
theorem operExpr_scalar_vec (op : Op) (x y : Expr) (n i : Nat) (hx : shape x = []) (hy : shape y = [n]) (hi : i < n) :
    ev o ρ (operExpr op x y) i 0 = o.bin op (ev o ρ x 0 0) (ev o ρ y i 0)
    ∧ ev o ρ (operExpr op y x) i 0 = o.bin op (ev o ρ y i 0) (ev o ρ x 0 0) := by
  constructor
  · simp [operExpr, isScalar, hx, hy, ev, broadcast_vec o ρ x n i 0 hi]
  · simp [operExpr, isScalar, hx, hy, ev, broadcast_vec o ρ x n i 0 hi]

theorem operExpr_scalar_mat (op : Op) (x y : Expr) (m n i j : Nat) (hx : shape x = []) (hy : shape y = [m, n])
    (hi : i < m) (hj : j < n) :
    ev o ρ (operExpr op x y) i j = o.bin op (ev o ρ x 0 0) (ev o ρ y i j)
    ∧ ev o ρ (operExpr op y x) i j = o.bin op (ev o ρ y i j) (ev o ρ x 0 0) := by
  constructor
  · simp [operExpr, isScalar, hx, hy, ev, broadcast_mat o ρ x m n i j hi hj]
  · simp [operExpr, isScalar, hx, hy, ev, broadcast_mat o ρ x m n i j hi hj]

/-- `inner(x, y)` for vectors, `tr(A)`: the defining sums (in Python's `reduce` association) -/
theorem inner_vec_sound (x y : Expr) (n : Nat) (hx : shape x = [n]) :
    ev o ρ (innerE x y) 0 0 = reduceAddV o ((List.range n).map fun i => o.mul (ev o ρ x i 0) (ev o ρ y i 0)) := by
  simp [innerE, hx, ev_reduceAdd, List.map_map, Function.comp_def, ev, Ops.bin, at_sound_aux]

theorem inner_mat_sound (x y : Expr) (m n : Nat) (hx : shape x = [m, n]) :
    ev o ρ (innerE x y) 0 0 = reduceAddV o ((List.range (m * n)).map fun k =>
      o.mul (ev o ρ x (k / n) (k % n)) (ev o ρ y (k / n) (k % n))) := by
  simp [innerE, hx, ev_reduceAdd, List.map_map, Function.comp_def, ev, Ops.bin, at_sound_aux]

theorem tr_sound (A : Expr) :
    ev o ρ (trE A) 0 0 = reduceAddV o ((List.range (len A)).map fun i => ev o ρ A i i) := by
  simp [trE, ev_reduceAdd, List.map_map, Function.comp_def, at_sound_aux]

/-- slices `e[i,:]`, `e[:,j]` and `ravel` -/
theorem row_sound (e : Expr) (i j : Nat) (hj : j < ncols e) : ev o ρ (rowE e i) j 0 = ev o ρ e i j := by
  simp [rowE, ev, evL_map_range, hj, at_sound_aux]

theorem col_sound (e : Expr) (i j : Nat) (hi : i < len e) : ev o ρ (colE e j) i 0 = ev o ρ e i j := by
  simp [colE, ev, evL_map_range, hi, at_sound_aux]

theorem ravel_sound (e : Expr) (i j : Nat) (hi : i < len e) (hj : j < ncols e) :
    ev o ρ (ravelE e) (i * ncols e + j) 0 = ev o ρ e i j := by
  have hk : i * ncols e + j < len e * ncols e := by
    calc i * ncols e + j < i * ncols e + ncols e := by omega
      _ = (i + 1) * ncols e := by rw [Nat.add_mul, Nat.one_mul]
      _ ≤ len e * ncols e := Nat.mul_le_mul_right _ hi
  have hd : (i * ncols e + j) / ncols e = i := by
    rw [Nat.add_comm, Nat.add_mul_div_right _ _ (by omega : 0 < ncols e), Nat.div_eq_of_lt hj, Nat.zero_add]
  have hm : (i * ncols e + j) % ncols e = j := by
    rw [Nat.add_comm, Nat.add_mul_mod_self_right, Nat.mod_eq_of_lt hj]
  simp [ravelE, ev, evL_map_range, hk, hd, hm, at_sound_aux]

end Pyiga.VForm
