/-
Helper lemmas and soundness proofs for the expression layer (`Pyiga/Model/VForm.lean`).
Part 1 (this section) needs no algebraic laws at all: indexing is a homomorphism for `ev`
over *any* operations `Ops α`.
-/
import Pyiga.Model.VForm

namespace Pyiga.VForm
open Expr

variable {α : Type} (o : Ops α) (ρ : Env α)

theorem evL_getD (es : List Expr) (i : Nat) :
    ev o ρ (es.getD i (const 0)) 0 0 = evL o ρ es i := by
  induction es generalizing i with
  | nil => simp [ev, evL]
  | cons e es ih =>
    cases i with
    | zero => simp [evL]
    | succ i => simpa [evL] using ih i

theorem ev_foldl_add (ts : List Expr) (acc : Expr) :
    ev o ρ (ts.foldl (fun a b => sop .add a b) acc) 0 0
      = (ts.map (fun t => ev o ρ t 0 0)).foldl o.add (ev o ρ acc 0 0) := by
  induction ts generalizing acc with
  | nil => simp
  | cons t ts ih => simp [ih, ev, Ops.bin]

theorem ev_reduceAdd (ts : List Expr) :
    ev o ρ (reduceAdd ts) 0 0 = reduceAddV o (ts.map (fun t => ev o ρ t 0 0)) := by
  cases ts with
  | nil => simp [reduceAdd, reduceAddV, ev]
  | cons t ts => simp [reduceAdd, reduceAddV, ev_foldl_add]

/-- **at_sound**: `e[i]` / `e[i,j]` built by `at` (for every class that has one: literal
vector/matrix, TensorOperExpr, VectorCrossExpr, OuterProdExpr, MatVecExpr, MatMatExpr) denotes
entry `(i,j)` of `e`.  Holds over arbitrary operations: `at` re-associates nothing. -/
theorem at_sound_aux (e : Expr) : ∀ i j, ev o ρ (atE e i j) 0 0 = ev o ρ e i j := by
  induction e using Expr.rec (motive_2 := fun _ => True) with
  | const v => intro i j; simp [atE, ev]
  | litvec es _ => intro i j; simp only [atE, ev]; exact evL_getD o ρ es _
  | litmat m n es _ => intro i j; simp only [atE, ev]; exact evL_getD o ρ es _
  | varref v I D p => intro i j; simp [atE, ev]
  | neg x _ => intro i j; simp [atE, ev]
  | builtin f x _ => intro i j; simp [atE, ev]
  | sop op x y _ _ => intro i j; simp [atE, ev]
  | top op x y ihx ihy => intro i j; simp [atE, ev, ihx, ihy]
  | cross x y ihx ihy =>
    intro i j
    rcases i with _ | _ | i <;> simp [atE, ev, ihx, ihy, Ops.bin]
  | outer x y ihx ihy => intro i j; simp [atE, ev, ihx, ihy, Ops.bin]
  | pderiv b D ph => intro i j; simp [atE, ev]
  | matvec A x ihA ihx =>
    intro i j
    simp [atE, ev, ev_reduceAdd, List.map_map, Function.comp_def, ihA, ihx, Ops.bin]
  | matmat A B ihA ihB =>
    intro i j
    simp [atE, ev, ev_reduceAdd, List.map_map, Function.comp_def, ihA, ihB, Ops.bin]
  | gw a => intro i j; simp [atE, ev]
  | dx => intro i j; simp [atE, ev]
  | ds => intro i j; simp [atE, ev]
  | nil => trivial
  | cons _ _ _ _ => trivial

theorem evL_map_range (f : Nat → Expr) (n i : Nat) (h : i < n) :
    evL o ρ ((List.range n).map f) i = ev o ρ (f i) 0 0 := by
  have key : ∀ (l : List Nat) (i : Nat) (hi : i < l.length), evL o ρ (l.map f) i = ev o ρ (f (l[i])) 0 0 := by
    intro l
    induction l with
    | nil => intro i hi; simp at hi
    | cons a l ih =>
      intro i hi
      cases i with
      | zero => simp [evL]
      | succ i =>
        simp only [List.map_cons, evL]
        have hi' : i < l.length := by simpa using hi
        simpa using ih i hi'
  have hl : i < (List.range n).length := by simpa using h
  simpa using key (List.range n) i hl

/-- **literal expansion** (`_to_literal_vec_mat` at a node): every in-range entry is preserved. -/
theorem toLit1_vec (e : Expr) (n i : Nat) (hs : shape e = [n]) (hi : i < n) :
    ev o ρ (toLit1 e) i 0 = ev o ρ e i 0 := by
  cases e <;> simp_all [toLit1, ev, evL_map_range, at_sound_aux]

theorem toLit1_mat (e : Expr) (m n i j : Nat) (hs : shape e = [m, n]) (hi : i < m) (hj : j < n) :
    ev o ρ (toLit1 e) i j = ev o ρ e i j := by
  have hk : i * n + j < m * n := by
    calc i * n + j < i * n + n := by omega
      _ = (i + 1) * n := by rw [Nat.add_mul, Nat.one_mul]
      _ ≤ m * n := Nat.mul_le_mul_right n hi
  have hd : (i * n + j) / n = i := by
    rw [Nat.add_comm, Nat.add_mul_div_right _ _ (by omega : 0 < n), Nat.div_eq_of_lt hj, Nat.zero_add]
  have hm : (i * n + j) % n = j := by
    rw [Nat.add_comm, Nat.add_mul_mod_self_right, Nat.mod_eq_of_lt hj]
  cases e <;> simp_all [toLit1, ev, evL_map_range, at_sound_aux]

/-- `Expr.T`: entry `(i,j)` of the transpose is entry `(j,i)`. -/
theorem transpose_entry (e : Expr) (m n i j : Nat) (hs : shape e = [m, n]) (hi : i < n) (hj : j < m) :
    ev o ρ (transposeE e) i j = ev o ρ e j i := by
  have hm0 : 0 < m := by omega
  have hk : i * m + j < n * m := by
    calc i * m + j < i * m + m := by omega
      _ = (i + 1) * m := by rw [Nat.add_mul, Nat.one_mul]
      _ ≤ n * m := Nat.mul_le_mul_right m hi
  have hd : (i * m + j) / m = i := by
    rw [Nat.add_comm, Nat.add_mul_div_right _ _ hm0, Nat.div_eq_of_lt hj, Nat.zero_add]
  have hmod : (i * m + j) % m = j := by
    rw [Nat.add_comm, Nat.add_mul_mod_self_right, Nat.mod_eq_of_lt hj]
  simp [transposeE, len, ncols, hs, ev, evL_map_range, hk, hd, hmod, at_sound_aux]

end Pyiga.VForm
