/-
Helper lemmas about `Pyiga.Model.Knots` (L-ord).  Order-theoretic facts are proved over an
arbitrary `LinearOrder`, arithmetic ones over an arbitrary linearly ordered field; the model
functions are the very ones the drivers execute over `Rat`.
-/
import Pyiga.Model.Knots
import Mathlib.Order.Defs.LinearOrder
import Mathlib.Order.Basic
import Mathlib.Tactic.Linarith
import Mathlib.Tactic.Ring
import Mathlib.Tactic.FieldSimp
import Mathlib.Algebra.Order.Field.Basic
import Mathlib.Data.List.Basic
import Mathlib.Data.List.Range
import Mathlib.Data.List.Perm.Basic
import Mathlib.Data.Finset.Card
import Mathlib.Data.Finset.Union
import Mathlib.Data.List.Count
import Mathlib.Tactic.NormNum

namespace Pyiga.Knots

/-! ## findspan -/

section Findspan
variable {K : Type} [LinearOrder K]

/-- loop invariant `t a ≤ u < t b` ⇒ the loop returns `r ∈ [a, b)` with `t r ≤ u < t (r+1)`,
for any fuel `≥ b - a` (no monotonicity needed). -/
theorem findspanLoop_spec (t : ℕ → K) (u : K) :
    ∀ (fuel a b : ℕ), a < b → b - a ≤ fuel → t a ≤ u → u < t b →
      a ≤ findspanLoop t u fuel a b ∧ findspanLoop t u fuel a b < b ∧
      t (findspanLoop t u fuel a b) ≤ u ∧ u < t (findspanLoop t u fuel a b + 1) := by
  intro fuel
  induction fuel with
  | zero => intro a b hab hf; omega
  | succ f ih =>
    intro a b hab hf ha hb
    unfold findspanLoop
    by_cases h1 : b - a > 1
    · simp only [h1, if_true]
      have hc1 : a < a + (b - a) / 2 := by
        have : 1 ≤ (b - a) / 2 := by omega
        omega
      have hc2 : a + (b - a) / 2 < b := by omega
      by_cases h2 : t (a + (b - a) / 2) > u
      · simp only [h2, if_true]
        have := ih a (a + (b - a) / 2) hc1 (by omega) ha h2
        refine ⟨this.1, by omega, this.2.2.1, this.2.2.2⟩
      · simp only [h2, if_false]
        have hle : t (a + (b - a) / 2) ≤ u := not_lt.mp h2
        have := ih (a + (b - a) / 2) b hc2 (by omega) hle hb
        refine ⟨by omega, this.2.1, this.2.2.1, this.2.2.2⟩
    · simp only [h1, if_false]
      have hb1 : b = a + 1 := by omega
      subst hb1
      exact ⟨le_refl _, by omega, ha, hb⟩

/-- the result of the loop does not depend on the amount of fuel once it is `≥ b - a` -/
theorem findspanLoop_fuel (t : ℕ → K) (u : K) :
    ∀ (f1 f2 a b : ℕ), b - a ≤ f1 → b - a ≤ f2 →
      findspanLoop t u f1 a b = findspanLoop t u f2 a b := by
  intro f1
  induction f1 with
  | zero =>
    intro f2 a b h1 _
    cases f2 with
    | zero => rfl
    | succ g =>
      have : ¬ (b - a > 1) := by omega
      simp [findspanLoop, this]
  | succ f ih =>
    intro f2 a b h1 h2
    cases f2 with
    | zero =>
      have : ¬ (b - a > 1) := by omega
      simp [findspanLoop, this]
    | succ g =>
      unfold findspanLoop
      by_cases hh : b - a > 1
      · simp only [hh, if_true]
        by_cases h3 : t (a + (b - a) / 2) > u
        · simp only [h3, if_true]
          exact ih g a _ (by omega) (by omega)
        · simp only [h3, if_false]
          exact ih g _ b (by omega) (by omega)
      · simp only [hh, if_false]

/-- **findspan_spec** (interior case): for a knot sequence that is non-decreasing on
`[0, n)`, `2p+2 ≤ n`, and `kv[p] ≤ u < kv[n-p-1]`, `pyx_findspan` returns an index `s` with
`p ≤ s ≤ n-p-2` and `kv[s] ≤ u < kv[s+1]`. -/
theorem findspan_interior (t : ℕ → K) (n p : ℕ) (u : K) (hn : 2 * p + 2 ≤ n)
    (hmono : ∀ i j, i ≤ j → j < n → t i ≤ t j) (hlo : t p ≤ u) (hhi : u < t (n - p - 1)) :
    p ≤ findspan t n p u ∧ findspan t n p u ≤ n - p - 2 ∧
      t (findspan t n p u) ≤ u ∧ u < t (findspan t n p u + 1) := by
  unfold findspan
  have hge : ¬ (u ≥ t (n - p - 1)) := not_le.mpr hhi
  simp only [hge, if_false]
  have h0 : t 0 ≤ u := le_trans (hmono 0 p (Nat.zero_le _) (by omega)) hlo
  have hb : u < t (n - 1) := lt_of_lt_of_le hhi (hmono _ _ (by omega) (by omega))
  have hs := findspanLoop_spec t u n 0 (n - 1) (by omega) (by omega) h0 hb
  set s := findspanLoop t u n 0 (n - 1) with hsdef
  refine ⟨?_, ?_, hs.2.2.1, hs.2.2.2⟩
  · by_contra hlt
    have hlt' : s + 1 ≤ p := by omega
    have : t (s + 1) ≤ t p := hmono _ _ hlt' (by omega)
    exact absurd (lt_of_lt_of_le hs.2.2.2 (le_trans this hlo)) (lt_irrefl _)
  · by_contra hgt
    have hgt' : n - p - 1 ≤ s := by omega
    have : t (n - p - 1) ≤ t s := hmono _ _ hgt' (by omega)
    exact absurd (lt_of_lt_of_le hhi (le_trans this hs.2.2.1)) (lt_irrefl _)

/-- right end: `u ≥ kv[n-p-1]` returns `n-p-2` -/
theorem findspan_right (t : ℕ → K) (n p : ℕ) (u : K) (h : t (n - p - 1) ≤ u) :
    findspan t n p u = n - p - 2 := by
  unfold findspan
  have : u ≥ t (n - p - 1) := h
  simp [this]

/-- a non-decreasing sequence has at most one span `[t i, t (i+1))` containing `u` -/
theorem span_unique (t : ℕ → K) (n : ℕ) (u : K) (hmono : ∀ i j, i ≤ j → j < n → t i ≤ t j)
    (i j : ℕ) (hi : i + 1 < n) (hj : j + 1 < n)
    (h1 : t i ≤ u ∧ u < t (i + 1)) (h2 : t j ≤ u ∧ u < t (j + 1)) : i = j := by
  by_contra hne
  rcases Nat.lt_or_gt_of_ne hne with h | h
  · have : t (i + 1) ≤ t j := hmono _ _ (by omega) (by omega)
    exact absurd (lt_of_lt_of_le h1.2 (le_trans this h2.1)) (lt_irrefl _)
  · have : t (j + 1) ≤ t i := hmono _ _ (by omega) (by omega)
    exact absurd (lt_of_lt_of_le h2.2 (le_trans this h1.1)) (lt_irrefl _)

end Findspan


/-! ## mesh caches -/

section Mesh
variable {α : Type} [DecidableEq α]

theorem k2mAux_length : ∀ (xs : List α) (prev : α) (m : ℕ), (k2mAux prev m xs).length = xs.length := by
  intro xs
  induction xs with
  | nil => intro prev m; rfl
  | cons x xs ih =>
    intro prev m
    by_cases hx : x = prev <;> simp [k2mAux, hx, ih]

theorem k2mAux_ge : ∀ (xs : List α) (prev : α) (m : ℕ), ∀ v ∈ k2mAux prev m xs, m ≤ v := by
  intro xs
  induction xs with
  | nil => intro prev m v hv; simp [k2mAux] at hv
  | cons x xs ih =>
    intro prev m v hv
    by_cases hx : x = prev
    · simp only [k2mAux, hx, if_true, List.mem_cons] at hv
      rcases hv with h | h
      · omega
      · exact ih _ _ v h
    · simp only [k2mAux, hx, if_false, List.mem_cons] at hv
      rcases hv with h | h
      · omega
      · have := ih _ _ v h; omega

/-- `mesh[k2m[i]] = kv[i]`, in the offset form needed for the induction -/
theorem mesh_k2mAux [Zero α] : ∀ (xs : List α) (prev : α) (m i : ℕ), i < xs.length →
    (prev :: meshAux prev xs).getD ((k2mAux prev m xs).getD i 0 - m) 0 = xs.getD i 0 := by
  intro xs
  induction xs with
  | nil => intro prev m i h; simp at h
  | cons x xs ih =>
    intro prev m i h
    by_cases hx : x = prev
    · subst hx
      cases i with
      | zero => simp [k2mAux, meshAux]
      | succ i =>
        have := ih x m i (by simpa using h)
        simpa [k2mAux, meshAux] using this
    · cases i with
      | zero => simp [k2mAux, meshAux, hx]
      | succ i =>
        have hi : i < xs.length := by simpa using h
        have h1 := ih x (m + 1) i hi
        have hmem : (k2mAux x (m + 1) xs).getD i 0 ∈ k2mAux x (m + 1) xs := by
          have hl : i < (k2mAux x (m + 1) xs).length := by rw [k2mAux_length]; exact hi
          have e : (k2mAux x (m + 1) xs).getD i 0 = (k2mAux x (m + 1) xs)[i] := by
            simp [List.getD_eq_getElem?_getD, hl]
          rw [e]
          exact List.getElem_mem hl
        have hge := k2mAux_ge xs x (m + 1) _ hmem
        obtain ⟨w, hw⟩ : ∃ w, (k2mAux x (m + 1) xs).getD i 0 = m + 1 + w :=
          ⟨(k2mAux x (m + 1) xs).getD i 0 - (m + 1), by omega⟩
        rw [hw] at h1
        have e1 : m + 1 + w - (m + 1) = w := by omega
        rw [e1] at h1
        simp only [k2mAux, meshAux, hx, if_false, List.getD_cons_succ]
        rw [hw]
        have e2 : m + 1 + w - m = w + 1 := by omega
        rw [e2, List.getD_cons_succ]
        exact h1

/-- the inverse array is non-decreasing and grows by steps of at most one -/
theorem k2mAux_chain : ∀ (xs : List α) (prev : α) (m : ℕ),
    List.IsChain (fun a b => a ≤ b ∧ b ≤ a + 1) (m :: k2mAux prev m xs) := by
  intro xs
  induction xs with
  | nil => intro prev m; simp [k2mAux]
  | cons x xs ih =>
    intro prev m
    by_cases hx : x = prev
    · simp only [k2mAux, hx, if_true]
      exact List.IsChain.cons_cons ⟨le_refl _, by omega⟩ (ih _ _)
    · simp only [k2mAux, hx, if_false]
      exact List.IsChain.cons_cons ⟨by omega, le_refl _⟩ (ih _ _)

/-- the scan `np.where(k2m[1:] != k2m[:-1])` performed on the knots themselves -/
def spanIdxSpec : ℕ → List α → List ℕ
  | i, a :: b :: rest => if b ≠ a then i :: spanIdxSpec (i + 1) (b :: rest) else spanIdxSpec (i + 1) (b :: rest)
  | _, _ => []

theorem meshSpanIndicesAux_k2m : ∀ (xs : List α) (prev : α) (m i : ℕ),
    meshSpanIndicesAux i (m :: k2mAux prev m xs) = spanIdxSpec i (prev :: xs) := by
  intro xs
  induction xs with
  | nil => intro prev m i; simp [k2mAux, meshSpanIndicesAux, spanIdxSpec]
  | cons x xs ih =>
    intro prev m i
    by_cases hx : x = prev
    · simp [k2mAux, meshSpanIndicesAux, spanIdxSpec, hx, ih]
    · simp [k2mAux, meshSpanIndicesAux, spanIdxSpec, hx, ih]

theorem spanIdxSpec_length : ∀ (xs : List α) (prev : α) (i : ℕ),
    (spanIdxSpec i (prev :: xs)).length = (meshAux prev xs).length := by
  intro xs
  induction xs with
  | nil => intro prev i; simp [spanIdxSpec, meshAux]
  | cons x xs ih =>
    intro prev i
    by_cases hx : x = prev
    · simp [spanIdxSpec, meshAux, hx, ih]
    · simp [spanIdxSpec, meshAux, hx, ih]

theorem mem_spanIdxSpec [Zero α] : ∀ (l : List α) (i j : ℕ),
    j ∈ spanIdxSpec i l ↔ ∃ k, j = i + k ∧ k + 1 < l.length ∧ l.getD k 0 ≠ l.getD (k + 1) 0 := by
  intro l
  induction l with
  | nil => intro i j; simp [spanIdxSpec]
  | cons a l ih =>
    intro i j
    cases l with
    | nil => simp [spanIdxSpec]
    | cons b rest =>
      have ihh := ih (i + 1) j
      have e : spanIdxSpec i (a :: b :: rest)
          = if b ≠ a then i :: spanIdxSpec (i + 1) (b :: rest) else spanIdxSpec (i + 1) (b :: rest) := rfl
      rw [e]
      by_cases hb : b ≠ a
      · rw [if_pos hb, List.mem_cons, ihh]
        constructor
        · rintro (h | ⟨k, hk, hlen, hne⟩)
          · exact ⟨0, by omega, by simp, by simpa using fun h => hb h.symm⟩
          · exact ⟨k + 1, by omega, by simpa using hlen, by simpa using hne⟩
        · rintro ⟨k, hk, hlen, hne⟩
          cases k with
          | zero => left; omega
          | succ k => right; exact ⟨k, by omega, by simpa using hlen, by simpa using hne⟩
      · rw [if_neg hb, ihh]
        constructor
        · rintro ⟨k, hk, hlen, hne⟩
          exact ⟨k + 1, by omega, by simpa using hlen, by simpa using hne⟩
        · rintro ⟨k, hk, hlen, hne⟩
          cases k with
          | zero =>
            exfalso; apply hne
            have : b = a := by simpa using hb
            simp [this]
          | succ k => exact ⟨k, by omega, by simpa using hlen, by simpa using hne⟩

end Mesh

section MeshOrder
variable {K : Type} [LinearOrder K]

theorem meshAux_sorted : ∀ (xs : List K) (prev : K), (prev :: xs).Pairwise (· ≤ ·) →
    (prev :: meshAux prev xs).Pairwise (· < ·) := by
  intro xs
  induction xs with
  | nil => intro prev _; simp [meshAux]
  | cons x xs ih =>
    intro prev h
    have hpx : prev ≤ x := (List.pairwise_cons.mp h).1 x (by simp)
    have htail : (x :: xs).Pairwise (· ≤ ·) := (List.pairwise_cons.mp h).2
    have ihx := ih x htail
    by_cases hx : x = prev
    · subst hx; simpa [meshAux] using ihx
    · simp only [meshAux, hx, if_false]
      have hlt : prev < x := lt_of_le_of_ne hpx (fun h => hx h.symm)
      refine List.pairwise_cons.mpr ⟨?_, ihx⟩
      intro y hy
      rcases List.mem_cons.mp hy with h | h
      · rw [h]; exact hlt
      · exact lt_trans hlt ((List.pairwise_cons.mp ihx).1 y h)

end MeshOrder

/-! ## expansion of (breakpoint, multiplicity) lists -/

section Expand
variable {α : Type} [DecidableEq α]

/-- `np.repeat(values, counts)` -/
def expand (l : List (α × ℕ)) : List α := l.flatMap (fun q => List.replicate q.2 q.1)

theorem expand_cons (q : α × ℕ) (l : List (α × ℕ)) : expand (q :: l) = List.replicate q.2 q.1 ++ expand l := by
  simp [expand]

theorem meshAux_replicate (x : α) (c : ℕ) (rest : List α) :
    meshAux x (List.replicate c x ++ rest) = meshAux x rest := by
  induction c with
  | zero => simp
  | succ c ih => simp [List.replicate_succ, meshAux, ih]

theorem multsAux_replicate (x : α) (k : ℕ) (rest : List α) : ∀ c,
    multsAux x c (List.replicate k x ++ rest) = multsAux x (c + k) rest := by
  induction k with
  | zero => intro c; simp
  | succ k ih =>
    intro c
    simp only [List.replicate_succ, List.cons_append, multsAux, if_true]
    rw [ih]; congr 1; omega

theorem meshAux_expand : ∀ (l : List (α × ℕ)) (x : α), (∀ q ∈ l, 1 ≤ q.2) →
    (x :: l.map Prod.fst).Pairwise (· ≠ ·) → meshAux x (expand l) = l.map Prod.fst := by
  intro l
  induction l with
  | nil => intro x _ _; simp [expand, meshAux]
  | cons q l ih =>
    intro x hc hp
    obtain ⟨y, c⟩ := q
    have hc1 : 1 ≤ c := hc (y, c) (by simp)
    obtain ⟨c', rfl⟩ : ∃ c', c = c' + 1 := ⟨c - 1, by omega⟩
    have hxy : y ≠ x := by
      have := (List.pairwise_cons.mp hp).1 y (by simp)
      exact fun h => this h.symm
    have htl : (y :: l.map Prod.fst).Pairwise (· ≠ ·) := by
      have := (List.pairwise_cons.mp hp).2
      simpa using this
    rw [expand_cons]
    simp only [List.replicate_succ, List.cons_append, meshAux, hxy, if_false, List.map_cons]
    rw [meshAux_replicate, ih y (fun q hq => hc q (by simp [hq])) htl]

theorem mesh_expand (x : α) (c : ℕ) (l : List (α × ℕ)) (hc : ∀ q ∈ l, 1 ≤ q.2)
    (hp : (x :: l.map Prod.fst).Pairwise (· ≠ ·)) :
    mesh (expand ((x, c + 1) :: l)) = x :: l.map Prod.fst := by
  rw [expand_cons]
  simp only [List.replicate_succ, List.cons_append, mesh]
  rw [meshAux_replicate, meshAux_expand l x hc hp]

theorem multsAux_expand : ∀ (l : List (α × ℕ)) (x : α) (c : ℕ), (∀ q ∈ l, 1 ≤ q.2) →
    (x :: l.map Prod.fst).Pairwise (· ≠ ·) → multsAux x c (expand l) = c :: l.map Prod.snd := by
  intro l
  induction l with
  | nil => intro x c _ _; simp [expand, multsAux]
  | cons q l ih =>
    intro x c hc hp
    obtain ⟨y, k⟩ := q
    have hk1 : 1 ≤ k := hc (y, k) (by simp)
    obtain ⟨k', rfl⟩ : ∃ k', k = k' + 1 := ⟨k - 1, by omega⟩
    have hxy : y ≠ x := by
      have := (List.pairwise_cons.mp hp).1 y (by simp)
      exact fun h => this h.symm
    have htl : (y :: l.map Prod.fst).Pairwise (· ≠ ·) := by
      have := (List.pairwise_cons.mp hp).2
      simpa using this
    rw [expand_cons]
    simp only [List.replicate_succ, List.cons_append, multsAux, hxy, if_false, List.map_cons]
    rw [multsAux_replicate, ih y _ (fun q hq => hc q (by simp [hq])) htl]
    congr 2; omega

theorem mults_expand (x : α) (c : ℕ) (l : List (α × ℕ)) (hc : ∀ q ∈ l, 1 ≤ q.2)
    (hp : (x :: l.map Prod.fst).Pairwise (· ≠ ·)) :
    mults (expand ((x, c + 1) :: l)) = (c + 1) :: l.map Prod.snd := by
  rw [expand_cons]
  simp only [List.replicate_succ, List.cons_append, mults]
  rw [multsAux_replicate, multsAux_expand l x _ hc hp]
  congr 1; omega

theorem mem_expand (l : List (α × ℕ)) (b : α) (h : b ∈ expand l) : ∃ q ∈ l, b = q.1 := by
  unfold expand at h
  obtain ⟨q, hq, hb⟩ := List.mem_flatMap.mp h
  exact ⟨q, hq, (List.mem_replicate.mp hb).2⟩

end Expand

section ExpandOrder
variable {K : Type} [LinearOrder K]

theorem pairwise_le_replicate (n : ℕ) (a : K) : (List.replicate n a).Pairwise (· ≤ ·) := by
  induction n with
  | zero => simp
  | succ n ih =>
    rw [List.replicate_succ]
    exact List.pairwise_cons.mpr ⟨fun b hb => le_of_eq (List.mem_replicate.mp hb).2.symm, ih⟩

theorem expand_sorted : ∀ (l : List (K × ℕ)), (l.map Prod.fst).Pairwise (· < ·) →
    (expand l).Pairwise (· ≤ ·) := by
  intro l
  induction l with
  | nil => intro _; simp [expand]
  | cons q l ih =>
    intro h
    rw [expand_cons]
    have h' : ∀ y ∈ l.map Prod.fst, q.1 < y := by
      have := (List.pairwise_cons.mp (by simpa using h : (q.1 :: l.map Prod.fst).Pairwise (· < ·))).1
      exact this
    have ht : (l.map Prod.fst).Pairwise (· < ·) :=
      (List.pairwise_cons.mp (by simpa using h : (q.1 :: l.map Prod.fst).Pairwise (· < ·))).2
    refine List.pairwise_append.mpr ⟨pairwise_le_replicate _ _, ih ht, ?_⟩
    intro a ha b hb
    have ea : a = q.1 := (List.mem_replicate.mp ha).2
    obtain ⟨q', hq', eb⟩ := mem_expand l b hb
    rw [ea, eb]
    exact le_of_lt (h' q'.1 (List.mem_map.mpr ⟨q', hq', rfl⟩))

end ExpandOrder

/-! ## make_knots -/

section Make
variable {K : Type} [Field K] [LinearOrder K] [IsStrictOrderedRing K]

/-- the (breakpoint, multiplicity) list behind `make_knots` -/
def mkPairs (p : ℕ) (a b : K) (n mult : ℕ) : List (K × ℕ) :=
  (a, p + 1) :: ((linspaceInterior a b n).map (fun x => (x, mult)) ++ [(b, p + 1)])

theorem makeKnots_eq_expand (p : ℕ) (a b : K) (n mult : ℕ) :
    makeKnots p a b n mult = expand (mkPairs p a b n mult) := by
  simp [makeKnots, mkPairs, expand, repeatEach, List.flatMap_append, List.flatMap_map]

/-- the step `h = (b-a)/n` reaches `b` after `n` steps -/
theorem last_breakpoint (a b : K) (n : ℕ) (hn : 1 ≤ n) : (n : K) * ((b - a) / (n : K)) + a = b := by
  have hm : (n : K) ≠ 0 := by
    have : (0 : K) < (n : K) := by exact_mod_cast hn
    exact ne_of_gt this
  field_simp
  ring

theorem mem_linspaceInterior (a b : K) (n : ℕ) (x : K) (hx : x ∈ linspaceInterior a b n) :
    ∃ i, i + 1 < n ∧ x = ((i + 1 : ℕ) : K) * ((b - a) / (n : K)) + a := by
  unfold linspaceInterior at hx
  obtain ⟨i, hi, rfl⟩ := List.mem_map.mp hx
  exact ⟨i, by have := List.mem_range.mp hi; omega, rfl⟩

theorem breakpoints_increasing (a b : K) (n : ℕ) (hab : a < b) (hn : 1 ≤ n) :
    (a :: (linspaceInterior a b n ++ [b])).Pairwise (· < ·) := by
  have hpos : (0 : K) < (n : K) := by exact_mod_cast hn
  have hh : 0 < (b - a) / (n : K) := div_pos (sub_pos.mpr hab) hpos
  have hb := last_breakpoint a b n hn
  have hlo : ∀ x ∈ linspaceInterior a b n, a < x := by
    intro x hx
    obtain ⟨i, _, rfl⟩ := mem_linspaceInterior a b n x hx
    have : (0 : K) < ((i + 1 : ℕ) : K) := by exact_mod_cast Nat.succ_pos i
    nlinarith
  have hhi : ∀ x ∈ linspaceInterior a b n, x < b := by
    intro x hx
    obtain ⟨i, hi, rfl⟩ := mem_linspaceInterior a b n x hx
    have : ((i + 1 : ℕ) : K) < (n : K) := by exact_mod_cast hi
    nlinarith
  refine List.pairwise_cons.mpr ⟨?_, List.pairwise_append.mpr ⟨?_, by simp, ?_⟩⟩
  · intro y hy
    rcases List.mem_append.mp hy with h | h
    · exact hlo y h
    · have : y = b := by simpa using h
      rw [this]; exact hab
  · unfold linspaceInterior
    rw [List.pairwise_map]
    refine List.Pairwise.imp ?_ (List.pairwise_lt_range (n := n - 1))
    intro i j hij
    have : ((i + 1 : ℕ) : K) < ((j + 1 : ℕ) : K) := by exact_mod_cast Nat.succ_lt_succ hij
    nlinarith
  · intro x hx y hy
    have : y = b := by simpa using hy
    rw [this]; exact hhi x hx

theorem mkPairs_fst (p : ℕ) (a b : K) (n mult : ℕ) :
    (mkPairs p a b n mult).map Prod.fst = a :: (linspaceInterior a b n ++ [b]) := by
  simp [mkPairs, List.map_map, Function.comp_def]

theorem linspaceInterior_length (a b : K) (n : ℕ) : (linspaceInterior a b n).length = n - 1 := by
  simp [linspaceInterior]

theorem repeatEach_length (xs : List K) (m : ℕ) : (repeatEach xs m).length = m * xs.length := by
  induction xs with
  | nil => simp [repeatEach]
  | cons x xs ih =>
    have : repeatEach (x :: xs) m = List.replicate m x ++ repeatEach xs m := by simp [repeatEach]
    rw [this, List.length_append, ih, List.length_replicate, List.length_cons]; ring

end Make

/-! ## greville -/

section Greville
variable {K : Type} [Field K] [LinearOrder K] [IsStrictOrderedRing K]

theorem clip_mem (g lo hi : K) (h : lo ≤ hi) : lo ≤ clip g lo hi ∧ clip g lo hi ≤ hi := by
  unfold clip
  by_cases h1 : g < lo
  · simp only [h1, if_true]
    have : ¬ hi < lo := not_lt.mpr h
    simp [this, h]
  · simp only [h1, if_false]
    by_cases h2 : hi < g
    · simp [h2, h]
    · simp only [h2, if_false]
      exact ⟨not_lt.mp h1, not_lt.mp h2⟩

theorem runningAvg_bounds (kv : List K) (p i : ℕ) (lo hi : K) (hp : 1 ≤ p)
    (hb : ∀ j, j < p → lo ≤ getK kv (i + 1 + j) ∧ getK kv (i + 1 + j) ≤ hi) :
    lo ≤ runningAvg kv p i ∧ runningAvg kv p i ≤ hi := by
  have hpp : (0 : K) < (p : K) := by exact_mod_cast hp
  have key : ∀ m, m ≤ p →
      (m : K) * lo / p ≤ (List.range m).foldl (fun acc j => acc + getK kv (i + 1 + j) * ((1 : K) / (p : K))) 0 ∧
      (List.range m).foldl (fun acc j => acc + getK kv (i + 1 + j) * ((1 : K) / (p : K))) 0 ≤ (m : K) * hi / p := by
    intro m
    induction m with
    | zero => intro _; simp
    | succ m ih =>
      intro hm
      have ihm := ih (by omega)
      have hbm := hb m (by omega)
      rw [List.range_succ, List.foldl_append]
      simp only [List.foldl_cons, List.foldl_nil]
      push_cast
      have e1 : ((m : K) + 1) * lo / p = (m : K) * lo / p + lo * (1 / (p : K)) := by field_simp
      have e2 : ((m : K) + 1) * hi / p = (m : K) * hi / p + hi * (1 / (p : K)) := by field_simp
      have hinv : (0 : K) ≤ 1 / (p : K) := le_of_lt (one_div_pos.mpr hpp)
      rw [e1, e2]
      exact ⟨add_le_add ihm.1 (mul_le_mul_of_nonneg_right hbm.1 hinv),
        add_le_add ihm.2 (mul_le_mul_of_nonneg_right hbm.2 hinv)⟩
  have := key p (le_refl _)
  unfold runningAvg
  have hne : (p : K) ≠ 0 := ne_of_gt hpp
  rw [mul_div_assoc, mul_comm, div_mul_cancel₀ _ hne] at this
  have h2 := this.2
  rw [mul_div_assoc, mul_comm, div_mul_cancel₀ _ hne] at h2
  exact ⟨this.1, h2⟩

end Greville

/-! ## refine (sorting) -/

section Sorting
variable {K : Type} [LinearOrder K]

theorem insertSorted_perm (x : K) : ∀ l : List K, (insertSorted x l).Perm (x :: l) := by
  intro l
  induction l with
  | nil => simp [insertSorted]
  | cons y ys ih =>
    unfold insertSorted
    by_cases h : x ≤ y
    · simp [h]
    · simp only [h, if_false]
      exact (List.Perm.cons y ih).trans (List.Perm.swap x y ys)

theorem sortL_perm : ∀ l : List K, (sortL l).Perm l := by
  intro l
  induction l with
  | nil => simp [sortL]
  | cons x xs ih =>
    unfold sortL
    exact (insertSorted_perm x _).trans (List.Perm.cons x ih)

theorem insertSorted_sorted (x : K) : ∀ l : List K, l.Pairwise (· ≤ ·) → (insertSorted x l).Pairwise (· ≤ ·) := by
  intro l
  induction l with
  | nil => intro _; simp [insertSorted]
  | cons y ys ih =>
    intro h
    unfold insertSorted
    have hy := (List.pairwise_cons.mp h)
    by_cases hxy : x ≤ y
    · simp only [hxy, if_true]
      refine List.pairwise_cons.mpr ⟨?_, h⟩
      intro z hz
      rcases List.mem_cons.mp hz with e | e
      · rw [e]; exact hxy
      · exact le_trans hxy (hy.1 z e)
    · simp only [hxy, if_false]
      refine List.pairwise_cons.mpr ⟨?_, ih hy.2⟩
      intro z hz
      have : z ∈ x :: ys := (insertSorted_perm x ys).subset hz
      rcases List.mem_cons.mp this with e | e
      · rw [e]; exact le_of_lt (not_le.mp hxy)
      · exact hy.1 z e

theorem sortL_sorted : ∀ l : List K, (sortL l).Pairwise (· ≤ ·) := by
  intro l
  induction l with
  | nil => simp [sortL]
  | cons x xs ih => unfold sortL; exact insertSorted_sorted x _ ih

end Sorting


/-! ## list ↔ accessor -/

section Glue
variable {K : Type} [LinearOrder K] [Zero K]

/-- a non-decreasing list is non-decreasing through the accessor `getK` -/
theorem getK_mono (kv : List K) (h : kv.Pairwise (· ≤ ·)) :
    ∀ i j, i ≤ j → j < kv.length → getK kv i ≤ getK kv j := by
  intro i j hij hj
  have hi : i < kv.length := by omega
  have ei : getK kv i = kv[i] := by simp [getK, List.getD_eq_getElem?_getD, hi]
  have ej : getK kv j = kv[j] := by simp [getK, List.getD_eq_getElem?_getD, hj]
  rw [ei, ej]
  rcases Nat.lt_or_eq_of_le hij with hlt | heq
  · exact List.pairwise_iff_getElem.mp h i j hi hj hlt
  · subst heq; exact le_refl _

end Glue

/-! ## uniform refinement -/

section Uniform
variable {K : Type} [LinearOrder K]

/-- for a non-decreasing list, `mesh` has as many entries as there are distinct values -/
theorem meshAux_card : ∀ (xs : List K) (prev : K), (prev :: xs).Pairwise (· ≤ ·) →
    (meshAux prev xs).length + 1 = (prev :: xs).toFinset.card := by
  intro xs
  induction xs with
  | nil => intro prev _; simp [meshAux]
  | cons x xs ih =>
    intro prev h
    have hpx : prev ≤ x := (List.pairwise_cons.mp h).1 x (by simp)
    have htail : (x :: xs).Pairwise (· ≤ ·) := (List.pairwise_cons.mp h).2
    have ihx := ih x htail
    by_cases hx : x = prev
    · subst hx
      simp only [meshAux, if_true]
      rw [ihx]
      simp
    · simp only [meshAux, hx, if_false, List.length_cons]
      rw [ihx]
      have hnot : prev ∉ (x :: xs).toFinset := by
        intro hmem
        have hmem' : prev ∈ x :: xs := List.mem_toFinset.mp hmem
        rcases List.mem_cons.mp hmem' with e | e
        · exact hx e.symm
        · have h1 : x ≤ prev := (List.pairwise_cons.mp htail).1 prev e
          exact hx (le_antisymm h1 hpx)
      rw [List.toFinset_cons (a := prev), Finset.card_insert_of_notMem hnot]

theorem mesh_card (l : List K) (h : l.Pairwise (· ≤ ·)) : (mesh l).length = l.toFinset.card := by
  cases l with
  | nil => simp [mesh]
  | cons x xs => simpa [mesh] using meshAux_card xs x h

end Uniform

section UniformField
variable {K : Type} [Field K] [LinearOrder K] [IsStrictOrderedRing K]

/-- midpoints of a strictly increasing list: strictly increasing, one fewer, each strictly between
its neighbours — in particular none of them is an element of the list -/
theorem midpoints_props : ∀ (l : List K), l.Pairwise (· < ·) →
    (midpoints l).length = l.length - 1 ∧ (midpoints l).Pairwise (· < ·) ∧
    (∀ m ∈ midpoints l, m ∉ l) ∧ (∀ m ∈ midpoints l, ∀ a, l.head? = some a → a < m) := by
  intro l
  induction l with
  | nil => intro _; simp [midpoints]
  | cons a l ih =>
    intro h
    cases l with
    | nil => simp [midpoints]
    | cons b rest =>
      have hab : a < b := (List.pairwise_cons.mp h).1 b (by simp)
      have htail : (b :: rest).Pairwise (· < ·) := (List.pairwise_cons.mp h).2
      obtain ⟨hl, hp, hnot, hhead⟩ := ih htail
      have h2 : (0 : K) < 2 := by norm_num
      have hm1 : a < (b + a) / ((2 : ℕ) : K) := by
        rw [lt_div_iff₀ (by exact_mod_cast h2)]; push_cast; linarith
      have hm2 : (b + a) / ((2 : ℕ) : K) < b := by
        rw [div_lt_iff₀ (by exact_mod_cast h2)]; push_cast; linarith
      have hmid : midpoints (a :: b :: rest) = (b + a) / ((2 : ℕ) : K) :: midpoints (b :: rest) := rfl
      rw [hmid]
      refine ⟨by simp [hl], ?_, ?_, ?_⟩
      · refine List.pairwise_cons.mpr ⟨?_, hp⟩
        intro m hm
        exact lt_trans hm2 (hhead m hm b rfl)
      · intro m hm
        rcases List.mem_cons.mp hm with e | e
        · rw [e]
          intro hmem
          rcases List.mem_cons.mp hmem with e1 | e1
          · exact absurd e1 (ne_of_gt hm1)
          · rcases List.mem_cons.mp e1 with e2 | e2
            · exact absurd e2 (ne_of_lt hm2)
            · have : b < (b + a) / ((2 : ℕ) : K) := (List.pairwise_cons.mp htail).1 _ e2
              exact absurd (lt_trans this hm2) (lt_irrefl _)
        · intro hmem
          rcases List.mem_cons.mp hmem with e1 | e1
          · have : b < m := hhead m e b rfl
            rw [e1] at this
            exact absurd (lt_trans hab this) (lt_irrefl _)
          · exact hnot m e e1
      · intro m hm a' ha'
        have : a' = a := by simpa using ha'.symm
        rw [this]
        rcases List.mem_cons.mp hm with e | e
        · rw [e]; exact hm1
        · exact lt_trans hab (hhead m e b rfl)

end UniformField

end Pyiga.Knots
