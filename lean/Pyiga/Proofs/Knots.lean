/-
Helper lemmas about `Pyiga.Model.Knots` (L-ord).  Order-theoretic facts are proved over an
arbitrary `LinearOrder`, arithmetic ones over an arbitrary linearly ordered field; the model
functions are the very ones the drivers execute over `Rat`.
-/
import Pyiga.Model.Knots
import Mathlib.Order.Defs.LinearOrder
import Mathlib.Order.Basic
import Mathlib.Tactic.Linarith
import Mathlib.Tactic.Ring
import Mathlib.Tactic.FieldSimp
import Mathlib.Algebra.Order.Field.Basic
import Mathlib.Data.List.Basic

namespace Pyiga.Knots

/-! ## findspan -/

section Findspan
variable {K : Type} [LinearOrder K]

/-- loop invariant `t a ≤ u < t b` ⇒ the loop returns `r ∈ [a, b)` with `t r ≤ u < t (r+1)`,
for any fuel `≥ b - a` (no monotonicity needed). -/
theorem findspanLoop_spec (t : ℕ → K) (u : K) :
    ∀ (fuel a b : ℕ), a < b → b - a ≤ fuel → t a ≤ u → u < t b →
      a ≤ findspanLoop t u fuel a b ∧ findspanLoop t u fuel a b < b ∧
      t (findspanLoop t u fuel a b) ≤ u ∧ u < t (findspanLoop t u fuel a b + 1) := by
  intro fuel
  induction fuel with
  | zero => intro a b hab hf; omega
  | succ f ih =>
    intro a b hab hf ha hb
    unfold findspanLoop
    by_cases h1 : b - a > 1
    · simp only [h1, if_true]
      have hc1 : a < a + (b - a) / 2 := by
        have : 1 ≤ (b - a) / 2 := by omega
        omega
      have hc2 : a + (b - a) / 2 < b := by omega
      by_cases h2 : t (a + (b - a) / 2) > u
      · simp only [h2, if_true]
        have := ih a (a + (b - a) / 2) hc1 (by omega) ha h2
        refine ⟨this.1, by omega, this.2.2.1, this.2.2.2⟩
      · simp only [h2, if_false]
        have hle : t (a + (b - a) / 2) ≤ u := not_lt.mp h2
        have := ih (a + (b - a) / 2) b hc2 (by omega) hle hb
        refine ⟨by omega, this.2.1, this.2.2.1, this.2.2.2⟩
    · simp only [h1, if_false]
      have hb1 : b = a + 1 := by omega
      subst hb1
      exact ⟨le_refl _, by omega, ha, hb⟩

/-- the result of the loop does not depend on the amount of fuel once it is `≥ b - a` -/
theorem findspanLoop_fuel (t : ℕ → K) (u : K) :
    ∀ (f1 f2 a b : ℕ), b - a ≤ f1 → b - a ≤ f2 →
      findspanLoop t u f1 a b = findspanLoop t u f2 a b := by
  intro f1
  induction f1 with
  | zero =>
    intro f2 a b h1 _
    cases f2 with
    | zero => rfl
    | succ g =>
      have : ¬ (b - a > 1) := by omega
      simp [findspanLoop, this]
  | succ f ih =>
    intro f2 a b h1 h2
    cases f2 with
    | zero =>
      have : ¬ (b - a > 1) := by omega
      simp [findspanLoop, this]
    | succ g =>
      unfold findspanLoop
      by_cases hh : b - a > 1
      · simp only [hh, if_true]
        by_cases h3 : t (a + (b - a) / 2) > u
        · simp only [h3, if_true]
          exact ih g a _ (by omega) (by omega)
        · simp only [h3, if_false]
          exact ih g _ b (by omega) (by omega)
      · simp only [hh, if_false]

/-- **findspan_spec** (interior case): for a knot sequence that is non-decreasing on
`[0, n)`, `2p+2 ≤ n`, and `kv[p] ≤ u < kv[n-p-1]`, `pyx_findspan` returns an index `s` with
`p ≤ s ≤ n-p-2` and `kv[s] ≤ u < kv[s+1]`. -/
theorem findspan_interior (t : ℕ → K) (n p : ℕ) (u : K) (hn : 2 * p + 2 ≤ n)
    (hmono : ∀ i j, i ≤ j → j < n → t i ≤ t j) (hlo : t p ≤ u) (hhi : u < t (n - p - 1)) :
    p ≤ findspan t n p u ∧ findspan t n p u ≤ n - p - 2 ∧
      t (findspan t n p u) ≤ u ∧ u < t (findspan t n p u + 1) := by
  unfold findspan
  have hge : ¬ (u ≥ t (n - p - 1)) := not_le.mpr hhi
  simp only [hge, if_false]
  have h0 : t 0 ≤ u := le_trans (hmono 0 p (Nat.zero_le _) (by omega)) hlo
  have hb : u < t (n - 1) := lt_of_lt_of_le hhi (hmono _ _ (by omega) (by omega))
  have hs := findspanLoop_spec t u n 0 (n - 1) (by omega) (by omega) h0 hb
  set s := findspanLoop t u n 0 (n - 1) with hsdef
  refine ⟨?_, ?_, hs.2.2.1, hs.2.2.2⟩
  · by_contra hlt
    have hlt' : s + 1 ≤ p := by omega
    have : t (s + 1) ≤ t p := hmono _ _ hlt' (by omega)
    exact absurd (lt_of_lt_of_le hs.2.2.2 (le_trans this hlo)) (lt_irrefl _)
  · by_contra hgt
    have hgt' : n - p - 1 ≤ s := by omega
    have : t (n - p - 1) ≤ t s := hmono _ _ hgt' (by omega)
    exact absurd (lt_of_lt_of_le hhi (le_trans this hs.2.2.1)) (lt_irrefl _)

/-- right end: `u ≥ kv[n-p-1]` returns `n-p-2` -/
theorem findspan_right (t : ℕ → K) (n p : ℕ) (u : K) (h : t (n - p - 1) ≤ u) :
    findspan t n p u = n - p - 2 := by
  unfold findspan
  have : u ≥ t (n - p - 1) := h
  simp [this]

/-- a non-decreasing sequence has at most one span `[t i, t (i+1))` containing `u` -/
theorem span_unique (t : ℕ → K) (n : ℕ) (u : K) (hmono : ∀ i j, i ≤ j → j < n → t i ≤ t j)
    (i j : ℕ) (hi : i + 1 < n) (hj : j + 1 < n)
    (h1 : t i ≤ u ∧ u < t (i + 1)) (h2 : t j ≤ u ∧ u < t (j + 1)) : i = j := by
  by_contra hne
  rcases Nat.lt_or_gt_of_ne hne with h | h
  · have : t (i + 1) ≤ t j := hmono _ _ (by omega) (by omega)
    exact absurd (lt_of_lt_of_le h1.2 (le_trans this h2.1)) (lt_irrefl _)
  · have : t (j + 1) ≤ t i := hmono _ _ (by omega) (by omega)
    exact absurd (lt_of_lt_of_le h2.2 (le_trans this h1.1)) (lt_irrefl _)

end Findspan

end Pyiga.Knots
