/-
Helper lemmas for L-hier: list-backed finite sets, the level sweeps, sorting.
-/
import Pyiga.Model.Hier

namespace Pyiga.Hier

/-! ### set algebra -/

@[simp] theorem mem_dedup {x : Idx} : ∀ {l : List Idx}, x ∈ dedup l ↔ x ∈ l
  | [] => by simp [dedup]
  | y :: ys => by
    have ih := @mem_dedup x ys
    unfold dedup
    split
    · rename_i h
      rw [ih]
      constructor
      · intro hx; exact List.mem_cons_of_mem _ hx
      · intro hx
        rcases List.mem_cons.1 hx with rfl | hx
        · exact mem_dedup.1 h
        · exact hx
    · simp [ih]

theorem nodup_dedup : ∀ (l : List Idx), (dedup l).Nodup
  | [] => by simp [dedup]
  | y :: ys => by
    have ih := nodup_dedup ys
    unfold dedup
    split
    · exact ih
    · rename_i h
      exact List.nodup_cons.2 ⟨h, ih⟩

@[simp] theorem dedup_nil : dedup [] = [] := rfl

@[simp] theorem mem_union {x : Idx} {a b : List Idx} : x ∈ union a b ↔ x ∈ a ∨ x ∈ b := by
  unfold union
  simp only [List.mem_append, List.mem_filter, decide_eq_true_eq]
  constructor
  · rintro (h | ⟨h, _⟩)
    · exact Or.inl h
    · exact Or.inr h
  · rintro (h | h)
    · exact Or.inl h
    · by_cases hx : x ∈ a
      · exact Or.inl hx
      · exact Or.inr ⟨h, hx⟩

@[simp] theorem mem_diff {x : Idx} {a b : List Idx} : x ∈ diff a b ↔ x ∈ a ∧ x ∉ b := by
  simp [diff]

@[simp] theorem mem_inter {x : Idx} {a b : List Idx} : x ∈ inter a b ↔ x ∈ a ∧ x ∈ b := by
  simp [inter]

@[simp] theorem subset_iff {a b : List Idx} : subset a b = true ↔ ∀ x ∈ a, x ∈ b := by
  simp [subset]

@[simp] theorem union_nil (a : List Idx) : union a [] = a := by simp [union]
@[simp] theorem diff_nil (a : List Idx) : diff a [] = a := by simp [diff]

theorem nodup_union {a b : List Idx} (ha : a.Nodup) (hb : b.Nodup) : (union a b).Nodup := by
  unfold union
  refine List.nodup_append.2 ⟨ha, hb.filter _, ?_⟩
  intro x hx y hy hxy
  subst hxy
  simp at hy
  exact hy.2 hx

theorem nodup_diff {a b : List Idx} (ha : a.Nodup) : (diff a b).Nodup := ha.filter _
theorem nodup_inter {a b : List Idx} (ha : a.Nodup) : (inter a b).Nodup := ha.filter _

theorem isEmpty_iff_forall_not_mem {l : List Idx} : l.isEmpty = true ↔ ∀ x, x ∉ l := by
  cases l with
  | nil => simp
  | cons y ys =>
    simp only [List.isEmpty_cons, Bool.false_eq_true, false_iff]
    intro h; exact h y (List.mem_cons_self ..)

/-! ### the sweeps -/

/-- A sweep whose step acts separately on the two levels is a level-wise map, provided the
"lower" action is the identity on the last level (which the loop `range(L-1)` never visits). -/
theorem sweepGo_eq_mapFrom {α : Type} (f g : Nat → α → α) :
    ∀ (rest : List α) (lv : Nat) (a : α), (∀ x, f (lv + rest.length) x = x) →
      sweepGo (fun lv a b => (f lv a, g (lv + 1) b)) lv a rest
        = f lv a :: mapFrom (fun i b => f i (g i b)) (lv + 1) rest
  | [], lv, a, h => by
    have := h a
    simp only [List.length_nil, Nat.add_zero] at this
    simp [sweepGo, mapFrom, this]
  | b :: rest, lv, a, h => by
    have ih := sweepGo_eq_mapFrom f g rest (lv + 1) (g (lv + 1) b)
      (by intro x; have := h x; simp only [List.length_cons] at this
          rwa [show lv + 1 + rest.length = lv + (rest.length + 1) by omega])
    simp only [sweepGo, mapFrom]
    rw [ih]

theorem sweep_eq_mapFrom {α : Type} (f g : Nat → α → α)
    (rest : List α) (lv : Nat) (a : α) (h : ∀ x, f (lv + rest.length) x = x) :
    sweep (fun lv a b => (f lv a, g (lv + 1) b)) lv (a :: rest)
      = f lv a :: mapFrom (fun i b => f i (g i b)) (lv + 1) rest :=
  sweepGo_eq_mapFrom f g rest lv a h

theorem mapFrom_mapFrom {α β γ : Type} (h1 : Nat → α → β) (h2 : Nat → β → γ) :
    ∀ (l : List α) (lv : Nat), mapFrom h2 lv (mapFrom h1 lv l) = mapFrom (fun i a => h2 i (h1 i a)) lv l
  | [], _ => rfl
  | a :: rest, lv => by simp [mapFrom, mapFrom_mapFrom h1 h2 rest (lv + 1)]

theorem map_mapFrom {α β γ : Type} (h1 : Nat → α → β) (h2 : β → γ) :
    ∀ (l : List α) (lv : Nat), (mapFrom h1 lv l).map h2 = mapFrom (fun i a => h2 (h1 i a)) lv l
  | [], _ => rfl
  | a :: rest, lv => by simp [mapFrom, map_mapFrom h1 h2 rest (lv + 1)]

theorem mapFrom_length {α β : Type} (h : Nat → α → β) :
    ∀ (l : List α) (lv : Nat), (mapFrom h lv l).length = l.length
  | [], _ => rfl
  | a :: rest, lv => by simp [mapFrom, mapFrom_length h rest (lv + 1)]

theorem mapFrom_congr {α β : Type} (h1 h2 : Nat → α → β) :
    ∀ (l : List α) (lv : Nat), (∀ i a, lv ≤ i → i < lv + l.length → h1 i a = h2 i a) →
      mapFrom h1 lv l = mapFrom h2 lv l
  | [], _, _ => rfl
  | a :: rest, lv, h => by
    simp only [mapFrom]
    rw [h lv a (Nat.le_refl _) (by simp), mapFrom_congr h1 h2 rest (lv + 1)
      (fun i a hi hi' => h i a (by omega) (by simp only [List.length_cons]; omega))]

end Pyiga.Hier
