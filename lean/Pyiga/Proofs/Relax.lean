/-
Helper lemmas for property C11, Gauss-Seidel part (Mathlib allowed here).
The abstract multigrid / driver / smoothing-set lemmas live in Proofs/RelaxMG.lean.
-/
import Pyiga.Model.Relax
import Mathlib.Tactic.Ring
import Mathlib.Tactic.Linarith
import Mathlib.Tactic.FieldSimp
import Mathlib.Tactic.LinearCombination
import Mathlib.Algebra.BigOperators.Group.Finset.Basic
import Mathlib.Algebra.BigOperators.Ring.Finset
import Mathlib.Algebra.BigOperators.Group.Finset.Sigma
import Mathlib.Algebra.Order.Field.Basic

namespace Pyiga.Relax

open Finset
set_option linter.unusedSectionVars false
set_option linter.unusedSimpArgs false

section field
variable {K : Type} [Field K] [DecidableEq K]

/-- the dense entry `a_ij` a stored CSR row denotes: duplicates are summed (scipy's
canonical form, `toarray()`, `sum_duplicates()`). -/
def rowVal (es : List (ℕ × K)) (j : ℕ) : K := ((es.filter (fun e => e.1 = j)).map (·.2)).sum

/-- `Σ a·x[col]` over all stored entries with `col ≠ i` -/
def offSum (es : List (ℕ × K)) (i : ℕ) (x : List K) : K :=
  ((es.filter (fun e => e.1 ≠ i)).map (fun e => e.2 * x.getD e.1 0)).sum

/-- value of the last stored entry in column `i`, `d` if there is none -/
def lastDiag (es : List (ℕ × K)) (i : ℕ) (d : K) : K :=
  es.foldl (fun d e => if i = e.1 then e.2 else d) d

theorem rowVal_nil (j : ℕ) : rowVal ([] : List (ℕ × K)) j = 0 := by simp [rowVal]

theorem rowVal_cons (e : ℕ × K) (es : List (ℕ × K)) (j : ℕ) :
    rowVal (e :: es) j = (if e.1 = j then e.2 else 0) + rowVal es j := by
  unfold rowVal
  by_cases h : e.1 = j <;> simp [List.filter_cons, h]

theorem offSum_cons (e : ℕ × K) (es : List (ℕ × K)) (i : ℕ) (x : List K) :
    offSum (e :: es) i x = (if e.1 = i then 0 else e.2 * x.getD e.1 0) + offSum es i x := by
  unfold offSum
  by_cases h : e.1 = i <;> simp [List.filter_cons, h]

/-- literal behaviour of the inner loop, no canonicity assumed. -/
theorem gsRowAcc_eq (i : ℕ) (x : List K) (es : List (ℕ × K)) (r0 d0 : K) :
    gsRowAcc i x es (r0, d0) = (r0 + offSum es i x, lastDiag es i d0) := by
  induction es generalizing r0 d0 with
  | nil => simp [gsRowAcc, offSum, lastDiag]
  | cons e es ih =>
    obtain ⟨j, a⟩ := e
    by_cases h : i = j
    · subst h
      simp [gsRowAcc, ih, offSum_cons, lastDiag]
    · have h' : ¬ j = i := fun hh => h hh.symm
      simp [gsRowAcc, h, ih, offSum_cons, h', lastDiag, add_assoc]

theorem lastDiag_of_no_diag (es : List (ℕ × K)) (i : ℕ) (d : K)
    (h : es.filter (fun e => e.1 = i) = []) : lastDiag es i d = d ∧ rowVal es i = 0 := by
  induction es generalizing d with
  | nil => simp [lastDiag, rowVal]
  | cons e es ih =>
    by_cases he : e.1 = i
    · simp [List.filter_cons, he] at h
    · have h2 : es.filter (fun e => e.1 = i) = [] := by simpa [List.filter_cons, he] using h
      have he' : ¬ i = e.1 := fun hh => he hh.symm
      have := ih d h2
      constructor
      · simpa [lastDiag, he'] using this.1
      · rw [rowVal_cons]; simp [he, this.2]

/-- with at most one stored diagonal entry the value used by the code is the dense `a_ii`. -/
theorem lastDiag_canonical (es : List (ℕ × K)) (i : ℕ)
    (h : (es.filter (fun e => e.1 = i)).length ≤ 1) : lastDiag es i 0 = rowVal es i := by
  suffices H : ∀ d, lastDiag es i d = if es.filter (fun e => e.1 = i) = [] then d else rowVal es i by
    have := H 0
    by_cases hh : es.filter (fun e => e.1 = i) = []
    · rw [this, if_pos hh]; exact (lastDiag_of_no_diag es i 0 hh).2.symm
    · rw [this, if_neg hh]
  induction es with
  | nil => intro d; simp [lastDiag]
  | cons e es ih =>
    intro d
    by_cases he : e.1 = i
    · have hlen : (es.filter (fun e => e.1 = i)).length = 0 := by
        simp [List.filter_cons, he] at h; simpa using h
      have hnil : es.filter (fun e => e.1 = i) = [] := List.length_eq_zero_iff.mp hlen
      have := lastDiag_of_no_diag es i e.2 hnil
      have hne : ¬ ((e :: es).filter (fun e => e.1 = i) = []) := by simp [List.filter_cons, he]
      rw [if_neg hne, rowVal_cons, this.2]
      simp only [he, if_true, add_zero]
      have : lastDiag (e :: es) i d = lastDiag es i e.2 := by simp [lastDiag, he.symm]
      rw [this]; exact (lastDiag_of_no_diag es i e.2 hnil).1
    · have h2 : (es.filter (fun e => e.1 = i)).length ≤ 1 := by simpa [List.filter_cons, he] using h
      have he' : ¬ i = e.1 := fun hh => he hh.symm
      have hstep : lastDiag (e :: es) i d = lastDiag es i d := by simp [lastDiag, he']
      have hf : (e :: es).filter (fun e => e.1 = i) = es.filter (fun e => e.1 = i) := by
        simp [List.filter_cons, he]
      rw [hstep, hf, ih h2 d, rowVal_cons]; simp [he]

/-- regrouping the stored off-diagonal entries by column. -/
theorem offSum_eq_sum (es : List (ℕ × K)) (i n : ℕ) (x : List K) (hcols : ∀ e ∈ es, e.1 < n) :
    offSum es i x = ∑ j ∈ (range n).erase i, rowVal es j * x.getD j 0 := by
  induction es with
  | nil => simp [offSum, rowVal]
  | cons e es ih =>
    have hc : ∀ e' ∈ es, e'.1 < n := fun e' he' => hcols e' (List.mem_cons_of_mem _ he')
    have hen : e.1 < n := hcols e List.mem_cons_self
    rw [offSum_cons, ih hc]
    simp only [rowVal_cons, add_mul, sum_add_distrib]
    congr 1
    by_cases h : e.1 = i
    · rw [if_pos h]
      symm
      apply sum_eq_zero
      intro j hj
      have : e.1 ≠ j := by rw [h]; exact fun hh => (ne_of_mem_erase hj) hh.symm
      simp [this]
    · rw [if_neg h]
      have hmem : e.1 ∈ (range n).erase i := mem_erase.mpr ⟨h, mem_range.mpr hen⟩
      have : ∀ j ∈ (range n).erase i, (if e.1 = j then e.2 else 0) * x.getD j 0
          = if e.1 = j then e.2 * x.getD e.1 0 else 0 := by
        intro j _; by_cases hj : e.1 = j <;> simp [hj]
      rw [sum_congr rfl this, sum_ite_eq, if_pos hmem]

theorem set_getD_self (x : List K) (i : ℕ) : x.set i (x.getD i 0) = x := by
  by_cases h : i < x.length
  · apply List.ext_getElem (by simp)
    intro j h1 h2
    by_cases hij : i = j
    · subst hij; simp [List.getD_eq_getElem?_getD, List.getElem?_eq_getElem h]
    · simp [List.getElem_set, hij]
  · exact List.set_eq_of_length_le (Nat.le_of_not_lt h)

theorem getD_set (x : List K) (i j : ℕ) (v : K) (hi : i < x.length) :
    (x.set i v).getD j 0 = if j = i then v else x.getD j 0 := by
  by_cases hij : j = i
  · subst hij; simp [List.getD_eq_getElem?_getD, hi]
  · have : i ≠ j := fun h => hij h.symm
    simp [List.getD_eq_getElem?_getD, List.getElem?_set, this, hij]

/-- **textbook form of one row update** (canonical diagonal, columns in range). -/
theorem gsUpdate_textbook (es : List (ℕ × K)) (b : ℕ → K) (x : List K) (i n : ℕ)
    (hdiag : (es.filter (fun e => e.1 = i)).length ≤ 1) (hcols : ∀ e ∈ es, e.1 < n) :
    gsUpdate es b x i =
      if rowVal es i ≠ 0 then
        x.set i ((b i - ∑ j ∈ (range n).erase i, rowVal es j * x.getD j 0) / rowVal es i)
      else x := by
  unfold gsUpdate
  simp only [gsRowAcc_eq, zero_add, lastDiag_canonical es i hdiag, offSum_eq_sum es i n x hcols]
  by_cases h : rowVal es i = 0 <;> simp [h]

theorem denseDot_eq_sum (n : ℕ) (r : ℕ → K) (x : List K) :
    denseDot n r x = ∑ j ∈ range n, r j * x.getD j 0 := by
  unfold denseDot
  induction n with
  | zero => simp
  | succ n ih => rw [List.range_succ, List.foldl_append, ih, sum_range_succ]; simp

theorem gs_dense_sparse (es : List (ℕ × K)) (A : ℕ → ℕ → K) (b : ℕ → K) (x : List K) (i n : ℕ)
    (hdiag : (es.filter (fun e => e.1 = i)).length ≤ 1) (hcols : ∀ e ∈ es, e.1 < n) (hi : i < n)
    (hne : rowVal es i ≠ 0) (hA : ∀ j < n, A i j = rowVal es j) :
    denseUpdate n A b x i = gsUpdate es b x i := by
  rw [gsUpdate_textbook es b x i n hdiag hcols, if_pos hne]
  unfold denseUpdate
  simp only [denseDot_eq_sum]
  have h1 : ∑ j ∈ range n, A i j * x.getD j 0 = ∑ j ∈ range n, rowVal es j * x.getD j 0 :=
    sum_congr rfl (fun j hj => by rw [hA j (mem_range.mp hj)])
  have h2 := add_sum_erase (range n) (fun j => rowVal es j * x.getD j 0) (mem_range.mpr hi)
  rw [h1, hA i hi]
  congr 2
  rw [← h2]; ring

theorem gsUpdate_fixed (es : List (ℕ × K)) (b : ℕ → K) (x : List K) (i n : ℕ)
    (hdiag : (es.filter (fun e => e.1 = i)).length ≤ 1) (hcols : ∀ e ∈ es, e.1 < n) (hi : i < n)
    (hrow : ∑ j ∈ range n, rowVal es j * x.getD j 0 = b i) : gsUpdate es b x i = x := by
  rw [gsUpdate_textbook es b x i n hdiag hcols]
  by_cases h : rowVal es i = 0
  · simp [h]
  · rw [if_pos h]
    have h2 := add_sum_erase (range n) (fun j => rowVal es j * x.getD j 0) (mem_range.mpr hi)
    have : (b i - ∑ j ∈ (range n).erase i, rowVal es j * x.getD j 0) / rowVal es i = x.getD i 0 := by
      rw [← hrow, ← h2]; field_simp; ring
    rw [this, set_getD_self]

/-! ### energy -/

/-- `E(x) = ½ xᵀAx − bᵀx` on the leading `n × n` block, `x` given as a function. -/
def energy (n : ℕ) (A : ℕ → ℕ → K) (b : ℕ → K) (x : ℕ → K) : K :=
  (1 / 2) * ∑ i ∈ range n, ∑ j ∈ range n, x i * A i j * x j - ∑ i ∈ range n, b i * x i

/-- expansion of the energy around `x` (symmetric `A`). -/
theorem energy_add (n : ℕ) (A : ℕ → ℕ → K) (b x y : ℕ → K)
    (hsym : ∀ i < n, ∀ j < n, A i j = A j i) [NeZero (2 : K)] :
    energy n A b (fun k => x k + y k) = energy n A b x
      + ∑ i ∈ range n, y i * (∑ j ∈ range n, A i j * x j - b i)
      + (1 / 2) * ∑ i ∈ range n, ∑ j ∈ range n, y i * A i j * y j := by
  unfold energy
  have hcomm : ∑ i ∈ range n, ∑ j ∈ range n, x i * A i j * y j
      = ∑ i ∈ range n, ∑ j ∈ range n, y i * A i j * x j := by
    rw [sum_comm]
    apply sum_congr rfl; intro i hi; apply sum_congr rfl; intro j hj
    rw [hsym j (mem_range.mp hj) i (mem_range.mp hi)]; ring
  have e1 : ∑ i ∈ range n, ∑ j ∈ range n, (x i + y i) * A i j * (x j + y j)
      = ∑ i ∈ range n, ∑ j ∈ range n, x i * A i j * x j
        + 2 * ∑ i ∈ range n, ∑ j ∈ range n, y i * A i j * x j
        + ∑ i ∈ range n, ∑ j ∈ range n, y i * A i j * y j := by
    have : ∀ i ∈ range n, ∑ j ∈ range n, (x i + y i) * A i j * (x j + y j)
        = ∑ j ∈ range n, x i * A i j * x j + ∑ j ∈ range n, x i * A i j * y j
          + ∑ j ∈ range n, y i * A i j * x j + ∑ j ∈ range n, y i * A i j * y j := by
      intro i _
      simp only [← sum_add_distrib]
      apply sum_congr rfl; intro j _; ring
    rw [sum_congr rfl this]
    simp only [sum_add_distrib]
    rw [hcomm]; ring
  have e2 : ∑ i ∈ range n, b i * (x i + y i) = ∑ i ∈ range n, b i * x i + ∑ i ∈ range n, b i * y i := by
    simp only [mul_add, sum_add_distrib]
  have e3 : ∑ i ∈ range n, y i * (∑ j ∈ range n, A i j * x j - b i)
      = ∑ i ∈ range n, ∑ j ∈ range n, y i * A i j * x j - ∑ i ∈ range n, b i * y i := by
    rw [← sum_sub_distrib]
    apply sum_congr rfl; intro i _
    rw [mul_sub, mul_sum]
    congr 1
    · apply sum_congr rfl; intro j _; ring
    · ring
  rw [e1, e2, e3]
  have h2 : (2 : K) ≠ 0 := NeZero.ne 2
  field_simp
  ring

/-- coordinate update `x_i += δ`: `E` changes by `δ·(A x − b)_i + ½ δ² a_ii`. -/
theorem energy_coord (n : ℕ) (A : ℕ → ℕ → K) (b x : ℕ → K) (i : ℕ) (δ : K) (hi : i < n)
    (hsym : ∀ i < n, ∀ j < n, A i j = A j i) [NeZero (2 : K)] :
    energy n A b (fun k => if k = i then x k + δ else x k) = energy n A b x
      + δ * (∑ j ∈ range n, A i j * x j - b i) + (1 / 2) * (δ * A i i * δ) := by
  have hx : (fun k => if k = i then x k + δ else x k) = fun k => x k + (if k = i then δ else 0) := by
    funext k; by_cases h : k = i <;> simp [h]
  rw [hx, energy_add n A b x _ hsym]
  have hmem : i ∈ range n := mem_range.mpr hi
  have s1 : ∑ k ∈ range n, (if k = i then δ else 0) * (∑ j ∈ range n, A k j * x j - b k)
      = δ * (∑ j ∈ range n, A i j * x j - b i) := by
    have : ∀ k ∈ range n, (if k = i then δ else 0) * (∑ j ∈ range n, A k j * x j - b k)
        = if k = i then δ * (∑ j ∈ range n, A i j * x j - b i) else 0 := by
      intro k _; by_cases h : k = i <;> simp [h]
    rw [sum_congr rfl this, sum_ite_eq', if_pos hmem]
  have s2 : ∑ k ∈ range n, ∑ j ∈ range n, (if k = i then δ else 0) * A k j * (if j = i then δ else 0)
      = δ * A i i * δ := by
    have inner : ∀ k ∈ range n, ∑ j ∈ range n, (if k = i then δ else 0) * A k j * (if j = i then δ else 0)
        = if k = i then δ * A i i * δ else 0 := by
      intro k _
      by_cases h : k = i
      · subst h
        have : ∀ j ∈ range n, (if k = k then δ else 0) * A k j * (if j = k then δ else 0)
            = if j = k then δ * A k k * δ else 0 := by
          intro j _; by_cases hj : j = k <;> simp [hj]
        rw [sum_congr rfl this, sum_ite_eq', if_pos hmem]; simp
      · simp [h]
    rw [sum_congr rfl inner, sum_ite_eq', if_pos hmem]
  rw [s1, s2]

/-- function view of the iterate: `x[j]` -/
def vecFn (x : List K) : ℕ → K := fun j => x.getD j 0

/-- residual of row `i`: `b_i − Σ_j a_ij x_j` -/
def rowRes (n : ℕ) (A : ℕ → ℕ → K) (b : ℕ → K) (x : List K) (i : ℕ) : K :=
  b i - ∑ j ∈ range n, A i j * x.getD j 0

theorem denseUpdate_length (n : ℕ) (A : ℕ → ℕ → K) (b : ℕ → K) (x : List K) (i : ℕ) :
    (denseUpdate n A b x i).length = x.length := by simp [denseUpdate]

theorem gsUpdate_length (es : List (ℕ × K)) (b : ℕ → K) (x : List K) (i : ℕ) :
    (gsUpdate es b x i).length = x.length := by
  unfold gsUpdate; dsimp only; split <;> simp

/-- **energy identity of one coordinate update**: `E` drops by `r_i² / (2 a_ii)`. -/
theorem denseUpdate_energy (n : ℕ) (A : ℕ → ℕ → K) (b : ℕ → K) (x : List K) (i : ℕ)
    (hi : i < n) (hlen : n ≤ x.length) (hsym : ∀ i < n, ∀ j < n, A i j = A j i)
    (hne : A i i ≠ 0) [NeZero (2 : K)] :
    energy n A b (vecFn (denseUpdate n A b x i))
      = energy n A b (vecFn x) - (rowRes n A b x i) ^ 2 / (2 * A i i) := by
  have hix : i < x.length := lt_of_lt_of_le hi hlen
  have hv : vecFn (denseUpdate n A b x i)
      = fun k => if k = i then vecFn x k + rowRes n A b x i / A i i else vecFn x k := by
    funext k
    unfold denseUpdate vecFn
    simp only [getD_set _ _ _ _ hix, denseDot_eq_sum]
    by_cases hk : k = i
    · subst hk; simp only [if_true]; unfold rowRes; field_simp; ring
    · simp [hk]
  rw [hv, energy_coord n A b (vecFn x) i _ hi hsym]
  have h2 : (2 : K) ≠ 0 := NeZero.ne 2
  have hr : ∑ j ∈ range n, A i j * vecFn x j - b i = - rowRes n A b x i := by
    unfold rowRes vecFn; ring
  rw [hr]; field_simp; ring

theorem gsSweep_cons (A : CSR K) (b : ℕ → K) (i : ℕ) (idx : List ℕ) (x : List K) :
    gsSweep A b (i :: idx) x = gsSweep A b idx (gsUpdate (A.row i) b x i) := rfl

theorem gsSweep_append (A : CSR K) (b : ℕ → K) (l₁ l₂ : List ℕ) (x : List K) :
    gsSweep A b (l₁ ++ l₂) x = gsSweep A b l₂ (gsSweep A b l₁ x) := by
  simp [gsSweep, List.foldl_append]

theorem gsSweep_fixed (A : CSR K) (b : ℕ → K) (idx : List ℕ) (x : List K) (n : ℕ)
    (h : ∀ i ∈ idx, i < n ∧ ((A.row i).filter (fun e => e.1 = i)).length ≤ 1 ∧
      (∀ e ∈ A.row i, e.1 < n) ∧ ∑ j ∈ range n, rowVal (A.row i) j * x.getD j 0 = b i) :
    gsSweep A b idx x = x := by
  induction idx with
  | nil => rfl
  | cons i idx ih =>
    obtain ⟨hi, hd, hc, hr⟩ := h i List.mem_cons_self
    rw [gsSweep_cons, gsUpdate_fixed (A.row i) b x i n hd hc hi hr]
    exact ih (fun j hj => h j (List.mem_cons_of_mem _ hj))

theorem iter_succ {β : Type} (f : β → β) (k : ℕ) (x : β) : iter f (k + 1) x = iter f k (f x) := rfl

theorem iter_invariant {β γ : Type} [Preorder γ] (f : β → β) (P : β → Prop) (E : β → γ)
    (hf : ∀ x, P x → P (f x) ∧ E (f x) ≤ E x) :
    ∀ k x, P x → P (iter f k x) ∧ E (iter f k x) ≤ E x := by
  intro k
  induction k with
  | zero => intro x hx; exact ⟨hx, le_refl _⟩
  | succ k ih =>
    intro x hx
    obtain ⟨h1, h2⟩ := hf x hx
    obtain ⟨h3, h4⟩ := ih (f x) h1
    exact ⟨h3, le_trans h4 h2⟩

end field

section ordered
variable {K : Type} [Field K] [LinearOrder K] [IsStrictOrderedRing K]

theorem denseUpdate_energy_le (n : ℕ) (A : ℕ → ℕ → K) (b : ℕ → K) (x : List K) (i : ℕ)
    (hi : i < n) (hlen : n ≤ x.length) (hsym : ∀ i < n, ∀ j < n, A i j = A j i)
    (hpos : 0 < A i i) :
    energy n A b (vecFn (denseUpdate n A b x i)) ≤ energy n A b (vecFn x) := by
  rw [denseUpdate_energy n A b x i hi hlen hsym (ne_of_gt hpos)]
  have : 0 ≤ (rowRes n A b x i) ^ 2 / (2 * A i i) :=
    div_nonneg (sq_nonneg _) (by linarith)
  linarith

theorem denseSweep_energy_le (n : ℕ) (A : ℕ → ℕ → K) (b : ℕ → K)
    (hsym : ∀ i < n, ∀ j < n, A i j = A j i) (idx : List ℕ)
    (hidx : ∀ i ∈ idx, i < n ∧ 0 < A i i) (x : List K) (hlen : n ≤ x.length) :
    n ≤ (denseSweep n A b idx x).length ∧
      energy n A b (vecFn (denseSweep n A b idx x)) ≤ energy n A b (vecFn x) := by
  induction idx generalizing x with
  | nil => exact ⟨hlen, le_refl _⟩
  | cons i idx ih =>
    obtain ⟨hi, hp⟩ := hidx i List.mem_cons_self
    have h1 := denseUpdate_energy_le n A b x i hi hlen hsym hp
    have hl : n ≤ (denseUpdate n A b x i).length := by rw [denseUpdate_length]; exact hlen
    obtain ⟨h2, h3⟩ := ih (fun j hj => hidx j (List.mem_cons_of_mem _ hj)) (denseUpdate n A b x i) hl
    exact ⟨h2, le_trans h3 h1⟩

theorem gaussSeidel_dense_energy_le (n : ℕ) (A : ℕ → ℕ → K) (b : ℕ → K)
    (hsym : ∀ i < n, ∀ j < n, A i j = A j i) (idx : List ℕ)
    (hidx : ∀ i ∈ idx, i < n ∧ 0 < A i i) (iterations : ℕ) (sweep : Sweep)
    (x : List K) (hlen : n ≤ x.length) :
    energy n A b (vecFn (gaussSeidel (denseSweep n A b) n (some idx) iterations sweep x))
      ≤ energy n A b (vecFn x) := by
  have hrev : ∀ i ∈ idx.reverse, i < n ∧ 0 < A i i := fun i hi => hidx i (List.mem_reverse.mp hi)
  unfold gaussSeidel
  simp only [Option.getD_some]
  cases sweep with
  | forward =>
    exact (iter_invariant (denseSweep n A b idx) (fun x => n ≤ x.length)
      (fun x => energy n A b (vecFn x))
      (fun x hx => denseSweep_energy_le n A b hsym idx hidx x hx) iterations x hlen).2
  | backward =>
    exact (iter_invariant (denseSweep n A b idx.reverse) (fun x => n ≤ x.length)
      (fun x => energy n A b (vecFn x))
      (fun x hx => denseSweep_energy_le n A b hsym idx.reverse hrev x hx) iterations x hlen).2
  | symmetric =>
    refine (iter_invariant (fun x => denseSweep n A b idx.reverse (denseSweep n A b idx x))
      (fun x => n ≤ x.length) (fun x => energy n A b (vecFn x)) ?_ iterations x hlen).2
    intro x hx
    obtain ⟨h1, h2⟩ := denseSweep_energy_le n A b hsym idx hidx x hx
    obtain ⟨h3, h4⟩ := denseSweep_energy_le n A b hsym idx.reverse hrev _ h1
    exact ⟨h3, le_trans h4 h2⟩

end ordered

end Pyiga.Relax
