/-
Helper lemmas for property C11 (Mathlib allowed here).
-/
import Pyiga.Model.Relax
import Mathlib.Tactic.Ring
import Mathlib.Tactic.Linarith
import Mathlib.Tactic.FieldSimp
import Mathlib.Algebra.BigOperators.Group.Finset.Basic

namespace Pyiga.Relax

end Pyiga.Relax
