/-
Index bookkeeping of `HSpace.boundary(bdspec)` (`Pyiga.Model.TransferBoundary`).

Write `s = strideOf d axis`, `n = axisSize d axis`.  Every raveled index decomposes as
`r = hi·(s·n) + dig·s + lo` with `dig = axisDigit d axis r`, `lo = r % s`, and
`faceIndex d axis r = hi·s + lo`.

* B1: on a face (equal `axis` digits) `faceIndex` is strictly order preserving, hence injective
  (`faceIndex_lt_iff`, `faceIndex_inj`; no positivity hypotheses needed), maps `[0, N·s·n)` into
  `[0, N·s)` (`faceIndex_lt`) and is onto with the explicit inverse `faceLift`
  (`faceIndex_faceLift`, `onFace_faceLift`, `faceLift_lt`, `faceLift_unique`, `existsUnique_onFace`).
* B2: `faceIndices` of a strictly increasing list is strictly increasing / duplicate free
  (`faceIndices_sorted`, `faceIndices_nodup`), and `faceIndices = facePositions.map (faceIndex ∘ ia[·])`
  (`faceIndices_eq_map_positions`, `faceIndices_length`, `faceIndices_getElem?`).
* B3: the returned index array `bdMap`: closed form (`bdMap_eq_flatMap`), strictly increasing
  (`bdMap_sorted`), membership (`mem_bdMap_iff`), every admissible `(l, q)` occurs exactly once
  (`bdMap_count_eq_one`, `offsetAt_add_inj`), length (`bdMap_length`), and the pointwise statement
  `bdMap_dof`: the `t`-th boundary dof of level `l` is mapped to the parent's active function with
  that face index.  Summary: `bdMap_bijection`.
-/
import Pyiga.Model.TransferBoundary
import Mathlib.Data.List.Sort
import Mathlib.Data.List.Basic
import Mathlib.Data.List.Nodup
import Mathlib.Data.List.Range
import Mathlib.Data.List.GetD
import Mathlib.Tactic.Ring

namespace Pyiga.Transfer

/-! ### Pure arithmetic -/

/-- lexicographic comparison of `a·s + lo` -/
theorem lex_lt_iff {s a a' lo lo' : Nat} (hlo : lo < s) (hlo' : lo' < s) :
    a * s + lo < a' * s + lo' ↔ a < a' ∨ (a = a' ∧ lo < lo') := by
  rcases Nat.lt_trichotomy a a' with h | h | h
  · have h1 : (a + 1) * s ≤ a' * s := Nat.mul_le_mul_right s h
    rw [Nat.add_mul] at h1
    constructor
    · intro _; exact Or.inl h
    · intro _; omega
  · subst h
    constructor
    · intro h'; exact Or.inr ⟨rfl, by omega⟩
    · rintro (h' | ⟨_, h'⟩) <;> omega
  · have h1 : (a' + 1) * s ≤ a * s := Nat.mul_le_mul_right s h
    rw [Nat.add_mul] at h1
    constructor
    · intro _; omega
    · rintro (h' | ⟨h', _⟩) <;> omega

/-- `r = hi·(s·n) + dig·s + lo` -/
theorem ravel_decomp (s n r : Nat) :
    r = (r / (s * n)) * (s * n) + ((r / s) % n) * s + r % s := by
  have h1 := Nat.div_add_mod r s
  have h2 := Nat.div_add_mod (r / s) n
  rw [Nat.div_div_eq_div_mul] at h2
  calc r = s * (r / s) + r % s := h1.symm
    _ = s * (n * (r / (s * n)) + (r / s) % n) + r % s := by rw [h2]
    _ = _ := by ring

theorem face_core (s n hi hi' dig lo lo' : Nat) (hn : 0 < n) (hlo : lo < s) (hlo' : lo' < s) :
    hi * (s * n) + dig * s + lo < hi' * (s * n) + dig * s + lo' ↔ hi * s + lo < hi' * s + lo' := by
  have e1 : hi * (s * n) + dig * s + lo = (hi * n + dig) * s + lo := by ring
  have e2 : hi' * (s * n) + dig * s + lo' = (hi' * n + dig) * s + lo' := by ring
  rw [e1, e2, lex_lt_iff hlo hlo', lex_lt_iff hlo hlo']
  have a : hi * n + dig < hi' * n + dig ↔ hi < hi' := by
    rw [Nat.add_lt_add_iff_right]; exact Nat.mul_lt_mul_right hn
  have b : hi * n + dig = hi' * n + dig ↔ hi = hi' := by
    constructor
    · intro h; exact Nat.eq_of_mul_eq_mul_right hn (Nat.add_right_cancel h)
    · intro h; rw [h]
  rw [a, b]

/-- B1, arithmetic form; holds for all `s`, `n` (including `0`) -/
theorem fi_lt_iff (s n r r' : Nat) (h : (r / s) % n = (r' / s) % n) :
    r < r' ↔ (r / (s * n)) * s + r % s < (r' / (s * n)) * s + r' % s := by
  rcases Nat.eq_zero_or_pos s with hs | hs
  · subst hs; simp
  rcases Nat.eq_zero_or_pos n with hn | hn
  · subst hn
    simp only [Nat.mod_zero] at h
    simp only [Nat.mul_zero, Nat.div_zero, Nat.zero_mul, Nat.zero_add]
    have h1 := Nat.div_add_mod r s
    have h2 := Nat.div_add_mod r' s
    rw [h] at h1
    omega
  · have key := face_core s n (r / (s * n)) (r' / (s * n)) ((r / s) % n) (r % s) (r' % s) hn
      (Nat.mod_lt _ hs) (Nat.mod_lt _ hs)
    have e1 := ravel_decomp s n r
    have e2 := ravel_decomp s n r'
    rw [← h] at e2
    rw [← e1, ← e2] at key
    exact key

theorem fi_lt (s n N r : Nat) (hr : r < N * (s * n)) : (r / (s * n)) * s + r % s < N * s := by
  rcases Nat.eq_zero_or_pos s with hs | hs
  · subst hs; simp at hr
  rcases Nat.eq_zero_or_pos n with hn | hn
  · subst hn; simp at hr
  have hsn : 0 < s * n := Nat.mul_pos hs hn
  have h1 : r / (s * n) < N := (Nat.div_lt_iff_lt_mul hsn).2 hr
  have h2 : (r / (s * n) + 1) * s ≤ N * s := Nat.mul_le_mul_right s h1
  rw [Nat.add_mul] at h2
  have h3 := Nat.mod_lt r hs
  omega

/-- the index with digits `(t / s, e, t % s)` -/
theorem lift_core (s n e t : Nat) (hs : 0 < s) (he : e < n) :
    ((t / s) * (s * n) + e * s + t % s) / (s * n) = t / s ∧
    ((t / s) * (s * n) + e * s + t % s) % s = t % s ∧
    (((t / s) * (s * n) + e * s + t % s) / s) % n = e := by
  have hn : 0 < n := Nat.lt_of_le_of_lt (Nat.zero_le _) he
  have hsn : 0 < s * n := Nat.mul_pos hs hn
  have hlo := Nat.mod_lt t hs
  have hb : (e + 1) * s ≤ n * s := Nat.mul_le_mul_right s he
  rw [Nat.add_mul, Nat.mul_comm n s] at hb
  have A := (Nat.div_mod_unique (a := (t / s) * (s * n) + e * s + t % s) (b := s * n)
    (d := t / s) (c := e * s + t % s) hsn).2 ⟨by ring, by omega⟩
  have B := (Nat.div_mod_unique (a := (t / s) * (s * n) + e * s + t % s) (b := s)
    (d := (t / s) * n + e) (c := t % s) hs).2 ⟨by ring, hlo⟩
  have C := (Nat.div_mod_unique (a := (t / s) * n + e) (b := n)
    (d := t / s) (c := e) hn).2 ⟨by ring, he⟩
  refine ⟨A.1, B.2, ?_⟩
  rw [B.1]; exact C.2

/-! ### B1: `faceIndex` on a face -/

theorem onFace_iff (d : List Nat) (axis side r : Nat) :
    onFace d axis side r = true ↔ axisDigit d axis r = endIndex d axis side := by
  simp [onFace]

/-- order preservation on a face (no positivity hypotheses needed) -/
theorem faceIndex_lt_iff (d : List Nat) (axis r r' : Nat)
    (h : axisDigit d axis r = axisDigit d axis r') :
    r < r' ↔ faceIndex d axis r < faceIndex d axis r' :=
  fi_lt_iff (strideOf d axis) (axisSize d axis) r r' h

theorem faceIndex_inj (d : List Nat) (axis r r' : Nat)
    (h : axisDigit d axis r = axisDigit d axis r')
    (hf : faceIndex d axis r = faceIndex d axis r') : r = r' := by
  rcases Nat.lt_trichotomy r r' with h1 | h1 | h1
  · have := (faceIndex_lt_iff d axis r r' h).1 h1; omega
  · exact h1
  · have := (faceIndex_lt_iff d axis r' r h.symm).1 h1; omega

theorem faceIndex_inj_onFace (d : List Nat) (axis side r r' : Nat)
    (h : onFace d axis side r = true) (h' : onFace d axis side r' = true)
    (hf : faceIndex d axis r = faceIndex d axis r') : r = r' :=
  faceIndex_inj d axis r r' (((onFace_iff ..).1 h).trans ((onFace_iff ..).1 h').symm) hf

/-- range: indices below `N·(s·n)` have face indices below `N·s` -/
theorem faceIndex_lt (d : List Nat) (axis N r : Nat)
    (hr : r < N * (strideOf d axis * axisSize d axis)) :
    faceIndex d axis r < N * strideOf d axis :=
  fi_lt _ _ N r hr

theorem endIndex_lt (d : List Nat) (axis side : Nat) (hn : 0 < axisSize d axis) :
    endIndex d axis side < axisSize d axis := by
  unfold endIndex; split <;> omega

/-- the function on the face `(axis, side)` with face index `t` -/
def faceLift (d : List Nat) (axis side t : Nat) : Nat :=
  (t / strideOf d axis) * (strideOf d axis * axisSize d axis)
    + endIndex d axis side * strideOf d axis + t % strideOf d axis

theorem faceIndex_faceLift (d : List Nat) (axis side t : Nat)
    (hs : 0 < strideOf d axis) (hn : 0 < axisSize d axis) :
    faceIndex d axis (faceLift d axis side t) = t := by
  obtain ⟨h1, h2, _⟩ := lift_core (strideOf d axis) (axisSize d axis) (endIndex d axis side) t hs
    (endIndex_lt d axis side hn)
  unfold faceIndex faceLift
  rw [h1, h2]
  exact Nat.div_add_mod' t _

theorem onFace_faceLift (d : List Nat) (axis side t : Nat)
    (hs : 0 < strideOf d axis) (hn : 0 < axisSize d axis) :
    onFace d axis side (faceLift d axis side t) = true := by
  rw [onFace_iff]
  exact (lift_core (strideOf d axis) (axisSize d axis) (endIndex d axis side) t hs
    (endIndex_lt d axis side hn)).2.2

theorem faceLift_lt (d : List Nat) (axis side N t : Nat)
    (hn : 0 < axisSize d axis) (ht : t < N * strideOf d axis) :
    faceLift d axis side t < N * (strideOf d axis * axisSize d axis) := by
  have hs : 0 < strideOf d axis := by
    rcases Nat.eq_zero_or_pos (strideOf d axis) with h | h
    · rw [h] at ht; simp at ht
    · exact h
  have he := endIndex_lt d axis side hn
  unfold faceLift
  generalize strideOf d axis = s at *
  generalize axisSize d axis = n at *
  generalize endIndex d axis side = e at *
  have h1 : t / s < N := (Nat.div_lt_iff_lt_mul hs).2 ht
  have h2 : (t / s + 1) * (s * n) ≤ N * (s * n) := Nat.mul_le_mul_right _ h1
  have h3 : (e + 1) * s ≤ n * s := Nat.mul_le_mul_right s he
  rw [Nat.add_mul] at h2 h3
  rw [Nat.mul_comm n s] at h3
  have h4 := Nat.mod_lt t hs
  omega

/-- uniqueness: the only function on the face with face index `t` is `faceLift t` -/
theorem faceLift_unique (d : List Nat) (axis side t r : Nat)
    (hs : 0 < strideOf d axis) (hn : 0 < axisSize d axis)
    (hr : onFace d axis side r = true) (hf : faceIndex d axis r = t) :
    r = faceLift d axis side t :=
  faceIndex_inj_onFace d axis side r _ hr (onFace_faceLift d axis side t hs hn)
    (hf.trans (faceIndex_faceLift d axis side t hs hn).symm)

theorem faceLift_faceIndex (d : List Nat) (axis side r : Nat)
    (hs : 0 < strideOf d axis) (hn : 0 < axisSize d axis)
    (hr : onFace d axis side r = true) :
    faceLift d axis side (faceIndex d axis r) = r :=
  (faceLift_unique d axis side _ r hs hn hr rfl).symm

/-- surjectivity onto the face space with uniqueness, including the ranges -/
theorem existsUnique_onFace (d : List Nat) (axis side N t : Nat)
    (hs : 0 < strideOf d axis) (hn : 0 < axisSize d axis) (ht : t < N * strideOf d axis) :
    ∃! r, r < N * (strideOf d axis * axisSize d axis) ∧ onFace d axis side r = true ∧
      faceIndex d axis r = t :=
  ⟨faceLift d axis side t,
    ⟨faceLift_lt d axis side N t hn ht, onFace_faceLift d axis side t hs hn,
      faceIndex_faceLift d axis side t hs hn⟩,
    fun r hr => faceLift_unique d axis side t r hs hn hr.2.1 hr.2.2⟩

/-! ### B2: `faceIndices` of a sorted list -/

theorem faceIndices_sorted (d : List Nat) (axis side : Nat) (idx : List Nat)
    (h : idx.Pairwise (· < ·)) : (faceIndices d axis side idx).Pairwise (· < ·) := by
  unfold faceIndices
  rw [List.pairwise_map]
  refine (h.filter _).imp_of_mem ?_
  intro a b ha hb hab
  have ha' := (onFace_iff ..).1 (List.mem_filter.1 ha).2
  have hb' := (onFace_iff ..).1 (List.mem_filter.1 hb).2
  exact (faceIndex_lt_iff d axis a b (ha'.trans hb'.symm)).1 hab

theorem faceIndices_nodup (d : List Nat) (axis side : Nat) (idx : List Nat)
    (h : idx.Pairwise (· < ·)) : (faceIndices d axis side idx).Nodup :=
  (faceIndices_sorted d axis side idx h).imp (fun h => Nat.ne_of_lt h)

/-- a filtered list in terms of the kept positions -/
theorem filter_eq_map_positions (p : Nat → Bool) (l : List Nat) :
    l.filter p = ((List.range l.length).filter (fun q => p (l.getD q 0))).map
      (fun q => l.getD q 0) := by
  induction l using List.reverseRecOn with
  | nil => simp
  | append_singleton l a ih =>
    rw [List.filter_append, List.length_append, List.length_singleton, List.range_succ,
      List.filter_append, List.map_append]
    congr 1
    · conv_lhs => rw [ih]
      have hc : ∀ q ∈ List.range l.length, (l ++ [a]).getD q 0 = l.getD q 0 := by
        intro q hq
        exact List.getD_append l [a] 0 q (List.mem_range.1 hq)
      rw [List.filter_congr (q := fun q => p ((l ++ [a]).getD q 0))
        (fun q hq => by rw [hc q hq])]
      apply List.map_congr_left
      intro q hq
      rw [hc q (List.mem_filter.1 hq).1]
    · have hl : (l ++ [a]).getD l.length 0 = a := by
        rw [List.getD_append_right l [a] 0 l.length (Nat.le_refl _)]; simp
      by_cases hp : p a = true
      · simp [hp]
      · simp [hp]

theorem mem_facePositions_iff (d : List Nat) (axis side : Nat) (ia : List Nat) (q : Nat) :
    q ∈ facePositions d axis side ia ↔ q < ia.length ∧ onFace d axis side (ia.getD q 0) = true := by
  unfold facePositions
  rw [List.mem_filter, List.mem_range]

theorem facePositions_sorted (d : List Nat) (axis side : Nat) (ia : List Nat) :
    (facePositions d axis side ia).Pairwise (· < ·) :=
  List.pairwise_lt_range.filter _

/-- `F = P.map (faceIndex ∘ ia[·])` -/
theorem faceIndices_eq_map_positions (d : List Nat) (axis side : Nat) (ia : List Nat) :
    faceIndices d axis side ia =
      (facePositions d axis side ia).map (fun q => faceIndex d axis (ia.getD q 0)) := by
  unfold faceIndices facePositions
  rw [filter_eq_map_positions (onFace d axis side) ia, List.map_map]
  rfl

theorem faceIndices_length (d : List Nat) (axis side : Nat) (ia : List Nat) :
    (faceIndices d axis side ia).length = (facePositions d axis side ia).length := by
  rw [faceIndices_eq_map_positions, List.length_map]

theorem faceIndices_getElem? (d : List Nat) (axis side : Nat) (ia : List Nat) (t : Nat) :
    (faceIndices d axis side ia)[t]? =
      ((facePositions d axis side ia)[t]?).map (fun q => faceIndex d axis (ia.getD q 0)) := by
  rw [faceIndices_eq_map_positions, List.getElem?_map]

/-- entry `t` of `faceIndices` is the face index of the parent entry at position `P[t]` -/
theorem faceIndices_entry (d : List Nat) (axis side : Nat) (ia : List Nat) (t : Nat)
    (ht : t < (faceIndices d axis side ia).length) :
    ∃ q, ∃ hq : q < ia.length, (facePositions d axis side ia)[t]? = some q ∧
      onFace d axis side ia[q] = true ∧
      (faceIndices d axis side ia)[t]? = some (faceIndex d axis ia[q]) := by
  rw [faceIndices_length] at ht
  obtain ⟨hq, hon⟩ := (mem_facePositions_iff d axis side ia _).1 (List.getElem_mem ht)
  have e := List.getD_eq_getElem (d := 0) ia hq
  refine ⟨(facePositions d axis side ia)[t], hq, List.getElem?_eq_getElem ht, ?_, ?_⟩
  · rw [← e]; exact hon
  · rw [faceIndices_getElem?, List.getElem?_eq_getElem ht, Option.map_some, e]

/-! ### Prefix sums (offsets) -/

theorem psum_cons_succ (a : Nat) (ns : List Nat) (l : Nat) :
    ((a :: ns).take (l + 1)).sum = a + (ns.take l).sum := by
  simp

theorem psum_le_sum (ns : List Nat) (l : Nat) : (ns.take l).sum ≤ ns.sum := by
  induction ns generalizing l with
  | nil => simp
  | cons a ns ih =>
    cases l with
    | zero => simp
    | succ l => rw [psum_cons_succ, List.sum_cons]; have := ih l; omega

theorem psum_succ (ns : List Nat) (l : Nat) (hl : l < ns.length) :
    (ns.take (l + 1)).sum = (ns.take l).sum + ns[l] := by
  induction ns generalizing l with
  | nil => simp at hl
  | cons a ns ih =>
    cases l with
    | zero => simp
    | succ l =>
      rw [psum_cons_succ, psum_cons_succ, ih l (by simpa using hl)]
      simp only [List.getElem_cons_succ]; omega

theorem psum_take_all (ns : List Nat) : (ns.take ns.length).sum = ns.sum := by
  rw [List.take_length]

/-- every `k < Σ ns` is `Σ_{l' < l} ns[l'] + t` with `t < ns[l]` -/
theorem psum_decomp (ns : List Nat) (k : Nat) (hk : k < ns.sum) :
    ∃ l t, ∃ hl : l < ns.length, t < ns[l] ∧ k = (ns.take l).sum + t := by
  induction ns generalizing k with
  | nil => simp at hk
  | cons a ns ih =>
    by_cases h : k < a
    · exact ⟨0, k, by simp, by simpa using h, by simp⟩
    · rw [List.sum_cons] at hk
      obtain ⟨l, t, hl, ht, e⟩ := ih (k - a) (by omega)
      refine ⟨l + 1, t, by simpa using hl, by simpa using ht, ?_⟩
      rw [psum_cons_succ]; omega

/-- the decomposition is unique -/
theorem psum_inj (ns : List Nat) (l l' t t' : Nat) (hl : l < ns.length) (hl' : l' < ns.length)
    (ht : t < ns[l]) (ht' : t' < ns[l'])
    (h : (ns.take l).sum + t = (ns.take l').sum + t') : l = l' ∧ t = t' := by
  induction ns generalizing l l' with
  | nil => simp at hl
  | cons a ns ih =>
    cases l with
    | zero =>
      cases l' with
      | zero => simpa using h
      | succ l' =>
        rw [psum_cons_succ] at h
        simp only [List.getElem_cons_zero, List.take_zero, List.sum_nil] at ht h
        omega
    | succ l =>
      cases l' with
      | zero =>
        rw [psum_cons_succ] at h
        simp only [List.getElem_cons_zero, List.take_zero, List.sum_nil] at ht' h
        omega
      | succ l' =>
        rw [psum_cons_succ, psum_cons_succ] at h
        simp only [List.getElem_cons_succ] at ht ht'
        have := ih l l' (by simpa using hl) (by simpa using hl') ht ht' (by omega)
        omega

/-- order: the decomposition is lexicographic -/
theorem psum_lt_iff (ns : List Nat) (l l' t t' : Nat) (hl : l < ns.length) (hl' : l' < ns.length)
    (ht : t < ns[l]) (ht' : t' < ns[l']) :
    (ns.take l).sum + t < (ns.take l').sum + t' ↔ l < l' ∨ (l = l' ∧ t < t') := by
  induction ns generalizing l l' with
  | nil => simp at hl
  | cons a ns ih =>
    cases l with
    | zero =>
      cases l' with
      | zero => simp
      | succ l' =>
        rw [psum_cons_succ]
        simp only [List.getElem_cons_zero, List.take_zero, List.sum_nil] at ht ⊢
        constructor
        · intro _; exact Or.inl (Nat.succ_pos _)
        · intro _; omega
    | succ l =>
      cases l' with
      | zero =>
        rw [psum_cons_succ]
        simp only [List.getElem_cons_zero, List.take_zero, List.sum_nil] at ht' ⊢
        constructor
        · intro _; omega
        · rintro (h | ⟨h, _⟩) <;> omega
      | succ l' =>
        rw [psum_cons_succ, psum_cons_succ]
        simp only [List.getElem_cons_succ] at ht ht'
        have := ih l l' (by simpa using hl) (by simpa using hl') ht ht'
        constructor
        · intro h
          rcases this.1 (by omega) with h' | ⟨h', h''⟩
          · exact Or.inl (by omega)
          · exact Or.inr ⟨by omega, h''⟩
        · rintro (h | ⟨h, h'⟩)
          · have := this.2 (Or.inl (by omega)); omega
          · have := this.2 (Or.inr ⟨by omega, h'⟩); omega

/-! ### B3: the returned index array -/

/-- canonical offset of level `l` in the parent space: `Σ_{l' < l} |IA[l']|` -/
def offsetAt (IA : List (List Nat)) (l : Nat) : Nat := ((IA.map List.length).take l).sum

/-- numbers of boundary dofs per level: `|faceIndices dims[l] axis side IA[l]|` -/
def bdLens (IA dims : List (List Nat)) (axis side : Nat) : List Nat :=
  List.zipWith (fun ia d => (faceIndices d axis side ia).length) IA dims

/-- canonical offset of level `l` in the boundary space: `Σ_{l' < l} |F_{l'}|` -/
def bdOffsetAt (IA dims : List (List Nat)) (axis side l : Nat) : Nat :=
  ((bdLens IA dims axis side).take l).sum

theorem offsetAt_zero (IA : List (List Nat)) : offsetAt IA 0 = 0 := by simp [offsetAt]

theorem offsetAt_cons_succ (ia : List Nat) (IAs : List (List Nat)) (l : Nat) :
    offsetAt (ia :: IAs) (l + 1) = ia.length + offsetAt IAs l := by
  simp [offsetAt]

theorem bdLens_length (IA dims : List (List Nat)) (axis side : Nat) :
    (bdLens IA dims axis side).length = min IA.length dims.length := by
  simp [bdLens]

theorem bdLens_getElem (IA dims : List (List Nat)) (axis side l : Nat)
    (hl : l < IA.length) (hd : l < dims.length) :
    (bdLens IA dims axis side)[l]'(by rw [bdLens_length]; omega) =
      (faceIndices dims[l] axis side IA[l]).length := by
  simp [bdLens]

theorem bdMapFrom_cons (axis side off : Nat) (ia : List Nat) (IAs : List (List Nat))
    (d : List Nat) (ds : List (List Nat)) :
    bdMapFrom axis side off (ia :: IAs) (d :: ds) =
      (facePositions d axis side ia).map (· + off)
        ++ bdMapFrom axis side (off + ia.length) IAs ds := rfl

theorem bdMapFrom_nil_left (axis side off : Nat) (dims : List (List Nat)) :
    bdMapFrom axis side off [] dims = [] := by
  simp [bdMapFrom]

theorem bdMapFrom_nil_right (axis side off : Nat) (IA : List (List Nat)) :
    bdMapFrom axis side off IA [] = [] := by
  cases IA <;> simp [bdMapFrom]

/-- closed form, with a start offset -/
theorem bdMapFrom_eq_flatMap (axis side : Nat) (IA dims : List (List Nat)) (off : Nat) :
    bdMapFrom axis side off IA dims =
      (List.range (min IA.length dims.length)).flatMap fun l =>
        (facePositions (dims.getD l []) axis side (IA.getD l [])).map (· + (off + offsetAt IA l)) := by
  induction IA generalizing dims off with
  | nil => simp [bdMapFrom_nil_left]
  | cons ia IAs ih =>
    cases dims with
    | nil => simp [bdMapFrom_nil_right]
    | cons d ds =>
      rw [bdMapFrom_cons, ih ds (off + ia.length)]
      simp only [List.length_cons, Nat.add_min_add_right]
      rw [List.range_succ_eq_map, List.flatMap_cons, List.flatMap_map]
      congr 1
      apply List.flatMap_congr
      intro l _
      simp only [Nat.succ_eq_add_one, List.getD_cons_succ, offsetAt_cons_succ,
        Nat.add_assoc]

/-- **closed form**: `bdMap = concat_l (P_l.map (· + offset_l))` -/
theorem bdMap_eq_flatMap (IA dims : List (List Nat)) (axis side : Nat) :
    bdMap IA dims axis side =
      (List.range (min IA.length dims.length)).flatMap fun l =>
        (facePositions (dims.getD l []) axis side (IA.getD l [])).map (· + offsetAt IA l) := by
  unfold bdMap
  rw [bdMapFrom_eq_flatMap]
  simp only [Nat.zero_add]

theorem bdMapFrom_length (axis side : Nat) (IA dims : List (List Nat)) (off : Nat) :
    (bdMapFrom axis side off IA dims).length = (bdLens IA dims axis side).sum := by
  induction IA generalizing dims off with
  | nil => simp [bdMapFrom_nil_left, bdLens]
  | cons ia IAs ih =>
    cases dims with
    | nil => simp [bdMapFrom_nil_right, bdLens]
    | cons d ds =>
      rw [bdMapFrom_cons, List.length_append, List.length_map, ih]
      simp only [bdLens, List.zipWith_cons_cons, List.sum_cons, faceIndices_length]

/-- the number of entries of the index array is the number of dofs of the boundary space -/
theorem bdMap_length (IA dims : List (List Nat)) (axis side : Nat) :
    (bdMap IA dims axis side).length = (bdLens IA dims axis side).sum :=
  bdMapFrom_length axis side IA dims 0

theorem mem_bdMapFrom_iff (axis side : Nat) (IA dims : List (List Nat)) (off x : Nat) :
    x ∈ bdMapFrom axis side off IA dims ↔
      ∃ l q, ∃ (hl : l < IA.length) (hd : l < dims.length) (hq : q < IA[l].length),
        onFace dims[l] axis side IA[l][q] = true ∧ x = off + offsetAt IA l + q := by
  rw [bdMapFrom_eq_flatMap, List.mem_flatMap]
  constructor
  · rintro ⟨l, hl, hx⟩
    rw [List.mem_range] at hl
    obtain ⟨q, hq, rfl⟩ := List.mem_map.1 hx
    have hl1 : l < IA.length := by omega
    have hl2 : l < dims.length := by omega
    rw [mem_facePositions_iff, List.getD_eq_getElem _ _ hl1, List.getD_eq_getElem _ _ hl2] at hq
    obtain ⟨hq1, hq2⟩ := hq
    rw [List.getD_eq_getElem _ _ hq1] at hq2
    exact ⟨l, q, hl1, hl2, hq1, hq2, by omega⟩
  · rintro ⟨l, q, hl, hd, hq, hon, rfl⟩
    refine ⟨l, List.mem_range.2 (by omega), List.mem_map.2 ⟨q, ?_, by omega⟩⟩
    rw [mem_facePositions_iff, List.getD_eq_getElem _ _ hl, List.getD_eq_getElem _ _ hd,
      List.getD_eq_getElem _ _ hq]
    exact ⟨hq, hon⟩

/-- **membership**: the entries are exactly `offset_l + q` with `IA[l][q]` on the face -/
theorem mem_bdMap_iff (IA dims : List (List Nat)) (axis side x : Nat) :
    x ∈ bdMap IA dims axis side ↔
      ∃ l q, ∃ (hl : l < IA.length) (hd : l < dims.length) (hq : q < IA[l].length),
        onFace dims[l] axis side IA[l][q] = true ∧ x = offsetAt IA l + q := by
  unfold bdMap
  rw [mem_bdMapFrom_iff]
  simp only [Nat.zero_add]

theorem bdMapFrom_sorted (axis side : Nat) (IA dims : List (List Nat)) (off : Nat) :
    (bdMapFrom axis side off IA dims).Pairwise (· < ·) := by
  induction IA generalizing dims off with
  | nil => simp [bdMapFrom_nil_left]
  | cons ia IAs ih =>
    cases dims with
    | nil => simp [bdMapFrom_nil_right]
    | cons d ds =>
      rw [bdMapFrom_cons, List.pairwise_append]
      refine ⟨?_, ih ds _, ?_⟩
      · rw [List.pairwise_map]
        exact (facePositions_sorted d axis side ia).imp (fun h => by omega)
      · intro a ha b hb
        obtain ⟨q, hq, rfl⟩ := List.mem_map.1 ha
        have hq' := ((mem_facePositions_iff ..).1 hq).1
        obtain ⟨l, q', _, _, _, _, rfl⟩ := (mem_bdMapFrom_iff ..).1 hb
        omega

/-- **canonical order is preserved**: the index array is strictly increasing -/
theorem bdMap_sorted (IA dims : List (List Nat)) (axis side : Nat) :
    (bdMap IA dims axis side).Pairwise (· < ·) :=
  bdMapFrom_sorted axis side IA dims 0

theorem bdMap_nodup (IA dims : List (List Nat)) (axis side : Nat) :
    (bdMap IA dims axis side).Nodup :=
  (bdMap_sorted IA dims axis side).imp (fun h => Nat.ne_of_lt h)

/-- the pair `(l, q)` is determined by the canonical index `offset_l + q` -/
theorem offsetAt_add_inj (IA : List (List Nat)) (l l' q q' : Nat)
    (hl : l < IA.length) (hl' : l' < IA.length) (hq : q < IA[l].length) (hq' : q' < IA[l'].length)
    (h : offsetAt IA l + q = offsetAt IA l' + q') : l = l' ∧ q = q' :=
  psum_inj (IA.map List.length) l l' q q' (by simpa using hl) (by simpa using hl')
    (by simpa using hq) (by simpa using hq') h

/-- **every kept parent function occurs exactly once** -/
theorem bdMap_count_eq_one (IA dims : List (List Nat)) (axis side l q : Nat)
    (hl : l < IA.length) (hd : l < dims.length) (hq : q < IA[l].length)
    (hon : onFace dims[l] axis side IA[l][q] = true) :
    (bdMap IA dims axis side).count (offsetAt IA l + q) = 1 :=
  List.count_eq_one_of_mem (bdMap_nodup IA dims axis side)
    ((mem_bdMap_iff ..).2 ⟨l, q, hl, hd, hq, hon, rfl⟩)

theorem bdMapFrom_getElem? (axis side : Nat) (IA dims : List (List Nat)) (off l t : Nat)
    (hl : l < IA.length) (hd : l < dims.length)
    (ht : t < (facePositions dims[l] axis side IA[l]).length) :
    (bdMapFrom axis side off IA dims)[bdOffsetAt IA dims axis side l + t]? =
      ((facePositions dims[l] axis side IA[l])[t]?).map (· + (off + offsetAt IA l)) := by
  induction IA generalizing dims off l with
  | nil => simp at hl
  | cons ia IAs ih =>
    cases dims with
    | nil => simp at hd
    | cons d ds =>
      rw [bdMapFrom_cons]
      cases l with
      | zero =>
        simp only [List.getElem_cons_zero] at ht ⊢
        simp only [bdOffsetAt, List.take_zero, List.sum_nil, Nat.zero_add, offsetAt_zero,
          Nat.add_zero]
        rw [List.getElem?_append_left (by simpa using ht), List.getElem?_map]
      | succ l =>
        simp only [List.getElem_cons_succ] at ht ⊢
        have e : bdOffsetAt (ia :: IAs) (d :: ds) axis side (l + 1) + t
            = ((facePositions d axis side ia).map (· + off)).length
              + (bdOffsetAt IAs ds axis side l + t) := by
          simp only [bdOffsetAt, bdLens, List.zipWith_cons_cons, psum_cons_succ,
            faceIndices_length, List.length_map]
          omega
        rw [e, List.getElem?_append_right (Nat.le_add_right _ _), Nat.add_sub_cancel_left,
          ih ds (off + ia.length) l (by simpa using hl) (by simpa using hd) ht,
          offsetAt_cons_succ, Nat.add_assoc]

/-- **the index array realises the bijection**: the `t`-th boundary dof of level `l`
(canonical index `bdOffsetAt … l + t` in the boundary space, raveled index
`(faceIndices dims[l] axis side IA[l])[t]`) is mapped to the parent's active function
`IA[l][q]` (canonical index `offsetAt IA l + q`) which lies on the face and has that face index. -/
theorem bdMap_dof (IA dims : List (List Nat)) (axis side l t : Nat)
    (hl : l < IA.length) (hd : l < dims.length)
    (ht : t < (faceIndices dims[l] axis side IA[l]).length) :
    ∃ q, ∃ hq : q < IA[l].length,
      (facePositions dims[l] axis side IA[l])[t]? = some q ∧
      (bdMap IA dims axis side)[bdOffsetAt IA dims axis side l + t]? = some (offsetAt IA l + q) ∧
      onFace dims[l] axis side IA[l][q] = true ∧
      (faceIndices dims[l] axis side IA[l])[t]? = some (faceIndex dims[l] axis IA[l][q]) := by
  obtain ⟨q, hq, hP, hon, hF⟩ := faceIndices_entry dims[l] axis side IA[l] t ht
  refine ⟨q, hq, hP, ?_, hon, hF⟩
  rw [faceIndices_length] at ht
  unfold bdMap
  rw [bdMapFrom_getElem? axis side IA dims 0 l t hl hd ht, hP, Option.map_some, Nat.zero_add,
    Nat.add_comm]

/-- every position of the index array is the boundary dof `(l, t)` for exactly one `(l, t)` -/
theorem bdMap_index_decomp (IA dims : List (List Nat)) (axis side k : Nat)
    (hk : k < (bdMap IA dims axis side).length) :
    ∃ l t, ∃ (hl : l < IA.length) (hd : l < dims.length),
      t < (faceIndices dims[l] axis side IA[l]).length ∧
      k = bdOffsetAt IA dims axis side l + t := by
  rw [bdMap_length] at hk
  obtain ⟨l, t, hl, ht, e⟩ := psum_decomp _ k hk
  have hl' := hl
  rw [bdLens_length] at hl'
  have hl1 : l < IA.length := by omega
  have hl2 : l < dims.length := by omega
  rw [bdLens_getElem IA dims axis side l hl1 hl2] at ht
  exact ⟨l, t, hl1, hl2, ht, e⟩

theorem bdOffsetAt_add_inj (IA dims : List (List Nat)) (axis side l l' t t' : Nat)
    (hl : l < IA.length) (hd : l < dims.length) (hl' : l' < IA.length) (hd' : l' < dims.length)
    (ht : t < (faceIndices dims[l] axis side IA[l]).length)
    (ht' : t' < (faceIndices dims[l'] axis side IA[l']).length)
    (h : bdOffsetAt IA dims axis side l + t = bdOffsetAt IA dims axis side l' + t') :
    l = l' ∧ t = t' :=
  psum_inj (bdLens IA dims axis side) l l' t t'
    (by rw [bdLens_length]; omega) (by rw [bdLens_length]; omega)
    (by rw [bdLens_getElem IA dims axis side l hl hd]; exact ht)
    (by rw [bdLens_getElem IA dims axis side l' hl' hd']; exact ht') h

/-- the canonical order of the boundary space is lexicographic in `(level, position in F_l)` -/
theorem bdOffsetAt_add_lt_iff (IA dims : List (List Nat)) (axis side l l' t t' : Nat)
    (hl : l < IA.length) (hd : l < dims.length) (hl' : l' < IA.length) (hd' : l' < dims.length)
    (ht : t < (faceIndices dims[l] axis side IA[l]).length)
    (ht' : t' < (faceIndices dims[l'] axis side IA[l']).length) :
    bdOffsetAt IA dims axis side l + t < bdOffsetAt IA dims axis side l' + t' ↔
      l < l' ∨ (l = l' ∧ t < t') :=
  psum_lt_iff (bdLens IA dims axis side) l l' t t'
    (by rw [bdLens_length]; omega) (by rw [bdLens_length]; omega)
    (by rw [bdLens_getElem IA dims axis side l hl hd]; exact ht)
    (by rw [bdLens_getElem IA dims axis side l' hl' hd']; exact ht')

/-- boundary dofs `(l, t)` below the total count -/
theorem bdOffsetAt_add_lt (IA dims : List (List Nat)) (axis side l t : Nat)
    (hl : l < IA.length) (hd : l < dims.length)
    (ht : t < (faceIndices dims[l] axis side IA[l]).length) :
    bdOffsetAt IA dims axis side l + t < (bdMap IA dims axis side).length := by
  have hlen : l < (bdLens IA dims axis side).length := by rw [bdLens_length]; omega
  have h1 := psum_succ (bdLens IA dims axis side) l hlen
  have h2 := psum_le_sum (bdLens IA dims axis side) (l + 1)
  rw [bdLens_getElem IA dims axis side l hl hd] at h1
  rw [bdMap_length]
  unfold bdOffsetAt
  omega

/-- the per-level active index lists of the boundary space are the `faceIndices` lists -/
theorem bdSpaceIndices_fst (IA ID dims : List (List Nat)) (axis side : Nat)
    (h1 : IA.length = ID.length) (h2 : IA.length = dims.length) :
    (bdSpaceIndices IA ID dims axis side).map (fun p => p.1.length) = bdLens IA dims axis side := by
  induction IA generalizing ID dims with
  | nil => simp [bdSpaceIndices, bdLens]
  | cons ia IAs ih =>
    cases ID with
    | nil => simp at h1
    | cons idl IDs =>
      cases dims with
      | nil => simp at h2
      | cons d ds =>
        have := ih IDs ds (by simpa using h1) (by simpa using h2)
        simp only [bdSpaceIndices, bdLens] at this ⊢
        simp only [List.zip_cons_cons, List.map_cons, List.zipWith_cons_cons, this]

/-- **Summary (B3)**.  For level lists `IA`, `dims` with every `IA[l]` strictly increasing:
the boundary space's dofs `(l, t)` (level `l`, `t`-th entry of the strictly increasing list
`F_l = faceIndices dims[l] axis side IA[l]`; canonical index `bdOffsetAt … l + t`) correspond
bijectively and monotonically, via `bdMap`, to the parent's active functions on the face. -/
theorem bdMap_bijection (IA dims : List (List Nat)) (axis side : Nat)
    (hsorted : ∀ ia ∈ IA, ia.Pairwise (· < ·)) :
    -- the index array is strictly increasing, of length = number of boundary dofs
    (bdMap IA dims axis side).Pairwise (· < ·) ∧
    (bdMap IA dims axis side).length = (bdLens IA dims axis side).sum ∧
    -- every level's boundary index list is strictly increasing
    (∀ l (hl : l < IA.length) (hd : l < dims.length),
      (faceIndices dims[l] axis side IA[l]).Pairwise (· < ·)) ∧
    -- every position `k` of the array is a unique boundary dof `(l, t)`
    (∀ k, k < (bdMap IA dims axis side).length →
      ∃ l t, ∃ (hl : l < IA.length) (hd : l < dims.length),
        t < (faceIndices dims[l] axis side IA[l]).length ∧
        k = bdOffsetAt IA dims axis side l + t) ∧
    (∀ l l' t t' (hl : l < IA.length) (hd : l < dims.length) (hl' : l' < IA.length)
      (hd' : l' < dims.length), t < (faceIndices dims[l] axis side IA[l]).length →
      t' < (faceIndices dims[l'] axis side IA[l']).length →
      bdOffsetAt IA dims axis side l + t = bdOffsetAt IA dims axis side l' + t' → l = l' ∧ t = t') ∧
    -- boundary dof `(l, t)` ↦ parent function `(l, q)` on the face with that face index
    (∀ l t (hl : l < IA.length) (hd : l < dims.length),
      t < (faceIndices dims[l] axis side IA[l]).length →
      ∃ q, ∃ hq : q < IA[l].length,
        (bdMap IA dims axis side)[bdOffsetAt IA dims axis side l + t]? = some (offsetAt IA l + q) ∧
        onFace dims[l] axis side IA[l][q] = true ∧
        (faceIndices dims[l] axis side IA[l])[t]? = some (faceIndex dims[l] axis IA[l][q])) ∧
    -- every parent function on the face is hit, exactly once
    (∀ l q (hl : l < IA.length) (hd : l < dims.length) (hq : q < IA[l].length),
      onFace dims[l] axis side IA[l][q] = true →
      (bdMap IA dims axis side).count (offsetAt IA l + q) = 1) ∧
    -- and nothing else is hit
    (∀ x ∈ bdMap IA dims axis side,
      ∃ l q, ∃ (hl : l < IA.length) (hd : l < dims.length) (hq : q < IA[l].length),
        onFace dims[l] axis side IA[l][q] = true ∧ x = offsetAt IA l + q) := by
  refine ⟨bdMap_sorted .., bdMap_length .., ?_, ?_, ?_, ?_, ?_, ?_⟩
  · intro l hl hd
    exact faceIndices_sorted _ _ _ _ (hsorted _ (List.getElem_mem hl))
  · intro k hk
    exact bdMap_index_decomp IA dims axis side k hk
  · intro l l' t t' hl hd hl' hd' ht ht' h
    exact bdOffsetAt_add_inj IA dims axis side l l' t t' hl hd hl' hd' ht ht' h
  · intro l t hl hd ht
    obtain ⟨q, hq, _, h1, h2, h3⟩ := bdMap_dof IA dims axis side l t hl hd ht
    exact ⟨q, hq, h1, h2, h3⟩
  · intro l q hl hd hq hon
    exact bdMap_count_eq_one IA dims axis side l q hl hd hq hon
  · intro x hx
    exact (mem_bdMap_iff ..).1 hx

/-! ### Non-vacuity -/

/-- dims `[3,4]`: axis 0 has stride 4, size 3; axis 1 has stride 1, size 4 -/
example : strideOf [3, 4] 0 = 4 ∧ axisSize [3, 4] 0 = 3 ∧ strideOf [3, 4] 1 = 1 ∧
    axisSize [3, 4] 1 = 4 := by decide

/-- axis 0, side 1 (last row `8..11`) and axis 1, side 0 (first column `0,4,8`) of a `3×4` level -/
example :
    faceIndices [3, 4] 0 1 [0, 1, 5, 8, 10, 11] = [0, 2, 3] ∧
    facePositions [3, 4] 0 1 [0, 1, 5, 8, 10, 11] = [3, 4, 5] ∧
    faceIndices [3, 4] 1 0 [0, 1, 5, 8, 10, 11] = [0, 2] ∧
    facePositions [3, 4] 1 0 [0, 1, 5, 8, 10, 11] = [0, 3] ∧
    faceLift [3, 4] 0 1 2 = 10 ∧ faceLift [3, 4] 1 0 2 = 8 := by decide

/-- two levels (`3×4` and `5×6`), both axes -/
example :
    bdMap [[0, 1, 5, 8, 10, 11], [0, 6, 7, 24, 25, 29]] [[3, 4], [5, 6]] 0 1 = [3, 4, 5, 9, 10, 11] ∧
    bdLens [[0, 1, 5, 8, 10, 11], [0, 6, 7, 24, 25, 29]] [[3, 4], [5, 6]] 0 1 = [3, 3] ∧
    faceIndices [5, 6] 0 1 [0, 6, 7, 24, 25, 29] = [0, 1, 5] ∧
    bdMap [[0, 1, 5, 8, 10, 11], [0, 6, 7, 24, 25, 29]] [[3, 4], [5, 6]] 1 0 = [0, 3, 6, 7, 9] ∧
    faceIndices [5, 6] 1 0 [0, 6, 7, 24, 25, 29] = [0, 1, 4] ∧
    bdOffsetAt [[0, 1, 5, 8, 10, 11], [0, 6, 7, 24, 25, 29]] [[3, 4], [5, 6]] 1 0 1 = 2 ∧
    offsetAt [[0, 1, 5, 8, 10, 11], [0, 6, 7, 24, 25, 29]] 1 = 6 := by decide

end Pyiga.Transfer
