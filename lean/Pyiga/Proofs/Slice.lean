/-
Helper lemmas for `Pyiga.Slice` (faces of tensor-product index sets): membership in
`itertools.product`, row-major order of the raveled face, the count, and the flip law
(`sliceMulti_flip`, used by C10 and C14).  No Mathlib needed.
-/
import Pyiga.Model.Slice
import Pyiga.Proofs.Index

namespace Pyiga.Slice
open Pyiga.Index

/-- `I` picks one element from each factor list -/
def Picks : List Nat → List (List Nat) → Prop
  | [], [] => True
  | a :: I, l :: ls => a ∈ l ∧ Picks I ls
  | _, _ => False

theorem mem_product : ∀ (ls : List (List Nat)) (I : List Nat), I ∈ product ls ↔ Picks I ls
  | [], [] => by simp [product, Picks]
  | [], _ :: _ => by simp [product, Picks]
  | l :: ls, [] => by simp [product, Picks]
  | l :: ls, a :: I => by
    simp only [product, List.mem_flatMap, List.mem_map, List.cons.injEq, Picks]
    constructor
    · rintro ⟨b, hb, J, hJ, rfl, rfl⟩
      exact ⟨hb, (mem_product ls J).1 hJ⟩
    · rintro ⟨ha, hI⟩
      exact ⟨a, ha, I, (mem_product ls I).2 hI, rfl, rfl⟩

theorem flatMap_congr' {α β : Type} {l : List α} {f g : α → List β} (h : ∀ a ∈ l, f a = g a) :
    l.flatMap f = l.flatMap g := by
  induction l with
  | nil => rfl
  | cons a l ih =>
    simp only [List.flatMap_cons]
    rw [h a (by simp), ih (fun b hb => h b (by simp [hb]))]

theorem length_product : ∀ (ls : List (List Nat)), (product ls).length = prod (ls.map List.length)
  | [] => rfl
  | l :: ls => by
    simp only [product, List.length_flatMap, List.length_map, List.map_cons, Index.prod_cons,
      length_product ls]
    induction l with
    | nil => simp
    | cons a l ih => simp only [List.map_cons, List.sum_cons, ih, List.length_cons, Nat.succ_mul, Nat.add_comm]

/-- every factor is strictly increasing with entries below the corresponding radix -/
def Factors : List (List Nat) → List Nat → Prop
  | [], [] => True
  | l :: ls, m :: ms => l.Pairwise (· < ·) ∧ (∀ a ∈ l, a < m) ∧ Factors ls ms
  | _, _ => False

theorem factors_below : ∀ (ls : List (List Nat)) (ms : List Nat), Factors ls ms →
    ∀ I, Picks I ls → Below I ms
  | [], [], _, [], _ => trivial
  | [], [], _, _ :: _, h => by simp [Picks] at h
  | l :: ls, m :: ms, hf, a :: I, h => ⟨hf.2.1 a h.1, factors_below ls ms hf.2.2 I h.2⟩
  | l :: ls, m :: ms, _, [], h => by simp [Picks] at h
  | [], _ :: _, hf, _, _ => by simp [Factors] at hf
  | _ :: _, [], hf, _, _ => by simp [Factors] at hf

/-- **row-major order**: the raveled product of increasing factors is strictly increasing -/
theorem product_toSeq_pairwise : ∀ (ls : List (List Nat)) (ms : List Nat), Factors ls ms →
    ((product ls).map (fun I => toSeq I ms)).Pairwise (· < ·)
  | [], [], _ => by simp [product]
  | l :: ls, m :: ms, hf => by
    have ih := product_toSeq_pairwise ls ms hf.2.2
    have hb : ∀ J ∈ product ls, Below J ms :=
      fun J hJ => factors_below ls ms hf.2.2 J ((mem_product ls J).1 hJ)
    have e : (product (l :: ls)).map (fun I => toSeq I (m :: ms)) =
        l.flatMap (fun a => (product ls).map (fun J => a * prod ms + toSeq J ms)) := by
      simp only [product, List.map_flatMap, List.map_map]
      apply flatMap_congr'
      intro a _
      apply List.map_congr_left
      intro J hJ
      exact toSeq_cons a m J ms (below_length (hb J hJ))
    rw [e, List.pairwise_flatMap]
    constructor
    · intro a _
      rw [List.pairwise_map] at ih ⊢
      exact ih.imp (fun h => Nat.add_lt_add_left h _)
    · apply hf.1.imp
      intro a b hab x hx y hy
      obtain ⟨J, hJ, rfl⟩ := List.mem_map.1 hx
      obtain ⟨K, _, rfl⟩ := List.mem_map.1 hy
      have hJlt := toSeq_lt J ms (hb J hJ)
      calc a * prod ms + toSeq J ms < a * prod ms + prod ms := Nat.add_lt_add_left hJlt _
        _ = (a + 1) * prod ms := by rw [Nat.add_mul, Nat.one_mul]
        _ ≤ b * prod ms := Nat.mul_le_mul_right _ hab
        _ ≤ b * prod ms + toSeq K ms := Nat.le_add_right _ _
  | [], _ :: _, hf => by simp [Factors] at hf
  | _ :: _, [], hf => by simp [Factors] at hf

/-! ### the unflipped face -/

theorem factors_range : ∀ (shape : List Nat), Factors (shape.map List.range) shape
  | [] => trivial
  | n :: shape => ⟨List.pairwise_lt_range, fun a ha => List.mem_range.1 ha, factors_range shape⟩

theorem factors_set : ∀ (ls : List (List Nat)) (shape : List Nat) (ax i : Nat), Factors ls shape →
    (∀ n, shape[ax]? = some n → i < n) → Factors (ls.set ax [i]) shape
  | [], [], _, _, _, _ => trivial
  | _ :: ls, m :: ms, 0, i, hf, hi => by
    refine ⟨by simp, ?_, hf.2.2⟩
    intro a ha
    have : a = i := by simpa using ha
    subst this
    exact hi m rfl
  | l :: ls, m :: ms, ax + 1, i, hf, hi =>
    ⟨hf.1, hf.2.1, factors_set ls ms ax i hf.2.2 (fun n hn => hi n (by simpa using hn))⟩
  | [], _ :: _, _, _, hf, _ => by simp [Factors] at hf
  | _ :: _, [], _, _, hf, _ => by simp [Factors] at hf

theorem picks_range : ∀ (shape I : List Nat), Picks I (shape.map List.range) ↔ Below I shape
  | [], [] => by simp [Picks, Below]
  | [], _ :: _ => by simp [Picks, Below]
  | _ :: _, [] => by simp [Picks, Below]
  | n :: shape, a :: I => by
    simp only [List.map_cons, Picks, Below, List.mem_range, picks_range shape I]

/-- members of the unflipped face: exactly the in-range multi-indices with coordinate `ax` equal `i` -/
theorem picks_face : ∀ (shape : List Nat) (ax i : Nat) (I : List Nat) (n : Nat),
    shape[ax]? = some n → i < n →
    (Picks I ((shape.map List.range).set ax [i]) ↔ Below I shape ∧ I[ax]? = some i)
  | [], _, _, _, _, h, _ => by simp at h
  | _ :: _, _, _, [], _, _, _ => by simp [Picks, Below]
  | m :: shape, 0, i, a :: I, n, h, hi => by
    have hm : m = n := by simpa using h
    subst hm
    simp only [List.map_cons, List.set_cons_zero, Picks, Below, List.mem_singleton,
      picks_range shape I, List.getElem?_cons_zero, Option.some.injEq]
    constructor
    · rintro ⟨rfl, hb⟩; exact ⟨⟨hi, hb⟩, rfl⟩
    · rintro ⟨⟨_, hb⟩, rfl⟩; exact ⟨rfl, hb⟩
  | m :: shape, ax + 1, i, a :: I, n, h, hi => by
    have h' : shape[ax]? = some n := by simpa using h
    simp only [List.map_cons, List.set_cons_succ, Picks, Below, List.mem_range,
      picks_face shape ax i I n h' hi, List.getElem?_cons_succ]
    exact ⟨fun ⟨h1, h2, h3⟩ => ⟨⟨h1, h2⟩, h3⟩, fun ⟨⟨h1, h2⟩, h3⟩ => ⟨h1, h2, h3⟩⟩

theorem prod_face : ∀ (shape : List Nat) (ax i : Nat), ax < shape.length →
    Index.prod (((shape.map List.range).set ax [i]).map List.length) = Index.prod (shape.eraseIdx ax)
  | [], _, _, h => by simp at h
  | m :: shape, 0, i, _ => by
    simp [Function.comp_def]
  | m :: shape, ax + 1, i, h => by
    have h' : ax < shape.length := by simpa using h
    simp only [List.map_cons, List.set_cons_succ, List.length_range, Index.prod_cons,
      List.eraseIdx_cons_succ, prod_face shape ax i h']

/-! ### flips -/

/-- a flipped axis enumerates `n-1-c` where the unflipped one enumerates `c` -/
def flipAxis (n : Nat) (f : Bool) (c : Nat) : Nat := if f then n - 1 - c else c

/-- coordinate map between the unflipped and the flipped enumeration of a face:
coordinate `k` becomes `shape[k] - 1 - c` on axes whose flag is set (axes without a flag are kept) -/
def flipCoords : List Nat → List Bool → List Nat → List Nat
  | n :: shape, f :: fs, c :: I => flipAxis n f c :: flipCoords shape fs I
  | _, _, I => I

theorem reverse_range_eq (n : Nat) : (List.range n).reverse = (List.range n).map (fun c => n - 1 - c) := by
  rw [List.range_eq_range', List.reverse_range', ← List.range_eq_range']
  simp

theorem flipped_factor (n : Nat) (f : Bool) :
    (if f then (List.range n).reverse else List.range n) = (List.range n).map (flipAxis n f) := by
  cases f
  · have : flipAxis n false = id := by funext c; simp [flipAxis]
    rw [this]; simp
  · simp only [if_true, reverse_range_eq]; rfl

theorem applyFlip_nil (ds : List (List Nat)) : applyFlip ds [] = ds := by
  cases ds <;> rfl

theorem flipCoords_nil_flags (shape I : List Nat) : flipCoords shape [] I = I := by
  cases shape <;> rfl

theorem product_cons_map (l : List Nat) (g : Nat → Nat) (X : List (List Nat)) (F : List Nat → List Nat) :
    (l.map g).flatMap (fun a => (X.map F).map (a :: ·)) =
      (l.flatMap (fun c => X.map (c :: ·))).map (fun I => match I with
        | c :: J => g c :: F J
        | [] => []) := by
  simp only [List.flatMap_map, List.map_flatMap, List.map_map]
  rfl

/-- without fixing an axis: flipping factors = mapping coordinates -/
theorem product_applyFlip : ∀ (shape : List Nat) (fs : List Bool),
    product (applyFlip (shape.map List.range) fs) = (product (shape.map List.range)).map (flipCoords shape fs)
  | [], fs => by cases fs <;> simp [applyFlip, product, flipCoords]
  | n :: shape, [] => by
    rw [applyFlip_nil]
    rw [List.map_congr_left (fun I _ => flipCoords_nil_flags (n :: shape) I), List.map_id']
  | n :: shape, f :: fs => by
    simp only [List.map_cons, applyFlip, product]
    rw [flipped_factor, product_applyFlip shape fs, product_cons_map]
    apply List.map_congr_left
    intro I hI
    obtain ⟨c, _, hc⟩ := List.mem_flatMap.1 hI
    obtain ⟨J, _, rfl⟩ := List.mem_map.1 hc
    rfl

/-- with axis `ax` fixed to `i` and no flip on that axis -/
theorem product_applyFlip_set : ∀ (shape : List Nat) (fs : List Bool) (ax i : Nat),
    fs[ax]?.getD false = false →
    product ((applyFlip (shape.map List.range) fs).set ax [i]) =
      (product ((shape.map List.range).set ax [i])).map (flipCoords shape fs)
  | [], fs, ax, i, _ => by cases fs <;> simp [applyFlip, product, flipCoords]
  | n :: shape, [], ax, i, _ => by
    rw [applyFlip_nil]
    rw [List.map_congr_left (fun I _ => flipCoords_nil_flags (n :: shape) I), List.map_id']
  | n :: shape, f :: fs, 0, i, h => by
    have hf : f = false := by simpa using h
    subst hf
    simp only [List.map_cons, applyFlip, List.set_cons_zero, product, List.flatMap_cons,
      List.flatMap_nil, List.append_nil, product_applyFlip shape fs, List.map_map]
    apply List.map_congr_left
    intro J _
    simp [flipCoords, flipAxis]
  | n :: shape, f :: fs, ax + 1, i, h => by
    have h' : fs[ax]?.getD false = false := by simpa using h
    simp only [List.map_cons, applyFlip, List.set_cons_succ, product]
    rw [flipped_factor, product_applyFlip_set shape fs ax i h', product_cons_map]
    apply List.map_congr_left
    intro I hI
    obtain ⟨c, _, hc⟩ := List.mem_flatMap.1 hI
    obtain ⟨J, _, rfl⟩ := List.mem_map.1 hc
    rfl

theorem insertFalse_getElem (ax : Nat) (fl : List Bool) : (insertFalse ax fl)[ax]?.getD false = false := by
  unfold insertFalse
  by_cases h : ax ≤ fl.length
  · rw [List.getElem?_append_right (by simp [h])]
    simp [Nat.min_eq_left h]
  · have hlen : (fl.take ax ++ false :: fl.drop ax).length ≤ ax := by
      simp; omega
    rcases Nat.lt_or_ge ax (fl.take ax ++ false :: fl.drop ax).length with h1 | h1
    · omega
    · rw [List.getElem?_eq_none h1]; rfl

/-- `boundary_dofs` on a non-empty axis: side 0 is index `0`, side 1 is index `n-1` (`idx = -1` wrapped) -/
theorem boundaryDofs_eq (N : List Nat) (bdax side n : Nat) (flip : Option (List Bool))
    (h : N[bdax]? = some n) (hn : 0 < n)
    (hflip : ∀ fl, flip = some fl → ((insertFalse bdax fl).drop N.length).any id = false) :
    boundaryDofs N bdax side flip = .ok (sliceRavel bdax (if side = 0 then 0 else n - 1) N flip) := by
  obtain ⟨hlt, hget⟩ := List.getElem?_eq_some_iff.1 h
  have w0 : wrapIdx 0 n = some 0 := by
    unfold wrapIdx; simp; omega
  have w1 : wrapIdx (-1) n = some (n - 1) := by
    unfold wrapIdx
    have h1 : ((-1 : Int) + (n : Int)).toNat = n - 1 := by omega
    have h2 : (0 : Int) ≤ -1 + (n : Int) ∧ (-1 : Int) + (n : Int) < (n : Int) := by omega
    simp [h1, h2]
  unfold boundaryDofs sliceIndices
  rw [dif_pos hlt]
  cases flip with
  | none =>
    by_cases hs : side = 0
    · simp [hs, hget, w0]
    · simp [hs, hget, w1]
  | some fl =>
    have hb := hflip fl rfl
    by_cases hs : side = 0
    · simp [hs, hget, w0, hb]
    · simp [hs, hget, w1, hb]

/-- **flip**: the `k`-th entry of the flipped face is the `k`-th entry of the unflipped face with
the coordinates of the flipped axes reversed (`c ↦ shape[j]-1-c`); axis `ax` itself is never
flipped (`flip[:ax] + (False,) + flip[ax:]`).  This is what makes `join_boundaries` pair
coincident dofs (used by C14). -/
theorem sliceMulti_flip (ax i : Nat) (shape : List Nat) (fl : List Bool) :
    sliceMulti ax i shape (some fl) =
      (sliceMulti ax i shape none).map (flipCoords shape (insertFalse ax fl)) := by
  unfold sliceMulti axDofs
  exact product_applyFlip_set shape (insertFalse ax fl) ax i (insertFalse_getElem ax fl)

end Pyiga.Slice
