/-
Helper lemmas for `Pyiga.Slice` (faces of tensor-product index sets).
-/
import Pyiga.Model.Slice
import Pyiga.Proofs.Index

namespace Pyiga.Slice

end Pyiga.Slice
