/-
Line protocol shared by all correspondence drivers (no Mathlib).

A request is one line of space-separated tokens.  Numbers are decimal integers
(`-3`) or exact rationals `num/den`.  Lists are length-prefixed:
`3 7 8 9` is `[7,8,9]`; nested lists are length-prefixed lists of
length-prefixed lists.  A driver answers every request with exactly one line.
Anything that does not parse is answered with `bad-request` (never defaulted).
-/

namespace Pyiga.Proto

/-- A tiny parser monad over the token list. -/
abbrev P := StateT (List String) Option

def tok : P String := do
  match (← get) with
  | [] => failure
  | t :: ts => set ts; pure t

def atEnd : P Bool := do pure (← get).isEmpty

def nat : P Nat := do
  let t ← tok
  match t.toNat? with
  | some n => pure n
  | none => failure

def int : P Int := do
  let t ← tok
  match t.toInt? with
  | some n => pure n
  | none => failure

def bool : P Bool := do
  let t ← tok
  if t == "1" || t == "T" then pure true
  else if t == "0" || t == "F" then pure false
  else failure

/-- `num/den` or a plain integer. -/
def rat : P Rat := do
  let t ← tok
  match t.splitOn "/" with
  | [a] => match a.toInt? with
    | some n => pure (n : Rat)
    | none => failure
  | [a, b] => match a.toInt?, b.toNat? with
    | some n, some d => if d == 0 then failure else pure (mkRat n d)
    | _, _ => failure
  | _ => failure

/-- length-prefixed list -/
def list (p : P α) : P (List α) := do
  let n ← nat
  let rec go : Nat → List α → P (List α)
    | 0, acc => pure acc.reverse
    | k+1, acc => do let a ← p; go k (a :: acc)
  go n []

def pair (p : P α) (q : P β) : P (α × β) := do
  let a ← p; let b ← q; pure (a, b)

/-- run a parser on a whole line; all tokens must be consumed. -/
def runLine (p : P α) (line : String) : Option α :=
  let toks := (line.splitOn " ").filter (· ≠ "")
  match p.run toks with
  | some (a, []) => some a
  | _ => none

/-! ### printing (canonical, order-defined) -/

def showRat (q : Rat) : String :=
  if q.den == 1 then toString q.num else s!"{q.num}/{q.den}"

def showList (f : α → String) (l : List α) : String :=
  " ".intercalate (toString l.length :: l.map f)

def showNats (l : List Nat) : String := showList toString l
def showInts (l : List Int) : String := showList toString l
def showRats (l : List Rat) : String := showList showRat l
def showPairs (l : List (Nat × Nat)) : String :=
  showList (fun (p : Nat × Nat) => s!"{p.1},{p.2}") l

/-- Standard driver loop: `handle` maps a line to its one-line answer. -/
partial def loop (h : IO.FS.Stream) (out : IO.FS.Stream) (handle : String → String) : IO Unit := do
  let line ← h.getLine
  if line.isEmpty then return ()
  out.putStrLn (handle line.trimAscii.toString)
  loop h out handle

def mainLoop (handle : String → String) : IO Unit := do
  let stdin ← IO.getStdin
  let stdout ← IO.getStdout
  loop stdin stdout handle
  stdout.flush

end Pyiga.Proto
