/-
REGENERATED on every run by /verif/translator/c13_keys.py from the tree under test — do not edit.
Tables: which stored attributes enter Expr.hash_key / the form-level hash() methods / the cache key
(Python ast of pyiga/vform.py and pyiga/compile.py, cross-checked by probing), and what the code
generator reads beyond the modelled projection.  The four obligations below are re-decided here.
-/
import Pyiga.Model.VForm

namespace Pyiga.Gen.HashKeys
open Pyiga.VForm

def keyTable : KeyTable :=
  [(.Const, [.value]),
   (.LitVec, []),
   (.LitMat, []),
   (.VarRef, [.varName, .I, .D, .parametric]),
   (.Neg, []),
   (.Builtin, [.funcname]),
   (.ScalarOper, [.oper]),
   (.TensorOper, [.oper]),
   (.Cross, []),
   (.Outer, []),
   (.PartialDeriv, [.bfName, .bfNumcomp, .bfComponent, .bfSpace, .D, .physical]),
   (.MatVec, []),
   (.MatMat, []),
   (.GaussWeight, [.axis]),
   (.VolumeMeasure, []),
   (.SurfaceMeasure, [])]

def fkeyTable : FKeyTable :=
  [.dim, .geoDim, .isBoundary, .arity, .vec, .spacetime, .basisFuns, .bfName, .bfNumcomp, .bfComponent, .bfSpace, .inputs, .inName, .inShape, .inPhysical, .inUpdatable, .vars, .varName, .varSrc, .varShape, .varSymmetric, .varDeriv, .parName, .parShape, .exprs, .onDemand]

/-- `Expr.hash` = hash((type(self), self.shape) + self.hash_key() + child_hashes) -/
def baseHashHasTypeShapeChildren : Bool := true

/-- attribute reads of the code generator that the modelled projection does not know -/
def unknownCodegenReads : List String := []

/-- disagreements between the ast extraction and the probing of live instances -/
def extractionMismatches : List String := []

/-- how `compile_cython_module` names the on-disk module (ast of compile.py): `'mod' + hashlib.shake_128(src.encode()).hexdigest(8)` -/
def modnameAlg : String := "shake_128"
def modnameBits : Nat := 64
def modnameOfFullSource : Bool := true
def cryptographicDigests : List String :=
  ["shake_128", "shake_256", "md5", "sha1", "sha224", "sha256", "sha384", "sha512", "sha3_224", "sha3_256", "sha3_384", "sha3_512", "blake2b", "blake2s"]

theorem keyTable_complete : KeyTableComplete keyTable = true := by decide
theorem fkeyTable_complete : FKeyTableComplete fkeyTable = true := by decide
theorem base_hash_ok : baseHashHasTypeShapeChildren = true := by decide
theorem codegen_reads_known : unknownCodegenReads = [] := by decide
theorem extraction_consistent : extractionMismatches = [] := by decide
/-- the module name is a cryptographic digest of at least 64 bits of the *whole* generated source -/
theorem modname_digest_ok : (cryptographicDigests.contains modnameAlg && decide (64 ≤ modnameBits) && modnameOfFullSource) = true := by decide

end Pyiga.Gen.HashKeys
