#!/bin/bash
# MANIFEST.setup_cmd — run once after a fresh restore (offline): build /repo's extensions in
# place and, per claimed property, its Lean theorems (Pyiga.Props.Cxx and what it imports) and its
# line-protocol driver.  A property whose Lean targets fail to build does not stop the others
# (its own check will then report an infrastructure error); every check rebuilds what it needs
# anyway (no-op when up to date).
cd "$(dirname "$0")"
(cd /repo && /venv/bin/python setup.py build_ext --inplace -j 8 > /tmp/verif_build_ext.log 2>&1) || { tail -50 /tmp/verif_build_ext.log; exit 1; }
cd lean
fail=""
for pid in $(python3 -c "import json;print(' '.join(c['property_id'] for c in json.load(open('../MANIFEST.json'))['checks']))"); do
  n=$(echo "$pid" | tr 'A-Z' 'a-z')
  targets=""
  [ -e "Pyiga/Props/$pid.lean" ] && targets="$targets Pyiga.Props.$pid"
  [ -e "Drivers/$pid.lean" ] && targets="$targets drv_$n"
  [ -z "$targets" ] && continue
  if lake build $targets > /tmp/verif_lake_$pid.log 2>&1; then
    echo "setup: $pid built ($targets)"
  else
    echo "setup: WARNING $pid failed to build:"; grep -A8 "error:" /tmp/verif_lake_$pid.log | head -40
    fail="$fail $pid"
  fi
done
[ -n "$fail" ] && echo "setup: properties with Lean build failures:$fail"
exit 0
