#!/bin/bash
# Run once after a fresh restore (offline): build /repo's extensions in place and the
# whole Lean project (library with all theorems + every line-protocol driver).
set -e
cd "$(dirname "$0")"
(cd /repo && /venv/bin/python setup.py build_ext --inplace -j 8 > /tmp/verif_build_ext.log 2>&1) || { tail -50 /tmp/verif_build_ext.log; exit 1; }
cd lean
targets="Pyiga"
for f in Drivers/C*.lean; do
  [ -e "$f" ] || continue
  n=$(basename "$f" .lean | tr 'A-Z' 'a-z')
  targets="$targets drv_$n"
done
lake build $targets
