#!/usr/bin/env python3
"""Regenerates MANIFEST.json from harness/manifest.d/Cxx.json (one file per claimed property:
keys text, note, technique) and harness/manifest.d/not_claimed.json (optional reasons)."""
import json, os, sys
sys.path.insert(0, os.path.dirname(os.path.abspath(__file__)))
HERE = os.path.dirname(os.path.abspath(__file__))
MD = os.path.join(HERE, 'harness', 'manifest.d')
CHECKS = {fn[:-5]: json.load(open(os.path.join(MD, fn))) for fn in sorted(os.listdir(MD)) if fn.startswith('C') and fn.endswith('.json')}
nc = os.path.join(MD, 'not_claimed.json')
NOT_CLAIMED = json.load(open(nc)) if os.path.exists(nc) else {}
props = [json.loads(l) for l in open(os.path.join(os.path.dirname(os.path.abspath(__file__)), 'properties.jsonl'))]
ids = [p['id'] for p in props]
checks = []
for pid in ids:
    if pid in CHECKS:
        c = CHECKS[pid]
        checks.append({
            'property_id': pid,
            'quick_cmd': './check %s --tier quick' % pid,
            'thorough_cmd': './check %s --tier thorough' % pid,
            'evidence_file': 'evidence/%s.json' % pid,
            'replay_cmd_template': './check %s --replay {path}' % pid,
            'engine': 'lean4+correspondence',
            'level_claimed': {'category': 'proof', 'text': c['text'], 'design_ref': 'DESIGN.md §6/%s' % pid},
            'level_note': c['note'],
            'technique': c['technique'],
        })
na = [{'property_id': pid, 'reason': NOT_CLAIMED.get(pid, 'check not built yet (the technique applies; see DESIGN.md §10)')}
      for pid in ids if pid not in CHECKS]
man = {
    'version': 1,
    'setup_cmd': './setup.sh',
    'hooks': {'guard': 'PYIGA_VERIF', 'enable': 'PYIGA_VERIF=1 in the environment of the process importing pyiga (only harness/c20.py sets it)',
              'baseline_off_cmd': 'cd /repo && env -u PYIGA_VERIF /venv/bin/python -m pytest -ra -q -p no:cacheprovider --timeout=900 --continue-on-collection-errors',
              'source_commits': ['667b87521adb1c72e1289691d82977fd389baeb5'], 'add_only': True},
    'engines': [{'name': 'lean4+correspondence', 'path': 'lean/ + harness/', 'serves_properties': sorted(CHECKS),
                 'kind_free_text': 'Lean 4 theorems about an executable model (lean/Pyiga), tied to /repo on every run by a differential correspondence check through compiled line-protocol drivers (lean/Drivers) and/or by translators regenerating Lean from the source (translator/); model-free oracles search for a failing input when either breaks'}],
    'checks': checks,
    'not_applicable': na,
    'notes': 'see DESIGN.md; known_findings.json lists recorded and fixed defects',
}
json.dump(man, open(os.path.join(os.path.dirname(os.path.abspath(__file__)), 'MANIFEST.json'), 'w'), indent=1)
print('checks:', [c['property_id'] for c in checks])
